(* Stream `fuzz` (C09): glue code without a Coq model. Testing only: the observation must not be a panic or a hang.
   The "model" side echoes the observation (there is nothing to compare); the spec predicate is the recover oracle. *)
open Streams
let rec has_crash = function
  | Sx.A "panic" | Sx.A "fuel" -> true
  | Sx.A _ -> false
  | Sx.L l -> List.exists has_crash l
let run (_prop : string) (inp : Sx.t) (obs : Sx.t) : outcome =
  let cls = match inp with Sx.L (Sx.A k :: _) -> k | _ -> "?" in
  let garbage_harmless = match cls, obs with
    | "session", Sx.L [st; n; Sx.A "F"] -> st = Sx.A "insession" && n = Sx.A "1"   (* garbage in between: the next message is processed *)
    | _ -> true in
  if has_crash obs then { model = obs; spec_ok = false; spec_msg = "sig=panic " ^ cls ^ " panicked or hung"; cls; nontrivial = true }
  else { model = obs; spec_ok = garbage_harmless; spec_msg = "sig=garbage-not-harmless a session that received garbage did not process the next well-formed message";
         cls; nontrivial = true }
let () = register "fuzz" run
