(* driver <stream> <property> < cases  : one line per case  id \t status \t class \t nontrivial \t detail
   status: ok | mismatch | specfail | specfail+mismatch | error *)
let () =
  let stream = Sys.argv.(1) in
  let prop = if Array.length Sys.argv > 2 then Sys.argv.(2) else "" in
  let f = try List.assoc stream !Streams.table with Not_found -> (prerr_endline ("unknown stream " ^ stream); exit 2) in
  let proj = try List.assoc stream !Streams.projections with Not_found -> (fun _ _ x -> x) in
  (try
    while true do
      let line = input_line stdin in
      match String.split_on_char '\t' line with
      | [id; inp; obs] ->
          (try
            let i = Sx.parse inp and o = Sx.parse obs in
            let r = f prop i o in
            let ms = Sx.to_string (proj prop i r.Streams.model) in
            let mism = ms <> Sx.to_string (proj prop i o) in
            let status = match r.Streams.spec_ok, mism with
              | true, false -> "ok" | true, true -> "mismatch"
              | false, false -> "specfail" | false, true -> "specfail+mismatch" in
            let detail =
              (if mism then "model=" ^ ms else "") ^
              (if not r.Streams.spec_ok then (if mism then " " else "") ^ "spec=" ^ r.Streams.spec_msg else "") in
            Printf.printf "%s\t%s\t%s\t%s\t%s\n" id status r.Streams.cls (if r.Streams.nontrivial then "1" else "0") detail
          with e -> Printf.printf "%s\terror\t-\t0\t%s\n" id (Printexc.to_string e))
      | _ -> ()
    done
  with End_of_file -> ())
