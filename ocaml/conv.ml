(* Conversions between OCaml values / s-expressions and the extracted Coq datatypes.
   Z, positive, nat stay the Coq inductive types (ExtrOcamlBasic only). Trusted glue. *)
(* OCaml's own string/char modules, named before `open Model` (the extracted model may define `string`, `String`, ...) *)
type ostring = string
module OString = String
module OChar = Char
module OBuffer = Buffer
module OList = List
open Model

let rec pos_of_int (n : int) : positive =
  if n <= 1 then XH else if n land 1 = 0 then XO (pos_of_int (n lsr 1)) else XI (pos_of_int (n lsr 1))
let z_of_int (n : int) : z = if n = 0 then Z0 else if n > 0 then Zpos (pos_of_int n) else Zneg (pos_of_int (-n))
let rec int_of_pos = function XH -> 1 | XO p -> 2 * int_of_pos p | XI p -> 2 * int_of_pos p + 1
let int_of_z = function Z0 -> 0 | Zpos p -> int_of_pos p | Zneg p -> - (int_of_pos p)
let rec nat_of_int n = if n <= 0 then O else S (nat_of_int (n - 1))
let rec int_of_nat = function O -> 0 | S n -> 1 + int_of_nat n

(* byte strings: Coq `list Z` <-> OCaml string *)
let bytes_of_string (s : ostring) : z list = OList.init (OString.length s) (fun i -> z_of_int (OChar.code (OString.get s i)))
let string_of_bytes (l : z list) : ostring =
  let b = OBuffer.create 64 in OList.iter (fun c -> OBuffer.add_char b (OChar.chr ((int_of_z c) land 255))) l; OBuffer.contents b

(* arbitrary-size decimal <-> Z through the model's own (unwrapped) decimal reader / itoa *)
let z_of_dec (s : ostring) : z = Glue.z_of_dec (bytes_of_string s)
let dec_of_z (x : z) : ostring = string_of_bytes (itoa x)

let hexdig : ostring = "0123456789abcdef"
let hex_of_string (s : ostring) : ostring =
  let b = OBuffer.create (2 * OString.length s + 1) in
  OBuffer.add_char b 'x';
  OString.iter (fun c -> let k = OChar.code c in OBuffer.add_char b (OString.get hexdig (k lsr 4)); OBuffer.add_char b (OString.get hexdig (k land 15))) s;
  OBuffer.contents b
let string_of_hex (h : ostring) : ostring =
  if OString.length h = 0 || OString.get h 0 <> 'x' then failwith ("hex atom expected: " ^ h);
  let n = (OString.length h - 1) / 2 in
  let v c = match c with '0'..'9' -> OChar.code c - 48 | 'a'..'f' -> OChar.code c - 87 | 'A'..'F' -> OChar.code c - 55 | _ -> failwith "hex" in
  OString.init n (fun i -> OChar.chr (16 * v (OString.get h (1 + 2*i)) + v (OString.get h (2 + 2*i))))

let sx_bytes (l : z list) : Sx.t = Sx.A (hex_of_string (string_of_bytes l))
let bytes_sx (x : Sx.t) : z list = bytes_of_string (string_of_hex (Sx.atom x))
let sx_z (x : z) : Sx.t = Sx.A (dec_of_z x)
let z_sx (x : Sx.t) : z = z_of_dec (Sx.atom x)
let sx_int (n : int) : Sx.t = Sx.A (string_of_int n)
let int_sx (x : Sx.t) : int = int_of_string (Sx.atom x)
let sx_bool b = Sx.A (if b then "T" else "F")
let bool_sx x = match Sx.atom x with "T" -> true | "F" -> false | a -> failwith ("bool: " ^ a)
let sx_list f l = Sx.L (OList.map f l)
let list_sx f x = OList.map f (Sx.list x)
let sx_opt f = function None -> Sx.A "none" | Some v -> Sx.L [Sx.A "some"; f v]
let opt_sx f = function Sx.A "none" -> None | Sx.L [Sx.A "some"; v] -> Some (f v) | _ -> failwith "opt"
let sx_pair f g (a, b) = Sx.L [f a; g b]
let pair_sx f g = function Sx.L [a; b] -> (f a, g b) | _ -> failwith "pair"

(* res A: (ok v) | (err code) | panic | fuel *)
let sx_res f = function
  | Ok a -> Sx.L [Sx.A "ok"; f a]
  | Err e -> Sx.L [Sx.A "err"; sx_z e]
  | Panic -> Sx.A "panic"
  | OutOfFuel -> Sx.A "fuel"
(* outcome class only: ok v | err | panic | fuel (error codes are not compared unless a stream says so) *)
let sx_res_class f = function
  | Ok a -> Sx.L [Sx.A "ok"; f a]
  | Err _ -> Sx.A "err"
  | Panic -> Sx.A "panic"
  | OutOfFuel -> Sx.A "fuel"
