(* Stream `pair` (C05): two engines.  Input = (cfgA cfgB events); observation = per event (obsA obsB inflightAB inflightBA up). *)
open Model
open Conv
open Streams
open S_1parse

let pev_sx x = match Sx.list x with
  | [Sx.A "connect"] -> PConnect
  | [Sx.A "senda"; id] -> PSendA (bytes_sx id)
  | [Sx.A "sendb"; id] -> PSendB (bytes_sx id)
  | [Sx.A "dab"] -> PDeliverAB | [Sx.A "dba"] -> PDeliverBA
  | [Sx.A "timera"; k] -> PTimerA (match int_sx k with 0 -> NeedHeartbeat | 1 -> PeerTimeout | 2 -> LogonTimeout | _ -> LogoutTimeout)
  | [Sx.A "timerb"; k] -> PTimerB (match int_sx k with 0 -> NeedHeartbeat | 1 -> PeerTimeout | 2 -> LogonTimeout | _ -> LogoutTimeout)
  | [Sx.A "cut"] -> PCut | [Sx.A "restarta"] -> PRestartA | [Sx.A "restartb"] -> PRestartB
  | [Sx.A "stopa"] -> PStopA | [Sx.A "stopb"] -> PStopB
  | _ -> failwith ("pev: " ^ Sx.to_string x)

(* which side an event steps (the other side's logs are stale: render it as idle) *)
let touched = function
  | PConnect | PCut -> (true, true)
  | PSendA _ | PDeliverBA | PTimerA _ | PStopA -> (true, false)
  | PSendB _ | PDeliverAB | PTimerB _ | PStopB -> (false, true)
  | PRestartA -> (false, true) | PRestartB -> (true, false)

let sx_idle (s : sess) =
  Sx.L [ Sx.L []; Sx.L []; sx_bool false; sx_z s.s_snd; sx_z s.s_tgt; sx_state s.s_st; sx_int (OList.length s.s_to_send);
         sx_bool s.s_stopped; sx_z s.s_hb; sx_int (OList.length s.s_in_buf) ]

let ids_of_obs (o : Sx.t) : ostring list =
  (* ClOrdIDs handed to the application in one side's observation *)
  match o with
  | Sx.L (Sx.L cbs :: _) ->
    OList.concat_map (function
      | Sx.L [Sx.A "fromapp"; _; _; _; Sx.L [_; _; _; _; _; Sx.L [Sx.A "some"; Sx.A id]]] -> [id]
      | _ -> []) cbs
  | _ -> []

let rec is_prefix a b = match a, b with
  | [], _ -> true | x :: a', y :: b' -> x = y && is_prefix a' b' | _ :: _, [] -> false

let run (_prop : ostring) (inp : Sx.t) (obs : Sx.t) : outcome =
  match inp with
  | Sx.L (ca :: cb :: evs :: _) ->
    let ca = cfg_sx ca and cb = cfg_sx cb in
    let events = list_sx pev_sx evs in
    let rec go p was_up = function
      | [] -> []
      | e :: r ->
        let p' = pstep p e in
        let (ta, tb) = if e = PConnect && was_up then (false, false) else touched e in
        let noop = (match e with PDeliverAB -> p.p_ab = [] | PDeliverBA -> p.p_ba = [] | _ -> false) in
        let oa = if ta && not noop then sx_obs p'.p_a else sx_idle p'.p_a in
        let ob = if tb && not noop then sx_obs p'.p_b else sx_idle p'.p_b in
        Sx.L [oa; ob; sx_int (OList.length p'.p_ab); sx_int (OList.length p'.p_ba); sx_bool p'.p_up] :: go p' p'.p_up r in
    let model = Sx.L (go (pinit ca cb) false events) in
    (* specification on the IMPLEMENTATION's observation: safety at every step, convergence at the end *)
    let sent_a = OList.filter_map (function Sx.L [Sx.A "senda"; Sx.A id] -> Some id | _ -> None) (Sx.list evs) in
    let sent_b = OList.filter_map (function Sx.L [Sx.A "sendb"; Sx.A id] -> Some id | _ -> None) (Sx.list evs) in
    let (ok, msg) =
      (match obs with
       | Sx.A "panic" | Sx.A "fuel" -> (false, "sig=panic the pair run panicked or hung")
       | Sx.L steps ->
         let da = ref [] and db = ref [] and bad = ref None in
         OList.iteri (fun i st -> match st with
           | Sx.L (oa :: ob :: _) ->
             da := !da @ ids_of_obs oa; db := !db @ ids_of_obs ob;
             if !bad = None && not (is_prefix !db sent_a && is_prefix !da sent_b) then bad := Some i
           | _ -> ()) steps;
         (match !bad with
          | Some i -> (false, Printf.sprintf "sig=delivery-not-prefix at event %d: delivered is not a prefix of sent (out of order, duplicate or unsent)" i)
          | None ->
            if !db = sent_a && !da = sent_b then (true, "")
            else (false, Printf.sprintf "sig=not-converged after the link stayed up: delivered %d/%d (A->B) %d/%d (B->A)"
                    (OList.length !db) (OList.length sent_a) (OList.length !da) (OList.length sent_b)))
       | _ -> (true, "")) in
    { model; spec_ok = ok; spec_msg = msg; cls = Printf.sprintf "events:%d" (10 * (OList.length events / 10));
      nontrivial = OList.length sent_a + OList.length sent_b >= 2 }
  | _ -> failwith "pair: bad input"

let () = register "pair" run
