(* Specification predicates of the session properties, evaluated on the IMPLEMENTATION's observations. *)
let check (_prop : string) _cfg _events (obs : Sx.t) : bool * string =
  match obs with
  | Sx.A "panic" -> (false, "sig=panic the session panicked")
  | Sx.A "fuel" -> (false, "sig=hang the session hung")
  | _ -> (true, "")

let classify events = Printf.sprintf "events:%d" (10 * (List.length events / 10))
