(* Runs the extracted specification predicates (Session/Spec.v) on the IMPLEMENTATION's observations. *)
open Model
open Conv
open S_1parse

let sig_of_code (c : int) : ostring = match c with
  | 101 -> "fromapp-out-of-order" | 102 -> "expected-number-behind-handover" | 103 -> "expected-number-went-back"
  | 301 -> "replay-without-possdup" | 302 -> "replay-not-contiguous" | 303 -> "gapfill-malformed" | 304 -> "gapfill-skips-replayable"
  | 305 -> "replayed-admin-or-refused" | 306 -> "replay-body-differs" | 307 -> "replay-no-origsendingtime" | 308 -> "replay-wrong-end"
  | 309 -> "reply-to-empty-range"
  | 401 -> "gap-request-wrong" | 402 -> "spurious-resend-request" | 403 -> "kept-message-not-delivered" | 404 -> "recovery-not-ended" | 405 -> "kept-message-lost" | 406 -> "timer-changed-recovery-state" | 407 -> "early-message-not-kept-while-recovering" | 408 -> "kept-message-dropped-during-recovery" | 409 -> "logon-gap-request-wrong"
  | 601 -> "callback-past-gate" | 602 -> "wrong-reaction" | 603 -> "reject-shape" | 604 -> "logon-past-gate"
  | 701 -> "disconnect-changed-store" | 702 -> "connect-changed-store" | 703 -> "reset-logon-shape" | 704 -> "seqreset-backwards"
  | 705 -> "reset-without-cause" | 706 -> "reset-option-ineffective" | 707 -> "reset-logon-reply" | 708 -> "reset-logon-not-number-1" | 709 -> "received-reset-ignored" | 710 -> "logout-reset-skipped"
  | 801 -> "first-message-not-logon" | 802 -> "app-message-outside-logon" | 803 -> "fromapp-outside-logon" | 804 -> "double-onlogout"
  | 805 -> "write-after-close" | 806 -> "closed-without-onlogout"
  | 2001 -> "testrequest-echo" | 2002 -> "heartbeat-timer" | 2003 -> "peer-timer" | 2004 -> "dead-peer" | 2005 -> "pending-cancel"
  | 2006 -> "heartbtint-not-taken"
  | n -> "code-" ^ string_of_int n

let check (prop : ostring) cfg events (obs : Sx.t) : bool * ostring =
  let os = list_sx obs_sx obs in
  let tr = OList.combine events os in
  let fails : (nat * z) list =
    match prop with
    | "C01" -> c01_check os @ c07_cause_check cfg tr
    | "C04" -> c04_check cfg tr @ c04_logon_gap_check cfg tr
    | "C06" -> c06_check cfg tr
    | "C07" -> c07_check cfg tr @ c07_cause_check cfg tr
    | "C08" -> c08_check tr
    | "C20" -> c20_check cfg tr @ OList.filter (fun (_, c) -> int_of_z c = 406) (c04_check cfg tr)
    | "C03" -> c03_check cfg tr
    | _ -> [] in
  let idok = OList.for_all idok_all (Sx.list obs) in
  if not idok then (false, "sig=wire-identity an outbound message does not carry the session's BeginString/CompIDs")
  else match fails with
    | [] -> (true, "")
    | _ ->
      (* classify each failure; report one whose class is least specific last, so that an unlisted class is preferred *)
      let arr = Array.of_list (init_obs cfg :: os) in
      let evarr = Array.of_list events in
      (* the recorded finding needs the run loop NOT to have handled the message event between the application's send and the
         flushing step; if a flush did run in between and the queue survived it, that is a different defect *)
      let flushed_since_send i =
        let rec back j = if j < 0 then false else
          match evarr.(j) with
          | EFlush -> true
          | EAppSend _ -> false
          | _ -> back (j - 1) in
        back (i - 1) in
      let cls (i, c) =
        let i = int_of_nat i and code = int_of_z c in
        let prev = arr.(i) and o = arr.(i + 1) in
        let sg =
          if int_of_z prev.ob_inbuf > 0 && (o.ob_closed || not (sh_connected o.ob_st)) then "drain-after-disconnect"
          else if code = 802 && int_of_z prev.ob_tosend > 0 && not (sh_logged_on prev.ob_st) && not (flushed_since_send i)
          then "queued-app-flushed-outside-logon"
          else sig_of_code code in
        (sg, code, i) in
      let all = OList.map cls fails in
      let known = ["drain-after-disconnect"; "queued-app-flushed-outside-logon"] in
      let pick = try OList.find (fun (sg, _, _) -> not (OList.mem sg known)) all with Not_found -> OList.hd all in
      let (sg, code, i) = pick in
      (false, Printf.sprintf "sig=%s code %d at event %d (%d failures)" sg code i (OList.length fails))
