(* Stream `session`: conversions between s-expressions and the extracted model types. *)
open Model
open Conv

let fres_sx f = function
  | Sx.A "abs" -> FAbsent | Sx.A "bad" -> FBad
  | Sx.L [Sx.A "val"; v] -> FVal (f v)
  | x -> failwith ("fres: " ^ Sx.to_string x)
let sx_fres f = function FAbsent -> Sx.A "abs" | FBad -> Sx.A "bad" | FVal v -> Sx.L [Sx.A "val"; f v]

let verdict_sx = function
  | Sx.A "acc" -> VAccept | Sx.A "rejlogon" -> VRejectLogon
  | Sx.L [Sx.A "rej"; r; t; b] -> VReject (z_sx r, opt_sx z_sx t, bool_sx b)
  | x -> failwith ("verdict: " ^ Sx.to_string x)

let sx_verdict = function
  | VAccept -> Sx.A "acc" | VRejectLogon -> Sx.A "rejlogon"
  | VReject (r, t, b) -> Sx.L [Sx.A "rej"; sx_z r; sx_opt sx_z t; sx_bool b]

let pairs_sx x = list_sx (pair_sx z_sx bytes_sx) x
let sx_pairs l = sx_list (sx_pair sx_z sx_bytes) l

let cfg_sx x = match Sx.list x with
  | [ini; b; snd; tgt; rl; rlo; rd; rf; chunk; hb; hbo; skip; maxl; nop; last; incap; av] ->
    { c_role = (if bool_sx ini then Initiator else Acceptor); c_begin = z_sx b; c_sender = bytes_sx snd; c_target = bytes_sx tgt;
      c_reset_on_logon = bool_sx rl; c_reset_on_logout = bool_sx rlo; c_reset_on_disconnect = bool_sx rd; c_refresh_on_logon = bool_sx rf;
      c_chunk = z_sx chunk; c_hb = z_sx hb; c_hb_override = bool_sx hbo; c_skip_latency = bool_sx skip; c_max_latency = z_sx maxl;
      c_disable_persist = bool_sx nop; c_last_seq_processed = bool_sx last; c_in_cap = nat_of_int (int_sx incap); c_appl_ver = bytes_sx av }
  | _ -> failwith "cfg"

let msg_sx x = match Sx.list x with
  | [t; b; snd; tgt; seq; pd; st; ot; gf; ns; bs; es; rs; hb; tr; av; route; body; app; valid; refuse] ->
    { mi_type = bytes_sx t; mi_begin = bytes_sx b; mi_sender = opt_sx bytes_sx snd; mi_target = opt_sx bytes_sx tgt;
      mi_seq = fres_sx z_sx seq; mi_possdup = fres_sx bool_sx pd; mi_stime = fres_sx z_sx st; mi_otime = fres_sx z_sx ot;
      mi_gapfill = fres_sx bool_sx gf; mi_newseq = fres_sx z_sx ns; mi_beginseq = fres_sx z_sx bs; mi_endseq = fres_sx z_sx es;
      mi_reset = fres_sx bool_sx rs; mi_hbint = fres_sx z_sx hb; mi_testreq = opt_sx bytes_sx tr; mi_applver = opt_sx bytes_sx av;
      mi_route = pairs_sx route; mi_body = pairs_sx body; mi_app = verdict_sx app; mi_valid = verdict_sx valid;
      mi_refuse = list_sx z_sx refuse }
  | _ -> failwith "msg"

let event_sx x = match Sx.list x with
  | [Sx.A "connect"] -> EConnect
  | [Sx.A "arrive"; m] -> EArrive (msg_sx m)
  | [Sx.A "deliver"] -> EDeliver
  | [Sx.A "incoming"; m] -> EIncoming (msg_sx m)
  | [Sx.A "garbage"] -> EGarbage
  | [Sx.A "inclosed"] -> EInClosed
  | [Sx.A "timeout"; k] -> ETimeout (match int_sx k with 0 -> NeedHeartbeat | 1 -> PeerTimeout | 2 -> LogonTimeout | _ -> LogoutTimeout)
  | [Sx.A "send"; t; body; ok] -> EAppSend (bytes_sx t, pairs_sx body, bool_sx ok)
  | [Sx.A "flush"] -> EFlush
  | [Sx.A "stop"] -> EStop
  | [Sx.A "resettime"] -> EResetSeqTime
  | _ -> failwith ("event: " ^ Sx.to_string x)

let sx_facts (f : mfacts) =
  Sx.L [sx_bytes f.mf_begin; sx_opt sx_bytes f.mf_sender; sx_opt sx_bytes f.mf_target; sx_fres sx_z f.mf_stime; sx_verdict f.mf_valid; sx_opt sx_bytes f.mf_id]
let facts_sx x = match Sx.list x with
  | [b; s; t; st; v; id] -> { mf_begin = bytes_sx b; mf_sender = opt_sx bytes_sx s; mf_target = opt_sx bytes_sx t; mf_stime = fres_sx z_sx st; mf_valid = verdict_sx v; mf_id = opt_sx bytes_sx id }
  | _ -> failwith "facts"

let sx_cb = function
  | CbFromApp (seq, tgt, v, f) -> Sx.L [Sx.A "fromapp"; sx_fres sx_z seq; sx_z tgt; sx_verdict v; sx_facts f]
  | CbFromAdmin (t, seq, f) -> Sx.L [Sx.A "fromadmin"; sx_bytes t; sx_fres sx_z seq; sx_facts f]
  | CbToApp (seq, pd) -> Sx.L [Sx.A "toapp"; sx_z seq; sx_bool pd]
  | CbToAdmin t -> Sx.L [Sx.A "toadmin"; sx_bytes t]
  | CbOnLogon -> Sx.A "onlogon"
  | CbOnLogout -> Sx.A "onlogout"
  | CbStoreReset -> Sx.A "reset"

let engine_types = ["0"; "1"; "2"; "3"; "4"; "5"; "A"; "j"]
let sx_wire (m : omsg) =
  let hdr = List.stable_sort (fun (a, _) (b, _) -> compare (int_of_z a) (int_of_z b)) m.o_hdr in
  let t = string_of_bytes m.o_type in
  let body = if List.mem t engine_types then List.filter (fun (k, _) -> int_of_z k <> 58) m.o_body else m.o_body in
  Sx.L [sx_bytes m.o_type; sx_z m.o_seq; Sx.A "T"; sx_pairs hdr; sx_pairs body]

let rec sx_state = function
  | SLatent -> Sx.A "latent" | SNotSessionTime -> Sx.A "notsession" | SLogon -> Sx.A "logon" | SLogout -> Sx.A "logout"
  | SInSession -> Sx.A "insession"
  | SResend (stash, c, e) ->
    let keys = match stash with None -> [] | Some l -> List.sort compare (List.map (fun (k, _) -> int_of_z k) l) in
    Sx.L [Sx.A "resend"; Sx.A (match stash with None -> "nil" | Some _ -> "map"); Sx.L (List.map sx_int keys); sx_z c; sx_z e]
  | SPending i -> Sx.L [Sx.A "pending"; sx_state i]

let sx_obs (s : sess) =
  Sx.L [ sx_list sx_cb (List.rev s.s_cbs); sx_list sx_wire (List.rev s.s_wire); sx_bool s.s_closed; sx_z s.s_snd; sx_z s.s_tgt;
         sx_state s.s_st; sx_int (List.length s.s_to_send); sx_bool s.s_stopped; sx_z s.s_hb; sx_int (List.length s.s_in_buf) ]

let cb_sx = function
  | Sx.L [Sx.A "fromapp"; seq; tgt; v; f] -> CbFromApp (fres_sx z_sx seq, z_sx tgt, verdict_sx v, facts_sx f)
  | Sx.L [Sx.A "fromadmin"; t; seq; f] -> CbFromAdmin (bytes_sx t, fres_sx z_sx seq, facts_sx f)
  | Sx.L [Sx.A "toapp"; seq; pd] -> CbToApp (z_sx seq, bool_sx pd)
  | Sx.L [Sx.A "toadmin"; t] -> CbToAdmin (bytes_sx t)
  | Sx.A "onlogon" -> CbOnLogon | Sx.A "onlogout" -> CbOnLogout | Sx.A "reset" -> CbStoreReset
  | x -> failwith ("cb: " ^ Sx.to_string x)
let wire_sx = function
  | Sx.L [t; seq; _idok; hdr; body] -> { o_type = bytes_sx t; o_seq = z_sx seq; o_hdr = pairs_sx hdr; o_body = pairs_sx body }
  | x -> failwith ("wire: " ^ Sx.to_string x)
let rec shape_sx = function
  | Sx.A "latent" -> ShLatent | Sx.A "notsession" -> ShNotSession | Sx.A "logon" -> ShLogon | Sx.A "logout" -> ShLogout
  | Sx.A "insession" -> ShInSession
  | Sx.L [Sx.A "resend"; m; keys; c; e] -> ShResend ((match m with Sx.A "map" -> true | _ -> false), list_sx z_sx keys, z_sx c, z_sx e)
  | Sx.L [Sx.A "pending"; i] -> ShPending (shape_sx i)
  | x -> failwith ("shape: " ^ Sx.to_string x)
let obs_sx = function
  | Sx.L [cbs; wire; closed; snd; tgt; st; tosend; stopped; hb; inbuf] ->
    { ob_cbs = list_sx cb_sx cbs; ob_wire = list_sx wire_sx wire; ob_closed = bool_sx closed; ob_snd = z_sx snd; ob_tgt = z_sx tgt;
      ob_st = shape_sx st; ob_tosend = z_sx tosend; ob_stopped = bool_sx stopped; ob_hb = z_sx hb; ob_inbuf = z_sx inbuf }
  | x -> failwith ("obs: " ^ Sx.to_string x)
let idok_all (o : Sx.t) = match o with
  | Sx.L (_ :: Sx.L ws :: _) -> OList.for_all (function Sx.L [_; _; Sx.A "T"; _; _] -> true | _ -> false) ws
  | _ -> true

let run_model cfg evs =
  let rec go s = function [] -> [] | e :: r -> let s' = step s e in sx_obs s' :: go s' r in
  go (init_sess cfg) evs

