(* Stream `clock` (C20): the session on its real run loop with its real timers, see harness/cmd/session/s_clock.go.
   There is no timed model: the "model" column repeats the observation (no correspondence is claimed), and the keep-alive
   clauses are judged here, on the observation, with coarse windows (H = HeartBtInt in ms):
     silent peer : a Heartbeat in [0.6H, 1.9H], a TestRequest in [0.8H, 2.1H], the connection closed in [2.0H, 3.6H]
                   (nominal 1.0H, 1.2H, 2.4H), OnLogout once per connection;
     alive peer  : no TestRequest, not closed before the peer hangs up, 2..4 Heartbeats of ours in 3H;
     late answer : when the answer to our TestRequest was delivered between 1.03H and 1.17H after it (i.e. after our own
                   heartbeat timer fired while the answer was pending) and the peer then stays alive, a Heartbeat of ours must
                   follow within 2.5H ("nothing sent for a heartbeat interval -> a Heartbeat"); otherwise nothing is judged.
   The same clauses are demanded on every connection of the session object, not only the first. *)
open Streams

let int_of = function Sx.A a -> int_of_string a | _ -> failwith "clock: int"

let run (_prop : string) (inp : Sx.t) (obs : Sx.t) : outcome =
  let kind, h, nconns = match inp with
    | Sx.L [Sx.A "clock"; Sx.A k; hs; cs] -> (k, 1000 * int_of hs, int_of cs)
    | _ -> failwith "clock: input" in
  let fl x = float_of_int x in
  let hf = fl h in
  let within t lo hi = fl t >= lo *. hf && fl t <= hi *. hf in
  let conns = match obs with Sx.L l -> l | _ -> [] in
  let judged = ref false in
  let check_conn k c : string option =
    match c with
    | Sx.L [Sx.A "conn"; Sx.A reply; Sx.L evs; closed_at; logouts; tr_at; answer_at; hangup_at] ->
      let evs = List.filter_map (function Sx.L [t; Sx.A ty] -> Some (int_of t, ty) | _ -> None) evs in
      let closed_at = int_of closed_at and logouts = int_of logouts and tr_at = int_of tr_at
      and answer_at = int_of answer_at and hangup_at = int_of hangup_at in
      let times ty = List.filter_map (fun (t, y) -> if y = ty then Some t else None) evs in
      let where = Printf.sprintf "connection %d of the session" (k + 1) in
      if reply <> "T" then Some (Printf.sprintf "sig=no-logon-reply %s: the Logon was not answered" where)
      else begin match kind with
        | "silent" ->
          judged := true;
          if not (List.exists (fun t -> within t 0.6 1.9) (times "t0")) then
            Some (Printf.sprintf "sig=no-heartbeat %s: nothing sent for a heartbeat interval and no Heartbeat between 0.6 and 1.9 intervals (Heartbeats at %s ms)"
                    where (String.concat "," (List.map string_of_int (times "t0"))))
          else if not (List.exists (fun t -> within t 0.8 2.1) (times "t1")) then
            Some (Printf.sprintf "sig=no-testrequest %s: nothing received for 1.2 heartbeat intervals and no TestRequest between 0.8 and 2.1 intervals" where)
          else if closed_at < 0 || not (within closed_at 2.0 3.6) then
            Some (Printf.sprintf "sig=dead-peer-not-disconnected %s: silent peer, connection closed at %d ms (expected near 2.4 intervals)" where closed_at)
          else if logouts <> k + 1 then
            Some (Printf.sprintf "sig=onlogout-count %s: OnLogout called %d times so far, expected %d" where logouts (k + 1))
          else None
        | "alive" ->
          judged := true;
          let n = List.length (List.filter (fun t -> hangup_at < 0 || t <= hangup_at) (times "t0")) in
          if times "t1" <> [] then Some (Printf.sprintf "sig=testrequest-to-live-peer %s: the peer sent a Heartbeat every 0.4 intervals and got a TestRequest" where)
          else if hangup_at < 0 then Some (Printf.sprintf "sig=live-peer-disconnected %s: the connection was closed at %d ms while the peer was alive" where closed_at)
          else if n < 2 || n > 4 then Some (Printf.sprintf "sig=heartbeat-count %s: %d Heartbeats of ours in three intervals" where n)
          else if logouts <> k + 1 then Some (Printf.sprintf "sig=onlogout-count %s: OnLogout called %d times so far, expected %d" where logouts (k + 1))
          else None
        | "late" ->
          if tr_at >= 0 && answer_at >= 0 && hangup_at >= 0
             && fl (answer_at - tr_at) >= 1.03 *. hf && fl (answer_at - tr_at) <= 1.17 *. hf
             && hangup_at - answer_at >= (5 * h) / 2 then begin
            judged := true;
            if List.exists (fun t -> t > answer_at && fl (t - answer_at) <= 2.5 *. hf) (times "t0") then None
            else Some (Printf.sprintf "sig=heartbeat-lost-after-pending %s: the answer to our TestRequest arrived %d ms after it (after our heartbeat timer had fired while the answer was pending); the peer stayed alive for %d ms and we sent no Heartbeat in 2.5 intervals: the one-shot heartbeat timer is not re-armed"
                         where (answer_at - tr_at) (hangup_at - answer_at))
          end else None
        | "slowlogon" ->
          if answer_at >= 0 && hangup_at >= 0 && fl answer_at >= 1.05 *. hf && fl answer_at <= 1.3 *. hf
             && hangup_at - answer_at >= (5 * h) / 2 then begin
            judged := true;
            if List.exists (fun t -> t > answer_at && fl (t - answer_at) <= 2.5 *. hf) (times "t0") then None
            else Some (Printf.sprintf "sig=heartbeat-lost-after-slow-logon %s: initiator; the peer answered the Logon %d ms after it (after the initiator's heartbeat timer had fired during the handshake), stayed alive for %d ms and got no Heartbeat in 2.5 intervals"
                         where answer_at (hangup_at - answer_at))
          end else None
        | _ -> None
      end
    | _ -> Some "sig=clock-harness the observation is malformed"
  in
  let rec first k = function
    | [] -> None
    | c :: r -> (match check_conn k c with Some m -> Some m | None -> first (k + 1) r) in
  let bad = match first 0 conns with
    | Some m -> Some m
    | None ->
      if kind <> "late" && kind <> "slowlogon" && List.length conns < nconns then
        Some (Printf.sprintf "sig=connection-not-released only %d of %d connections could be made on the session" (List.length conns) nconns)
      else None in
  { model = obs; spec_ok = (bad = None); spec_msg = (match bad with Some m -> m | None -> "");
    cls = "clock:" ^ kind ^ (if !judged then "" else ":inconclusive"); nontrivial = !judged }

let () = register "clock" run
