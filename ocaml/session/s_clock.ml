(* Stream `clock` (C20): the session on its real run loop with its real timers, see harness/cmd/session/s_clock.go.
   Correspondence: the timed model (Session/Clock.v: the untimed `step` wrapped with the two one-shot deadlines, extracted)
   is run on the observed timeline's inputs (connects, the peer's pushes and its hang-ups, at the times they happened) and
   must predict the session's outputs — the same MsgTypes in the same order, each within `tol` ms of the observed time —
   and the times at which the session closed the connection.  When it does, the model column repeats the observation;
   when it does not, the model column shows the prediction.
   Specification: the keep-alive clauses are also judged here, on the observation alone, with coarse windows (H =
   HeartBtInt in ms):
     silent peer : a Heartbeat in [0.6H, 1.9H], a TestRequest in [0.8H, 2.1H], the connection closed in [2.0H, 3.6H]
                   (nominal 1.0H, 1.2H, 2.4H), OnLogout once per connection;
     alive peer  : no TestRequest, not closed before the peer hangs up, 2..4 Heartbeats of ours in 3H;
     late answer : when the answer to our TestRequest was delivered between 1.03H and 1.17H after it (i.e. after our own
                   heartbeat timer fired while the answer was pending) and the peer then stays alive, a Heartbeat of ours must
                   follow within 2.5H ("nothing sent for a heartbeat interval -> a Heartbeat"); otherwise nothing is judged.
   The same clauses are demanded on every connection of the session object, not only the first. *)
open Streams

let int_of = function Sx.A a -> int_of_string a | _ -> failwith "clock: int"

let run (_prop : string) (inp : Sx.t) (obs : Sx.t) : outcome =
  let kind, h, nconns = match inp with
    | Sx.L [Sx.A "clock"; Sx.A k; hs; cs] -> (k, 1000 * int_of hs, int_of cs)
    | _ -> failwith "clock: input" in
  let fl x = float_of_int x in
  let hf = fl h in
  let within t lo hi = fl t >= lo *. hf && fl t <= hi *. hf in
  let conns = match obs with Sx.L l -> l | _ -> [] in
  let judged = ref false in
  let check_conn k c : string option =
    match c with
    | Sx.L [Sx.A "conn"; Sx.A reply; Sx.L evs; closed_at; logouts; tr_at; answer_at; hangup_at] ->
      let evs = List.filter_map (function Sx.L [t; Sx.A ty] -> Some (int_of t, ty) | _ -> None) evs in
      let closed_at = int_of closed_at and logouts = int_of logouts and tr_at = int_of tr_at
      and answer_at = int_of answer_at and hangup_at = int_of hangup_at in
      let times ty = List.filter_map (fun (t, y) -> if y = ty then Some t else None) evs in
      let where = Printf.sprintf "connection %d of the session" (k + 1) in
      if reply <> "T" then Some (Printf.sprintf "sig=no-logon-reply %s: the Logon was not answered" where)
      else begin match kind with
        | "silent" ->
          judged := true;
          if not (List.exists (fun t -> within t 0.6 1.9) (times "t0")) then
            Some (Printf.sprintf "sig=no-heartbeat %s: nothing sent for a heartbeat interval and no Heartbeat between 0.6 and 1.9 intervals (Heartbeats at %s ms)"
                    where (String.concat "," (List.map string_of_int (times "t0"))))
          else if not (List.exists (fun t -> within t 0.8 2.1) (times "t1")) then
            Some (Printf.sprintf "sig=no-testrequest %s: nothing received for 1.2 heartbeat intervals and no TestRequest between 0.8 and 2.1 intervals" where)
          else if closed_at < 0 || not (within closed_at 2.0 3.6) then
            Some (Printf.sprintf "sig=dead-peer-not-disconnected %s: silent peer, connection closed at %d ms (expected near 2.4 intervals)" where closed_at)
          else if logouts <> k + 1 then
            Some (Printf.sprintf "sig=onlogout-count %s: OnLogout called %d times so far, expected %d" where logouts (k + 1))
          else None
        | "alive" ->
          judged := true;
          let n = List.length (List.filter (fun t -> hangup_at < 0 || t <= hangup_at) (times "t0")) in
          if times "t1" <> [] then Some (Printf.sprintf "sig=testrequest-to-live-peer %s: the peer sent a Heartbeat every 0.4 intervals and got a TestRequest" where)
          else if hangup_at < 0 then Some (Printf.sprintf "sig=live-peer-disconnected %s: the connection was closed at %d ms while the peer was alive" where closed_at)
          else if n < 2 || n > 4 then Some (Printf.sprintf "sig=heartbeat-count %s: %d Heartbeats of ours in three intervals" where n)
          else if logouts <> k + 1 then Some (Printf.sprintf "sig=onlogout-count %s: OnLogout called %d times so far, expected %d" where logouts (k + 1))
          else None
        | "late" ->
          if tr_at >= 0 && answer_at >= 0 && hangup_at >= 0
             && fl (answer_at - tr_at) >= 1.03 *. hf && fl (answer_at - tr_at) <= 1.17 *. hf
             && hangup_at - answer_at >= (5 * h) / 2 then begin
            judged := true;
            if List.exists (fun t -> t > answer_at && fl (t - answer_at) <= 2.5 *. hf) (times "t0") then None
            else Some (Printf.sprintf "sig=heartbeat-lost-after-pending %s: the answer to our TestRequest arrived %d ms after it (after our heartbeat timer had fired while the answer was pending); the peer stayed alive for %d ms and we sent no Heartbeat in 2.5 intervals: the one-shot heartbeat timer is not re-armed"
                         where (answer_at - tr_at) (hangup_at - answer_at))
          end else None
        | "slowlogon" ->
          if answer_at >= 0 && hangup_at >= 0 && fl answer_at >= 1.05 *. hf && fl answer_at <= 1.3 *. hf
             && hangup_at - answer_at >= (5 * h) / 2 then begin
            judged := true;
            if List.exists (fun t -> t > answer_at && fl (t - answer_at) <= 2.5 *. hf) (times "t0") then None
            else Some (Printf.sprintf "sig=heartbeat-lost-after-slow-logon %s: initiator; the peer answered the Logon %d ms after it (after the initiator's heartbeat timer had fired during the handshake), stayed alive for %d ms and got no Heartbeat in 2.5 intervals"
                         where answer_at (hangup_at - answer_at))
          end else None
        | _ -> None
      end
    | _ -> Some "sig=clock-harness the observation is malformed"
  in
  let rec first k = function
    | [] -> None
    | c :: r -> (match check_conn k c with Some m -> Some m | None -> first (k + 1) r) in
  (* ---- the timed model on the observed inputs ---- *)
  let timeline = List.concat_map (function Sx.L (Sx.A "timeline" :: l) -> l | _ -> []) conns in
  let conns = List.filter (function Sx.L (Sx.A "conn" :: _) -> true | _ -> false) conns in
  let tol = 300 in
  let hsec = h / 1000 in
  let cfg = if kind = "slowlogon" then Model.ck_cfg Model.Initiator (Conv.z_of_int hsec) else Model.ck_cfg Model.Acceptor (Conv.z_of_int 30) in
  let ty_of a = String.sub a 1 (String.length a - 1) in
  let inputs = List.filter_map (function
      | Sx.L [t; Sx.A "connect"] -> Some (Conv.z_of_int (int_of t), Model.EConnect)
      | Sx.L [t; Sx.A "hangup"] -> Some (Conv.z_of_int (int_of t), Model.EInClosed)
      | Sx.L [t; Sx.A "push"; Sx.A ty; sq; tr] ->
          let tr = (match tr with Sx.L [Sx.A "some"; b] -> Some (Conv.bytes_sx b) | _ -> None) in
          Some (Conv.z_of_int (int_of t), Model.EIncoming (Model.ck_msg (Conv.bytes_of_string (ty_of ty)) (Conv.z_of_int (int_of sq)) (Conv.z_of_int hsec) tr))
      | _ -> None) timeline in
  let observed_out = List.filter_map (function Sx.L [t; Sx.A "out"; Sx.A ty] -> Some (int_of t, ty_of ty) | _ -> None) timeline in
  let observed_closed = List.filter_map (function Sx.L [t; Sx.A "closed"] -> Some (int_of t) | _ -> None) timeline in
  let last_t = List.fold_left (fun a x -> match x with Sx.L (t :: _) -> max a (int_of t) | _ -> a) 0 timeline in
  let ts = Model.trun true (Conv.nat_of_int 400) (Model.tinit cfg) (inputs @ [(Conv.z_of_int last_t, Model.EFlush)]) in
  let predicted_out = List.map (fun (t, ty) -> (Conv.int_of_z t, Conv.string_of_bytes ty)) (Model.tout ts) in
  let predicted_closed = List.rev_map Conv.int_of_z ts.Model.ts_closed in
  let rec close_enough a b = match a, b with
    | [], [] -> true
    | (t1, y1) :: r1, (t2, y2) :: r2 -> y1 = y2 && abs (t1 - t2) <= tol && close_enough r1 r2
    | _ -> false in
  let rec times_close a b = match a, b with
    | [], [] -> true | t1 :: r1, t2 :: r2 -> abs (t1 - t2) <= tol && times_close r1 r2 | _ -> false in
  (* the session also reports `closed` after the peer's hang-up: the model closes at the hang-up too (Model.EInClosed) *)
  (* the harness's scheduling-jitter probe: when a 20 ms sleep overslept by more than 120 ms at some point of the case the
     machine was too loaded for the windows and the tolerance to mean anything: the case is not judged *)
  let jitter = List.fold_left (fun a x -> match x with Sx.L [Sx.A "jitter"; j] -> max a (int_of j) | _ -> a) 0
                 (match obs with Sx.L l -> l | _ -> []) in
  let loaded = jitter > 120 in
  let agrees = loaded || (close_enough predicted_out observed_out && times_close predicted_closed observed_closed) in
  let model =
    if agrees then obs
    else Sx.L [Sx.A "predicted";
               Sx.L (List.map (fun (t, y) -> Sx.L [Conv.sx_int t; Sx.A y]) predicted_out); Sx.L (List.map Conv.sx_int predicted_closed);
               Sx.A "observed";
               Sx.L (List.map (fun (t, y) -> Sx.L [Conv.sx_int t; Sx.A y]) observed_out); Sx.L (List.map Conv.sx_int observed_closed)] in
  let bad = match first 0 conns with
    | Some m -> Some m
    | None ->
      if kind <> "late" && kind <> "slowlogon" && List.length conns < nconns then
        Some (Printf.sprintf "sig=connection-not-released only %d of %d connections could be made on the session" (List.length conns) nconns)
      else None in
  let bad = if loaded then None else bad in
  if loaded then judged := false;
  { model; spec_ok = (bad = None); spec_msg = (match bad with Some m -> m | None -> "");
    cls = "clock:" ^ kind ^ (if loaded then ":not-judged-machine-loaded" else if !judged then "" else ":inconclusive"); nontrivial = !judged }

let () = register "clock" run
