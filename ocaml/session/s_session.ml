(* Stream `session`: model side. Input = (cfg events); observation = one record per event. *)
open Model
open Conv
open Streams
open S_1parse

let run (prop : ostring) (inp : Sx.t) (obs : Sx.t) : outcome =
  match inp with
  | Sx.L [c; evs] ->
    let cfg = cfg_sx c in
    let events = list_sx event_sx evs in
    let model = Sx.L (run_model cfg events) in
    let ok, msg = S_0spec.check prop cfg events obs in
    let ok, msg = if not ok then (ok, msg) else S_2specrun.check prop cfg events obs in
    { model; spec_ok = ok; spec_msg = msg; cls = S_0spec.classify events; nontrivial = List.length events >= 3 }
  | _ -> failwith "session: bad input"

let () = register "session" run
