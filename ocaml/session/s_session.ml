(* Stream `session`: model side. Input = (cfg events); observation = one record per event. *)
open Model
open Conv
open Streams
open S_1parse

let run (prop : ostring) (inp : Sx.t) (obs : Sx.t) : outcome =
  match inp with
  | Sx.L [c; evs] ->
    let cfg = cfg_sx c in
    let events = list_sx event_sx evs in
    let model = Sx.L (run_model cfg events) in
    let ok, msg = S_0spec.check prop cfg events obs in
    let ok, msg = if not ok then (ok, msg) else S_2specrun.check prop cfg events obs in
    { model; spec_ok = ok; spec_msg = msg; cls = S_0spec.classify events; nontrivial = List.length events >= 3 }
  | _ -> failwith "session: bad input"

(* what each property's predicate reads of an event record (cbs wire closed snd tgt shape tosend stopped hb inbuf):
   Session/Spec.v, fields ob_* used by cXX_scan *)
let project (prop : ostring) (_inp : Sx.t) (obs : Sx.t) : Sx.t =
  let keep_cb names = function
    | Sx.L (Sx.A n :: _) -> List.mem n names
    | Sx.A n -> List.mem n names
    | _ -> false in
  let ev = function
    | Sx.L [cbs; wire; closed; snd; tgt; st; tosend; _stopped; hb; inbuf] ->
        (match prop with
         | "C01" -> Sx.L [Sx.L (List.filter (keep_cb ["fromapp"; "reset"]) (Sx.list cbs)); tgt]
         | "C08" -> Sx.L [cbs; wire; closed]
         | "C03" -> Sx.L [cbs; wire; snd; tgt; st; tosend; inbuf]
         | "C04" | "C06" -> Sx.L [cbs; wire; tgt; st; tosend; inbuf]
         | "C07" -> Sx.L [cbs; wire; snd; tgt; st; tosend; inbuf]
         | "C20" -> Sx.L [cbs; wire; closed; tgt; st; tosend; hb; inbuf]
         | _ -> Sx.L [cbs; wire; closed; snd; tgt; st; tosend; _stopped; hb; inbuf])
    | x -> x in
  match obs with
  | Sx.L evs -> Sx.L (List.map ev evs)
  | x -> x

let () = register "session" run
let () = register_projection "session" project
