(* Stream `framer` (C12): model side.  Input / observation format: see harness/cmd/framer/s_framer.go. *)
open Model
open Conv
open Streams

let term_name = function
  | FrErr e -> (match int_of_z e with
      | 10 -> "eof" | 11 -> "nolen" | 12 -> "invlen" | 1 -> "empty" | 2 -> "format" | 3 -> "range" | _ -> "other")
  | FrPanic -> "panic"
  | FrFuel -> "fuel"

let sx_result (frames, term) = Sx.L [Sx.L (List.map sx_bytes frames); Sx.A (term_name term)]

type piece = G of z list | M of z list * z list * z list * z list | Raw of z list

let piece_sx = function
  | Sx.L [Sx.A "g"; b] -> G (bytes_sx b)
  | Sx.L [Sx.A "raw"; b] -> Raw (bytes_sx b)
  | Sx.L [Sx.A "m"; v; d; body; c] -> M (bytes_sx v, bytes_sx d, bytes_sx body, bytes_sx c)
  | x -> failwith ("framer: piece " ^ Sx.to_string x)

let piece_bytes = function G b | Raw b -> b | M (v, d, body, c) -> fr_mk_msg v d body c

(* hypotheses of c12_wellformed_stream: g m g m ... g, every m well-formed, no g contains "8=" *)
let rec wf_shape = function
  | [G g] -> if fr_no_begin_markerb g then Some [] else None
  | G g :: M (v, d, body, c) :: rest ->
      if fr_no_begin_markerb g && fr_wf_parts v d body c then
        (match wf_shape rest with Some ms -> Some (fr_mk_msg v d body c :: ms) | None -> None)
      else None
  | _ -> None

let sizes_of_part total = function
  | Sx.L [Sx.A ("rep" | "rep-eof"); k] -> let k = int_sx k in List.init (total / (max k 1) + 1) (fun _ -> nat_of_int k)
  | Sx.L (Sx.A ("sizes" | "sizes-eof") :: l) -> List.map (fun x -> nat_of_int (int_sx x)) l
  | x -> failwith ("framer: partition " ^ Sx.to_string x)

let obs_entry = function
  | Sx.L [Sx.L frames; Sx.A term] -> (frames, term)
  | x -> failwith ("framer: observation " ^ Sx.to_string x)

let run (_prop : string) (inp : Sx.t) (obs : Sx.t) : outcome =
  match inp with
  | Sx.L [Sx.A "stream"; Sx.L (Sx.A "pieces" :: ps); Sx.L (Sx.A "parts" :: parts)] ->
      let pieces = List.map piece_sx ps in
      let stream = List.concat (List.map piece_bytes pieces) in
      let total = List.length stream in
      let spec = frames_spec stream in
      let results = List.map (fun part -> fr_frames (fr_cut (sizes_of_part total part) stream)) parts in
      (* internal consistency of the model side (theorem c12_refines): every partition gives frames_spec *)
      List.iter (fun r -> if sx_result r <> sx_result spec then
        failwith "framer: model fr_frames differs from frames_spec (c12_refines contradicted)") results;
      let model = Sx.L (List.map sx_result results) in
      (* the property, evaluated on what the implementation did *)
      let entries = List.map obs_entry (Sx.list obs) in
      let wf = wf_shape pieces in
      let bad_term = List.exists (fun (_, t) -> t = "panic" || t = "fuel") entries in
      let differing = match entries with
        | [] -> false
        | e0 :: rest -> List.exists (fun e -> e <> e0) rest in
      let frame_mismatch = match wf with
        | None -> false
        | Some ms ->
            List.exists (fun (frames, t) ->
              t <> "eof" || not (fr_beq_frames (List.map bytes_sx frames) ms)) entries in
      let spec_ok, spec_msg =
        if bad_term then false, "sig=panic ReadMessage panicked or hung on some partition of the stream"
        else if differing then false, "sig=chunking-dependent two partitions of the same stream gave different frames / terminal error"
        else if frame_mismatch then false, "sig=frame-mismatch well-formed stream: frames are not exactly the messages followed by EOF"
        else true, "" in
      let (sframes, sterm) = spec in
      let size = if total > 8192 then "+big" else if total > 4096 then "+mid" else "" in
      let cls = (match wf with Some _ -> "wf" | None -> "other:" ^ term_name sterm) ^ size in
      { model; spec_ok; spec_msg; cls;
        nontrivial = (match fr_index_begin stream with Some _ -> true | None -> false) }
  | _ -> failwith ("framer: unknown input " ^ Sx.to_string inp)

let () = register "framer" run
