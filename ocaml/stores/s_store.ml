(* Stream `store` (C16): the memory / file / sql models next to the abstract store. *)
open Model
open Conv
open Streams

let sop_of_sx = A_ops.sop_of_sx

let z0 = z_of_int 0
let sid_of i = z_of_int (if i then 2 else 1)

(* outputs with the creation time reduced to renewed / unchanged (per session, relative to the previous observation) *)
let render (ops : (bool * sop) list) (outs : (sout * ((z * z) * z)) list) : Sx.t =
  let last = [| z0; z0 |] in
  Sx.L (List.map2 (fun (i, _) (o, ((s, t), ct)) ->
    let k = if i then 1 else 0 in
    let renewed = (ct <> last.(k)) in
    last.(k) <- ct;
    Sx.L [sx_z o.so_st; sx_list sx_bytes o.so_msgs; sx_z s; sx_z t; sx_bool renewed]) ops outs)

let unwrap = function Ok v -> v | _ -> failwith "store: sql model could not open"

let models (ops : (bool * sop) list) =
  let a = render ops (abs_run2 (abs_init z0, abs_init z0) ops) in
  let m = render ops (mem_run2 (mem_create z0, mem_create z0) ops) in
  let f =
    let (st0, fs0) = file_new_store (sid_of false) z0 [] in
    let (st1, fs1) = file_new_store (sid_of true) z0 fs0 in
    render ops (file_run2 (st0, st1) fs1 ops) in
  let s =
    let (st0, db0) = unwrap (sql_new_store (sid_of false) z0 sql_empty) in
    let (st1, db1) = unwrap (sql_new_store (sid_of true) z0 db0) in
    render ops (sql_run2 (st0, st1) db1 ops) in
  (a, m, f, s)

let first_diff (a : Sx.t) (b : Sx.t) : int =
  match a, b with
  | Sx.L x, Sx.L y ->
      let rec go i x y = match x, y with
        | [], [] -> -1
        | p :: x', q :: y' -> if Sx.to_string p = Sx.to_string q then go (i + 1) x' y' else i
        | _ -> i in
      go 0 x y
  | _ -> 0

let run (_prop : string) (inp : Sx.t) (obs : Sx.t) : outcome =
  match inp with
  | Sx.L [Sx.A "hist"; _fsync; Sx.L opsx] ->
      let ops = List.map sop_of_sx opsx in
      let ok_hist =
        let only i = List.map snd (List.filter (fun (j, _) -> j = i) ops) in
        abs_hist_ok (abs_init z0) (only false) && abs_hist_ok (abs_init z0) (only true) in
      let (a, m, f, s) = models ops in
      let model = Sx.L [Sx.L [Sx.A "mem"; m]; Sx.L [Sx.A "file"; f]; Sx.L [Sx.A "sql"; s]] in
      (* the specification: what each implementation returned equals what the abstract store returns *)
      let impl name = match obs with
        | Sx.L l -> (try (match List.find (function Sx.L [Sx.A n; _] -> n = name | _ -> false) l with Sx.L [_; o] -> o | x -> x)
                     with Not_found -> Sx.L [])
        | _ -> Sx.L [] in
      let bad = List.filter (fun n -> Sx.to_string (impl n) <> Sx.to_string a) ["mem"; "file"; "sql"] in
      let spec_ok = (bad = []) in
      let spec_msg = match bad with
        | [] -> ""
        | n :: _ -> Printf.sprintf "sig=%s-store-differs-from-abstract-store at operation %d: abstract %s" n (first_diff (impl n) a) (Sx.to_string a) in
      let has p = List.exists (fun (_, o) -> p o) ops in
      let two = List.exists (fun (i, _) -> i) ops in
      let saves = has (function OSave _ | OSaveIncr _ -> true | _ -> false) in
      let reads = has (function OGet _ | OIterate _ -> true | _ -> false) in
      let cls = String.concat "" [
        (if not ok_hist then "NOT-ASCENDING " else "");
        (if List.length ops <= 8 then "short" else "long");
        (if two then "+two-sessions" else "");
        (if has (function OReopen _ -> true | _ -> false) then "+reopen" else "");
        (if has (function OReset _ -> true | _ -> false) then "+reset" else "");
        (if has (function OIterate (_, _, Some _) -> true | _ -> false) then "+abort" else "")] in
      { model; spec_ok; spec_msg; cls; nontrivial = saves && reads }
  | _ -> failwith ("store: unknown input " ^ Sx.to_string inp)

let () = register "store" run
