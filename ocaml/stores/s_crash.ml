(* Stream `crash` (C17): primitive traces and crash images of the file store; SQL statement failures. *)
open Model
open Conv
open Streams

let z0 = z_of_int 0
let sid = z_of_int 1
let recover_now = z_of_int 2000

let ops_of l = List.map (fun x -> snd (A_ops.sop_of_sx x)) l

let sx_out (o : sout) = Sx.L [sx_z o.so_st; sx_list sx_bytes o.so_msgs]
let out_sx = function
  | Sx.L [st; Sx.L msgs] -> { so_st = z_sx st; so_msgs = List.map bytes_sx msgs }
  | x -> failwith ("crash: bad out " ^ Sx.to_string x)

let kind_of_name (f : z) = int_of_z f mod 8

let sx_prim = function
  | PSeekStart f -> Sx.L [Sx.A "seek-start"; sx_int (kind_of_name f)]
  | PSeekEnd f -> Sx.L [Sx.A "seek-end"; sx_int (kind_of_name f)]
  | PWrite (f, off, bs) ->
      Sx.L [Sx.A "write"; sx_int (kind_of_name f); sx_int (int_of_nat off); (if kind_of_name f = 2 then Sx.A "T" else sx_bytes bs)]
  | PSync f -> Sx.L [Sx.A "sync"; sx_int (kind_of_name f)]
  | PRemove f -> Sx.L [Sx.A "remove"; sx_int (kind_of_name f)]
  | POpen f -> Sx.L [Sx.A "open"; sx_int (kind_of_name f)]

let sx_cp (cp : cpoint) =
  Sx.L [sx_int (int_of_nat cp.cp_k); sx_int (int_of_nat cp.cp_j); Sx.A (match cp.cp_var with VA -> "A" | VB -> "B")]

let sx_recobs (r : recobs) =
  Sx.L [sx_bool r.ro_open_ok; sx_z r.ro_snd; sx_z r.ro_tgt;
        Sx.L (List.map (fun (k, o) -> Sx.L [sx_z k; sx_out o]) r.ro_gets); sx_out r.ro_all; sx_out r.ro_post]
let recobs_sx = function
  | Sx.L [ok; s; t; Sx.L gets; all; post] ->
      { ro_open_ok = bool_sx ok; ro_snd = z_sx s; ro_tgt = z_sx t;
        ro_gets = List.map (function Sx.L [k; o] -> (z_sx k, out_sx o) | _ -> failwith "crash: bad get") gets;
        ro_all = out_sx all; ro_post = out_sx post }
  | x -> failwith ("crash: bad recobs " ^ Sx.to_string x)

let sig_of_class c = match int_of_z c with
  | 1 -> "save-header-before-body"
  | 2 -> "counter-inplace-torn-carry"
  | 3 -> "header-line-torn"
  | 4 -> "reset-not-atomic"
  | 5 -> "counter-new-file-torn"
  | _ -> "unclassified"

let clause_text = function
  | 1 -> "reopening the store failed"
  | 2 -> "a recovered counter is neither its value before nor after the interrupted operation"
  | 3 -> "a single-number read fails or returns torn, foreign or duplicated bytes"
  | 4 -> "a message that must be there (completed save / number below the recovered sender counter) is not returned intact"
  | 5 -> "the whole-range read fails or disagrees with the single-number reads"
  | 6 -> "after saving the next message the whole-range read fails, returns torn or foreign bytes or lacks the new message"
  | _ -> "?"

let op_name = function
  | OSetSender _ -> "set-s" | OSetTarget _ -> "set-t" | OIncrSender -> "incr-s" | OIncrTarget -> "incr-t"
  | OSave _ -> "save" | OSaveIncr _ -> "save-incr" | OGet _ -> "get" | OIterate _ -> "iter"
  | ORefresh _ -> "refresh" | OReset _ -> "reset" | OReopen _ -> "reopen"

let run_file salt pb hist op (obs : Sx.t) : outcome =
  let (a0, _) = abs_run (abs_init z0) hist in
  let a1 = fst (abs_step a0 op) in
  let (st0, fs0) = file_new_store sid z0 [] in
  let ((st, fs), _) = file_run st0 fs0 hist in
  let prims = file_op_prims st fs op in
  let cases = c17_model_cases sid recover_now a0 st fs op pb in
  let model = Sx.L [Sx.L [Sx.A "trace"; Sx.L (List.map sx_prim prims)]; Sx.L [Sx.A "shadow"; sx_bool true];
                    Sx.L [Sx.A "images"; Sx.L (List.map (fun (cp, (_, ro)) -> Sx.L [sx_cp cp; sx_recobs ro]) cases)]] in
  (* the specification predicate on what the implementation's recovered store returned, image by image *)
  let class_of cpx = try fst (snd (List.find (fun (cp, _) -> Sx.to_string (sx_cp cp) = Sx.to_string cpx) cases)) with Not_found -> z0 in
  let impl_images = match obs with
    | Sx.L [_; _; Sx.L [Sx.A "images"; Sx.L l]] -> l
    | _ -> [] in
  let fails = List.filter_map (function
    | Sx.L [cpx; rox] ->
        let f = int_of_z (c17_failure a0 a1 pb (recobs_sx rox)) in
        if f = 0 then None else Some (sig_of_class (class_of cpx), f, cpx, rox)
    | _ -> None) impl_images in
  let unknown = List.filter (fun (s, _, _, _) -> s = "unclassified") fails in
  let sigs = List.sort_uniq compare (List.map (fun (s, _, _, _) -> s) fails) in
  (* an unclassified failure is reported first; otherwise one of the case's signatures, chosen by the input, so that over a run
     every class that occurs is reported by some case *)
  let chosen = if sigs = [] then "" else List.nth sigs (salt mod List.length sigs) in
  let ordered = unknown @ List.filter (fun (s, _, _, _) -> s = chosen) fails in
  let spec_ok = (fails = []) && impl_images <> [] in
  let spec_msg = match ordered with
    | (s, f, cpx, rox) :: _ ->
        Printf.sprintf "sig=%s crash point (completed primitives, bytes of the next write, variant) %s of %s: %s; recovered store: %s; %d failing images in this case, signatures: %s"
          s (Sx.to_string cpx) (op_name op) (clause_text f) (Sx.to_string rox) (List.length fails) (String.concat "," sigs)
    | [] -> if impl_images = [] then "sig=no-images the harness produced no crash images" else "" in
  let ok_hist = abs_hist_ok (abs_init z0) (hist @ [op]) in
  { model; spec_ok; spec_msg;
    cls = (if ok_hist then "" else "NOT-ASCENDING ") ^ "file:" ^ op_name op ^ ":" ^ (if sigs = [] then "consistent" else String.concat "+" sigs);
    nontrivial = List.length impl_images > 2 }

let unwrap = function Ok v -> v | _ -> failwith "crash: sql model could not open"

let run_sql hist n bs k (obs : Sx.t) : outcome =
  let (a0, _) = abs_run (abs_init z0) hist in
  let (st0, db0) = unwrap (sql_new_store sid z0 sql_empty) in
  let ((st, db), _) = sql_run st0 db0 hist in
  let (((((s1, c1), c2), t2), m1), ((s3, c3), m3)) = sql_fail_observe st db n bs k in
  let model = Sx.L [sx_z s1; sx_z c1; sx_z c2; sx_z t2; sx_list sx_bytes m1; sx_z s3; sx_z c3; sx_list sx_bytes m3] in
  let spec_ok, spec_msg = match obs with
    | Sx.L [s1; c1; c2; t2; Sx.L m1; _; _; _] ->
        let ok = c17_sql_atomic_ok a0 (z_sx s1) (z_sx c1) (z_sx c2) (z_sx t2) (List.map bytes_sx m1) in
        (ok, if ok then "" else "sig=sql-save-and-incr-not-atomic a failed statement left the message or the increment behind")
    | _ -> (false, "sig=bad-observation") in
  { model; spec_ok; spec_msg; cls = "sql:fail-at-" ^ string_of_int (int_of_z k); nontrivial = true }

let run (_prop : string) (inp : Sx.t) (obs : Sx.t) : outcome =
  match inp with
  | Sx.L [Sx.A "crash"; pb; Sx.L hist; op] -> run_file (Hashtbl.hash (Sx.to_string inp)) (bytes_sx pb) (ops_of hist) (snd (A_ops.sop_of_sx op)) obs
  (* a fifth element selects which of the case's signatures is reported (fixed witness cases) *)
  | Sx.L [Sx.A "crash"; pb; Sx.L hist; op; k] -> run_file (int_sx k) (bytes_sx pb) (ops_of hist) (snd (A_ops.sop_of_sx op)) obs
  | Sx.L [Sx.A "sqlfail"; Sx.L hist; n; bs; k] -> run_sql (ops_of hist) (z_sx n) (bytes_sx bs) (z_sx k) obs
  | _ -> failwith ("crash: unknown input " ^ Sx.to_string inp)

let () = register "crash" run
