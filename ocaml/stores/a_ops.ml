(* shared by the streams of area stores: operations of the store alphabet from s-expressions *)
open Model
open Conv

let sop_of_sx (x : Sx.t) : bool * sop =
  match x with
  | Sx.L (Sx.A kind :: i :: args) ->
      let i = (int_sx i = 1) in
      let op = match kind, args with
        | "set-s", [n] -> OSetSender (z_sx n)
        | "set-t", [n] -> OSetTarget (z_sx n)
        | "incr-s", [] -> OIncrSender
        | "incr-t", [] -> OIncrTarget
        | "save", [n; b] -> OSave (z_sx n, bytes_sx b)
        | "save-incr", [n; b] -> OSaveIncr (z_sx n, bytes_sx b)
        | "get", [b; e] -> OGet (z_sx b, z_sx e)
        | "iter", [b; e; a] -> OIterate (z_sx b, z_sx e, opt_sx (fun k -> nat_of_int (int_sx k)) a)
        | "refresh", [n] -> ORefresh (z_sx n)
        | "reset", [n] -> OReset (z_sx n)
        | "reopen", [n] -> OReopen (z_sx n)
        | _ -> failwith ("store: bad op " ^ Sx.to_string x) in
      (i, op)
  | _ -> failwith ("store: bad op " ^ Sx.to_string x)

