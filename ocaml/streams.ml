(* Stream registry: each stream maps (input, implementation observation) to an outcome. *)
type outcome = {
  model : Sx.t;          (* what the extracted model computes from the input alone *)
  spec_ok : bool;        (* the extracted specification predicate evaluated on the implementation's observation *)
  spec_msg : string;
  cls : string;          (* class label for the input distribution *)
  nontrivial : bool;
}

let table : (string * (string -> Sx.t -> Sx.t -> outcome)) list ref = ref []
let register name f = table := (name, f) :: !table

(* optional projection of an observation (and of the model's output) to the observables a property's predicate reads;
   the correspondence for that property is checked on the projection *)
let projections : (string * (string -> Sx.t -> Sx.t -> Sx.t)) list ref = ref []   (* property, input, observation *)
let register_projection name f = projections := (name, f) :: !projections
