(* Stream `fieldmap` (C10): operation programs on a message; see harness/cmd/codec/s_fieldmap.go for the formats. *)
open Model
open Conv
open Streams

let sec_sx = function
  | Sx.A "h" -> SecHeader | Sx.A "b" -> SecBody | Sx.A "t" -> SecTrailer
  | x -> failwith ("fieldmap: section " ^ Sx.to_string x)

let op_sx = function
  | Sx.L [Sx.A "set"; s; t; v; _kind] -> OpSet (sec_sx s, z_sx t, bytes_sx v)
  | Sx.L [Sx.A "rm"; s; t] -> OpRemove (sec_sx s, z_sx t)
  | Sx.L [Sx.A "clr"; s] -> OpClear (sec_sx s)
  | Sx.L [Sx.A "grp"; s; t; tmpl; entries] ->
      OpSetGroup (sec_sx s, z_sx t, list_sx z_sx tmpl, list_sx (list_sx (pair_sx z_sx bytes_sx)) entries)
  | Sx.L [Sx.A "copy"; junk] ->
      OpCopy (list_sx (function Sx.L [s; t; v] -> ((sec_sx s, z_sx t), bytes_sx v) | _ -> failwith "junk") junk)
  | Sx.L [Sx.A "build"] -> OpBuild
  | x -> failwith ("fieldmap: op " ^ Sx.to_string x)

let sx_entries (es : (z * (z * z list) list) list) : Sx.t =
  sx_list (fun (k, tvs) -> Sx.L [sx_z k; sx_list (sx_pair sx_z sx_bytes) tvs]) es
let entries_sx (x : Sx.t) : (z * (z * z list) list) list =
  list_sx (function Sx.L [k; tvs] -> (z_sx k, list_sx (pair_sx z_sx bytes_sx) tvs) | _ -> failwith "entries") x

let sig_of_code (c : int) = match c with
  | 1 -> "sig=unscannable the built bytes are not a sequence of tag=value fields"
  | 2 -> "sig=framing-order the message does not start with 8, 9, 35 or does not end with 10"
  | 3 -> "sig=duplicate-field a set field is written more than once"
  | 4 -> "sig=stale-field a field that is not set (removed or cleared) is written"
  | 5 -> "sig=stale-value a field is written with a value that is not its latest"
  | 6 -> "sig=stale-group-members a field is followed by repeating-group members it does not (any longer) have, or lacks the ones it has"
  | 7 -> "sig=missing-field a set field is not written"
  | 8 -> "sig=section-order header, body and trailer fields are not in this order"
  | 9 -> "sig=bodylength BodyLength is not the byte count between the BodyLength and CheckSum fields"
  | 10 -> "sig=checksum CheckSum is not the byte sum modulo 256 in three digits"
  | _ -> "sig=unclassified"

let has_kind k ops = List.exists (function Sx.L (Sx.A k' :: _) -> k = k' | _ -> false) ops

let run (_prop : string) (inp : Sx.t) (obs : Sx.t) : outcome =
  match inp with
  | Sx.L (Sx.A "ops" :: opsx) ->
      let ops = List.map op_sx opsx in
      let m = msg_run_ops ops in
      let tags3 x = [sx_list sx_z x.m_header.fm_tags; sx_list sx_z x.m_body.fm_tags; sx_list sx_z x.m_trailer.fm_tags] in
      let before = tags3 m in
      let (m', bs) = msg_build m in
      let after = tags3 m' in
      let parsed = match do_parsing bs None None with
        | Ok p -> Sx.L [Sx.A "ok"; Sx.L [sx_entries (fm_entries p.m_header); sx_entries (fm_entries p.m_body); sx_entries (fm_entries p.m_trailer)]]
        | Err _ -> Sx.A "err" | Panic -> Sx.A "panic" | OutOfFuel -> Sx.A "fuel" in
      let (_, cbs) = msg_build (msg_copy_into m' new_message) in
      let model = Sx.L ([Sx.A "obs"; sx_bytes bs] @ before @ after @ [parsed; sx_bytes cbs]) in
      let abs = c10_abs_run ops in
      let proper = c10_proper ops in
      let spec_ok, spec_msg =
        match obs with
        | Sx.A "panic" -> false, "sig=panic building or parsing back panicked"
        | Sx.A "fuel" -> false, "sig=hang building or parsing back did not return"
        | Sx.L [Sx.A "obs"; ibs; _; _; _; _; _; _; iparsed; icbs] when proper ->
            let ibytes = bytes_sx ibs in
            let code = int_of_z (c10_wf ibytes abs) in
            if (code = 4 || code = 6) && not (c10_proper_strict ops)
            then false, "sig=stale-group-members-after-scalar-set a scalar set on a tag holding a repeating group leaves the old group members on the wire"
            else if code <> 0 then false, sig_of_code code
            else (match iparsed with
              | Sx.L [Sx.A "ok"; Sx.L [h; b; t]] ->
                  if not (c10_parse_back_ok abs (entries_sx h) (entries_sx b) (entries_sx t))
                  then false, "sig=parse-back-differs parsing the built bytes does not give the fields that were set"
                  else if Sx.to_string icbs <> Sx.to_string ibs then false, "sig=copy-differs a copied message serialises differently from its source"
                  else true, ""
              | _ -> false, "sig=parse-back-rejected the built bytes are rejected by ParseMessage")
        | _ -> true, "" in
      let cls =
        (if not proper then "improper" else if not (c10_proper_strict ops) then "proper:set-over-group"
         else if c10_flat abs then "proper:flat" else "proper:groups")
        ^ (if has_kind "copy" opsx then "+copy" else "") ^ (if has_kind "rm" opsx || has_kind "clr" opsx then "+remove" else "") in
      { model; spec_ok; spec_msg; cls; nontrivial = List.length ops >= 3 }
  | _ -> failwith ("fieldmap: unknown input " ^ Sx.to_string inp)

let () = register "fieldmap" run
