(* Stream `parse` (C11, C09): see harness/cmd/codec/s_parse.go for the formats. *)
open Model
open Conv
open Streams

let rec gdef_sx = function
  | Sx.L (t :: kids) -> GDef (z_sx t, List.map gdef_sx kids)
  | x -> failwith ("parse: gdef " ^ Sx.to_string x)

let td_sx = function
  | Sx.A "none" -> None
  | Sx.L [Sx.A "td"; h; t] -> Some (list_sx z_sx h, list_sx z_sx t)
  | x -> failwith ("parse: td " ^ Sx.to_string x)

let ad_sx = function
  | Sx.A "none" -> None
  | Sx.L (Sx.A "ad" :: ms) ->
      Some (List.map (function Sx.L (mt :: gs) -> (bytes_sx mt, List.map gdef_sx gs) | _ -> failwith "parse: ad") ms)
  | x -> failwith ("parse: ad " ^ Sx.to_string x)

let rec gdef_tags (GDef (t, ms)) = t :: List.concat_map gdef_tags ms
let sx_entries = S_fieldmap.sx_entries
let entries_sx = S_fieldmap.entries_sx

let sig_of_code = function
  | 1 -> "sig=wellformed-rejected a message with 8,9,35 first, 10 last and a correct BodyLength is rejected"
  | 2 -> "sig=raw-changed the raw bytes of the parsed message differ from the input"
  | 3 -> "sig=field-order the field list of the parsed message is not the wire's"
  | 4 -> "sig=not-retrievable a field is not found in the section its tag belongs to with its wire value"
  | 5 -> "sig=leading-order-accepted a message not starting with 8, 9, 35 is accepted"
  | 6 -> "sig=bodylength-accepted a message whose BodyLength disagrees with its content is accepted"
  | 8 -> "sig=foreign-field a section of the parsed message exposes a tag that is not on the wire"
  | 7 -> "sig=body-bytes-wrong bodyBytes (what a resend replays) is not the wire's body: it must end where the trailer fields begin"
  | _ -> "sig=unclassified"

let run (_prop : string) (inp : Sx.t) (obs0 : Sx.t) : outcome =
  (* (reused obs): the parse into a Message object that an earlier parse had used gave something else than the parse into
     a new object; the specification predicate then judges what the reused object exposes, and the comparison with the
     model (which is the parse into a new object) fails by construction *)
  let reused, obs = match obs0 with Sx.L [Sx.A "reused"; o] -> (true, o) | o -> (false, o) in
  let fs_opt, raw, tdx, adx = match inp with
    | Sx.L [Sx.A "fields"; fs; td; ad] -> let l = list_sx (pair_sx z_sx bytes_sx) fs in (Some l, ser l, td, ad)
    | Sx.L [Sx.A "raw"; b; td; ad] -> (None, bytes_sx b, td, ad)
    | _ -> failwith ("parse: unknown input " ^ Sx.to_string inp) in
  let td = td_sx tdx and ad = ad_sx adx in
  let model = match do_parsing raw td ad with
    | Ok m ->
        Sx.L [Sx.A "ok"; Sx.L [sx_entries (fm_entries m.m_header); sx_entries (fm_entries m.m_body); sx_entries (fm_entries m.m_trailer);
          sx_list (fun t -> Sx.L [sx_z t.tv_tag; sx_bytes t.tv_value; sx_bytes t.tv_bytes]) m.m_fields;
          sx_bytes m.m_body_bytes;
          sx_bytes (match m.m_raw with Some r -> r | None -> [])]]
    | Err _ -> Sx.A "err" | Panic -> Sx.A "panic" | OutOfFuel -> Sx.A "fuel" in
  let iobs = match obs with
    | Sx.L [Sx.A "ok"; Sx.L [h; b; t; fields; bb; r]] ->
        Some { o_h = entries_sx h; o_b = entries_sx b; o_t = entries_sx t;
               o_fields = list_sx (function Sx.L [tg; v; bs] -> ((z_sx tg, bytes_sx v), bytes_sx bs) | _ -> failwith "fields") fields;
               o_body_bytes = bytes_sx bb; o_raw = bytes_sx r }
    | _ -> None in
  let extra_h, extra_t = match td with Some (h, t) -> (h, t) | None -> ([], []) in
  let ad_tags = match ad with None -> None | Some d -> Some (List.concat_map (fun (_, gs) -> List.concat_map gdef_tags gs) d) in
  let wire_ok = match fs_opt with Some fs -> c11_wire_ok fs | None -> false in
  let spec_ok, spec_msg =
    match obs with
    | Sx.A "panic" -> false, "sig=parse-panic ParseMessage panicked"
    | Sx.A "fuel" -> false, "sig=parse-hang ParseMessage did not return"
    | _ ->
        let c1 = match fs_opt with
          | Some fs -> int_of_z (c11_check_fields fs extra_h extra_t ad_tags iobs)
          | None -> 0 in
        let c2 = int_of_z (c11_check_raw raw (iobs <> None)) in
        (* bodyBytes: for a well-formed message whose trailer fields are contiguous at the end, the body bytes are a suffix of
           the message up to the trailer (glue-level check; the session replays exactly these bytes, C03) *)
        let c3 = match iobs with
          | Some o when wire_ok && o.o_body_bytes <> [] ->
              let ttags = List.map (fun (tg, _) -> tg) o.o_t in
              let fl = List.filter (fun ((_, _), bs) -> bs <> []) o.o_fields in
              let rec split_trailer acc = function
                | [] -> acc
                | (((tg, _), bs) :: r) as l ->
                    if List.for_all (fun ((tg', _), _) -> List.mem tg' ttags) l then List.concat_map (fun ((_, _), b) -> b) l
                    else split_trailer acc r in
              let tb = split_trailer [] fl in
              (* only when the sections are in order: no header field after the first body field *)
              let btags = List.map (fun (tg, _) -> tg) o.o_b and htags = List.map (fun (tg, _) -> tg) o.o_h in
              let rec ordered seen_body = function
                | [] -> true
                | ((tg, _), _) :: r -> if List.mem tg btags then ordered true r
                                       else if List.mem tg htags && seen_body then false else ordered seen_body r in
              let tb = if ordered false fl then tb else [] in
              let rw = string_of_bytes raw and want = string_of_bytes (o.o_body_bytes @ tb) in
              let lw = String.length want and lr = String.length rw in
              if tb <> [] && (lw > lr || String.sub rw (lr - lw) lw <> want) then 7 else 0
          | _ -> 0 in
        let sg c = sig_of_code c ^ (if reused then " (parsed into a Message object that an earlier parse had used; a new object gives the model's result)" else "") in
        if c1 <> 0 then false, sg c1 else if c2 <> 0 then false, sg c2
        else if c3 <> 0 then false, sg c3
        else if reused && (match model with Sx.A "err" -> true | _ -> false) && iobs <> None then
          (* whether a message is accepted is a matter of its bytes: the model (the parse into a new Message, with which the
             implementation's parse into a new Message agreed) rejects these bytes, the parse into a used Message accepts them *)
          false, "sig=accept-depends-on-object-history the same bytes are rejected when parsed into a new Message and accepted when parsed into a Message an earlier parse had used"
        else true, "" in
  let dict = (match td, ad with None, None -> "nodict" | None, Some _ -> "app" | Some _, None -> "transport" | Some _, Some _ -> "transport+app") in
  let cls = (match fs_opt with Some _ -> if wire_ok then "fields:wire_ok" else "fields:other" | None -> "raw")
            ^ ":" ^ dict ^ ":" ^ (match model with Sx.A a -> a | _ -> "ok") in
  { model; spec_ok; spec_msg; cls; nontrivial = List.length raw > 0 }

let () = register "parse" run
