(* Stream `timerange` (C18): model side.
   input  = (tr CFG ZONE (grid T0 STEP N) (extra u ...) (strides s ...))   (see harness/cmd/timerange/s_timerange.go)
   observation = (obs RANGEBITS (SAMEBITS ...)).
   model  : tr_range_bits / tr_same_bits (extracted tr_is_in_range / tr_is_in_same_range on every instant / pair).
   spec   : the IMPLEMENTATION's bits against the window enumeration (tr_spec_info per instant: skip flag and the
            indices of the windows containing it; tr_spec_in_range_of, tr_spec_pair_of; TimeRangeProofs.v proves
            them equivalent to the specification):
            IsInRange must equal "some window contains the civil reading" except at the degenerate opening second
            (tr_degenerate_open); IsInSameRange must equal "one window contains both" for every pair that is
            evaluated (code 2 = an edge second, or -- across a set-back of the clock only -- civil readings in the
            reverse order of the instants: not evaluated).  A failing pair in a zone with transitions whose end
            time of day is a skipped civil time is reported as sig=same-range:dst-end-time-skipped (repaired defect). *)
open Model
open Conv
open Streams

let zi = z_of_int

let bits_sx (l : bool list) : Sx.t =
  let b = Buffer.create (List.length l + 1) in
  Buffer.add_char b 'b';
  List.iter (fun x -> Buffer.add_char b (if x then '1' else '0')) l;
  Sx.A (Buffer.contents b)

let sx_bits (x : Sx.t) : bool array =
  let a = Sx.atom x in
  Array.init (String.length a - 1) (fun i -> a.[i + 1] = '1')

let parse_cfg (c : Sx.t) (zone : tr_zone) : tr_range * string =
  match c with
  | Sx.L [Sx.A "daily"; s; e; Sx.L wds] ->
      let s' = int_sx s and e' = int_sx e in
      let rel = if s' < e' then "day" else if s' = e' then "equal" else "overnight" in
      let n = List.length wds in
      let w = if n = 0 then "all-days" else if n = 1 then "one-day" else "subset" in
      (tr_new_time_range_in_location (zi s') (zi e') (List.map (fun d -> zi (int_sx d)) wds) zone,
       "daily:" ^ rel ^ ":" ^ w)
  | Sx.L [Sx.A "weekly"; s; e; sd; ed] ->
      let s' = int_sx s and e' = int_sx e and sd' = int_sx sd and ed' = int_sx ed in
      let rel = if s' < e' then "s<e" else if s' = e' then "s=e" else "s>e" in
      let dr = if sd' = ed' then "same-day" else if sd' < ed' then "sd<ed" else "sd>ed" in
      (tr_new_week_range_in_location (zi s') (zi e') (zi sd') (zi ed') zone, "weekly:" ^ dr ^ ":" ^ rel)
  | _ -> failwith "timerange: bad config"

let run (_prop : string) (inp : Sx.t) (obs : Sx.t) : outcome =
  match inp with
  | Sx.L [Sx.A "tr"; cfg; Sx.L [Sx.A "zone"; _name; init; Sx.L tab];
          Sx.L [Sx.A "grid"; t0; step; n]; Sx.L (Sx.A "extra" :: ex); Sx.L (Sx.A "strides" :: st)] ->
      let zone = { tz_init = zi (int_sx init);
                   tz_trans = List.map (function Sx.L [t; o] -> (zi (int_sx t), zi (int_sx o)) | _ -> failwith "zone") tab } in
      let zkind = if tab = [] then "fixed" else "dst" in
      let (r, ckind) = parse_cfg cfg zone in
      let kind = (match cfg with Sx.L (Sx.A k :: _) -> k | _ -> "?") in
      let grid = tr_grid (zi (int_sx t0)) (zi (int_sx step)) (nat_of_int (int_sx n)) in
      let us = grid @ List.map (fun e -> zi (int_sx e)) ex in
      let ua = Array.of_list us in
      let cnt = Array.length ua in
      let strides = List.map int_sx st in
      let pairs_of s = List.init cnt (fun i -> (ua.(i), ua.((((i + s) mod cnt) + cnt) mod cnt))) in
      (* model *)
      let m_range = tr_range_bits r us in
      let m_same = List.map (fun s -> tr_same_bits r (pairs_of s)) strides in
      let model = Sx.L [Sx.A "obs"; bits_sx m_range; Sx.L (List.map bits_sx m_same)] in
      (* spec on the implementation's bits *)
      let fails = ref [] and nfail = ref 0 in
      let fail sg msg = incr nfail; if not (List.mem_assoc sg !fails) then fails := (sg, msg) :: !fails in
      let nontrivial = ref false in
      (match obs with
       | Sx.L [Sx.A "obs"; rb; Sx.L sbs] ->
           let rb = sx_bits rb in
           let info = Array.of_list (List.map (tr_spec_info r) us) in
           let spec_r = Array.map tr_spec_in_range_of info in
           if Array.length rb <> cnt then fail "shape" "wrong number of IsInRange bits" else begin
             let seen_t = ref false and seen_f = ref false in
             Array.iteri (fun i b ->
               if b then seen_t := true else seen_f := true;
               if b <> spec_r.(i) && not (tr_degenerate_open r (tr_local r ua.(i))) then
                 fail (Printf.sprintf "in-range:%s:%s:%s" kind zkind (if b then "extra" else "missing"))
                   (Printf.sprintf "IsInRange(%s)=%b but %s window contains its civil reading %s"
                      (dec_of_z ua.(i)) b (if spec_r.(i) then "a" else "no") (dec_of_z (tr_local r ua.(i))))) rb;
             if !seen_t && !seen_f then nontrivial := true
           end;
           (try List.iter2 (fun s sb ->
             let sb = sx_bits sb in
             if Array.length sb <> cnt then fail "shape" "wrong number of IsInSameRange bits" else begin
               let seen_t = ref false and seen_f = ref false in
               Array.iteri (fun i b ->
                 if b then seen_t := true else seen_f := true;
                 let j = (((i + s) mod cnt) + cnt) mod cnt in
                 let c = int_of_z (tr_spec_pair_of r ua.(i) ua.(j) info.(i) info.(j)) in
                 if c <> 2 && b <> (c = 1) then begin
                   fail (if zkind = "dst" && tr_dst_end_skipped r ua.(i) ua.(j) then "same-range:dst-end-time-skipped"
                         else Printf.sprintf "same-range:%s:%s:%s" kind zkind (if b then "extra" else "missing"))
                     (Printf.sprintf "IsInSameRange(%s,%s)=%b (civil %s,%s) but the windows say %b"
                        (dec_of_z ua.(i)) (dec_of_z ua.(j)) b (dec_of_z (tr_local r ua.(i))) (dec_of_z (tr_local r ua.(j))) (c = 1))
                 end) sb;
               if !seen_t && !seen_f then nontrivial := true
             end) strides sbs
            with Invalid_argument _ -> fail "shape" "wrong number of stride results")
       | Sx.A "panic" -> fail "panic" "TimeRange panicked"
       | Sx.A "fuel" -> fail "hang" "TimeRange did not return"
       | _ -> fail "shape" "unexpected observation");
      let spec_msg =
        match List.rev !fails with
        | [] -> ""
        | (sg, msg) :: _ as l ->
            Printf.sprintf "sig=%s %s [%d failing bits; signatures: %s]" sg msg !nfail (String.concat "," (List.map fst l)) in
      { model; spec_ok = (!fails = []); spec_msg; cls = ckind ^ ":" ^ zkind; nontrivial = !nontrivial }
  | _ -> failwith ("timerange: unknown input " ^ Sx.to_string inp)

let () = register "timerange" run
