(* Minimal s-expressions shared by the Go harness and the model driver. *)
type t = A of string | L of t list

let parse (s : string) : t =
  let n = String.length s in
  let pos = ref 0 in
  let rec skip () = if !pos < n && (s.[!pos] = ' ' || s.[!pos] = '\t') then (incr pos; skip ()) in
  let rec item () =
    skip ();
    if !pos >= n then failwith "sx: unexpected end"
    else if s.[!pos] = '(' then begin
      incr pos;
      let acc = ref [] in
      let rec loop () =
        skip ();
        if !pos >= n then failwith "sx: unclosed"
        else if s.[!pos] = ')' then incr pos
        else (acc := item () :: !acc; loop ()) in
      loop (); L (List.rev !acc)
    end else begin
      let st = !pos in
      while !pos < n && s.[!pos] <> ' ' && s.[!pos] <> '(' && s.[!pos] <> ')' && s.[!pos] <> '\t' do incr pos done;
      A (String.sub s st (!pos - st))
    end in
  let r = item () in
  skip ();
  if !pos <> n then failwith "sx: trailing"; r

let rec to_buf b = function
  | A a -> Buffer.add_string b a
  | L l -> Buffer.add_char b '(';
      List.iteri (fun i x -> if i > 0 then Buffer.add_char b ' '; to_buf b x) l;
      Buffer.add_char b ')'

let to_string x = let b = Buffer.create 256 in to_buf b x; Buffer.contents b

let atom = function A a -> a | L _ -> failwith "sx: atom expected"
let list = function L l -> l | A a -> failwith ("sx: list expected, got " ^ a)
