(* Stream `groups` (C13).  Input / observation formats: harness/cmd/groups/s_groups.go. *)
open Model
open Conv
open Streams

let rec tmpl_sx (x : Sx.t) : rg_item list =
  List.map (fun e -> match e with
    | Sx.L [Sx.A "e"; t] -> RgElem (z_sx t)
    | Sx.L (Sx.A "g" :: t :: sub) -> RgGrp (z_sx t, tmpl_sx (Sx.L sub))
    | _ -> failwith "template item") (Sx.list x)

let rec val_sx (x : Sx.t) : (z * rg_val) list list =
  List.map (fun e -> List.map (fun m -> match m with
    | Sx.L [t; (Sx.A _ as v)] -> (z_sx t, RgV (bytes_sx v))
    | Sx.L [t; (Sx.L _ as g)] -> (z_sx t, RgG (val_sx g))
    | _ -> failwith "member") (Sx.list e)) (Sx.list x)

let rec def_sx (x : Sx.t) : rg_gdef = match x with
  | Sx.L (t :: ms) -> RgDef (z_sx t, List.map def_sx ms)
  | _ -> failwith "def"

let field_sx = function Sx.L [t; v] -> (z_sx t, bytes_sx v) | _ -> failwith "field"
let sx_field (t, v) = Sx.L [sx_z t; sx_bytes v]

let rec sx_vw = function
  | RgVwNone -> Sx.A "none"
  | RgVwVal b -> Sx.L [Sx.A "some"; sx_bytes b]
  | RgVwGrp rows -> Sx.L [Sx.A "g"; sx_rows rows]
  | RgVwBad -> Sx.A "bad"
and sx_rows rows = Sx.L (List.map (fun r -> Sx.L (List.map sx_vw r)) rows)

type case = {
  beginv : z list; msgtype : z list; hdr : (z * z list) list;
  body : rg_bitem list; reads : (z * rg_item list) list;
  dict : rg_gdef list option; xh : z list; xt : z list; src : string;
}

let case_sx (inp : Sx.t) : case = match inp with
  | Sx.L [Sx.A "case"; Sx.L [Sx.A "hdr"; b; mt; h]; Sx.L (Sx.A "body" :: items); Sx.L (Sx.A "reads" :: reads);
          Sx.L [Sx.A "dict"; d]; Sx.L (Sx.A "xh" :: xh); Sx.L (Sx.A "xt" :: xt); Sx.L [Sx.A "src"; Sx.A src]] ->
      { beginv = bytes_sx b; msgtype = bytes_sx mt; hdr = List.map field_sx (Sx.list h);
        body = List.map (function
          | Sx.L [Sx.A "f"; t; v] -> RgBField (z_sx t, bytes_sx v)
          | Sx.L [Sx.A "g"; t; tm; v] -> RgBGroup (z_sx t, tmpl_sx tm, val_sx v)
          | _ -> failwith "body item") items;
        reads = List.map (function Sx.L [t; tm] -> (z_sx t, tmpl_sx tm) | _ -> failwith "read") reads;
        dict = (match d with Sx.A "none" -> None | Sx.L [Sx.A "some"; Sx.L ds] -> Some (List.map def_sx ds) | _ -> failwith "dict");
        xh = List.map z_sx xh; xt = List.map z_sx xt; src }
  | _ -> failwith ("groups: unknown input " ^ Sx.to_string inp)

exception Model_panic
exception Model_fuel

(* the observation the model predicts for one parse *)
let observe (c : case) (w : (z * z list) list) (scan : rg_badd list res) : Sx.t =
  match scan with
  | Err _ -> Sx.A "perr"
  | Panic -> Sx.A "panic"
  | OutOfFuel -> Sx.A "fuel"
  | Ok body ->
    (try
      let groups = List.map (fun (t, rt) ->
        let gv = match rg_body_get_group w rt t body with
          | Ok g -> Sx.L [Sx.A "ok"; sx_rows (rg_view rt g)]
          | Err e -> Sx.L [Sx.A "err"; sx_z e]
          | Panic -> raise Model_panic
          | OutOfFuel -> raise Model_fuel in
        Sx.L [sx_bool (rg_body_has t body); gv]) c.reads in
      let fields = List.concat (List.map (function
        | RgBField (t, _) -> [sx_opt sx_bytes (rg_body_get w t body)]
        | RgBGroup _ -> []) c.body) in
      Sx.L [Sx.A "ok"; Sx.L [Sx.L (Sx.A "groups" :: groups); Sx.L (Sx.A "fields" :: fields)]]
    with Model_panic -> Sx.A "panic" | Model_fuel -> Sx.A "fuel")

let rec drop n l = if n <= 0 then l else match l with [] -> [] | _ :: r -> drop (n - 1) r
let mem_z (t : z) (l : z list) = List.exists (fun x -> x = t) l

(* per body group (in wire order): tag, template, value, next tag on the wire, tags on the wire behind the count field *)
let group_positions (c : case) (w : (z * z list) list) =
  let sorted = rg_bsort c.body in
  let start = 3 + List.length c.hdr in
  let rec go pos items acc = match items with
    | [] -> List.rev acc
    | it :: r ->
        let n = List.length (rg_bitem_fields it) in
        let acc' = match it with
          | RgBGroup (t, tm, g) ->
              let after = drop (pos + n) w in
              let next = (match after with (x, _) :: _ -> x | [] -> z_of_int 10) in
              (t, tm, g, next, List.map fst (drop (pos + 1) w)) :: acc
          | RgBField _ -> acc in
        go (pos + n) r acc' in
  go start sorted []

let rec distinct = function [] -> true | x :: r -> not (List.mem x r) && distinct r

(* the hypotheses of C13 on the input; with_dict: for the parse with the dictionary *)
let hypotheses (c : case) (w : (z * z list) list) (with_dict : bool) : bool =
  let xh, xt, dict = if with_dict then (c.xh, c.xt, c.dict) else ([], [], None) in
  let special t = rg_is_header_field xh t || rg_is_trailer_field xt t in
  let tags = List.map (function RgBField (t, _) -> t | RgBGroup (t, _, _) -> t) c.body in
  distinct tags
  && List.for_all (fun t -> not (special t)) tags
  && List.for_all (fun (t, tm, g, next, later) ->
       rg_wf_tmpl [next] tm && rg_fits tm g
       && (* the template the group is read with is the one it was written with *)
          (match List.filter (fun (t', _) -> t' = t) c.reads with [(_, rt)] -> rt = tm | _ -> false)
       && (match dict with
           | None -> not (mem_z t later)      (* without dictionary every wire field is a body field: the last one with the tag wins *)
           | Some d ->
               List.for_all (fun x -> not (special x)) (rg_all_tags tm)
               && rg_def_lookup t d = Some (rg_def_of_item (RgGrp (t, tm)))))
       (group_positions c w)
  && List.length (List.filter (function RgBGroup _ -> true | _ -> false) c.body) = List.length c.reads
  && (match dict with
      | None -> true
      | Some d -> List.for_all (function RgBField (t, _) -> not (rg_is_num_in_group d [t]) | RgBGroup _ -> true) c.body)

(* the specification predicate on one observed parse R *)
let spec_parse (c : case) (which : string) (r : Sx.t) : string option =
  match r with
  | Sx.A "panic" | Sx.A "fuel" -> Some ("sig=panic " ^ which ^ ": parse or GetGroup panicked / hung")
  | Sx.A "perr" -> Some ("sig=parse-error-" ^ which ^ " the built message was rejected by the parser")
  | Sx.L [Sx.A "ok"; Sx.L [Sx.L (Sx.A "groups" :: gs); Sx.L (Sx.A "fields" :: fs)]] ->
      let bad = ref None in
      (* every group reads back as written *)
      List.iter2 (fun (t, rt) g ->
        let written = List.find_map (function RgBGroup (t', tm, v) when t' = t -> Some (tm, v) | _ -> None) c.body in
        match written, g with
        | Some (tm, v), Sx.L [_; Sx.L [Sx.A "ok"; view]] ->
            if Sx.to_string view <> Sx.to_string (sx_rows (rg_view tm v)) && !bad = None then
              bad := Some (Printf.sprintf "sig=group-differs-%s group %s read back as %s" which (dec_of_z t) (Sx.to_string view))
        | _, _ -> if !bad = None then
              bad := Some (Printf.sprintf "sig=group-differs-%s group %s: %s" which (dec_of_z t) (Sx.to_string g))) c.reads gs;
      (* every plain field behind the first group is still found *)
      let gtags = List.concat (List.map (function RgBGroup (t, _, _) -> [t] | _ -> []) c.body) in
      let plain = List.concat (List.map (function RgBField (t, v) -> [(t, v)] | _ -> []) c.body) in
      let lt a b = (Model.Z.ltb a b) in
      List.iter2 (fun (t, _) f ->
        if List.exists (fun g -> lt g t) gtags then
          match f with
          | Sx.L [Sx.A "some"; _] -> ()
          | _ -> if !bad = None then bad := Some (Printf.sprintf "sig=following-field-lost %s: Body.Has(%s) is false" which (dec_of_z t))) plain fs;
      !bad
  | _ -> Some ("sig=unreadable-observation " ^ Sx.to_string r)

let rec tmpl_depth (t : rg_item list) = 1 + List.fold_left (fun a it -> match it with RgGrp (_, s) -> max a (tmpl_depth s) | _ -> a) 0 t

let run (_prop : string) (inp : Sx.t) (obs : Sx.t) : outcome =
  let c = case_sx inp in
  let w = rg_build c.beginv c.msgtype c.hdr c.body in
  let nod = observe c w (rg_scan_message [] [] None w) in
  let wd = match c.dict with
    | Some d -> observe c w (rg_scan_message c.xh c.xt (Some d) w)
    | None -> nod in
  let model = Sx.L [Sx.A "obs"; Sx.L (Sx.A "built" :: List.map sx_field w); Sx.L [Sx.A "nodict"; nod]; Sx.L [Sx.A "dict"; wd]] in
  let h_nod = hypotheses c w false and h_dict = hypotheses c w true in
  (* Read / GetGroup are total for every template and field list (rg_read_total): a panic or hang anywhere in the
     observation is a failure whatever the input (e.g. the empty template of fix ce2612b) *)
  let rec has_panic = function
    | Sx.A "panic" | Sx.A "fuel" -> true
    | Sx.A _ -> false
    | Sx.L l -> List.exists has_panic l in
  let fail = if has_panic obs then Some "sig=panic building, parsing or GetGroup panicked / hung" else match obs with
    | Sx.L [Sx.A "obs"; _; Sx.L [Sx.A "nodict"; rn]; Sx.L [Sx.A "dict"; rd]] ->
        (match (if h_nod then spec_parse c "nodict" rn else None) with
         | Some m -> Some m
         | None -> if h_dict then spec_parse c "dict" rd else None)
    | _ -> if h_nod || h_dict then Some "sig=panic building the message panicked" else None in
  let depth = List.fold_left (fun a it -> match it with RgBGroup (_, tm, _) -> max a (tmpl_depth tm) | _ -> a) 0 c.body in
  let kind = if c.src = "gen" then "gen" else "shipped" in
  let hyp = match h_nod, h_dict with true, true -> "in-hyp" | true, false -> "in-hyp-nodict-only" | false, true -> "in-hyp-dict-only" | _ -> "outside-hyp" in
  { model; spec_ok = (fail = None); spec_msg = (match fail with Some m -> m | None -> "");
    cls = Printf.sprintf "%s:depth%d:%s%s" kind depth hyp (if c.dict = None then ":no-dictionary" else "");
    nontrivial = List.exists (function RgBGroup (_, _, g) -> g <> [] | _ -> false) c.body }

let () = register "groups" run

(* Reads through a template in which one tag occurs twice at the same level are outside C13's hypotheses (ill-formed
   template): they are generated for totality (C09).  What the nested views show there depends on which of the two items
   an implementation consults first, so for such cases the correspondence is checked on the status of every read (and on
   the built bytes and plain fields), not on the rows. *)
let rec tmpl_has_dup (t : rg_item list) : bool =
  let tags = List.map (function RgElem x -> x | RgGrp (x, _) -> x) t in
  let rec dup = function [] -> false | x :: r -> List.mem x r || dup r in
  dup tags || List.exists (function RgGrp (_, s) -> tmpl_has_dup s | RgElem _ -> false) t

let project (_prop : ostring) (inp : Sx.t) (obs : Sx.t) : Sx.t =
  let c = try Some (case_sx inp) with _ -> None in
  match c with
  | Some c when List.exists (fun (_, tm) -> tmpl_has_dup tm) c.reads ->
      let coarsen_group = function
        | Sx.L [has; Sx.L (Sx.A "ok" :: _)] -> Sx.L [has; Sx.A "ok"]
        | x -> x in
      let coarsen_side = function
        | Sx.L [Sx.A "ok"; Sx.L [Sx.L (Sx.A "groups" :: gs); fields]] ->
            Sx.L [Sx.A "ok"; Sx.L [Sx.L (Sx.A "groups" :: List.map coarsen_group gs); fields]]
        | x -> x in
      (match obs with
       | Sx.L [Sx.A "obs"; built; Sx.L [Sx.A "nodict"; n]; Sx.L [Sx.A "dict"; d]] ->
           Sx.L [Sx.A "obs"; built; Sx.L [Sx.A "nodict"; coarsen_side n]; Sx.L [Sx.A "dict"; coarsen_side d]]
       | x -> x)
  | _ -> obs

let () = register_projection "groups" project
