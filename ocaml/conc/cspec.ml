(* C02 spec predicate (the extracted boolean [c02_check]) evaluated on the IMPLEMENTATION's event log. *)
open Model
open Conv

(* (trace (save n bytes) (incr n) (reset) (wire bytes) (rbegin) (rend) ...) -> list cev, newest first *)
let field (b : Stdlib.String.t) (tag : Stdlib.String.t) : Stdlib.String.t option =
  let parts = String.split_on_char '\001' b in
  let pre = tag ^ "=" in
  let lp = String.length pre in
  List.fold_left (fun acc f ->
      match acc with Some _ -> acc | None ->
        if String.length f >= lp && String.sub f 0 lp = pre then Some (String.sub f lp (String.length f - lp)) else None)
    None parts

let events_of (obs : Sx.t) : cev list * z option =
  let ids : (Stdlib.String.t, int) Hashtbl.t = Hashtbl.create 64 in
  let id_of b = match Hashtbl.find_opt ids b with Some i -> i | None -> let i = Hashtbl.length ids in Hashtbl.add ids b i; i in
  let find name = match obs with
    | Sx.L (_ :: items) -> List.find_opt (function Sx.L (Sx.A n :: _) when n = name -> true | _ -> false) items
    | _ -> None in
  let final = match find "final" with Some (Sx.L [_; snd; _]) -> Some (z_sx snd) | _ -> None in
  let evs = match find "trace" with Some (Sx.L (_ :: evs)) -> evs | _ -> [] in
  let acc = ref [] in
  List.iter (fun e ->
      match e with
      | Sx.L [Sx.A "save"; n; b] ->
        let id = id_of (string_of_hex (Sx.atom b)) in
        acc := EvSaved (z_sx n, nat_of_int id) :: EvAssign (z_sx n) :: !acc
      | Sx.L [Sx.A "incr"; n] -> acc := EvAssign (z_sx n) :: !acc
      | Sx.L [Sx.A "reset"] -> acc := EvReset :: !acc
      | Sx.L [Sx.A "rbegin"] -> acc := EvResendBegin :: !acc
      | Sx.L [Sx.A "rend"] -> acc := EvResendEnd :: !acc
      | Sx.L [Sx.A "wire"; b] ->
        let s = string_of_hex (Sx.atom b) in
        let num t = match field s t with Some v -> (try z_of_int (int_of_string v) with _ -> Z0) | None -> Z0 in
        let item =
          if field s "35" = Some "4" && field s "123" = Some "Y" then IGap (num "34", num "36")
          else if field s "43" = Some "Y" then IReplay (num "34", nat_of_int (id_of s))
          else IFirst (num "34", nat_of_int (id_of s)) in
        acc := EvWire item :: !acc
      | _ -> ()) evs;
  (!acc, final)

let sigs = [| ""; "sig=gap-or-repeat a number was consumed that is not the next one of its epoch";
              "sig=store-next the store's next outbound number is not one past the last number consumed";
              "sig=wire-before-save a first-time message reached the wire without being saved under its number with the same bytes since the last reset";
              "sig=wire-order first-time messages reached the wire out of increasing order within an epoch";
              "sig=live-inside-replay a first-time message reached the wire between the replayed ones of one resendMessages" |]

let check (persist : bool) (obs : Sx.t) : bool * Stdlib.String.t =
  let (tr, final) = events_of obs in
  let snd = match final with Some z -> z | None -> Z0 in
  let code = int_of_nat (c02_check (z_of_int 1) persist snd tr) in
  (code = 0, sigs.(code))
