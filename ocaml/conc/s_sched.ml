(* Streams `sched` and `stress` (C02). The model side replays the imposed schedule with the extracted step function
   [cstep] over the GENERATED programs [gen_send_shape]; "release thread t" = execute the statement it is parked at
   and continue silently up to its next yield statement; then blocked threads that became enabled continue in the
   order in which they blocked (Go's semaphore queues are FIFO). Every choice made here is a schedule of [cstep]. *)
open Model
open Conv
open Streams

let shape = gen_send_shape

let msg_of = function
  | "app" -> MApp false | "apprej" -> MApp true | "admin" -> MAdmin
  | "logon" -> MLogon false | "logonreset" -> MLogon true
  | k -> failwith ("conc: message kind " ^ k)

let op_of (x : Sx.t) : cop =
  match x with
  | Sx.A "dropreset" -> ODropReset
  | Sx.A "flush" -> OFlush
  | Sx.A "logonreset" -> if clogon_ok shape then OLogon else OLogonResetUnlocked
  | Sx.L [Sx.A "q"; Sx.A k] -> OQueue (msg_of k)
  | Sx.L [Sx.A "send"; Sx.A k] -> OSend (msg_of k)
  | Sx.L [Sx.A "dropsend"; Sx.A k] -> ODropSend (msg_of k)
  | Sx.L [Sx.A "resend"; b; e; Sx.L rejs] -> OResend (z_sx b, z_sx e, List.map z_sx rejs)
  | Sx.L [Sx.A "setlogged"; b] -> OSetLogged (bool_sx b)
  | _ -> failwith ("conc: op " ^ Sx.to_string x)

type label = Done | Start | Yield of Stdlib.String.t | Stuck

let label_of (s : cstate) (t : int) : label =
  match List.nth_opt s.c_ths t with
  | None -> Done
  | Some l ->
    (match l.th_pc with
     | [] -> if l.th_ops = [] then Done else Start
     | SCallApp _ :: _ -> Yield "app"
     | SSaveIncr :: _ -> Yield "save"
     | SIncrOnly :: _ -> Yield "incr"
     | SStoreReset :: _ -> Yield "reset"
     | _ -> Stuck)

let label_str = function Done -> "done" | Start -> "start" | Yield k -> k | Stuck -> "blocked"

let run (prop : Stdlib.String.t) (inp : Sx.t) (obs : Sx.t) : outcome =
  match inp with
  | Sx.L [Sx.A "sched"; Sx.L [Sx.A "cfg"; p; lg; op]; Sx.L (Sx.A "threads" :: threads); Sx.L (Sx.A "schedule" :: sched)] ->
    let persist = bool_sx p in
    let ops = List.map (fun t -> List.map op_of (Sx.list t)) threads in
    let sess = List.hd ops in
    let apps = List.map (List.map (function OQueue m -> m | _ -> failwith "conc: application threads only queue")) (List.tl ops) in
    let s = ref (cinit persist (bool_sx lg) (bool_sx op) (nat_of_int 16384) sess apps) in
    let n = List.length ops in
    let calls = ref [] in
    let blocked = ref [] in     (* thread ids in the order they blocked *)
    let note_call t =
      match List.nth_opt !s.c_ths t with
      | Some l ->
        (match l.th_pc with
         | SReadSnd :: _ -> calls := Sx.L [Sx.A "next"; sx_z !s.c_sh.c_snd] :: !calls
         | SSaveIncr :: _ -> calls := Sx.L [Sx.A "save"; sx_z l.th_seq] :: !calls
         | SIncrOnly :: _ -> calls := Sx.L [Sx.A "incr"] :: !calls
         | SStoreReset :: _ -> calls := Sx.L [Sx.A "reset"] :: !calls
         | _ -> ())
      | None -> () in
    (* session.sentReset: set by the Logon+ResetSeqNumFlag branch of prepMessageForSend, tested and cleared by handleLogon.
       It resolves the uninterpreted condition (COther) of the generated handleLogon program. *)
    let sent_reset = ref false in
    let step t =
      note_call t;
      let ch =
        match List.nth_opt !s.c_ths t with
        | Some l ->
          (match l.th_pc with
           | SIf (COther, _, _) :: _ -> let c = not !sent_reset in sent_reset := false; c
           | SStoreReset :: _ -> (match l.th_msg with MLogon true -> sent_reset := true | _ -> ()); true
           | _ -> true)
        | None -> true in
      match cstep shape !s (nat_of_int t) ch with Some s' -> s := s'; true | None -> false in
    (* continue thread t silently up to its next yield point *)
    let rec silent t fuel =
      if fuel = 0 then () else
      match label_of !s t with
      | Stuck -> if step t then silent t (fuel - 1) else ()
      | _ -> () in
    let settle_blocked () =
      let progress = ref true in
      while !progress do
        progress := false;
        List.iter (fun t ->
          if List.mem t !blocked && label_of !s t = Stuck then begin
            let before = !s in
            silent t 100000;
            if !s != before then begin
              progress := true;
              if label_of !s t <> Stuck then blocked := List.filter (fun u -> u <> t) !blocked
            end
          end) !blocked
      done in
    let labels () = List.init n (fun t -> label_str (label_of !s t)) in
    let steps = ref [] in
    let do_step t =
      let before = labels () in
      let res =
        if t < 0 || t >= n then "skip" else
        match label_of !s t with
        | Done | Stuck -> "skip"
        | Start | Yield _ ->
          ignore (step t);
          silent t 100000;
          if label_of !s t = Stuck && not (List.mem t !blocked) then blocked := !blocked @ [t];
          settle_blocked ();
          label_str (label_of !s t) in
      let after = labels () in
      let woke = List.concat (List.mapi (fun i (b, a) -> if i <> t && b <> a then [Sx.L [sx_int i; Sx.A a]] else [])
                                (List.combine before after)) in
      steps := Sx.L [sx_int t; Sx.A res; Sx.L (Sx.A "woke" :: woke)] :: !steps in
    List.iter (fun x -> do_step (int_sx x)) sched;
    (* drain: lowest parked thread first *)
    let continue = ref true and guard = ref 0 in
    while !continue && !guard < 4000 do
      incr guard;
      let rec find t = if t >= n then -1 else match label_of !s t with Start | Yield _ -> t | _ -> find (t + 1) in
      let t = find 0 in
      if t < 0 then continue := false else do_step t
    done;
    let g = !s.c_sh in
    let wire = List.filter_map (function
        | EvWire (IFirst (k, _)) -> Some (Sx.L [Sx.A "first"; sx_z k])
        | EvWire (IReplay (k, _)) -> Some (Sx.L [Sx.A "replay"; sx_z k])
        | EvWire (IGap (b, e)) -> Some (Sx.L [Sx.A "gap"; sx_z b; sx_z e])
        | _ -> None) (List.rev g.c_trace) in
    let all_done = List.for_all (fun t -> label_of !s t = Done) (List.init n (fun t -> t)) in
    let qlen = if all_done then List.length g.c_q else -1 in
    let obs_trace = (match obs with Sx.L [_; _; _; _; _; tr] -> tr | _ -> Sx.L [Sx.A "trace"]) in
    let model = Sx.L [Sx.A "obs"; Sx.L (Sx.A "steps" :: List.rev !steps); Sx.L (Sx.A "calls" :: List.rev !calls);
                      Sx.L (Sx.A "wire" :: wire); Sx.L [Sx.A "final"; sx_z g.c_snd; sx_int qlen]; obs_trace] in
    let (ok, msg) = Cspec.check persist obs in
    let has o = List.exists (fun t -> List.mem o t) ops in
    let cls = (if has OLogonResetUnlocked || has OLogon then "logonreset," else "") ^
              (if List.exists (fun t -> List.exists (function OResend _ -> true | _ -> false) t) ops then "resend," else "") ^
              (if persist then "persist" else "nopersist") ^
              (if String.length (Sx.to_string (Sx.L !steps)) > 0 && List.exists (function Sx.L [_; Sx.A "blocked"; _] -> true | _ -> false) !steps then ",blocking" else "") in
    { model; spec_ok = ok; spec_msg = msg; cls; nontrivial = List.length sched >= 3 }
  | _ -> failwith ("sched: unknown input " ^ Sx.to_string inp)

let run_stress (_prop : Stdlib.String.t) (inp : Sx.t) (obs : Sx.t) : outcome =
  match inp with
  | Sx.L [Sx.A "stress"; _; _; p; _] ->
    let (ok, msg) = Cspec.check (bool_sx p) obs in
    { model = obs; spec_ok = ok; spec_msg = msg; cls = "stress"; nontrivial = true }
  | _ -> failwith ("stress: unknown input " ^ Sx.to_string inp)

let () = register "sched" run
