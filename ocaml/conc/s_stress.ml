(* Stream `stress` (C02): free-running goroutines, spec predicate only (see s_sched.ml). *)
let () = Streams.register "stress" S_sched.run_stress
