(* C15 spec predicate evaluated on the implementation's verdict. *)
open Model
open Conv

(* the dictionaries the validator uses for this message: (header/trailer dictionary, body dictionary) *)
let dicts_for (app : dict option) (tr : dict option) (m : v_msg) : (dict * dict) option =
  match tr, app, m.vm_msg_type with
  | None, Some a, _ -> Some (a, a)
  | Some t, _, Some mt when v_is_admin_message_type mt -> Some (t, t)
  | Some t, Some a, _ -> Some (t, a)
  | _ -> None

let kind_of (label : Sx.t) : string =
  match label with
  | Sx.A "conforming" -> "conforming"
  | Sx.L [Sx.A "mut"; Sx.A k; _] -> k
  | _ -> "?"

(* kinds whose defect the code must name exactly; group defects are reported "as the code reports them" *)
let kind_code = function
  | "msgtype" -> Some 1 | "missing" -> Some 2 | "undefined" -> Some 3 | "invalidtag" -> Some 4 | "empty" -> Some 5
  | "enum" -> Some 6 | "illtyped" -> Some 7 | "duplicate" -> Some 8
  | "order-header-late" | "order-body-early" -> Some 9
  | _ -> None

(* base: the conforming message the mutant was derived from (first sub-case of the line) *)
let check (label : Sx.t) (s : v_settings) (app : dict option) (tr : dict option) (base : v_msg) (m : v_msg) (o : Sx.t) : bool * string =
  match dicts_for app tr m with
  | None -> (true, "")
  | Some (tdd, add) ->
      let conf = c15_conforms s tdd add m in
      let accepted = (o = Sx.A "none") in
      if conf && not accepted then
        (false, Printf.sprintf "sig=conforming-rejected a message that conforms under these settings (%s) is rejected with %s" (kind_of label) (Sx.to_string o))
      else if (not conf) && accepted then
        (false, Printf.sprintf "sig=nonconforming-accepted:%s a message that does not conform under these settings is accepted" (kind_of label))
      else
        match label, o, dicts_for app tr base with
        | Sx.L [Sx.A "mut"; Sx.A k; t], Sx.L [Sx.A "rej"; r; rt], Some (btdd, badd) ->
            (match kind_code k with
             | Some kc when c15_rule_on (z_of_int kc) s && c15_conforms s btdd badd base ->
                 let rej = (z_sx r, (match rt with Sx.A "none" -> None | x -> Some (z_sx x))) in
                 if c15_named_okb (z_of_int kc) (z_sx t) rej then (true, "")
                 else (false, Printf.sprintf "sig=defect-misnamed:%s single defect at tag %s reported as %s" k (Sx.to_string t) (Sx.to_string o))
             | _ -> (true, ""))
        | _ -> (true, "")
