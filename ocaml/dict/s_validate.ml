(* Stream `validate` (C15): model side.  See harness/cmd/dict/s_validate.go for the formats. *)
open Model
open Conv
open Streams

let sx_settings (x : Sx.t) : v_settings =
  match x with
  | Sx.L [a; b; c; d; e] ->
      { vs_check_fields_out_of_order = bool_sx a; vs_reject_invalid_message = bool_sx b;
        vs_allow_unknown_message_fields = bool_sx c; vs_check_user_defined_fields = bool_sx d;
        vs_check_fields_have_values = bool_sx e }
  | _ -> failwith "validate: settings"

let sx_msg (x : Sx.t) : v_msg =
  match x with
  | Sx.L [Sx.L h; Sx.L b; Sx.L t; mt; Sx.L fs] ->
      { vm_header_tags = List.map z_sx h; vm_body_tags = List.map z_sx b; vm_trailer_tags = List.map z_sx t;
        vm_msg_type = opt_sx bytes_sx mt;
        vm_fields = List.map (function Sx.L [tg; v] -> (z_sx tg, bytes_sx v) | _ -> failwith "validate: field") fs }
  | _ -> failwith "validate: msg"

let sx_opt_dict (x : Sx.t) : dict option =
  match x with Sx.A "none" -> None | d -> Some (S_dict.sx_dict d)

let verdict_sx (r : (z * z option) option res) : Sx.t =
  match r with
  | Ok None -> Sx.A "none"
  | Ok (Some (reason, tag)) -> Sx.L [Sx.A "rej"; sx_z reason; (match tag with Some t -> sx_z t | None -> Sx.A "none")]
  | Err _ -> Sx.A "err"
  | Panic -> Sx.A "panic"
  | OutOfFuel -> Sx.A "fuel"

let label_class (l : Sx.t) : string =
  match l with
  | Sx.A "conforming" -> "conforming"
  | Sx.L [Sx.A "mut"; Sx.A k; _] -> k
  | _ -> "?"

let run (_prop : string) (inp : Sx.t) (obs : Sx.t) : outcome =
  match inp with
  | Sx.L [Sx.A "validate"; Sx.L [Sx.A "dicts"; Sx.A app_name; _]; app; transport; Sx.L subs] ->
      let app_dd = sx_opt_dict app and transport_dd = sx_opt_dict transport in
      let observed = Sx.list obs in
      let base = match subs with Sx.L [_; _; m] :: _ -> sx_msg m | _ -> failwith "validate: no sub-case" in
      let results = List.map2 (fun sub o ->
          match sub with
          | Sx.L [label; st; m] ->
              let s = sx_settings st and msg = sx_msg m in
              let model = verdict_sx (validate s app_dd transport_dd msg) in
              let ok, why = S_v_spec.check label s app_dd transport_dd base msg o in
              (model, ok, why, label_class label)
          | _ -> failwith "validate: sub") subs observed in
      let first_bad = List.find_opt (fun (_, ok, _, _) -> not ok) results in
      { model = Sx.L (List.map (fun (m, _, _, _) -> m) results);
        spec_ok = (first_bad = None);
        spec_msg = (match first_bad with Some (_, _, why, _) -> why | None -> "");
        cls = app_name ^ ":" ^ String.concat "+" (List.sort_uniq Stdlib.compare (List.map (fun (_, _, _, c) -> c) results));
        nontrivial = true }
  | _ -> failwith ("validate: unknown input " ^ Sx.to_string inp)

let () = register "validate" run
