(* Stream `dict` (C19): model side.  See harness/cmd/dict/s_dict.go for the formats. *)
open Model
open Conv
open Streams

(* ---- input document ---- *)
let rec member_sx (x : Sx.t) : xmember =
  match x with
  | Sx.L [el; n; r; Sx.L kids] -> XM (bytes_sx el, bytes_sx n, bytes_sx r, List.map member_sx kids)
  | _ -> failwith "dict: member"
let comp_sx (x : Sx.t) : xcomponent =
  match x with
  | Sx.L [n; mt; Sx.L ms] -> { xc_name = bytes_sx n; xc_msgtype = bytes_sx mt; xc_members = List.map member_sx ms }
  | _ -> failwith "dict: component"
let field_sx (x : Sx.t) : xfield =
  match x with
  | Sx.L [num; n; t; Sx.L vs] -> { xf_number = z_sx num; xf_name = bytes_sx n; xf_type = bytes_sx t; xf_values = List.map bytes_sx vs }
  | _ -> failwith "dict: field"
let doc_sx (x : Sx.t) : xdoc =
  match x with
  | Sx.L [ty; mj; mn; sp; h; t; Sx.L ms; Sx.L cs; Sx.L fs] ->
      { xd_type = bytes_sx ty; xd_major = bytes_sx mj; xd_minor = bytes_sx mn; xd_servicepack = z_sx sp;
        xd_header = opt_sx comp_sx h; xd_trailer = opt_sx comp_sx t;
        xd_messages = List.map comp_sx ms; xd_components = List.map comp_sx cs; xd_fields = List.map field_sx fs }
  | _ -> failwith "dict: doc"

(* ---- canonical dump of a model dictionary (Go maps: first binding of a key wins, keys sorted) ---- *)
let canon (key : 'k -> string) (l : ('k * 'v) list) : ('k * 'v) list =
  let seen = Hashtbl.create 64 in
  let firsts = List.filter (fun (k, _) -> let s = key k in if Hashtbl.mem seen s then false else (Hashtbl.add seen s (); true)) l in
  List.stable_sort (fun (a, _) (b, _) -> Stdlib.compare (key a) (key b)) firsts
let zkey (x : z) : string = Printf.sprintf "%020d" (int_of_z x + 1000000000000)
let sorted_tags (l : z list) : Sx.t list =
  List.map (fun t -> sx_int t) (List.sort_uniq Stdlib.compare (List.map int_of_z l))

let rec tree_sx (f : dict_field_def) : Sx.t =
  match f with DFD (ft, r, kids) -> Sx.L [sx_z ft.dft_tag; sx_bool r; Sx.L (List.map tree_sx kids)]

let msgdef_sx (m : dict_message_def) : Sx.t =
  Sx.L [sx_bytes m.dmd_name; sx_bytes m.dmd_msgtype;
        Sx.L (Sx.A "fields" :: List.map (fun (t, f) -> Sx.L [sx_z t; tree_sx f]) (canon zkey m.dmd_fields));
        Sx.L (Sx.A "tags" :: sorted_tags m.dmd_tags);
        Sx.L (Sx.A "req" :: sorted_tags m.dmd_required_tags)]

let dump (d : dict) : Sx.t =
  let types = List.map (fun (t, ft) ->
      Sx.L [sx_z t; sx_z ft.dft_tag; sx_bytes ft.dft_name; sx_bytes ft.dft_type;
            Sx.L (List.map (fun e -> Sx.A (hex_of_string e)) (List.sort_uniq Stdlib.compare (List.map string_of_bytes ft.dft_enums)))])
      (canon zkey d.dd_field_type_by_tag) in
  let names = List.map (fun (n, ft) -> Sx.L [sx_bytes n; sx_z ft.dft_tag]) (canon string_of_bytes d.dd_field_type_by_name) in
  let comps = List.map (fun (n, c) ->
      Sx.L [sx_bytes n; sx_bytes c.dct_name; Sx.L (List.map tree_sx c.dct_fields);
            Sx.L (List.map (fun f -> sx_z (dfd_tag f)) c.dct_required_fields)])
      (canon string_of_bytes d.dd_component_types) in
  let msgs = List.map (fun (k, m) -> Sx.L [sx_bytes k; msgdef_sx m]) (canon string_of_bytes d.dd_messages) in
  Sx.L [Sx.A "dict"; Sx.L [Sx.A "ver"; sx_bytes d.dd_fix_type; sx_z d.dd_major; sx_z d.dd_minor; sx_z d.dd_servicepack];
        Sx.L (Sx.A "types" :: types); Sx.L (Sx.A "names" :: names); Sx.L (Sx.A "comps" :: comps); Sx.L (Sx.A "msgs" :: msgs);
        Sx.L [Sx.A "header"; sx_opt msgdef_sx d.dd_header]; Sx.L [Sx.A "trailer"; sx_opt msgdef_sx d.dd_trailer]]

(* ---- the implementation's dump read back as a dictionary value (for the spec predicate) ---- *)
let rec sx_tree (x : Sx.t) : dict_field_def =
  match x with
  | Sx.L [t; r; Sx.L kids] ->
      DFD ({ dft_name = []; dft_tag = z_sx t; dft_type = []; dft_enums = [] }, bool_sx r, List.map sx_tree kids)
  | _ -> failwith "dict: tree"
let sx_msgdef (x : Sx.t) : dict_message_def =
  match x with
  | Sx.L [n; mt; Sx.L (Sx.A "fields" :: fs); Sx.L (Sx.A "tags" :: ts); Sx.L (Sx.A "req" :: rs)] ->
      { dmd_name = bytes_sx n; dmd_msgtype = bytes_sx mt;
        dmd_fields = List.map (function Sx.L [t; tr] -> (z_sx t, sx_tree tr) | _ -> failwith "dict: field entry") fs;
        dmd_required_tags = List.map z_sx rs; dmd_tags = List.map z_sx ts }
  | _ -> failwith "dict: msgdef"
let sx_dict (x : Sx.t) : dict =
  match x with
  | Sx.L [Sx.A "dict"; Sx.L [Sx.A "ver"; ty; mj; mn; sp]; Sx.L (Sx.A "types" :: types); Sx.L (Sx.A "names" :: _);
          Sx.L (Sx.A "comps" :: _); Sx.L (Sx.A "msgs" :: msgs); Sx.L [Sx.A "header"; h]; Sx.L [Sx.A "trailer"; t]] ->
      { dd_fix_type = bytes_sx ty; dd_major = z_sx mj; dd_minor = z_sx mn; dd_servicepack = z_sx sp;
        dd_field_type_by_tag = List.map (function
            | Sx.L [k; tg; n; tp; Sx.L es] ->
                (z_sx k, { dft_name = bytes_sx n; dft_tag = z_sx tg; dft_type = bytes_sx tp; dft_enums = List.map bytes_sx es })
            | _ -> failwith "dict: type entry") types;
        dd_field_type_by_name = []; dd_component_types = [];
        dd_messages = List.map (function Sx.L [k; m] -> (bytes_sx k, sx_msgdef m) | _ -> failwith "dict: msg entry") msgs;
        dd_header = opt_sx sx_msgdef h; dd_trailer = opt_sx sx_msgdef t }
  | _ -> failwith "dict: dump"
let res_of_obs (o : Sx.t) : dict res =
  match o with
  | Sx.L [Sx.A "ok"; d] -> Ok (sx_dict d)
  | Sx.L [Sx.A "err"; c] -> Err (z_sx c)
  | Sx.A "panic" -> Panic
  | Sx.A "fuel" -> OutOfFuel
  | _ -> failwith "dict: observation"

let signature (code : int) : string =
  match code with
  | 1 -> "sig=reach-mismatch Fields/Tags of a message differ from the fields reachable in the XML"
  | 2 -> "sig=required-mismatch RequiredTags differ from the directly required fields plus those of required components"
  | 3 -> "sig=group-order a group's members differ from the declaration order with components expanded in place"
  | 4 -> "sig=type-mismatch type or enumeration of a field differs from its declaration"
  | 5 -> "sig=message-set a message, header or trailer is missing or extra"
  | 6 -> "sig=walk-undefined the specification walk is undefined on an accepted document"
  | 10 -> "sig=valid-refused a closed, acyclic, uniquely named document is refused"
  | 11 -> "sig=dangling-accepted a document referencing an undefined field or component is accepted"
  | 12 -> "sig=cyclic-accepted a document with cyclic components is accepted"
  | 13 -> "sig=loader-crash the loader panicked or hung"
  | n -> Printf.sprintf "sig=c19-%d" n

let rec nested (ms : xmember list) : bool =
  List.exists (fun m -> xm_is_component m || (match m with XM (_, _, _, k) -> k <> [])) ms

let run (_prop : string) (inp : Sx.t) (obs : Sx.t) : outcome =
  match inp with
  | Sx.L [Sx.A "spec"; Sx.A name; d] ->
      let doc = doc_sx d in
      let r = dict_build doc in
      let model =
        if name <> "none" &&
           (match List.find_opt (fun (n, _) -> string_of_bytes n = name) dict_shipped_fp with
            | Some (_, fp) -> List.map int_of_z fp <> List.map int_of_z (dict_fp doc)
            | None -> true)
        then Sx.L [Sx.A "translator-mismatch"; Sx.A name]   (* Gen/Dicts/<name>.v is not what encoding/xml reads *)
        else match r with
          | Ok dd -> Sx.L [Sx.A "ok"; dump dd]
          | Err e -> Sx.L [Sx.A "err"; sx_z e]
          | Panic -> Sx.A "panic"
          | OutOfFuel -> Sx.A "fuel" in
      let code = int_of_z (c19_verdict doc (res_of_obs obs)) in
      let cls =
        if name <> "none" then "shipped"
        else if not (sp_uniqueb doc) then "gen:duplicate-names"
        else if not (sp_header_okb doc) then "gen:bad-header"
        else if not (sp_closedb doc) then "gen:dangling"
        else if not (sp_acyclicb doc) then "gen:cyclic"
        else "gen:valid" in
      { model; spec_ok = (code = 0); spec_msg = signature code; cls;
        nontrivial = name <> "none" || cls <> "gen:valid"
                     || List.exists (fun c -> nested c.xc_members) (doc.xd_messages @ doc.xd_components) }
  | _ -> failwith ("dict: unknown input " ^ Sx.to_string inp)

let () = register "dict" run
