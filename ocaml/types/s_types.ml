(* Stream `types` (C14, C09): FIX value types.
   For every op the model recomputes the whole observation from the input; spec_ok evaluates the extracted
   *grammar oracles* (Codec/FixIntSpec.v, Types/TypesSpec.v) against what the implementation did:
   accept <=> grammar, the value read, and the write->read / read->write identities. *)
open Model
open Conv
open Streams

let is_panic = function Sx.A "panic" | Sx.A "fuel" -> true | _ -> false
let ok l = Sx.L (Sx.A "ok" :: l)
let err = Sx.A "err"
let cls_of op m = op ^ (match m with Sx.A "err" -> ":reject" | Sx.A _ -> ":other" | _ -> ":accept")
let out ?(nontrivial = true) model cls (spec_ok, spec_msg) = { model; spec_ok; spec_msg; cls; nontrivial }
let pass = (true, "")
let fail sig_ msg = (false, "sig=" ^ sig_ ^ " " ^ msg)
(* first failing check wins *)
let rec checks = function [] -> pass | (true, _, _) :: r -> checks r | (false, s, m) :: _ -> fail s m
let z0 = z_of_int 0

(* ---------- int ---------- *)
let int_read_model d =
  match fix_int_read d with
  | Ok v -> ok [sx_z v; sx_bytes (fix_int_write v)]
  | Err _ -> err | Panic -> Sx.A "panic" | OutOfFuel -> Sx.A "fuel"

let int_read_spec_check d obs =
  if is_panic obs then fail "int-read-panic" "FIXInt.Read panicked or hung" else
  match int_read_spec d, obs with
  | None, Sx.A "err" -> pass
  | None, _ -> if int_grammar d then fail "int-accepts-out-of-range" "a text denoting a number outside int64 was accepted"
               else fail "int-accepts-nongrammar" "a text outside -?[0-9]+ was accepted"
  | Some _, Sx.A "err" -> fail "int-rejects-grammar" "a text of the int grammar within int64 was rejected"
  | Some v, Sx.L [Sx.A "ok"; v'; w] ->
      checks [ (z_sx v' = v, "int-wrong-value", "read value differs from the number the text denotes");
               (not (canonical_int d) || bytes_sx w = d, "int-canonical-rewrite", "canonical text not reproduced by Write") ]
  | _ -> fail "int-read-shape" "unexpected observation"

let int_write_model n =
  let w = fix_int_write n in
  Sx.L [sx_bytes w; sx_res_class sx_z (fix_int_read w)]

let int_write_spec_check n obs =
  match obs with
  | Sx.L [w; r] ->
      let w = bytes_sx w in
      checks [ (canonical_int w, "int-write-noncanonical", "Write produced a non-canonical text");
               (r = ok [sx_z n], "int-roundtrip", "Read(Write(n)) is not n") ]
  | _ -> fail "int-write-panic" "FIXInt.Write/Read panicked"

(* ---------- bool ---------- *)
let bool_read_model d =
  match fix_bool_read d with
  | Ok v -> ok [sx_bool v; sx_bytes (fix_bool_write v)]
  | Err _ -> err | Panic -> Sx.A "panic" | OutOfFuel -> Sx.A "fuel"

let bool_read_spec_check d obs =
  match bool_grammar d, obs with
  | None, Sx.A "err" -> pass
  | None, _ -> fail "bool-accepts-nongrammar" "a text other than Y / N was accepted (or a panic)"
  | Some _, Sx.A "err" -> fail "bool-rejects-grammar" "Y or N was rejected"
  | Some b, Sx.L [Sx.A "ok"; b'; w] ->
      checks [ (bool_sx b' = b, "bool-wrong-value", "wrong boolean");
               (bytes_sx w = d, "bool-rewrite", "text not reproduced by Write") ]
  | _ -> fail "bool-read-shape" "unexpected observation"

let bool_write_model b =
  let w = fix_bool_write b in Sx.L [sx_bytes w; sx_res_class sx_bool (fix_bool_read w)]

let bool_write_spec_check b obs =
  match obs with
  | Sx.L [w; r] ->
      checks [ (bool_grammar (bytes_sx w) = Some b, "bool-write-nongrammar", "Write did not produce Y / N");
               (r = ok [sx_bool b], "bool-roundtrip", "Read(Write(b)) is not b") ]
  | _ -> fail "bool-write-panic" "panic"

(* ---------- UTC timestamp ---------- *)
let sx_ts ((sec, ns), p) rest = ok ([sx_z sec; sx_z ns; sx_z p] @ rest)

let ts_read_model d =
  match timestamp_read d with
  | Ok ((t, p) as v) -> sx_ts v [sx_bytes (timestamp_write t p)]
  | Err _ -> err | Panic -> Sx.A "panic" | OutOfFuel -> Sx.A "fuel"

let ts_read_spec_check d obs =
  if is_panic obs then fail "ts-read-panic" "FIXUTCTimestamp.Read panicked or hung" else
  match ts_read_spec d, obs with
  | None, Sx.A "err" -> pass
  | None, _ -> fail "ts-accepts-nongrammar" "a text outside YYYYMMDD-HH:MM:SS[.sss|.ssssss|.sssssssss] (valid date and time of day) was accepted"
  | Some _, Sx.A "err" -> fail "ts-rejects-grammar" "a grammatical timestamp was rejected"
  | Some ((sec, ns), p), Sx.L [Sx.A "ok"; sec'; ns'; p'; w] ->
      checks [ (z_sx p' = p, "ts-wrong-precision", "precision differs from the one the length denotes");
               (z_sx sec' = sec && z_sx ns' = ns, "ts-wrong-value", "instant differs from the one the text denotes");
               (bytes_sx w = d, "ts-rewrite", "grammatical text not reproduced by Write at the read precision") ]
  | _ -> fail "ts-read-shape" "unexpected observation"

let ts_write_model sec ns p =
  let w = timestamp_write (sec, ns) p in
  Sx.L [sx_bytes w; (match timestamp_read w with
                     | Ok v -> sx_ts v [] | Err _ -> err | Panic -> Sx.A "panic" | OutOfFuel -> Sx.A "fuel")]

let norm_prec p = match ts_frac_len p with Some _ -> p | None -> z0

let ts_write_spec_check sec ns p obs =
  match obs with
  | Sx.L [w; r] ->
      if not (ts_in_rangeb (sec, ns)) then pass   (* outside years 0000..9999: no claim, model comparison only *)
      else
        let p' = norm_prec p in
        let (tsec, tns) = ts_trunc p' (sec, ns) in
        checks [ (ts_grammarb p' (bytes_sx w), "ts-write-nongrammar", "Write produced a text outside the grammar of its precision");
                 (r = ok [sx_z tsec; sx_z tns; sx_z p'], "ts-roundtrip", "Read(Write(t)) is not t truncated to the written precision") ]
  | _ -> fail "ts-write-panic" "panic"

(* ---------- float (acceptance only; values are never compared) ---------- *)
let float_read_model d = if float_read_ok d then Sx.A "ok" else err

let float_read_spec_check d obs =
  match float_spec d, obs with
  | true, Sx.A "ok" | false, Sx.A "err" -> pass
  | true, Sx.A "err" -> fail "float-rejects-grammar" "a text of the float grammar (in float64 range) was rejected"
  | false, Sx.A "ok" ->
      if float_grammarb d then fail "float-accepts-out-of-range" "a text beyond the float64 range was accepted"
      else fail "float-accepts-nongrammar" "a text outside -?(D+(.D*)?|.D+) was accepted"
  | _ -> fail "float-read-panic" "FIXFloat.Read panicked or unexpected observation"

let float_write_model neg digs dp = Sx.L [sx_bytes (float_write_digits neg digs dp); Sx.A "T"]

let float_write_spec_check obs =
  match obs with
  | Sx.L [w; rt] ->
      checks [ (float_spec (bytes_sx w), "float-write-nongrammar", "Write produced a text outside the float grammar");
               (rt = Sx.A "T", "float-roundtrip", "Read(Write(v)) is not v") ]
  | _ -> fail "float-write-panic" "panic"

let float_canon_model d = if float_read_ok d then Sx.A "T" else err
let float_canon_spec_check obs =
  if obs = Sx.A "T" then pass else fail "float-canonical-rewrite" "canonical float text not reproduced by Write(Read(s))"

(* ---------- string / bytes ---------- *)
let id_model rd wr d =
  match rd d with Ok v -> ok [sx_bytes v; sx_bytes (wr v)] | _ -> err
let id_spec_check name d obs =
  if obs = ok [sx_bytes d; sx_bytes d] then pass else fail (name ^ "-identity") "Read/Write is not the identity"

(* ---------- decimal (shopspring) ---------- *)
let sx_dec (v, e) = ok [sx_z v; sx_z e]
let dec_res = function Ok d -> sx_dec d | Err _ -> err | Panic -> Sx.A "panic" | OutOfFuel -> Sx.A "fuel"

let dec_write_part d scale =
  let w = decimal_write d scale in [sx_bytes w; dec_res (decimal_read w)]

let dec_read_model s scale =
  match decimal_read s with
  | Ok ((v, e) as d) ->
      if abs (int_of_z e) > 1000 then ok [sx_z v; sx_z e]   (* Write would compute 10^|e|: not exercised *)
      else ok ([sx_z v; sx_z e] @ dec_write_part d scale)
  | Err _ -> err | Panic -> Sx.A "panic" | OutOfFuel -> Sx.A "fuel"

let dec_write_model d scale = Sx.L (dec_write_part d scale)

(* Read(Write(d, scale)) denotes d rounded half away from zero to scale digits *)
let dec_rt_check (v, e) scale w r =
  match r with
  | Sx.L [Sx.A "ok"; v'; e'] ->
      let want = dec_round_half_away v e scale in
      (dec_value_eqb (z_sx v') (z_sx e') want (Z.opp scale), "dec-roundtrip",
       "Read(Write(d, scale)) is not d rounded half away from zero to scale digits")
  | _ -> (false, "dec-roundtrip", "the written text was rejected by Read")

(* canonical decimal text: -?D+(.D+)? without superfluous leading zeros and not -0...; rewritten at its own scale *)
let dec_canonical s =
  let s = string_of_bytes s in
  let n = String.length s in
  let body = if n > 0 && s.[0] = '-' then String.sub s 1 (n - 1) else s in
  let neg = n > 0 && s.[0] = '-' in
  let ip, fp = match String.index_opt body '.' with
    | None -> body, None
    | Some i -> String.sub body 0 i, Some (String.sub body (i + 1) (String.length body - i - 1)) in
  let digits x = x <> "" && String.for_all (fun c -> c >= '0' && c <= '9') x in
  let nonzero x = String.exists (fun c -> c >= '1' && c <= '9') x in
  digits ip && (match fp with None -> true | Some f -> digits f)
  && (String.length ip = 1 || ip.[0] <> '0')
  && (not neg || nonzero ip || (match fp with Some f -> nonzero f | None -> false))

let frac_len s =
  let s = string_of_bytes s in
  match String.index_opt s '.' with None -> 0 | Some i -> String.length s - i - 1

let dec_read_spec_check s scale obs =
  if is_panic obs then fail "dec-read-panic" "FIXDecimal.Read panicked or hung" else
  match obs with
  | Sx.A "err" -> if dec_canonical s then fail "dec-rejects-canonical" "a canonical decimal text was rejected" else pass
  | Sx.L [Sx.A "ok"; _; _] -> pass
  | Sx.L [Sx.A "ok"; v; e; w; r] ->
      let d = (z_sx v, z_sx e) in
      checks [ dec_rt_check d scale w r;
               (not (dec_canonical s && int_of_z scale = frac_len s) || bytes_sx w = s,
                "dec-canonical-rewrite", "canonical decimal text not reproduced by Write at its own scale") ]
  | _ -> fail "dec-read-shape" "unexpected observation"

let dec_write_spec_check d scale obs =
  match obs with
  | Sx.L [w; r] -> checks [ dec_rt_check d scale w r ]
  | _ -> fail "dec-write-panic" "panic"

(* ---------- udecimal ---------- *)
let udec_part d scale =
  let w = udecimal_write d scale in
  [sx_bytes w; (match udecimal_read w with Ok d' -> sx_bytes (udc_string d') | _ -> err)]

let udec_read_model s scale =
  match udecimal_read s with
  | Ok (((_, _), p) as d) -> ok ([sx_bytes (udc_string d); sx_z p] @ udec_part d scale)
  | Err _ -> err | Panic -> Sx.A "panic" | OutOfFuel -> Sx.A "fuel"

(* value of a canonical udecimal text as (coef, prec), through the independent decimal reader of TypesSpec/FixDecimal *)
let udec_canonical s = dec_canonical s && frac_len s <= 19 && List.length s <= 200

let text_value s =
  (* (neg, coef, prec) of -?D+(.D+)? ; digits only arithmetic through the model's unbounded decimal reader *)
  let str = string_of_bytes s in
  let neg = String.length str > 0 && str.[0] = '-' in
  let body = if neg then String.sub str 1 (String.length str - 1) else str in
  let digits = String.concat "" (String.split_on_char '.' body) in
  (neg, z_of_dec digits, z_of_int (frac_len s))

let udec_read_spec_check s scale obs =
  if is_panic obs then fail "udec-read-panic" "FIXUDecimal.Read panicked or hung" else
  match obs with
  | Sx.A "err" -> if udec_canonical s then fail "udec-rejects-canonical" "a canonical decimal text was rejected" else pass
  | Sx.L [Sx.A "ok"; str; p; w; r] ->
      (* the value read, from its canonical String() and the value written then re-read *)
      let (neg, coef, prec) = text_value (bytes_sx str) in
      let want = udec_trunc_spec coef prec scale in
      let wprec = if int_of_z prec <= int_of_z scale then prec else scale in
      let r_ok = match r with
        | Sx.A "err" | Sx.L _ -> false
        | r -> let (neg', coef', prec') = text_value (bytes_sx r) in
               dec_value_eqb coef' (Z.opp prec') want (Z.opp wprec) && (neg' = neg || want = z0) in
      (* udecimal.Parse refuses texts longer than 200 bytes (ErrMaxStrLen): a value whose written form is longer is
         outside the domain of the round-trip claim *)
      let r_ok = r_ok || List.length (bytes_sx w) > 200 in
      checks [ (r_ok, "udec-roundtrip", "Read(Write(d, scale)) is not d truncated to scale digits");
               (not (udec_canonical s && int_of_z scale = frac_len s) || bytes_sx w = s,
                "udec-canonical-rewrite", "canonical decimal text not reproduced by Write at its own scale") ]
  | _ -> fail "udec-read-shape" "unexpected observation"

(* ---------- dispatch ---------- *)
let rec run (_prop : string) (inp : Sx.t) (obs : Sx.t) : outcome =
  match obs with
  | Sx.L [Sx.A "reused"; o] ->
      (* Read into a receiver that already held a value gave something else than Read into a new variable: the specification
         predicate judges what the used receiver yields; the comparison with the model fails by construction *)
      let r = run _prop inp o in
      { r with model = Sx.L [Sx.A "not-reused"; r.model];
               spec_msg = (if r.spec_ok then "" else r.spec_msg ^ " (Read into a receiver that already held an earlier value; a new variable gives the model's result)") }
  | _ ->
  match inp with
  | Sx.L [Sx.A "int-read"; b] ->
      let d = bytes_sx b in let m = int_read_model d in
      out ~nontrivial:(d <> []) m (cls_of "int-read" m) (int_read_spec_check d obs)
  | Sx.L [Sx.A "int-write"; n] ->
      let n = z_sx n in out (int_write_model n) "int-write" (int_write_spec_check n obs)
  | Sx.L [Sx.A "bool-read"; b] ->
      let d = bytes_sx b in let m = bool_read_model d in
      out m (cls_of "bool-read" m) (bool_read_spec_check d obs)
  | Sx.L [Sx.A "bool-write"; b] ->
      let b = bool_sx b in out (bool_write_model b) "bool-write" (bool_write_spec_check b obs)
  | Sx.L [Sx.A "ts-read"; b] ->
      let d = bytes_sx b in let m = ts_read_model d in
      out ~nontrivial:(d <> []) m (cls_of ("ts-read/len" ^ string_of_int (List.length d)) m) (ts_read_spec_check d obs)
  | Sx.L (Sx.A "ts-write" :: sec :: ns :: p :: ([] | [_] as zone)) ->
      let sec = z_sx sec and ns = z_sx ns and p = z_sx p in
      out (ts_write_model sec ns p) ("ts-write/p" ^ Sx.atom (sx_z p) ^ (if zone = [] then "" else ":zoned") ^ (if ts_in_rangeb (sec, ns) then "" else ":out-of-range"))
        (ts_write_spec_check sec ns p obs)
  | Sx.L [Sx.A "float-read"; b] ->
      let d = bytes_sx b in let m = float_read_model d in
      out ~nontrivial:(d <> []) m (if m = err then "float-read:reject" else "float-read:accept") (float_read_spec_check d obs)
  | Sx.L [Sx.A "float-write"; neg; digs; dp] ->
      out (float_write_model (bool_sx neg) (bytes_sx digs) (z_sx dp)) "float-write" (float_write_spec_check obs)
  | Sx.L [Sx.A "float-canon"; b] ->
      out (float_canon_model (bytes_sx b)) "float-canon" (float_canon_spec_check obs)
  | Sx.L [Sx.A "str-rt"; b] ->
      let d = bytes_sx b in out (id_model fix_string_read fix_string_write d) "str-rt" (id_spec_check "str" d obs)
  | Sx.L [Sx.A "bytes-rt"; b] ->
      let d = bytes_sx b in out (id_model fix_bytes_read fix_bytes_write d) "bytes-rt" (id_spec_check "bytes" d obs)
  | Sx.L [Sx.A "dec-read"; b; scale] ->
      let d = bytes_sx b and scale = z_sx scale in let m = dec_read_model d scale in
      out ~nontrivial:(d <> []) m (cls_of "dec-read" m) (dec_read_spec_check d scale obs)
  | Sx.L [Sx.A "dec-write"; v; e; scale] ->
      let d = (z_sx v, z_sx e) and scale = z_sx scale in
      out (dec_write_model d scale) "dec-write" (dec_write_spec_check d scale obs)
  | Sx.L [Sx.A "udec-read"; b; scale] ->
      let d = bytes_sx b and scale = z_sx scale in let m = udec_read_model d scale in
      out ~nontrivial:(d <> []) m (cls_of "udec-read" m) (udec_read_spec_check d scale obs)
  | _ -> failwith ("types: unknown input " ^ Sx.to_string inp)

let () = register "types" run
