(* Stream `types` (C14, C09). *)
open Model
open Conv
open Streams

let is_panic = function Sx.A "panic" | Sx.A "fuel" -> true | _ -> false

let run (_prop : string) (inp : Sx.t) (obs : Sx.t) : outcome =
  match inp with
  | Sx.L [Sx.A "int-read"; b] ->
      let d = bytes_sx b in
      let m = sx_res_class sx_z (fix_int_read d) in
      { model = m; spec_ok = not (is_panic obs); spec_msg = "FIXInt.Read panicked or hung";
        cls = (match m with Sx.A "err" -> "int-read:reject" | _ -> "int-read:accept");
        nontrivial = List.length d > 0 }
  | Sx.L [Sx.A "int-write"; n] ->
      let m = sx_bytes (fix_int_write (z_sx n)) in
      { model = m; spec_ok = not (is_panic obs); spec_msg = "FIXInt.Write panicked"; cls = "int-write"; nontrivial = true }
  | Sx.L [Sx.A "bool-read"; b] ->
      let m = sx_res_class sx_bool (fix_bool_read (bytes_sx b)) in
      { model = m; spec_ok = not (is_panic obs); spec_msg = "FIXBoolean.Read panicked";
        cls = (match m with Sx.A "err" -> "bool-read:reject" | _ -> "bool-read:accept"); nontrivial = true }
  | Sx.L [Sx.A "bool-write"; b] ->
      { model = sx_bytes (fix_bool_write (bool_sx b)); spec_ok = true; spec_msg = ""; cls = "bool-write"; nontrivial = true }
  | _ -> failwith ("types: unknown input " ^ Sx.to_string inp)

let () = register "types" run
