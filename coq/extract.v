(* Extraction of the executable models and specification predicates (DESIGN 6).
   ExtrOcamlBasic only; Z, N, positive, nat remain the Coq datatypes. Run with coqc from _build/ocaml. *)
Require Extraction.
Require Import ExtrOcamlBasic.
From QF Require Import Base.Res Base.Bytes Extract.Glue Codec.FixInt Types.FixBool.
Extraction "model.ml"
  Glue.z_of_dec Glue.nat_of_z Glue.z_of_nat itoa
  fix_int_read fix_int_write fix_bool_read fix_bool_write.
