(* Lemmas about the model of repeating groups (Group.v): C13. *)
From Coq Require Import ZArith List Bool Lia ZifyBool Permutation Sorted.
From QF Require Import Base.Res Base.Bytes Codec.FixInt Codec.FixIntProofs Codec.Group.
Import ListNotations.
Open Scope Z_scope.

(* ------------------------------------------------------------------------------------------------ *)
(* boolean list predicates                                                                             *)

Lemma rg_memb_In : forall t l, rg_memb t l = true <-> In t l.
Proof.
  intros t l. unfold rg_memb. rewrite existsb_exists. split.
  - intros [x [Hin Heq]]. apply Z.eqb_eq in Heq. subst x. exact Hin.
  - intros Hin. exists t. split; [exact Hin | apply Z.eqb_refl].
Qed.

Lemma rg_memb_false : forall t l, rg_memb t l = false <-> ~ In t l.
Proof.
  intros t l. rewrite <- rg_memb_In. destruct (rg_memb t l); split; intros H; try congruence.
Qed.

Lemma rg_nodupb_NoDup : forall l, rg_nodupb l = true <-> NoDup l.
Proof.
  induction l as [|x r IH]; cbn [rg_nodupb].
  - split; [constructor | reflexivity].
  - rewrite andb_true_iff, negb_true_iff, rg_memb_false, IH. split.
    + intros [H1 H2]. constructor; assumption.
    + intros H. inversion H; subst. split; assumption.
Qed.

Lemma rg_disjointb_spec : forall a b, rg_disjointb a b = true <-> (forall x, In x a -> ~ In x b).
Proof.
  intros a b. unfold rg_disjointb. rewrite forallb_forall. split.
  - intros H x Hin. apply rg_memb_false. apply negb_true_iff. apply H. exact Hin.
  - intros H x Hin. apply negb_true_iff. apply rg_memb_false. apply H. exact Hin.
Qed.

(* ------------------------------------------------------------------------------------------------ *)
(* templates                                                                                           *)

Fixpoint rg_item_ind' (P : rg_item -> Prop) (He : forall t, P (RgElem t))
    (Hg : forall t sub, Forall P sub -> P (RgGrp t sub)) (it : rg_item) : P it :=
  match it with
  | RgElem t => He t
  | RgGrp t sub =>
      Hg t sub ((fix go (l : list rg_item) : Forall P l :=
                   match l with
                   | [] => Forall_nil P
                   | x :: r => Forall_cons x (rg_item_ind' P He Hg x) (go r)
                   end) sub)
  end.

Lemma rg_find_item_some : forall T t it, rg_find_item T t = Some it -> In it T /\ rg_item_tag it = t.
Proof.
  induction T as [|x r IH]; cbn [rg_find_item]; intros t it H; [discriminate|].
  destruct (rg_item_tag x =? t) eqn:E.
  - inversion H; subst. split; [left; reflexivity | apply Z.eqb_eq; exact E].
  - destruct (IH _ _ H) as [H1 H2]. split; [right; exact H1 | exact H2].
Qed.

Lemma rg_find_item_none : forall T t, rg_find_item T t = None <-> ~ In t (rg_tags T).
Proof.
  induction T as [|x r IH]; cbn [rg_find_item rg_tags map]; intros t.
  - split; [intros _ H; exact H | reflexivity].
  - destruct (rg_item_tag x =? t) eqn:E.
    + apply Z.eqb_eq in E. split; [discriminate | intros H; exfalso; apply H; left; exact E].
    + apply Z.eqb_neq in E. rewrite IH. unfold rg_tags. split.
      * intros H [H1|H1]; [exact (E H1) | exact (H H1)].
      * intros H H1. apply H. right. exact H1.
Qed.

(* the tags behind the first item with tag t *)
Fixpoint rg_tags_after (T : list rg_item) (t : Z) : list Z :=
  match T with
  | [] => []
  | it :: r => if rg_item_tag it =? t then rg_tags r else rg_tags_after r t
  end.

Lemma rg_tag_index_none : forall T i t, rg_tag_index_from i T t = None <-> ~ In t (rg_tags T).
Proof.
  induction T as [|x r IH]; cbn [rg_tag_index_from rg_tags map]; intros i t.
  - split; [intros _ H; exact H | reflexivity].
  - destruct (rg_tag_index_from (i + 1) r t) eqn:E.
    + split; [discriminate|]. intros H. exfalso. apply H. right.
      destruct (in_dec Z.eq_dec t (rg_tags r)) as [Hin|Hn]; [exact Hin|].
      apply (IH (i + 1)) in Hn. congruence.
    + apply IH in E. destruct (rg_item_tag x =? t) eqn:E2.
      * apply Z.eqb_eq in E2. split; [discriminate | intros H; exfalso; apply H; left; exact E2].
      * apply Z.eqb_neq in E2. split; [|reflexivity]. intros _ [H|H]; [exact (E2 H) | exact (E H)].
Qed.

Lemma rg_tag_index_ge : forall T i t k, rg_tag_index_from i T t = Some k -> i <= k.
Proof.
  induction T as [|x r IH]; cbn [rg_tag_index_from]; intros i t k H; [discriminate|].
  destruct (rg_tag_index_from (i + 1) r t) eqn:E.
  - inversion H; subst. apply IH in E. lia.
  - destruct (rg_item_tag x =? t); inversion H; subst. lia.
Qed.

Lemma rg_tag_index_after : forall T i t x a b, NoDup (rg_tags T) ->
  rg_tag_index_from i T t = Some a -> rg_tag_index_from i T x = Some b -> a < b -> In x (rg_tags_after T t).
Proof.
  induction T as [|y r IH]; cbn [rg_tag_index_from rg_tags_after rg_tags map]; intros i t x a b Hnd Ha Hb Hlt; [discriminate|].
  inversion Hnd as [|? ? Hnotin Hnd']; subst.
  destruct (rg_item_tag y =? t) eqn:Et.
  - apply Z.eqb_eq in Et.
    assert (Hn : rg_tag_index_from (i + 1) r t = None) by (apply rg_tag_index_none; rewrite <- Et; exact Hnotin).
    rewrite Hn in Ha. inversion Ha; subst a.
    destruct (rg_tag_index_from (i + 1) r x) eqn:Ex.
    + destruct (in_dec Z.eq_dec x (rg_tags r)) as [Hin|Hnin]; [exact Hin|].
      apply (rg_tag_index_none r (i + 1)) in Hnin. congruence.
    + destruct (rg_item_tag y =? x); inversion Hb; subst. lia.
  - destruct (rg_tag_index_from (i + 1) r t) eqn:Et2; [|discriminate].
    inversion Ha; subst z.
    destruct (rg_tag_index_from (i + 1) r x) eqn:Ex.
    + inversion Hb; subst z. eapply IH; eauto.
    + destruct (rg_item_tag y =? x); inversion Hb; subst b.
      apply rg_tag_index_ge in Et2. lia.
Qed.

Lemma rg_order_key_after : forall T t x, NoDup (rg_tags T) -> In t (rg_tags T) -> In x (rg_tags T) ->
  rg_tag_less T t x = true -> In x (rg_tags_after T t).
Proof.
  intros T t x Hnd Ht Hx Hlt. unfold rg_tag_less, rg_order_key in Hlt.
  destruct (rg_tag_index_from 0 T t) eqn:Ea; [|apply rg_tag_index_none in Ea; contradiction].
  destruct (rg_tag_index_from 0 T x) eqn:Eb; [|apply rg_tag_index_none in Eb; contradiction].
  eapply rg_tag_index_after; eauto. lia.
Qed.

(* on template tags the order is total: distinct tags have different keys *)
Lemma rg_tag_index_inj : forall T i t x a, NoDup (rg_tags T) ->
  rg_tag_index_from i T t = Some a -> rg_tag_index_from i T x = Some a -> t = x.
Proof.
  induction T as [|y r IH]; cbn [rg_tag_index_from rg_tags map]; intros i t x a Hnd Ha Hb; [discriminate|].
  inversion Hnd as [|? ? Hnotin Hnd']; subst.
  destruct (rg_tag_index_from (i + 1) r t) eqn:Et; destruct (rg_tag_index_from (i + 1) r x) eqn:Ex.
  - inversion Ha; inversion Hb; subst. eapply IH; eauto.
  - inversion Ha; subst z. destruct (rg_item_tag y =? x); inversion Hb; subst a. apply rg_tag_index_ge in Et. lia.
  - inversion Hb; subst z. destruct (rg_item_tag y =? t); inversion Ha; subst a. apply rg_tag_index_ge in Ex. lia.
  - destruct (rg_item_tag y =? t) eqn:E1; [|discriminate]. destruct (rg_item_tag y =? x) eqn:E2; [|discriminate].
    apply Z.eqb_eq in E1. apply Z.eqb_eq in E2. congruence.
Qed.

Lemma rg_tag_less_total : forall T t x, NoDup (rg_tags T) -> In t (rg_tags T) -> In x (rg_tags T) -> t <> x ->
  rg_tag_less T x t = false -> rg_tag_less T t x = true.
Proof.
  intros T t x Hnd Ht Hx Hne Hf. unfold rg_tag_less, rg_order_key in *.
  destruct (rg_tag_index_from 0 T t) eqn:Ea; [|apply rg_tag_index_none in Ea; contradiction].
  destruct (rg_tag_index_from 0 T x) eqn:Eb; [|apply rg_tag_index_none in Eb; contradiction].
  destruct (Z.eq_dec z z0) as [E|E].
  - subst z0. exfalso. apply Hne. eapply rg_tag_index_inj; eauto.
  - lia.
Qed.

(* the delimiter is the least tag *)
Lemma rg_delim_least : forall d r x, NoDup (rg_tags (d :: r)) -> In x (rg_tags (d :: r)) ->
  rg_tag_less (d :: r) x (rg_item_tag d) = false.
Proof.
  intros d r x Hnd Hx. unfold rg_tag_less, rg_order_key.
  assert (Hd : rg_tag_index_from 0 (d :: r) (rg_item_tag d) = Some 0).
  { cbn [rg_tag_index_from]. inversion Hnd as [|? ? Hnotin _]; subst.
    assert (Hn : rg_tag_index_from (0 + 1) r (rg_item_tag d) = None) by (apply rg_tag_index_none; exact Hnotin).
    rewrite Hn, Z.eqb_refl. reflexivity. }
  rewrite Hd.
  destruct (rg_tag_index_from 0 (d :: r) x) eqn:Ex; [|apply rg_tag_index_none in Ex; contradiction].
  apply rg_tag_index_ge in Ex. lia.
Qed.

(* ------------------------------------------------------------------------------------------------ *)
(* the sort                                                                                            *)

Definition rg_key_le (T : list rg_item) {A : Type} (a b : (Z * A)%type) : Prop := rg_tag_less T (fst b) (fst a) = false.

Lemma rg_insert_perm {A : Type} : forall T (x : (Z * A)%type) l, Permutation (rg_insert T x l) (x :: l).
Proof.
  induction l as [|y r IH]; cbn [rg_insert]; [apply Permutation_refl|].
  destruct (rg_tag_less T (fst y) (fst x)).
  - eapply perm_trans; [apply perm_skip; exact IH | apply perm_swap].
  - apply Permutation_refl.
Qed.

Lemma rg_sort_perm {A : Type} : forall T (l : list (Z * A)), Permutation (rg_sort T l) l.
Proof.
  induction l as [|x r IH]; cbn [rg_sort]; [constructor|].
  eapply perm_trans; [apply rg_insert_perm | apply perm_skip; exact IH].
Qed.

Lemma rg_key_le_trans {A : Type} : forall T (a b c : (Z * A)%type), rg_key_le T a b -> rg_key_le T b c -> rg_key_le T a c.
Proof. unfold rg_key_le, rg_tag_less. intros. lia. Qed.

Lemma rg_insert_sorted {A : Type} : forall T (x : (Z * A)%type) l,
  StronglySorted (rg_key_le T) l -> StronglySorted (rg_key_le T) (rg_insert T x l).
Proof.
  induction l as [|y r IH]; cbn [rg_insert]; intros Hs.
  - constructor; constructor.
  - inversion Hs as [|? ? Hs' Hall]; subst.
    destruct (rg_tag_less T (fst y) (fst x)) eqn:E.
    + constructor; [apply IH; exact Hs'|].
      eapply Permutation_Forall; [apply Permutation_sym; apply rg_insert_perm|].
      constructor; [|exact Hall]. unfold rg_key_le, rg_tag_less in *. lia.
    + constructor; [exact Hs|]. constructor; [exact E|].
      eapply Forall_impl; [|exact Hall]. intros a Ha. eapply rg_key_le_trans; [exact E | exact Ha].
Qed.

Lemma rg_sort_sorted {A : Type} : forall T (l : list (Z * A)), StronglySorted (rg_key_le T) (rg_sort T l).
Proof.
  induction l as [|x r IH]; cbn [rg_sort]; [constructor | apply rg_insert_sorted; exact IH].
Qed.

(* sorting commutes with a map that keeps the tags *)
Lemma rg_insert_map {A C : Type} : forall T (h : (Z * A)%type -> C) (x : (Z * A)%type) l,
  rg_insert T (fst x, h x) (map (fun p => (fst p, h p)) l) = map (fun p => (fst p, h p)) (rg_insert T x l).
Proof.
  induction l as [|y r IH]; cbn [rg_insert map fst]; [reflexivity|].
  destruct (rg_tag_less T (fst y) (fst x)); cbn [map fst]; [rewrite IH|]; reflexivity.
Qed.

Lemma rg_sort_map {A C : Type} : forall T (h : (Z * A)%type -> C) (l : list (Z * A)),
  rg_sort T (map (fun p => (fst p, h p)) l) = map (fun p => (fst p, h p)) (rg_sort T l).
Proof.
  induction l as [|x r IH]; cbn [rg_sort map]; [reflexivity|].
  rewrite IH. apply rg_insert_map.
Qed.

(* an already strictly ordered list is left alone *)
Lemma rg_sort_sorted_id {A : Type} : forall T (l : list (Z * A)),
  rg_sortedb T (map fst l) = true -> rg_sort T l = l.
Proof.
  induction l as [|x r IH]; cbn [rg_sort rg_sortedb map]; intros H; [reflexivity|].
  apply andb_true_iff in H. destruct H as [H1 H2]. rewrite (IH H2).
  destruct r as [|y r']; cbn [rg_insert map] in *; [reflexivity|].
  replace (rg_tag_less T (fst y) (fst x)) with false; [reflexivity|].
  unfold rg_tag_less in *. lia.
Qed.

(* ------------------------------------------------------------------------------------------------ *)
(* Write / canon / fits, unfolded one level                                                            *)

Definition rg_wfrag (T : list rg_item) (p : Z * rg_val) : list rg_field :=
  rg_write_val (rg_sub_template T (fst p)) (fst p) (snd p).
Definition rg_wfields (T : list rg_item) (items : list (Z * rg_val)) : list rg_field := flat_map (rg_wfrag T) items.
Definition rg_write_entry (T : list rg_item) (e : rg_entry) : list rg_field := rg_wfields T (rg_sort T e).
Definition rg_write_entries (T : list rg_item) (g : rg_group) : list rg_field := flat_map (rg_write_entry T) g.

Definition rg_cfrag (T : list rg_item) (p : Z * rg_val) : Z * rg_val :=
  (fst p, rg_canon_val (rg_sub_template T (fst p)) (snd p)).
Definition rg_canon_entry (T : list rg_item) (e : rg_entry) : rg_entry := map (rg_cfrag T) (rg_sort T e).

Lemma rg_flat_map_snd_map {A C : Type} : forall (h : A -> list C) (k : A -> Z) (l : list A),
  flat_map snd (map (fun p => (k p, h p)) l) = flat_map h l.
Proof. induction l as [|x r IH]; cbn [map flat_map snd]; [reflexivity | rewrite IH; reflexivity]. Qed.

Lemma rg_write_val_grp : forall T t g,
  rg_write_val T t (RgG g) = (t, itoa (Z.of_nat (length g))) :: rg_write_entries T g.
Proof.
  intros T t g. cbn [rg_write_val]. f_equal. unfold rg_write_entries.
  apply flat_map_ext. intros e. unfold rg_write_entry, rg_wfields.
  rewrite (map_ext _ (fun p : Z * rg_val => (fst p, rg_wfrag T p))) by (intros [t' v']; reflexivity).
  rewrite rg_sort_map. apply rg_flat_map_snd_map.
Qed.

Lemma rg_canon_val_grp : forall T g, rg_canon_val T (RgG g) = RgG (map (rg_canon_entry T) g).
Proof.
  intros T g. cbn [rg_canon_val]. f_equal. apply map_ext. intros e. unfold rg_canon_entry.
  rewrite (map_ext _ (fun p : Z * rg_val => (fst p, snd (rg_cfrag T p)))) by (intros [t' v']; reflexivity).
  rewrite rg_sort_map. apply map_ext. intros [t' v']. reflexivity.
Qed.

Definition rg_item_fit (T : list rg_item) (p : Z * rg_val) : bool :=
  match rg_find_item T (fst p), snd p with
  | Some (RgElem _), RgV b => rg_soh_free b
  | Some (RgGrp _ sub), RgG _ => rg_fits_val sub (snd p)
  | _, _ => false
  end.
Definition rg_delim_tag (T : list rg_item) : Z := match T with [] => -1 | d :: _ => rg_item_tag d end.
Definition rg_entry_fit (T : list rg_item) (e : rg_entry) : bool :=
  rg_memb (rg_delim_tag T) (map fst e) && rg_nodupb (map fst e) && forallb (rg_item_fit T) e.

Lemma rg_forallb_ext {A : Type} : forall (f g : A -> bool) l, (forall x, f x = g x) -> forallb f l = forallb g l.
Proof. intros f g l H. induction l as [|x r IH]; cbn [forallb]; [reflexivity | rewrite H, IH; reflexivity]. Qed.

Lemma rg_fits_val_grp : forall T g,
  rg_fits_val T (RgG g) = (Z.of_nat (length g) <=? RG_MAXCOUNT) && forallb (rg_entry_fit T) g.
Proof.
  intros T g. cbn [rg_fits_val]. f_equal. apply rg_forallb_ext. intros e. unfold rg_entry_fit, rg_delim_tag.
  f_equal. apply rg_forallb_ext. intros [t' v']. unfold rg_item_fit. cbn [fst snd].
  destruct (rg_find_item T t') as [[?|? sub]|]; destruct v'; reflexivity.
Qed.

(* ------------------------------------------------------------------------------------------------ *)
(* wf, unfolded                                                                                        *)

Lemma rg_wf_item_grp : forall F t sub, rg_wf_item F (RgGrp t sub) = rg_wf_tmpl F sub.
Proof.
  intros F t sub. destruct sub as [|d r]; [reflexivity|].
  cbn [rg_wf_item]. unfold rg_wf_tmpl. cbn [rg_wf_items]. f_equal. f_equal.
  generalize r as l. induction l as [|x l IH]; cbn [rg_wf_items]; [reflexivity | rewrite IH; reflexivity].
Qed.

Lemma rg_wf_items_find : forall F d T t t' sub, rg_wf_items F d T = true ->
  rg_find_item T t = Some (RgGrp t' sub) -> rg_wf_tmpl (rg_tags_after T t ++ d :: F) sub = true.
Proof.
  induction T as [|x r IH]; cbn [rg_wf_items rg_find_item rg_tags_after]; intros t t' sub Hwf Hf; [discriminate|].
  apply andb_true_iff in Hwf. destruct Hwf as [H1 H2].
  destruct (rg_item_tag x =? t).
  - inversion Hf; subst x. rewrite rg_wf_item_grp in H1. exact H1.
  - eapply IH; eauto.
Qed.

(* ------------------------------------------------------------------------------------------------ *)
(* Read                                                                                                *)

Definition rg_follow_ok (F : list Z) (rest : list rg_field) : Prop :=
  match rest with [] => True | f :: _ => In (fst f) F end.

Definition rg_read_ok (T : list rg_item) : Prop :=
  forall F g rest fuel, rg_wf_tmpl F T = true -> forallb (rg_entry_fit T) g = true -> rg_follow_ok F rest ->
    (length (rg_write_entries T g ++ rest) <= fuel)%nat ->
    rg_read_loop fuel T (rg_write_entries T g ++ rest) = Ok ([], map (rg_canon_entry T) g, rest).

Lemma rg_read_loop_cons : forall k T t v tv',
  rg_read_loop (S k) T ((t, v) :: tv') =
  match rg_find_item T t with
  | None => Ok ([], [], (t, v) :: tv')
  | Some it =>
      let* rv :=
        match it with
        | RgElem _ => Ok (RgV v, tv')
        | RgGrp _ sub =>
            let* r := rg_read_call (rg_read_loop k sub) sub v tv' in
            Ok (RgG (fst r), snd r)
        end in
      let* r := rg_read_loop k T (snd rv) in
      let '(orph, ents, rest) := r in
      if rg_is_delimiter T t
      then Ok ([], ((t, fst rv) :: orph) :: ents, rest)
      else Ok ((t, fst rv) :: orph, ents, rest)
  end.
Proof. reflexivity. Qed.

Lemma rg_item_step : forall T t v tail k,
  rg_item_fit T (t, v) = true ->
  (forall t' sub, rg_find_item T t = Some (RgGrp t' sub) ->
     exists F', rg_wf_tmpl F' sub = true /\ rg_follow_ok F' tail /\ rg_read_ok sub) ->
  (length (rg_wfrag T (t, v) ++ tail) <= S k)%nat ->
  rg_read_loop (S k) T (rg_wfrag T (t, v) ++ tail) =
    (let* r := rg_read_loop k T tail in
     let '(orph, ents, rest) := r in
     if rg_is_delimiter T t
     then Ok ([], (rg_cfrag T (t, v) :: orph) :: ents, rest)
     else Ok (rg_cfrag T (t, v) :: orph, ents, rest)).
Proof.
  intros T t v tail k Hfit Hsub Hlen.
  unfold rg_item_fit in Hfit. cbn [fst snd] in Hfit.
  unfold rg_wfrag, rg_cfrag, rg_sub_template in *. cbn [fst snd] in *.
  destruct (rg_find_item T t) as [[te|tg sub]|] eqn:Ef; [| |discriminate].
  - destruct v as [b|g]; [|discriminate].
    cbn [rg_write_val app]. rewrite rg_read_loop_cons, Ef. cbn [bind fst snd rg_canon_val]. reflexivity.
  - destruct v as [b|g]; [discriminate|].
    destruct (Hsub tg sub eq_refl) as [F' [Hwf [Hfol Hok]]].
    rewrite rg_write_val_grp, rg_canon_val_grp. rewrite rg_write_val_grp in Hlen.
    cbn [app]. rewrite rg_read_loop_cons, Ef.
    rewrite rg_fits_val_grp in Hfit. apply andb_true_iff in Hfit. destruct Hfit as [Hcnt Hents].
    unfold rg_read_call. rewrite atoi_itoa.
    2:{ unfold in_int64, two63. unfold RG_MAXCOUNT in Hcnt. lia. }
    destruct (Z.of_nat (length g) =? 0) eqn:E0.
    + assert (g = []) by (destruct g; [reflexivity | cbn [length] in E0; lia]). subst g.
      cbn [rg_write_entries flat_map app map bind fst snd]. reflexivity.
    + cbn [app length] in Hlen.
      destruct sub as [|sd sr]; [unfold rg_wf_tmpl in Hwf; discriminate|].
      rewrite (Hok F' g tail k Hwf Hents Hfol) by lia.
      cbn [bind fst snd]. rewrite map_length, Z.eqb_refl. cbn [bind fst snd]. reflexivity.
Qed.

Definition rg_head_tag (l : list rg_field) : option Z := match l with [] => None | f :: _ => Some (fst f) end.

Lemma rg_follow_ok_head : forall F l, rg_follow_ok F l <-> (forall x, rg_head_tag l = Some x -> In x F).
Proof.
  intros F [|f r]; cbn [rg_follow_ok rg_head_tag]; split; intros H; try exact I; try discriminate.
  - intros x Hx. inversion Hx; subst. exact H.
  - apply H. reflexivity.
Qed.

Lemma rg_wfrag_head : forall T p l, exists v r, rg_wfrag T p ++ l = (fst p, v) :: r.
Proof.
  intros T [t [b|g]] l; unfold rg_wfrag; cbn [fst snd].
  - cbn [rg_write_val app]. eauto.
  - rewrite rg_write_val_grp. cbn [app]. eauto.
Qed.

Lemma rg_wfrag_length : forall T p, (1 <= length (rg_wfrag T p))%nat.
Proof.
  intros T p. destruct (rg_wfrag_head T p []) as [v [r E]]. rewrite app_nil_r in E. rewrite E. cbn [length]. lia.
Qed.

Lemma rg_wfields_head : forall T items tail,
  rg_head_tag (rg_wfields T items ++ tail) = match items with q :: _ => Some (fst q) | [] => rg_head_tag tail end.
Proof.
  intros T [|q r] tail; [reflexivity|].
  unfold rg_wfields. cbn [flat_map]. rewrite <- app_assoc.
  destruct (rg_wfrag_head T q (flat_map (rg_wfrag T) r ++ tail)) as [v [r' E]]. rewrite E. reflexivity.
Qed.

Fixpoint rg_chain (T : list rg_item) (F : list Z) (d : Z) (items : list (Z * rg_val)) (h : option Z) : Prop :=
  match items with
  | [] => True
  | p :: r =>
      (forall x, match r with q :: _ => Some (fst q) | [] => h end = Some x ->
                 In x (rg_tags_after T (fst p) ++ d :: F))
      /\ rg_chain T F d r h
  end.

Definition rg_read_ok_item (it : rg_item) : Prop :=
  match it with RgElem _ => True | RgGrp _ sub => rg_read_ok sub end.

Lemma rg_read_items : forall T F d items tail o ents rest,
  rg_wf_items F d T = true -> Forall rg_read_ok_item T ->
  forallb (rg_item_fit T) items = true ->
  (forall p, In p items -> rg_is_delimiter T (fst p) = false) ->
  rg_chain T F d items (rg_head_tag tail) ->
  (forall fuel, (length tail <= fuel)%nat -> rg_read_loop fuel T tail = Ok (o, ents, rest)) ->
  forall fuel, (length (rg_wfields T items ++ tail) <= fuel)%nat ->
  rg_read_loop fuel T (rg_wfields T items ++ tail) = Ok (map (rg_cfrag T) items ++ o, ents, rest).
Proof.
  intros T F d items tail o ents rest Hwf Hall. induction items as [|p r IH]; intros Hfit Hnd Hch Htail fuel Hlen.
  - cbn [rg_wfields flat_map app map] in *. apply Htail. exact Hlen.
  - cbn [forallb] in Hfit. apply andb_true_iff in Hfit. destruct Hfit as [Hfp Hfr].
    destruct Hch as [Hch1 Hch2].
    unfold rg_wfields in *. cbn [flat_map] in *. rewrite <- app_assoc in *.
    destruct (rg_wfrag_head T p (flat_map (rg_wfrag T) r ++ tail)) as [v0 [r0 E0]].
    destruct fuel as [|k]; [rewrite E0 in Hlen; cbn [length] in Hlen; lia|].
    destruct p as [t v]. rewrite rg_item_step.
    + rewrite IH.
      * pose proof (Hnd (t, v) (or_introl eq_refl)) as Hd0. cbn [fst] in Hd0.
        cbn [bind map app]. rewrite Hd0. reflexivity.
      * exact Hfr.
      * intros q Hq. apply Hnd. right. exact Hq.
      * exact Hch2.
      * exact Htail.
      * clear E0. rewrite app_length in Hlen. pose proof (rg_wfrag_length T (t, v)). lia.
    + exact Hfp.
    + intros t' sub Hf. exists (rg_tags_after T t ++ d :: F). split; [|split].
      * eapply rg_wf_items_find; eauto.
      * apply rg_follow_ok_head. intros x Hx. apply Hch1. cbn [fst].
        change (flat_map (rg_wfrag T) r) with (rg_wfields T r) in Hx. rewrite rg_wfields_head in Hx. exact Hx.
      * apply rg_find_item_some in Hf. destruct Hf as [Hin _].
        rewrite Forall_forall in Hall. exact (Hall _ Hin).
    + exact Hlen.
Qed.

Lemma rg_chain_sorted : forall T F d items h,
  NoDup (rg_tags T) -> StronglySorted (rg_key_le T) items -> NoDup (map fst items) ->
  (forall p, In p items -> In (fst p) (rg_tags T)) ->
  (forall x, h = Some x -> In x (d :: F)) ->
  rg_chain T F d items h.
Proof.
  intros T F d items h HndT. induction items as [|p r IH]; intros Hs Hnd Hin Hh; cbn [rg_chain]; [exact I|].
  inversion Hs as [|? ? Hs' Hall]; subst. cbn [map] in Hnd. inversion Hnd as [|? ? Hnotin Hnd']; subst.
  split.
  - intros x Hx. destruct r as [|q r'].
    + apply in_or_app. right. apply Hh. exact Hx.
    + inversion Hx; subst x. apply in_or_app. left.
      inversion Hall as [|? ? Hle _]; subst.
      apply rg_order_key_after; [exact HndT | apply Hin; left; reflexivity | apply Hin; right; left; reflexivity |].
      apply rg_tag_less_total; [exact HndT | apply Hin; left; reflexivity | apply Hin; right; left; reflexivity | | exact Hle].
      intros E. apply Hnotin. cbn [map]. left. symmetry. exact E.
  - apply IH; [exact Hs' | exact Hnd' | intros q Hq; apply Hin; right; exact Hq | exact Hh].
Qed.

Lemma rg_item_fit_in : forall T p, rg_item_fit T p = true -> In (fst p) (rg_tags T).
Proof.
  intros T p H. unfold rg_item_fit in H.
  destruct (rg_find_item T (fst p)) eqn:E; [|discriminate].
  apply rg_find_item_some in E. destruct E as [Hin Ht]. rewrite <- Ht. unfold rg_tags. apply in_map. exact Hin.
Qed.

(* a fitting entry, sorted: the delimiter member first, then the others in template order *)
Lemma rg_sorted_entry_shape : forall d0 T' e, let T := d0 :: T' in
  NoDup (rg_tags T) -> rg_entry_fit T e = true ->
  exists vd others, rg_sort T e = (rg_item_tag d0, vd) :: others /\
    forallb (rg_item_fit T) ((rg_item_tag d0, vd) :: others) = true /\
    NoDup (map fst ((rg_item_tag d0, vd) :: others)) /\
    StronglySorted (rg_key_le T) ((rg_item_tag d0, vd) :: others).
Proof.
  intros d0 T' e T HndT Hfit. unfold rg_entry_fit in Hfit. cbn [rg_delim_tag T] in Hfit.
  apply andb_true_iff in Hfit. destruct Hfit as [Hfit Hitems]. apply andb_true_iff in Hfit. destruct Hfit as [Hd Hnd].
  apply rg_memb_In in Hd. apply rg_nodupb_NoDup in Hnd.
  pose proof (rg_sort_perm T e) as Hperm. pose proof (rg_sort_sorted T e) as Hsorted.
  assert (Hfit' : forallb (rg_item_fit T) (rg_sort T e) = true).
  { apply forallb_forall. intros p Hp. rewrite forallb_forall in Hitems. apply Hitems.
    eapply Permutation_in; [exact Hperm | exact Hp]. }
  assert (Hnd' : NoDup (map fst (rg_sort T e))).
  { eapply Permutation_NoDup; [apply Permutation_map; apply Permutation_sym; exact Hperm | exact Hnd]. }
  assert (Hd' : In (rg_item_tag d0) (map fst (rg_sort T e))).
  { eapply Permutation_in; [apply Permutation_map; apply Permutation_sym; exact Hperm | exact Hd]. }
  destruct (rg_sort T e) as [|[t0 v0] others] eqn:Es; [destruct Hd'|].
  assert (Ht0 : t0 = rg_item_tag d0).
  { cbn [map fst] in Hd'. destruct Hd' as [E|Hin]; [exact E|]. exfalso.
    apply in_map_iff in Hin. destruct Hin as [[tq vq] [Eq Hq]]. cbn [fst] in Eq. subst tq.
    inversion Hsorted as [|? ? _ Hall]; subst. rewrite Forall_forall in Hall. specialize (Hall _ Hq).
    unfold rg_key_le in Hall. cbn [fst] in Hall.
    assert (Hin0 : In t0 (rg_tags T)).
    { apply (rg_item_fit_in T (t0, v0)). rewrite forallb_forall in Hfit'. apply Hfit'. left. reflexivity. }
    assert (Hne : rg_item_tag d0 <> t0).
    { intros E. cbn [map fst] in Hnd'. inversion Hnd' as [|? ? Hnotin _]; subst. apply Hnotin.
      apply in_map_iff. exists (rg_item_tag d0, vq). split; [reflexivity | exact Hq]. }
    pose proof (rg_delim_least d0 T' t0 HndT Hin0) as Hleast.
    pose proof (rg_tag_less_total T (rg_item_tag d0) t0 HndT) as Htot.
    rewrite Htot in Hall; [discriminate | left; reflexivity | exact Hin0 | exact Hne | exact Hleast]. }
  subst t0. exists v0, others. repeat split; assumption.
Qed.

Lemma rg_read_ok_tmpl : forall T, Forall rg_read_ok_item T -> rg_read_ok T.
Proof.
  intros T Hall F g rest fuel Hwf. revert fuel.
  unfold rg_wf_tmpl in Hwf. destruct T as [|d0 T']; [discriminate|].
  apply andb_true_iff in Hwf. destruct Hwf as [Hwf Hitems]. apply andb_true_iff in Hwf. destruct Hwf as [Hnd Hdis].
  apply rg_nodupb_NoDup in Hnd. rewrite rg_disjointb_spec in Hdis.
  set (T := d0 :: T') in *.
  induction g as [|e g' IH]; intros fuel Hfit Hfol Hlen.
  - cbn [rg_write_entries flat_map app map] in *.
    destruct rest as [|[t v] rest']; [destruct fuel; reflexivity|].
    destruct fuel as [|k]; [cbn [length] in Hlen; lia|].
    rewrite rg_read_loop_cons.
    replace (rg_find_item T t) with (@None rg_item); [reflexivity|].
    symmetry. apply rg_find_item_none. apply Hdis. exact Hfol.
  - cbn [forallb] in Hfit. apply andb_true_iff in Hfit. destruct Hfit as [Hfe Hfg].
    cbn [rg_write_entries flat_map map] in *. rewrite <- app_assoc in *.
    fold (rg_write_entries T g') in *.
    destruct (rg_sorted_entry_shape d0 T' e Hnd Hfe) as [vd [others [Es [Hfit' [Hnd' Hsorted]]]]].
    fold T in Es, Hfit', Hsorted.
    set (tail := rg_write_entries T g' ++ rest) in *.
    assert (Hh : forall x, rg_head_tag tail = Some x -> In x (rg_item_tag d0 :: F)).
    { intros x Hx. unfold tail in Hx. destruct g' as [|e' g''].
      - cbn [rg_write_entries flat_map app] in Hx. right. apply (proj1 (rg_follow_ok_head F rest) Hfol). exact Hx.
      - cbn [forallb] in Hfg. apply andb_true_iff in Hfg. destruct Hfg as [Hfe' _].
        destruct (rg_sorted_entry_shape d0 T' e' Hnd Hfe') as [vd' [others' [Es' _]]]. fold T in Es'.
        cbn [rg_write_entries flat_map] in Hx. rewrite <- app_assoc in Hx.
        unfold rg_write_entry in Hx. rewrite rg_wfields_head, Es' in Hx. inversion Hx; subst x. left. reflexivity. }
    assert (Hch : rg_chain T F (rg_item_tag d0) ((rg_item_tag d0, vd) :: others) (rg_head_tag tail)).
    { apply rg_chain_sorted; [exact Hnd | exact Hsorted | exact Hnd' | | exact Hh].
      intros p Hp. apply rg_item_fit_in. rewrite forallb_forall in Hfit'. apply Hfit'. exact Hp. }
    unfold rg_write_entry in *. rewrite Es in *. unfold rg_canon_entry at 1. rewrite Es.
    destruct Hch as [Hch1 Hch2]. cbn [forallb] in Hfit'. apply andb_true_iff in Hfit'. destruct Hfit' as [Hfd Hfo].
    unfold rg_wfields in *. cbn [flat_map] in *. rewrite <- app_assoc in *.
    fold (rg_wfields T others) in *.
    destruct (rg_wfrag_head T (rg_item_tag d0, vd) (rg_wfields T others ++ tail)) as [v0 [r0 E0]].
    destruct fuel as [|k]; [rewrite E0 in Hlen; cbn [length] in Hlen; lia|].
    assert (Hl : (length (rg_wfields T others ++ tail) <= k)%nat).
    { pose proof Hlen as Hlen'. rewrite app_length in Hlen'. pose proof (rg_wfrag_length T (rg_item_tag d0, vd)). lia. }
    rewrite rg_item_step.
    + rewrite (rg_read_items T F (rg_item_tag d0) others tail [] (map (rg_canon_entry T) g') rest).
      * cbn [bind]. unfold rg_is_delimiter, T. rewrite Z.eqb_refl. rewrite app_nil_r. cbn [map]. reflexivity.
      * exact Hitems.
      * exact Hall.
      * exact Hfo.
      * intros p Hp. unfold rg_is_delimiter, T. apply Z.eqb_neq. intros E.
        cbn [map fst] in Hnd'. inversion Hnd' as [|? ? Hnotin _]; subst. apply Hnotin. rewrite <- E.
        apply in_map. exact Hp.
      * exact Hch2.
      * intros fuel' Hf'. apply IH; [exact Hfg | exact Hfol | exact Hf'].
      * exact Hl.
    + exact Hfd.
    + intros t' sub Hf. exists (rg_tags_after T (rg_item_tag d0) ++ rg_item_tag d0 :: F). split; [|split].
      * eapply rg_wf_items_find; eauto.
      * apply rg_follow_ok_head. intros x Hx. apply Hch1. cbn [fst]. rewrite rg_wfields_head in Hx. exact Hx.
      * apply rg_find_item_some in Hf. destruct Hf as [Hin _].
        rewrite Forall_forall in Hall. exact (Hall _ Hin).
    + exact Hlen.
Qed.

Theorem rg_read_ok_all : forall T, rg_read_ok T.
Proof.
  assert (H : forall it, rg_read_ok_item it).
  { apply rg_item_ind'; [intros t; exact I|]. intros t sub Hsub. cbn [rg_read_ok_item]. apply rg_read_ok_tmpl. exact Hsub. }
  intros T. apply rg_read_ok_tmpl. apply Forall_forall. intros it _. apply H.
Qed.

(* ------------------------------------------------------------------------------------------------ *)
(* The round trip                                                                                      *)

Lemma rg_canon_grp : forall T g, rg_canon T g = map (rg_canon_entry T) g.
Proof. intros T g. unfold rg_canon. rewrite rg_canon_val_grp. reflexivity. Qed.

Theorem rg_roundtrip : forall T t g rest F,
  rg_wf_tmpl F T = true -> rg_fits T g = true -> rg_follow_ok F rest ->
  rg_read T (rg_write T t g ++ rest) = Ok (rg_canon T g, rest).
Proof.
  intros T t g rest F Hwf Hfit Hfol. unfold rg_write, rg_fits in *. rewrite rg_write_val_grp, rg_canon_grp.
  rewrite rg_fits_val_grp in Hfit. apply andb_true_iff in Hfit. destruct Hfit as [Hcnt Hents].
  cbn [app rg_read]. unfold rg_read_call. rewrite atoi_itoa.
  2:{ unfold in_int64, two63. unfold RG_MAXCOUNT in Hcnt. lia. }
  destruct (Z.of_nat (@length (list (Z * rg_val)) g) =? 0) eqn:E0.
  - assert (g = []) by (destruct g; [reflexivity | cbn [length] in E0; lia]). subst g. reflexivity.
  - destruct T as [|Td Tr]; [unfold rg_wf_tmpl in Hwf; discriminate|].
    rewrite (rg_read_ok_all (Td :: Tr) F g rest _ Hwf Hents Hfol) by lia.
    cbn [bind]. rewrite map_length, Z.eqb_refl. reflexivity.
Qed.

(* DESIGN form: the template is well-formed on its own and the first tag behind the group is outside the
   template tree *)
Lemma rg_wf_item_extend : forall x it, forall F, ~ In x (rg_item_all_tags it) ->
  rg_wf_item F it = true -> rg_wf_item (F ++ [x]) it = true.
Proof.
  intros x. apply (rg_item_ind' (fun it => forall F, ~ In x (rg_item_all_tags it) ->
                                  rg_wf_item F it = true -> rg_wf_item (F ++ [x]) it = true)).
  - intros t F _ _. reflexivity.
  - intros t sub IH F Hx Hwf. rewrite rg_wf_item_grp in *. cbn [rg_item_all_tags] in Hx.
    assert (Hx' : ~ In x (flat_map rg_item_all_tags sub)) by (intros H; apply Hx; right; exact H).
    unfold rg_wf_tmpl in *. destruct sub as [|d r]; [discriminate|].
    apply andb_true_iff in Hwf. destruct Hwf as [Hwf Hitems]. apply andb_true_iff in Hwf. destruct Hwf as [Hnd Hdis].
    rewrite Hnd. cbn [andb].
    assert (Htags : forall l, ~ In x (flat_map rg_item_all_tags l) -> ~ In x (rg_tags l)).
    { induction l as [|y l IHl]; cbn [flat_map rg_tags map]; intros Hn Hin; [exact Hin|]. destruct Hin as [H|H].
      - apply Hn. apply in_or_app. left. destruct y; cbn [rg_item_all_tags rg_item_tag] in *; left; exact H.
      - apply IHl; [intros H'; apply Hn; apply in_or_app; right; exact H' | exact H]. }
    apply andb_true_iff. split.
    + rewrite rg_disjointb_spec in *. intros y Hy. apply in_app_or in Hy. destruct Hy as [Hy|Hy].
      * apply Hdis. exact Hy.
      * cbn [In] in Hy. destruct Hy as [Hy|Hy]; [|destruct Hy]. subst y. apply Htags. exact Hx'.
    + clear Hnd Hdis Htags Hx. revert Hx' Hitems IH. generalize (rg_item_tag d) as dt. generalize (d :: r) as l.
      induction l as [|y l IHl]; intros dt Hx' Hitems IH; cbn [rg_wf_items] in *; [reflexivity|].
      apply andb_true_iff in Hitems. destruct Hitems as [H1 H2]. inversion IH as [|? ? IHy IHl']; subst.
      cbn [flat_map] in Hx'. apply andb_true_iff. split.
      * replace (rg_tags l ++ dt :: F ++ [x]) with ((rg_tags l ++ dt :: F) ++ [x]) by (rewrite <- app_assoc; reflexivity).
        apply IHy; [intros H; apply Hx'; apply in_or_app; left; exact H | exact H1].
      * apply IHl; [intros H; apply Hx'; apply in_or_app; right; exact H | exact H2 | exact IHl'].
Qed.

Lemma rg_wf_tmpl_extend : forall x T, ~ In x (rg_all_tags T) -> rg_wf_template T = true -> rg_wf_tmpl [x] T = true.
Proof.
  intros x T Hx Hwf. unfold rg_wf_template in Hwf.
  rewrite <- (rg_wf_item_grp [x] (x + 1) T). rewrite <- (rg_wf_item_grp [] (x + 1) T) in Hwf.
  apply (rg_wf_item_extend x (RgGrp (x + 1) T) []); [|exact Hwf].
  cbn [rg_item_all_tags]. intros [H|H]; [lia | exact (Hx H)].
Qed.

Theorem rg_roundtrip_design : forall T t g rest,
  rg_wf_template T = true -> rg_fits T g = true ->
  (forall f, hd_error rest = Some f -> ~ In (fst f) (rg_all_tags T)) ->
  rg_read T (rg_write T t g ++ rest) = Ok (rg_canon T g, rest).
Proof.
  intros T t g rest Hwf Hfit Hrest. destruct rest as [|f rest'].
  - apply (rg_roundtrip T t g [] []); [exact Hwf | exact Hfit | exact I].
  - apply (rg_roundtrip T t g (f :: rest') [fst f]); [|exact Hfit | left; reflexivity].
    apply rg_wf_tmpl_extend; [apply Hrest; reflexivity | exact Hwf].
Qed.

(* entries given in template order are read back literally *)
Fixpoint rg_val_ind' (P : rg_val -> Prop) (Hv : forall b, P (RgV b))
    (Hg : forall g, Forall (Forall (fun p : Z * rg_val => P (snd p))) g -> P (RgG g)) (v : rg_val) : P v :=
  match v with
  | RgV b => Hv b
  | RgG g =>
      Hg g ((fix go1 (g : list (list (Z * rg_val))) : Forall (Forall (fun p : Z * rg_val => P (snd p))) g :=
               match g with
               | [] => Forall_nil _
               | e :: r =>
                   Forall_cons e
                     ((fix go2 (e : list (Z * rg_val)) : Forall (fun p : Z * rg_val => P (snd p)) e :=
                         match e with
                         | [] => Forall_nil _
                         | p :: r2 =>
                             Forall_cons p
                               (match p return P (snd p) with (t', v') => rg_val_ind' P Hv Hg v' end) (go2 r2)
                         end) e) (go1 r)
               end) g)
  end.

Lemma rg_canon_ordered_val : forall v T, rg_ordered_val T v = true -> rg_canon_val T v = v.
Proof.
  apply (rg_val_ind' (fun v => forall T, rg_ordered_val T v = true -> rg_canon_val T v = v)).
  - intros b T _. reflexivity.
  - intros g IH T Hord. rewrite rg_canon_val_grp. f_equal. cbn [rg_ordered_val] in Hord.
    induction g as [|e g' IHg]; cbn [map]; [reflexivity|].
    cbn [forallb] in Hord. apply andb_true_iff in Hord. destruct Hord as [He Hg'].
    inversion IH as [|? ? IHe IHg'']; subst. rewrite (IHg IHg'' Hg'). f_equal.
    apply andb_true_iff in He. destruct He as [Hs Hm].
    unfold rg_canon_entry. rewrite (rg_sort_sorted_id T e Hs).
    clear Hs IHg IH IHg'' Hg'. induction e as [|[t' v'] e' IHe']; cbn [map]; [reflexivity|].
    cbn [forallb] in Hm. apply andb_true_iff in Hm. destruct Hm as [H1 H2].
    inversion IHe as [|? ? IHp IHr]; subst. cbn [snd] in IHp.
    rewrite (IHe' H2 IHr). unfold rg_cfrag. cbn [fst snd]. rewrite (IHp _ H1). reflexivity.
Qed.

Lemma rg_canon_ordered : forall T g, rg_ordered T g = true -> rg_canon T g = g.
Proof.
  intros T g H. unfold rg_canon, rg_ordered in *. rewrite (rg_canon_ordered_val (RgG g) T H). reflexivity.
Qed.

Theorem rg_roundtrip_exact : forall T t g rest,
  rg_wf_template T = true -> rg_fits T g = true -> rg_ordered T g = true ->
  (forall f, hd_error rest = Some f -> ~ In (fst f) (rg_all_tags T)) ->
  rg_read T (rg_write T t g ++ rest) = Ok (g, rest).
Proof.
  intros T t g rest Hwf Hfit Hord Hrest. rewrite (rg_roundtrip_design T t g rest Hwf Hfit Hrest).
  rewrite (rg_canon_ordered T g Hord). reflexivity.
Qed.

(* the canonical form has the same number of entries, and every entry is a permutation of the entry written *)
Lemma rg_canon_length : forall T g, length (rg_canon T g) = length g.
Proof. intros T g. rewrite rg_canon_grp. apply map_length. Qed.

Lemma rg_canon_entry_perm : forall T e, Permutation (rg_canon_entry T e) (map (rg_cfrag T) e).
Proof. intros T e. unfold rg_canon_entry. apply Permutation_map. apply rg_sort_perm. Qed.

(* ------------------------------------------------------------------------------------------------ *)
(* The dictionary walk on a dictionary that mirrors the template                                       *)

Lemma rg_def_tag_of_item : forall it, rg_gdef_tag (rg_def_of_item it) = rg_item_tag it.
Proof. destruct it; reflexivity. Qed.

Lemma rg_def_lookup_none : forall T y, ~ In y (rg_tags T) -> rg_def_lookup y (map rg_def_of_item T) = None.
Proof.
  induction T as [|x r IH]; cbn [rg_def_lookup map rg_tags]; intros y Hn; [reflexivity|].
  rewrite IH by (intros H; apply Hn; right; exact H).
  rewrite rg_def_tag_of_item.
  destruct (rg_item_tag x =? y) eqn:E; [|reflexivity]. apply Z.eqb_eq in E. exfalso. apply Hn. left. exact E.
Qed.

Lemma rg_def_lookup_map : forall T y it, NoDup (rg_tags T) -> rg_find_item T y = Some it ->
  rg_def_lookup y (map rg_def_of_item T) = Some (rg_def_of_item it).
Proof.
  induction T as [|x r IH]; cbn [rg_def_lookup map rg_tags rg_find_item]; intros y it Hnd Hf; [discriminate|].
  inversion Hnd as [|? ? Hnotin Hnd']; subst. rewrite rg_def_tag_of_item.
  destruct (rg_item_tag x =? y) eqn:E.
  - inversion Hf; subst x. apply Z.eqb_eq in E. subst y.
    rewrite rg_def_lookup_none by exact Hnotin. reflexivity.
  - rewrite (IH y it Hnd' Hf). reflexivity.
Qed.

Lemma rg_is_group_member_map : forall T x, rg_is_group_member x (map rg_def_of_item T) = rg_memb x (rg_tags T).
Proof.
  induction T as [|y r IH]; intros x; [reflexivity|].
  unfold rg_is_group_member, rg_memb in *. cbn [map existsb rg_tags]. rewrite rg_def_tag_of_item.
  fold (rg_tags r). rewrite <- IH. f_equal. apply Z.eqb_sym.
Qed.

Lemma rg_ggf_snoc : forall tags fields y, tags <> [] -> rg_get_group_fields fields tags <> [] ->
  rg_get_group_fields fields (tags ++ [y]) =
  match rg_def_lookup y (rg_get_group_fields fields tags) with Some d => rg_gdef_members d | None => [] end.
Proof.
  induction tags as [|a r IH]; intros fields y Hne Hnn; [congruence|].
  destruct r as [|b r'].
  - cbn [app rg_get_group_fields] in *.
    destruct (rg_def_lookup a fields) as [d|]; [reflexivity | congruence].
  - change ((a :: b :: r') ++ [y]) with (a :: ((b :: r') ++ [y])).
    assert (E : forall fs, rg_get_group_fields fs (a :: (b :: r') ++ [y]) =
                match rg_def_lookup a fs with
                | Some d => rg_get_group_fields (rg_gdef_members d) ((b :: r') ++ [y])
                | None => rg_get_group_fields fs ((b :: r') ++ [y]) end) by (intros fs; reflexivity).
    rewrite E. clear E.
    assert (E2 : rg_get_group_fields fields (a :: b :: r') =
                match rg_def_lookup a fields with
                | Some d => rg_get_group_fields (rg_gdef_members d) (b :: r')
                | None => rg_get_group_fields fields (b :: r') end) by reflexivity.
    rewrite E2 in *. clear E2.
    destruct (rg_def_lookup a fields) as [d|]; apply IH; try discriminate; exact Hnn.
Qed.

(* `tags` is a dictionary path to a group whose members are exactly the template Tq *)
Definition rg_level (msg : list rg_gdef) (tags : list Z) (Tq : list rg_item) : Prop :=
  rg_get_group_fields msg tags = map rg_def_of_item Tq /\ tags <> [] /\ Tq <> [] /\ NoDup (rg_tags Tq).

Lemma rg_level_lookup : forall msg tags Tq y it, rg_level msg tags Tq -> rg_find_item Tq y = Some it ->
  rg_get_group_fields msg (tags ++ [y]) = rg_gdef_members (rg_def_of_item it).
Proof.
  intros msg tags Tq y it [Hg [Hne [HT Hnd]]] Hf.
  rewrite rg_ggf_snoc; [|exact Hne|].
  - rewrite Hg, (rg_def_lookup_map Tq y it Hnd Hf). reflexivity.
  - rewrite Hg. destruct Tq; [congruence | discriminate].
Qed.

Lemma rg_level_push : forall msg tags Tq y ty sub, rg_level msg tags Tq ->
  rg_find_item Tq y = Some (RgGrp ty sub) -> sub <> [] -> NoDup (rg_tags sub) -> rg_level msg (tags ++ [y]) sub.
Proof.
  intros msg tags Tq y ty sub Hl Hf Hs Hnd. split; [|split; [|split]].
  - rewrite (rg_level_lookup msg tags Tq y _ Hl Hf). reflexivity.
  - destruct tags; discriminate.
  - exact Hs.
  - exact Hnd.
Qed.

Definition rg_pushes (it : rg_item) : bool := match it with RgGrp _ (_ :: _) => true | _ => false end.

Lemma rg_level_nig : forall msg tags Tq y it, rg_level msg tags Tq -> rg_find_item Tq y = Some it ->
  rg_is_num_in_group msg (tags ++ [y]) = rg_pushes it.
Proof.
  intros msg tags Tq y it Hl Hf. unfold rg_is_num_in_group. rewrite (rg_level_lookup msg tags Tq y it Hl Hf).
  destruct it as [te|tg [|d r]]; reflexivity.
Qed.

Lemma rg_wf_tmpl_parts : forall F T, rg_wf_tmpl F T = true ->
  T <> [] /\ NoDup (rg_tags T) /\ (forall x, In x F -> ~ In x (rg_tags T)) /\ rg_wf_items F (rg_delim_tag T) T = true.
Proof.
  intros F T H. unfold rg_wf_tmpl in H. destruct T as [|d r]; [discriminate|].
  apply andb_true_iff in H. destruct H as [H Hitems]. apply andb_true_iff in H. destruct H as [Hnd Hdis].
  split; [discriminate|]. split; [apply rg_nodupb_NoDup; exact Hnd|]. split; [apply rg_disjointb_spec; exact Hdis | exact Hitems].
Qed.

(* D: the nested groups still open below a level with template Tq; none of them has a member in Fs.
   Td: the template of the innermost open level. *)
Inductive rg_open (Fs : list Z) : list rg_item -> list Z -> list rg_item -> Prop :=
| rg_open_nil : forall Tq, rg_open Fs Tq [] Tq
| rg_open_cons : forall Tq y ty sub D Td F',
    rg_find_item Tq y = Some (RgGrp ty sub) -> rg_wf_tmpl F' sub = true -> incl Fs F' ->
    rg_open Fs sub D Td -> rg_open Fs Tq (y :: D) Td.

Lemma rg_open_mono : forall Fs Fs2 Tq D Td, incl Fs2 Fs -> rg_open Fs Tq D Td -> rg_open Fs2 Tq D Td.
Proof.
  intros Fs Fs2 Tq D Td Hi H. induction H as [Tq|Tq y ty sub D Td F' Hf Hwf Hincl Hop IH].
  - constructor.
  - econstructor; eauto. eapply incl_tran; eauto.
Qed.

Lemma rg_open_level : forall msg Fs Tq D Td, rg_open Fs Tq D Td -> forall tagsQ, rg_level msg tagsQ Tq ->
  rg_level msg (tagsQ ++ D) Td /\ (D <> [] -> forall x, In x Fs -> ~ In x (rg_tags Td)).
Proof.
  intros msg Fs Tq D Td H. induction H as [Tq|Tq y ty sub D Td F' Hf Hwf Hincl Hop IH]; intros tagsQ Hl.
  - rewrite app_nil_r. split; [exact Hl | intros H; exfalso; apply H; reflexivity].
  - destruct (rg_wf_tmpl_parts F' sub Hwf) as [Hs [Hnd [Hdis _]]].
    pose proof (rg_level_push msg tagsQ Tq y ty sub Hl Hf Hs Hnd) as Hl'.
    destruct (IH (tagsQ ++ [y]) Hl') as [IH1 IH2]. rewrite <- app_assoc in IH1. cbn [app] in IH1.
    split; [exact IH1|]. intros _ x Hx. destruct D as [|z D'].
    + inversion Hop; subst. apply Hdis. apply Hincl. exact Hx.
    + apply IH2; [discriminate | exact Hx].
Qed.

Lemma rg_open_prefix : forall Fs Tq D1 z Td, rg_open Fs Tq (D1 ++ [z]) Td -> exists Td1, rg_open Fs Tq D1 Td1.
Proof.
  intros Fs Tq D1. revert Tq. induction D1 as [|a D1 IH]; intros Tq z Td H.
  - exists Tq. constructor.
  - cbn [app] in H. inversion H as [|? ? ty sub ? ? F' Hf Hwf Hincl Hop]; subst.
    destruct (IH sub z Td Hop) as [Td1 H1]. exists Td1. econstructor; eauto.
Qed.

Lemma rg_walk_up_cons2 : forall msg t a b up,
  rg_walk_up msg t (a :: b :: up) =
  if rg_is_group_member t (rg_get_group_fields msg (rev (b :: up))) then (true, b :: up) else rg_walk_up msg t (b :: up).
Proof. reflexivity. Qed.

Lemma rg_walk_up_open : forall msg Fs x tagsQ Tq, rg_level msg tagsQ Tq -> In x Fs ->
  forall D Td, rg_open Fs Tq D Td -> D <> [] ->
  rg_walk_up msg x (rev (tagsQ ++ D)) =
  if rg_memb x (rg_tags Tq) then (true, rev tagsQ) else rg_walk_up msg x (rev tagsQ).
Proof.
  intros msg Fs x tagsQ Tq Hl Hx D. induction D as [|z D1 IH] using rev_ind; intros Td Hop Hne; [congruence|].
  rewrite app_assoc, rev_app_distr. cbn [rev app].
  destruct (rg_open_prefix Fs Tq D1 z Td Hop) as [Td1 Hop1].
  destruct (rg_open_level msg Fs Tq D1 Td1 Hop1 tagsQ Hl) as [[Hg1 [Hne1 _]] Hdis1].
  remember (rev (tagsQ ++ D1)) as up eqn:Eup.
  destruct up as [|u up'].
  { exfalso. pose proof (proj1 (proj2 Hl)) as HneQ. apply (f_equal (@length Z)) in Eup.
    rewrite rev_length, app_length in Eup. destruct tagsQ; [congruence | cbn [length] in Eup; lia]. }
  rewrite rg_walk_up_cons2. rewrite Eup, rev_involutive, Hg1, rg_is_group_member_map.
  destruct D1 as [|a D1'].
  - inversion Hop1; subst. rewrite app_nil_r in *.
    destruct (rg_memb x (rg_tags Td1)); [reflexivity|]. reflexivity.
  - replace (rg_memb x (rg_tags Td1)) with false.
    + rewrite <- Eup. eapply IH; [exact Hop1 | discriminate].
    + symmetry. apply rg_memb_false. apply Hdis1; [discriminate | exact Hx].
Qed.

Lemma rg_scan_in_cons : forall xh xt m dt s l rpath lt i t v rem' body,
  rg_scan xh xt (Some m) (RgIn dt s l rpath lt) i ((t, v) :: rem') body =
  let after := fun (body' : list rg_badd) =>
    if t =? RG_CHECKSUM then Ok body' else rg_scan xh xt (Some m) RgTop (S i) rem' body' in
  if rg_is_group_member t (rg_get_group_fields m (rev rpath)) then
    if rg_is_num_in_group m (rev rpath ++ [t]) then rg_scan xh xt (Some m) (RgIn dt s (S l) (t :: rpath) t) (S i) rem' body
    else rg_scan xh xt (Some m) (RgIn dt s (S l) rpath t) (S i) rem' body
  else if rg_is_header_field xh t then after (body ++ [(dt, s, l)])
  else if rg_is_trailer_field xt t then after (body ++ [(dt, s, l)])
  else
    let (in_parent, rpath') := rg_walk_up m t rpath in
    if in_parent then
      if rg_is_num_in_group m (rev rpath' ++ [t]) then rg_scan xh xt (Some m) (RgIn dt s (S l) (t :: rpath') t) (S i) rem' body
      else rg_scan xh xt (Some m) (RgIn dt s (S l) rpath' t) (S i) rem' body
    else if rg_is_num_in_group m [t] then rg_scan xh xt (Some m) (RgIn t i 1%nat [t] t) (S i) rem' (body ++ [(dt, s, l)])
    else after ((body ++ [(dt, s, l)]) ++ [(t, i, 1%nat)]).
Proof. reflexivity. Qed.

Lemma rg_scan_top_cons : forall xh xt m i t v rem' body,
  rg_scan xh xt (Some m) RgTop i ((t, v) :: rem') body =
  let after := fun (body' : list rg_badd) =>
    if t =? RG_CHECKSUM then Ok body' else rg_scan xh xt (Some m) RgTop (S i) rem' body' in
  if rg_is_header_field xh t then after body
  else if rg_is_trailer_field xt t then after body
  else if rg_is_num_in_group m [t] then rg_scan xh xt (Some m) (RgIn t i 1%nat [t] t) (S i) rem' body
  else after (body ++ [(t, i, 1%nat)]).
Proof. reflexivity. Qed.

(* one field that is a member of the level Q while the groups D below Q are still open *)
Lemma rg_scan_member_step : forall xh xt msg dt s l lt j x v rem' body Fs tagsQ Tq D Td it,
  rg_level msg tagsQ Tq -> rg_open Fs Tq D Td -> In x Fs -> rg_find_item Tq x = Some it ->
  rg_is_header_field xh x = false -> rg_is_trailer_field xt x = false ->
  rg_scan xh xt (Some msg) (RgIn dt s l (rev (tagsQ ++ D)) lt) j ((x, v) :: rem') body =
  rg_scan xh xt (Some msg) (RgIn dt s (S l) (rev (tagsQ ++ (if rg_pushes it then [x] else []))) x) (S j) rem' body.
Proof.
  intros xh xt msg dt s l lt j x v rem' body Fs tagsQ Tq D Td it Hl Hop Hx Hf Hh Ht.
  assert (Hmem : rg_memb x (rg_tags Tq) = true).
  { apply rg_memb_In. apply rg_find_item_some in Hf. destruct Hf as [Hin Htag]. rewrite <- Htag. apply in_map. exact Hin. }
  rewrite rg_scan_in_cons. cbv zeta.
  destruct (rg_open_level msg Fs Tq D Td Hop tagsQ Hl) as [[Hg _] Hdis].
  rewrite rev_involutive, Hg, rg_is_group_member_map.
  destruct D as [|z D'].
  - inversion Hop; subst. rewrite app_nil_r in *. rewrite Hmem.
    rewrite (rg_level_nig msg tagsQ Td x it Hl Hf).
    destruct (rg_pushes it); [rewrite rev_app_distr; reflexivity | rewrite app_nil_r; reflexivity].
  - replace (rg_memb x (rg_tags Td)) with false
      by (symmetry; apply rg_memb_false; apply Hdis; [discriminate | exact Hx]).
    rewrite Hh, Ht.
    rewrite (rg_walk_up_open msg Fs x tagsQ Tq Hl Hx (z :: D') Td Hop) by discriminate.
    rewrite Hmem. rewrite rev_involutive.
    rewrite (rg_level_nig msg tagsQ Tq x it Hl Hf).
    destruct (rg_pushes it); [rewrite rev_app_distr; reflexivity | rewrite app_nil_r; reflexivity].
Qed.

Definition rg_plain (xh xt : list Z) (x : Z) : Prop :=
  rg_is_header_field xh x = false /\ rg_is_trailer_field xt x = false.

(* scanning the entries of a group at a level whose members are Tq keeps every field in the group being collected *)
Definition rg_scan_ok (Tq : list rg_item) : Prop :=
  forall xh xt msg dt s tagsQ F g,
    rg_level msg tagsQ Tq -> rg_wf_tmpl F Tq = true -> forallb (rg_entry_fit Tq) g = true ->
    (forall x, In x (rg_all_tags Tq) -> rg_plain xh xt x) ->
    forall Fs0 D0 Td0 l j lt rem body,
    rg_open Fs0 Tq D0 Td0 -> incl (rg_delim_tag Tq :: F) Fs0 ->
    exists D Td lt', rg_open F Tq D Td /\ (lt' = lt \/ rg_is_trailer_field xt lt' = false) /\
      rg_scan xh xt (Some msg) (RgIn dt s l (rev (tagsQ ++ D0)) lt) j (rg_write_entries Tq g ++ rem) body =
      rg_scan xh xt (Some msg) (RgIn dt s (l + length (rg_write_entries Tq g)) (rev (tagsQ ++ D)) lt')
              (j + length (rg_write_entries Tq g)) rem body.

Definition rg_scan_ok_item (it : rg_item) : Prop :=
  match it with RgElem _ => True | RgGrp _ sub => rg_scan_ok sub end.

Lemma rg_all_tags_find : forall T y it, rg_find_item T y = Some it -> incl (rg_item_all_tags it) (rg_all_tags T).
Proof.
  intros T y it Hf. apply rg_find_item_some in Hf. destruct Hf as [Hin _].
  unfold rg_all_tags. intros x Hx. apply in_flat_map. exists it. split; assumption.
Qed.

Lemma rg_item_tag_all : forall it, In (rg_item_tag it) (rg_item_all_tags it).
Proof. destruct it; cbn; left; reflexivity. Qed.

Lemma rg_scan_item_step : forall Tq, Forall rg_scan_ok_item Tq ->
  forall xh xt msg dt s tagsQ F d p Fs0 D0 Td0,
  rg_level msg tagsQ Tq -> rg_wf_items F d Tq = true -> rg_item_fit Tq p = true ->
  (forall x, In x (rg_all_tags Tq) -> rg_plain xh xt x) ->
  rg_open Fs0 Tq D0 Td0 -> In (fst p) Fs0 ->
  forall l j lt rem body,
  exists D Td lt', rg_open (rg_tags_after Tq (fst p) ++ d :: F) Tq D Td /\ rg_is_trailer_field xt lt' = false /\
    rg_scan xh xt (Some msg) (RgIn dt s l (rev (tagsQ ++ D0)) lt) j (rg_wfrag Tq p ++ rem) body =
    rg_scan xh xt (Some msg) (RgIn dt s (l + length (rg_wfrag Tq p)) (rev (tagsQ ++ D)) lt')
            (j + length (rg_wfrag Tq p)) rem body.
Proof.
  intros Tq Hall xh xt msg dt s tagsQ F d [tx v] Fs0 D0 Td0 Hl Hwf Hfit Hplain Hop Hx l j lt rem body.
  cbn [fst] in *. unfold rg_item_fit in Hfit. cbn [fst snd] in Hfit.
  destruct (rg_find_item Tq tx) as [it|] eqn:Ef; [|discriminate].
  assert (Hpl : rg_plain xh xt tx).
  { apply Hplain. apply (rg_all_tags_find Tq tx it Ef). pose proof (rg_find_item_some _ _ _ Ef) as [_ Ht]. rewrite <- Ht. apply rg_item_tag_all. }
  destruct Hpl as [Hh Ht].
  unfold rg_wfrag, rg_sub_template. cbn [fst snd]. rewrite Ef.
  destruct it as [te|tg sub].
  - destruct v as [b|g']; [|discriminate].
    exists [], Tq, tx. split; [constructor|]. split; [exact Ht|].
    cbn [rg_write_val app length].
    pose proof (rg_scan_member_step xh xt msg dt s l lt j tx b rem body Fs0 tagsQ Tq D0 Td0 (RgElem te) Hl Hop Hx Ef Hh Ht) as Hstep.
    rewrite !Nat.add_1_r. exact Hstep.
  - destruct v as [b|g']; [discriminate|].
    rewrite rg_fits_val_grp in Hfit. apply andb_true_iff in Hfit. destruct Hfit as [_ Hents].
    pose proof (rg_wf_items_find F d Tq tx tg sub Hwf Ef) as Hwfs.
    destruct (rg_wf_tmpl_parts _ _ Hwfs) as [Hs [Hnds _]].
    rewrite rg_write_val_grp. cbn [app length].
    pose proof (rg_scan_member_step xh xt msg dt s l lt j tx (itoa (Z.of_nat (length g'))) (rg_write_entries sub g' ++ rem)
                  body Fs0 tagsQ Tq D0 Td0 (RgGrp tg sub) Hl Hop Hx Ef Hh Ht) as Hstep.
    assert (Hp : rg_pushes (RgGrp tg sub) = true) by (destruct sub; [congruence | reflexivity]). rewrite Hp in Hstep.
    assert (Hok : rg_scan_ok sub).
    { rewrite Forall_forall in Hall. apply (Hall (RgGrp tg sub)). apply rg_find_item_some in Ef. exact (proj1 Ef). }
    pose proof (rg_level_push msg tagsQ Tq tx tg sub Hl Ef Hs Hnds) as Hl'.
    assert (Hplain' : forall x, In x (rg_all_tags sub) -> rg_plain xh xt x).
    { intros x Hin. apply Hplain. apply (rg_all_tags_find Tq tx _ Ef). cbn [rg_item_all_tags]. right. exact Hin. }
    destruct (Hok xh xt msg dt s (tagsQ ++ [tx]) _ g' Hl' Hwfs Hents Hplain'
                (rg_delim_tag sub :: rg_tags_after Tq tx ++ d :: F) [] sub (S l) (S j) tx rem body
                (rg_open_nil _ sub) (incl_refl _)) as [D'' [Td'' [lt'' [Hop'' [Hlt'' Heq]]]]].
    exists (tx :: D''), Td'', lt''. split; [|split].
    + econstructor; [exact Ef | exact Hwfs | apply incl_refl | exact Hop''].
    + destruct Hlt'' as [E|E]; [subst lt''; exact Ht | exact E].
    + eapply eq_trans; [exact Hstep|]. rewrite app_nil_r in Heq. eapply eq_trans; [exact Heq|].
      rewrite <- app_assoc. cbn [app]. rewrite !Nat.add_succ_r. reflexivity.
Qed.

Fixpoint rg_last_follow (Tq : list rg_item) (F : list Z) (d : Z) (Fs0 : list Z) (items : list (Z * rg_val)) : list Z :=
  match items with
  | [] => Fs0
  | p :: r => rg_last_follow Tq F d (rg_tags_after Tq (fst p) ++ d :: F) r
  end.

Lemma rg_last_follow_incl : forall Tq F d items Fs0, incl (d :: F) Fs0 -> incl (d :: F) (rg_last_follow Tq F d Fs0 items).
Proof.
  induction items as [|p r IH]; intros Fs0 H; cbn [rg_last_follow]; [exact H|].
  apply IH. apply incl_appr. apply incl_refl.
Qed.

Lemma rg_scan_items : forall Tq, Forall rg_scan_ok_item Tq ->
  forall xh xt msg dt s tagsQ F d,
  rg_level msg tagsQ Tq -> rg_wf_items F d Tq = true ->
  (forall x, In x (rg_all_tags Tq) -> rg_plain xh xt x) ->
  forall items, forallb (rg_item_fit Tq) items = true -> rg_chain Tq F d items None ->
  forall Fs0 D0 Td0 l j lt rem body,
  rg_open Fs0 Tq D0 Td0 -> match items with p :: _ => In (fst p) Fs0 | [] => True end ->
  exists D Td lt', rg_open (rg_last_follow Tq F d Fs0 items) Tq D Td /\
    (lt' = lt \/ rg_is_trailer_field xt lt' = false) /\
    rg_scan xh xt (Some msg) (RgIn dt s l (rev (tagsQ ++ D0)) lt) j (rg_wfields Tq items ++ rem) body =
    rg_scan xh xt (Some msg) (RgIn dt s (l + length (rg_wfields Tq items)) (rev (tagsQ ++ D)) lt')
            (j + length (rg_wfields Tq items)) rem body.
Proof.
  intros Tq Hall xh xt msg dt s tagsQ F d Hl Hwf Hplain items.
  induction items as [|p r IH]; intros Hfit Hch Fs0 D0 Td0 l j lt rem body Hop Hfirst.
  - exists D0, Td0, lt. split; [exact Hop|]. split; [left; reflexivity|].
    cbn [rg_wfields flat_map app length]. rewrite !Nat.add_0_r. reflexivity.
  - cbn [forallb] in Hfit. apply andb_true_iff in Hfit. destruct Hfit as [Hfp Hfr]. destruct Hch as [Hch1 Hch2].
    destruct (rg_scan_item_step Tq Hall xh xt msg dt s tagsQ F d p Fs0 D0 Td0 Hl Hwf Hfp Hplain Hop Hfirst
                l j lt (rg_wfields Tq r ++ rem) body) as [D1 [Td1 [lt1 [Hop1 [Hlt1 Heq1]]]]].
    assert (Hfirst' : match r with q :: _ => In (fst q) (rg_tags_after Tq (fst p) ++ d :: F) | [] => True end).
    { destruct r as [|q r']; [exact I|]. apply Hch1. reflexivity. }
    destruct (IH Hfr Hch2 _ D1 Td1 (l + length (rg_wfrag Tq p))%nat (j + length (rg_wfrag Tq p))%nat lt1 rem body Hop1 Hfirst')
      as [D [Td [lt' [Hop' [Hlt' Heq']]]]].
    exists D, Td, lt'. split; [exact Hop'|]. split.
    + right. destruct Hlt' as [E|E]; [subst lt'; exact Hlt1 | exact E].
    + unfold rg_wfields in *. cbn [flat_map]. rewrite <- app_assoc. rewrite Heq1, Heq'.
      rewrite app_length, !Nat.add_assoc. reflexivity.
Qed.

Lemma rg_scan_ok_tmpl : forall Tq, Forall rg_scan_ok_item Tq -> rg_scan_ok Tq.
Proof.
  intros Tq Hall xh xt msg dt s tagsQ F g Hl Hwf Hfit Hplain.
  destruct (rg_wf_tmpl_parts F Tq Hwf) as [HT [Hnd [Hdis Hitems]]].
  destruct Tq as [|d0 T']; [congruence|]. set (Tq := d0 :: T') in *. cbn [rg_delim_tag] in *. fold Tq in Hitems.
  induction g as [|e g' IH]; intros Fs0 D0 Td0 l j lt rem body Hop Hincl.
  - exists D0, Td0, lt. split; [|split; [left; reflexivity|]].
    + eapply rg_open_mono; [|exact Hop]. intros x Hx. apply Hincl. right. exact Hx.
    + cbn [rg_write_entries flat_map app length]. rewrite !Nat.add_0_r. reflexivity.
  - cbn [forallb] in Hfit. apply andb_true_iff in Hfit. destruct Hfit as [Hfe Hfg].
    destruct (rg_sorted_entry_shape d0 T' e Hnd Hfe) as [vd [others [Es [Hfit' [Hnd' Hsorted]]]]].
    fold Tq in Es, Hfit', Hsorted.
    assert (Hch : rg_chain Tq F (rg_item_tag d0) ((rg_item_tag d0, vd) :: others) None).
    { apply rg_chain_sorted; [exact Hnd | exact Hsorted | exact Hnd' | | discriminate].
      intros p Hp. apply rg_item_fit_in. rewrite forallb_forall in Hfit'. apply Hfit'. exact Hp. }
    destruct (rg_scan_items Tq Hall xh xt msg dt s tagsQ F (rg_item_tag d0) Hl Hitems Hplain _ Hfit' Hch
                Fs0 D0 Td0 l j lt (rg_write_entries Tq g' ++ rem) body Hop (Hincl _ (or_introl eq_refl)))
      as [D1 [Td1 [lt1 [Hop1 [Hlt1 Heq1]]]]].
    destruct (IH Hfg _ D1 Td1 (l + length (rg_wfields Tq ((rg_item_tag d0, vd) :: others)))%nat
                (j + length (rg_wfields Tq ((rg_item_tag d0, vd) :: others)))%nat lt1 rem body Hop1
                (rg_last_follow_incl Tq F (rg_item_tag d0) _ Fs0 Hincl))
      as [D [Td [lt' [Hop' [Hlt' Heq']]]]].
    exists D, Td, lt'. split; [exact Hop'|]. split.
    + destruct Hlt' as [E|E]; [subst lt'; exact Hlt1 | right; exact E].
    + cbn [rg_write_entries flat_map]. fold (rg_write_entries Tq g'). unfold rg_write_entry. rewrite Es.
      rewrite <- app_assoc. rewrite Heq1, Heq'. rewrite app_length, !Nat.add_assoc. reflexivity.
Qed.

Theorem rg_scan_ok_all : forall T, rg_scan_ok T.
Proof.
  assert (H : forall it, rg_scan_ok_item it).
  { apply rg_item_ind'; [intros t; exact I|]. intros t sub Hsub. cbn [rg_scan_ok_item]. apply rg_scan_ok_tmpl. exact Hsub. }
  intros T. apply rg_scan_ok_tmpl. apply Forall_forall. intros it _. apply H.
Qed.

(* ------------------------------------------------------------------------------------------------ *)
(* The group as a whole                                                                                *)

Lemma rg_trailer_10 : forall xt, rg_is_trailer_field xt 10 = true.
Proof. intros xt. reflexivity. Qed.

Theorem rg_scan_group : forall xh xt msg T t g post i body F,
  rg_def_lookup t msg = Some (rg_def_of_item (RgGrp t T)) ->
  rg_wf_tmpl F T = true -> rg_fits T g = true -> rg_follow_ok F post ->
  (forall x, In x (t :: rg_all_tags T) -> rg_plain xh xt x) ->
  rg_scan xh xt (Some msg) RgTop i (rg_write T t g ++ post) body =
  rg_scan xh xt (Some msg) RgTop (i + length (rg_write T t g)) post (body ++ [(t, i, length (rg_write T t g))]).
Proof.
  intros xh xt msg T t g post i body F Hdef Hwf Hfit Hfol Hplain.
  destruct (rg_wf_tmpl_parts F T Hwf) as [HT [Hnd [Hdis _]]].
  unfold rg_write, rg_fits in *. rewrite rg_write_val_grp. rewrite rg_fits_val_grp in Hfit.
  apply andb_true_iff in Hfit. destruct Hfit as [_ Hents].
  destruct (Hplain t (or_introl eq_refl)) as [Hh Ht].
  assert (Hl : rg_level msg [t] T).
  { split; [|split; [discriminate | split; [exact HT | exact Hnd]]]. cbn [rg_get_group_fields]. rewrite Hdef. reflexivity. }
  cbn [app length]. rewrite rg_scan_top_cons. cbv zeta. rewrite Hh, Ht.
  assert (Hnig : rg_is_num_in_group msg [t] = true).
  { unfold rg_is_num_in_group. rewrite (proj1 Hl). destruct T; [congruence | reflexivity]. }
  rewrite Hnig.
  destruct (rg_scan_ok_all T xh xt msg t i [t] F g Hl Hwf Hents
              (fun x Hx => Hplain x (or_intror Hx))
              (rg_delim_tag T :: F) [] T 1%nat (S i) t post body (rg_open_nil _ T) (incl_refl _))
    as [D [Td [lt' [Hop [Hlt' Heq]]]]].
  cbn [app] in Heq. eapply eq_trans; [exact Heq|]. clear Heq.
  assert (Hlt : rg_is_trailer_field xt lt' = false) by (destruct Hlt' as [E|E]; [subst lt'; exact Ht | exact E]).
  set (n := length (rg_write_entries T g)) in *.
  replace (S i + n)%nat with (i + S n)%nat by lia. replace (1 + n)%nat with (S n) by lia.
  destruct post as [|[pt pv] post'].
  - cbn [rg_scan]. replace (lt' =? RG_CHECKSUM) with false; [reflexivity|].
    symmetry. apply Z.eqb_neq. intros E. unfold RG_CHECKSUM in E. subst lt'. rewrite rg_trailer_10 in Hlt. discriminate.
  - cbn [rg_follow_ok fst] in Hfol.
    destruct (rg_open_level msg F T D Td Hop [t] Hl) as [[Hg _] HdisD]. cbn [app] in Hg.
    rewrite rg_scan_in_cons, rg_scan_top_cons. cbv zeta.
    rewrite rev_involutive, Hg, rg_is_group_member_map.
    assert (Hm : rg_memb pt (rg_tags Td) = false).
    { apply rg_memb_false. destruct D as [|z D'].
      - inversion Hop; subst. apply Hdis. exact Hfol.
      - apply HdisD; [discriminate | exact Hfol]. }
    rewrite Hm.
    destruct (rg_is_header_field xh pt); [reflexivity|].
    destruct (rg_is_trailer_field xt pt); [reflexivity|].
    assert (Hw : rg_walk_up msg pt (rev ([t] ++ D)) = (false, [t])).
    { destruct D as [|z D'].
      - reflexivity.
      - rewrite (rg_walk_up_open msg F pt [t] T Hl Hfol (z :: D') Td Hop) by discriminate.
        replace (rg_memb pt (rg_tags T)) with false by (symmetry; apply rg_memb_false; apply Hdis; exact Hfol).
        reflexivity. }
    cbn [app] in Hw. rewrite Hw.
    destruct (rg_is_num_in_group msg [pt]); reflexivity.
Qed.

(* ------------------------------------------------------------------------------------------------ *)
(* Body.add calls only accumulate; what is added carries the tag of a field scanned                    *)

Definition rg_mode_tags (m : rg_mode) : list Z := match m with RgTop => [] | RgIn dt _ _ _ _ => [dt] end.
Definition rg_badd_tag (a : rg_badd) : Z := fst (fst a).

Lemma rg_scan_extends : forall xh xt msg rem mode j b res,
  rg_scan xh xt msg mode j rem b = Ok res ->
  exists extra, res = b ++ extra /\ forall a, In a extra -> In (rg_badd_tag a) (rg_mode_tags mode ++ map fst rem).
Proof.
  intros xh xt msg rem. induction rem as [|[t v] rem' IH]; intros mode j b res H.
  - destruct mode as [|dt s l rp lt]; cbn [rg_scan] in H; [discriminate|].
    destruct (lt =? RG_CHECKSUM); [|discriminate]. inversion H; subst.
    exists [(dt, s, l)]. split; [reflexivity|]. intros a [Ha|[]]. subst a. left. reflexivity.
  - assert (Hstep : forall mode' b' extra0,
              rg_scan xh xt msg mode' (S j) rem' b' = Ok res -> b' = b ++ extra0 ->
              (forall a, In a extra0 -> In (rg_badd_tag a) (rg_mode_tags mode ++ t :: map fst rem')) ->
              incl (rg_mode_tags mode') (rg_mode_tags mode ++ t :: map fst rem') ->
              exists extra, res = b ++ extra /\ forall a, In a extra -> In (rg_badd_tag a) (rg_mode_tags mode ++ t :: map fst rem')).
    { intros mode' b' extra0 Hs Hb Hin0 Hinc. destruct (IH _ _ _ _ Hs) as [extra [Hr Hin]]. subst b'.
      exists (extra0 ++ extra). split; [rewrite app_assoc; exact Hr|].
      intros a Ha. apply in_app_or in Ha. destruct Ha as [Ha|Ha]; [apply Hin0; exact Ha|].
      specialize (Hin a Ha). apply in_app_or in Hin. destruct Hin as [Hin|Hin].
      - apply Hinc. exact Hin.
      - apply in_or_app. right. right. exact Hin. }
    assert (Hdone : forall extra0, res = b ++ extra0 ->
              (forall a, In a extra0 -> In (rg_badd_tag a) (rg_mode_tags mode ++ t :: map fst rem')) ->
              exists extra, res = b ++ extra /\ forall a, In a extra -> In (rg_badd_tag a) (rg_mode_tags mode ++ t :: map fst rem')).
    { intros extra0 Hr Hin0. exists extra0. split; assumption. }
    cbn [map fst].
    destruct mode as [|dt s l rp lt]; cbn [rg_scan] in H; cbn [rg_mode_tags app] in *.
    + repeat match type of H with context [if ?c then _ else _] => destruct c end;
        try (inversion H; subst; first
          [ apply (Hdone []); [rewrite app_nil_r; reflexivity | intros a []]
          | apply (Hdone [(t, j, 1%nat)]); [reflexivity | intros a [Ha|[]]; subst a; left; reflexivity] ]);
        first
        [ apply (Hstep _ _ [] H); [rewrite app_nil_r; reflexivity | intros a [] | cbn [rg_mode_tags]; intros x Hx; destruct Hx as [Hx|[]]; subst x; left; reflexivity]
        | apply (Hstep _ _ [] H); [rewrite app_nil_r; reflexivity | intros a [] | cbn [rg_mode_tags]; intros x []]
        | apply (Hstep _ _ [(t, j, 1%nat)] H); [reflexivity | intros a [Ha|[]]; subst a; left; reflexivity | cbn [rg_mode_tags]; intros x []] ].
    + destruct (rg_walk_up match msg with Some m => m | None => [] end t rp) as [inp rp'].
      repeat match type of H with context [if ?c then _ else _] => destruct c end;
        try (inversion H; subst; first
          [ apply (Hdone [(dt, s, l)]); [reflexivity | intros a [Ha|[]]; subst a; left; reflexivity]
          | apply (Hdone [(dt, s, l); (t, j, 1%nat)]); [rewrite <- app_assoc; reflexivity
              | intros a [Ha|[Ha|[]]]; subst a; [left; reflexivity | right; left; reflexivity]] ]);
        first
        [ apply (Hstep _ _ [] H); [rewrite app_nil_r; reflexivity | intros a [] | cbn [rg_mode_tags]; intros x Hx; destruct Hx as [Hx|[]]; subst x; left; reflexivity]
        | apply (Hstep _ _ [(dt, s, l)] H); [reflexivity | intros a [Ha|[]]; subst a; left; reflexivity
            | cbn [rg_mode_tags]; intros x Hx; destruct Hx as [Hx|[]]; subst x; right; left; reflexivity]
        | apply (Hstep _ _ [(dt, s, l)] H); [reflexivity | intros a [Ha|[]]; subst a; left; reflexivity
            | cbn [rg_mode_tags]; intros x []]
        | apply (Hstep _ _ [(dt, s, l); (t, j, 1%nat)] H); [rewrite <- app_assoc; reflexivity
            | intros a [Ha|[Ha|[]]]; subst a; [left; reflexivity | right; left; reflexivity]
            | cbn [rg_mode_tags]; intros x []] ].
Qed.

(* ------------------------------------------------------------------------------------------------ *)
(* The message level: Body lookups after the scan                                                      *)

Lemma rg_body_lookup_app : forall t l1 l2,
  rg_body_lookup t (l1 ++ l2) = match rg_body_lookup t l2 with Some x => Some x | None => rg_body_lookup t l1 end.
Proof.
  intros t l1 l2. induction l1 as [|[[t' off] n] r IH]; cbn [app rg_body_lookup].
  - destruct (rg_body_lookup t l2); reflexivity.
  - rewrite IH. destruct (rg_body_lookup t l2); [reflexivity|]. reflexivity.
Qed.

Lemma rg_body_lookup_none : forall t l, ~ In t (map rg_badd_tag l) -> rg_body_lookup t l = None.
Proof.
  intros t l. induction l as [|[[t' off] n] r IH]; cbn [rg_body_lookup map]; intros Hn; [reflexivity|].
  rewrite IH by (intros H; apply Hn; right; exact H).
  destruct (t' =? t) eqn:E; [|reflexivity]. apply Z.eqb_eq in E. exfalso. apply Hn. left. exact E.
Qed.

Lemma rg_body_has_app_r : forall t l1 l2, rg_body_has t l2 = true -> rg_body_has t (l1 ++ l2) = true.
Proof.
  intros t l1 l2 H. unfold rg_body_has in *. rewrite rg_body_lookup_app. destruct (rg_body_lookup t l2); [reflexivity | discriminate].
Qed.

Lemma rg_body_has_app_l : forall t l1 l2, rg_body_has t l1 = true -> rg_body_has t (l1 ++ l2) = true.
Proof.
  intros t l1 l2 H. unfold rg_body_has in *. rewrite rg_body_lookup_app. destruct (rg_body_lookup t l2); [reflexivity | exact H].
Qed.

Lemma rg_body_has_single : forall t off n, rg_body_has t [(t, off, n)] = true.
Proof. intros. unfold rg_body_has. cbn [rg_body_lookup]. rewrite Z.eqb_refl. reflexivity. Qed.

Lemma rg_skipn_pre {A : Type} : forall (pre l : list A), skipn (length pre) (pre ++ l) = l.
Proof. induction pre as [|x r IH]; intros l; [reflexivity | cbn [length app skipn]; apply IH]. Qed.

(* With the dictionary that defines the group like the template: reached at top level at index |pre|, the group's
   wire fields W = rg_write T t g are stored as ONE body field (t, |pre|, |W|), the scan goes on at top level behind
   them exactly as if it had just added a plain field, and GetGroup through T returns the group. *)
Theorem rg_dict_in_message : forall xh xt msg T t g pre post body res F,
  rg_def_lookup t msg = Some (rg_def_of_item (RgGrp t T)) ->
  rg_wf_tmpl F T = true -> rg_fits T g = true -> rg_follow_ok F post ->
  (forall x, In x (t :: rg_all_tags T) -> rg_plain xh xt x) ->
  ~ In t (map fst post) ->
  rg_scan xh xt (Some msg) RgTop (length pre) (rg_write T t g ++ post) body = Ok res ->
  rg_scan xh xt (Some msg) RgTop (length pre + length (rg_write T t g)) post
          (body ++ [(t, length pre, length (rg_write T t g))]) = Ok res /\
  rg_body_lookup t res = Some (length pre, length (rg_write T t g)) /\
  rg_body_get_group (pre ++ rg_write T t g ++ post) T t res = Ok (rg_canon T g).
Proof.
  intros xh xt msg T t g pre post body res F Hdef Hwf Hfit Hfol Hplain Hnt H.
  rewrite (rg_scan_group xh xt msg T t g post (length pre) body F Hdef Hwf Hfit Hfol Hplain) in H.
  split; [exact H|].
  destruct (rg_scan_extends _ _ _ _ _ _ _ _ H) as [extra [Hr Hin]]. cbn [rg_mode_tags app] in Hin.
  assert (Hl : rg_body_lookup t res = Some (length pre, length (rg_write T t g))).
  { subst res. rewrite rg_body_lookup_app.
    rewrite (rg_body_lookup_none t extra).
    - rewrite rg_body_lookup_app. cbn [rg_body_lookup]. rewrite Z.eqb_refl. reflexivity.
    - intros Hc. apply in_map_iff in Hc. destruct Hc as [a [Ea Ha]]. apply Hnt. rewrite <- Ea. apply Hin. exact Ha. }
  split; [exact Hl|].
  unfold rg_body_get_group. rewrite Hl, rg_skipn_pre.
  rewrite (rg_roundtrip T t g post F Hwf Hfit Hfol). reflexivity.
Qed.

(* plain body fields met at top level are found afterwards *)
Lemma rg_plain_fields_found : forall xh xt msg ps j rest b res,
  (forall p, In p ps -> rg_plain xh xt (fst p) /\
                        match msg with Some m => rg_is_num_in_group m [fst p] | None => false end = false) ->
  rg_scan xh xt msg RgTop j (ps ++ rest) b = Ok res ->
  forall p, In p ps -> rg_body_has (fst p) res = true.
Proof.
  intros xh xt msg ps. induction ps as [|[pt pv] ps' IH]; intros j rest b res Hp H p Hin; [destruct Hin|].
  destruct (Hp (pt, pv) (or_introl eq_refl)) as [[Hh Ht] Hn]. cbn [fst] in *.
  cbn [app rg_scan] in H. rewrite Hh, Ht, Hn in H.
  assert (E10 : (pt =? RG_CHECKSUM) = false).
  { apply Z.eqb_neq. intros E. unfold RG_CHECKSUM in E. subst pt. rewrite rg_trailer_10 in Ht. discriminate. }
  rewrite E10 in H.
  destruct Hin as [Hin|Hin].
  - subst p. cbn [fst]. destruct (rg_scan_extends _ _ _ _ _ _ _ _ H) as [extra [Hr _]]. subst res.
    apply rg_body_has_app_l. apply rg_body_has_app_r. apply rg_body_has_single.
  - eapply IH; [|exact H | exact Hin]. intros q Hq. apply Hp. right. exact Hq.
Qed.

(* Without a dictionary every wire field is a body field of its own; the group field keeps only its count, and
   GetGroup reads on through the capacity of the stored slice: the group is found provided its tag does not occur
   again behind it; the fields behind the group are found as well. *)
Theorem rg_nodict_in_message : forall T t g pre post body res F,
  rg_wf_tmpl F T = true -> rg_fits T g = true -> rg_follow_ok F post ->
  rg_plain [] [] t -> ~ In t (map fst (tl (rg_write T t g) ++ post)) ->
  rg_scan [] [] None RgTop (length pre) (rg_write T t g ++ post) body = Ok res ->
  rg_body_lookup t res = Some (length pre, 1%nat) /\
  rg_body_get_group (pre ++ rg_write T t g ++ post) T t res = Ok (rg_canon T g).
Proof.
  intros T t g pre post body res F Hwf Hfit Hfol [Hh Ht] Hnt H.
  assert (Hl : rg_body_lookup t res = Some (length pre, 1%nat)).
  { unfold rg_write in *. rewrite rg_write_val_grp in *. cbn [app tl] in *.
    cbn [rg_scan] in H. rewrite Hh, Ht in H.
    assert (E10 : (t =? RG_CHECKSUM) = false).
    { apply Z.eqb_neq. intros E. unfold RG_CHECKSUM in E. subst t. rewrite rg_trailer_10 in Ht. discriminate. }
    rewrite E10 in H.
    destruct (rg_scan_extends _ _ _ _ _ _ _ _ H) as [extra [Hr Hin]]. cbn [rg_mode_tags app] in Hin.
    subst res. rewrite rg_body_lookup_app. rewrite (rg_body_lookup_none t extra).
    - rewrite rg_body_lookup_app. cbn [rg_body_lookup]. rewrite Z.eqb_refl. reflexivity.
    - intros Hc. apply in_map_iff in Hc. destruct Hc as [a [Ea Ha]]. apply Hnt. rewrite <- Ea. apply Hin. exact Ha. }
  split; [exact Hl|].
  unfold rg_body_get_group. rewrite Hl, rg_skipn_pre.
  rewrite (rg_roundtrip T t g post F Hwf Hfit Hfol). reflexivity.
Qed.

Lemma rg_nodict_field_found : forall xh xt l1 f l2 j b res,
  (forall q, In q l1 -> fst q <> RG_CHECKSUM) -> rg_plain xh xt (fst f) ->
  rg_scan xh xt None RgTop j (l1 ++ f :: l2) b = Ok res -> rg_body_has (fst f) res = true.
Proof.
  intros xh xt l1. induction l1 as [|[qt qv] l1' IH]; intros [ft fv] l2 j b res Hno [Hh Ht] H; cbn [fst] in *.
  - cbn [app rg_scan] in H. rewrite Hh, Ht in H.
    assert (E10 : (ft =? RG_CHECKSUM) = false).
    { apply Z.eqb_neq. intros E. unfold RG_CHECKSUM in E. subst ft. rewrite rg_trailer_10 in Ht. discriminate. }
    rewrite E10 in H. destruct (rg_scan_extends _ _ _ _ _ _ _ _ H) as [extra [Hr _]]. subst res.
    apply rg_body_has_app_l. apply rg_body_has_app_r. apply rg_body_has_single.
  - cbn [app rg_scan] in H.
    assert (E10 : (qt =? RG_CHECKSUM) = false) by (apply Z.eqb_neq; apply (Hno (qt, qv)); left; reflexivity).
    rewrite E10 in H.
    assert (Hno' : forall q, In q l1' -> fst q <> RG_CHECKSUM) by (intros q Hq; apply Hno; right; exact Hq).
    destruct (rg_is_header_field xh qt); [eapply (IH (ft, fv)); [exact Hno' | split; assumption | exact H]|].
    destruct (rg_is_trailer_field xt qt); eapply (IH (ft, fv)); try exact H; try exact Hno'; split; assumption.
Qed.

(* ------------------------------------------------------------------------------------------------ *)
(* DESIGN-form statements and the whole message                                                        *)

Lemma rg_wf_follow_design : forall T post, rg_wf_template T = true ->
  (forall f, hd_error post = Some f -> ~ In (fst f) (rg_all_tags T)) ->
  exists F, rg_wf_tmpl F T = true /\ rg_follow_ok F post.
Proof.
  intros T post Hwf Hpost. destruct post as [|f post'].
  - exists []. split; [exact Hwf | exact I].
  - exists [fst f]. split; [|left; reflexivity]. apply rg_wf_tmpl_extend; [apply Hpost; reflexivity | exact Hwf].
Qed.

Fixpoint rg_plain_adds (j : nat) (ps : list rg_field) : list rg_badd :=
  match ps with [] => [] | p :: r => (fst p, j, 1%nat) :: rg_plain_adds (S j) r end.

Definition rg_plain_body_field (xh xt : list Z) (msg : option (list rg_gdef)) (p : rg_field) : Prop :=
  rg_plain xh xt (fst p) /\ match msg with Some m => rg_is_num_in_group m [fst p] | None => false end = false.

Lemma rg_scan_plains : forall xh xt msg ps j rest b,
  (forall p, In p ps -> rg_plain_body_field xh xt msg p) ->
  rg_scan xh xt msg RgTop j (ps ++ rest) b = rg_scan xh xt msg RgTop (j + length ps) rest (b ++ rg_plain_adds j ps).
Proof.
  intros xh xt msg ps. induction ps as [|[pt pv] ps' IH]; intros j rest b Hp.
  - cbn [app length rg_plain_adds]. rewrite Nat.add_0_r, app_nil_r. reflexivity.
  - destruct (Hp (pt, pv) (or_introl eq_refl)) as [[Hh Ht] Hn]. cbn [fst] in *.
    cbn [app rg_scan]. rewrite Hh, Ht, Hn.
    assert (E10 : (pt =? RG_CHECKSUM) = false).
    { apply Z.eqb_neq. intros E. unfold RG_CHECKSUM in E. subst pt. rewrite rg_trailer_10 in Ht. discriminate. }
    rewrite E10. rewrite IH by (intros q Hq; apply Hp; right; exact Hq).
    cbn [length rg_plain_adds fst]. rewrite <- app_assoc. cbn [app]. rewrite Nat.add_succ_r. reflexivity.
Qed.

(* C13, parsed with the dictionary: a whole message h3 ++ pre ++ W ++ ps ++ rest (h3 = BeginString, BodyLength,
   MsgType; pre and ps plain body fields; W the group's wire fields; rest = whatever follows, e.g. the trailer) *)
Theorem rg_dict_message : forall xh xt msg T t g h3 pre ps rest res,
  length h3 = 3%nat ->
  rg_def_lookup t msg = Some (rg_def_of_item (RgGrp t T)) ->
  rg_wf_template T = true -> rg_fits T g = true ->
  (forall f, hd_error (ps ++ rest) = Some f -> ~ In (fst f) (rg_all_tags T)) ->
  (forall x, In x (t :: rg_all_tags T) -> rg_plain xh xt x) ->
  (forall p, In p (pre ++ ps) -> rg_plain_body_field xh xt (Some msg) p) ->
  ~ In t (map fst (ps ++ rest)) ->
  rg_scan_message xh xt (Some msg) (h3 ++ pre ++ rg_write T t g ++ ps ++ rest) = Ok res ->
  rg_body_get_group (h3 ++ pre ++ rg_write T t g ++ ps ++ rest) T t res = Ok (rg_canon T g) /\
  forall p, In p ps -> rg_body_has (fst p) res = true.
Proof.
  intros xh xt msg T t g h3 pre ps rest res Hh3 Hdef Hwf Hfit Hpost Hplain Hps Hnt H.
  destruct (rg_wf_follow_design T (ps ++ rest) Hwf Hpost) as [F [HwfF Hfol]].
  unfold rg_scan_message in H. rewrite <- Hh3, rg_skipn_pre in H.
  rewrite rg_scan_plains in H by (intros p Hp; apply Hps; apply in_or_app; left; exact Hp).
  unfold rg_field in *. rewrite <- (app_length h3 pre) in H.
  destruct (rg_dict_in_message xh xt msg T t g (h3 ++ pre) (ps ++ rest) _ res F Hdef HwfF Hfit Hfol Hplain Hnt H)
    as [Hcont [_ Hget]].
  split.
  - rewrite <- app_assoc in Hget. exact Hget.
  - intros p Hp. eapply (rg_plain_fields_found xh xt (Some msg) ps); [|exact Hcont | exact Hp].
    intros q Hq. apply Hps. apply in_or_app. right. exact Hq.
Qed.

(* C13, parsed without dictionary *)
Theorem rg_nodict_message : forall T t g h3 pre post res,
  length h3 = 3%nat ->
  rg_wf_template T = true -> rg_fits T g = true ->
  (forall f, hd_error post = Some f -> ~ In (fst f) (rg_all_tags T)) ->
  rg_plain [] [] t -> ~ In t (map fst (tl (rg_write T t g) ++ post)) ->
  (forall q, In q (pre ++ rg_write T t g) -> fst q <> RG_CHECKSUM) ->
  rg_scan_message [] [] None (h3 ++ pre ++ rg_write T t g ++ post) = Ok res ->
  rg_body_get_group (h3 ++ pre ++ rg_write T t g ++ post) T t res = Ok (rg_canon T g) /\
  forall l1 f l2, post = l1 ++ f :: l2 -> (forall q, In q l1 -> fst q <> RG_CHECKSUM) -> rg_plain [] [] (fst f) ->
    rg_body_has (fst f) res = true.
Proof.
  intros T t g h3 pre post res Hh3 Hwf Hfit Hpost Hpl Hnt Hpre0 H.
  assert (Hpre : forall q, In q pre -> fst q <> RG_CHECKSUM) by (intros q Hq; apply Hpre0; apply in_or_app; left; exact Hq).
  destruct (rg_wf_follow_design T post Hwf Hpost) as [F [HwfF Hfol]].
  unfold rg_scan_message in H. rewrite <- Hh3, rg_skipn_pre in H.
  split.
  - (* the fields of pre are scanned one by one at top level; follow the scan up to the group field *)
    assert (Hgen : forall pre1 pre2 j b, (forall q, In q pre2 -> fst q <> RG_CHECKSUM) -> j = length (h3 ++ pre1) ->
              rg_scan [] [] None RgTop j (pre2 ++ rg_write T t g ++ post) b = Ok res ->
              rg_body_get_group ((h3 ++ pre1 ++ pre2) ++ rg_write T t g ++ post) T t res = Ok (rg_canon T g)).
    { intros pre1 pre2. revert pre1. induction pre2 as [|[qt qv] pre2' IH]; intros pre1 j b Hno Hj Hs.
      - rewrite app_nil_r. cbn [app] in Hs. subst j.
        exact (proj2 (rg_nodict_in_message T t g (h3 ++ pre1) post b res F HwfF Hfit Hfol Hpl Hnt Hs)).
      - replace ((h3 ++ pre1 ++ (qt, qv) :: pre2') ++ rg_write T t g ++ post)
          with ((h3 ++ (pre1 ++ [(qt, qv)]) ++ pre2') ++ rg_write T t g ++ post)
          by (rewrite <- !app_assoc; reflexivity).
        cbn [app rg_scan] in Hs.
        assert (E10 : (qt =? RG_CHECKSUM) = false) by (apply Z.eqb_neq; apply (Hno (qt, qv)); left; reflexivity).
        rewrite E10 in Hs.
        assert (Hno' : forall q, In q pre2' -> fst q <> RG_CHECKSUM) by (intros q Hq; apply Hno; right; exact Hq).
        assert (Hj' : S j = length (h3 ++ pre1 ++ [(qt, qv)])).
        { subst j. rewrite !app_length. cbn [length]. lia. }
        destruct (rg_is_header_field [] qt); [exact (IH _ _ _ Hno' Hj' Hs)|].
        destruct (rg_is_trailer_field [] qt); exact (IH _ _ _ Hno' Hj' Hs). }
    specialize (Hgen [] pre (length h3) [] Hpre).
    rewrite app_nil_r in Hgen. cbn [app] in Hgen. rewrite <- app_assoc in Hgen. apply Hgen; [reflexivity | exact H].
  - intros l1 f l2 Epost Hno Hplf.
    subst post. rewrite !app_assoc in H. eapply rg_nodict_field_found; [|exact Hplf | exact H].
    intros q Hq. apply in_app_or in Hq. destruct Hq as [Hq|Hq]; [|apply Hno; exact Hq].
    apply Hpre0. exact Hq.
Qed.

(* ------------------------------------------------------------------------------------------------ *)
(* What GetGroup users see of the canonical form is what they would see of the group as written         *)

Lemma rg_assoc_last_some_in {A : Type} : forall t (l : list (Z * A)) a, rg_assoc_last t l = Some a -> In (t, a) l.
Proof.
  induction l as [|[t' a'] r IH]; cbn [rg_assoc_last]; intros a H; [discriminate|].
  destruct (rg_assoc_last t r) as [x|] eqn:E.
  - inversion H; subst. right. apply IH. reflexivity.
  - destruct (t' =? t) eqn:E2; [|discriminate]. inversion H; subst. apply Z.eqb_eq in E2. subst. left. reflexivity.
Qed.

Lemma rg_assoc_last_none {A : Type} : forall t (l : list (Z * A)), rg_assoc_last t l = None <-> ~ In t (map fst l).
Proof.
  induction l as [|[t' a'] r IH]; cbn [rg_assoc_last map fst].
  - split; [intros _ H; exact H | reflexivity].
  - destruct (rg_assoc_last t r) as [x|] eqn:E.
    + split; [discriminate|]. intros H. exfalso. apply H. right.
      apply rg_assoc_last_some_in in E. apply in_map_iff. exists (t, x). split; [reflexivity | exact E].
    + destruct (t' =? t) eqn:E2.
      * apply Z.eqb_eq in E2. split; [discriminate | intros H; exfalso; apply H; left; exact E2].
      * apply Z.eqb_neq in E2. split; [|reflexivity]. intros _ [H|H]; [exact (E2 H) | exact (proj1 IH eq_refl H)].
Qed.

Lemma rg_assoc_last_in {A : Type} : forall t (l : list (Z * A)) a, NoDup (map fst l) -> In (t, a) l -> rg_assoc_last t l = Some a.
Proof.
  induction l as [|[t' a'] r IH]; cbn [rg_assoc_last map fst]; intros a Hnd Hin; [destruct Hin|].
  inversion Hnd as [|? ? Hnotin Hnd']; subst. destruct Hin as [Hin|Hin].
  - inversion Hin; subst. replace (rg_assoc_last t r) with (@None A) by (symmetry; apply rg_assoc_last_none; exact Hnotin).
    rewrite Z.eqb_refl. reflexivity.
  - rewrite (IH a Hnd' Hin). reflexivity.
Qed.

Lemma rg_assoc_last_perm {A : Type} : forall t (l l' : list (Z * A)), NoDup (map fst l) -> Permutation l l' ->
  rg_assoc_last t l' = rg_assoc_last t l.
Proof.
  intros t l l' Hnd Hp.
  assert (Hnd' : NoDup (map fst l')) by (eapply Permutation_NoDup; [apply Permutation_map; exact Hp | exact Hnd]).
  destruct (rg_assoc_last t l) as [a|] eqn:E.
  - apply rg_assoc_last_in; [exact Hnd'|]. eapply Permutation_in; [exact Hp|]. apply rg_assoc_last_some_in. exact E.
  - apply rg_assoc_last_none. intros H. apply (proj1 (rg_assoc_last_none t l) E).
    eapply Permutation_in; [apply Permutation_map; apply Permutation_sym; exact Hp | exact H].
Qed.

Lemma rg_assoc_last_cfrag : forall T t l,
  rg_assoc_last t (map (rg_cfrag T) l) = option_map (rg_canon_val (rg_sub_template T t)) (rg_assoc_last t l).
Proof.
  intros T t. induction l as [|[t' v'] r IH]; [reflexivity|].
  cbn [map rg_assoc_last]. unfold rg_cfrag at 1. cbn [fst snd]. rewrite IH.
  destruct (rg_assoc_last t r); [reflexivity|]. cbn [option_map].
  destruct (t' =? t) eqn:E; [|reflexivity]. apply Z.eqb_eq in E. subst t'. reflexivity.
Qed.

Definition rg_item_tmpl (it : rg_item) : list rg_item := match it with RgElem _ => [] | RgGrp _ sub => sub end.
Definition rg_item_fit_val (it : rg_item) (v : rg_val) : bool :=
  match it, v with
  | RgElem _, RgV b => rg_soh_free b
  | RgGrp _ sub, RgG _ => rg_fits_val sub v
  | _, _ => false
  end.

Lemma rg_find_item_in : forall T it, NoDup (rg_tags T) -> In it T -> rg_find_item T (rg_item_tag it) = Some it.
Proof.
  induction T as [|x r IH]; intros it Hnd Hin; [destruct Hin|].
  cbn [rg_find_item]. cbn [rg_tags map] in Hnd. inversion Hnd as [|? ? Hnotin Hnd']; subst.
  destruct Hin as [Hin|Hin].
  - subst x. rewrite Z.eqb_refl. reflexivity.
  - destruct (rg_item_tag x =? rg_item_tag it) eqn:E.
    + apply Z.eqb_eq in E. exfalso. apply Hnotin. rewrite E. apply in_map. exact Hin.
    + apply IH; assumption.
Qed.

Lemma rg_wf_items_in : forall F d T it, rg_wf_items F d T = true -> In it T -> exists F', rg_wf_item F' it = true.
Proof.
  induction T as [|x r IH]; intros it H Hin; [destruct Hin|].
  cbn [rg_wf_items] in H. apply andb_true_iff in H. destruct H as [H1 H2].
  destruct Hin as [Hin|Hin]; [subst x; eexists; exact H1 | apply IH; assumption].
Qed.

Lemma rg_view_item_canon : forall it F v, rg_wf_item F it = true -> rg_item_fit_val it v = true ->
  rg_view_item it (Some (rg_canon_val (rg_item_tmpl it) v)) = rg_view_item it (Some v).
Proof.
  apply (rg_item_ind' (fun it => forall F v, rg_wf_item F it = true -> rg_item_fit_val it v = true ->
           rg_view_item it (Some (rg_canon_val (rg_item_tmpl it) v)) = rg_view_item it (Some v))).
  - intros t F v _ Hfit. destruct v as [b|g]; [reflexivity | discriminate].
  - intros t sub IH F v Hwf Hfit. destruct v as [b|g]; [discriminate|].
    cbn [rg_item_tmpl rg_item_fit_val] in *. rewrite rg_wf_item_grp in Hwf.
    destruct (rg_wf_tmpl_parts F sub Hwf) as [_ [Hnd [_ Hitems]]].
    rewrite rg_fits_val_grp in Hfit. apply andb_true_iff in Hfit. destruct Hfit as [_ Hents].
    rewrite rg_canon_val_grp. cbn [rg_view_item]. f_equal. rewrite map_map.
    apply map_ext_in. intros e He.
    rewrite forallb_forall in Hents. specialize (Hents e He). unfold rg_entry_fit in Hents.
    apply andb_true_iff in Hents. destruct Hents as [Hents Hfit]. apply andb_true_iff in Hents. destruct Hents as [_ Hnde].
    apply rg_nodupb_NoDup in Hnde.
    apply map_ext_in. intros it' Hit'.
    unfold rg_canon_entry. rewrite rg_assoc_last_cfrag.
    rewrite (rg_assoc_last_perm (rg_item_tag it') e (rg_sort sub e) Hnde (Permutation_sym (rg_sort_perm sub e))).
    destruct (rg_assoc_last (rg_item_tag it') e) as [v'|] eqn:Ea; [|reflexivity]. cbn [option_map].
    pose proof (rg_find_item_in sub it' Hnd Hit') as Hfind.
    assert (Hsub : rg_sub_template sub (rg_item_tag it') = rg_item_tmpl it').
    { unfold rg_sub_template. rewrite Hfind. destruct it'; reflexivity. }
    rewrite Hsub. rewrite Forall_forall in IH.
    destruct (rg_wf_items_in _ _ _ it' Hitems Hit') as [F' HF'].
    apply (IH it' Hit' F' v' HF').
    apply rg_assoc_last_some_in in Ea. rewrite forallb_forall in Hfit. specialize (Hfit _ Ea).
    unfold rg_item_fit in Hfit. cbn [fst snd] in Hfit. rewrite Hfind in Hfit.
    destruct it' as [te|tg sub']; destruct v'; cbn [rg_item_fit_val]; try discriminate; exact Hfit.
Qed.

Theorem rg_view_canon : forall T g, rg_wf_template T = true -> rg_fits T g = true ->
  rg_view T (rg_canon T g) = rg_view T g.
Proof.
  intros T g Hwf Hfit.
  pose proof (rg_view_item_canon (RgGrp 0 T) [] (RgG g)) as H.
  rewrite rg_wf_item_grp in H. specialize (H Hwf Hfit).
  cbn [rg_item_tmpl] in H. rewrite rg_canon_val_grp in H. cbn [rg_view_item] in H.
  inversion H as [H1]. unfold rg_view. rewrite rg_canon_grp. exact H1.
Qed.

(* the spec predicate of the correspondence stream `groups`: what is read back shows, through the template, exactly
   what was written, whatever the order of the Set calls *)
Theorem rg_roundtrip_view : forall T t g rest,
  rg_wf_template T = true -> rg_fits T g = true ->
  (forall f, hd_error rest = Some f -> ~ In (fst f) (rg_all_tags T)) ->
  exists g', rg_read T (rg_write T t g ++ rest) = Ok (g', rest) /\
             length g' = length g /\ rg_view T g' = rg_view T g.
Proof.
  intros T t g rest Hwf Hfit Hrest. exists (rg_canon T g). split; [|split].
  - apply rg_roundtrip_design; assumption.
  - apply rg_canon_length.
  - apply rg_view_canon; assumption.
Qed.

(* ------------------------------------------------------------------------------------------------ *)
(* Totality of Read (C09): no panic, no hang, for every template and every field list                  *)

Definition rg_loop_good (r : res (rg_entry * rg_group * list rg_field)) (n : nat) : Prop :=
  r <> Panic /\ r <> OutOfFuel /\ forall o e rest, r = Ok (o, e, rest) -> (length rest <= n)%nat.

Lemma rg_read_call_good : forall loop T v tv',
  rg_loop_good (loop tv') (length tv') ->
  rg_read_call loop T v tv' <> Panic /\ rg_read_call loop T v tv' <> OutOfFuel /\
  forall g rest, rg_read_call loop T v tv' = Ok (g, rest) -> (length rest <= length tv')%nat.
Proof.
  intros loop T v tv' [Hp [Hf Hl]]. unfold rg_read_call.
  destruct (atoi_total v) as [Ha1 Ha2].
  destruct (atoi v) as [n|e| |]; try congruence.
  - destruct (n =? 0).
    + repeat split; try discriminate. intros g rest H. inversion H; subst. lia.
    + destruct T as [|d r]; [repeat split; discriminate|].
      destruct (loop tv') as [[[o ents] rest0]|e| |]; cbn [bind]; try congruence.
      * destruct (Z.of_nat (length ents) =? n); repeat split; try discriminate.
        intros g rest H. inversion H; subst. eapply Hl. reflexivity.
      * repeat split; discriminate.
  - repeat split; discriminate.
Qed.

Lemma rg_read_loop_good : forall fuel T tv, (length tv <= fuel)%nat -> rg_loop_good (rg_read_loop fuel T tv) (length tv).
Proof.
  induction fuel as [|k IH]; intros T tv Hlen.
  - destruct tv as [|f tv']; [|cbn [length] in Hlen; lia].
    cbn [rg_read_loop]. repeat split; try discriminate. intros o e rest H. inversion H; subst. cbn [length]. lia.
  - destruct tv as [|[t v] tv'].
    + cbn [rg_read_loop]. repeat split; try discriminate. intros o e rest H. inversion H; subst. cbn [length]. lia.
    + cbn [length] in Hlen. rewrite rg_read_loop_cons.
      destruct (rg_find_item T t) as [it|].
      2:{ repeat split; try discriminate. intros o e rest H. inversion H; subst. apply le_n. }
      assert (Hcont : forall val rest1, (length rest1 <= length tv')%nat ->
                rg_loop_good
                  (let* r := rg_read_loop k T rest1 in
                   let '(orph, ents, rest) := r in
                   if rg_is_delimiter T t then Ok ([], ((t, val) :: orph) :: ents, rest)
                   else Ok ((t, val) :: orph, ents, rest)) (length ((t, v) :: tv'))).
      { intros val rest1 Hr. destruct (IH T rest1 ltac:(lia)) as [Hp [Hf Hl]].
        destruct (rg_read_loop k T rest1) as [[[o ents] rest]|e| |]; cbn [bind]; try congruence.
        - specialize (Hl o ents rest eq_refl).
          destruct (rg_is_delimiter T t); repeat split; try discriminate;
            intros o' e' rest' H; inversion H; subst; cbn [length]; unfold rg_field, rg_entry, rg_group in *; lia.
        - repeat split; discriminate. }
      destruct it as [te|tg sub].
      * cbn [bind fst snd]. apply Hcont. lia.
      * destruct (rg_read_call_good (rg_read_loop k sub) sub v tv' (IH sub tv' ltac:(lia))) as [Hp [Hf Hl]].
        destruct (rg_read_call (rg_read_loop k sub) sub v tv') as [[g rest1]|e| |]; cbn [bind fst snd]; try congruence.
        -- apply Hcont. eapply Hl. reflexivity.
        -- repeat split; discriminate.
Qed.

(* GetGroup always hands Read a non-empty slice (a stored field has at least one TagValue) *)
Theorem rg_read_total : forall T tv, tv <> [] -> total_res (rg_read T tv).
Proof.
  intros T [|[t v] tv'] Hne; [congruence|]. unfold rg_read.
  destruct (rg_read_call_good (rg_read_loop (length tv') T) T v tv' (rg_read_loop_good _ T tv' (le_n _))) as [Hp [Hf _]].
  split; assumption.
Qed.

Theorem rg_read_no_panic : forall T tv, tv <> [] -> rg_read T tv <> Panic.
Proof. intros T tv H. exact (proj1 (rg_read_total T tv H)). Qed.

(* the only Panic left in the model: Read on an empty slice (tv[0]); no caller in /repo produces one *)
Lemma rg_read_nil : forall T, rg_read T [] = Panic.
Proof. reflexivity. Qed.

(* Body.GetGroup after a scan never panics or hangs: a lookup that succeeds points inside the field array *)
Theorem rg_body_get_group_total : forall w T t body,
  (forall off l, rg_body_lookup t body = Some (off, l) -> (off < length w)%nat) ->
  total_res (rg_body_get_group w T t body).
Proof.
  intros w T t body Hoff. unfold rg_body_get_group.
  destruct (rg_body_lookup t body) as [[off l]|] eqn:E; [|apply total_err].
  specialize (Hoff off l eq_refl).
  assert (Hne : skipn off w <> []).
  { intros H. apply (f_equal (@length rg_field)) in H. rewrite skipn_length in H. cbn [length] in H. lia. }
  destruct (rg_read_total T (skipn off w) Hne) as [Hp Hf].
  destruct (rg_read T (skipn off w)); cbn [rmap]; split; congruence.
Qed.

(* ------------------------------------------------------------------------------------------------ *)
(* Non-vacuity examples and witnesses for the hypotheses                                               *)

(* FIX 4.4 NewOrderSingle: NoAllocs(78) > NoNestedPartyIDs(539) > NoNestedPartySubIDs(804) *)
Definition rg_ex_tmpl : list rg_item :=
  [RgElem 79; RgElem 661; RgGrp 539 [RgElem 524; RgElem 525; RgGrp 804 [RgElem 545; RgElem 805]]; RgElem 80].
Definition rg_ex_group : rg_group :=
  [ [(79, RgV [97; 49]);
     (539, RgG [ [(524, RgV [112; 49]); (804, RgG [ [(545, RgV [115; 49]); (805, RgV [49])] ])];
                 [(524, RgV [112; 50])] ]);
     (80, RgV [49; 48; 48])];
    [(79, RgV [97; 50]); (539, RgG [])] ].
Definition rg_ex_rest : list rg_field := [(58, [116]); (10, [48; 48; 48])].

Lemma rg_ex_hyps :
  rg_wf_template rg_ex_tmpl = true /\ rg_fits rg_ex_tmpl rg_ex_group = true /\
  rg_ordered rg_ex_tmpl rg_ex_group = true /\
  (forall f, hd_error rg_ex_rest = Some f -> ~ In (fst f) (rg_all_tags rg_ex_tmpl)).
Proof.
  split; [vm_compute; reflexivity|]. split; [vm_compute; reflexivity|]. split; [vm_compute; reflexivity|].
  intros f Hf. inversion Hf; subst f. apply rg_memb_false. vm_compute. reflexivity.
Qed.

Lemma rg_ex_roundtrip :
  rg_read rg_ex_tmpl (rg_write rg_ex_tmpl 78 rg_ex_group ++ rg_ex_rest) = Ok (rg_ex_group, rg_ex_rest).
Proof. vm_compute. reflexivity. Qed.

(* the same group in a message, parsed with a dictionary that declares 78 like the template and 11, 58 plain *)
Definition rg_ex_msgdef : list rg_gdef := [RgDef 11 []; RgDef 58 []; rg_def_of_item (RgGrp 78 rg_ex_tmpl)].
Definition rg_ex_h3 : list rg_field := [(8, [70]); (9, [49]); (35, [68])].
Definition rg_ex_wire : list rg_field :=
  rg_ex_h3 ++ [(11, [105])] ++ rg_write rg_ex_tmpl 78 rg_ex_group ++ [(58, [116])] ++ [(10, [48; 48; 48])].

Lemma rg_ex_dict_hyps :
  length rg_ex_h3 = 3%nat /\
  rg_def_lookup 78 rg_ex_msgdef = Some (rg_def_of_item (RgGrp 78 rg_ex_tmpl)) /\
  (forall x, In x (78 :: rg_all_tags rg_ex_tmpl) -> rg_plain [] [] x) /\
  (forall p, In p ([(11, [105])] ++ [(58, [116])]) -> rg_plain_body_field [] [] (Some rg_ex_msgdef) p) /\
  ~ In 78 (map fst ([(58, [116])] ++ [(10, [48; 48; 48])])) /\
  exists res, rg_scan_message [] [] (Some rg_ex_msgdef) rg_ex_wire = Ok res /\
              rg_body_get_group rg_ex_wire rg_ex_tmpl 78 res = Ok rg_ex_group /\
              rg_body_has 58 res = true /\ rg_body_lookup 78 res = Some (4%nat, 11%nat).
Proof.
  split; [reflexivity|]. split; [vm_compute; reflexivity|]. split.
  { intros x Hx. apply rg_memb_In in Hx. revert x Hx.
    assert (H : forallb (fun x => negb (rg_is_header_field [] x) && negb (rg_is_trailer_field [] x))
                  (78 :: rg_all_tags rg_ex_tmpl) = true) by (vm_compute; reflexivity).
    intros x Hx. apply rg_memb_In in Hx. rewrite forallb_forall in H. specialize (H x Hx).
    apply andb_true_iff in H. destruct H as [Ha Hb]. apply negb_true_iff in Ha. apply negb_true_iff in Hb.
    split; assumption. }
  split.
  { intros p [Hp|[Hp|[]]]; subst p; split; try split; vm_compute; reflexivity. }
  split.
  { apply rg_memb_false. vm_compute. reflexivity. }
  eexists. split; [vm_compute; reflexivity|]. split; [vm_compute; reflexivity|]. split; vm_compute; reflexivity.
Qed.

(* Why nested templates must be disjoint from what may follow them: with the tag 3 both in the nested group and
   behind it in the parent, the nested read takes the parent's 3 for a second entry and the count check fails.
   (Tags pairwise distinct on each level is not enough; no reader could tell the two fields apart.) *)
Lemma rg_ambiguous_template_refuted :
  exists T t g rest,
    rg_nodupb (rg_tags T) = true /\ rg_fits T g = true /\ rg_wf_template T = false /\
    rg_read T (rg_write T t g ++ rest) = Err RG_E_ORDER.
Proof.
  exists [RgElem 1; RgGrp 2 [RgElem 3]; RgElem 3], 100,
         [[(1, RgV [97]); (2, RgG [[(3, RgV [120])]]); (3, RgV [121])]], [(10, [48])].
  vm_compute. repeat split; reflexivity.
Qed.

(* Why entries must start with the delimiter: an entry without it is attached to no group *)
Lemma rg_missing_delimiter_refuted :
  exists T t g rest, rg_wf_template T = true /\ rg_fits T g = false /\
    rg_read T (rg_write T t g ++ rest) = Err RG_E_ORDER.
Proof.
  exists [RgElem 1; RgElem 2], 100, [[(2, RgV [97])]], [(10, [48])]. vm_compute. repeat split; reflexivity.
Qed.
