(* message.go: Message, NewMessage, CopyInto, cook, build, buildWithBodyBytes, formatCheckSum, String/Bytes,
   reverseRoute.  Function-by-function model; lemmas in BuildProofs.v. *)
From Coq Require Import ZArith List Bool.
From QF Require Import Base.Res Base.Bytes Codec.FixInt Codec.TagValue Codec.FieldMap Spec.FixStd Codec.Scan.
Import ListNotations.
Open Scope Z_scope.

(* type Message struct { Header; Trailer; Body; ReceiveTime; rawMessage *bytes.Buffer; bodyBytes []byte; fields []TagValue } *)
Record message : Type := mk_msg {
  m_header : fmap;
  m_body : fmap;
  m_trailer : fmap;
  m_raw : option bytes;        (* rawMessage: nil for a message that was never parsed *)
  m_body_bytes : bytes;        (* nil and empty are not distinguished (only len() is ever taken) *)
  m_fields : list tv           (* the pre-sized field array of the last parse *)
}.

(* func NewMessage() *Message *)
Definition new_message : message :=
  mk_msg (fm_init_with_ordering OrdHeader) (fm_init_with_ordering OrdNormal) (fm_init_with_ordering OrdTrailer) None [] [].

(* func (m *Message) CopyInto(to *Message): to.rawMessage is NOT touched *)
Definition msg_copy_into (m : message) (to : message) : message :=
  mk_msg (fm_copy_into (m_header m) (m_header to))
         (fm_copy_into (m_body m) (m_body to))
         (fm_copy_into (m_trailer m) (m_trailer to))
         (m_raw to)
         (m_body_bytes m)
         (map (fun f => tv_init (tv_tag f) (tv_value f)) (m_fields m)).

(* func formatCheckSum(value int) string { return fmt.Sprintf("%03d", value) } *)
Definition format_check_sum (value : Z) : bytes := itoa_pad 3 value.

(* func (m *Message) cook(bodyLen, bodyTotal int): BodyLength is set BEFORE the header total is taken *)
Definition msg_cook (m : message) (body_len body_total : Z) : message :=
  let body_length := fm_length (m_header m) + body_len + fm_length (m_trailer m) in
  let h := fm_set_int (m_header m) TAG_BODY_LENGTH body_length in
  let check_sum := go_rem (fm_total h + body_total + fm_total (m_trailer m)) 256 in
  let t := fm_set_string (m_trailer m) TAG_CHECK_SUM (format_check_sum check_sum) in
  mk_msg h (m_body m) t (m_raw m) (m_body_bytes m) (m_fields m).

(* func (m *Message) build() []byte.  The message is mutated: 9 and 10 are set by cook and the three tag lists are
   sorted in place by write (sort.Sort on the shared backing array). *)
Definition msg_build (m : message) : message * bytes :=
  let c := msg_cook m (fm_length (m_body m)) (fm_total (m_body m)) in
  (mk_msg (fm_sort_in_place (m_header c)) (fm_sort_in_place (m_body c)) (fm_sort_in_place (m_trailer c))
          (m_raw c) (m_body_bytes c) (m_fields c),
   fm_write (m_header c) ++ fm_write (m_body c) ++ fm_write (m_trailer c)).

(* func (m *Message) buildWithBodyBytes(bodyBytes []byte) []byte: the body map is neither read nor sorted *)
Definition msg_build_with_body_bytes (m : message) (body_bytes : bytes) : message * bytes :=
  let c := msg_cook m (len body_bytes) (bytes_total body_bytes) in
  (mk_msg (fm_sort_in_place (m_header c)) (m_body c) (fm_sort_in_place (m_trailer c))
          (m_raw c) (m_body_bytes c) (m_fields c),
   fm_write (m_header c) ++ body_bytes ++ fm_write (m_trailer c)).

(* func (m *Message) Bytes() / String(): the raw buffer of a parsed message, otherwise build() *)
Definition msg_bytes (m : message) : message * bytes :=
  match m_raw m with
  | Some r => (m, r)
  | None => msg_build m
  end.

(* func (m *Message) reverseRoute() *Message *)
Definition BEGIN_STRING_FIX40 : bytes := [70; 73; 88; 46; 52; 46; 48].   (* "FIX.4.0" *)
Definition rr_copy (m : message) (rev : message) (src dest : Z) : message :=
  match fm_get_bytes (m_header m) src with
  | Ok v => match v with
            | [] => rev
            | _ => mk_msg (fm_set_bytes (m_header rev) dest v) (m_body rev) (m_trailer rev) (m_raw rev) (m_body_bytes rev) (m_fields rev)
            end
  | _ => rev
  end.
Definition msg_reverse_route (m : message) : message :=
  let r := new_message in
  let r := rr_copy m r 49 56 in     (* SenderCompID -> TargetCompID *)
  let r := rr_copy m r 50 57 in     (* SenderSubID -> TargetSubID *)
  let r := rr_copy m r 142 143 in   (* SenderLocationID -> TargetLocationID *)
  let r := rr_copy m r 56 49 in
  let r := rr_copy m r 57 50 in
  let r := rr_copy m r 143 142 in
  let r := rr_copy m r 115 128 in   (* OnBehalfOfCompID -> DeliverToCompID *)
  let r := rr_copy m r 116 129 in   (* OnBehalfOfSubID -> DeliverToSubID *)
  let r := rr_copy m r 128 115 in
  let r := rr_copy m r 129 116 in
  match fm_get_bytes (m_header m) TAG_BEGIN_STRING with
  | Ok bs => if beq_bytes bs BEGIN_STRING_FIX40 then r
             else let r := rr_copy m r 144 145 in  (* OnBehalfOfLocationID -> DeliverToLocationID *)
                  rr_copy m r 145 144
  | _ => r
  end.

(* ---------- operation programs of C10 (type c10_op of Codec/Scan.v) run on the model ---------- *)
Definition msg_sec (m : message) (s : c10_sec) : fmap :=
  match s with SecHeader => m_header m | SecBody => m_body m | SecTrailer => m_trailer m end.
Definition msg_upd_sec (m : message) (s : c10_sec) (f : fmap) : message :=
  match s with
  | SecHeader => mk_msg f (m_body m) (m_trailer m) (m_raw m) (m_body_bytes m) (m_fields m)
  | SecBody => mk_msg (m_header m) f (m_trailer m) (m_raw m) (m_body_bytes m) (m_fields m)
  | SecTrailer => mk_msg (m_header m) (m_body m) f (m_raw m) (m_body_bytes m) (m_fields m)
  end.

(* RepeatingGroup.Write() for a group whose entries hold plain fields, each entry listed in template order:
   the NumInGroup field followed by the entries' fields *)
Definition group_write_flat (t : Z) (entries : list (list (Z * bytes))) : field :=
  (tv_init t (itoa (Z.of_nat (length entries))), map (fun f => tv_init (fst f) (snd f)) (concat entries)).

Definition msg_run_op (m : message) (o : c10_op) : message :=
  match o with
  | OpSet s t v => msg_upd_sec m s (fm_set_bytes (msg_sec m s) t v)
  | OpRemove s t => msg_upd_sec m s (fm_remove (msg_sec m s) t)
  | OpClear s => msg_upd_sec m s (fm_clear (msg_sec m s))
  | OpSetGroup s t _ entries => msg_upd_sec m s (fm_set_group (msg_sec m s) t (group_write_flat t entries))
  | OpCopy junk =>
      let to := fold_left (fun x j => msg_upd_sec x (fst (fst j)) (fm_set_bytes (msg_sec x (fst (fst j))) (snd (fst j)) (snd j)))
                          junk new_message in
      msg_copy_into m to
  | OpBuild => fst (msg_build m)
  end.
Definition msg_run_ops (ops : list c10_op) : message := fold_left msg_run_op ops new_message.
