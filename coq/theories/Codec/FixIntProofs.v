(* Lemmas about the model of fix_int.go. *)
From Coq Require Import ZArith List Bool Lia ZifyBool.
From QF Require Import Base.Res Base.Bytes Codec.FixInt.
From QF Require Export Codec.FixIntSpec.
Import ListNotations.
Open Scope Z_scope.

Lemma digit_test (c : Z) : (c <? CH0) || (c >? CH9) = negb (is_digit c).
Proof. unfold is_digit, CH0, CH9. lia. Qed.

Lemma parse_uint_loop_digits : forall d n, all_digits d = true -> exists z, parse_uint_loop d n = Ok z.
Proof.
  induction d as [|c r IH]; intros n H; cbn in *.
  - eauto.
  - apply andb_true_iff in H as [Hc Hr]. rewrite digit_test, Hc. cbn. apply IH; exact Hr.
Qed.

Lemma parse_uint_loop_nondigits : forall d n, all_digits d = false -> parse_uint_loop d n = Err E_FORMAT.
Proof.
  induction d as [|c r IH]; intros n H; cbn in *.
  - discriminate.
  - rewrite digit_test. destruct (is_digit c) eqn:Hc; cbn in *; [apply IH; exact H | reflexivity].
Qed.

Lemma parse_uint_total : forall d, total_res (parse_uint d).
Proof.
  intros d. destruct d as [|c r]; [apply total_err|].
  unfold parse_uint. destruct (all_digits (c :: r)) eqn:H.
  - destruct (parse_uint_loop_digits (c :: r) 0 H) as [z Hz]. rewrite Hz. apply total_ok.
  - rewrite (parse_uint_loop_nondigits _ 0 H). apply total_err.
Qed.

Lemma atoi_long_total : forall d, total_res (atoi_long d).
Proof.
  intros d. unfold atoi_long.
  destruct (negb (atoi_long_charset_ok d)); [apply total_err|].
  destruct d as [|c r]; [apply total_err|].
  destruct (c =? MINUS).
  - destruct r; [apply total_err|]. destruct (in_int64b _); [apply total_ok | apply total_err].
  - destruct (in_int64b _); [apply total_ok | apply total_err].
Qed.

Lemma atoi_total : forall d, total_res (atoi d).
Proof.
  intros [|c r]; [apply total_err|]. cbn [atoi].
  destruct (Nat.ltb MAX_FAST_DIGITS (length (c :: r))); [apply atoi_long_total|].
  destruct (c =? MINUS).
  - pose proof (parse_uint_total r) as [H1 H2].
    destruct (parse_uint r); try congruence; [apply total_ok | apply total_err].
  - apply parse_uint_total.
Qed.

Lemma atoi_long_rejects_nongrammar : forall d, int_grammar d = false -> exists e, atoi_long d = Err e.
Proof.
  intros [|c r] H; unfold atoi_long.
  - cbn. eauto.
  - cbn [int_grammar] in H. cbn [atoi_long_charset_ok].
    destruct (c =? MINUS) eqn:Hm.
    + destruct r as [|c2 r2].
      * rewrite orb_true_r. cbn. eauto.
      * cbn [length Nat.eqb negb andb] in H. unfold all_digits in H. rewrite H.
        rewrite andb_false_r. cbn. eauto.
    + unfold all_digits in H. cbn [forallb] in H. rewrite orb_false_r. rewrite H. cbn. eauto.
Qed.

Lemma atoi_rejects_nongrammar : forall d, int_grammar d = false -> exists e, atoi d = Err e.
Proof.
  intros [|c r] H; cbn [atoi]; [eauto|].
  destruct (Nat.ltb MAX_FAST_DIGITS (length (c :: r))); [apply atoi_long_rejects_nongrammar; exact H|].
  cbn [int_grammar] in H.
  destruct (c =? MINUS) eqn:Hm.
  - destruct r as [|c2 r2]; [cbn; eauto|].
    cbn [length Nat.eqb negb andb] in H. unfold parse_uint.
    rewrite (parse_uint_loop_nondigits _ 0 H). eauto.
  - unfold parse_uint. rewrite (parse_uint_loop_nondigits _ 0 H). eauto.
Qed.

(* ------------------------------------------------------------------ *)
(* value of accepted texts                                             *)

Lemma is_digit_range (c : Z) : is_digit c = true -> 0 <= c - CH0 <= 9.
Proof. unfold is_digit, CH0, CH9. lia. Qed.

Lemma wrap64_small (z : Z) : in_int64 z -> wrap64 z = z.
Proof.
  unfold in_int64, wrap64, two63, two64. intros H.
  rewrite Z.mod_small; lia.
Qed.

Lemma dec_value_bounds : forall d n, all_digits d = true -> 0 <= n ->
  n * 10 ^ Z.of_nat (length d) <= dec_value d n < (n + 1) * 10 ^ Z.of_nat (length d).
Proof.
  induction d as [|c r IH]; intros n Hd Hn.
  - cbn [length dec_value]. change (10 ^ Z.of_nat 0) with 1. lia.
  - cbn [all_digits forallb] in Hd. apply andb_true_iff in Hd as [Hc Hr].
    apply is_digit_range in Hc. cbn [dec_value length].
    rewrite Nat2Z.inj_succ, Z.pow_succ_r by lia.
    assert (Hp : 0 < 10 ^ Z.of_nat (length r)) by (apply Z.pow_pos_nonneg; lia).
    specialize (IH (n * 10 + (c - CH0)) Hr ltac:(lia)).
    nia.
Qed.

Lemma dec_value_nonneg : forall d, all_digits d = true -> 0 <= dec_value d 0.
Proof.
  intros d H. pose proof (dec_value_bounds d 0 H ltac:(lia)) as Hbd. lia.
Qed.

(* the fast path never wraps: at most 18 digits *)
Lemma parse_uint_loop_value : forall d n, all_digits d = true -> 0 <= n ->
  (n + 1) * 10 ^ Z.of_nat (length d) <= 10 ^ 18 ->
  parse_uint_loop d n = Ok (dec_value d n).
Proof.
  induction d as [|c r IH]; intros n Hd Hn Hb.
  - reflexivity.
  - cbn [all_digits forallb] in Hd. apply andb_true_iff in Hd as [Hc Hr].
    cbn [parse_uint_loop dec_value]. rewrite digit_test, Hc. cbn [negb].
    apply is_digit_range in Hc.
    cbn [length] in Hb. rewrite Nat2Z.inj_succ, Z.pow_succ_r in Hb by lia.
    assert (Hp : 0 < 10 ^ Z.of_nat (length r)) by (apply Z.pow_pos_nonneg; lia).
    assert (Hsmall : (n + 1) * 10 <= 10 ^ 18) by nia.
    rewrite wrap64_small.
    + apply IH; [exact Hr | lia | nia].
    + unfold in_int64, two63. change (10 ^ 18) with 1000000000000000000 in Hsmall. lia.
Qed.

Lemma pow10_le_18 (k : nat) : (k <= 18)%nat -> 10 ^ Z.of_nat k <= 10 ^ 18.
Proof. intros H. apply Z.pow_le_mono_r; lia. Qed.

Lemma parse_uint_value : forall d, all_digits d = true -> d <> [] -> (length d <= 18)%nat ->
  parse_uint d = Ok (dec_value d 0) /\ 0 <= dec_value d 0 < 10 ^ 18.
Proof.
  intros d Hd Hne Hl. split.
  - destruct d as [|c r]; [congruence|]. unfold parse_uint.
    apply parse_uint_loop_value; [exact Hd | lia |].
    pose proof (pow10_le_18 _ Hl). lia.
  - pose proof (dec_value_bounds d 0 Hd ltac:(lia)) as Hbd.
    pose proof (pow10_le_18 _ Hl). lia.
Qed.

Lemma int_grammar_cases : forall c r, int_grammar (c :: r) = true ->
  (c = MINUS /\ r <> [] /\ all_digits r = true) \/ (c <> MINUS /\ all_digits (c :: r) = true).
Proof.
  intros c r H. cbn [int_grammar] in H. destruct (c =? MINUS) eqn:Hm.
  - left. apply andb_true_iff in H as [H1 H2]. split; [lia|]. split; [|exact H2].
    destruct r; [discriminate | discriminate].
  - right. split; [lia | exact H].
Qed.

Lemma atoi_fast_value : forall d, int_grammar d = true -> (length d <= 18)%nat ->
  atoi d = Ok (int_value d) /\ - 10 ^ 18 < int_value d < 10 ^ 18.
Proof.
  intros [|c r] Hg Hl; [discriminate|].
  cbn [atoi]. replace (Nat.ltb MAX_FAST_DIGITS (length (c :: r))) with false
    by (symmetry; apply Nat.ltb_ge; exact Hl).
  destruct (int_grammar_cases c r Hg) as [(Hc & Hne & Hd) | (Hc & Hd)].
  - subst c. cbn [int_value]. rewrite Z.eqb_refl.
    cbn [length] in Hl.
    destruct (parse_uint_value r Hd Hne ltac:(lia)) as [Hp Hb]. rewrite Hp.
    split; [|lia]. f_equal. rewrite wrap64_small; [lia|].
    unfold in_int64, two63. change (10 ^ 18) with 1000000000000000000 in Hb. lia.
  - cbn [int_value]. replace (c =? MINUS) with false by lia.
    destruct (parse_uint_value (c :: r) Hd ltac:(discriminate) Hl) as [Hp Hb].
    split; [exact Hp | lia].
Qed.

Lemma atoi_long_charset_of_grammar : forall d, int_grammar d = true -> atoi_long_charset_ok d = true.
Proof.
  intros [|c r] Hg; [reflexivity|].
  destruct (int_grammar_cases c r Hg) as [(Hc & Hne & Hd) | (Hc & Hd)]; cbn [atoi_long_charset_ok].
  - subst c. rewrite Z.eqb_refl, orb_true_r. exact Hd.
  - cbn [all_digits forallb] in Hd. apply andb_true_iff in Hd as [H1 H2]. rewrite H1. exact H2.
Qed.

Lemma atoi_long_value : forall d, int_grammar d = true ->
  atoi_long d = if in_int64b (int_value d) then Ok (int_value d) else Err E_RANGE.
Proof.
  intros d Hg. unfold atoi_long. rewrite (atoi_long_charset_of_grammar d Hg). cbn [negb].
  destruct d as [|c r]; [discriminate|].
  destruct (int_grammar_cases c r Hg) as [(Hc & Hne & Hd) | (Hc & Hd)]; cbn [int_value].
  - subst c. rewrite Z.eqb_refl. destruct r; [congruence | reflexivity].
  - replace (c =? MINUS) with false by lia. reflexivity.
Qed.

(* FIXInt.Read on every grammatical text: its value when that is an int64, an error otherwise *)
Lemma atoi_grammar_value : forall d, int_grammar d = true ->
  atoi d = if in_int64b (int_value d) then Ok (int_value d) else Err E_RANGE.
Proof.
  intros d Hg. destruct (Nat.leb (length d) 18) eqn:Hl.
  - apply Nat.leb_le in Hl. destruct (atoi_fast_value d Hg Hl) as [H1 H2]. rewrite H1.
    replace (in_int64b (int_value d)) with true; [reflexivity|].
    unfold in_int64b, two63. change (10 ^ 18) with 1000000000000000000 in H2. lia.
  - apply Nat.leb_gt in Hl. destruct d as [|c r]; [discriminate|]. cbn [atoi].
    replace (Nat.ltb MAX_FAST_DIGITS (length (c :: r))) with true
      by (symmetry; apply Nat.ltb_lt; exact Hl).
    apply atoi_long_value; exact Hg.
Qed.

Lemma atoi_short_value : forall d, int_grammar d = true -> (length d <= 18)%nat -> atoi d = Ok (int_value d).
Proof. intros d Hg Hl. apply (atoi_fast_value d Hg Hl). Qed.

Lemma atoi_long_accepts_iff : forall d, int_grammar d = true -> (18 < length d)%nat ->
  (atoi d = Ok (int_value d) <-> in_int64 (int_value d)) /\
  (~ in_int64 (int_value d) -> atoi d = Err E_RANGE).
Proof.
  intros d Hg _. rewrite (atoi_grammar_value d Hg).
  unfold in_int64. destruct (in_int64b (int_value d)) eqn:Hr; unfold in_int64b in Hr.
  - split; [split; [lia | reflexivity] | lia].
  - split; [split; [discriminate | lia] | reflexivity].
Qed.

(* accept <=> grammar and range, for every byte string *)
Lemma atoi_spec : forall d, atoi d = match int_read_spec d with Some z => Ok z | None => atoi d end
  /\ (int_read_spec d = None -> exists e, atoi d = Err e).
Proof.
  intros d. unfold int_read_spec. destruct (int_grammar d) eqn:Hg; cbn [andb].
  - rewrite (atoi_grammar_value d Hg). destruct (in_int64b (int_value d)); split; eauto; discriminate.
  - split; [reflexivity|]. intros _. apply atoi_rejects_nongrammar; exact Hg.
Qed.

Lemma atoi_ok_iff : forall d z, atoi d = Ok z <-> int_read_spec d = Some z.
Proof.
  intros d z. unfold int_read_spec. destruct (int_grammar d) eqn:Hg; cbn [andb].
  - rewrite (atoi_grammar_value d Hg). destruct (in_int64b (int_value d)); split; congruence.
  - destruct (atoi_rejects_nongrammar d Hg) as [e He]. rewrite He. split; discriminate.
Qed.

(* ------------------------------------------------------------------ *)
(* itoa (strconv.AppendInt through Coq's decimal library) and the round trips *)
From Coq Require Import Decimal DecimalZ DecimalPos DecimalN DecimalFacts.

Lemma of_uint_acc_dec_value : forall u acc,
  Z.pos (Pos.of_uint_acc u acc) = dec_value (uint_bytes u) (Z.pos acc).
Proof.
  induction u; intros acc; cbn [Pos.of_uint_acc uint_bytes dec_value]; try reflexivity;
    rewrite IHu; f_equal; unfold CH0; lia.
Qed.

Lemma of_uint_dec_value : forall u, Z.of_uint u = dec_value (uint_bytes u) 0.
Proof.
  unfold Z.of_uint.
  induction u; cbn [Pos.of_uint uint_bytes dec_value].
  - reflexivity.
  - rewrite IHu. reflexivity.
  - cbn [Z.of_N]. rewrite of_uint_acc_dec_value. reflexivity.
  - cbn [Z.of_N]. rewrite of_uint_acc_dec_value. reflexivity.
  - cbn [Z.of_N]. rewrite of_uint_acc_dec_value. reflexivity.
  - cbn [Z.of_N]. rewrite of_uint_acc_dec_value. reflexivity.
  - cbn [Z.of_N]. rewrite of_uint_acc_dec_value. reflexivity.
  - cbn [Z.of_N]. rewrite of_uint_acc_dec_value. reflexivity.
  - cbn [Z.of_N]. rewrite of_uint_acc_dec_value. reflexivity.
  - cbn [Z.of_N]. rewrite of_uint_acc_dec_value. reflexivity.
  - cbn [Z.of_N]. rewrite of_uint_acc_dec_value. reflexivity.
Qed.

Lemma uint_bytes_digits : forall u, all_digits (uint_bytes u) = true.
Proof. induction u; cbn; auto. Qed.

Lemma uint_bytes_nonnil : forall u, u <> Nil -> uint_bytes u <> [].
Proof. destruct u; cbn; congruence. Qed.

Lemma to_int_cases : forall z, exists u, u <> Nil /\
  ((0 <= z /\ Z.to_int z = Pos u) \/ (z < 0 /\ Z.to_int z = Neg u)).
Proof.
  intros [|p|p]; cbn [Z.to_int].
  - exists zero. split; [discriminate | left; split; [lia | reflexivity]].
  - exists (Pos.to_uint p). split; [apply Unsigned.to_uint_nonnil | left; split; [lia | reflexivity]].
  - exists (Pos.to_uint p). split; [apply Unsigned.to_uint_nonnil | right; split; [lia | reflexivity]].
Qed.

Lemma digits_head_not_minus : forall c r, all_digits (c :: r) = true -> (c =? MINUS) = false.
Proof.
  intros c r H. cbn in H. apply andb_true_iff in H as [H _]. unfold is_digit, CH0, CH9, MINUS in *. lia.
Qed.

Lemma itoa_int_grammar : forall z, int_grammar (itoa z) = true.
Proof.
  intros z. unfold itoa. destruct (to_int_cases z) as (u & Hu & [[_ E] | [_ E]]); rewrite E.
  - pose proof (uint_bytes_digits u) as Hd. pose proof (uint_bytes_nonnil u Hu) as Hn.
    destruct (uint_bytes u) as [|c r] eqn:Eb; [congruence|].
    cbn [int_grammar]. rewrite (digits_head_not_minus c r Hd). exact Hd.
  - cbn [int_grammar]. rewrite Z.eqb_refl.
    pose proof (uint_bytes_nonnil u Hu) as Hn. rewrite uint_bytes_digits, andb_true_r.
    destruct (uint_bytes u); [congruence | reflexivity].
Qed.

Lemma int_value_itoa : forall z, int_value (itoa z) = z.
Proof.
  intros z. rewrite <- (DecimalZ.of_to z) at 2. unfold itoa.
  destruct (to_int_cases z) as (u & Hu & [[_ E] | [_ E]]); rewrite E; cbn [Z.of_int].
  - pose proof (uint_bytes_digits u) as Hd. pose proof (uint_bytes_nonnil u Hu) as Hn.
    rewrite of_uint_dec_value.
    destruct (uint_bytes u) as [|c r] eqn:Eb; [congruence|].
    cbn [int_value]. rewrite (digits_head_not_minus c r Hd). reflexivity.
  - cbn [int_value]. rewrite Z.eqb_refl, of_uint_dec_value. reflexivity.
Qed.

Lemma itoa_nonempty : forall z, itoa z <> [].
Proof.
  intros z H. pose proof (itoa_int_grammar z) as G. rewrite H in G. discriminate.
Qed.

Lemma itoa_all_digits_nonneg : forall z, 0 <= z -> all_digits (itoa z) = true.
Proof.
  intros z Hz. unfold itoa. destruct (to_int_cases z) as (u & Hu & [[_ E] | [Hneg E]]); rewrite E.
  - apply uint_bytes_digits.
  - lia.
Qed.

Lemma itoa_bytes : forall z c, In c (itoa z) -> c = MINUS \/ is_digit c = true.
Proof.
  intros z c Hin. unfold itoa in Hin.
  assert (Hd : forall u, In c (uint_bytes u) -> is_digit c = true).
  { intros u Hu. pose proof (uint_bytes_digits u) as A. unfold all_digits in A.
    rewrite forallb_forall in A. apply A; exact Hu. }
  destruct (Z.to_int z) as [u|u].
  - right. eapply Hd; exact Hin.
  - destruct Hin as [Hc | Hin]; [left; symmetry; exact Hc | right; eapply Hd; exact Hin].
Qed.

(* write then read *)
Lemma atoi_itoa : forall z, in_int64 z -> atoi (itoa z) = Ok z.
Proof.
  intros z Hz. rewrite (atoi_grammar_value _ (itoa_int_grammar z)), int_value_itoa.
  replace (in_int64b z) with true; [reflexivity|].
  unfold in_int64 in Hz. unfold in_int64b. lia.
Qed.

(* read then write: canonical texts are reproduced *)
Fixpoint bytes_uint (s : bytes) : Decimal.uint :=
  match s with
  | [] => Nil
  | c :: r =>
      let u := bytes_uint r in
      if c =? 48 then D0 u else if c =? 49 then D1 u else if c =? 50 then D2 u else if c =? 51 then D3 u
      else if c =? 52 then D4 u else if c =? 53 then D5 u else if c =? 54 then D6 u else if c =? 55 then D7 u
      else if c =? 56 then D8 u else D9 u
  end.

Lemma uint_bytes_bytes_uint : forall s, all_digits s = true -> uint_bytes (bytes_uint s) = s.
Proof.
  induction s as [|c r IH]; intros H; [reflexivity|].
  cbn [all_digits forallb] in H. apply andb_true_iff in H as [Hc Hr].
  cbn [bytes_uint]. specialize (IH Hr).
  unfold is_digit, CH0, CH9 in Hc.
  destruct (c =? 48) eqn:E0; [cbn [uint_bytes]; rewrite IH; f_equal; lia|].
  destruct (c =? 49) eqn:E1; [cbn [uint_bytes]; rewrite IH; f_equal; lia|].
  destruct (c =? 50) eqn:E2; [cbn [uint_bytes]; rewrite IH; f_equal; lia|].
  destruct (c =? 51) eqn:E3; [cbn [uint_bytes]; rewrite IH; f_equal; lia|].
  destruct (c =? 52) eqn:E4; [cbn [uint_bytes]; rewrite IH; f_equal; lia|].
  destruct (c =? 53) eqn:E5; [cbn [uint_bytes]; rewrite IH; f_equal; lia|].
  destruct (c =? 54) eqn:E6; [cbn [uint_bytes]; rewrite IH; f_equal; lia|].
  destruct (c =? 55) eqn:E7; [cbn [uint_bytes]; rewrite IH; f_equal; lia|].
  destruct (c =? 56) eqn:E8; [cbn [uint_bytes]; rewrite IH; f_equal; lia|].
  cbn [uint_bytes]; rewrite IH; f_equal; lia.
Qed.

Lemma bytes_uint_head0 : forall c r, (c =? CH0) = true -> bytes_uint (c :: r) = D0 (bytes_uint r).
Proof. intros c r H. cbn [bytes_uint]. unfold CH0 in H. rewrite H. reflexivity. Qed.

Lemma unorm_nonzero_head : forall c r, is_digit c = true -> (c =? CH0) = false ->
  unorm (bytes_uint (c :: r)) = bytes_uint (c :: r).
Proof.
  intros c r Hd H0. cbn [bytes_uint]. unfold CH0 in H0. rewrite H0.
  destruct (c =? 49); [reflexivity|]. destruct (c =? 50); [reflexivity|]. destruct (c =? 51); [reflexivity|].
  destruct (c =? 52); [reflexivity|]. destruct (c =? 53); [reflexivity|]. destruct (c =? 54); [reflexivity|].
  destruct (c =? 55); [reflexivity|]. destruct (c =? 56); [reflexivity|]. reflexivity.
Qed.

Lemma itoa_canonical : forall s, canonical_int s = true -> itoa (int_value s) = s.
Proof.
  intros [|c r] H; [discriminate|]. cbn [canonical_int int_value] in *.
  destruct (c =? MINUS) eqn:Hm.
  - destruct r as [|c2 r2]; [discriminate|]. apply andb_true_iff in H as [H0 Hd].
    apply negb_true_iff in H0.
    assert (Hc2 : is_digit c2 = true) by (cbn in Hd; apply andb_true_iff in Hd; tauto).
    rewrite <- (uint_bytes_bytes_uint (c2 :: r2) Hd) at 1.
    rewrite <- of_uint_dec_value.
    change (- Z.of_uint (bytes_uint (c2 :: r2))) with (Z.of_int (Neg (bytes_uint (c2 :: r2)))).
    unfold itoa. rewrite DecimalZ.to_of. cbn [norm].
    assert (Hnz : nzhead (bytes_uint (c2 :: r2)) = bytes_uint (c2 :: r2)).
    { cbn [bytes_uint]. unfold CH0 in H0. rewrite H0.
      destruct (c2 =? 49); [reflexivity|]. destruct (c2 =? 50); [reflexivity|]. destruct (c2 =? 51); [reflexivity|].
      destruct (c2 =? 52); [reflexivity|]. destruct (c2 =? 53); [reflexivity|]. destruct (c2 =? 54); [reflexivity|].
      destruct (c2 =? 55); [reflexivity|]. destruct (c2 =? 56); [reflexivity|]. reflexivity. }
    rewrite Hnz.
    assert (Hneg : match bytes_uint (c2 :: r2) with
                   | Nil => Pos zero | D0 u => Neg (D0 u) | D1 u => Neg (D1 u) | D2 u => Neg (D2 u)
                   | D3 u => Neg (D3 u) | D4 u => Neg (D4 u) | D5 u => Neg (D5 u) | D6 u => Neg (D6 u)
                   | D7 u => Neg (D7 u) | D8 u => Neg (D8 u) | D9 u => Neg (D9 u) end
                   = Neg (bytes_uint (c2 :: r2))).
    { cbn [bytes_uint]. unfold CH0 in H0. rewrite H0.
      destruct (c2 =? 49); [reflexivity|]. destruct (c2 =? 50); [reflexivity|]. destruct (c2 =? 51); [reflexivity|].
      destruct (c2 =? 52); [reflexivity|]. destruct (c2 =? 53); [reflexivity|]. destruct (c2 =? 54); [reflexivity|].
      destruct (c2 =? 55); [reflexivity|]. destruct (c2 =? 56); [reflexivity|]. reflexivity. }
    rewrite Hneg. rewrite (uint_bytes_bytes_uint _ Hd). f_equal. lia.
  - apply andb_true_iff in H as [Hd H0].
    assert (Hc : is_digit c = true) by (cbn in Hd; apply andb_true_iff in Hd; tauto).
    rewrite <- (uint_bytes_bytes_uint (c :: r) Hd) at 1.
    rewrite <- of_uint_dec_value.
    change (Z.of_uint (bytes_uint (c :: r))) with (Z.of_int (Pos (bytes_uint (c :: r)))).
    unfold itoa. rewrite DecimalZ.to_of. cbn [norm].
    assert (Hun : unorm (bytes_uint (c :: r)) = bytes_uint (c :: r)).
    { destruct (c =? CH0) eqn:E0.
      - cbn [negb orb] in H0. destruct r; [|discriminate].
        rewrite bytes_uint_head0 by exact E0. reflexivity.
      - apply unorm_nonzero_head; assumption. }
    rewrite Hun. apply uint_bytes_bytes_uint; exact Hd.
Qed.

Lemma canonical_is_grammar : forall s, canonical_int s = true -> int_grammar s = true.
Proof.
  intros [|c r] H; [discriminate|]. cbn [canonical_int int_grammar] in *.
  destruct (c =? MINUS).
  - destruct r as [|c2 r2]; [discriminate|]. apply andb_true_iff in H as [_ H]. rewrite H. reflexivity.
  - apply andb_true_iff in H as [H _]. exact H.
Qed.

Lemma nzhead_not_D0 : forall u v, nzhead u <> D0 v.
Proof. induction u; intros v; cbn [nzhead]; try discriminate. apply IHu. Qed.

Lemma unorm_fix_head : forall v, unorm (D0 v) = D0 v -> v = Nil.
Proof.
  intros v H. unfold unorm in H. cbn [nzhead] in H.
  destruct (nzhead v) eqn:E; try discriminate H.
  - injection H as H. symmetry. exact H.
  - exfalso. eapply nzhead_not_D0. exact E.
Qed.

Lemma canonical_pos_head : forall c r, all_digits (c :: r) = true -> (c =? CH0) = false ->
  canonical_int (c :: r) = true.
Proof.
  intros c r Hd H0. cbn [canonical_int]. rewrite (digits_head_not_minus c r Hd), Hd, H0. reflexivity.
Qed.

Lemma canonical_neg_head : forall c r, all_digits (c :: r) = true -> (c =? CH0) = false ->
  canonical_int (MINUS :: c :: r) = true.
Proof.
  intros c r Hd H0. cbn [canonical_int]. rewrite Z.eqb_refl, Hd, H0. reflexivity.
Qed.

Lemma to_int_norm_fix : forall z, norm (Z.to_int z) = Z.to_int z.
Proof. intros z. rewrite <- DecimalZ.to_of, DecimalZ.of_to. reflexivity. Qed.

(* what FIXInt.Write produces is canonical *)
Lemma itoa_is_canonical : forall z, canonical_int (itoa z) = true.
Proof.
  intros z. pose proof (to_int_norm_fix z) as Hfix. unfold itoa.
  destruct (to_int_cases z) as (u & Hu & [[_ E] | [Hneg E]]); rewrite E in *.
  - cbn [norm] in Hfix. injection Hfix as Hfix.
    pose proof (uint_bytes_digits u) as Hd.
    destruct u; try congruence;
      try (cbn [uint_bytes] in *; apply canonical_pos_head; [exact Hd | reflexivity]).
    rewrite (unorm_fix_head u Hfix). reflexivity.
  - pose proof (uint_bytes_digits u) as Hd.
    destruct u; try congruence;
      try (cbn [uint_bytes] in *; apply canonical_neg_head; [exact Hd | reflexivity]).
    (* Neg (D0 u) is not a normal form of a negative number *)
    exfalso. cbn [norm nzhead] in Hfix.
    destruct (nzhead u) eqn:En; try discriminate Hfix.
    eapply nzhead_not_D0. exact En.
Qed.

(* ------------------------------------------------------------------ *)
(* positional notation: general facts used by the timestamp and decimal lemmas *)

Lemma dec_value_app : forall a b n, dec_value (a ++ b) n = dec_value b (dec_value a n).
Proof. induction a as [|c r IH]; intros b n; [reflexivity|]. cbn [app dec_value]. apply IH. Qed.

Lemma dec_value_shift : forall s n, dec_value s n = n * 10 ^ Z.of_nat (length s) + dec_value s 0.
Proof.
  induction s as [|c r IH]; intros n.
  - cbn [dec_value length]. change (10 ^ Z.of_nat 0) with 1. lia.
  - cbn [dec_value length]. rewrite (IH (n * 10 + (c - CH0))), (IH (0 * 10 + (c - CH0))).
    rewrite Nat2Z.inj_succ, Z.pow_succ_r by lia. ring.
Qed.

Lemma all_digits_app : forall a b, all_digits (a ++ b) = all_digits a && all_digits b.
Proof. intros a b. unfold all_digits. apply forallb_app. Qed.

Lemma all_digits_repeat0 : forall k, all_digits (repeat CH0 k) = true.
Proof. induction k as [|k IH]; [reflexivity|]. cbn [repeat all_digits forallb]. exact IH. Qed.

Lemma dec_value_repeat0 : forall k n, dec_value (repeat CH0 k) n = n * 10 ^ Z.of_nat k.
Proof.
  induction k as [|k IH]; intros n.
  - cbn [repeat dec_value]. change (10 ^ Z.of_nat 0) with 1. lia.
  - cbn [repeat dec_value]. rewrite IH. rewrite Nat2Z.inj_succ, Z.pow_succ_r by lia. unfold CH0. ring.
Qed.

(* two digit strings of the same length with the same value are equal *)
Lemma dec_value_inj : forall a b n m, all_digits a = true -> all_digits b = true -> length a = length b ->
  dec_value a n = dec_value b m -> n = m /\ a = b.
Proof.
  induction a as [|c r IH]; intros [|c' r'] n m Ha Hb Hl Hv; try discriminate.
  - cbn in Hv. split; [exact Hv | reflexivity].
  - cbn [all_digits forallb] in Ha, Hb.
    apply andb_true_iff in Ha as [Hc Hr]. apply andb_true_iff in Hb as [Hc' Hr'].
    cbn [dec_value] in Hv. cbn [length] in Hl.
    destruct (IH r' _ _ Hr Hr' ltac:(lia) Hv) as [E1 E2].
    apply is_digit_range in Hc. apply is_digit_range in Hc'.
    split; [lia|]. f_equal; [lia | exact E2].
Qed.

Lemma dec_value_lower : forall c r, all_digits (c :: r) = true -> (c =? CH0) = false ->
  10 ^ Z.of_nat (length r) <= dec_value (c :: r) 0.
Proof.
  intros c r Hd H0. cbn [all_digits forallb] in Hd. apply andb_true_iff in Hd as [Hc Hr].
  cbn [dec_value]. pose proof (dec_value_bounds r (0 * 10 + (c - CH0)) Hr) as Hb.
  apply is_digit_range in Hc.
  assert (Hp : 0 < 10 ^ Z.of_nat (length r)) by (apply Z.pow_pos_nonneg; lia).
  specialize (Hb ltac:(lia)). nia.
Qed.

(* width of strconv.AppendInt's output *)
Lemma itoa_length_bound : forall x w, 0 <= x < 10 ^ Z.of_nat w -> (1 <= w)%nat -> (length (itoa x) <= w)%nat.
Proof.
  intros x w Hx Hw.
  pose proof (itoa_is_canonical x) as Hc. pose proof (int_value_itoa x) as Hv.
  pose proof (itoa_all_digits_nonneg x ltac:(lia)) as Hd.
  destruct (itoa x) as [|c r] eqn:E; [cbn; lia|].
  cbn [canonical_int] in Hc. rewrite (digits_head_not_minus c r Hd) in Hc.
  cbn [int_value] in Hv. rewrite (digits_head_not_minus c r Hd) in Hv.
  apply andb_true_iff in Hc as [_ Hc].
  destruct (c =? CH0) eqn:E0.
  - cbn [negb orb] in Hc. apply Nat.eqb_eq in Hc. cbn [length]. lia.
  - pose proof (dec_value_lower c r Hd E0) as Hl. rewrite Hv in Hl.
    assert (Hlt : 10 ^ Z.of_nat (length r) < 10 ^ Z.of_nat w) by lia.
    apply Z.pow_lt_mono_r_iff in Hlt; [|lia|lia]. cbn [length]. lia.
Qed.

(* a zero-padded decimal field of width w: length, digits, value *)
Lemma pad_zeros_itoa_field : forall x w, 0 <= x < 10 ^ Z.of_nat w -> (1 <= w)%nat ->
  length (pad_zeros w (itoa x)) = w /\ all_digits (pad_zeros w (itoa x)) = true
  /\ dec_value (pad_zeros w (itoa x)) 0 = x.
Proof.
  intros x w Hx Hw. pose proof (itoa_length_bound x w Hx Hw) as Hl.
  pose proof (itoa_all_digits_nonneg x ltac:(lia)) as Hd.
  unfold pad_zeros. split; [|split].
  - rewrite app_length, repeat_length. lia.
  - rewrite all_digits_app, all_digits_repeat0, Hd. reflexivity.
  - rewrite dec_value_app, dec_value_repeat0. rewrite Z.mul_0_l.
    pose proof (int_value_itoa x) as Hv.
    destruct (itoa x) as [|c r] eqn:E; [exfalso; eapply itoa_nonempty; exact E|].
    cbn [int_value] in Hv. rewrite (digits_head_not_minus c r Hd) in Hv. exact Hv.
Qed.

(* conversely the field of a value is the only digit string of that width with that value *)
Lemma pad_zeros_itoa_unique : forall s, all_digits s = true -> s <> [] ->
  pad_zeros (length s) (itoa (dec_value s 0)) = s.
Proof.
  intros s Hd Hne.
  pose proof (dec_value_bounds s 0 Hd ltac:(lia)) as Hb.
  assert (Hw : (1 <= length s)%nat) by (destruct s; [congruence | cbn; lia]).
  destruct (pad_zeros_itoa_field (dec_value s 0) (length s) ltac:(lia) Hw) as (Hl & Hdig & Hv).
  apply (dec_value_inj _ s 0 0 Hdig Hd Hl Hv).
Qed.
