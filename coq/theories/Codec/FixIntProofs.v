(* Lemmas about the model of fix_int.go. *)
From Coq Require Import ZArith List Bool Lia ZifyBool.
From QF Require Import Base.Res Base.Bytes Codec.FixInt.
Import ListNotations.
Open Scope Z_scope.

(* FIX int grammar: -?[0-9]+ *)
Definition all_digits (s : bytes) : bool := forallb is_digit s.
Definition int_grammar (s : bytes) : bool :=
  match s with
  | [] => false
  | c :: r => if c =? MINUS then negb (Nat.eqb (length r) 0) && all_digits r
              else all_digits s
  end.

Lemma digit_test (c : Z) : (c <? CH0) || (c >? CH9) = negb (is_digit c).
Proof. unfold is_digit, CH0, CH9. lia. Qed.

Lemma parse_uint_loop_digits : forall d n, all_digits d = true -> exists z, parse_uint_loop d n = Ok z.
Proof.
  induction d as [|c r IH]; intros n H; cbn in *.
  - eauto.
  - apply andb_true_iff in H as [Hc Hr]. rewrite digit_test, Hc. cbn. apply IH; exact Hr.
Qed.

Lemma parse_uint_loop_nondigits : forall d n, all_digits d = false -> parse_uint_loop d n = Err E_FORMAT.
Proof.
  induction d as [|c r IH]; intros n H; cbn in *.
  - discriminate.
  - rewrite digit_test. destruct (is_digit c) eqn:Hc; cbn in *; [apply IH; exact H | reflexivity].
Qed.

Lemma parse_uint_total : forall d, total_res (parse_uint d).
Proof.
  intros d. destruct d as [|c r]; [apply total_err|].
  unfold parse_uint. destruct (all_digits (c :: r)) eqn:H.
  - destruct (parse_uint_loop_digits (c :: r) 0 H) as [z Hz]. rewrite Hz. apply total_ok.
  - rewrite (parse_uint_loop_nondigits _ 0 H). apply total_err.
Qed.

Lemma atoi_total : forall d, total_res (atoi d).
Proof.
  intros [|c r]; [apply total_err|]. cbn [atoi].
  destruct (c =? MINUS).
  - pose proof (parse_uint_total r) as [H1 H2].
    destruct (parse_uint r); try congruence; [apply total_ok | apply total_err].
  - apply parse_uint_total.
Qed.

Lemma atoi_accepts_iff_grammar : forall d,
  (int_grammar d = true -> exists z, atoi d = Ok z) /\
  (int_grammar d = false -> exists e, atoi d = Err e).
Proof.
  intros [|c r]; cbn [atoi int_grammar].
  - split; [discriminate | eauto].
  - destruct (c =? MINUS) eqn:Hm.
    + destruct r as [|c2 r2].
      * cbn. split; [discriminate | eauto].
      * cbn [length Nat.eqb negb andb]. unfold parse_uint.
        split; intros H.
        -- destruct (parse_uint_loop_digits (c2 :: r2) 0 H) as [z Hz]. rewrite Hz. eauto.
        -- rewrite (parse_uint_loop_nondigits _ 0 H). eauto.
    + unfold parse_uint. split; intros H.
      * apply parse_uint_loop_digits; exact H.
      * rewrite (parse_uint_loop_nondigits _ 0 H). eauto.
Qed.
