(* Lemmas about the model of fix_int.go. *)
From Coq Require Import ZArith List Bool Lia ZifyBool.
From QF Require Import Base.Res Base.Bytes Codec.FixInt.
Import ListNotations.
Open Scope Z_scope.

(* FIX int grammar: -?[0-9]+ *)
Definition all_digits (s : bytes) : bool := forallb is_digit s.
Definition int_grammar (s : bytes) : bool :=
  match s with
  | [] => false
  | c :: r => if c =? MINUS then negb (Nat.eqb (length r) 0) && all_digits r
              else all_digits s
  end.

Lemma digit_test (c : Z) : (c <? CH0) || (c >? CH9) = negb (is_digit c).
Proof. unfold is_digit, CH0, CH9. lia. Qed.

Lemma parse_uint_loop_digits : forall d n, all_digits d = true -> exists z, parse_uint_loop d n = Ok z.
Proof.
  induction d as [|c r IH]; intros n H; cbn in *.
  - eauto.
  - apply andb_true_iff in H as [Hc Hr]. rewrite digit_test, Hc. cbn. apply IH; exact Hr.
Qed.

Lemma parse_uint_loop_nondigits : forall d n, all_digits d = false -> parse_uint_loop d n = Err E_FORMAT.
Proof.
  induction d as [|c r IH]; intros n H; cbn in *.
  - discriminate.
  - rewrite digit_test. destruct (is_digit c) eqn:Hc; cbn in *; [apply IH; exact H | reflexivity].
Qed.

Lemma parse_uint_total : forall d, total_res (parse_uint d).
Proof.
  intros d. destruct d as [|c r]; [apply total_err|].
  unfold parse_uint. destruct (all_digits (c :: r)) eqn:H.
  - destruct (parse_uint_loop_digits (c :: r) 0 H) as [z Hz]. rewrite Hz. apply total_ok.
  - rewrite (parse_uint_loop_nondigits _ 0 H). apply total_err.
Qed.

Lemma atoi_long_total : forall d, total_res (atoi_long d).
Proof.
  intros d. unfold atoi_long.
  destruct (negb (atoi_long_charset_ok d)); [apply total_err|].
  destruct d as [|c r]; [apply total_err|].
  destruct (c =? MINUS).
  - destruct r; [apply total_err|]. destruct (in_int64b _); [apply total_ok | apply total_err].
  - destruct (in_int64b _); [apply total_ok | apply total_err].
Qed.

Lemma atoi_total : forall d, total_res (atoi d).
Proof.
  intros [|c r]; [apply total_err|]. cbn [atoi].
  destruct (Nat.ltb MAX_FAST_DIGITS (length (c :: r))); [apply atoi_long_total|].
  destruct (c =? MINUS).
  - pose proof (parse_uint_total r) as [H1 H2].
    destruct (parse_uint r); try congruence; [apply total_ok | apply total_err].
  - apply parse_uint_total.
Qed.

Lemma atoi_long_rejects_nongrammar : forall d, int_grammar d = false -> exists e, atoi_long d = Err e.
Proof.
  intros [|c r] H; unfold atoi_long.
  - cbn. eauto.
  - cbn [int_grammar] in H. cbn [atoi_long_charset_ok].
    destruct (c =? MINUS) eqn:Hm.
    + destruct r as [|c2 r2].
      * rewrite orb_true_r. cbn. eauto.
      * cbn [length Nat.eqb negb andb] in H. unfold all_digits in H. rewrite H.
        rewrite andb_false_r. cbn. eauto.
    + unfold all_digits in H. cbn [forallb] in H. rewrite orb_false_r. rewrite H. cbn. eauto.
Qed.

Lemma atoi_rejects_nongrammar : forall d, int_grammar d = false -> exists e, atoi d = Err e.
Proof.
  intros [|c r] H; cbn [atoi]; [eauto|].
  destruct (Nat.ltb MAX_FAST_DIGITS (length (c :: r))); [apply atoi_long_rejects_nongrammar; exact H|].
  cbn [int_grammar] in H.
  destruct (c =? MINUS) eqn:Hm.
  - destruct r as [|c2 r2]; [cbn; eauto|].
    cbn [length Nat.eqb negb andb] in H. unfold parse_uint.
    rewrite (parse_uint_loop_nondigits _ 0 H). eauto.
  - unfold parse_uint. rewrite (parse_uint_loop_nondigits _ 0 H). eauto.
Qed.
