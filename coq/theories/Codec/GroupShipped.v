(* C13 over the shipped dictionaries: every repeating group that any message of any specification under /repo/spec
   defines yields (through the model of datadictionary's builder, area dict) a template that satisfies the
   hypotheses of the C13 theorems.  Closed computation over the generated terms Gen/Dicts/*.v. *)
From Coq Require Import ZArith List Bool.
From QF Require Import Base.Res Base.Bytes Codec.Group Codec.GroupProofs Dict.Xml Dict.Build Gen.Dicts.Index.
Import ListNotations.
Open Scope Z_scope.

(* the template the generated message packages (and the harness) derive from a FieldDef: its Fields in order *)
Fixpoint rg_item_of_dfd (f : dict_field_def) : rg_item :=
  match f with
  | DFD ft _ fs =>
      match fs with
      | [] => RgElem (dft_tag ft)
      | _ :: _ => RgGrp (dft_tag ft) (map rg_item_of_dfd fs)
      end
  end.

(* what the C13 theorems ask of a group (tag t, template T) of a message: T well-formed, no header/trailer tag
   (Tag.IsHeader / Tag.IsTrailer) in it, and t itself not repeated inside *)
Definition rg_group_okb (t : Z) (T : list rg_item) : bool :=
  rg_wf_template T &&
  forallb (fun x => negb (rg_tag_is_header x) && negb (rg_tag_is_trailer x)) (t :: rg_all_tags T) &&
  negb (rg_memb t (rg_all_tags T)).

Definition rg_message_groups (m : dict_message_def) : list (Z * list rg_item) :=
  flat_map (fun tf : Z * dict_field_def =>
              match rg_item_of_dfd (snd tf) with RgGrp t T => [(t, T)] | RgElem _ => [] end) (dmd_fields m).

Definition rg_dict_groups (d : dict) : list (Z * list rg_item) :=
  flat_map (fun nm : bytes * dict_message_def => rg_message_groups (snd nm)) (dd_messages d).

Definition rg_shipped_okb (doc : xdoc) : bool :=
  match dict_build doc with
  | Ok d => forallb (fun g : Z * list rg_item => rg_group_okb (fst g) (snd g)) (rg_dict_groups d)
  | _ => false
  end.

Definition rg_shipped_statement (doc : xdoc) : Prop :=
  exists d, dict_build doc = Ok d /\
    forall t T, In (t, T) (rg_dict_groups d) ->
      rg_wf_template T = true /\
      (forall x, In x (t :: rg_all_tags T) -> rg_plain [] [] x) /\
      ~ In t (rg_all_tags T).

Lemma rg_shipped_okb_sound : forall doc, rg_shipped_okb doc = true -> rg_shipped_statement doc.
Proof.
  intros doc H. unfold rg_shipped_okb in H. destruct (dict_build doc) as [d| | |] eqn:E; try discriminate.
  exists d. split; [exact E|]. intros t T Hin. rewrite forallb_forall in H. specialize (H _ Hin).
  cbn [fst snd] in H. unfold rg_group_okb in H.
  apply andb_true_iff in H. destruct H as [H H3]. apply andb_true_iff in H. destruct H as [H1 H2].
  split; [exact H1|]. split.
  - intros x Hx. rewrite forallb_forall in H2. specialize (H2 _ Hx). apply andb_true_iff in H2. destruct H2 as [Ha Hb].
    apply negb_true_iff in Ha. apply negb_true_iff in Hb.
    split; unfold rg_is_header_field, rg_is_trailer_field; cbn [rg_memb existsb]; rewrite ?Ha, ?Hb; reflexivity.
  - apply rg_memb_false. apply negb_true_iff. exact H3.
Qed.

Lemma rg_shipped_compute : forallb (fun nd => rg_shipped_okb (snd nd)) gen_dicts_shipped = true.
Proof. vm_compute. reflexivity. Qed.

Lemma rg_shipped_all : forall name doc, In (name, doc) gen_dicts_shipped -> rg_shipped_statement doc.
Proof.
  intros name doc Hin. apply rg_shipped_okb_sound.
  pose proof rg_shipped_compute as H. rewrite forallb_forall in H. exact (H _ Hin).
Qed.

(* the count of what was checked: non-vacuity *)
Definition rg_shipped_group_count : nat :=
  fold_right (fun nd acc => match dict_build (snd nd) with Ok d => length (rg_dict_groups d) + acc | _ => acc end)%nat
             O gen_dicts_shipped.

Lemma rg_shipped_count : Z.of_nat rg_shipped_group_count = 2129.
Proof. vm_compute. reflexivity. Qed.
