(* Specification of stream framing (C12): defined on the WHOLE byte stream, by first-occurrence searches only.
   No buffer, no reader, no chunks.  (`index_sub d l` = index of the first occurrence of d in l.) *)
From Coq Require Import ZArith List Bool.
From QF Require Import Base.Res Base.Bytes Codec.FixInt Codec.Framer.
Import ListNotations.
Open Scope Z_scope.

(* One frame of the stream s: Ok (frame, rest of the stream) or how reading ends.
     1. the frame starts at the first "8=";                              none -> EOF
     2. from there, the first "\x019=" announces the body length;        none -> EOF
     3. its value runs up to the next SOH;                               none -> EOF, empty -> "No length given",
        not an int -> atoi's error, <= 0 -> "Invalid length"
     4. position of that SOH + value is where the trailer search starts;
        a sum above MaxInt -> "Invalid length";                          beyond the stream -> EOF
     5. from there the first "\x0110=", then the first SOH after it: the frame ends behind that SOH. *)
Definition frs_read_one (s : bytes) : res (bytes * bytes) :=
  match index_sub FR_BEGIN s with
  | None => Err FR_E_EOF
  | Some st =>
  let s1 := skipn st s in
  match index_sub FR_LEN_TAG s1 with
  | None => Err FR_E_EOF
  | Some i =>
  let li := (i + 3)%nat in
  match index_sub FR_SOH (skipn li s1) with
  | None => Err FR_E_EOF
  | Some j =>
  if Nat.eqb j 0 then Err FR_E_NO_LENGTH else
  match atoi (firstn j (skipn li s1)) with
  | Ok blen =>
      if (blen <=? 0) || (Z.of_nat (li + j) + blen >? FR_MAX_INT) then Err FR_E_INVALID_LENGTH else
      let o := Z.of_nat (li + j) + blen in
      if o >? Z.of_nat (length s1) then Err FR_E_EOF else
      match index_sub FR_CK_TAG (skipn (Z.to_nat o) s1) with
      | None => Err FR_E_EOF
      | Some k =>
      let e := (Z.to_nat o + k + 1)%nat in
      match index_sub FR_SOH (skipn e s1) with
      | None => Err FR_E_EOF
      | Some l =>
      let fin := (e + l + 1)%nat in
      Ok (firstn fin s1, skipn fin s1)
      end end
  | Err e => Err e
  | Panic => Panic
  | OutOfFuel => OutOfFuel
  end end end end.

(* frames until the first failure; n bounds the number of frames (every frame has at least one byte) *)
Fixpoint frs_loop (n : nat) (s : bytes) (acc : list bytes) : list bytes * fr_term :=
  match n with
  | O => (rev acc, FrFuel)
  | S n' =>
      match frs_read_one s with
      | Ok (m, rest) => frs_loop n' rest (m :: acc)
      | Err e => (rev acc, FrErr e)
      | Panic => (rev acc, FrPanic)
      | OutOfFuel => (rev acc, FrFuel)
      end
  end.

Definition frames_spec (s : bytes) : list bytes * fr_term := frs_loop (S (length s)) s [].

(* ---- well-formed streams ---- *)

Definition fr_no_soh (l : bytes) : bool := forallb (fun c => negb (c =? SOH)) l.

(* "8=" v SOH "9=" d SOH body SOH "10=" c SOH : what the engine's Message.build writes
   (v = BeginString, d = decimal BodyLength, body SOH = the fields 35=… each SOH-terminated, c = checksum text) *)
Definition fr_mk_msg (v d body c : bytes) : bytes :=
  FR_BEGIN ++ v ++ FR_LEN_TAG ++ d ++ FR_SOH ++ body ++ FR_CK_TAG ++ c ++ FR_SOH.

(* side conditions: v, d, c contain no SOH; d is not empty and reads (atoi) as the number of bytes from behind
   the SOH of the 9= field up to and including the SOH in front of "10="; the message is shorter than 2^63 bytes *)
Definition fr_wf_parts (v d body c : bytes) : bool :=
  fr_no_soh v && fr_no_soh d && fr_no_soh c && negb (Nat.eqb (length d) 0) &&
  (match atoi d with Ok n => n =? Z.of_nat (S (length body)) | _ => false end) &&
  (Z.of_nat (length (fr_mk_msg v d body c)) <? two63).

Definition fr_wf_msg (m : bytes) : Prop :=
  exists v d body c, m = fr_mk_msg v d body c /\ fr_wf_parts v d body c = true.

(* what the bytes between messages must exclude: the two bytes "8=" (findStart searches exactly these).
   A lone "8" at the end of the garbage is harmless because a message starts with "8", not "=". *)
Definition fr_no_begin_marker (g : bytes) : Prop := index_sub FR_BEGIN g = None.
Definition fr_no_begin_markerb (g : bytes) : bool :=
  match index_sub FR_BEGIN g with None => true | Some _ => false end.

(* g0 m0 g1 m1 … g(n-1) m(n-1) gn *)
Fixpoint fr_interleave (gs ms : list bytes) : bytes :=
  match gs, ms with
  | g :: gs', m :: ms' => g ++ m ++ fr_interleave gs' ms'
  | g :: _, [] => g
  | [], _ => []
  end.

(* ---- spec predicate evaluated on the implementation's observations (driver) ---- *)
Fixpoint fr_beq_frames (a b : list bytes) : bool :=
  match a, b with
  | [], [] => true
  | x :: a', y :: b' => beq_bytes x y && fr_beq_frames a' b'
  | _, _ => false
  end.

Definition fr_index_begin (s : bytes) : option nat := index_sub FR_BEGIN s.
