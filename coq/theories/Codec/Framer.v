(* parser.go: the stream framer.  Function-by-function executable model (area `framer`, C12).

   The Go parser keeps `buffer`, a slice of `bigBuffer`; the model keeps the backing array `fr_big`
   and the slice header of `buffer` as offset / len / cap into it (aliasing is the mechanism).
   The io.Reader is a list of chunks: Read(p) returns at most len(p) bytes of the current chunk
   and (0, io.EOF) when no chunk is left.  A reader that returns fewer bytes than it has is the
   same thing as a finer chunk list, so quantifying over chunk lists covers every read schedule.
   `lastRead` (a time stamp) is not modelled. *)
From Coq Require Import ZArith List Bool.
From QF Require Import Base.Res Base.Bytes Codec.FixInt.
Import ListNotations.
Open Scope Z_scope.

Definition FR_E_EOF : Z := 10.             (* io.EOF from the reader *)
Definition FR_E_NO_LENGTH : Z := 11.       (* errors.New("No length given") *)
Definition FR_E_INVALID_LENGTH : Z := 12.  (* errors.New("Invalid length") *)

Definition FR_DEFAULT_BUF_SIZE : nat := Z.to_nat 4096.   (* defaultBufSize *)

Definition FR_BEGIN : bytes := [56; 61].            (* "8=" *)
Definition FR_LEN_TAG : bytes := [1; 57; 61].       (* "\x019=" *)
Definition FR_CK_TAG : bytes := [1; 49; 48; 61].    (* "\x0110=" *)
Definition FR_SOH : bytes := [1].                   (* "\x01" *)

Record fr_parser := FrParser {
  fr_big : bytes;          (* bigBuffer (len = cap) *)
  fr_off : nat;            (* &buffer[0] - &bigBuffer[0] *)
  fr_len : nat;            (* len(buffer) *)
  fr_cap : nat;            (* cap(buffer) *)
  fr_rd : list bytes       (* reader: chunks not yet delivered *)
}.

(* newParser(reader): both slices nil *)
Definition fr_new_parser (chunks : list bytes) : fr_parser := FrParser [] 0 0 0 chunks.

(* the bytes of p.buffer *)
Definition fr_window (p : fr_parser) : bytes := firstn (fr_len p) (skipn (fr_off p) (fr_big p)).

(* reader.Read(dst) with len(dst) = n: (bytes delivered, reader afterwards, err == io.EOF) *)
Definition fr_reader_read (rd : list bytes) (n : nat) : bytes * list bytes * bool :=
  match rd with
  | [] => ([], [], true)
  | c :: r =>
      match skipn n c with
      | [] => (firstn n c, r, false)
      | c' => (firstn n c, c' :: r, false)
      end
  end.

(* the array after storing d at index pos *)
Definition fr_write_at (big : bytes) (pos : nat) (d : bytes) : bytes :=
  firstn pos big ++ d ++ skipn (pos + length d) big.

(* copy(dst[0:len src], src) on the array dst (memmove semantics, src read before the write) *)
Definition fr_copy_front (dst src : bytes) : bytes := src ++ skipn (length src) dst.

(* the `if len(p.buffer) == cap(p.buffer) { switch … }` part of readMore *)
Definition fr_refill (p : fr_parser) : fr_parser :=
  if Nat.eqb (fr_len p) (fr_cap p) then
    if Nat.eqb (length (fr_big p)) 0 then
      (* bigBuffer = make([]byte, 4096); newBuffer = bigBuffer[0:0]; copy copies min(0, len) = 0 bytes *)
      FrParser (repeat 0 FR_DEFAULT_BUF_SIZE) 0 0 FR_DEFAULT_BUF_SIZE (fr_rd p)
    else if Nat.leb (2 * fr_len p) (length (fr_big p)) then
      (* newBuffer = bigBuffer[0:len(buffer)]: shift to the front of the same array *)
      FrParser (fr_copy_front (fr_big p) (fr_window p)) 0 (fr_len p) (length (fr_big p)) (fr_rd p)
    else
      (* bigBuffer = make([]byte, 2*len(buffer)); newBuffer = bigBuffer[0:len(buffer)] *)
      FrParser (fr_copy_front (repeat 0 (2 * fr_len p)) (fr_window p)) 0 (fr_len p) (2 * fr_len p) (fr_rd p)
  else p.

(* readMore: (parser afterwards, n, err == io.EOF) *)
Definition fr_read_more (p : fr_parser) : fr_parser * nat * bool :=
  let p1 := fr_refill p in
  let '(d, rd', eof) := fr_reader_read (fr_rd p1) (fr_cap p1 - fr_len p1) in
  (FrParser (fr_write_at (fr_big p1) (fr_off p1 + fr_len p1) d) (fr_off p1)
            (fr_len p1 + length d) (fr_cap p1) rd',
   length d, eof).

(* findIndexAfterOffset.  `p.buffer[offset:]` panics for a negative offset (offset > len is excluded by the
   test before it).  One unit of fuel per loop iteration. *)
Fixpoint fr_find_index_after_offset (fuel : nat) (p : fr_parser) (offset : Z) (delim : bytes)
  : res (fr_parser * Z) :=
  match fuel with
  | O => OutOfFuel
  | S fuel' =>
      if offset >? Z.of_nat (fr_len p) then
        let '(p', n, eof) := fr_read_more p in
        if Nat.eqb n 0 && eof then Err FR_E_EOF
        else fr_find_index_after_offset fuel' p' offset delim
      else if offset <? 0 then Panic
      else
        match index_sub delim (skipn (Z.to_nat offset) (fr_window p)) with
        | Some i => Ok (p, Z.of_nat i + offset)
        | None =>
            let '(p', n, eof) := fr_read_more p in
            if Nat.eqb n 0 && eof then Err FR_E_EOF
            else fr_find_index_after_offset fuel' p' offset delim
        end
  end.

Definition fr_find_index (fuel : nat) (p : fr_parser) (delim : bytes) : res (fr_parser * Z) :=
  fr_find_index_after_offset fuel p 0 delim.

Definition fr_find_start (fuel : nat) (p : fr_parser) : res (fr_parser * Z) :=
  fr_find_index fuel p FR_BEGIN.

(* findEndAfterOffset *)
Definition fr_find_end_after_offset (fuel : nat) (p : fr_parser) (offset : Z) : res (fr_parser * Z) :=
  let* (p1, index) := fr_find_index_after_offset fuel p offset FR_CK_TAG in
  let* (p2, index2) := fr_find_index_after_offset fuel p1 (index + 1) FR_SOH in
  Ok (p2, index2 + 1).

(* the value of p.buffer[lo:hi]: Go requires 0 <= lo <= hi <= cap(p.buffer) *)
Definition fr_slice (p : fr_parser) (lo hi : Z) : res bytes :=
  if (0 <=? lo) && (lo <=? hi) && (hi <=? Z.of_nat (fr_cap p)) then
    Ok (firstn (Z.to_nat (hi - lo)) (skipn (fr_off p + Z.to_nat lo) (fr_big p)))
  else Panic.

(* p.buffer = p.buffer[lo:]: Go requires 0 <= lo <= len(p.buffer) *)
Definition fr_reslice_from (p : fr_parser) (lo : Z) : res fr_parser :=
  if (0 <=? lo) && (lo <=? Z.of_nat (fr_len p)) then
    Ok (FrParser (fr_big p) (fr_off p + Z.to_nat lo) (fr_len p - Z.to_nat lo) (fr_cap p - Z.to_nat lo) (fr_rd p))
  else Panic.

(* jumpLength (with the range check of fix a74f821).  `math.MaxInt-offset` cannot wrap: offset is an index into
   p.buffer, 0 <= offset <= MaxInt.  `offset + length` is int arithmetic (wrap64); the check makes it exact. *)
Definition FR_MAX_INT : Z := two63 - 1.
Definition fr_jump_length (fuel : nat) (p : fr_parser) : res (fr_parser * Z) :=
  let* (p1, length_index0) := fr_find_index fuel p FR_LEN_TAG in
  let length_index := length_index0 + 3 in
  let* (p2, offset) := fr_find_index_after_offset fuel p1 length_index FR_SOH in
  if offset =? length_index then Err FR_E_NO_LENGTH else
  let* d := fr_slice p2 length_index offset in
  let* length := atoi d in
  if (length <=? 0) || (length >? FR_MAX_INT - offset) then Err FR_E_INVALID_LENGTH else
  Ok (p2, wrap64 (offset + length)).

(* ReadMessage: the frame and the parser afterwards *)
Definition fr_read_message (fuel : nat) (p : fr_parser) : res (fr_parser * bytes) :=
  let* (p1, start) := fr_find_start fuel p in
  let* p2 := fr_reslice_from p1 start in
  let* (p3, index) := fr_jump_length fuel p2 in
  let* (p4, index2) := fr_find_end_after_offset fuel p3 index in
  let* m := fr_slice p4 0 index2 in
  let* p5 := fr_reslice_from p4 index2 in
  Ok (p5, m).

(* How a read loop ends (readLoop in connection.go returns at the first error). *)
Inductive fr_term := FrErr (e : Z) | FrPanic | FrFuel.

(* ReadMessage until it fails: frames in order and the terminal outcome *)
Fixpoint fr_frames_loop (n fuel : nat) (p : fr_parser) (acc : list bytes) : list bytes * fr_term :=
  match n with
  | O => (rev acc, FrFuel)
  | S n' =>
      match fr_read_message fuel p with
      | Ok (p', m) => fr_frames_loop n' fuel p' (m :: acc)
      | Err e => (rev acc, FrErr e)
      | Panic => (rev acc, FrPanic)
      | OutOfFuel => (rev acc, FrFuel)
      end
  end.

(* fuel: every search iteration but the last two consumes a byte of the reader; every frame has a byte *)
Definition fr_fuel (chunks : list bytes) : nat := S (S (length (concat chunks))).

Definition fr_frames (chunks : list bytes) : list bytes * fr_term :=
  fr_frames_loop (S (length (concat chunks))) (fr_fuel chunks) (fr_new_parser chunks) [].

(* ---- helpers for the driver ---- *)
Definition fr_nonempty (c : bytes) : Prop := c <> [].

(* cut a stream into chunks of the given sizes (zero sizes skipped); what is left forms the last chunk *)
Fixpoint fr_cut (sizes : list nat) (s : bytes) : list bytes :=
  match s with
  | [] => []
  | _ =>
    match sizes with
    | [] => [s]
    | O :: r => fr_cut r s
    | k :: r => firstn k s :: fr_cut r (skipn k s)
    end
  end.
