(* repeating_group.go (GroupTemplate, RepeatingGroup.Write / Read, groupTagOrder, findItemInGroupTemplate,
   isDelimiter), field_map.go (SetGroup / GetGroup / add / write as far as groups are concerned) and
   message.go (parseGroup, isNumInGroupField, getGroupFields, isGroupMember and the field classification loop
   of doParsing).  Function-by-function model; everything is prefixed rg_ and self-contained: a wire field is
   (tag, value), a parsed message is the list of its wire fields in order (= Message.fields), a FieldMap
   entry is (tag, offset into Message.fields, length) because every `field` the parser stores is a sub-slice
   fields[off : off+len] whose capacity reaches the end of Message.fields.  Proofs: GroupProofs.v. *)
From Coq Require Import ZArith List Bool.
From QF Require Import Base.Res Base.Bytes Codec.FixInt.
Import ListNotations.
Open Scope Z_scope.

(* ------------------------------------------------------------------------------------------------ *)
(* Templates, values                                                                                   *)

(* GroupTemplate = []GroupItem; GroupElement(tag) | NewRepeatingGroup(tag, template) *)
Inductive rg_item : Type :=
| RgElem (t : Z)
| RgGrp (t : Z) (tmpl : list rg_item).

Definition rg_item_tag (i : rg_item) : Z := match i with RgElem t => t | RgGrp t _ => t end.
Definition rg_tags (tmpl : list rg_item) : list Z := map rg_item_tag tmpl.

(* every tag of the template tree below (and including) an item *)
Fixpoint rg_item_all_tags (i : rg_item) : list Z :=
  match i with
  | RgElem t => [t]
  | RgGrp t sub => t :: flat_map rg_item_all_tags sub
  end.
Definition rg_all_tags (tmpl : list rg_item) : list Z := flat_map rg_item_all_tags tmpl.

(* a wire field: TagValue{tag, value} (bytes = itoa tag ++ "=" ++ value ++ SOH is determined by them) *)
Definition rg_field : Type := (Z * bytes)%type.

(* The value of one member of a group entry: a plain value or a nested repeating group.
   A group = list of entries (Group = FieldMap); an entry = its fields as (tag, value) in FieldMap.tags order
   (tags are distinct there by construction of FieldMap). *)
Inductive rg_val : Type :=
| RgV (v : bytes)
| RgG (g : list (list (Z * rg_val))).
Definition rg_entry : Type := list (Z * rg_val).
Definition rg_group : Type := list rg_entry.

(* ------------------------------------------------------------------------------------------------ *)
(* groupTagOrder / sortedTags                                                                          *)

Definition RG_MAXINT32 : Z := 2147483647.

(* tagMap[f.Tag()] = i for i, f := range template: the LAST index of a tag wins *)
Fixpoint rg_tag_index_from (i : Z) (tmpl : list rg_item) (t : Z) : option Z :=
  match tmpl with
  | [] => None
  | it :: r =>
      match rg_tag_index_from (i + 1) r t with
      | Some k => Some k
      | None => if rg_item_tag it =? t then Some i else None
      end
  end.
Definition rg_order_key (tmpl : list rg_item) (t : Z) : Z :=
  match rg_tag_index_from 0 tmpl t with Some k => k | None => RG_MAXINT32 end.
(* the closure returned by groupTagOrder *)
Definition rg_tag_less (tmpl : list rg_item) (i j : Z) : bool := rg_order_key tmpl i <? rg_order_key tmpl j.

(* sort.Sort(FieldMap) with that order.  sort.Sort is an insertion sort (stable) up to 12 elements and pdqsort
   above; whenever the keys of the tags present are pairwise different (always the case when at most one tag of
   the entry is outside the template) every correct sort returns the same list.  Modelled as THE stable sort. *)
Fixpoint rg_insert {A : Type} (tmpl : list rg_item) (x : Z * A) (l : list (Z * A)) : list (Z * A) :=
  match l with
  | [] => [x]
  | y :: r => if rg_tag_less tmpl (fst y) (fst x) then y :: rg_insert tmpl x r else x :: y :: r
  end.
Fixpoint rg_sort {A : Type} (tmpl : list rg_item) (l : list (Z * A)) : list (Z * A) :=
  match l with
  | [] => []
  | x :: r => rg_insert tmpl x (rg_sort tmpl r)
  end.

(* findItemInGroupTemplate: the FIRST template item with that tag *)
Fixpoint rg_find_item (tmpl : list rg_item) (t : Z) : option rg_item :=
  match tmpl with
  | [] => None
  | it :: r => if rg_item_tag it =? t then Some it else rg_find_item r t
  end.
(* the template a nested group stored under tag t is built with (what the generated code and the harness do) *)
Definition rg_sub_template (tmpl : list rg_item) (t : Z) : list rg_item :=
  match rg_find_item tmpl t with Some (RgGrp _ sub) => sub | _ => [] end.

(* delimiter() = template[0].Tag(); isDelimiter is only called after an item was found (template non-empty) *)
Definition rg_is_delimiter (tmpl : list rg_item) (t : Z) : bool :=
  match tmpl with [] => false | d :: _ => t =? rg_item_tag d end.

(* ------------------------------------------------------------------------------------------------ *)
(* RepeatingGroup.Write (through FieldMap.SetGroup / Set of the entries)                               *)

(* The wire fields of one member stored under tag t: a plain field, or, for a nested group built with
   template tmpl: the count field, then per entry the members in sortedTags order. *)
Fixpoint rg_write_val (tmpl : list rg_item) (t : Z) (v : rg_val) {struct v} : list rg_field :=
  match v with
  | RgV b => [(t, b)]
  | RgG g =>
      (t, itoa (Z.of_nat (length g))) ::
      flat_map (fun e : list (Z * rg_val) =>
                  flat_map snd
                    (rg_sort tmpl
                       (map (fun p : Z * rg_val =>
                               let (t', v') := p in (t', rg_write_val (rg_sub_template tmpl t') t' v')) e))) g
  end.
(* RepeatingGroup{tag, template, groups}.Write() *)
Definition rg_write (tmpl : list rg_item) (tag : Z) (g : rg_group) : list rg_field := rg_write_val tmpl tag (RgG g).

(* ------------------------------------------------------------------------------------------------ *)
(* RepeatingGroup.Read                                                                                 *)

Definition RG_E_FORMAT : Z := 6.    (* IncorrectDataFormatForValue (atoi error wrapped by GetGroup) *)
Definition RG_E_ORDER : Z := 15.    (* repeatingGroupFieldsOutOfOrder: expected n groups, found m *)
Definition RG_E_MISSING : Z := 8.   (* ConditionallyRequiredFieldMissing *)

(* One call RepeatingGroup.Read(tv) with template tmpl, tv[0] = (tag, countv), tv' = tv[1:cap(tv)],
   `loop` = the for-loop over tv'.  Result: the groups read and the returned remainder. *)
Definition rg_read_call (loop : list rg_field -> res (rg_entry * rg_group * list rg_field))
    (tmpl : list rg_item) (countv : bytes) (tv' : list rg_field) : res (rg_group * list rg_field) :=
  match atoi countv with
  | Err _ => Err RG_E_FORMAT
  | Panic => Panic
  | OutOfFuel => OutOfFuel
  | Ok n =>
      if n =? 0 then Ok ([], tv')
      else
        match tmpl with
        | [] => Err RG_E_ORDER          (* "template is empty" (fix ce2612b; before it f.delimiter() panicked below) *)
        | _ :: _ =>
            let* r := loop tv' in
            let '(_, ents, rest) := r in
            if Z.of_nat (length ents) =? n then Ok (ents, rest)
            else Err RG_E_ORDER         (* expected n groups, found len(f.groups) *)
        end
  end.

(* The for-loop of Read.  The Go loop keeps `group` (fields seen before the first delimiter go to a Group that
   is never appended to f.groups) and f.groups; here the same result is produced on the way back:
   (fields of the current, not yet delimited group, completed groups, remainder).  Every iteration consumes at
   least one field; fuel >= length tv suffices (rg_read_loop_fuel). *)
Fixpoint rg_read_loop (fuel : nat) (tmpl : list rg_item) (tv : list rg_field)
    : res (rg_entry * rg_group * list rg_field) :=
  match tv with
  | [] => Ok ([], [], [])
  | (t, v) :: tv' =>
      match fuel with
      | O => OutOfFuel
      | S k =>
          match rg_find_item tmpl t with
          | None => Ok ([], [], tv)                         (* break *)
          | Some it =>
              let* rv :=
                match it with
                | RgElem _ => Ok (RgV v, tv')               (* protoGroupElement.Read: tv[1:] *)
                | RgGrp _ sub =>                            (* clone of the nested RepeatingGroup .Read(tv) *)
                    let* r := rg_read_call (rg_read_loop k sub) sub v tv' in
                    Ok (RgG (fst r), snd r)
                end in
              let* r := rg_read_loop k tmpl (snd rv) in
              let '(orph, ents, rest) := r in
              if rg_is_delimiter tmpl t
              then Ok ([], ((t, fst rv) :: orph) :: ents, rest)
              else Ok ((t, fst rv) :: orph, ents, rest)
          end
      end
  end.

(* FieldMap.GetGroup's parser.Read(f): f[0] is the count field, f[1:cap(f)] everything behind it in Message.fields *)
Definition rg_read (tmpl : list rg_item) (tv : list rg_field) : res (rg_group * list rg_field) :=
  match tv with
  | [] => Panic
  | (_, v) :: tv' => rg_read_call (rg_read_loop (length tv') tmpl) tmpl v tv'
  end.

(* What can be seen of a group that was read: per entry, per template item in template order, the member found
   under that tag (tagLookup: the last one stored wins). *)
Fixpoint rg_assoc_last {A : Type} (t : Z) (l : list (Z * A)) : option A :=
  match l with
  | [] => None
  | (t', a) :: r => match rg_assoc_last t r with Some x => Some x | None => if t' =? t then Some a else None end
  end.

(* What GetGroup users can see of a group: per entry, per template item in template order, the member stored
   under the item's tag (none / value / nested rows). *)
Inductive rg_vw : Type :=
| RgVwNone
| RgVwVal (b : bytes)
| RgVwGrp (rows : list (list rg_vw))
| RgVwBad.     (* a plain value where the template has a group or vice versa *)
Fixpoint rg_view_item (it : rg_item) (v : option rg_val) {struct it} : rg_vw :=
  match v with
  | None => RgVwNone
  | Some v =>
      match it, v with
      | RgElem _, RgV b => RgVwVal b
      | RgGrp _ sub, RgG g =>
          RgVwGrp (map (fun e : list (Z * rg_val) =>
                          map (fun it' => rg_view_item it' (rg_assoc_last (rg_item_tag it') e)) sub) g)
      | _, _ => RgVwBad
      end
  end.
Definition rg_view (tmpl : list rg_item) (g : rg_group) : list (list rg_vw) :=
  map (fun e : list (Z * rg_val) => map (fun it' => rg_view_item it' (rg_assoc_last (rg_item_tag it') e)) tmpl) g.

(* canonical form of a written group: every entry in sortedTags order, recursively *)
Fixpoint rg_canon_val (tmpl : list rg_item) (v : rg_val) {struct v} : rg_val :=
  match v with
  | RgV b => RgV b
  | RgG g =>
      RgG (map (fun e : list (Z * rg_val) =>
                  rg_sort tmpl (map (fun p : Z * rg_val =>
                                       let (t', v') := p in (t', rg_canon_val (rg_sub_template tmpl t') v')) e)) g)
  end.
Definition rg_canon (tmpl : list rg_item) (g : rg_group) : rg_group :=
  match rg_canon_val tmpl (RgG g) with RgG g' => g' | RgV _ => [] end.

(* ------------------------------------------------------------------------------------------------ *)
(* Well-formed templates, fitting values (hypotheses of C13)                                           *)

Definition rg_memb (t : Z) (l : list Z) : bool := existsb (Z.eqb t) l.
Fixpoint rg_nodupb (l : list Z) : bool :=
  match l with [] => true | x :: r => negb (rg_memb x r) && rg_nodupb r end.
Definition rg_disjointb (a b : list Z) : bool := forallb (fun x => negb (rg_memb x b)) a.

(* rg_wf_tmpl F tmpl: tmpl is non-empty, its tags are pairwise distinct and none of them is in F (the tags that
   may follow the written group on the wire); every nested group is well-formed w.r.t. what may follow IT:
   the tags after it in the enclosing template, the enclosing delimiter, and F. *)
Fixpoint rg_wf_item (F : list Z) (it : rg_item) {struct it} : bool :=
  match it with
  | RgElem _ => true
  | RgGrp _ sub =>
      match sub with
      | [] => false
      | d :: _ =>
          rg_nodupb (rg_tags sub) && rg_disjointb F (rg_tags sub) &&
          (fix go (l : list rg_item) : bool :=
             match l with
             | [] => true
             | x :: r => rg_wf_item (rg_tags r ++ rg_item_tag d :: F) x && go r
             end) sub
      end
  end.
Fixpoint rg_wf_items (F : list Z) (d : Z) (l : list rg_item) : bool :=
  match l with
  | [] => true
  | x :: r => rg_wf_item (rg_tags r ++ d :: F) x && rg_wf_items F d r
  end.
Definition rg_wf_tmpl (F : list Z) (tmpl : list rg_item) : bool :=
  match tmpl with
  | [] => false
  | d :: _ => rg_nodupb (rg_tags tmpl) && rg_disjointb F (rg_tags tmpl) && rg_wf_items F (rg_item_tag d) tmpl
  end.
(* DESIGN: wf_template *)
Definition rg_wf_template (tmpl : list rg_item) : bool := rg_wf_tmpl [] tmpl.

Definition RG_MAXCOUNT : Z := 9223372036854775807.   (* len() is an int *)

Definition rg_soh_free (b : bytes) : bool := negb (existsb (Z.eqb SOH) b).

(* rg_fits tmpl g: every entry starts (in template order) with the delimiter, i.e. contains it; its tags are
   distinct and all in the template; plain members are SOH-free values, members under a group item are groups
   that fit the nested template. *)
Fixpoint rg_fits_val (tmpl : list rg_item) (v : rg_val) {struct v} : bool :=
  match v with
  | RgV b => rg_soh_free b
  | RgG g =>
      (Z.of_nat (length g) <=? RG_MAXCOUNT) &&
      forallb (fun e : list (Z * rg_val) =>
                 rg_memb (match tmpl with [] => -1 | d :: _ => rg_item_tag d end) (map fst e) &&
                 rg_nodupb (map fst e) &&
                 forallb (fun p : Z * rg_val =>
                            let (t', v') := p in
                            match rg_find_item tmpl t', v' with
                            | Some (RgElem _), RgV b => rg_soh_free b
                            | Some (RgGrp _ sub), RgG _ => rg_fits_val sub v'
                            | _, _ => false
                            end) e) g
  end.
Definition rg_fits (tmpl : list rg_item) (g : rg_group) : bool := rg_fits_val tmpl (RgG g).

(* entries already in template order (then rg_canon is the identity) *)
Fixpoint rg_sortedb (tmpl : list rg_item) (l : list Z) : bool :=
  match l with
  | [] => true
  | x :: r => match r with [] => true | y :: _ => rg_tag_less tmpl x y end && rg_sortedb tmpl r
  end.
Fixpoint rg_ordered_val (tmpl : list rg_item) (v : rg_val) {struct v} : bool :=
  match v with
  | RgV _ => true
  | RgG g =>
      forallb (fun e : list (Z * rg_val) =>
                 rg_sortedb tmpl (map fst e) &&
                 forallb (fun p : Z * rg_val => let (t', v') := p in rg_ordered_val (rg_sub_template tmpl t') v') e) g
  end.
Definition rg_ordered (tmpl : list rg_item) (g : rg_group) : bool := rg_ordered_val tmpl (RgG g).

(* ------------------------------------------------------------------------------------------------ *)
(* The dictionary as far as parseGroup looks at it                                                     *)

(* FieldDef{tag, Fields}: Fields is empty for a plain field *)
Inductive rg_gdef : Type := RgDef (tag : Z) (members : list rg_gdef).
Definition rg_gdef_tag (d : rg_gdef) : Z := match d with RgDef t _ => t end.
Definition rg_gdef_members (d : rg_gdef) : list rg_gdef := match d with RgDef _ m => m end.

(* a map[int]*FieldDef built by ranging over a list: the last definition of a tag wins *)
Fixpoint rg_def_lookup (t : Z) (l : list rg_gdef) : option rg_gdef :=
  match l with
  | [] => None
  | d :: r => match rg_def_lookup t r with Some x => Some x | None => if rg_gdef_tag d =? t then Some d else None end
  end.

(* getGroupFields(msg, tags, dd) where `fields` = MessageDef.Fields of the message type (given as a list):
   a tag of the path that is not found is skipped (the code's `if ok`); the result is nil unless the LAST tag is
   found and has members *)
Fixpoint rg_get_group_fields (fields : list rg_gdef) (tags : list Z) : list rg_gdef :=
  match tags with
  | [] => []
  | t :: rest =>
      match rest with
      | [] => match rg_def_lookup t fields with Some d => rg_gdef_members d | None => [] end
      | _ :: _ =>
          match rg_def_lookup t fields with
          | Some d => rg_get_group_fields (rg_gdef_members d) rest
          | None => rg_get_group_fields fields rest
          end
      end
  end.
(* isNumInGroupField: same walk, `len(fd.Fields) > 0` *)
Definition rg_is_num_in_group (fields : list rg_gdef) (tags : list Z) : bool :=
  match rg_get_group_fields fields tags with [] => false | _ :: _ => true end.
(* isGroupMember *)
Definition rg_is_group_member (t : Z) (fields : list rg_gdef) : bool := existsb (fun d => rg_gdef_tag d =? t) fields.

(* the dictionary that "defines the group like the template" *)
Fixpoint rg_def_of_item (i : rg_item) : rg_gdef :=
  match i with
  | RgElem t => RgDef t []
  | RgGrp t sub => RgDef t (map rg_def_of_item sub)
  end.

(* Tag.IsHeader / Tag.IsTrailer (tag.go) *)
Definition rg_tag_is_header (t : Z) : bool :=
  rg_memb t [8; 9; 35; 49; 56; 115; 128; 90; 34; 50; 142; 57; 143; 116; 144; 129; 145; 43; 97; 52; 122;
             212; 213; 347; 369; 370; 1128; 1129; 627; 1156; 91; 628; 629; 630].
Definition rg_tag_is_trailer (t : Z) : bool := rg_memb t [93; 89; 10].
(* isHeaderField / isTrailerField with the tags of the transport dictionary's Header.Fields / Trailer.Fields *)
Definition rg_is_header_field (xh : list Z) (t : Z) : bool := rg_tag_is_header t || rg_memb t xh.
Definition rg_is_trailer_field (xt : list Z) (t : Z) : bool := rg_tag_is_trailer t || rg_memb t xt.

(* ------------------------------------------------------------------------------------------------ *)
(* doParsing's classification loop + parseGroup                                                        *)

(* FieldMap.add(fields[off : off+len]) on Body: (tag of the first field, off, len) *)
Definition rg_badd : Type := (Z * nat * nat)%type.

(* state of the scan: in doParsing's own loop, or inside parseGroup with dm = fields[s : s+l], the first
   field's tag dt, the path `tags` kept innermost-first (rpath = rev tags) and the tag lt of the field parsed
   last (mp.parsedFieldBytes.tag) *)
Inductive rg_mode : Type :=
| RgTop
| RgIn (dt : Z) (s l : nat) (rpath : list Z) (lt : Z).

(* for len(tags) > 1 { tags = tags[:len(tags)-1]; fields = getGroupFields(tags); if isGroupMember { inParent = true; break } } *)
Fixpoint rg_walk_up (msg : list rg_gdef) (t : Z) (rpath : list Z) : bool * list Z :=
  match rpath with
  | [] => (false, rpath)
  | _ :: up =>
      match up with
      | [] => (false, rpath)
      | _ :: _ =>
          if rg_is_group_member t (rg_get_group_fields msg (rev up)) then (true, up)
          else rg_walk_up msg t up
      end
  end.

Definition RG_E_NOCHECKSUM : Z := 100.   (* parseError "No CheckSum field found" *)
Definition RG_CHECKSUM : Z := 10.

(* One pass over the fields from index i on (rem = fields[i:]), collecting the Body.add calls in order.
   msg = None: no application dictionary, or the message type is not in it. *)
Fixpoint rg_scan (xh xt : list Z) (msg : option (list rg_gdef)) (mode : rg_mode) (i : nat)
    (rem : list rg_field) (body : list rg_badd) {struct rem} : res (list rg_badd) :=
  let nig := fun tags => match msg with Some m => rg_is_num_in_group m tags | None => false end in
  let ggf := fun tags => match msg with Some m => rg_get_group_fields m tags | None => [] end in
  match rem with
  | [] =>
      match mode with
      | RgTop => Err RG_E_NOCHECKSUM       (* mp.fieldIndex >= len(mp.msg.fields) *)
      | RgIn dt s l _ lt =>
          (* parseGroup ran out of fields: Body.add(dm); return.  doParsing then looks at the field parsed last:
             a CheckSum (declared a group member by the dictionary) ends the loop, anything else runs into the
             bound check above *)
          if lt =? RG_CHECKSUM then Ok (body ++ [(dt, s, l)]) else Err RG_E_NOCHECKSUM
      end
  | (t, _) :: rem' =>
      (* what doParsing does after a field has been classified outside a group *)
      let after := fun (body' : list rg_badd) =>
        if t =? RG_CHECKSUM then Ok body' else rg_scan xh xt msg RgTop (S i) rem' body' in
      match mode with
      | RgTop =>
          if rg_is_header_field xh t then after body
          else if rg_is_trailer_field xt t then after body
          else if nig [t] then rg_scan xh xt msg (RgIn t i 1%nat [t] t) (S i) rem' body
          else after (body ++ [(t, i, 1%nat)])
      | RgIn dt s l rpath _ =>
          if rg_is_group_member t (ggf (rev rpath)) then
            if nig (rev rpath ++ [t]) then rg_scan xh xt msg (RgIn dt s (S l) (t :: rpath) t) (S i) rem' body
            else rg_scan xh xt msg (RgIn dt s (S l) rpath t) (S i) rem' body
          else if rg_is_header_field xh t then after (body ++ [(dt, s, l)])
          else if rg_is_trailer_field xt t then after (body ++ [(dt, s, l)])
          else
            let (in_parent, rpath') := rg_walk_up (match msg with Some m => m | None => [] end) t rpath in
            if in_parent then
              if nig (rev rpath' ++ [t]) then rg_scan xh xt msg (RgIn dt s (S l) (t :: rpath') t) (S i) rem' body
              else rg_scan xh xt msg (RgIn dt s (S l) rpath' t) (S i) rem' body
            else if nig [t] then rg_scan xh xt msg (RgIn t i 1%nat [t] t) (S i) rem' (body ++ [(dt, s, l)])
            else after ((body ++ [(dt, s, l)]) ++ [(t, i, 1%nat)])
      end
  end.

(* The classification part of doParsing on the wire fields w of a message (fields 0..2 are BeginString,
   BodyLength, MsgType, extracted before the loop). *)
Definition rg_scan_message (xh xt : list Z) (msg : option (list rg_gdef)) (w : list rg_field) : res (list rg_badd) :=
  rg_scan xh xt msg RgTop 3%nat (skipn 3 w) [].

(* parseGroup proper, for the theorems: started on the NumInGroup field at index i (rem = fields[i+1:]) *)
Definition rg_parse_group (xh xt : list Z) (msg : list rg_gdef) (t : Z) (i : nat) (rem : list rg_field)
    (body : list rg_badd) : res (list rg_badd) :=
  rg_scan xh xt (Some msg) (RgIn t i 1%nat [t] t) (S i) rem body.

(* Body.tagLookup after the parse: FieldMap.add overwrites *)
Fixpoint rg_body_lookup (t : Z) (body : list rg_badd) : option (nat * nat) :=
  match body with
  | [] => None
  | (t', off, l) :: r =>
      match rg_body_lookup t r with Some x => Some x | None => if t' =? t then Some (off, l) else None end
  end.
(* Body.Has *)
Definition rg_body_has (t : Z) (body : list rg_badd) : bool :=
  match rg_body_lookup t body with Some _ => true | None => false end.
(* Body.GetBytes: f[0].value *)
Definition rg_body_get (w : list rg_field) (t : Z) (body : list rg_badd) : option bytes :=
  match rg_body_lookup t body with
  | Some (off, _) => match nth_error w off with Some f => Some (snd f) | None => None end
  | None => None
  end.
(* Body.GetGroup(NewRepeatingGroup(t, tmpl)): the stored slice's capacity reaches the end of Message.fields *)
Definition rg_body_get_group (w : list rg_field) (tmpl : list rg_item) (t : Z) (body : list rg_badd) : res rg_group :=
  match rg_body_lookup t body with
  | None => Err RG_E_MISSING
  | Some (off, _) => rmap fst (rg_read tmpl (skipn off w))
  end.

(* ------------------------------------------------------------------------------------------------ *)
(* Message.build as far as the correspondence needs it (header 8, 9, 35 + given extras; body sorted by tag) *)

Inductive rg_bitem : Type :=
| RgBField (t : Z) (v : bytes)
| RgBGroup (t : Z) (tmpl : list rg_item) (g : rg_group).
Definition rg_bitem_tag (b : rg_bitem) : Z := match b with RgBField t _ => t | RgBGroup t _ _ => t end.
Definition rg_bitem_fields (b : rg_bitem) : list rg_field :=
  match b with RgBField t v => [(t, v)] | RgBGroup t tmpl g => rg_write tmpl t g end.

(* normalFieldOrder on distinct tags *)
Fixpoint rg_binsert (x : rg_bitem) (l : list rg_bitem) : list rg_bitem :=
  match l with
  | [] => [x]
  | y :: r => if rg_bitem_tag y <? rg_bitem_tag x then y :: rg_binsert x r else x :: y :: r
  end.
Fixpoint rg_bsort (l : list rg_bitem) : list rg_bitem :=
  match l with [] => [] | x :: r => rg_binsert x (rg_bsort r) end.
Definition rg_body_fields (items : list rg_bitem) : list rg_field := flat_map rg_bitem_fields (rg_bsort items).

Definition rg_field_bytes (f : rg_field) : bytes := itoa (fst f) ++ [EQ] ++ snd f ++ [SOH].
Definition rg_fields_length (l : list rg_field) : Z := fold_right (fun f a => len (rg_field_bytes f) + a) 0 l.
Definition rg_fields_total (l : list rg_field) : Z := fold_right (fun f a => bytes_total (rg_field_bytes f) + a) 0 l.

(* cook + build: 8=begin, 9=length of everything between the 9 field and the 10 field, 35=msgtype, the other
   header fields (given in ascending tag order), the body, 10=sum of all preceding bytes mod 256 as %03d *)
Definition rg_build (begin msgtype : bytes) (hdr : list rg_field) (items : list rg_bitem) : list rg_field :=
  let mid := (35, msgtype) :: hdr ++ rg_body_fields items in
  let h := [(8, begin); (9, itoa (rg_fields_length mid))] in
  h ++ mid ++ [(10, itoa_pad 3 ((rg_fields_total (h ++ mid)) mod 256))].
