(* C09 / C11 for the message parser model: doParsing never panics or hangs (every index into the pre-sized field
   array is in range, every slice is in range), on any bytes and any dictionaries; fidelity on well-formed wire
   messages; rejection of a wrong leading order / BodyLength. *)
From Coq Require Import ZArith List Bool Lia ZifyBool.
From QF Require Import Base.Res Base.Bytes Codec.FixInt Codec.FixIntProofs Codec.TagValue Codec.TagValueProofs
  Codec.FieldMap Codec.FieldMapProofs Codec.Build Codec.Parse Codec.Scan Codec.ScanProofs Spec.FixStd.
Import ListNotations.
Open Scope Z_scope.

(* ---------- checked array access ---------- *)
Lemma arr_get_ok : forall a i, (i < length a)%nat -> exists x, arr_get a i = Ok x.
Proof.
  intros a i H. unfold arr_get. destruct (nth_error a i) eqn:E; [eauto|]. apply nth_error_None in E. lia.
Qed.

Lemma arr_set_ok : forall a i x, (i < length a)%nat -> exists a', arr_set a i x = Ok a' /\ length a' = length a.
Proof.
  induction a as [|y a IH]; intros i x H; cbn in H; [lia|]. destruct i as [|i]; cbn [arr_set].
  - eexists. split; [reflexivity|reflexivity].
  - destruct (IH i x ltac:(lia)) as (a' & E & L). rewrite E. eexists. split; [reflexivity|]. cbn. lia.
Qed.

(* ---------- extraction never panics ---------- *)
Lemma nth_error_firstn_lt {A} : forall (l : list A) n i, (i < n)%nat -> nth_error (firstn n l) i = nth_error l i.
Proof.
  induction l as [|x l IH]; intros n i H; [rewrite firstn_nil; reflexivity|].
  destruct n as [|n]; [lia|]. destruct i as [|i]; cbn; [reflexivity|]. apply IH. lia.
Qed.

Lemma extract_field_total : forall buffer, total_res (snd (extract_field buffer)).
Proof.
  intros buffer. unfold extract_field. destruct (index_byte SOH buffer) as [e|] eqn:E; cbn [snd]; [|apply total_err].
  destruct (index_byte_some _ _ _ E) as (Hn & Hl & _).
  apply (tv_parse_total_last _ SOH); [|discriminate].
  rewrite firstn_length_le by lia. cbn [Nat.pred]. rewrite nth_error_firstn_lt by lia. exact Hn.
Qed.

Lemma extract_specific_field_total : forall t buffer, total_res (snd (extract_specific_field t buffer)).
Proof.
  intros t buffer. unfold extract_specific_field. pose proof (extract_field_total buffer) as H.
  destruct (extract_field buffer) as [rem r]. cbn [snd] in *. apply total_bind; [exact H|].
  intros x _. destruct (tv_tag x =? t); [apply total_ok|apply total_err].
Qed.

Lemma firstn_cons_head {A} : forall n (x : A) l, firstn (S n) (x :: l) = x :: firstn n l.
Proof. reflexivity. Qed.

Lemma extract_xml_data_field_total : forall buffer dl, 0 < dl -> total_res (snd (extract_xml_data_field buffer dl)).
Proof.
  intros buffer dl Hdl. unfold extract_xml_data_field. destruct (index_byte EQ buffer) as [e|] eqn:E; cbn [snd]; [|apply total_err].
  destruct ((dl <? 0) || (dl >? len buffer) || (Z.of_nat e + dl + 2 >? len buffer)) eqn:Hc; cbn [snd]; [apply total_err|].
  unfold len in Hc. destruct (index_byte_some _ _ _ E) as (Hn & Hl & _).
  destruct e as [|k].
  - destruct buffer as [|b0 r]; [cbn in Hl; lia|]. cbn in Hn. inversion Hn; subst. rewrite firstn_cons_head.
    destruct (tv_parse_eq_head (firstn (0 + Z.to_nat dl + 1) r)) as [er He]. rewrite He. apply total_err.
  - set (n := S (S k + Z.to_nat dl + 1)). assert (Hn' : (n <= length buffer)%nat) by (unfold n; lia).
    apply tv_parse_total_when. intros s Hs.
    assert (Ei : index_byte EQ (firstn n buffer) = Some (S k)) by (apply index_byte_firstn; [exact E|unfold n; lia]).
    rewrite (tv_sep_index_first _ _ Ei) in Hs. inversion Hs; subst. rewrite firstn_length_le by exact Hn'. unfold n. lia.
Qed.

Lemma fm_get_int_total : forall m t, total_res (fm_get_int m t).
Proof.
  intros m t. unfold fm_get_int, fm_get_bytes. destruct (lk_get (fm_lookup m) t); cbn [bind]; [|apply total_err].
  unfold fix_int_read. destruct (atoi_total (tv_value (fst f))) as [H1 H2].
  destruct (atoi (tv_value (fst f))); try congruence; [apply total_ok|apply total_err].
Qed.

Lemma fm_get_int_or_zero_ok : forall m t, exists z, fm_get_int_or_zero m t = Ok z.
Proof.
  intros m t. unfold fm_get_int_or_zero. destruct (fm_get_int_total m t) as [H1 H2].
  destruct (fm_get_int m t); try congruence; eauto.
Qed.

(* ---------- the loops ---------- *)
(* what the loops must keep: the field array keeps its length n, parsedFieldBytes points into it *)
Definition mp_inv (n : nat) (st : mparser) : Prop := length (m_fields (mp_msg st)) = n /\ (mp_pfb st < n)%nat.

Definition pg_post (n fi0 : nat) (r : res mparser) : Prop :=
  match r with
  | Ok st' => mp_inv n st' /\ (fi0 < mp_field_index st')%nat
  | Err _ => True
  | Panic => False
  | OutOfFuel => False
  end.

Lemma pg_loop_post : forall fuel td ad st dm tags gf n,
  mp_inv n st -> (n - mp_field_index st < fuel)%nat ->
  pg_post n (mp_field_index st) (pg_loop fuel td ad st dm tags gf).
Proof.
  induction fuel as [|fuel IH]; intros td ad st dm tags gf n [Hlen Hpfb] Hfuel; [lia|].
  cbn [pg_loop]. set (fi := S (mp_field_index st)).
  cbn [mp_set_field_index mp_msg m_fields].
  destruct (Nat.leb (length (m_fields (mp_msg st))) fi) eqn:Hle.
  - cbn [pg_post]. unfold mp_inv. cbn. split; [split; assumption|unfold fi; lia].
  - apply Nat.leb_gt in Hle. rewrite Hlen in Hle.
    destruct (arr_get_ok (m_fields (mp_msg st)) fi ltac:(lia)) as [old Eold]. rewrite Eold. cbn [bind].
    pose proof (extract_field_total (mp_raw_bytes st)) as Hex.
    change (mp_raw_bytes (mp_set_field_index st fi)) with (mp_raw_bytes st). destruct (extract_field (mp_raw_bytes st)) as [rem r]. cbn [snd] in Hex.
    cbv beta iota. destruct Hex as [Hx1 Hx2]. destruct r as [t|e| |]; try congruence; cbn [bind]; [|exact I].
    destruct (arr_set_ok (m_fields (mp_msg st)) fi t ltac:(lia)) as (fields' & Eset & Lset). rewrite Eset. cbn [bind].
    set (st1 := mp_set_trailer_bytes (mp_parsed (mp_set_field_index st fi) fi fields' rem) rem).
    assert (Inv1 : mp_inv n st1) by (unfold mp_inv, st1; cbn; split; lia).
    assert (Fi1 : mp_field_index st1 = fi) by reflexivity.
    assert (Rec : forall dm' tags' gf', pg_post n (mp_field_index st) (pg_loop fuel td ad st1 dm' tags' gf')).
    { intros dm' tags' gf'. pose proof (IH td ad st1 dm' tags' gf' n Inv1 ltac:(rewrite Fi1; unfold fi; lia)) as P.
      destruct (pg_loop fuel td ad st1 dm' tags' gf'); cbn [pg_post] in *; try exact P. rewrite Fi1 in P. unfold fi in P. split; [apply P|lia]. }
    assert (RecB : forall f dm' tags' gf', pg_post n (mp_field_index st) (pg_loop fuel td ad (mp_body_add st1 f) dm' tags' gf')).
    { intros f dm' tags' gf'. pose proof (IH td ad (mp_body_add st1 f) dm' tags' gf' n Inv1 ltac:(cbn; unfold fi; lia)) as P.
      destruct (pg_loop fuel td ad (mp_body_add st1 f) dm' tags' gf'); cbn [pg_post] in *; try exact P.
      cbn in P. unfold fi in P. split; [apply P|lia]. }
    assert (Done : forall st', mp_inv n st' -> mp_field_index st' = fi -> pg_post n (mp_field_index st) (Ok st')).
    { intros st' I F. cbn [pg_post]. split; [exact I|rewrite F; unfold fi; lia]. }
    destruct (is_group_member (tv_tag t) gf).
    + destruct (is_num_in_group_field _ _ ad); apply Rec.
    + destruct (is_header_field (tv_tag t) td); [apply Done; [exact Inv1|reflexivity]|].
      destruct (is_trailer_field (tv_tag t) td); [apply Done; [exact Inv1|reflexivity]|].
      destruct (pg_pop_loop _ _ ad (tv_tag t) tags gf) as [[tags' gf'] inp].
      destruct inp.
      * destruct (is_num_in_group_field _ _ ad); apply Rec.
      * destruct (is_num_in_group_field _ _ ad); [apply RecB|]. apply Done; [exact Inv1|reflexivity].
Qed.

Definition dp_post (n : nat) (r : res mparser) : Prop :=
  match r with
  | Ok st' => mp_inv n st'
  | Err _ => True
  | Panic => False
  | OutOfFuel => False
  end.

Lemma parse_group_post : forall td ad st tags n, mp_inv n st -> (mp_field_index st < n)%nat ->
  pg_post n (mp_field_index st) (parse_group td ad st tags).
Proof.
  intros td ad st tags n [Hlen Hpfb] Hfi. unfold parse_group. cbn [mp_set_found_body mp_msg m_fields mp_field_index].
  destruct (arr_get_ok (m_fields (mp_msg st)) (mp_field_index st) ltac:(lia)) as [d0 E]. rewrite E. cbn [bind].
  apply (pg_loop_post (S (length (m_fields (mp_msg st)))) td ad (mp_set_found_body st true) (d0, []) tags _ n).
  - split; assumption.
  - cbn [mp_set_found_body mp_field_index]. lia.
Qed.

Lemma dp_loop_post : forall fuel td ad st xl n,
  mp_inv n st -> (n - mp_field_index st < fuel)%nat -> dp_post n (dp_loop fuel td ad st xl).
Proof.
  induction fuel as [|fuel IH]; intros td ad st xl n [Hlen Hpfb] Hfuel; [lia|].
  cbn [dp_loop]. destruct (Nat.leb (length (m_fields (mp_msg st))) (mp_field_index st)) eqn:Hle; [exact I|].
  apply Nat.leb_gt in Hle. rewrite Hlen in Hle. set (fi := mp_field_index st) in *.
  destruct (arr_get_ok (m_fields (mp_msg st)) fi ltac:(lia)) as [old Eold]. rewrite Eold. cbn [bind].
  assert (Hex : total_res (snd (if xl >? 0 then extract_xml_data_field (mp_raw_bytes st) xl else extract_field (mp_raw_bytes st)))).
  { destruct (xl >? 0) eqn:Hx; [apply extract_xml_data_field_total; lia|apply extract_field_total]. }
  destruct (if xl >? 0 then extract_xml_data_field (mp_raw_bytes st) xl else extract_field (mp_raw_bytes st)) as [rem r].
  cbn [snd] in Hex. cbv beta iota. destruct Hex as [Hx1 Hx2]. destruct r as [t|e| |]; try congruence; cbn [bind]; [|exact I].
  destruct (arr_set_ok (m_fields (mp_msg st)) fi t ltac:(lia)) as (fields' & Eset & Lset). rewrite Eset. cbn [bind].
  set (st1 := mp_parsed st fi fields' rem).
  assert (Inv1 : mp_inv n st1) by (unfold mp_inv, st1; cbn; split; lia).
  assert (Fi1 : mp_field_index st1 = fi) by reflexivity.
  set (step := if is_header_field (tv_tag t) td then Ok (mp_header_add st1 (t, []))
               else if is_trailer_field (tv_tag t) td then Ok (mp_set_found_trailer (mp_trailer_add st1 (t, [])) true)
               else if is_num_in_group_field (m_header (mp_msg st1)) [tv_tag t] ad then parse_group td ad st1 [tv_tag t]
               else Ok (mp_body_add (mp_set_trailer_bytes (mp_set_found_body st1 true) rem) (t, []))).
  assert (Hstep : match step with Ok st2 => mp_inv n st2 /\ (fi <= mp_field_index st2)%nat | Err _ => True | _ => False end).
  { unfold step. destruct (is_header_field (tv_tag t) td); [split; [exact Inv1|cbn; lia]|].
    destruct (is_trailer_field (tv_tag t) td); [split; [exact Inv1|cbn; lia]|].
    destruct (is_num_in_group_field (m_header (mp_msg st1)) [tv_tag t] ad); [|split; [exact Inv1|cbn; lia]].
    pose proof (parse_group_post td ad st1 [tv_tag t] n Inv1 ltac:(rewrite Fi1; lia)) as P.
    destruct (parse_group td ad st1 [tv_tag t]); cbn [pg_post] in P; try exact P. rewrite Fi1 in P. split; [apply P|lia]. }
  fold step. destruct step as [st2|e| |]; try (exfalso; exact Hstep); cbn [bind]; [|exact I].
  destruct Hstep as [[Hlen2 Hpfb2] Hfi2].
  destruct (arr_get_ok (m_fields (mp_msg st2)) (mp_pfb st2) ltac:(lia)) as [p Ep]. rewrite Ep. cbn [bind].
  destruct (tv_tag p =? TAG_CHECK_SUM); [split; assumption|].
  set (st3 := if negb (mp_found_body st2) then mp_set_msg st2 (msg_set_body_bytes (mp_msg st2) (mp_raw_bytes st2)) else st2).
  assert (Inv3 : mp_inv n st3 /\ mp_field_index st3 = mp_field_index st2).
  { unfold st3. destruct (negb (mp_found_body st2)); cbn; repeat split; assumption. }
  destruct Inv3 as [[Hlen3 Hpfb3] Hfi3].
  assert (Exl : exists z, (if tv_tag p =? TAG_XML_DATA_LEN then fm_get_int_or_zero (m_header (mp_msg st3)) TAG_XML_DATA_LEN
                           else Ok (if xl >? 0 then 0 else xl)) = Ok z).
  { destruct (tv_tag p =? TAG_XML_DATA_LEN); [apply fm_get_int_or_zero_ok|eauto]. }
  destruct Exl as [z Ez]. rewrite Ez. cbn [bind].
  apply IH.
  - split; cbn; assumption.
  - cbn [mp_set_field_index mp_field_index]. rewrite Hfi3. clear -Hfuel Hfi2 Hle. lia.
Qed.

Lemma dp_leading_post : forall st e n, length (m_fields (mp_msg st)) = n -> (mp_field_index st < n)%nat ->
  dp_post n (dp_leading st e).
Proof.
  intros st e n Hlen Hfi. unfold dp_leading.
  destruct (arr_get_ok (m_fields (mp_msg st)) (mp_field_index st) ltac:(lia)) as [old Eold]. rewrite Eold. cbn [bind].
  pose proof (extract_specific_field_total e (mp_raw_bytes st)) as Hex.
  destruct (extract_specific_field e (mp_raw_bytes st)) as [rem r]. cbn [snd] in Hex. destruct Hex as [H1 H2].
  destruct r as [t|er| |]; try congruence; cbn [bind]; [|exact I].
  destruct (arr_set_ok (m_fields (mp_msg st)) (mp_field_index st) t ltac:(lia)) as (fields' & Eset & Lset). rewrite Eset. cbn [bind].
  cbn [dp_post]. split; cbn; [rewrite Lset; exact Hlen|exact Hfi].
Qed.

Lemma count_byte_le : forall c l, (count_byte c l <= length l)%nat.
Proof. induction l as [|x l IH]; cbn; [lia|]. destruct (x =? c); lia. Qed.

(* C09: parsing any byte string with any dictionaries returns a message or an error - no panic, no hang *)
Theorem do_parsing_total : forall bs td ad, total_res (do_parsing bs td ad).
Proof.
  intros bs td ad. unfold do_parsing. set (n := count_byte SOH bs).
  destruct (Nat.eqb n 0) eqn:E0; [apply total_err|]. destruct (Nat.ltb n 3) eqn:E3; [apply total_err|].
  apply Nat.ltb_ge in E3.
  set (st0 := mk_mp _ bs 0%nat 0%nat [] false false).
  assert (L0 : length (m_fields (mp_msg st0)) = n) by (cbn; apply repeat_length).
  pose proof (dp_leading_post st0 TAG_BEGIN_STRING n L0 ltac:(cbn; lia)) as P1.
  destruct (dp_leading st0 TAG_BEGIN_STRING) as [st1|e| |]; cbn [dp_post] in P1; try (exfalso; exact P1); cbn [bind]; [|apply total_err].
  pose proof (dp_leading_post (mp_set_field_index st1 1) TAG_BODY_LENGTH n (proj1 P1) ltac:(cbn; lia)) as P2.
  destruct (dp_leading (mp_set_field_index st1 1) TAG_BODY_LENGTH) as [st2|e| |]; cbn [dp_post] in P2; try (exfalso; exact P2); cbn [bind]; [|apply total_err].
  pose proof (dp_leading_post (mp_set_field_index st2 2) TAG_MSG_TYPE n (proj1 P2) ltac:(cbn; lia)) as P3.
  destruct (dp_leading (mp_set_field_index st2 2) TAG_MSG_TYPE) as [st3|e| |]; cbn [dp_post] in P3; try (exfalso; exact P3); cbn [bind]; [|apply total_err].
  pose proof (dp_loop_post (S n) td ad (mp_set_field_index st3 3) 0 n ltac:(split; cbn; apply P3) ltac:(cbn; lia)) as P4.
  destruct (dp_loop (S n) td ad (mp_set_field_index st3 3) 0) as [st4|e| |]; cbn [dp_post] in P4; try (exfalso; exact P4); cbn [bind]; [|apply total_err].
  match goal with |- total_res (match fm_get_int ?h ?t with _ => _ end) => destruct (fm_get_int_total h t) as [G1 G2]; destruct (fm_get_int h t) end;
    try congruence; [|apply total_err].
  match goal with |- total_res (if ?c then _ else _) => destruct c end; [apply total_ok|apply total_err].
Qed.

(* ================= C11: fidelity on well-formed wire messages (no application dictionary) ================= *)
Definition init_of (f : Z * bytes) : tv := tv_init (fst f) (snd f).
Definition addH (td : option transport_dict) (m : fmap) (f : Z * bytes) : fmap :=
  if is_header_field (fst f) td then fm_add m (init_of f, []) else m.
Definition addT (td : option transport_dict) (m : fmap) (f : Z * bytes) : fmap :=
  if is_header_field (fst f) td then m else if is_trailer_field (fst f) td then fm_add m (init_of f, []) else m.
Definition addB (td : option transport_dict) (m : fmap) (f : Z * bytes) : fmap :=
  if is_header_field (fst f) td then m else if is_trailer_field (fst f) td then m else fm_add m (init_of f, []).
Definition hdr0 : fmap := fm_clear (m_header new_message).
Definition body0 : fmap := fm_clear (m_body new_message).
Definition trl0 : fmap := fm_clear (m_trailer new_message).

Lemma arr_get_at : forall (done : list tv) x tl, arr_get (done ++ x :: tl) (length done) = Ok x.
Proof. intros. unfold arr_get. rewrite nth_error_app2 by lia. rewrite Nat.sub_diag. reflexivity. Qed.

Lemma arr_set_at : forall (done : list tv) y tl x, arr_set (done ++ y :: tl) (length done) x = Ok (done ++ x :: tl).
Proof. induction done as [|d done IH]; intros y tl x; cbn; [reflexivity|]. rewrite IH. reflexivity. Qed.

Lemma repeat_S_cons {A} (x : A) n : repeat x (S n) = x :: repeat x n.
Proof. reflexivity. Qed.

(* extraction of a plain field and of a length-prefixed (XMLData) field from the serialised rest *)
Lemma extract_field_ser : forall f rest, 0 <= fst f < two63 -> soh_free (snd f) = true ->
  extract_field (ser (f :: rest)) = (ser rest, Ok (init_of f)).
Proof.
  intros [t v] rest Ht Hv. cbn [fst snd] in *. unfold extract_field, ser. cbn [map concat]. fold (ser rest).
  set (fb := ser_field (t, v)).
  assert (Efb : fb = (itoa t ++ EQ :: v) ++ [SOH]) by (unfold fb, ser_field; cbn [fst snd]; rewrite <- app_assoc; reflexivity).
  assert (Hsf : forallb (fun x => negb (x =? SOH)) (itoa t ++ EQ :: v) = true).
  { rewrite forallb_app. cbn [forallb]. apply andb_true_iff. split; [apply digits_no_byte; [apply itoa_all_digits_nonneg; lia|reflexivity]|exact Hv]. }
  rewrite Efb, <- app_assoc. cbn [app]. rewrite (index_byte_app_notin SOH _ (ser rest) Hsf).
  replace (S (length (itoa t ++ EQ :: v))) with (length ((itoa t ++ EQ :: v) ++ [SOH])) by (rewrite app_length; cbn; lia).
  replace ((itoa t ++ EQ :: v) ++ SOH :: ser rest) with (((itoa t ++ EQ :: v) ++ [SOH]) ++ ser rest) by (rewrite <- app_assoc; reflexivity).
  rewrite skipn_app_exact, firstn_app_exact. f_equal. rewrite <- Efb. unfold fb.
  change (ser_field (t, v)) with (tv_bytes (tv_init t v)). apply tv_parse_init. exact Ht.
Qed.

Lemma extract_xml_ser : forall f rest k, 0 <= fst f < two63 -> 0 < k -> len (snd f) = k ->
  extract_xml_data_field (ser (f :: rest)) k = (ser rest, Ok (init_of f)).
Proof.
  intros [t v] rest k Ht Hk Hlen. cbn [fst snd] in *. unfold extract_xml_data_field, ser. cbn [map concat]. fold (ser rest).
  set (fb := ser_field (t, v)).
  assert (Efb : fb = itoa t ++ EQ :: (v ++ [SOH])) by (unfold fb, ser_field; reflexivity).
  assert (Hne : forallb (fun x => negb (x =? EQ)) (itoa t) = true) by (apply digits_no_byte; [apply itoa_all_digits_nonneg; lia|reflexivity]).
  rewrite Efb, <- app_assoc. cbn [app]. rewrite (index_byte_app_notin EQ _ _ Hne).
  unfold len in *. rewrite !app_length. cbn [length]. rewrite !app_length. cbn [length].
  replace ((k <? 0) || (k >? Z.of_nat (length (itoa t) + S (length v + 1 + length (ser rest)))) ||
           (Z.of_nat (length (itoa t)) + k + 2 >? Z.of_nat (length (itoa t) + S (length v + 1 + length (ser rest))))) with false by lia.
  replace (S (length (itoa t) + Z.to_nat k + 1)) with (length (itoa t ++ EQ :: v ++ [SOH])) by (rewrite app_length; cbn [length]; rewrite app_length; cbn [length]; lia).
  replace (itoa t ++ EQ :: (v ++ [SOH]) ++ ser rest) with ((itoa t ++ EQ :: v ++ [SOH]) ++ ser rest).
  2:{ rewrite <- app_assoc. cbn [app]. rewrite <- app_assoc. reflexivity. }
  rewrite skipn_app_exact, firstn_app_exact. f_equal.
  change (itoa t ++ EQ :: v ++ [SOH]) with (tv_bytes (tv_init t v)). apply tv_parse_init. exact Ht.
Qed.

Lemma arr_get_map_at : forall (done : list (Z * bytes)) x tl, arr_get (map init_of done ++ x :: tl) (length done) = Ok x.
Proof. intros. rewrite <- (map_length init_of done). apply arr_get_at. Qed.
Lemma arr_set_map_at : forall (done : list (Z * bytes)) y tl x,
  arr_set (map init_of done ++ y :: tl) (length done) x = Ok (map init_of done ++ x :: tl).
Proof. intros. rewrite <- (map_length init_of done). apply arr_set_at. Qed.

Definition st_facts (st : mparser) (fields : list tv) (fi : nat) (rem : bytes) (h b t : fmap) (mraw : option bytes) : Prop :=
  m_fields (mp_msg st) = fields /\ mp_pfb st = fi /\ mp_field_index st = fi /\ mp_raw_bytes st = rem /\
  m_header (mp_msg st) = h /\ m_body (mp_msg st) = b /\ m_trailer (mp_msg st) = t /\ m_raw (mp_msg st) = mraw.

(* reading back an int field that was just added to the header *)
Lemma digits_int_grammar : forall v, all_digits v = true -> v <> [] -> int_grammar v = true /\ int_value v = scan_dec v 0.
Proof.
  intros [|c r] Hd Hne; [congruence|]. unfold int_grammar, int_value. rewrite (digits_head_not_minus c r Hd).
  split; [exact Hd|]. symmetry. clear. generalize 0. generalize (c :: r). induction l as [|x l IH]; intros z; cbn; [reflexivity|]. unfold CH0. apply IH.
Qed.

Lemma get_int_after_add : forall m t v, all_digits v = true -> v <> [] -> (length v <= 18)%nat ->
  fm_get_int_or_zero (fm_add m (tv_init t v, [])) t = Ok (scan_dec v 0).
Proof.
  intros m t v Hd Hne Hl. unfold fm_get_int_or_zero, fm_get_int, fm_get_bytes, fm_add. cbn [fm_lookup field_tag fst tv_init tv_tag].
  rewrite lk_get_put_same. cbn [bind fst tv_value tv_init]. unfold fix_int_read.
  destruct (digits_int_grammar v Hd Hne) as [Hg Hv]. rewrite (atoi_short_value v Hg Hl), Hv. reflexivity.
Qed.

Record dp_rel (td : option transport_dict) (n : nat) (fs done rest : list (Z * bytes)) (st : mparser) : Prop := mk_dp_rel {
  r_split : fs = done ++ rest;
  r_raw : mp_raw_bytes st = ser rest;
  r_fields : m_fields (mp_msg st) = map init_of done ++ repeat tv_zero (n - length done);
  r_fi : mp_field_index st = length done;
  r_hdr : m_header (mp_msg st) = fold_left (addH td) done hdr0;
  r_body : m_body (mp_msg st) = fold_left (addB td) done body0;
  r_trl : m_trailer (mp_msg st) = fold_left (addT td) done trl0;
  r_mraw : m_raw (mp_msg st) = Some (ser fs)
}.

(* the state when the loop is left at the CheckSum field: fieldIndex is the index of that field *)
Definition dp_final (td : option transport_dict) (n : nat) (fs : list (Z * bytes)) (st : mparser) : Prop :=
  m_fields (mp_msg st) = map init_of fs ++ repeat tv_zero (n - length fs) /\
  m_header (mp_msg st) = fold_left (addH td) fs hdr0 /\
  m_body (mp_msg st) = fold_left (addB td) fs body0 /\
  m_trailer (mp_msg st) = fold_left (addT td) fs trl0 /\
  m_raw (mp_msg st) = Some (ser fs) /\
  S (mp_field_index st) = length fs.

(* the message doParsing hands back: fields = fields[:fieldIndex+1] has dropped the slots that were not used *)
Definition dp_msg (td : option transport_dict) (fs : list (Z * bytes)) (m : message) : Prop :=
  m_fields m = map init_of fs /\
  m_header m = fold_left (addH td) fs hdr0 /\
  m_body m = fold_left (addB td) fs body0 /\
  m_trailer m = fold_left (addT td) fs trl0 /\
  m_raw m = Some (ser fs).

Lemma firstn_init_exact : forall (fs : list (Z * bytes)) (zs : list tv), firstn (length fs) (map init_of fs ++ zs) = map init_of fs.
Proof. intros fs zs. rewrite <- (map_length init_of fs). apply firstn_app_exact. Qed.

Lemma fold_left_snoc {A S} (g : S -> A -> S) (l : list A) (x : A) (s : S) : fold_left g (l ++ [x]) s = g (fold_left g l s) x.
Proof. rewrite fold_left_app. reflexivity. Qed.

Lemma removelast_cons2 {A} (x y : A) l : removelast (x :: y :: l) = x :: removelast (y :: l).
Proof. reflexivity. Qed.

(* no field of the list starts a repeating group of the application dictionary, whatever the MsgType in the header *)
Definition ad_no_group_start (ad : option app_dict) (fs : list (Z * bytes)) : Prop :=
  forall hdr t, In t (map fst fs) -> is_num_in_group_field hdr [t] ad = false.

Lemma ad_no_group_start_none : forall fs, ad_no_group_start None fs.
Proof. intros fs hdr t _. reflexivity. Qed.

Lemma ad_find_in : forall mt d defs, ad_find mt d = Some defs -> exists k, In (k, defs) d.
Proof.
  induction d as [|[k fs] d IH]; intros defs H; cbn in H; [discriminate|].
  destruct (beq_bytes k mt); [inversion H; subst; exists k; left; reflexivity|].
  destruct (IH defs H) as [k' Hk]. exists k'. right. exact Hk.
Qed.

(* a checkable sufficient condition: no message definition of the dictionary declares a tag of the message as NumInGroup *)
Lemma ad_no_group_start_some : forall d fs,
  (forall mt defs t, In (mt, defs) d -> In t (map fst fs) -> gd_walk defs [t] = []) -> ad_no_group_start (Some d) fs.
Proof.
  intros d fs H hdr t Ht. unfold is_num_in_group_field, get_group_fields.
  destruct (fm_get_bytes hdr TAG_MSG_TYPE); try reflexivity.
  destruct (ad_find a d) as [defs|] eqn:E; [|reflexivity].
  destruct (ad_find_in _ _ _ E) as [k Hk]. rewrite (H k defs t Hk Ht). reflexivity.
Qed.

Lemma dp_loop_fidelity : forall td ad n fs rest done st xl prev fuel,
  ad_no_group_start ad rest ->
  dp_rel td n fs done rest st -> (length fs <= n)%nat -> (length rest <= fuel)%nat -> rest <> [] ->
  Forall (fun f => c11_tag_ok (fst f) = true) rest ->
  c11_values_ok prev rest = true ->
  match prev with Some k => xl = k /\ 0 < k | None => xl <= 0 end ->
  fst (last rest (0, [])) = TAG_CHECK_SUM -> Forall (fun f => fst f <> TAG_CHECK_SUM) (removelast rest) ->
  exists st', dp_loop fuel td ad st xl = Ok st' /\ dp_final td n fs st'.
Proof.
  intros td ad n fs. induction rest as [|f rest' IH]; intros done st xl prev fuel Hng R Hn Hfuel Hne Htags Hvals Hxl Hlast Hmid; [congruence|].
  destruct fuel as [|fuel]; [cbn in Hfuel; lia|].
  destruct R as [Hsplit Hraw Hfields Hfi Hh Hb Ht Hmraw].
  assert (Hld : (length done < n)%nat) by (rewrite Hsplit, app_length in Hn; cbn [length] in Hn; lia).
  apply Forall_cons_iff in Htags as [Htag Htags'].
  assert (Htag' : 0 <= fst f < two63) by (unfold c11_tag_ok, two63 in *; lia).
  (* what the extraction yields *)
  assert (Eex : (if xl >? 0 then extract_xml_data_field (mp_raw_bytes st) xl else extract_field (mp_raw_bytes st)) = (ser rest', Ok (init_of f))).
  { rewrite Hraw. destruct f as [t v]. cbn [c11_values_ok] in Hvals. apply andb_true_iff in Hvals as [Hv _].
    destruct prev as [k|].
    - destruct Hxl as [-> Hk]. replace (k >? 0) with true by lia. apply extract_xml_ser; [exact Htag'|exact Hk|cbn [snd]; lia].
    - replace (xl >? 0) with false by lia. apply extract_field_ser; [exact Htag'|exact Hv]. }
  cbn [dp_loop]. rewrite Hfields, Hfi, app_length, map_length, repeat_length.
  replace (Nat.leb (length done + (n - length done)) (length done)) with false by (symmetry; apply Nat.leb_gt; lia).
  destruct (n - length done)%nat as [|k] eqn:Ek; [lia|]. rewrite repeat_S_cons, arr_get_map_at. cbn [bind].
  rewrite Eex. cbv beta iota. cbn [bind]. rewrite arr_set_map_at. cbn [bind].
  set (fields' := map init_of done ++ init_of f :: repeat tv_zero k).
  set (fi := length done).
  set (h' := addH td (m_header (mp_msg st)) f). set (b' := addB td (m_body (mp_msg st)) f). set (t' := addT td (m_trailer (mp_msg st)) f).
  match goal with |- exists st', (let* st2 := ?S in _) = _ /\ _ => set (step := S) end.
  assert (Hstep : exists st2, step = Ok st2 /\ st_facts st2 fields' fi (ser rest') h' b' t' (Some (ser fs))).
  { unfold step, h', b', t', addH, addB, addT. change (tv_tag (init_of f)) with (fst f).
    destruct (is_header_field (fst f) td); [eexists; split; [reflexivity|]; repeat split; cbn; assumption|].
    destruct (is_trailer_field (fst f) td); [eexists; split; [reflexivity|]; repeat split; cbn; assumption|].
    rewrite (Hng _ (fst f) (or_introl eq_refl)). eexists; split; [reflexivity|]; repeat split; cbn; assumption. }
  destruct Hstep as (st2 & Estep & F1 & F2 & F3 & F4 & F5 & F6 & F7 & F8). rewrite Estep. cbn [bind].
  rewrite F1, F2. unfold fields', fi. rewrite arr_get_map_at. cbn [bind]. change (tv_tag (init_of f)) with (fst f).
  assert (Efields' : fields' = map init_of (done ++ [f]) ++ repeat tv_zero (n - length (done ++ [f]))).
  { unfold fields'. rewrite map_app, <- app_assoc, app_length. cbn [map app length]. replace (n - (length done + 1))%nat with k by lia. reflexivity. }
  destruct rest' as [|g rest''].
  - (* the last field: CheckSum *)
    cbn [last] in Hlast. rewrite Hlast. rewrite Z.eqb_refl. eexists. split; [reflexivity|].
    assert (Efs : fs = done ++ [f]) by exact Hsplit.
    unfold dp_final. rewrite F1, F3, F5, F6, F7, F8, Efields'. unfold h', b', t'. rewrite Hh, Hb, Ht, <- !fold_left_snoc, <- Efs.
    repeat split; try reflexivity. rewrite Efs, app_length. unfold fi. cbn [length]. lia.
  - rewrite removelast_cons2 in Hmid. apply Forall_cons_iff in Hmid as [Hf10 Hmid'].
    replace (fst f =? TAG_CHECK_SUM) with false by lia.
    set (st3 := if negb (mp_found_body st2) then mp_set_msg st2 (msg_set_body_bytes (mp_msg st2) (mp_raw_bytes st2)) else st2).
    assert (F3' : st_facts st3 fields' (length done) (ser (g :: rest'')) h' b' t' (Some (ser fs))).
    { unfold st3. destruct (negb (mp_found_body st2)); repeat split; cbn; assumption. }
    destruct F3' as (G1 & G2 & G3 & G4 & G5 & G6 & G7 & G8).
    (* the pending XMLDataLen *)
    set (prev' := if fst f =? TAG_XML_DATA_LEN then (if 0 <? scan_dec (snd f) 0 then Some (scan_dec (snd f) 0) else None) else None).
    assert (Hnext : exists xl', (if fst f =? TAG_XML_DATA_LEN then fm_get_int_or_zero (m_header (mp_msg st3)) TAG_XML_DATA_LEN
                                 else Ok (if xl >? 0 then 0 else xl)) = Ok xl' /\
                                match prev' with Some k0 => xl' = k0 /\ 0 < k0 | None => xl' <= 0 end /\
                                c11_values_ok prev' (g :: rest'') = true).
    { destruct f as [t v]. cbn [fst snd] in *. cbn [c11_values_ok] in Hvals. apply andb_true_iff in Hvals as [_ Hvals]. unfold prev'.
      destruct (t =? TAG_XML_DATA_LEN) eqn:E212.
      - destruct prev as [k0|]; [discriminate|]. repeat (apply andb_true_iff in Hvals as [Hvals ?]).
        assert (t = 212) by (unfold TAG_XML_DATA_LEN in E212; lia). subst t.
        rewrite G5. unfold h', addH. cbn [fst]. replace (is_header_field 212 td) with true by reflexivity.
        unfold init_of. cbn [fst snd]. rewrite get_int_after_add.
        + eexists. split; [reflexivity|]. destruct (0 <? scan_dec v 0) eqn:Ez; split; try assumption; lia.
        + exact Hvals.
        + destruct v; [cbn in *; discriminate|discriminate].
        + apply Nat.leb_le in H0. lia.
      - eexists. split; [reflexivity|]. split; [|exact Hvals]. destruct (xl >? 0) eqn:Ex; lia. }
    destruct Hnext as (xl' & Exl & Hxl' & Hvals'). rewrite Exl. cbn [bind].
    apply (IH (done ++ [f]) _ xl' prev' fuel).
    + intros hdr0' t0 Hin0. apply Hng. right. exact Hin0.
    + constructor; cbn [mp_set_field_index mp_msg mp_raw_bytes mp_field_index].
      * rewrite Hsplit, <- app_assoc. reflexivity.
      * exact G4.
      * rewrite G1. exact Efields'.
      * rewrite G3, app_length. cbn. lia.
      * rewrite G5, fold_left_snoc, <- Hh. reflexivity.
      * rewrite G6, fold_left_snoc, <- Hb. reflexivity.
      * rewrite G7, fold_left_snoc, <- Ht. reflexivity.
      * exact G8.
    + exact Hn.
    + cbn [length] in *. lia.
    + discriminate.
    + exact Htags'.
    + exact Hvals'.
    + exact Hxl'.
    + exact Hlast.
    + exact Hmid'.
Qed.

Lemma count_byte_app : forall c a b, count_byte c (a ++ b) = (count_byte c a + count_byte c b)%nat.
Proof. induction a as [|x a IH]; intros b; cbn; [reflexivity|]. rewrite IH. destruct (x =? c); lia. Qed.

Lemma count_soh_ser_ge : forall fs, (length fs <= count_byte SOH (ser fs))%nat.
Proof.
  induction fs as [|f fs IH]; [cbn; lia|]. unfold ser in *. cbn [map concat length]. rewrite count_byte_app.
  assert (1 <= count_byte SOH (ser_field f))%nat.
  { unfold ser_field. rewrite !count_byte_app. cbn. lia. }
  lia.
Qed.

Lemma dp_leading_fidelity : forall td n fs done f rest st,
  dp_rel td n fs done (f :: rest) st -> (length fs <= n)%nat ->
  c11_tag_ok (fst f) = true -> soh_free (snd f) = true -> tag_is_header (fst f) = true ->
  exists st', dp_leading st (fst f) = Ok st' /\ dp_rel td n fs (done ++ [f]) rest (mp_set_field_index st' (S (length done))).
Proof.
  intros td n fs done f rest st [Hsplit Hraw Hfields Hfi Hh Hb Ht Hmraw] Hn Htag Hv Hhdr.
  assert (Hld : (length done < n)%nat) by (rewrite Hsplit, app_length in Hn; cbn [length] in Hn; lia).
  unfold dp_leading. rewrite Hfields, Hfi.
  destruct (n - length done)%nat as [|k] eqn:Ek; [lia|]. rewrite repeat_S_cons, arr_get_map_at. cbn [bind].
  unfold extract_specific_field. rewrite Hraw, extract_field_ser by (try exact Hv; unfold c11_tag_ok, two63 in *; lia).
  cbn [bind]. change (tv_tag (init_of f)) with (fst f). rewrite Z.eqb_refl. cbn [bind]. rewrite arr_set_map_at. cbn [bind].
  eexists. split; [reflexivity|].
  constructor; cbn [mp_set_field_index mp_header_add mp_set_msg mp_parsed msg_set_header msg_set_fields mp_msg mp_raw_bytes mp_field_index m_fields m_header m_body m_trailer m_raw].
  - rewrite Hsplit, <- app_assoc. reflexivity.
  - reflexivity.
  - rewrite map_app, <- app_assoc, app_length. cbn [map app length]. replace (n - (length done + 1))%nat with k by lia. reflexivity.
  - rewrite app_length. cbn. lia.
  - rewrite fold_left_snoc, <- Hh. unfold addH, is_header_field. rewrite Hhdr. reflexivity.
  - rewrite fold_left_snoc, <- Hb. unfold addB, is_header_field. rewrite Hhdr. reflexivity.
  - rewrite fold_left_snoc, <- Ht. unfold addT, is_header_field. rewrite Hhdr. reflexivity.
  - exact Hmraw.
Qed.

(* the shape of a framed list *)
Lemma c11_framed_shape : forall fs, c11_framed fs = true ->
  exists v8 v9 v35 mid v10, fs = (8, v8) :: (9, v9) :: (35, v35) :: mid ++ [(10, v10)] /\
    Forall (fun f => c11_tag_ok (fst f) = true) fs /\ c11_values_ok None fs = true /\
    Forall (fun f => fst f <> TAG_CHECK_SUM /\ fst f <> TAG_BODY_LENGTH) mid.
Proof.
  intros fs H. unfold c11_framed in H.
  destruct fs as [|[t1 v8] [|[t2 v9] [|[t3 v35] rest]]]; try discriminate. cbn [fst] in H.
  repeat (apply andb_true_iff in H as [H ?]).
  assert (t1 = 8) by (unfold TAG_BEGIN_STRING in *; lia). assert (t2 = 9) by (unfold TAG_BODY_LENGTH in *; lia).
  assert (t3 = 35) by (unfold TAG_MSG_TYPE in *; lia). subst t1 t2 t3.
  destruct (rev rest) as [|[t10 v10] rmid] eqn:Er; [discriminate|]. cbn [fst] in *.
  match goal with Hx : _ && _ = true |- _ => apply andb_true_iff in Hx as [H10 Hrev] end.
  assert (t10 = 10) by (unfold TAG_CHECK_SUM in *; lia). subst t10.
  exists v8, v9, v35, (rev rmid), v10. split.
  - f_equal. f_equal. f_equal. rewrite <- (rev_involutive rest), Er. reflexivity.
  - split; [apply Forall_forall; match goal with Hx : forallb (fun f => c11_tag_ok (fst f)) _ = true |- _ => rewrite forallb_forall in Hx; exact Hx end|].
    split; [assumption|].
    apply Forall_forall. intros f Hf. apply in_rev in Hf. rewrite forallb_forall in Hrev. specialize (Hrev f Hf).
    unfold TAG_CHECK_SUM, TAG_BODY_LENGTH in *. lia.
Qed.

Lemma dp_fields_length_app : forall a b, dp_fields_length (a ++ b) = dp_fields_length a + dp_fields_length b.
Proof. unfold dp_fields_length. induction a as [|x a IH]; intros b; cbn [app fold_right]; [lia|]. rewrite IH. lia. Qed.

Lemma dp_fields_length_init : forall fs, dp_fields_length (map init_of fs) = c11_body_length fs.
Proof.
  unfold dp_fields_length, c11_body_length. induction fs as [|f fs IH]; cbn [map fold_right]; [reflexivity|]. rewrite IH. reflexivity.
Qed.
Lemma dp_fields_length_zero : forall k, dp_fields_length (repeat tv_zero k) = 0.
Proof. unfold dp_fields_length. induction k as [|k IH]; cbn [repeat fold_right]; [reflexivity|]. rewrite IH. reflexivity. Qed.

(* a framed message is parsed up to the final BodyLength comparison, and the message then holds exactly the wire fields *)
Lemma do_parsing_framed : forall fs td ad, c11_framed fs = true -> ad_no_group_start ad fs ->
  exists m, dp_msg td fs m /\
    do_parsing (ser fs) td ad =
      match fm_get_int (m_header m) TAG_BODY_LENGTH with
      | Ok bl => if c11_body_length fs =? bl then Ok m else Err E_BODY_LENGTH
      | Err _ => Err E_BODY_LENGTH_FIELD
      | Panic => Panic
      | OutOfFuel => OutOfFuel
      end.
Proof.
  intros fs td ad H Hng. destruct (c11_framed_shape fs H) as (v8 & v9 & v35 & mid & v10 & Efs & Htags & Hvals & Hmid).
  set (n := count_byte SOH (ser fs)). assert (Hn : (length fs <= n)%nat) by apply count_soh_ser_ge.
  assert (Hn4 : (4 <= n)%nat) by (rewrite Efs in Hn; cbn [length] in Hn; rewrite app_length in Hn; cbn in Hn; lia).
  unfold do_parsing. fold n. change TAG_BEGIN_STRING with 8. change TAG_MSG_TYPE with 35. change TAG_BODY_LENGTH with 9.
  replace (Nat.eqb n 0) with false by (symmetry; apply Nat.eqb_neq; lia).
  replace (Nat.ltb n 3) with false by (symmetry; apply Nat.ltb_ge; lia).
  set (st0 := mk_mp _ (ser fs) 0%nat 0%nat [] false false).
  assert (R0 : dp_rel td n fs [] fs st0).
  { constructor; cbn; try reflexivity. rewrite Nat.sub_0_r. reflexivity. }
  assert (Hvs : soh_free v8 = true /\ soh_free v9 = true /\ soh_free v35 = true /\ c11_values_ok None (mid ++ [(10, v10)]) = true).
  { rewrite Efs in Hvals. cbn [c11_values_ok] in Hvals. change (8 =? TAG_XML_DATA_LEN) with false in Hvals.
    change (9 =? TAG_XML_DATA_LEN) with false in Hvals. change (35 =? TAG_XML_DATA_LEN) with false in Hvals. cbv iota in Hvals.
    repeat (apply andb_true_iff in Hvals as [? Hvals]). tauto. }
  destruct Hvs as (Hs8 & Hs9 & Hs35 & Hvals').
  pose proof Htags as Htags0. rewrite Efs in Htags. apply Forall_cons_iff in Htags as [Ht8 Htags]. apply Forall_cons_iff in Htags as [Ht9 Htags].
  apply Forall_cons_iff in Htags as [Ht35 Htags].
  rewrite Efs in R0 at 2.
  destruct (dp_leading_fidelity td n fs [] (8, v8) _ st0 R0 Hn Ht8 Hs8 eq_refl) as (st1 & E1 & R1). cbn [fst] in E1. rewrite E1. cbn [bind].
  cbn [length app] in R1.
  destruct (dp_leading_fidelity td n fs [(8, v8)] (9, v9) _ _ R1 Hn Ht9 Hs9 eq_refl) as (st2 & E2 & R2). cbn [fst] in E2.
  change (mp_set_field_index (mp_set_field_index st1 1) 1) with (mp_set_field_index st1 1) in E2.
  unfold dp_leading in E2 |- *. cbn [mp_set_field_index mp_msg mp_field_index mp_raw_bytes] in E2 |- *. rewrite E2. cbn [bind].
  cbn [length app] in R2.
  destruct (dp_leading_fidelity td n fs [(8, v8); (9, v9)] (35, v35) _ _ R2 Hn Ht35 Hs35 eq_refl) as (st3 & E3 & R3). cbn [fst] in E3.
  unfold dp_leading in E3. cbn [mp_set_field_index mp_msg mp_field_index mp_raw_bytes] in E3. rewrite E3. cbn [bind].
  cbn [length app] in R3.
  assert (Hng' : ad_no_group_start ad (mid ++ [(10, v10)])).
  { intros hdr0' t0 Hin0. apply Hng. rewrite Efs. right; right; right. exact Hin0. }
  destruct (dp_loop_fidelity td ad n fs (mid ++ [(10, v10)]) [(8, v8); (9, v9); (35, v35)] _ 0 None (S n) Hng' R3 Hn) as (st4 & E4 & F4).
  { rewrite Efs in Hn. cbn [length] in Hn. lia. }
  { destruct mid; discriminate. }
  { exact Htags. }
  { exact Hvals'. }
  { lia. }
  { rewrite last_last. reflexivity. }
  { rewrite removelast_last. apply Forall_forall. intros f Hf. rewrite Forall_forall in Hmid. apply (Hmid f Hf). }
  rewrite E4. cbn [bind].
  destruct F4 as (G1 & G2 & G3 & G4 & G5 & G6).
  match goal with |- context [fm_get_int (m_header (msg_set_body_bytes ?x ?y)) 9] => set (M := msg_set_body_bytes x y) end.
  assert (HM : m_fields M = firstn (S (mp_field_index st4)) (m_fields (mp_msg st4)) /\ m_header M = m_header (mp_msg st4) /\
               m_body M = m_body (mp_msg st4) /\ m_trailer M = m_trailer (mp_msg st4) /\ m_raw M = m_raw (mp_msg st4)).
  { unfold M. cbn [mp_set_msg mp_found_trailer mp_found_body].
    destruct (mp_found_trailer st4 && negb (mp_found_body st4)); repeat split; reflexivity. }
  destruct HM as (M1 & M2 & M3 & M4 & M5).
  rewrite G6, G1, firstn_init_exact in M1.
  exists M. split.
  - unfold dp_msg. rewrite M1, M2, M3, M4, M5. repeat split; assumption.
  - destruct (fm_get_int (m_header M) 9); try reflexivity.
    rewrite M1, dp_fields_length_init. reflexivity.
Qed.

(* ---------- what the section maps hold after the parse ---------- *)
Definition cond_add (sel : Z -> bool) (m : fmap) (f : Z * bytes) : fmap := if sel (fst f) then fm_add m (init_of f, []) else m.

Lemma fold_cond_add_lookup : forall sel fs m0 t,
  lk_get (fm_lookup (fold_left (cond_add sel) fs m0)) t =
  if sel t then match c11_last_value fs t with Some v => Some (tv_init t v, []) | None => lk_get (fm_lookup m0) t end
  else lk_get (fm_lookup m0) t.
Proof.
  intros sel. induction fs as [|[k v] fs IH]; intros m0 t; cbn [fold_left c11_last_value].
  - destruct (sel t); reflexivity.
  - rewrite IH. unfold cond_add. cbn [fst]. fold (cond_add sel).
    assert (Hk : lk_get (fm_lookup (if sel k then fm_add m0 (init_of (k, v), []) else m0)) t =
                 if sel k && (k =? t) then Some (tv_init k v, []) else lk_get (fm_lookup m0) t).
    { destruct (sel k); cbn [andb]; [|reflexivity]. unfold fm_add. cbn [fm_lookup field_tag fst init_of tv_init tv_tag snd].
      destruct (k =? t) eqn:E.
      - assert (k = t) by lia. subst. apply lk_get_put_same.
      - apply lk_get_put_other. lia. }
    rewrite Hk. destruct (sel t) eqn:St.
    + destruct (c11_last_value fs t); [reflexivity|]. destruct (k =? t) eqn:E.
      * assert (k = t) by lia. subst. rewrite St. reflexivity.
      * rewrite andb_false_r. reflexivity.
    + destruct (k =? t) eqn:E; [assert (k = t) by lia; subst; rewrite St; reflexivity|]. rewrite andb_false_r. reflexivity.
Qed.

(* the section a tag belongs to, as the parser classifies it *)
Definition parsed_section (td : option transport_dict) (t : Z) (m : message) : fmap :=
  if is_header_field t td then m_header m else if is_trailer_field t td then m_trailer m else m_body m.

Lemma addH_cond : forall td, addH td = cond_add (fun t => is_header_field t td).
Proof. reflexivity. Qed.
Lemma addT_cond : forall td m f, addT td m f = cond_add (fun t => negb (is_header_field t td) && is_trailer_field t td) m f.
Proof. intros. unfold addT, cond_add. destruct (is_header_field (fst f) td), (is_trailer_field (fst f) td); reflexivity. Qed.
Lemma addB_cond : forall td m f, addB td m f = cond_add (fun t => negb (is_header_field t td) && negb (is_trailer_field t td)) m f.
Proof. intros. unfold addB, cond_add. destruct (is_header_field (fst f) td), (is_trailer_field (fst f) td); reflexivity. Qed.

Lemma fold_left_ext {A S} (g1 g2 : S -> A -> S) : (forall s a, g1 s a = g2 s a) -> forall l s, fold_left g1 l s = fold_left g2 l s.
Proof. intros H. induction l as [|a l IH]; intros s; cbn; [reflexivity|]. rewrite H. apply IH. Qed.

Lemma final_retrieval : forall td fs m t v, dp_msg td fs m ->
  c11_last_value fs t = Some v -> fm_get_bytes (parsed_section td t m) t = Ok v.
Proof.
  intros td fs m t v (_ & Hh & Hb & Ht & _) Hlast. unfold parsed_section, fm_get_bytes.
  destruct (is_header_field t td) eqn:Eh.
  - rewrite Hh, addH_cond, fold_cond_add_lookup, Eh, Hlast. reflexivity.
  - destruct (is_trailer_field t td) eqn:Et.
    + rewrite Ht. rewrite (fold_left_ext _ _ (addT_cond td)), fold_cond_add_lookup, Eh, Et, Hlast. reflexivity.
    + rewrite Hb. rewrite (fold_left_ext _ _ (addB_cond td)), fold_cond_add_lookup, Eh, Et, Hlast. reflexivity.
Qed.

Lemma c11_last_value_none : forall l t, Forall (fun f => fst f <> t) l -> c11_last_value l t = None.
Proof.
  induction l as [|[k v] l IH]; intros t H; cbn [c11_last_value]; [reflexivity|]. apply Forall_cons_iff in H as [Hk Hl].
  rewrite (IH t Hl). cbn [fst] in Hk. replace (k =? t) with false by lia. reflexivity.
Qed.

Lemma framed_body_length_value : forall v8 v9 v35 mid v10,
  Forall (fun f => fst f <> TAG_CHECK_SUM /\ fst f <> TAG_BODY_LENGTH) mid ->
  c11_last_value ((8, v8) :: (9, v9) :: (35, v35) :: mid ++ [(10, v10)]) TAG_BODY_LENGTH = Some v9.
Proof.
  intros v8 v9 v35 mid v10 Hmid. cbn [c11_last_value].
  rewrite (c11_last_value_none (mid ++ [(10, v10)]) TAG_BODY_LENGTH).
  - reflexivity.
  - apply Forall_app. split; [apply Forall_forall; intros f Hf; rewrite Forall_forall in Hmid; apply (Hmid f Hf)|].
    constructor; [cbn; discriminate|constructor].
Qed.

Lemma len_nonneg : forall l, 0 <= len l.
Proof. intros. unfold len. lia. Qed.

Lemma c11_body_length_nonneg : forall fs, 0 <= c11_body_length fs.
Proof.
  unfold c11_body_length. induction fs as [|f fs IH]; cbn [fold_right]; [lia|].
  pose proof (len_nonneg (ser_field f)). destruct (c11_counts (fst f)); lia.
Qed.

(* C11: a well-formed wire message is accepted; raw bytes unchanged; the field array is exactly the wire's fields in
   order (also when XMLData held SOH bytes: the slots allocated for those are dropped); every field is found in the
   section of its tag, last occurrence wins *)
Theorem parse_fidelity : forall fs td ad, c11_wire_ok fs = true -> ad_no_group_start ad fs ->
  exists m, do_parsing (ser fs) td ad = Ok m /\ m_raw m = Some (ser fs) /\
    m_fields m = map init_of fs /\
    forall t v, c11_last_value fs t = Some v -> fm_get_bytes (parsed_section td t m) t = Ok v.
Proof.
  intros fs td ad H Hng. unfold c11_wire_ok in H. apply andb_true_iff in H as [Hfr H9].
  destruct (do_parsing_framed fs td ad Hfr Hng) as (m & Hfin & Hdo).
  destruct (c11_framed_shape fs Hfr) as (v8 & v9 & v35 & mid & v10 & Efs & _ & _ & Hmid).
  rewrite Efs in H9. apply andb_true_iff in H9 as [Hv9 Hbound]. rewrite <- Efs in Hv9, Hbound.
  assert (Ev9 : v9 = itoa (c11_body_length fs)).
  { clear -Hv9. revert Hv9. generalize (itoa (c11_body_length fs)). induction v9 as [|x v IH]; intros [|y w] Hq; cbn in Hq; try discriminate; [reflexivity|].
    apply andb_true_iff in Hq as [Hx Hw]. f_equal; [lia|apply IH; exact Hw]. }
  assert (Hget : fm_get_int (m_header m) TAG_BODY_LENGTH = Ok (c11_body_length fs)).
  { pose proof (final_retrieval td fs m TAG_BODY_LENGTH v9 Hfin) as Hr. rewrite Efs in Hr at 1.
    specialize (Hr (framed_body_length_value v8 v9 v35 mid v10 Hmid)).
    unfold parsed_section in Hr. replace (is_header_field TAG_BODY_LENGTH td) with true in Hr by reflexivity.
    unfold fm_get_int. rewrite Hr. cbn [bind]. unfold fix_int_read. rewrite Ev9, atoi_itoa; [reflexivity|].
    pose proof (c11_body_length_nonneg fs). unfold in_int64, two63. lia. }
  rewrite Hget, Z.eqb_refl in Hdo. exists m. split; [exact Hdo|].
  pose proof Hfin as (F1 & F2 & F3 & F4 & F5). split; [exact F5|]. split; [exact F1|].
  intros t v Hl. exact (final_retrieval td fs m t v Hfin Hl).
Qed.

(* C11: a framed message whose BodyLength field does not announce the byte count of its fields is rejected *)
Theorem parse_rejects_wrong_body_length : forall fs td ad f1 v9 rest, c11_framed fs = true -> ad_no_group_start ad fs ->
  fs = f1 :: (9, v9) :: rest ->
  c11_declared v9 <> Some (c11_body_length fs) -> exists e, do_parsing (ser fs) td ad = Err e.
Proof.
  intros fs td ad f1 v9' rest Hfr Hng Efs' Hdecl.
  destruct (do_parsing_framed fs td ad Hfr Hng) as (m & Hfin & Hdo).
  destruct (c11_framed_shape fs Hfr) as (v8 & v9 & v35 & mid & v10 & Efs & _ & _ & Hmid).
  assert (v9' = v9) by (rewrite Efs in Efs'; inversion Efs'; reflexivity). subst v9'.
  pose proof (final_retrieval td fs m TAG_BODY_LENGTH v9 Hfin) as Hr. rewrite Efs in Hr at 1.
  specialize (Hr (framed_body_length_value v8 v9 v35 mid v10 Hmid)).
  unfold parsed_section in Hr. replace (is_header_field TAG_BODY_LENGTH td) with true in Hr by reflexivity.
  rewrite Hdo. unfold fm_get_int. rewrite Hr. cbn [bind]. unfold fix_int_read.
  destruct (atoi_total v9) as [T1 T2]. destruct (atoi v9) as [bl|e| |] eqn:Ea; try congruence; [|eauto].
  destruct (c11_body_length fs =? bl) eqn:Eq; [|eauto]. exfalso. assert (bl = c11_body_length fs) by lia. subst bl.
  apply atoi_ok_iff in Ea. unfold int_read_spec in Ea.
  destruct (int_grammar v9) eqn:Eg; cbn [andb] in Ea; [|discriminate]. destruct (in_int64b (int_value v9)); [|discriminate].
  inversion Ea as [Ev]. clear Ea.
  (* the announced number is positive: the MsgType field alone counts *)
  assert (Hpos : 0 < c11_body_length fs).
  { rewrite Efs. unfold c11_body_length. cbn [fold_right fst]. change (c11_counts 8) with false. change (c11_counts 9) with false.
    change (c11_counts 35) with true. cbv iota.
    pose proof (c11_body_length_nonneg (mid ++ [(10, v10)])) as Hnn. unfold c11_body_length in Hnn.
    assert (1 <= len (ser_field (35, v35))).
    { unfold ser_field, len. rewrite !app_length. cbn [length]. lia. }
    lia. }
  destruct v9 as [|c r]; [discriminate|]. destruct (int_grammar_cases c r Eg) as [(Hc & Hne & Hd) | (Hc & Hd)].
  - subst c. unfold int_value in Ev. change (MINUS =? MINUS) with true in Ev. cbv iota in Ev. pose proof (dec_value_nonneg r Hd). lia.
  - apply Hdecl. unfold c11_declared. unfold all_digits in Hd. rewrite Hd.
    destruct (digits_int_grammar (c :: r) Hd ltac:(discriminate)) as [_ Hv]. rewrite <- Hv, Ev. reflexivity.
Qed.

(* ---------- rejection of a wrong leading order (any dictionaries) ---------- *)
Lemma count_byte_zero : forall c l, forallb (fun x => negb (x =? c)) l = true -> count_byte c l = 0%nat.
Proof.
  induction l as [|x l IH]; intros H; cbn in *; [reflexivity|]. apply andb_true_iff in H as [Hx Hl].
  destruct (x =? c); [discriminate|]. apply IH. exact Hl.
Qed.

Definition plain_field (f : Z * bytes) : Prop := c11_tag_ok (fst f) = true /\ soh_free (snd f) = true.

Lemma count_soh_ser_plain : forall fs, Forall plain_field fs -> count_byte SOH (ser fs) = length fs.
Proof.
  induction fs as [|[t v] fs IH]; intros H; [reflexivity|]. apply Forall_cons_iff in H as [[Ht Hv] Hfs]. cbn [fst snd] in *.
  unfold ser in *. cbn [map concat length]. rewrite count_byte_app, (IH Hfs). unfold ser_field. cbn [fst snd].
  rewrite !count_byte_app. rewrite (count_byte_zero SOH (itoa t)), (count_byte_zero SOH v).
  - cbn. lia.
  - exact Hv.
  - apply digits_no_byte; [apply itoa_all_digits_nonneg; unfold c11_tag_ok in Ht; lia|reflexivity].
Qed.

Lemma dp_leading_mismatch : forall td n fs done f rest st e,
  dp_rel td n fs done (f :: rest) st -> (length fs <= n)%nat -> plain_field f -> fst f <> e ->
  dp_leading st e = Err E_OUT_OF_ORDER.
Proof.
  intros td n fs done f rest st e [Hsplit Hraw Hfields Hfi _ _ _ _] Hn [Htag Hv] Hne.
  assert (Hld : (length done < n)%nat) by (rewrite Hsplit, app_length in Hn; cbn [length] in Hn; lia).
  unfold dp_leading. rewrite Hfields, Hfi.
  destruct (n - length done)%nat as [|k] eqn:Ek; [lia|]. rewrite repeat_S_cons, arr_get_map_at. cbn [bind].
  unfold extract_specific_field. rewrite Hraw, extract_field_ser by (try exact Hv; unfold c11_tag_ok, two63 in *; lia).
  cbn [bind]. change (tv_tag (init_of f)) with (fst f). replace (fst f =? e) with false by lia. reflexivity.
Qed.

Theorem parse_rejects_wrong_leading_order : forall fs td ad, Forall plain_field fs -> c11_lead_ok fs = false ->
  exists e, do_parsing (ser fs) td ad = Err e.
Proof.
  intros fs td ad Hplain Hlead. unfold do_parsing. rewrite (count_soh_ser_plain fs Hplain).
  destruct fs as [|f1 [|f2 [|f3 rest]]]; try (cbn; eauto; fail).
  set (fs := f1 :: f2 :: f3 :: rest) in *. set (n := length fs).
  replace (Nat.eqb n 0) with false by reflexivity. replace (Nat.ltb n 3) with false by reflexivity.
  change TAG_BEGIN_STRING with 8. change TAG_MSG_TYPE with 35. change TAG_BODY_LENGTH with 9.
  set (st0 := mk_mp _ (ser fs) 0%nat 0%nat [] false false).
  assert (R0 : dp_rel td n fs [] fs st0).
  { constructor; cbn; try reflexivity. }
  assert (Hn : (length fs <= n)%nat) by (unfold n; lia).
  pose proof Hplain as Hp. apply Forall_cons_iff in Hp as [P1 Hp]. apply Forall_cons_iff in Hp as [P2 Hp]. apply Forall_cons_iff in Hp as [P3 _].
  destruct (Z.eq_dec (fst f1) 8) as [E1|N1].
  2:{ rewrite (dp_leading_mismatch td n fs [] f1 _ st0 8 R0 Hn P1 N1). cbn [bind]. eauto. }
  destruct (dp_leading_fidelity td n fs [] f1 _ st0 R0 Hn (proj1 P1) (proj2 P1)) as (st1 & Ed1 & R1); [rewrite E1; reflexivity|].
  rewrite E1 in Ed1. rewrite Ed1. cbn [bind]. cbn [length app] in R1.
  destruct (Z.eq_dec (fst f2) 9) as [E2|N2].
  2:{ rewrite (dp_leading_mismatch td n fs [f1] f2 _ _ 9 R1 Hn P2 N2). cbn [bind]. eauto. }
  destruct (dp_leading_fidelity td n fs [f1] f2 _ _ R1 Hn (proj1 P2) (proj2 P2)) as (st2 & Ed2 & R2); [rewrite E2; reflexivity|].
  rewrite E2 in Ed2. rewrite Ed2. cbn [bind]. cbn [length app] in R2.
  destruct (Z.eq_dec (fst f3) 35) as [E3|N3].
  2:{ rewrite (dp_leading_mismatch td n fs [f1; f2] f3 _ _ 35 R2 Hn P3 N3). cbn [bind]. eauto. }
  exfalso. destruct f1 as [t1 v1], f2 as [t2 v2], f3 as [t3 v3]. cbn [fst] in *. subst. discriminate Hlead.
Qed.

(* non-vacuity: a wire_ok message with XMLData holding an SOH byte, a user-defined tag and a repeated tag *)
Definition c11_example_fields : list (Z * bytes) :=
  [ (8, [70; 73; 88; 46; 52; 46; 50]); (9, [51; 55]); (35, [68]); (212, [51]); (213, [97; 1; 98]);
    (55, [88]); (5001, [61; 200]); (55, [89]); (10, [48; 48; 48]) ].
Lemma c11_example_wire_ok : c11_wire_ok c11_example_fields = true.
Proof. vm_compute. reflexivity. Qed.
