(* tag_value.go (TagValue.init / parse / total / length) and tag.go (IsHeader / IsTrailer).
   Function-by-function model; lemmas in TagValueProofs.v. *)
From Coq Require Import ZArith List Bool.
From QF Require Import Base.Res Base.Bytes Codec.FixInt Spec.FixStd.
Import ListNotations.
Open Scope Z_scope.

(* type TagValue struct { tag Tag; value []byte; bytes []byte } *)
Record tv : Type := mk_tv { tv_tag : Z; tv_value : bytes; tv_bytes : bytes }.

(* the zero TagValue of a freshly made []TagValue *)
Definition tv_zero : tv := mk_tv 0 [] [].

(* func (tv *TagValue) init(tag Tag, value []byte): strconv.AppendInt(tag) ++ "=" ++ value ++ "\001" *)
Definition tv_init (tag : Z) (value : bytes) : tv :=
  mk_tv tag value (itoa tag ++ [EQ] ++ value ++ [SOH]).

Definition E_TV_NO_EQ : Z := 11.     (* tagValue.Parse: No '=' in ... *)
Definition E_TV_NO_TAG : Z := 12.    (* tagValue.Parse: No tag in ... *)
Definition E_TV_ATOI : Z := 13.      (* tagValue.Parse: <atoi error> *)

(* rawFieldBytes[i] == '=' for the four probes of the fast path (indices are in range: len >= 5) *)
Definition tv_is_eq_at (raw : bytes) (i : nat) : bool :=
  match nth_error raw i with Some b => b =? EQ | None => false end.

(* the separator search of TagValue.parse: five-byte fast path, then bytes.IndexByte *)
Definition tv_sep_index (raw : bytes) : res nat :=
  if Nat.leb 5 (length raw) && tv_is_eq_at raw 1 then Ok 1%nat
  else if Nat.leb 5 (length raw) && tv_is_eq_at raw 2 then Ok 2%nat
  else if Nat.leb 5 (length raw) && tv_is_eq_at raw 3 then Ok 3%nat
  else if Nat.leb 5 (length raw) && tv_is_eq_at raw 4 then Ok 4%nat
  else match index_byte EQ raw with
       | None => Err E_TV_NO_EQ
       | Some O => Err E_TV_NO_TAG
       | Some i => Ok i
       end.

(* func (tv *TagValue) parse(rawFieldBytes []byte) error.
   Returns the new TagValue; on Err the receiver is left unchanged by the Go code (callers keep the old one).
   value = raw[sep+1 : n-1 : n-1] panics when sep+1 > n-1 (a raw field whose last byte is the separator). *)
Definition tv_parse (raw : bytes) : res tv :=
  let* sep := tv_sep_index raw in
  match atoi (firstn sep raw) with
  | Ok parsed_tag =>
      let n := length raw in
      if Nat.leb (S sep) (Nat.pred n) && Nat.leb 1 n
      then Ok (mk_tv parsed_tag (firstn (Nat.pred n - S sep) (skipn (S sep) raw)) raw)
      else Panic
  | Err _ => Err E_TV_ATOI
  | Panic => Panic
  | OutOfFuel => OutOfFuel
  end.

(* func (tv TagValue) total() int / length() int *)
Definition tv_total (t : tv) : Z := bytes_total (tv_bytes t).
Definition tv_length (t : tv) : Z := len (tv_bytes t).

(* (tag, value) view of a field, as an independent scanner of the wire would report it *)
Definition tv_pair (t : tv) : Z * bytes := (tv_tag t, tv_value t).

(* ---- tag.go: Tag.IsHeader / Tag.IsTrailer.  The case lists live in Spec/FixStd.v (one place). ---- *)
Definition tag_is_header (t : Z) : bool := fixstd_is_header t.
Definition tag_is_trailer (t : Z) : bool := fixstd_is_trailer t.
