(* Lemmas about the model of parser.go (Framer.v) and its specification (FramerSpec.v): C12. *)
From Coq Require Import ZArith List Bool Lia ZifyBool.
From Coq Require String.
From QF Require Import Base.Res Base.Bytes Codec.FixInt Codec.FixIntProofs Codec.Framer Codec.FramerSpec.
Import ListNotations.
Open Scope Z_scope.

(* ------------------------------------------------------------------ lists *)

Lemma fr_firstn_app_exact {A} (l1 l2 : list A) : firstn (length l1) (l1 ++ l2) = l1.
Proof. induction l1 as [|x l1 IH]; cbn; [destruct l2; reflexivity | now rewrite IH]. Qed.

Lemma fr_firstn_app_plus {A} (l1 l2 : list A) n : firstn (length l1 + n) (l1 ++ l2) = l1 ++ firstn n l2.
Proof. induction l1 as [|x l1 IH]; cbn; [reflexivity | now rewrite IH]. Qed.

Lemma fr_skipn_app_exact {A} (l1 l2 : list A) : skipn (length l1) (l1 ++ l2) = l2.
Proof. induction l1 as [|x l1 IH]; cbn; [reflexivity | exact IH]. Qed.

Lemma fr_skipn_app_plus {A} (l1 l2 : list A) n : skipn (length l1 + n) (l1 ++ l2) = skipn n l2.
Proof. induction l1 as [|x l1 IH]; cbn; [reflexivity | exact IH]. Qed.

Lemma fr_skipn_app_le {A} (l1 l2 : list A) n : (n <= length l1)%nat -> skipn n (l1 ++ l2) = skipn n l1 ++ l2.
Proof.
  revert n. induction l1 as [|x l1 IH]; intros n H; cbn in *.
  - assert (n = O) by lia. subst. reflexivity.
  - destruct n as [|n]; [reflexivity|]. cbn. apply IH. lia.
Qed.

Lemma fr_firstn_app_le {A} (l1 l2 : list A) n : (n <= length l1)%nat -> firstn n (l1 ++ l2) = firstn n l1.
Proof.
  revert n. induction l1 as [|x l1 IH]; intros n H; cbn in *.
  - assert (n = O) by lia. subst. reflexivity.
  - destruct n as [|n]; [reflexivity|]. cbn. f_equal. apply IH. lia.
Qed.

Lemma fr_skipn_skipn {A} (l : list A) a b : skipn a (skipn b l) = skipn (b + a) l.
Proof.
  revert l. induction b as [|b IH]; intros l; [reflexivity|].
  destruct l as [|x l]; cbn; [now rewrite skipn_nil | apply IH].
Qed.

Lemma fr_split3 (big : bytes) off n :
  big = firstn off big ++ firstn n (skipn off big) ++ skipn (off + n) big.
Proof.
  rewrite <- (fr_skipn_skipn big n off).
  rewrite (firstn_skipn n (skipn off big)). now rewrite firstn_skipn.
Qed.

Lemma fr_skipn_firstn_comm {A} (l : list A) a b : skipn a (firstn (a + b) l) = firstn b (skipn a l).
Proof.
  revert l. induction a as [|a IH]; intros l; [reflexivity|].
  destruct l as [|x l]; cbn; [now rewrite firstn_nil | apply IH].
Qed.

(* ------------------------------------------------------------------ first occurrences *)

Lemma fr_index_sub_eq d l :
  index_sub d l = if has_prefix d l then Some O else
                  match l with [] => None | _ :: r => option_map S (index_sub d r) end.
Proof. destruct l; reflexivity. Qed.

Lemma fr_has_prefix_app d l r : has_prefix d l = true -> has_prefix d (l ++ r) = true.
Proof.
  revert l. induction d as [|x d IH]; intros l H; [reflexivity|].
  destruct l as [|y l]; cbn in *; [discriminate|].
  apply andb_true_iff in H as [H1 H2]. rewrite H1. cbn. now apply IH.
Qed.

Lemma fr_has_prefix_length d l : has_prefix d l = true -> (length d <= length l)%nat.
Proof.
  revert l. induction d as [|x d IH]; intros l H; cbn; [lia|].
  destruct l as [|y l]; cbn in *; [discriminate|].
  apply andb_true_iff in H as [_ H2]. apply IH in H2. lia.
Qed.

Lemma fr_has_prefix_app_inv d m r :
  has_prefix d m = false -> has_prefix d (m ++ r) = true -> (length d > length m)%nat.
Proof.
  revert m. induction d as [|y d IHd]; intros m Hp Hp2; [discriminate|].
  destruct m as [|z m]; [cbn; lia|].
  cbn in Hp, Hp2. destruct (y =? z); cbn in *; [|discriminate].
  specialize (IHd m Hp Hp2). lia.
Qed.

Lemma fr_has_prefix_self d r : has_prefix d (d ++ r) = true.
Proof.
  induction d as [|x d IH]; [reflexivity|]. cbn. rewrite Z.eqb_refl. exact IH.
Qed.

(* a first occurrence inside a prefix of the stream is the first occurrence in the stream *)
Lemma fr_index_sub_app d l r i : index_sub d l = Some i -> index_sub d (l ++ r) = Some i.
Proof.
  revert i. induction l as [|x l IH]; intros i H.
  - rewrite fr_index_sub_eq in H. destruct (has_prefix d []) eqn:Hp; [|discriminate].
    injection H as <-. rewrite fr_index_sub_eq. now rewrite (fr_has_prefix_app d [] r Hp).
  - rewrite fr_index_sub_eq in H. rewrite fr_index_sub_eq.
    destruct (has_prefix d (x :: l)) eqn:Hp.
    + now rewrite (fr_has_prefix_app d (x :: l) r Hp).
    + cbn [app]. destruct (has_prefix d (x :: l ++ r)) eqn:Hp2.
      * (* a match that needs bytes of r cannot happen when d occurs in l at all *)
        destruct (index_sub d l) as [k|] eqn:Hk; [|discriminate].
        exfalso. clear IH H.
        (* d is a prefix of x :: l ++ r but not of x :: l, so |d| > |x :: l| ; but d occurs in l *)
        assert (Hlen : (length d > length (x :: l))%nat).
        { change (x :: l ++ r) with ((x :: l) ++ r) in Hp2. exact (fr_has_prefix_app_inv _ _ _ Hp Hp2). }
        assert (Hb : (k + length d <= length l)%nat).
        { clear Hlen Hp Hp2. revert k Hk. induction l as [|z l IHl]; intros k Hk.
          - rewrite fr_index_sub_eq in Hk. destruct (has_prefix d []) eqn:E; [|discriminate].
            injection Hk as <-. apply fr_has_prefix_length in E. cbn in *. lia.
          - rewrite fr_index_sub_eq in Hk. destruct (has_prefix d (z :: l)) eqn:E.
            + injection Hk as <-. apply fr_has_prefix_length in E. cbn in *. lia.
            + destruct (index_sub d l) as [k'|] eqn:Hk'; [|discriminate]. injection Hk as <-.
              specialize (IHl k' eq_refl). cbn. lia. }
        cbn in Hlen. lia.
      * destruct (index_sub d l) as [k|] eqn:Hk; [|discriminate].
        now rewrite (IH k eq_refl).
Qed.

Lemma fr_index_sub_bound d l i : index_sub d l = Some i -> (i + length d <= length l)%nat.
Proof.
  revert i. induction l as [|z l IHl]; intros k Hk.
  - rewrite fr_index_sub_eq in Hk. destruct (has_prefix d []) eqn:E; [|discriminate].
    injection Hk as <-. apply fr_has_prefix_length in E. cbn in *. lia.
  - rewrite fr_index_sub_eq in Hk. destruct (has_prefix d (z :: l)) eqn:E.
    + injection Hk as <-. apply fr_has_prefix_length in E. cbn in *. lia.
    + destruct (index_sub d l) as [k'|] eqn:Hk'; [|discriminate]. injection Hk as <-.
      specialize (IHl k' eq_refl). cbn. lia.
Qed.

Lemma fr_index_sub_nil d : d <> [] -> index_sub d [] = None.
Proof. destruct d; [congruence | reflexivity]. Qed.

(* ------------------------------------------------------------------ window invariant *)

Definition fr_inv (p : fr_parser) : Prop :=
  (fr_off p + fr_cap p = length (fr_big p))%nat /\ (fr_len p <= fr_cap p)%nat /\ Forall fr_nonempty (fr_rd p).

(* the stream from the start of the buffer on: buffered bytes, then what the reader still holds *)
Definition fr_rem (p : fr_parser) : bytes := fr_window p ++ concat (fr_rd p).

Definition fr_pending (p : fr_parser) : nat := length (concat (fr_rd p)).

Lemma fr_window_length p : fr_inv p -> length (fr_window p) = fr_len p.
Proof.
  intros (H1 & H2 & _). unfold fr_window. rewrite firstn_length, skipn_length. lia.
Qed.

Lemma fr_buf_size_pos : (0 < FR_DEFAULT_BUF_SIZE)%nat.
Proof. unfold FR_DEFAULT_BUF_SIZE. lia. Qed.

Lemma fr_refill_spec p : fr_inv p ->
  fr_inv (fr_refill p) /\ fr_window (fr_refill p) = fr_window p /\ fr_rd (fr_refill p) = fr_rd p /\
  (fr_len (fr_refill p) < fr_cap (fr_refill p))%nat.
Proof.
  intros Hinv. pose proof (fr_window_length p Hinv) as HW. destruct Hinv as (H1 & H2 & H3).
  unfold fr_refill. destruct (Nat.eqb (fr_len p) (fr_cap p)) eqn:E1.
  - apply Nat.eqb_eq in E1. destruct (Nat.eqb (length (fr_big p)) 0) eqn:E2.
    + apply Nat.eqb_eq in E2. pose proof fr_buf_size_pos.
      repeat split; cbn [fr_off fr_cap fr_len fr_big fr_rd]; try lia; try assumption.
      all: try (rewrite repeat_length; lia).
      unfold fr_window. cbn [fr_off fr_cap fr_len fr_big fr_rd].
      assert (fr_len p = O) as -> by lia. reflexivity.
    + apply Nat.eqb_neq in E2. destruct (Nat.leb (2 * fr_len p) (length (fr_big p))) eqn:E3.
      * apply Nat.leb_le in E3.
        repeat split; cbn [fr_off fr_cap fr_len fr_big fr_rd]; try lia; try assumption.
        -- unfold fr_copy_front. rewrite app_length, skipn_length, HW. lia.
        -- unfold fr_window at 1. cbn [fr_off fr_cap fr_len fr_big fr_rd skipn].
           unfold fr_copy_front. rewrite <- HW at 1. apply fr_firstn_app_exact.
      * apply Nat.leb_gt in E3.
        repeat split; cbn [fr_off fr_cap fr_len fr_big fr_rd]; try lia; try assumption.
        -- unfold fr_copy_front. rewrite app_length, skipn_length, repeat_length, HW. lia.
        -- unfold fr_window at 1. cbn [fr_off fr_cap fr_len fr_big fr_rd skipn].
           unfold fr_copy_front. rewrite <- HW at 1. apply fr_firstn_app_exact.
  - apply Nat.eqb_neq in E1. repeat split; try assumption; lia.
Qed.

Lemma fr_reader_read_spec rd k d rd' eof :
  Forall fr_nonempty rd -> (0 < k)%nat -> fr_reader_read rd k = (d, rd', eof) ->
  d ++ concat rd' = concat rd /\ Forall fr_nonempty rd' /\ (length d <= k)%nat /\
  match rd with
  | [] => d = [] /\ rd' = [] /\ eof = true
  | _ => d <> [] /\ eof = false
  end.
Proof.
  intros Hne Hk Hr. destruct rd as [|c r]; cbn in Hr.
  - injection Hr as <- <- <-. repeat split; auto. cbn; lia.
  - inversion Hne as [|? ? Hc Hr']; subst.
    assert (Hd : firstn k c <> []).
    { destruct c; [now elim Hc|]. destruct k; [lia|]. discriminate. }
    assert (Hl : (length (firstn k c) <= k)%nat) by (rewrite firstn_length; lia).
    destruct (skipn k c) as [|y c'] eqn:Es; injection Hr as <- <- <-.
    + repeat split; auto. cbn. f_equal.
      rewrite <- (firstn_skipn k c) at 2. rewrite Es. now rewrite app_nil_r.
    + repeat split; auto.
      * cbn [concat]. rewrite app_assoc. f_equal. rewrite <- Es. apply firstn_skipn.
      * constructor; [discriminate | assumption].
Qed.

Lemma fr_write_at_split (A W R d : bytes) :
  fr_write_at (A ++ W ++ R) (length A + length W) d = A ++ W ++ d ++ skipn (length d) R.
Proof.
  unfold fr_write_at.
  replace (A ++ W ++ R) with ((A ++ W) ++ R) by now rewrite app_assoc.
  rewrite <- app_length.
  rewrite fr_firstn_app_exact, fr_skipn_app_plus. now rewrite <- app_assoc.
Qed.

(* readMore keeps the invariant and the remaining stream; it either reports EOF without changing the window
   or moves at least one byte from the reader into the window *)
Lemma fr_read_more_spec p p' n eof : fr_inv p -> fr_read_more p = (p', n, eof) ->
  fr_inv p' /\ fr_rem p' = fr_rem p /\
  match fr_rd p with
  | [] => n = O /\ eof = true /\ fr_rd p' = [] /\ fr_window p' = fr_window p
  | _ => (0 < n)%nat /\ eof = false /\ (fr_pending p' < fr_pending p)%nat
  end.
Proof.
  intros Hinv Hrm. unfold fr_read_more in Hrm.
  destruct (fr_refill_spec p Hinv) as (Hinv1 & HW1 & Hrd1 & Hlt).
  set (p1 := fr_refill p) in *.
  destruct (fr_reader_read (fr_rd p1) (fr_cap p1 - fr_len p1)) as [[d rd'] eof'] eqn:Er.
  injection Hrm as <- <- <-.
  pose proof (fr_window_length p1 Hinv1) as HWl.
  destruct Hinv1 as (H1 & H2 & H3).
  assert (Hk : (0 < fr_cap p1 - fr_len p1)%nat) by lia.
  destruct (fr_reader_read_spec _ _ _ _ _ H3 Hk Er) as (Hcat & Hne' & Hdl & Hcase).
  (* decompose the array around the window *)
  pose proof (fr_split3 (fr_big p1) (fr_off p1) (fr_len p1)) as Hsp.
  set (A := firstn (fr_off p1) (fr_big p1)) in *.
  set (R := skipn (fr_off p1 + fr_len p1) (fr_big p1)) in *.
  fold (fr_window p1) in Hsp.
  assert (HA : length A = fr_off p1) by (unfold A; rewrite firstn_length; lia).
  assert (HR : length R = (fr_cap p1 - fr_len p1)%nat) by (unfold R; rewrite skipn_length; lia).
  assert (Hbig : fr_write_at (fr_big p1) (fr_off p1 + fr_len p1) d = A ++ fr_window p1 ++ d ++ skipn (length d) R).
  { rewrite Hsp at 1. rewrite <- HA, <- HWl at 1. apply fr_write_at_split. }
  assert (HWnew : fr_window (FrParser (fr_write_at (fr_big p1) (fr_off p1 + fr_len p1) d) (fr_off p1)
                               (fr_len p1 + length d) (fr_cap p1) rd') = fr_window p1 ++ d).
  { unfold fr_window at 1. cbn [fr_off fr_cap fr_len fr_big fr_rd]. rewrite Hbig.
    rewrite <- HA at 1. rewrite fr_skipn_app_exact.
    rewrite app_assoc. rewrite <- HWl at 1. rewrite <- app_length. apply fr_firstn_app_exact. }
  split; [|split].
  - repeat split; cbn [fr_off fr_cap fr_len fr_big fr_rd]; try assumption; try lia.
    rewrite Hbig. rewrite !app_length, skipn_length. lia.
  - unfold fr_rem at 1. rewrite HWnew. cbn [fr_rd]. rewrite <- app_assoc, Hcat.
    unfold fr_rem. now rewrite HW1, Hrd1.
  - rewrite <- Hrd1. destruct (fr_rd p1) as [|c r] eqn:Erd.
    + destruct Hcase as (-> & -> & ->). repeat split; auto.
      rewrite HWnew. now rewrite app_nil_r.
    + destruct Hcase as (Hd & ->). repeat split.
      * destruct d; [congruence | cbn; lia].
      * unfold fr_pending. cbn [fr_rd]. rewrite <- Hrd1, <- Hcat, app_length.
        destruct d; [congruence | cbn; lia].
Qed.

(* ------------------------------------------------------------------ the search lemma *)

(* what findIndexAfterOffset returns, in terms of the remaining stream only: the first occurrence at or after
   offset (with the bytes up to its end buffered), or EOF when there is none *)
Definition fr_find_post (p : fr_parser) (offset : Z) (delim : bytes) (r : res (fr_parser * Z)) : Prop :=
  match index_sub delim (skipn (Z.to_nat offset) (fr_rem p)) with
  | Some i => exists p', r = Ok (p', Z.of_nat i + offset) /\ fr_inv p' /\ fr_rem p' = fr_rem p /\
                (Z.to_nat offset + i + length delim <= fr_len p')%nat /\ (fr_pending p' <= fr_pending p)%nat
  | None => r = Err FR_E_EOF
  end.

Lemma fr_find_post_transfer p p' offset delim r :
  fr_rem p' = fr_rem p -> (fr_pending p' <= fr_pending p)%nat ->
  fr_find_post p' offset delim r -> fr_find_post p offset delim r.
Proof.
  intros Hrem Hpend H. unfold fr_find_post in *. rewrite Hrem in H.
  destruct (index_sub delim (skipn (Z.to_nat offset) (fr_rem p))) as [i|]; [|exact H].
  destruct H as (p'' & Hr & Hi & Hrem' & Hb & Hp). exists p''.
  split; [exact Hr|]. split; [exact Hi|]. split; [congruence|]. split; lia.
Qed.

Lemma fr_find_spec : forall fuel p offset delim,
  fr_inv p -> delim <> [] -> 0 <= offset -> (fr_pending p + 2 <= fuel)%nat ->
  fr_find_post p offset delim (fr_find_index_after_offset fuel p offset delim).
Proof.
  induction fuel as [|fuel IH]; intros p offset delim Hinv Hd Hoff Hfuel; [lia|].
  pose proof (fr_window_length p Hinv) as HWl.
  (* the common "readMore, then either EOF or loop" step *)
  assert (Hstep : (fr_rd p = [] -> index_sub delim (skipn (Z.to_nat offset) (fr_rem p)) = None) ->
    fr_find_post p offset delim
      (let '(p', n, eof) := fr_read_more p in
       if Nat.eqb n 0 && eof then Err FR_E_EOF else fr_find_index_after_offset fuel p' offset delim)).
  { intros Hnone. destruct (fr_read_more p) as [[p' n] eof] eqn:Erm.
    destruct (fr_read_more_spec p p' n eof Hinv Erm) as (Hinv' & Hrem' & Hcase).
    destruct (fr_rd p) as [|c r] eqn:Erd.
    - destruct Hcase as (-> & -> & _ & _). cbn. unfold fr_find_post. now rewrite (Hnone eq_refl).
    - destruct Hcase as (Hn & -> & Hpend). rewrite andb_false_r.
      apply (fr_find_post_transfer p p'); [exact Hrem' | lia |].
      apply IH; auto. lia. }
  cbn [fr_find_index_after_offset].
  destruct (offset >? Z.of_nat (fr_len p)) eqn:E1.
  - apply Hstep. intros Erd. unfold fr_rem. rewrite Erd. cbn [concat]. rewrite app_nil_r.
    rewrite skipn_all2 by lia. now apply fr_index_sub_nil.
  - assert (Hle : (Z.to_nat offset <= length (fr_window p))%nat) by lia.
    destruct (offset <? 0) eqn:E2; [lia|].
    destruct (index_sub delim (skipn (Z.to_nat offset) (fr_window p))) as [i|] eqn:Ei.
    + unfold fr_find_post. unfold fr_rem. rewrite (fr_skipn_app_le _ _ _ Hle).
      rewrite (fr_index_sub_app _ _ _ _ Ei).
      exists p. split; [reflexivity|]. split; [exact Hinv|]. split; [reflexivity|].
      apply fr_index_sub_bound in Ei. rewrite skipn_length in Ei. split; lia.
    + apply Hstep. intros Erd. unfold fr_rem. rewrite Erd. cbn [concat]. now rewrite app_nil_r.
Qed.

(* ------------------------------------------------------------------ slicing *)

Lemma fr_window_skipn p k : (k <= fr_len p)%nat ->
  skipn k (fr_window p) = firstn (fr_len p - k) (skipn (fr_off p + k) (fr_big p)).
Proof.
  intros Hk. unfold fr_window.
  replace (fr_len p) with (k + (fr_len p - k))%nat at 1 by lia.
  rewrite fr_skipn_firstn_comm. now rewrite fr_skipn_skipn.
Qed.

Lemma fr_reslice_from_spec p lo : fr_inv p -> 0 <= lo <= Z.of_nat (fr_len p) ->
  exists p', fr_reslice_from p lo = Ok p' /\ fr_inv p' /\
             fr_rem p' = skipn (Z.to_nat lo) (fr_rem p) /\ fr_pending p' = fr_pending p.
Proof.
  intros Hinv Hlo. pose proof (fr_window_length p Hinv) as HWl. destruct Hinv as (H1 & H2 & H3).
  unfold fr_reslice_from.
  replace ((0 <=? lo) && (lo <=? Z.of_nat (fr_len p))) with true by lia.
  eexists. split; [reflexivity|]. split; [|split].
  - repeat split; cbn [fr_off fr_cap fr_len fr_big fr_rd]; try assumption; lia.
  - unfold fr_rem. cbn [fr_rd]. rewrite fr_skipn_app_le by lia. f_equal.
    rewrite fr_window_skipn by lia. reflexivity.
  - reflexivity.
Qed.

Lemma fr_slice_spec p lo hi : fr_inv p -> 0 <= lo <= hi -> hi <= Z.of_nat (fr_len p) ->
  fr_slice p lo hi = Ok (firstn (Z.to_nat (hi - lo)) (skipn (Z.to_nat lo) (fr_rem p))).
Proof.
  intros Hinv Hlo Hhi. pose proof (fr_window_length p Hinv) as HWl. destruct Hinv as (H1 & H2 & H3).
  unfold fr_slice.
  replace ((0 <=? lo) && (lo <=? hi) && (hi <=? Z.of_nat (fr_cap p))) with true by lia.
  f_equal. unfold fr_rem. rewrite fr_skipn_app_le by lia.
  rewrite fr_firstn_app_le by (rewrite skipn_length; lia).
  rewrite fr_window_skipn by lia. rewrite firstn_firstn.
  f_equal. lia.
Qed.

Lemma fr_wrap64_id z : - two63 <= z < two63 -> wrap64 z = z.
Proof.
  intros H. unfold wrap64. unfold two63, two64 in *. rewrite Z.mod_small by lia. lia.
Qed.

Lemma fr_begin_ne : FR_BEGIN <> []. Proof. unfold FR_BEGIN; discriminate. Qed.
Lemma fr_len_tag_ne : FR_LEN_TAG <> []. Proof. unfold FR_LEN_TAG; discriminate. Qed.
Lemma fr_ck_tag_ne : FR_CK_TAG <> []. Proof. unfold FR_CK_TAG; discriminate. Qed.
Lemma fr_soh_ne : FR_SOH <> []. Proof. unfold FR_SOH; discriminate. Qed.

(* ------------------------------------------------------------------ ReadMessage against the specification *)

Definition fr_msg_post (p : fr_parser) (r : res (fr_parser * bytes)) : Prop :=
  match frs_read_one (fr_rem p) with
  | Ok (m, rest) => exists p', r = Ok (p', m) /\ fr_inv p' /\ fr_rem p' = rest /\ (fr_pending p' <= fr_pending p)%nat
  | Err e => r = Err e
  | Panic => r = Panic
  | OutOfFuel => r = OutOfFuel
  end.

Lemma fr_read_message_spec fuel p : fr_inv p -> (fr_pending p + 2 <= fuel)%nat ->
  fr_msg_post p (fr_read_message fuel p).
Proof.
  intros Hinv Hfuel.
  unfold fr_msg_post, frs_read_one, fr_read_message, fr_find_start, fr_find_index.
  (* 1. findStart *)
  pose proof (fr_find_spec fuel p 0 FR_BEGIN Hinv fr_begin_ne ltac:(lia) Hfuel) as H1.
  unfold fr_find_post in H1. change (Z.to_nat 0) with O in H1. cbn [skipn] in H1.
  destruct (index_sub FR_BEGIN (fr_rem p)) as [st|] eqn:E1; [|rewrite H1; reflexivity].
  destruct H1 as (p1 & -> & Hinv1 & Hrem1 & Hb1 & Hp1). cbn [bind].
  assert (Hst : 0 <= Z.of_nat st + 0 <= Z.of_nat (fr_len p1)) by lia.
  destruct (fr_reslice_from_spec p1 (Z.of_nat st + 0) Hinv1 Hst) as (p2 & -> & Hinv2 & Hrem2 & Hp2).
  cbn [bind]. rewrite Hrem1 in Hrem2. replace (Z.to_nat (Z.of_nat st + 0)) with st in Hrem2 by lia.
  set (s1 := skipn st (fr_rem p)) in *.
  (* 2. jumpLength: the length tag *)
  unfold fr_jump_length, fr_find_index.
  assert (Hf2 : (fr_pending p2 + 2 <= fuel)%nat) by lia.
  pose proof (fr_find_spec fuel p2 0 FR_LEN_TAG Hinv2 fr_len_tag_ne ltac:(lia) Hf2) as H2.
  unfold fr_find_post in H2. change (Z.to_nat 0) with O in H2. cbn [skipn] in H2. rewrite Hrem2 in H2.
  destruct (index_sub FR_LEN_TAG s1) as [i|] eqn:E2; [|rewrite H2; reflexivity].
  destruct H2 as (p3 & -> & Hinv3 & Hrem3 & Hb3 & Hp3). cbn [bind]. cbv zeta.
  (* 3. the SOH that ends the length *)
  assert (Hf3 : (fr_pending p3 + 2 <= fuel)%nat) by lia.
  assert (Ho3 : 0 <= Z.of_nat i + 0 + 3) by lia.
  pose proof (fr_find_spec fuel p3 (Z.of_nat i + 0 + 3) FR_SOH Hinv3 fr_soh_ne Ho3 Hf3) as H3.
  unfold fr_find_post in H3. rewrite Hrem3 in H3.
  replace (Z.to_nat (Z.of_nat i + 0 + 3)) with (i + 3)%nat in H3 by lia.
  destruct (index_sub FR_SOH (skipn (i + 3) s1)) as [j|] eqn:E3; [|rewrite H3; reflexivity].
  destruct H3 as (p4 & -> & Hinv4 & Hrem4 & Hb4 & Hp4). cbn [bind].
  cbn [length FR_SOH] in Hb4.
  destruct (Nat.eqb j 0) eqn:Ej.
  { apply Nat.eqb_eq in Ej. subst j.
    replace (Z.of_nat 0 + (Z.of_nat i + 0 + 3) =? Z.of_nat i + 0 + 3) with true by lia. reflexivity. }
  apply Nat.eqb_neq in Ej.
  replace (Z.of_nat j + (Z.of_nat i + 0 + 3) =? Z.of_nat i + 0 + 3) with false by lia.
  rewrite (fr_slice_spec p4 (Z.of_nat i + 0 + 3) (Z.of_nat j + (Z.of_nat i + 0 + 3)) Hinv4) by lia.
  rewrite Hrem4.
  replace (Z.to_nat (Z.of_nat j + (Z.of_nat i + 0 + 3) - (Z.of_nat i + 0 + 3))) with j by lia.
  replace (Z.to_nat (Z.of_nat i + 0 + 3)) with (i + 3)%nat by lia.
  cbn [bind].
  destruct (atoi (firstn j (skipn (i + 3) s1))) as [blen|e| |] eqn:Ea; cbn [bind]; try reflexivity.
  replace ((blen <=? 0) || (blen >? FR_MAX_INT - (Z.of_nat j + (Z.of_nat i + 0 + 3))))
    with ((blen <=? 0) || (Z.of_nat (i + 3 + j) + blen >? FR_MAX_INT)) by lia.
  destruct ((blen <=? 0) || (Z.of_nat (i + 3 + j) + blen >? FR_MAX_INT)) eqn:Ec; [reflexivity|].
  cbn [bind].
  assert (Hw : wrap64 (Z.of_nat j + (Z.of_nat i + 0 + 3) + blen) = Z.of_nat (i + 3 + j) + blen).
  { rewrite fr_wrap64_id; [lia|]. unfold FR_MAX_INT in Ec. unfold two63 in *. lia. }
  rewrite Hw. set (o := Z.of_nat (i + 3 + j) + blen) in *.
  assert (Ho : 0 <= o) by (unfold o; lia).
  (* 4. findEndAfterOffset: the checksum tag *)
  unfold fr_find_end_after_offset.
  assert (Hf4 : (fr_pending p4 + 2 <= fuel)%nat) by lia.
  pose proof (fr_find_spec fuel p4 o FR_CK_TAG Hinv4 fr_ck_tag_ne Ho Hf4) as H4.
  unfold fr_find_post in H4. rewrite Hrem4 in H4.
  destruct (o >? Z.of_nat (length s1)) eqn:Eo.
  { rewrite skipn_all2 in H4 by lia. rewrite (fr_index_sub_nil _ fr_ck_tag_ne) in H4.
    rewrite H4. reflexivity. }
  destruct (index_sub FR_CK_TAG (skipn (Z.to_nat o) s1)) as [k|] eqn:E4; [|rewrite H4; reflexivity].
  destruct H4 as (p5 & -> & Hinv5 & Hrem5 & Hb5 & Hp5). cbn [bind].
  (* 5. the SOH that ends the checksum *)
  assert (Hf5 : (fr_pending p5 + 2 <= fuel)%nat) by lia.
  assert (Ho5 : 0 <= Z.of_nat k + o + 1) by lia.
  pose proof (fr_find_spec fuel p5 (Z.of_nat k + o + 1) FR_SOH Hinv5 fr_soh_ne Ho5 Hf5) as H5.
  unfold fr_find_post in H5. rewrite Hrem5 in H5.
  replace (Z.to_nat (Z.of_nat k + o + 1)) with (Z.to_nat o + k + 1)%nat in H5 by lia.
  destruct (index_sub FR_SOH (skipn (Z.to_nat o + k + 1) s1)) as [l|] eqn:E5; [|rewrite H5; reflexivity].
  destruct H5 as (p6 & -> & Hinv6 & Hrem6 & Hb6 & Hp6). cbn [bind].
  cbn [length FR_SOH] in Hb6.
  (* 6. cut the frame out *)
  rewrite (fr_slice_spec p6 0 (Z.of_nat l + (Z.of_nat k + o + 1) + 1) Hinv6) by lia.
  cbn [bind]. rewrite Hrem6. change (Z.to_nat 0) with O. cbn [skipn].
  replace (Z.to_nat (Z.of_nat l + (Z.of_nat k + o + 1) + 1 - 0)) with (Z.to_nat o + k + 1 + l + 1)%nat by lia.
  assert (Hfin : 0 <= Z.of_nat l + (Z.of_nat k + o + 1) + 1 <= Z.of_nat (fr_len p6)) by lia.
  destruct (fr_reslice_from_spec p6 _ Hinv6 Hfin) as (p7 & -> & Hinv7 & Hrem7 & Hp7).
  cbn [bind]. exists p7. split; [reflexivity|]. split; [exact Hinv7|]. split; [|lia].
  rewrite Hrem7, Hrem6. f_equal. lia.
Qed.

(* ------------------------------------------------------------------ the read loop: refinement *)

Lemma fr_frames_loop_spec : forall n fuel p acc, fr_inv p -> (fr_pending p + 2 <= fuel)%nat ->
  fr_frames_loop n fuel p acc = frs_loop n (fr_rem p) acc.
Proof.
  induction n as [|n IH]; intros fuel p acc Hinv Hfuel; [reflexivity|].
  cbn [fr_frames_loop frs_loop].
  pose proof (fr_read_message_spec fuel p Hinv Hfuel) as Hm. unfold fr_msg_post in Hm.
  destruct (frs_read_one (fr_rem p)) as [[m rest]|e| |].
  - destruct Hm as (p' & -> & Hinv' & Hrem' & Hp'). rewrite IH; [now rewrite Hrem' | exact Hinv' | lia].
  - now rewrite Hm.
  - now rewrite Hm.
  - now rewrite Hm.
Qed.

Lemma fr_new_parser_inv chunks : Forall fr_nonempty chunks -> fr_inv (fr_new_parser chunks).
Proof. intros H. repeat split; cbn; auto. Qed.

Lemma fr_new_parser_rem chunks : fr_rem (fr_new_parser chunks) = concat chunks.
Proof. reflexivity. Qed.

Theorem fr_refines : forall chunks, Forall fr_nonempty chunks ->
  fr_frames chunks = frames_spec (concat chunks).
Proof.
  intros chunks H. unfold fr_frames, frames_spec.
  rewrite fr_frames_loop_spec; [now rewrite fr_new_parser_rem | now apply fr_new_parser_inv |].
  unfold fr_pending, fr_fuel. cbn [fr_rd fr_new_parser]. lia.
Qed.

Corollary fr_chunking_independent : forall c1 c2, Forall fr_nonempty c1 -> Forall fr_nonempty c2 ->
  concat c1 = concat c2 -> fr_frames c1 = fr_frames c2.
Proof. intros c1 c2 H1 H2 E. rewrite !fr_refines by assumption. now rewrite E. Qed.

(* ------------------------------------------------------------------ totality *)

Lemma frs_read_one_total s : total_res (frs_read_one s).
Proof.
  unfold frs_read_one.
  destruct (index_sub FR_BEGIN s) as [st|]; [|apply total_err].
  destruct (index_sub FR_LEN_TAG (skipn st s)) as [i|]; [|apply total_err].
  destruct (index_sub FR_SOH (skipn (i + 3) (skipn st s))) as [j|]; [|apply total_err].
  destruct (Nat.eqb j 0); [apply total_err|].
  pose proof (atoi_total (firstn j (skipn (i + 3) (skipn st s)))) as [Ha1 Ha2].
  destruct (atoi (firstn j (skipn (i + 3) (skipn st s)))) as [blen|e| |]; try congruence; [|apply total_err].
  destruct ((blen <=? 0) || _); [apply total_err|].
  destruct (_ >? _); [apply total_err|].
  destruct (index_sub FR_CK_TAG _) as [k|]; [|apply total_err].
  destruct (index_sub FR_SOH _) as [l|]; [|apply total_err].
  apply total_ok.
Qed.

Lemma frs_read_one_shrinks s m rest : frs_read_one s = Ok (m, rest) -> (length rest < length s)%nat.
Proof.
  unfold frs_read_one.
  destruct (index_sub FR_BEGIN s) as [st|]; [|discriminate].
  set (s1 := skipn st s).
  destruct (index_sub FR_LEN_TAG s1) as [i|]; [|discriminate].
  destruct (index_sub FR_SOH (skipn (i + 3) s1)) as [j|]; [|discriminate].
  destruct (Nat.eqb j 0); [discriminate|].
  destruct (atoi (firstn j (skipn (i + 3) s1))) as [blen|e| |]; try discriminate.
  destruct ((blen <=? 0) || _); [discriminate|].
  destruct (_ >? _); [discriminate|].
  destruct (index_sub FR_CK_TAG _) as [k|]; [|discriminate].
  destruct (index_sub FR_SOH _) as [l|] eqn:El; [|discriminate].
  intros H. injection H as _ <-.
  apply fr_index_sub_bound in El. rewrite skipn_length in El. cbn [length FR_SOH] in El.
  assert (length s1 <= length s)%nat by (unfold s1; rewrite skipn_length; lia).
  rewrite skipn_length. lia.
Qed.

(* the specification always ends with an error value (never the panic / hang classes) *)
Lemma frs_loop_ends : forall n s acc, (length s < n)%nat -> exists e, snd (frs_loop n s acc) = FrErr e.
Proof.
  induction n as [|n IH]; intros s acc Hn; [lia|].
  cbn [frs_loop]. pose proof (frs_read_one_total s) as [Ht1 Ht2].
  destruct (frs_read_one s) as [[m rest]|e| |] eqn:Er; try congruence.
  - apply IH. apply frs_read_one_shrinks in Er. lia.
  - exists e. reflexivity.
Qed.

Lemma frames_spec_ends s : exists e, snd (frames_spec s) = FrErr e.
Proof. apply frs_loop_ends. lia. Qed.

Theorem fr_frames_total : forall chunks, Forall fr_nonempty chunks ->
  snd (fr_frames chunks) <> FrPanic /\ snd (fr_frames chunks) <> FrFuel.
Proof.
  intros chunks H. rewrite (fr_refines chunks H).
  destruct (frames_spec_ends (concat chunks)) as [e ->]. split; discriminate.
Qed.

(* one ReadMessage call on any reachable parser state returns a frame or an error (cited by C09) *)
Theorem fr_read_message_total : forall fuel p, fr_inv p -> (fr_pending p + 2 <= fuel)%nat ->
  total_res (fr_read_message fuel p).
Proof.
  intros fuel p Hinv Hfuel. pose proof (fr_read_message_spec fuel p Hinv Hfuel) as Hm.
  unfold fr_msg_post in Hm. pose proof (frs_read_one_total (fr_rem p)) as [Ht1 Ht2].
  destruct (frs_read_one (fr_rem p)) as [[m rest]|e| |]; try congruence.
  - destruct Hm as (p' & -> & _). apply total_ok.
  - rewrite Hm. apply total_err.
Qed.

(* ------------------------------------------------------------------ well-formed streams *)

(* bytes without "8=" followed by "8=…": the first "8=" is the one behind them
   (a trailing lone "8" cannot pair with the "8" that follows it) *)
Lemma fr_index_begin_app g t :
  index_sub FR_BEGIN g = None -> index_sub FR_BEGIN (g ++ FR_BEGIN ++ t) = Some (length g).
Proof.
  induction g as [|x g IH]; intros H.
  - reflexivity.
  - rewrite fr_index_sub_eq in H. destruct (has_prefix FR_BEGIN (x :: g)) eqn:Hp; [discriminate|].
    destruct (index_sub FR_BEGIN g) as [k|] eqn:Hk; [discriminate|].
    change ((x :: g) ++ FR_BEGIN ++ t) with (x :: (g ++ FR_BEGIN ++ t)).
    rewrite fr_index_sub_eq.
    assert (Hp2 : has_prefix FR_BEGIN (x :: g ++ FR_BEGIN ++ t) = false).
    { destruct g as [|y g]; unfold FR_BEGIN in *; cbn [app has_prefix] in *.
      - change (61 =? 56) with false. cbn [andb]. apply andb_false_r.
      - exact Hp. }
    rewrite Hp2. rewrite (IH eq_refl). reflexivity.
Qed.

Definition fr_lacks (c : Z) (l : bytes) : bool := forallb (fun x => negb (x =? c)) l.

(* bytes without the delimiter's first byte, then the delimiter: its first occurrence is right there *)
Lemma fr_index_sub_skip c d' pre rest :
  fr_lacks c pre = true -> index_sub (c :: d') (pre ++ (c :: d') ++ rest) = Some (length pre).
Proof.
  induction pre as [|x pre IH]; intros H.
  - change ([] ++ (c :: d') ++ rest) with ((c :: d') ++ rest). rewrite fr_index_sub_eq.
    now rewrite (fr_has_prefix_self (c :: d') rest).
  - cbn in H. apply andb_true_iff in H as [Hx Hpre].
    change ((x :: pre) ++ (c :: d') ++ rest) with (x :: (pre ++ (c :: d') ++ rest)).
    rewrite fr_index_sub_eq. cbn [has_prefix].
    replace (c =? x) with false by lia. cbn [andb].
    rewrite (IH Hpre). reflexivity.
Qed.

Lemma fr_lacks_app c a b : fr_lacks c (a ++ b) = fr_lacks c a && fr_lacks c b.
Proof. unfold fr_lacks. apply forallb_app. Qed.

Lemma fr_no_soh_lacks l : fr_no_soh l = fr_lacks SOH l.
Proof. reflexivity. Qed.

Lemma fr_read_one_wf g v d body c rest :
  fr_no_begin_marker g -> fr_wf_parts v d body c = true ->
  frs_read_one (g ++ fr_mk_msg v d body c ++ rest) = Ok (fr_mk_msg v d body c, rest).
Proof.
  intros Hg Hwf. unfold fr_wf_parts in Hwf.
  apply andb_true_iff in Hwf as [Hwf Hsz]. apply andb_true_iff in Hwf as [Hwf Hat].
  apply andb_true_iff in Hwf as [Hwf Hdne]. apply andb_true_iff in Hwf as [Hwf Hc].
  apply andb_true_iff in Hwf as [Hv Hd].
  destruct (atoi d) as [n| | |] eqn:Ea; try discriminate.
  assert (Hn : n = Z.of_nat (S (length body))) by lia. clear Hat.
  assert (Hdl : length d <> O) by (destruct (length d); [discriminate | lia]). clear Hdne.
  set (m := fr_mk_msg v d body c) in *.
  set (T3 := c ++ FR_SOH ++ rest).
  set (T2 := body ++ FR_CK_TAG ++ T3).
  set (T1 := d ++ FR_SOH ++ T2).
  assert (Hm : m ++ rest = (FR_BEGIN ++ v) ++ FR_LEN_TAG ++ T1).
  { unfold m, fr_mk_msg, T1, T2, T3. now rewrite <- !app_assoc. }
  assert (Hml : length m = (2 + length v + 3 + length d + 1 + length body + 4 + length c + 1)%nat).
  { unfold m, fr_mk_msg. rewrite !app_length. cbn. lia. }
  unfold frs_read_one.
  (* 1. the frame starts behind g *)
  assert (E1 : index_sub FR_BEGIN (g ++ m ++ rest) = Some (length g)).
  { rewrite Hm. rewrite <- app_assoc. now apply fr_index_begin_app. }
  rewrite E1. rewrite fr_skipn_app_exact. rewrite Hm.
  (* 2. the length tag *)
  assert (E2 : index_sub FR_LEN_TAG ((FR_BEGIN ++ v) ++ FR_LEN_TAG ++ T1) = Some (length (FR_BEGIN ++ v))).
  { apply fr_index_sub_skip. rewrite fr_lacks_app. change (fr_lacks 1 v) with (fr_no_soh v). rewrite Hv. reflexivity. }
  rewrite E2.
  assert (Hs3 : skipn (length (FR_BEGIN ++ v) + 3) ((FR_BEGIN ++ v) ++ FR_LEN_TAG ++ T1) = T1).
  { rewrite app_assoc. change 3%nat with (length FR_LEN_TAG). rewrite <- app_length.
    apply fr_skipn_app_exact. }
  rewrite Hs3.
  (* 3. its value *)
  assert (E3 : index_sub FR_SOH T1 = Some (length d)).
  { unfold T1. apply fr_index_sub_skip. exact Hd. }
  rewrite E3. destruct (Nat.eqb (length d) 0) eqn:Ed0; [apply Nat.eqb_eq in Ed0; lia|].
  unfold T1 at 1. rewrite fr_firstn_app_exact. rewrite Ea.
  assert (Hlv : length (FR_BEGIN ++ v) = (2 + length v)%nat) by (rewrite app_length; reflexivity).
  unfold two63 in Hsz.
  replace ((n <=? 0) || (Z.of_nat (length (FR_BEGIN ++ v) + 3 + length d) + n >? FR_MAX_INT)) with false
    by (unfold FR_MAX_INT, two63; lia).
  set (o := Z.of_nat (length (FR_BEGIN ++ v) + 3 + length d) + n).
  assert (Hsl : length ((FR_BEGIN ++ v) ++ FR_LEN_TAG ++ T1) = (length m + length rest)%nat).
  { rewrite <- Hm. apply app_length. }
  replace (o >? Z.of_nat (length ((FR_BEGIN ++ v) ++ FR_LEN_TAG ++ T1))) with false by (unfold o; lia).
  (* 4. the trailer *)
  assert (Hso : skipn (Z.to_nat o) ((FR_BEGIN ++ v) ++ FR_LEN_TAG ++ T1) = FR_CK_TAG ++ T3).
  { unfold T1, T2.
    replace ((FR_BEGIN ++ v) ++ FR_LEN_TAG ++ d ++ FR_SOH ++ body ++ FR_CK_TAG ++ T3)
      with (((FR_BEGIN ++ v) ++ FR_LEN_TAG ++ d ++ FR_SOH ++ body) ++ FR_CK_TAG ++ T3)
      by (now rewrite <- !app_assoc).
    replace (Z.to_nat o) with (length ((FR_BEGIN ++ v) ++ FR_LEN_TAG ++ d ++ FR_SOH ++ body))
      by (unfold o; rewrite !app_length; cbn [length FR_LEN_TAG FR_SOH FR_BEGIN]; lia).
    apply fr_skipn_app_exact. }
  rewrite Hso.
  assert (E4 : index_sub FR_CK_TAG (FR_CK_TAG ++ T3) = Some O).
  { rewrite fr_index_sub_eq. now rewrite (fr_has_prefix_self FR_CK_TAG T3). }
  rewrite E4.
  assert (Hse : skipn (Z.to_nat o + 0 + 1) ((FR_BEGIN ++ v) ++ FR_LEN_TAG ++ T1) = ([49; 48; 61] ++ c) ++ FR_SOH ++ rest).
  { replace (Z.to_nat o + 0 + 1)%nat with (Z.to_nat o + 1)%nat by lia.
    rewrite <- fr_skipn_skipn. rewrite Hso. unfold T3. reflexivity. }
  rewrite Hse.
  assert (E5 : index_sub FR_SOH (([49; 48; 61] ++ c) ++ FR_SOH ++ rest) = Some (length ([49; 48; 61] ++ c))).
  { apply fr_index_sub_skip. rewrite fr_lacks_app. change (fr_lacks 1 c) with (fr_no_soh c). rewrite Hc. reflexivity. }
  rewrite E5.
  (* 5. the frame is m *)
  assert (Hlc : length ([49; 48; 61] ++ c) = (3 + length c)%nat) by reflexivity.
  rewrite Hlc.
  replace (Z.to_nat o + 0 + 1 + (3 + length c) + 1)%nat with (length m)
    by (unfold o; rewrite Hml; lia).
  rewrite <- Hm. now rewrite fr_firstn_app_exact, fr_skipn_app_exact.
Qed.

Lemma fr_wf_msg_nonempty m : fr_wf_msg m -> (0 < length m)%nat.
Proof. intros (v & d & body & c & -> & _). unfold fr_mk_msg. rewrite app_length. cbn. lia. Qed.

Lemma frs_loop_wf : forall ms gs n acc,
  Forall fr_wf_msg ms -> Forall fr_no_begin_marker gs -> length gs = S (length ms) ->
  (length (fr_interleave gs ms) < n)%nat ->
  frs_loop n (fr_interleave gs ms) acc = (rev acc ++ ms, FrErr FR_E_EOF).
Proof.
  induction ms as [|m ms IH]; intros gs n acc Hms Hgs Hlen Hn.
  - destruct gs as [|g [|g2 gs]]; try discriminate. cbn [fr_interleave] in *.
    destruct n as [|n]; [lia|]. cbn [frs_loop]. unfold frs_read_one.
    inversion Hgs as [|? ? Hg _]; subst. unfold fr_no_begin_marker in Hg. rewrite Hg.
    now rewrite app_nil_r.
  - destruct gs as [|g gs]; [discriminate|]. cbn [fr_interleave] in *.
    inversion Hgs as [|? ? Hg Hgs']; subst. inversion Hms as [|? ? Hm Hms']; subst.
    pose proof (fr_wf_msg_nonempty m Hm) as Hmne.
    destruct Hm as (v & d & body & c & -> & Hwf).
    destruct n as [|n]; [lia|]. cbn [frs_loop].
    rewrite (fr_read_one_wf g v d body c _ Hg Hwf).
    rewrite IH; auto.
    + cbn [rev]. now rewrite <- app_assoc.
    + rewrite !app_length in Hn. lia.
Qed.

Theorem fr_wellformed_stream : forall ms gs,
  Forall fr_wf_msg ms -> Forall fr_no_begin_marker gs -> length gs = S (length ms) ->
  frames_spec (fr_interleave gs ms) = (ms, FrErr FR_E_EOF).
Proof.
  intros ms gs Hms Hgs Hlen. unfold frames_spec.
  rewrite (frs_loop_wf ms gs _ [] Hms Hgs Hlen); [reflexivity | lia].
Qed.

(* every chunked read of a well-formed stream yields exactly the messages, then EOF *)
Corollary fr_wellformed_chunked : forall ms gs chunks,
  Forall fr_wf_msg ms -> Forall fr_no_begin_marker gs -> length gs = S (length ms) ->
  Forall fr_nonempty chunks -> concat chunks = fr_interleave gs ms ->
  fr_frames chunks = (ms, FrErr FR_E_EOF).
Proof.
  intros ms gs chunks Hms Hgs Hlen Hne Hcat.
  rewrite (fr_refines chunks Hne), Hcat. now apply fr_wellformed_stream.
Qed.

(* ------------------------------------------------------------------ fr_cut produces partitions *)

Lemma fr_cut_partition : forall sizes s, concat (fr_cut sizes s) = s /\ Forall fr_nonempty (fr_cut sizes s).
Proof.
  induction sizes as [|k r IH]; intros s.
  - destruct s as [|x s]; cbn; [split; [reflexivity | constructor]|].
    split; [now rewrite app_nil_r | repeat constructor; discriminate].
  - destruct s as [|x s]; [split; [reflexivity | constructor]|].
    destruct k as [|k].
    + exact (IH (x :: s)).
    + change (fr_cut (S k :: r) (x :: s)) with (firstn (S k) (x :: s) :: fr_cut r (skipn (S k) (x :: s))).
      destruct (IH (skipn (S k) (x :: s))) as [Hc Hn]. split.
      * cbn [concat]. rewrite Hc. apply firstn_skipn.
      * constructor; [cbn; discriminate | exact Hn].
Qed.

(* ------------------------------------------------------------------ instances (non-vacuity) *)
Import Coq.Strings.String.   (* for the literals only; List.length is written out below *)

Definition fr_ex_msg1 : bytes := fr_mk_msg (B "FIX.4.2") (B "5") (B "35=0") (B "123").
Definition fr_ex_msg2 : bytes :=
  fr_mk_msg (B "FIX.4.4") (B "0000000000000000000012") (B "35=A" ++ [1] ++ B "58=8=x") (B "007").
Definition fr_ex_gs : list bytes := [B "junk8"; B "8"; []].
Definition fr_ex_stream : bytes := fr_interleave fr_ex_gs [fr_ex_msg1; fr_ex_msg2].

Lemma fr_ex_wf : Forall fr_wf_msg [fr_ex_msg1; fr_ex_msg2].
Proof.
  repeat constructor.
  - exists (B "FIX.4.2"), (B "5"), (B "35=0"), (B "123"). split; [reflexivity | vm_compute; reflexivity].
  - exists (B "FIX.4.4"), (B "0000000000000000000012"), (B "35=A" ++ [1] ++ B "58=8=x"), (B "007").
    split; [reflexivity | vm_compute; reflexivity].
Qed.

Lemma fr_ex_garbage : Forall fr_no_begin_marker fr_ex_gs /\ List.length fr_ex_gs = S (List.length [fr_ex_msg1; fr_ex_msg2]).
Proof. split; [repeat constructor | reflexivity]. Qed.

(* the same stream read one byte at a time, seven at a time, and at once *)
Lemma fr_ex_chunkings :
  fr_frames (fr_cut (repeat 1%nat 100) fr_ex_stream) = ([fr_ex_msg1; fr_ex_msg2], FrErr FR_E_EOF) /\
  fr_frames (fr_cut (repeat 7%nat 100) fr_ex_stream) = ([fr_ex_msg1; fr_ex_msg2], FrErr FR_E_EOF) /\
  fr_frames [fr_ex_stream] = ([fr_ex_msg1; fr_ex_msg2], FrErr FR_E_EOF) /\
  List.length (fr_cut (repeat 1%nat 100) fr_ex_stream) = List.length fr_ex_stream.
Proof. vm_compute. repeat split. Qed.

(* a truncated stream and streams with unusable lengths end with the respective error, whatever the chunking *)
Lemma fr_ex_errors :
  fr_frames (fr_cut [3; 5]%nat (firstn 20 fr_ex_msg1)) = ([], FrErr FR_E_EOF) /\
  fr_frames [FR_BEGIN ++ B "F" ++ FR_LEN_TAG ++ B "9223372036854775807" ++ FR_SOH ++ B "abc"]
    = ([], FrErr FR_E_INVALID_LENGTH) /\
  fr_frames [FR_BEGIN ++ B "F" ++ FR_LEN_TAG; B "-5" ++ FR_SOH ++ B "abc"] = ([], FrErr FR_E_INVALID_LENGTH) /\
  fr_frames [FR_BEGIN ++ B "F" ++ FR_LEN_TAG ++ FR_SOH] = ([], FrErr FR_E_NO_LENGTH) /\
  fr_frames [FR_BEGIN ++ B "F" ++ FR_LEN_TAG ++ B "1x" ++ FR_SOH] = ([], FrErr E_FORMAT).
Proof. vm_compute. repeat split. Qed.
