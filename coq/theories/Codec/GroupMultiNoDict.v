(* C13, several repeating groups in one body, parsed WITHOUT a dictionary (ParseMessage, or a dictionary that does not
   know the MsgType): the body is a list of segments - plain fields (possibly none) followed by the wire fields of one
   repeating group - then `post`.  Without a dictionary every wire field is stored as a body field of its own; the
   NumInGroup field of each group keeps only its count, and GetGroup reads on through the capacity of that one-field
   slice (tv[1:cap(tv)] reaches the end of Message.fields).  Every group is read back through its template as the
   canonical form of the group written, provided its tag does not occur again behind its count field (FieldMap.add
   overwrites) and no CheckSum-tagged field stands before the end of the last group (the scan stops there); every
   field the scan reaches (no CheckSum before it) whose tag is neither a header nor a trailer tag is in the body.
   The single-group theorem GroupProofs.rg_nodict_message lifted by the induction of GroupMulti.rg_dict_segs. *)
From Coq Require Import ZArith List Bool Lia.
From QF Require Import Base.Res Base.Bytes Codec.FixInt Codec.Group Codec.GroupProofs Codec.GroupMulti.
Import ListNotations.
Open Scope Z_scope.

(* the hypotheses of rg_nodict_message for every segment; `tail` = what follows the last segment on the wire *)
Fixpoint rg_segs_ok_nodict (segs : list rg_seg) (tail : list rg_field) : Prop :=
  match segs with
  | [] => True
  | RgSeg pre t T g :: r =>
      rg_wf_template T = true /\ rg_fits T g = true /\
      (forall f, hd_error (rg_segs_wire r ++ tail) = Some f -> ~ In (fst f) (rg_all_tags T)) /\
      rg_plain [] [] t /\
      ~ In t (map fst (tl (rg_write T t g) ++ rg_segs_wire r ++ tail)) /\
      (forall q, In q (pre ++ rg_write T t g) -> fst q <> RG_CHECKSUM) /\
      rg_segs_ok_nodict r tail
  end.

(* without a dictionary the scan stays at top level; fields that are not CheckSum are passed one by one *)
Lemma rg_scan_nodict_skip : forall xh xt l j rest b res,
  (forall q, In q l -> fst q <> RG_CHECKSUM) ->
  rg_scan xh xt None RgTop j (l ++ rest) b = Ok res ->
  exists b', rg_scan xh xt None RgTop (j + length l) rest b' = Ok res.
Proof.
  intros xh xt. induction l as [|[qt qv] l' IH]; intros j rest b res Hno H.
  - cbn [app length] in *. rewrite Nat.add_0_r. exists b. exact H.
  - cbn [app rg_scan] in H.
    assert (E10 : (qt =? RG_CHECKSUM) = false) by (apply Z.eqb_neq; apply (Hno (qt, qv)); left; reflexivity).
    rewrite E10 in H.
    assert (Hno' : forall q, In q l' -> fst q <> RG_CHECKSUM) by (intros q Hq; apply Hno; right; exact Hq).
    cbn [length]. rewrite Nat.add_succ_r. change (S (j + length l')) with (S j + length l')%nat.
    destruct (rg_is_header_field xh qt); [exact (IH _ _ _ _ Hno' H)|].
    destruct (rg_is_trailer_field xt qt); exact (IH _ _ _ _ Hno' H).
Qed.

Lemma rg_nodict_segs : forall tail segs prefix body res,
  rg_segs_ok_nodict segs tail ->
  rg_scan [] [] None RgTop (length prefix) (rg_segs_wire segs ++ tail) body = Ok res ->
  forall before pre t T g after, segs = before ++ RgSeg pre t T g :: after ->
    rg_body_get_group (prefix ++ rg_segs_wire segs ++ tail) T t res = Ok (rg_canon T g).
Proof.
  intros tail segs. induction segs as [|[pre t T g] r IH]; intros prefix body res Hok H before pre' t' T' g' after E.
  - destruct before; discriminate.
  - cbn [rg_segs_ok_nodict] in Hok. destruct Hok as (Hwf & Hfit & Hpost & Hpl & Hnt & Hno & Hok').
    cbn [rg_segs_wire flat_map rg_seg_wire] in *. fold (rg_segs_wire r) in *.
    set (post := rg_segs_wire r ++ tail) in *.
    assert (Ew : ((pre ++ rg_write T t g) ++ rg_segs_wire r) ++ tail = pre ++ rg_write T t g ++ post).
    { unfold post. rewrite <- !app_assoc. reflexivity. }
    rewrite Ew in H |- *.
    assert (Hnopre : forall q, In q pre -> fst q <> RG_CHECKSUM) by (intros q Hq; apply Hno; apply in_or_app; left; exact Hq).
    destruct (rg_scan_nodict_skip [] [] pre _ _ _ _ Hnopre H) as [b1 H1].
    unfold rg_field in *. rewrite <- (app_length prefix pre) in H1.
    destruct before as [|s0 before'].
    + cbn [app] in E. inversion E; subst pre' t' T' g' after.
      destruct (rg_wf_follow_design T post Hwf Hpost) as [F [HwfF Hfol]].
      pose proof (proj2 (rg_nodict_in_message T t g (prefix ++ pre) post b1 res F HwfF Hfit Hfol Hpl Hnt H1)) as Hget.
      rewrite <- app_assoc in Hget. exact Hget.
    + cbn [app] in E. injection E as E0 E1.
      assert (Hnow : forall q, In q (rg_write T t g) -> fst q <> RG_CHECKSUM) by (intros q Hq; apply Hno; apply in_or_app; right; exact Hq).
      destruct (rg_scan_nodict_skip [] [] (rg_write T t g) _ _ _ _ Hnow H1) as [b2 H2].
      rewrite <- (app_length (prefix ++ pre)) in H2.
      pose proof (IH ((prefix ++ pre) ++ rg_write T t g) b2 res Hok' H2 before' pre' t' T' g' after E1) as Hg.
      unfold post. repeat rewrite <- app_assoc in Hg. exact Hg.
Qed.

(* C13 without dictionary, ANY list of groups: whole message h3 ++ seg_1 ++ ... ++ seg_n ++ post *)
Theorem rg_nodict_message_groups : forall h3 segs post res,
  length h3 = 3%nat ->
  rg_segs_ok_nodict segs post ->
  rg_scan_message [] [] None (h3 ++ rg_segs_wire segs ++ post) = Ok res ->
  (forall before pre t T g after, segs = before ++ RgSeg pre t T g :: after ->
     rg_body_get_group (h3 ++ rg_segs_wire segs ++ post) T t res = Ok (rg_canon T g)) /\
  (forall l1 f l2, rg_segs_wire segs ++ post = l1 ++ f :: l2 -> (forall q, In q l1 -> fst q <> RG_CHECKSUM) ->
     rg_plain [] [] (fst f) -> rg_body_has (fst f) res = true).
Proof.
  intros h3 segs post res Hh3 Hok H.
  unfold rg_scan_message in H. rewrite <- Hh3, rg_skipn_pre in H.
  split.
  - exact (rg_nodict_segs post segs h3 [] res Hok H).
  - intros l1 f l2 E Hno Hplf. rewrite E in H. exact (rg_nodict_field_found [] [] l1 f l2 _ _ res Hno Hplf H).
Qed.

(* the instance: two sibling groups directly back to back, no dictionary *)
Theorem rg_nodict_message_two_groups : forall T1 t1 g1 T2 t2 g2 h3 pre post res,
  length h3 = 3%nat ->
  rg_wf_template T1 = true -> rg_fits T1 g1 = true ->
  rg_wf_template T2 = true -> rg_fits T2 g2 = true ->
  ~ In t2 (rg_all_tags T1) ->
  (forall f, hd_error post = Some f -> ~ In (fst f) (rg_all_tags T2)) ->
  rg_plain [] [] t1 -> rg_plain [] [] t2 ->
  ~ In t1 (map fst (tl (rg_write T1 t1 g1) ++ rg_write T2 t2 g2 ++ post)) ->
  ~ In t2 (map fst (tl (rg_write T2 t2 g2) ++ post)) ->
  (forall q, In q (pre ++ rg_write T1 t1 g1 ++ rg_write T2 t2 g2) -> fst q <> RG_CHECKSUM) ->
  let w := h3 ++ pre ++ rg_write T1 t1 g1 ++ rg_write T2 t2 g2 ++ post in
  rg_scan_message [] [] None w = Ok res ->
  rg_body_get_group w T1 t1 res = Ok (rg_canon T1 g1) /\
  rg_body_get_group w T2 t2 res = Ok (rg_canon T2 g2).
Proof.
  intros T1 t1 g1 T2 t2 g2 h3 pre post res Hh3 Hwf1 Hfit1 Hwf2 Hfit2 Hn21 Hpost2 Hpl1 Hpl2 Hnt1 Hnt2 Hno w H.
  set (segs := [RgSeg pre t1 T1 g1; RgSeg [] t2 T2 g2]).
  assert (Ew : w = h3 ++ rg_segs_wire segs ++ post).
  { unfold w, segs. cbn [rg_segs_wire flat_map rg_seg_wire app]. rewrite <- !app_assoc. reflexivity. }
  assert (Hok : rg_segs_ok_nodict segs post).
  { unfold segs. cbn [rg_segs_ok_nodict rg_segs_wire flat_map rg_seg_wire app]. rewrite !app_nil_r.
    split; [exact Hwf1|]. split; [exact Hfit1|].
    split.
    { intros f Hf. unfold rg_write in Hf. rewrite rg_write_val_grp in Hf. cbn [app hd_error] in Hf.
      inversion Hf; subst f. exact Hn21. }
    split; [exact Hpl1|]. split; [exact Hnt1|].
    split; [intros q Hq; apply Hno; apply in_app_or in Hq; destruct Hq as [Hq|Hq]; apply in_or_app;
            [left; exact Hq|right; apply in_or_app; left; exact Hq]|].
    split; [exact Hwf2|]. split; [exact Hfit2|]. split; [exact Hpost2|]. split; [exact Hpl2|]. split; [exact Hnt2|].
    split; [|exact I].
    intros q Hq. apply Hno. apply in_or_app. right. apply in_or_app. right. exact Hq. }
  rewrite Ew in H |- *.
  destruct (rg_nodict_message_groups h3 segs post res Hh3 Hok H) as (Hg & _).
  split; [exact (Hg [] pre t1 T1 g1 [RgSeg [] t2 T2 g2] eq_refl)|exact (Hg [RgSeg pre t1 T1 g1] [] t2 T2 g2 [] eq_refl)].
Qed.

(* ------------------------------------------------------------------------------------------------ *)
(* Non-vacuity: ClOrdID, NoAllocs(78) (nested two levels) directly followed by NoPartyIDs(453), Text, CheckSum *)

Lemma rg_ex2_nodict_hyps :
  length rg_ex_h3 = 3%nat /\
  rg_segs_ok_nodict [RgSeg [(11, [105])] 78 rg_ex_tmpl rg_ex_group; RgSeg [] 453 rg_ex2_tmpl rg_ex2_group]
                    ([(58, [116])] ++ [(10, [48; 48; 48])]) /\
  exists res, rg_scan_message [] [] None rg_ex2_wire = Ok res /\
              rg_body_get_group rg_ex2_wire rg_ex_tmpl 78 res = Ok rg_ex_group /\
              rg_body_get_group rg_ex2_wire rg_ex2_tmpl 453 res = Ok rg_ex2_group /\
              rg_body_has 58 res = true /\ rg_body_has 11 res = true /\
              rg_body_lookup 78 res = Some (4%nat, 1%nat) /\ rg_body_lookup 453 res = Some (15%nat, 1%nat).
Proof.
  assert (Hno : forall l : list rg_field, forallb (fun q => negb (fst q =? RG_CHECKSUM)) l = true ->
                  forall q, In q l -> fst q <> RG_CHECKSUM).
  { intros l H q Hq. rewrite forallb_forall in H. specialize (H q Hq). apply negb_true_iff in H. apply Z.eqb_neq. exact H. }
  split; [reflexivity|]. split.
  { cbn [rg_segs_ok_nodict].
    split; [vm_compute; reflexivity|]. split; [vm_compute; reflexivity|].
    split; [intros f Hf; vm_compute in Hf; inversion Hf; subst f; apply rg_memb_false; vm_compute; reflexivity|].
    split; [split; vm_compute; reflexivity|].
    split; [apply rg_memb_false; vm_compute; reflexivity|].
    split; [apply Hno; vm_compute; reflexivity|].
    split; [vm_compute; reflexivity|]. split; [vm_compute; reflexivity|].
    split; [intros f Hf; vm_compute in Hf; inversion Hf; subst f; apply rg_memb_false; vm_compute; reflexivity|].
    split; [split; vm_compute; reflexivity|].
    split; [apply rg_memb_false; vm_compute; reflexivity|].
    split; [apply Hno; vm_compute; reflexivity|exact I]. }
  eexists. split; [vm_compute; reflexivity|]. repeat split; vm_compute; reflexivity.
Qed.
