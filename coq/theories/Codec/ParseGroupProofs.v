(* C11 when repeating groups of the application dictionary DO start in the message (parseGroup runs).

   1. Simulation.  The byte-level parser (Parse.dp_loop / parse_group / pg_loop on ser fs) is related, step by step and
      for every run, to the field-level classification Group.rg_scan on fs: the Body it builds is the fold of
      FieldMap.add over the Body.add calls rg_scan lists, each call (t, off, l) adding the window fields[off : off+l]
      of the field array; Header and Trailer are what they are without groups.  Needed: the dictionary's group member
      lists (for the MsgType of the message) hold no header / trailer tag (dict_body_only), and MsgType (35) occurs once.
   2. Fidelity for a message given as a list of items - plain fields and well-formed groups (the C13 hypotheses) -:
      accepted, raw bytes unchanged, field array = the wire fields, every plain field is retrievable from its section
      with its wire value (last occurrence wins), every group is stored under its tag as the window of its wire
      fields and reads back through its template (rg_read on the window extended to the end of the field array). *)
From Coq Require Import ZArith List Bool Lia ZifyBool.
From QF Require Import Base.Res Base.Bytes Codec.FixInt Codec.FixIntProofs Codec.TagValue Codec.TagValueProofs
  Codec.FieldMap Codec.FieldMapProofs Codec.Build Codec.Parse Codec.Scan Codec.ScanProofs Spec.FixStd
  Codec.ParseProofs Codec.Group Codec.GroupProofs Codec.GroupMulti.
Import ListNotations.
Open Scope Z_scope.

(* ------------------------------------------------------------------------------------------------ *)
(* The two dictionary views (Parse.gdef, Group.rg_gdef) are the same tree                              *)

Fixpoint gdef_rg (g : gdef) : rg_gdef := match g with GDef t ms => RgDef t (map gdef_rg ms) end.

Lemma gdef_rg_tag : forall g, rg_gdef_tag (gdef_rg g) = gdef_tag g.
Proof. destruct g; reflexivity. Qed.
Lemma gdef_rg_members : forall g, rg_gdef_members (gdef_rg g) = map gdef_rg (gdef_members g).
Proof. destruct g; reflexivity. Qed.

Lemma gd_find_rg : forall t l, rg_def_lookup t (map gdef_rg l) = option_map gdef_rg (gd_find t l).
Proof.
  intros t. induction l as [|g r IH]; cbn [map rg_def_lookup gd_find]; [reflexivity|].
  rewrite IH. destruct (gd_find t r); cbn [option_map]; [reflexivity|].
  rewrite gdef_rg_tag. destruct (gdef_tag g =? t); reflexivity.
Qed.

Lemma gd_walk_rg : forall tags fields, rg_get_group_fields (map gdef_rg fields) tags = map gdef_rg (gd_walk fields tags).
Proof.
  induction tags as [|t rest IH]; intros fields; [reflexivity|].
  destruct rest as [|u rest'].
  - cbn [rg_get_group_fields gd_walk]. rewrite gd_find_rg. destruct (gd_find t fields) as [fd|]; cbn [option_map]; [|reflexivity].
    apply gdef_rg_members.
  - change (rg_get_group_fields (map gdef_rg fields) (t :: u :: rest')) with
      (match rg_def_lookup t (map gdef_rg fields) with
       | Some x => rg_get_group_fields (rg_gdef_members x) (u :: rest')
       | None => rg_get_group_fields (map gdef_rg fields) (u :: rest') end).
    change (gd_walk fields (t :: u :: rest')) with
      (match gd_find t fields with Some fd => gd_walk (gdef_members fd) (u :: rest') | None => gd_walk fields (u :: rest') end).
    rewrite gd_find_rg. destruct (gd_find t fields) as [fd|]; cbn [option_map].
    + rewrite gdef_rg_members. apply IH.
    + apply IH.
Qed.

Lemma is_group_member_rg : forall t l, rg_is_group_member t (map gdef_rg l) = is_group_member t l.
Proof.
  intros t l. unfold rg_is_group_member, is_group_member. induction l as [|g r IH]; cbn [map existsb]; [reflexivity|].
  rewrite IH, gdef_rg_tag. reflexivity.
Qed.

Lemma nig_rg : forall defs tags,
  rg_is_num_in_group (map gdef_rg defs) tags = match gd_walk defs tags with [] => false | _ => true end.
Proof.
  intros defs tags. unfold rg_is_num_in_group. rewrite gd_walk_rg. destruct (gd_walk defs tags); reflexivity.
Qed.

Definition td_xh (td : option transport_dict) : list Z := match td with Some x => fst x | None => [] end.
Definition td_xt (td : option transport_dict) : list Z := match td with Some x => snd x | None => [] end.

Lemma is_header_field_rg : forall t td, rg_is_header_field (td_xh td) t = is_header_field t td.
Proof. intros t [x|]; reflexivity. Qed.
Lemma is_trailer_field_rg : forall t td, rg_is_trailer_field (td_xt td) t = is_trailer_field t td.
Proof. intros t [x|]; reflexivity. Qed.

(* every tag that some group definition below `defs` lists as a member (any depth) *)
Fixpoint gdef_member_tags (g : gdef) : list Z :=
  match g with GDef _ ms => flat_map (fun m => gdef_tag m :: gdef_member_tags m) ms end.
Definition defs_member_tags (defs : list gdef) : list Z := flat_map gdef_member_tags defs.

(* the group member lists of the message definition hold body tags only *)
Definition dict_body_only (td : option transport_dict) (defs : list gdef) : Prop :=
  forall x, In x (defs_member_tags defs) -> is_header_field x td = false /\ is_trailer_field x td = false.

Lemma gd_find_in : forall t l g, gd_find t l = Some g -> In g l.
Proof.
  intros t. induction l as [|x r IH]; intros g H; cbn [gd_find] in H; [discriminate|].
  destruct (gd_find t r) as [y|] eqn:E.
  - inversion H; subst. right. apply IH. reflexivity.
  - destruct (gdef_tag x =? t); [|discriminate]. inversion H; subst. left. reflexivity.
Qed.

Lemma member_in_member_tags : forall x fd, is_group_member x (gdef_members fd) = true -> In x (gdef_member_tags fd).
Proof.
  intros x [t ms] H. cbn [gdef_members] in H. cbn [gdef_member_tags]. unfold is_group_member in H.
  apply existsb_exists in H. destruct H as [m [Hm Ht]]. apply in_flat_map. exists m. split; [exact Hm|].
  left. lia.
Qed.

Lemma member_tags_members : forall fd x, In x (defs_member_tags (gdef_members fd)) -> In x (gdef_member_tags fd).
Proof.
  intros [t ms] x H. cbn [gdef_members] in H. cbn [gdef_member_tags]. unfold defs_member_tags in H.
  apply in_flat_map in H. destruct H as [m [Hm Hx]]. apply in_flat_map. exists m. split; [exact Hm|]. right. exact Hx.
Qed.

Lemma walk_member_tags : forall tags fields x, is_group_member x (gd_walk fields tags) = true -> In x (defs_member_tags fields).
Proof.
  induction tags as [|t rest IH]; intros fields x H; [discriminate|].
  destruct rest as [|u rest'].
  - cbn [gd_walk] in H. destruct (gd_find t fields) as [fd|] eqn:E; [|discriminate].
    apply in_flat_map. exists fd. split; [exact (gd_find_in _ _ _ E)|]. apply member_in_member_tags. exact H.
  - change (gd_walk fields (t :: u :: rest')) with
      (match gd_find t fields with Some fd => gd_walk (gdef_members fd) (u :: rest') | None => gd_walk fields (u :: rest') end) in H.
    destruct (gd_find t fields) as [fd|] eqn:E.
    + apply in_flat_map. exists fd. split; [exact (gd_find_in _ _ _ E)|]. apply member_tags_members. exact (IH _ _ H).
    + exact (IH _ _ H).
Qed.

(* ------------------------------------------------------------------------------------------------ *)
(* The Body built from a list of Body.add calls                                                        *)

(* the field slice fields[off : off+l] as FieldMap.add receives it *)
Definition field_at (fs : list (Z * bytes)) (a : rg_badd) : field :=
  match skipn (snd (fst a)) fs with
  | f :: r => (init_of f, map init_of (firstn (snd a - 1) r))
  | [] => (tv_zero, [])
  end.
Definition body_of (fs : list (Z * bytes)) (adds : list rg_badd) : fmap :=
  fold_left (fun m a => fm_add m (field_at fs a)) adds body0.

Lemma body_of_snoc : forall fs adds a, body_of fs (adds ++ [a]) = fm_add (body_of fs adds) (field_at fs a).
Proof. intros. unfold body_of. rewrite fold_left_app. reflexivity. Qed.

Lemma field_at_single : forall done f rest t, field_at (done ++ f :: rest) (t, length done, 1%nat) = (init_of f, []).
Proof. intros. unfold field_at. cbn [fst snd]. rewrite skipn_app_exact. reflexivity. Qed.

Lemma field_at_window : forall pre f r rest t,
  field_at ((pre ++ f :: r) ++ rest) (t, length pre, S (length r)) = (init_of f, map init_of r).
Proof.
  intros. unfold field_at. cbn [fst snd]. rewrite <- app_assoc. rewrite skipn_app_exact. cbn [app].
  replace (S (length r) - 1)%nat with (length r) by lia. rewrite firstn_app_exact. reflexivity.
Qed.

(* ------------------------------------------------------------------------------------------------ *)
(* Small facts about values, tails, the header                                                         *)

Lemma values_head_none : forall f r, c11_values_ok None (f :: r) = true -> soh_free (snd f) = true.
Proof. intros [t v] r H. cbn [c11_values_ok] in H. apply andb_true_iff in H. exact (proj1 H). Qed.

Lemma values_tail_not212 : forall prev f r, c11_values_ok prev (f :: r) = true -> fst f <> TAG_XML_DATA_LEN ->
  c11_values_ok None r = true.
Proof.
  intros prev [t v] r H Hn. cbn [fst] in Hn. cbn [c11_values_ok] in H. apply andb_true_iff in H. destruct H as [_ H].
  replace (t =? TAG_XML_DATA_LEN) with false in H by lia. exact H.
Qed.

Definition xl_ok (prev : option Z) (xl : Z) : Prop := match prev with Some k => xl = k /\ 0 < k | None => xl <= 0 end.

Lemma next_xl : forall td prev f g rest'' hdr xlr, c11_values_ok prev (f :: g :: rest'') = true -> xlr <= 0 ->
  exists prev' xl',
    (if fst f =? TAG_XML_DATA_LEN then fm_get_int_or_zero (addH td hdr f) TAG_XML_DATA_LEN else Ok xlr) = Ok xl' /\
    xl_ok prev' xl' /\ c11_values_ok prev' (g :: rest'') = true.
Proof.
  intros td prev [t v] g rest'' hdr xlr Hvals Hx. cbn [fst].
  cbn [c11_values_ok] in Hvals. apply andb_true_iff in Hvals as [_ Hvals].
  destruct (t =? TAG_XML_DATA_LEN) eqn:E212.
  - destruct prev as [k0|]; [discriminate|]. repeat (apply andb_true_iff in Hvals as [Hvals ?]).
    assert (t = 212) by (unfold TAG_XML_DATA_LEN in E212; lia). subst t.
    exists (if 0 <? scan_dec v 0 then Some (scan_dec v 0) else None), (scan_dec v 0).
    unfold addH. cbn [fst]. replace (is_header_field 212 td) with true by reflexivity.
    unfold init_of. cbn [fst snd]. rewrite get_int_after_add.
    + split; [reflexivity|]. destruct (0 <? scan_dec v 0) eqn:Ez; split; try assumption; cbn [xl_ok]; lia.
    + exact Hvals.
    + destruct v; [cbn in *; discriminate|discriminate].
    + apply Nat.leb_le in H0. lia.
  - exists None, xlr. split; [reflexivity|]. split; [exact Hx|exact Hvals].
Qed.

Definition tail_ok (rest : list (Z * bytes)) : Prop :=
  rest <> [] /\ Forall (fun f => c11_tag_ok (fst f) = true) rest /\
  fst (last rest (0, [])) = TAG_CHECK_SUM /\ Forall (fun f => fst f <> TAG_CHECK_SUM) (removelast rest) /\
  Forall (fun f => fst f <> TAG_MSG_TYPE) rest.

Lemma tail_ok_head : forall f rest, tail_ok (f :: rest) ->
  c11_tag_ok (fst f) = true /\ fst f <> TAG_MSG_TYPE /\ (rest = [] -> fst f = TAG_CHECK_SUM) /\ (rest <> [] -> fst f <> TAG_CHECK_SUM).
Proof.
  intros f rest (_ & Ht & Hl & Hm & H35). apply Forall_cons_iff in Ht as [Ht _]. apply Forall_cons_iff in H35 as [H35 _].
  split; [exact Ht|]. split; [exact H35|]. split.
  - intros ->. exact Hl.
  - intros Hne. destruct rest as [|g r]; [congruence|]. rewrite removelast_cons2 in Hm. apply Forall_cons_iff in Hm as [Hm _]. exact Hm.
Qed.

Lemma tail_ok_tail : forall f rest, tail_ok (f :: rest) -> rest <> [] -> tail_ok rest.
Proof.
  intros f rest (_ & Ht & Hl & Hm & H35) Hne. destruct rest as [|g r]; [congruence|].
  apply Forall_cons_iff in Ht as [_ Ht]. apply Forall_cons_iff in H35 as [_ H35].
  rewrite removelast_cons2 in Hm. apply Forall_cons_iff in Hm as [_ Hm].
  split; [discriminate|]. split; [exact Ht|]. split; [exact Hl|]. split; [exact Hm|exact H35].
Qed.

Lemma trailer_10 : forall td, is_trailer_field TAG_CHECK_SUM td = true.
Proof. intros td. reflexivity. Qed.
Lemma header_212 : forall td, is_header_field TAG_XML_DATA_LEN td = true.
Proof. intros td. reflexivity. Qed.

Lemma fm_get_bytes_add_other : forall m x t, tv_tag x <> t -> fm_get_bytes (fm_add m (x, [])) t = fm_get_bytes m t.
Proof.
  intros m x t Hn. unfold fm_get_bytes, fm_add. cbn [fm_lookup field_tag fst]. rewrite lk_get_put_other by (intros E; apply Hn; symmetry; exact E). reflexivity.
Qed.

Lemma hdr35_addH : forall td m f t, fst f <> t -> fm_get_bytes (addH td m f) t = fm_get_bytes m t.
Proof.
  intros td m f t Hn. unfold addH. destruct (is_header_field (fst f) td); [|reflexivity].
  apply fm_get_bytes_add_other. exact Hn.
Qed.

(* the continuation of one iteration of doParsing's loop once the field has been classified (state st2) *)
Definition dp_after (fuel : nat) (td : option transport_dict) (ad : option app_dict) (xlr : Z) (st2 : mparser) : res mparser :=
  let* p := arr_get (m_fields (mp_msg st2)) (mp_pfb st2) in
  if tv_tag p =? TAG_CHECK_SUM then Ok st2
  else
    let st3 := if negb (mp_found_body st2)
               then mp_set_msg st2 (msg_set_body_bytes (mp_msg st2) (mp_raw_bytes st2)) else st2 in
    let* xml_data_len := if tv_tag p =? TAG_XML_DATA_LEN
                         then fm_get_int_or_zero (m_header (mp_msg st3)) TAG_XML_DATA_LEN
                         else Ok xlr in
    dp_loop fuel td ad (mp_set_field_index st3 (S (mp_field_index st3))) xml_data_len.

Lemma dp_loop_S : forall fuel td ad st xl,
  dp_loop (S fuel) td ad st xl =
  let fields := m_fields (mp_msg st) in
  let fi := mp_field_index st in
  if Nat.leb (length fields) fi then Err E_NO_CHECKSUM
  else
    let* _ := arr_get fields fi in
    let '(rem, r) := if xl >? 0 then extract_xml_data_field (mp_raw_bytes st) xl
                     else extract_field (mp_raw_bytes st) in
    let* t := r in
    let* fields' := arr_set fields fi t in
    let st1 := mp_parsed st fi fields' rem in
    let tag := tv_tag t in
    let* st2 :=
      if is_header_field tag td then Ok (mp_header_add st1 (t, []))
      else if is_trailer_field tag td then Ok (mp_set_found_trailer (mp_trailer_add st1 (t, [])) true)
      else if is_num_in_group_field (m_header (mp_msg st1)) [tag] ad then parse_group td ad st1 [tag]
      else Ok (mp_body_add (mp_set_trailer_bytes (mp_set_found_body st1 true) rem) (t, [])) in
    dp_after fuel td ad (if xl >? 0 then 0 else xl) st2.
Proof. reflexivity. Qed.

(* ------------------------------------------------------------------------------------------------ *)
(* The simulation                                                                                      *)

Ltac simpl_st :=
  cbn [mp_msg mp_raw_bytes mp_field_index mp_pfb mp_found_body mp_found_trailer mp_trailer_bytes
       m_header m_body m_trailer m_raw m_fields m_body_bytes
       mp_set_msg mp_header_add mp_body_add mp_trailer_add mp_set_found_body mp_set_found_trailer
       mp_set_trailer_bytes mp_set_field_index mp_parsed
       msg_set_header msg_set_body msg_set_trailer msg_set_fields msg_set_body_bytes].

Section Sim.
Variable td : option transport_dict.
Variable d : app_dict.
Variable mt : bytes.
Variable defs : list gdef.
(* the message definition of mt, as the walks see it (defs = [] when the dictionary does not know mt) *)
Hypothesis Hfind : forall tags, match ad_find mt d with Some fields => gd_walk fields tags | None => [] end = gd_walk defs tags.
Hypothesis Hdict : dict_body_only td defs.
Variable n : nat.
Variable fs : list (Z * bytes).
Hypothesis Hn : (length fs <= n)%nat.

Local Notation xh := (td_xh td).
Local Notation xt := (td_xt td).
Local Notation M := (map gdef_rg defs).

Lemma ggf_eq : forall hdr tags, fm_get_bytes hdr TAG_MSG_TYPE = Ok mt -> get_group_fields hdr tags (Some d) = gd_walk defs tags.
Proof. intros hdr tags H. unfold get_group_fields. rewrite H. apply Hfind. Qed.

Lemma nig_eq : forall hdr tags, fm_get_bytes hdr TAG_MSG_TYPE = Ok mt ->
  is_num_in_group_field hdr tags (Some d) = rg_is_num_in_group M tags.
Proof. intros hdr tags H. unfold is_num_in_group_field. rewrite (ggf_eq _ _ H), nig_rg. reflexivity. Qed.

Lemma member_eq : forall x tags, rg_is_group_member x (rg_get_group_fields M tags) = is_group_member x (gd_walk defs tags).
Proof. intros. rewrite gd_walk_rg, is_group_member_rg. reflexivity. Qed.

Lemma member_plain : forall x tags, is_group_member x (gd_walk defs tags) = true ->
  is_header_field x td = false /\ is_trailer_field x td = false.
Proof. intros x tags H. apply Hdict. exact (walk_member_tags _ _ _ H). Qed.

Lemma pop_walk : forall rpath k hdr gf x, fm_get_bytes hdr TAG_MSG_TYPE = Ok mt -> (length rpath <= k)%nat ->
  exists gf', pg_pop_loop k hdr (Some d) x (rev rpath) gf =
                (rev (snd (rg_walk_up M x rpath)), gf', fst (rg_walk_up M x rpath)) /\
              (fst (rg_walk_up M x rpath) = true -> gf' = gd_walk defs (rev (snd (rg_walk_up M x rpath)))).
Proof.
  induction rpath as [|a up IH]; intros k hdr gf x H35 Hk.
  - exists gf. destruct k; (split; [reflexivity|discriminate]).
  - destruct up as [|b up'].
    + exists gf. destruct k; (split; [reflexivity|discriminate]).
    + destruct k as [|k']; [cbn [length] in Hk; lia|].
      rewrite rg_walk_up_cons2.
      set (tg := rev (b :: up')).
      assert (Er : rev (a :: b :: up') = tg ++ [a]) by reflexivity.
      rewrite Er. cbn [pg_pop_loop]. rewrite removelast_last.
      replace (Nat.ltb 1 (length (tg ++ [a]))) with true
        by (symmetry; apply Nat.ltb_lt; rewrite app_length; unfold tg; cbn [rev]; rewrite app_length; cbn [length]; lia).
      rewrite (ggf_eq _ _ H35), member_eq. fold tg.
      destruct (is_group_member x (gd_walk defs tg)) eqn:Em.
      * exists (gd_walk defs tg). cbn [fst snd]. split; [reflexivity|]. intros _. reflexivity.
      * apply IH; [exact H35|cbn [length] in *; lia].
Qed.

Record dpg_rel (done rest : list (Z * bytes)) (st : mparser) (adds : list rg_badd) : Prop := mk_dpg_rel {
  g_split : fs = done ++ rest;
  g_raw : mp_raw_bytes st = ser rest;
  g_fields : m_fields (mp_msg st) = map init_of done ++ repeat tv_zero (n - length done);
  g_hdr : m_header (mp_msg st) = fold_left (addH td) done hdr0;
  g_body : m_body (mp_msg st) = body_of fs adds;
  g_trl : m_trailer (mp_msg st) = fold_left (addT td) done trl0;
  g_mraw : m_raw (mp_msg st) = Some (ser fs);
  g_h35 : fm_get_bytes (m_header (mp_msg st)) TAG_MSG_TYPE = Ok mt
}.

Definition dpg_final (st : mparser) (res : list rg_badd) : Prop :=
  m_fields (mp_msg st) = map init_of fs ++ repeat tv_zero (n - length fs) /\
  m_header (mp_msg st) = fold_left (addH td) fs hdr0 /\
  m_body (mp_msg st) = body_of fs res /\
  m_trailer (mp_msg st) = fold_left (addT td) fs trl0 /\
  m_raw (mp_msg st) = Some (ser fs) /\
  S (mp_field_index st) = length fs.

Definition sim_top (rest : list (Z * bytes)) : Prop :=
  forall done st xl prev fuel adds res,
    dpg_rel done rest st adds -> mp_field_index st = length done ->
    (length rest <= fuel)%nat -> tail_ok rest -> c11_values_ok prev rest = true -> xl_ok prev xl ->
    rg_scan xh xt (Some M) RgTop (length done) rest adds = Ok res ->
    exists st', dp_loop fuel td (Some d) st xl = Ok st' /\ dpg_final st' res.

(* dm = fields[s : s+l], the window that ends with the field parsed last *)
Definition dm_ok (done : list (Z * bytes)) (dm : field) (dt : Z) (s l : nat) : Prop :=
  exists pre f r, done = pre ++ f :: r /\ length pre = s /\ S (length r) = l /\
                  dm = (init_of f, map init_of r) /\ dt = fst f.

Definition sim_in (rest : list (Z * bytes)) : Prop :=
  forall done st dm dt s l rpath lt fuelp fuel xlr adds res,
    dpg_rel done rest st adds -> S (mp_field_index st) = length done -> dm_ok done dm dt s l ->
    (n - mp_field_index st < fuelp)%nat -> (length rest <= fuel)%nat -> tail_ok rest ->
    c11_values_ok None rest = true -> xlr <= 0 ->
    rg_scan xh xt (Some M) (RgIn dt s l rpath lt) (length done) rest adds = Ok res ->
    exists st2, pg_loop fuelp td (Some d) st dm (rev rpath) (gd_walk defs (rev rpath)) = Ok st2 /\
      exists st', dp_after fuel td (Some d) xlr st2 = Ok st' /\ dpg_final st' res.

Lemma dm_field_at : forall done rest dm dt s l, dm_ok done dm dt s l -> fs = done ++ rest -> field_at fs (dt, s, l) = dm.
Proof.
  intros done rest dm dt s l (pre & f0 & r & E1 & E2 & E3 & E4 & E5) Hsplit. subst done s l dm dt.
  rewrite Hsplit. apply field_at_window.
Qed.

Lemma dm_ok_snoc : forall done dm dt s l f, dm_ok done dm dt s l ->
  dm_ok (done ++ [f]) (fst dm, snd dm ++ [init_of f]) dt s (S l).
Proof.
  intros done dm dt s l f (pre & f0 & r & E1 & E2 & E3 & E4 & E5). exists pre, f0, (r ++ [f]).
  subst done dm. cbn [fst snd]. split; [rewrite <- app_assoc; reflexivity|]. split; [exact E2|].
  split; [rewrite app_length; cbn [length]; lia|]. split; [rewrite map_app; reflexivity|exact E5].
Qed.

Lemma dm_ok_new : forall done f, dm_ok (done ++ [f]) (init_of f, []) (fst f) (length done) 1%nat.
Proof. intros done f. exists done, f, []. repeat split; reflexivity. Qed.

Lemma fields_snoc : forall done f k, (n - length done)%nat = S k ->
  map init_of done ++ init_of f :: repeat tv_zero k = map init_of (done ++ [f]) ++ repeat tv_zero (n - length (done ++ [f])).
Proof.
  intros done f k Ek. rewrite map_app, <- app_assoc, app_length. cbn [map app length].
  replace (n - (length done + 1))%nat with k by lia. reflexivity.
Qed.

Lemma dpg_rel_step : forall done f rest' st st2 adds adds' k,
  dpg_rel done (f :: rest') st adds -> (n - length done)%nat = S k ->
  mp_raw_bytes st2 = ser rest' ->
  m_fields (mp_msg st2) = map init_of done ++ init_of f :: repeat tv_zero k ->
  m_header (mp_msg st2) = addH td (m_header (mp_msg st)) f ->
  m_body (mp_msg st2) = body_of fs adds' ->
  m_trailer (mp_msg st2) = addT td (m_trailer (mp_msg st)) f ->
  m_raw (mp_msg st2) = m_raw (mp_msg st) ->
  fst f <> TAG_MSG_TYPE ->
  dpg_rel (done ++ [f]) rest' st2 adds'.
Proof.
  intros done f rest' st st2 adds adds' k [Hsplit Hraw Hfields Hh Hb Ht Hmraw H35] Ek E1 E2 E3 E4 E5 E6 Hn35.
  constructor.
  - rewrite Hsplit, <- app_assoc. reflexivity.
  - exact E1.
  - rewrite E2. apply fields_snoc. exact Ek.
  - rewrite E3, fold_left_snoc, <- Hh. reflexivity.
  - exact E4.
  - rewrite E5, fold_left_snoc, <- Ht. reflexivity.
  - rewrite E6. exact Hmraw.
  - rewrite E3, hdr35_addH by exact Hn35. exact H35.
Qed.

Lemma after_top : forall done f rest' st2 adds' prev xlr fuel res,
  dpg_rel (done ++ [f]) rest' st2 adds' -> mp_pfb st2 = length done -> mp_field_index st2 = length done ->
  (length rest' <= fuel)%nat -> tail_ok (f :: rest') -> c11_values_ok prev (f :: rest') = true -> xlr <= 0 ->
  (rest' <> [] -> sim_top rest') ->
  (if fst f =? RG_CHECKSUM then Ok adds' else rg_scan xh xt (Some M) RgTop (S (length done)) rest' adds') = Ok res ->
  exists st', dp_after fuel td (Some d) xlr st2 = Ok st' /\ dpg_final st' res.
Proof.
  intros done f rest' st2 adds' prev xlr fuel res R Hpfb Hfi Hfuel Htail Hvals Hx IH Hscan.
  pose proof R as R0. destruct R as [Hsplit Hraw Hfields Hh Hb Ht Hmraw H35].
  destruct (tail_ok_head _ _ Htail) as (Htag & Hn35 & Hlast & Hnl).
  unfold dp_after. rewrite Hfields, Hpfb, map_app, <- app_assoc. cbn [map app]. rewrite arr_get_map_at. cbn [bind].
  change (tv_tag (init_of f)) with (fst f).
  destruct rest' as [|g rest''].
  - rewrite (Hlast eq_refl) in *. change (TAG_CHECK_SUM =? RG_CHECKSUM) with true in Hscan.
    rewrite Z.eqb_refl. inversion Hscan; subst res.
    eexists. split; [reflexivity|]. rewrite app_nil_r in Hsplit. unfold dpg_final.
    rewrite Hfields, Hh, Hb, Ht, Hmraw, Hfi, <- Hsplit. repeat split; try reflexivity.
    rewrite Hsplit, app_length. cbn [length]. lia.
  - pose proof (Hnl ltac:(discriminate)) as Hn10. unfold TAG_CHECK_SUM, RG_CHECKSUM in *.
    replace (fst f =? 10) with false in * by lia.
    set (st3 := if negb (mp_found_body st2) then mp_set_msg st2 (msg_set_body_bytes (mp_msg st2) (mp_raw_bytes st2)) else st2).
    assert (F3 : m_fields (mp_msg st3) = m_fields (mp_msg st2) /\ m_header (mp_msg st3) = m_header (mp_msg st2) /\
                 m_body (mp_msg st3) = m_body (mp_msg st2) /\ m_trailer (mp_msg st3) = m_trailer (mp_msg st2) /\
                 m_raw (mp_msg st3) = m_raw (mp_msg st2) /\ mp_raw_bytes st3 = mp_raw_bytes st2 /\
                 mp_field_index st3 = mp_field_index st2).
    { unfold st3. destruct (negb (mp_found_body st2)); repeat split; reflexivity. }
    destruct F3 as (G1 & G2 & G3 & G4 & G5 & G6 & G7).
    destruct (next_xl td prev f g rest'' (fold_left (addH td) done hdr0) xlr Hvals Hx) as (prev' & xl' & Exl & Hxl' & Hvals').
    rewrite G2, Hh, fold_left_snoc, Exl. cbn [bind].
    apply (IH ltac:(discriminate) (done ++ [f]) _ xl' prev' fuel adds' res).
    + constructor; simpl_st; congruence.
    + simpl_st. rewrite G7, Hfi, app_length. cbn [length]. lia.
    + exact Hfuel.
    + apply (tail_ok_tail _ _ Htail). discriminate.
    + exact Hvals'.
    + exact Hxl'.
    + rewrite app_length. cbn [length]. rewrite Nat.add_1_r. exact Hscan.
Qed.


Lemma sim_top_step : forall f rest', (rest' <> [] -> sim_top rest') -> (rest' <> [] -> sim_in rest') -> sim_top (f :: rest').
Proof.
  intros [t v] rest' IHt IHi. unfold sim_top.
  intros done st xl prev fuel adds res R Hfi Hfuel Htail Hvals Hxl Hscan.
  destruct fuel as [|fuel]; [cbn in Hfuel; lia|].
  pose proof R as R0. destruct R as [Hsplit Hraw Hfields Hh Hb Ht Hmraw H35].
  assert (Hld : (length done < n)%nat) by (pose proof Hn as Hn'; rewrite Hsplit, app_length in Hn'; cbn [length] in Hn'; lia).
  destruct (tail_ok_head _ _ Htail) as (Htag & Hn35 & Hlast & Hnl). cbn [fst] in *.
  assert (Htag' : 0 <= t < two63) by (unfold c11_tag_ok, two63 in *; lia).
  assert (Eex : (if xl >? 0 then extract_xml_data_field (mp_raw_bytes st) xl else extract_field (mp_raw_bytes st)) =
                (ser rest', Ok (init_of (t, v)))).
  { rewrite Hraw. pose proof Hvals as Hv0. cbn [c11_values_ok] in Hv0. apply andb_true_iff in Hv0 as [Hv _].
    destruct prev as [k|].
    - destruct Hxl as [-> Hk]. replace (k >? 0) with true by lia. apply extract_xml_ser; [exact Htag'|exact Hk|cbn [snd]; lia].
    - cbn [xl_ok] in Hxl. replace (xl >? 0) with false by lia. apply extract_field_ser; [exact Htag'|exact Hv]. }
  rewrite dp_loop_S. cbv zeta. rewrite Hfields, Hfi, app_length, map_length, repeat_length.
  replace (Nat.leb (length done + (n - length done)) (length done)) with false by (symmetry; apply Nat.leb_gt; lia).
  destruct (n - length done)%nat as [|k] eqn:Ek; [lia|]. rewrite repeat_S_cons, arr_get_map_at. cbn [bind].
  rewrite Eex. cbv beta iota. cbn [bind]. rewrite arr_set_map_at. cbn [bind].
  set (fields' := map init_of done ++ init_of (t, v) :: repeat tv_zero k).
  set (st1 := mp_parsed st (length done) fields' (ser rest')).
  change (tv_tag (init_of (t, v))) with t.
  assert (H35' : fm_get_bytes (m_header (mp_msg st1)) TAG_MSG_TYPE = Ok mt) by exact H35.
  assert (Hxlr : (if xl >? 0 then 0 else xl) <= 0) by (destruct (xl >? 0) eqn:E; lia).
  rewrite rg_scan_top_cons in Hscan. cbv zeta in Hscan.
  rewrite is_header_field_rg, is_trailer_field_rg, <- (nig_eq _ [t] H35') in Hscan.
  destruct (is_header_field t td) eqn:Eh.
  { cbn [bind]. apply (after_top done (t, v) rest' _ adds prev _ fuel res); try assumption; try reflexivity.
    - apply (dpg_rel_step done (t, v) rest' st _ adds adds k R0 Ek); simpl_st; try reflexivity; try assumption.
      + unfold addH. cbn [fst]. rewrite Eh. reflexivity.
      + unfold addT. cbn [fst]. rewrite Eh. reflexivity.
    - cbn [length] in Hfuel. clear - Hfuel. lia. }
  destruct (is_trailer_field t td) eqn:Et.
  { cbn [bind]. apply (after_top done (t, v) rest' _ adds prev _ fuel res); try assumption; try reflexivity.
    - apply (dpg_rel_step done (t, v) rest' st _ adds adds k R0 Ek); simpl_st; try reflexivity; try assumption.
      + unfold addH. cbn [fst]. rewrite Eh. reflexivity.
      + unfold addT. cbn [fst]. rewrite Eh, Et. reflexivity.
    - cbn [length] in Hfuel. clear - Hfuel. lia. }
  assert (Hn10 : t <> TAG_CHECK_SUM) by (intros E; rewrite E, trailer_10 in Et; discriminate).
  assert (Hn212 : t <> TAG_XML_DATA_LEN) by (intros E; rewrite E, header_212 in Eh; discriminate).
  destruct (is_num_in_group_field (m_header (mp_msg st1)) [t] (Some d)) eqn:Enig.
  - (* a repeating group starts: parseGroup *)
    assert (Hne : rest' <> []) by (intros E; apply Hn10; apply Hlast; exact E).
    unfold parse_group. simpl_st.
    change (m_fields (mp_msg st1)) with fields'. change (mp_field_index st1) with (mp_field_index st).
    rewrite Hfi. unfold fields' at 1. rewrite arr_get_map_at. cbn [bind].
    rewrite (ggf_eq _ [t] H35').
    destruct (IHi Hne (done ++ [(t, v)])
                (mp_set_found_body st1 true) (init_of (t, v), []) t (length done) 1%nat [t] t
                (S (length fields')) fuel (if xl >? 0 then 0 else xl) adds res)
      as (st2 & Epg & st' & Eaf & Hfin).
    + apply (dpg_rel_step done (t, v) rest' st _ adds adds k R0 Ek); simpl_st; try reflexivity; try assumption.
      * unfold addH. cbn [fst]. rewrite Eh. reflexivity.
      * unfold addT. cbn [fst]. rewrite Eh, Et. reflexivity.
    + simpl_st. change (mp_field_index st1) with (mp_field_index st). rewrite Hfi, app_length. cbn [length]. lia.
    + apply dm_ok_new.
    + simpl_st. change (mp_field_index st1) with (mp_field_index st). rewrite Hfi. unfold fields'. rewrite app_length, map_length. cbn [length]. rewrite repeat_length. lia.
    + cbn [length] in Hfuel. clear - Hfuel. lia.
    + apply (tail_ok_tail _ _ Htail Hne).
    + apply (values_tail_not212 prev (t, v) rest' Hvals). exact Hn212.
    + exact Hxlr.
    + rewrite app_length. cbn [length]. rewrite Nat.add_1_r. exact Hscan.
    + cbn [rev app] in Epg. rewrite Epg. cbn [bind]. exists st'. split; [exact Eaf|exact Hfin].
  - (* a plain body field *)
    cbn [bind]. apply (after_top done (t, v) rest' _ (adds ++ [(t, length done, 1%nat)]) prev _ fuel res); try assumption; try reflexivity.
    + apply (dpg_rel_step done (t, v) rest' st _ adds _ k R0 Ek); simpl_st; try reflexivity; try assumption.
      * unfold addH. cbn [fst]. rewrite Eh. reflexivity.
      * change (m_body (mp_msg st1)) with (m_body (mp_msg st)). rewrite Hb, body_of_snoc. f_equal.
        rewrite Hsplit. symmetry. apply field_at_single.
      * unfold addT. cbn [fst]. rewrite Eh, Et. reflexivity.
    + cbn [length] in Hfuel. clear - Hfuel. lia.
Qed.


Lemma sim_in_step : forall f rest', (rest' <> [] -> sim_top rest') -> (rest' <> [] -> sim_in rest') -> sim_in (f :: rest').
Proof.
  intros [t v] rest' IHt IHi. unfold sim_in.
  intros done st dm dt s l rpath lt fuelp fuel xlr adds res R Hfi Hdm Hfp Hfuel Htail Hvals Hx Hscan.
  destruct fuelp as [|fuelp]; [lia|].
  pose proof R as R0. destruct R as [Hsplit Hraw Hfields Hh Hb Ht Hmraw H35].
  assert (Hld : (length done < n)%nat) by (pose proof Hn as Hn'; rewrite Hsplit, app_length in Hn'; cbn [length] in Hn'; lia).
  destruct (tail_ok_head _ _ Htail) as (Htag & Hn35 & Hlast & Hnl). cbn [fst] in *.
  assert (Htag' : 0 <= t < two63) by (unfold c11_tag_ok, two63 in *; lia).
  pose proof (values_head_none _ _ Hvals) as Hsoh. cbn [snd] in Hsoh.
  cbn [pg_loop]. simpl_st. rewrite Hfi, Hfields, app_length, map_length, repeat_length.
  replace (Nat.leb (length done + (n - length done)) (length done)) with false by (symmetry; apply Nat.leb_gt; lia).
  destruct (n - length done)%nat as [|k] eqn:Ek; [lia|]. rewrite repeat_S_cons, arr_get_map_at. cbn [bind].
  rewrite Hraw, (extract_field_ser (t, v) rest' Htag' Hsoh). cbv beta iota. cbn [bind]. rewrite arr_set_map_at. cbn [bind].
  set (fields' := map init_of done ++ init_of (t, v) :: repeat tv_zero k).
  change (tv_tag (init_of (t, v))) with t.
  set (hdr := m_header (mp_msg st)) in *.
  set (dm' := (fst dm, snd dm ++ [init_of (t, v)])).
  rewrite rg_scan_in_cons in Hscan. cbv zeta in Hscan.
  rewrite member_eq, is_header_field_rg, is_trailer_field_rg in Hscan.
  (* staying inside the group: one more member *)
  assert (Rec : forall rpath2 lt2 stx,
            is_header_field t td = false -> is_trailer_field t td = false ->
            stx = mk_mp (mk_msg hdr (m_body (mp_msg st)) (m_trailer (mp_msg st)) (m_raw (mp_msg st)) (m_body_bytes (mp_msg st)) fields')
                        (ser rest') (length done) (length done) (ser rest') (mp_found_body st) (mp_found_trailer st) ->
            rg_scan xh xt (Some M) (RgIn dt s (S l) rpath2 lt2) (S (length done)) rest' adds = Ok res ->
            exists st2, pg_loop fuelp td (Some d) stx dm' (rev rpath2) (gd_walk defs (rev rpath2)) = Ok st2 /\
              exists st', dp_after fuel td (Some d) xlr st2 = Ok st' /\ dpg_final st' res).
  { intros rpath2 lt2 stx Eh Et Estx Hs. subst stx.
    assert (Hn10 : t <> TAG_CHECK_SUM) by (intros E; rewrite E, trailer_10 in Et; discriminate).
    assert (Hn212 : t <> TAG_XML_DATA_LEN) by (intros E; rewrite E, header_212 in Eh; discriminate).
    assert (Hne : rest' <> []) by (intros E; apply Hn10; apply Hlast; exact E).
    apply (IHi Hne (done ++ [(t, v)]) _ dm' dt s (S l) rpath2 lt2 fuelp fuel xlr adds res).
    - apply (dpg_rel_step done (t, v) rest' st _ adds adds k R0 Ek); simpl_st; try reflexivity; try assumption.
      + unfold addH. cbn [fst]. rewrite Eh. reflexivity.
      + unfold addT. cbn [fst]. rewrite Eh, Et. reflexivity.
    - simpl_st. rewrite app_length. cbn [length]. clear - Hfi. lia.
    - apply dm_ok_snoc. exact Hdm.
    - simpl_st. clear - Hfp Hfi Hld. lia.
    - cbn [length] in Hfuel. clear - Hfuel. lia.
    - apply (tail_ok_tail _ _ Htail Hne).
    - apply (values_tail_not212 None (t, v) rest' Hvals). exact Hn212.
    - exact Hx.
    - rewrite app_length. cbn [length]. rewrite Nat.add_1_r. exact Hs. }
  (* leaving the group: Body.add(dm), then the field is classified at top level *)
  assert (Hdmadd : fm_add (m_body (mp_msg st)) dm = body_of fs (adds ++ [(dt, s, l)])).
  { rewrite body_of_snoc, Hb, (dm_field_at done _ dm dt s l Hdm Hsplit). reflexivity. }
  assert (Exit : forall st2 adds2,
            mp_raw_bytes st2 = ser rest' -> m_fields (mp_msg st2) = fields' ->
            m_header (mp_msg st2) = addH td hdr (t, v) -> m_body (mp_msg st2) = body_of fs adds2 ->
            m_trailer (mp_msg st2) = addT td (m_trailer (mp_msg st)) (t, v) -> m_raw (mp_msg st2) = m_raw (mp_msg st) ->
            mp_pfb st2 = length done -> mp_field_index st2 = length done ->
            (if t =? RG_CHECKSUM then Ok adds2 else rg_scan xh xt (Some M) RgTop (S (length done)) rest' adds2) = Ok res ->
            exists st', dp_after fuel td (Some d) xlr st2 = Ok st' /\ dpg_final st' res).
  { intros st2 adds2 E1 E2 E3 E4 E5 E6 E7 E8 Hs.
    apply (after_top done (t, v) rest' st2 adds2 None xlr fuel res); try assumption.
    - apply (dpg_rel_step done (t, v) rest' st st2 adds adds2 k R0 Ek); assumption.
    - cbn [length] in Hfuel. clear - Hfuel. lia. }
  destruct (is_group_member t (gd_walk defs (rev rpath))) eqn:Emem.
  { destruct (member_plain _ _ Emem) as [Eh Et].
    rewrite (nig_eq hdr _ H35).
    destruct (rg_is_num_in_group M (rev rpath ++ [t])) eqn:Enig.
    - rewrite (ggf_eq hdr _ H35). apply (Rec (t :: rpath) t _ Eh Et eq_refl Hscan).
    - apply (Rec rpath t _ Eh Et eq_refl Hscan). }
  destruct (is_header_field t td) eqn:Eh.
  { eexists. split; [reflexivity|]. apply (Exit _ (adds ++ [(dt, s, l)])); simpl_st; try reflexivity; try assumption.
    - unfold addH. cbn [fst]. rewrite Eh. reflexivity.
    - unfold addT. cbn [fst]. rewrite Eh. reflexivity. }
  destruct (is_trailer_field t td) eqn:Et.
  { eexists. split; [reflexivity|]. apply (Exit _ (adds ++ [(dt, s, l)])); simpl_st; try reflexivity; try assumption.
    - unfold addH. cbn [fst]. rewrite Eh. reflexivity.
    - unfold addT. cbn [fst]. rewrite Eh, Et. reflexivity. }
  destruct (pop_walk rpath (length (rev rpath)) hdr (gd_walk defs (rev rpath)) t H35 ltac:(rewrite rev_length; lia)) as (gf' & Epop & Hgf').
  rewrite Epop. destruct (rg_walk_up M t rpath) as [inp rpath2]. cbn [fst snd] in *.
  destruct inp.
  { rewrite (Hgf' eq_refl). rewrite (nig_eq hdr _ H35).
    destruct (rg_is_num_in_group M (rev rpath2 ++ [t])) eqn:Enig.
    - rewrite (ggf_eq hdr _ H35). apply (Rec (t :: rpath2) t _ eq_refl eq_refl eq_refl Hscan).
    - apply (Rec rpath2 t _ eq_refl eq_refl eq_refl Hscan). }
  rewrite (nig_eq hdr _ H35).
  assert (Hn10 : t <> TAG_CHECK_SUM) by (intros E; rewrite E, trailer_10 in Et; discriminate).
  assert (Hn212 : t <> TAG_XML_DATA_LEN) by (intros E; rewrite E, header_212 in Eh; discriminate).
  destruct (rg_is_num_in_group M [t]) eqn:Enig.
  - (* the next group starts right here *)
    assert (Hne : rest' <> []) by (intros E; apply Hn10; apply Hlast; exact E).
    rewrite (ggf_eq hdr _ H35).
    apply (IHi Hne (done ++ [(t, v)]) _ (init_of (t, v), []) t (length done) 1%nat [t] t fuelp fuel xlr (adds ++ [(dt, s, l)]) res).
    + apply (dpg_rel_step done (t, v) rest' st _ adds _ k R0 Ek); simpl_st; try reflexivity; try assumption.
      * unfold addH. cbn [fst]. rewrite Eh. reflexivity.
      * unfold addT. cbn [fst]. rewrite Eh, Et. reflexivity.
    + simpl_st. rewrite app_length. cbn [length]. clear - Hfi. lia.
    + apply dm_ok_new.
    + simpl_st. clear - Hfp Hfi Hld. lia.
    + cbn [length] in Hfuel. clear - Hfuel. lia.
    + apply (tail_ok_tail _ _ Htail Hne).
    + apply (values_tail_not212 None (t, v) rest' Hvals). exact Hn212.
    + exact Hx.
    + rewrite app_length. cbn [length]. rewrite Nat.add_1_r. exact Hscan.
  - eexists. split; [reflexivity|].
    apply (Exit _ ((adds ++ [(dt, s, l)]) ++ [(t, length done, 1%nat)])); simpl_st; try reflexivity; try assumption.
    + unfold addH. cbn [fst]. rewrite Eh. reflexivity.
    + rewrite Hdmadd, (body_of_snoc fs (adds ++ [(dt, s, l)])). f_equal. rewrite Hsplit. symmetry. apply field_at_single.
    + unfold addT. cbn [fst]. rewrite Eh, Et. reflexivity.
Qed.

Theorem sim_all : forall rest, sim_top rest /\ sim_in rest.
Proof.
  induction rest as [|f rest' [IHt IHi]].
  - split.
    + unfold sim_top. intros done st xl prev fuel adds res R Hfi Hfuel [Hne _]. congruence.
    + unfold sim_in. intros done st dm dt s l rpath lt fuelp fuel xlr adds res R Hfi Hdm Hfp Hfuel [Hne _]. congruence.
  - split; [apply sim_top_step|apply sim_in_step]; intros _; assumption.
Qed.

End Sim.

(* ------------------------------------------------------------------------------------------------ *)
(* doParsing on a framed message, with the Body described by the field-level scan                      *)

(* the message doParsing hands back (the slots that were not used are dropped) *)
Definition dpg_msg (td : option transport_dict) (fs : list (Z * bytes)) (m : message) (res : list rg_badd) : Prop :=
  m_fields m = map init_of fs /\
  m_header m = fold_left (addH td) fs hdr0 /\
  m_body m = body_of fs res /\
  m_trailer m = fold_left (addT td) fs trl0 /\
  m_raw m = Some (ser fs).

Lemma dp_rel_to_dpg : forall td mt n fs v8 v9 rest st,
  dp_rel td n fs [(8, v8); (9, v9); (35, mt)] rest st ->
  dpg_rel td mt n fs [(8, v8); (9, v9); (35, mt)] rest st [].
Proof.
  intros td mt n fs v8 v9 rest st [Hsplit Hraw Hfields Hfi Hh Hb Ht Hmraw].
  constructor; try assumption.
  rewrite Hh. cbn [fold_left]. unfold addH at 1. cbn [fst].
  replace (is_header_field 35 td) with true by reflexivity.
  unfold fm_get_bytes, fm_add. cbn [fm_lookup field_tag fst init_of tv_init tv_tag]. rewrite lk_get_put_same. reflexivity.
Qed.

Definition ad_defs_as (d : app_dict) (mt : bytes) (defs : list gdef) : Prop :=
  forall tags, match ad_find mt d with Some fields => gd_walk fields tags | None => [] end = gd_walk defs tags.

Lemma ad_defs_as_some : forall d mt defs, ad_find mt d = Some defs -> ad_defs_as d mt defs.
Proof. intros d mt defs H tags. rewrite H. reflexivity. Qed.

Lemma gd_walk_nil : forall tags, gd_walk [] tags = [].
Proof. induction tags as [|t [|u r] IH]; [reflexivity|reflexivity|]. exact IH. Qed.

Lemma ad_defs_as_none : forall d mt, ad_find mt d = None -> ad_defs_as d mt [].
Proof. intros d mt H tags. rewrite H, gd_walk_nil. reflexivity. Qed.

(* general form: the dictionary is seen only through the walks from the message definition of mt (ad_defs_as), so a
   MsgType the dictionary does not know is the case defs = [] *)
Lemma do_parsing_framed_groups_gen : forall fs td d mt defs v8 v9 mid res,
  c11_framed fs = true -> fs = (8, v8) :: (9, v9) :: (35, mt) :: mid -> ~ In TAG_MSG_TYPE (map fst mid) ->
  ad_defs_as d mt defs -> dict_body_only td defs ->
  rg_scan (td_xh td) (td_xt td) (Some (map gdef_rg defs)) RgTop 3%nat mid [] = Ok res ->
  exists m, dpg_msg td fs m res /\
    do_parsing (ser fs) td (Some d) =
      match fm_get_int (m_header m) TAG_BODY_LENGTH with
      | Ok bl => if c11_body_length fs =? bl then Ok m else Err E_BODY_LENGTH
      | Err _ => Err E_BODY_LENGTH_FIELD
      | Panic => Panic
      | OutOfFuel => OutOfFuel
      end.
Proof.
  intros fs td d mt defs v8' v9' mid' res H Efs' Hn35 Hfind Hdict Hscan.
  destruct (c11_framed_shape fs H) as (v8 & v9 & v35 & mid & v10 & Efs & Htags & Hvals & Hmid).
  assert (E8 : v8' = v8 /\ v9' = v9 /\ mt = v35 /\ mid' = mid ++ [(10, v10)]).
  { rewrite Efs in Efs'. inversion Efs'. repeat split; reflexivity. }
  destruct E8 as (-> & -> & <- & ->). clear Efs'.
  set (n := count_byte SOH (ser fs)). assert (Hn : (length fs <= n)%nat) by apply count_soh_ser_ge.
  assert (Hn4 : (4 <= n)%nat) by (rewrite Efs in Hn; cbn [length] in Hn; rewrite app_length in Hn; cbn in Hn; lia).
  unfold do_parsing. fold n. change TAG_BEGIN_STRING with 8. change TAG_MSG_TYPE with 35. change TAG_BODY_LENGTH with 9. unfold TAG_MSG_TYPE in Hn35.
  replace (Nat.eqb n 0) with false by (symmetry; apply Nat.eqb_neq; lia).
  replace (Nat.ltb n 3) with false by (symmetry; apply Nat.ltb_ge; lia).
  set (st0 := mk_mp _ (ser fs) 0%nat 0%nat [] false false).
  assert (R0 : dp_rel td n fs [] fs st0).
  { constructor; cbn; try reflexivity. rewrite Nat.sub_0_r. reflexivity. }
  assert (Hvs : soh_free v8 = true /\ soh_free v9 = true /\ soh_free mt = true /\ c11_values_ok None (mid ++ [(10, v10)]) = true).
  { rewrite Efs in Hvals. cbn [c11_values_ok] in Hvals. change (8 =? TAG_XML_DATA_LEN) with false in Hvals.
    change (9 =? TAG_XML_DATA_LEN) with false in Hvals. change (35 =? TAG_XML_DATA_LEN) with false in Hvals. cbv iota in Hvals.
    repeat (apply andb_true_iff in Hvals as [? Hvals]). tauto. }
  destruct Hvs as (Hs8 & Hs9 & Hs35 & Hvals').
  pose proof Htags as Htags0. rewrite Efs in Htags. apply Forall_cons_iff in Htags as [Ht8 Htags]. apply Forall_cons_iff in Htags as [Ht9 Htags].
  apply Forall_cons_iff in Htags as [Ht35 Htags].
  rewrite Efs in R0 at 2.
  destruct (dp_leading_fidelity td n fs [] (8, v8) _ st0 R0 Hn Ht8 Hs8 eq_refl) as (st1 & E1 & R1). cbn [fst] in E1. rewrite E1. cbn [bind].
  cbn [length app] in R1.
  destruct (dp_leading_fidelity td n fs [(8, v8)] (9, v9) _ _ R1 Hn Ht9 Hs9 eq_refl) as (st2 & E2 & R2). cbn [fst] in E2.
  change (mp_set_field_index (mp_set_field_index st1 1) 1) with (mp_set_field_index st1 1) in E2.
  unfold dp_leading in E2 |- *. cbn [mp_set_field_index mp_msg mp_field_index mp_raw_bytes] in E2 |- *. rewrite E2. cbn [bind].
  cbn [length app] in R2.
  destruct (dp_leading_fidelity td n fs [(8, v8); (9, v9)] (35, mt) _ _ R2 Hn Ht35 Hs35 eq_refl) as (st3 & E3 & R3). cbn [fst] in E3.
  unfold dp_leading in E3. cbn [mp_set_field_index mp_msg mp_field_index mp_raw_bytes] in E3. rewrite E3. cbn [bind].
  cbn [length app] in R3.
  pose proof (dp_rel_to_dpg td mt n fs v8 v9 _ _ R3) as R3'.
  destruct (sim_all td d mt defs Hfind Hdict n fs Hn (mid ++ [(10, v10)])) as [Htop _].
  destruct (Htop [(8, v8); (9, v9); (35, mt)] _ 0 None (S n) [] res R3') as (st4 & E4 & F4).
  { reflexivity. }
  { rewrite Efs in Hn. cbn [length] in Hn. clear - Hn. lia. }
  { split; [destruct mid; discriminate|]. split; [exact Htags|]. split; [rewrite last_last; reflexivity|].
    split.
    - rewrite removelast_last. apply Forall_forall. intros f Hf. rewrite Forall_forall in Hmid. apply (Hmid f Hf).
    - apply Forall_forall. intros f Hf E. apply Hn35. unfold TAG_MSG_TYPE in E. rewrite <- E. apply in_map. exact Hf. }
  { exact Hvals'. }
  { cbn [xl_ok]. apply Z.le_refl. }
  { exact Hscan. }
  rewrite E4. cbn [bind].
  destruct F4 as (G1 & G2 & G3 & G4 & G5 & G6).
  match goal with |- context [fm_get_int (m_header (msg_set_body_bytes ?x ?y)) 9] => set (MM := msg_set_body_bytes x y) end.
  assert (HM : m_fields MM = firstn (S (mp_field_index st4)) (m_fields (mp_msg st4)) /\ m_header MM = m_header (mp_msg st4) /\
               m_body MM = m_body (mp_msg st4) /\ m_trailer MM = m_trailer (mp_msg st4) /\ m_raw MM = m_raw (mp_msg st4)).
  { unfold MM. cbn [mp_set_msg mp_found_trailer mp_found_body].
    destruct (mp_found_trailer st4 && negb (mp_found_body st4)); repeat split; reflexivity. }
  destruct HM as (M1 & M2 & M3 & M4 & M5).
  rewrite G6, G1, firstn_init_exact in M1.
  exists MM. split.
  - unfold dpg_msg. rewrite M1, M2, M3, M4, M5. repeat split; assumption.
  - destruct (fm_get_int (m_header MM) 9); try reflexivity.
    rewrite M1, dp_fields_length_init. reflexivity.
Qed.

Lemma do_parsing_framed_groups : forall fs td d mt defs v8 v9 mid res,
  c11_framed fs = true -> fs = (8, v8) :: (9, v9) :: (35, mt) :: mid -> ~ In TAG_MSG_TYPE (map fst mid) ->
  ad_find mt d = Some defs -> dict_body_only td defs ->
  rg_scan (td_xh td) (td_xt td) (Some (map gdef_rg defs)) RgTop 3%nat mid [] = Ok res ->
  exists m, dpg_msg td fs m res /\
    do_parsing (ser fs) td (Some d) =
      match fm_get_int (m_header m) TAG_BODY_LENGTH with
      | Ok bl => if c11_body_length fs =? bl then Ok m else Err E_BODY_LENGTH
      | Err _ => Err E_BODY_LENGTH_FIELD
      | Panic => Panic
      | OutOfFuel => OutOfFuel
      end.
Proof.
  intros fs td d mt defs v8 v9 mid res H Efs Hn35 Hfind Hdict Hscan.
  exact (do_parsing_framed_groups_gen fs td d mt defs v8 v9 mid res H Efs Hn35 (ad_defs_as_some _ _ _ Hfind) Hdict Hscan).
Qed.

(* ------------------------------------------------------------------------------------------------ *)
(* A message given as a list of items: plain fields and repeating groups                              *)

Inductive c11g_item : Type :=
| CFld (f : Z * bytes)
| CGrp (t : Z) (T : list rg_item) (g : rg_group).

Definition c11g_item_wire (it : c11g_item) : list (Z * bytes) :=
  match it with CFld f => [f] | CGrp t T g => rg_write T t g end.
(* the wire fields *)
Definition c11g_flat (items : list c11g_item) : list (Z * bytes) := flat_map c11g_item_wire items.
(* the fields outside the groups *)
Definition c11g_flds (items : list c11g_item) : list (Z * bytes) :=
  flat_map (fun it => match it with CFld f => [f] | CGrp _ _ _ => [] end) items.

(* the dictionary entry that declares a group like the template *)
Fixpoint gdef_of_item (i : rg_item) : gdef :=
  match i with RgElem t => GDef t [] | RgGrp t sub => GDef t (map gdef_of_item sub) end.

Lemma gdef_rg_of_item : forall it, gdef_rg (gdef_of_item it) = rg_def_of_item it.
Proof.
  apply rg_item_ind'; [reflexivity|]. intros t sub IH. cbn [gdef_of_item gdef_rg rg_def_of_item]. f_equal.
  rewrite map_map. apply map_ext_in. intros x Hx. rewrite Forall_forall in IH. exact (IH x Hx).
Qed.

(* the Body.add calls of the parse, read off the items (i = index of the first item's first field) *)
Fixpoint c11g_adds (td : option transport_dict) (i : nat) (items : list c11g_item) : list rg_badd :=
  match items with
  | [] => []
  | CFld f :: r =>
      (if is_header_field (fst f) td || is_trailer_field (fst f) td then [] else [(fst f, i, 1%nat)]) ++ c11g_adds td (S i) r
  | CGrp t T g :: r => (t, i, length (rg_write T t g)) :: c11g_adds td (i + length (rg_write T t g)) r
  end.

(* plain field: a header / trailer field, or a body field that the message definition does not declare NumInGroup.
   group: the hypotheses of C13 (declared like the template, template well-formed, group fits, the tag behind the
   group outside the template tree, body tags only, the group's tag not repeated behind it). *)
Fixpoint c11g_ok (td : option transport_dict) (defs : list gdef) (items : list c11g_item) : Prop :=
  match items with
  | [] => True
  | CFld f :: r =>
      is_header_field (fst f) td || is_trailer_field (fst f) td || negb (rg_is_num_in_group (map gdef_rg defs) [fst f]) = true /\
      c11g_ok td defs r
  | CGrp t T g :: r =>
      gd_find t defs = Some (gdef_of_item (RgGrp t T)) /\
      rg_wf_template T = true /\ rg_fits T g = true /\
      (forall f, hd_error (c11g_flat r) = Some f -> ~ In (fst f) (rg_all_tags T)) /\
      (forall x, In x (t :: rg_all_tags T) -> is_header_field x td = false /\ is_trailer_field x td = false) /\
      ~ In t (map fst (c11g_flat r)) /\
      c11g_ok td defs r
  end.

Lemma c11g_flat_app : forall a b, c11g_flat (a ++ b) = c11g_flat a ++ c11g_flat b.
Proof. intros. unfold c11g_flat. apply flat_map_app. Qed.
Lemma c11g_flds_app : forall a b, c11g_flds (a ++ b) = c11g_flds a ++ c11g_flds b.
Proof. intros. unfold c11g_flds. apply flat_map_app. Qed.

Lemma c11g_ok_app_r : forall td defs a b, c11g_ok td defs (a ++ b) -> c11g_ok td defs b.
Proof.
  intros td defs a b. induction a as [|[f|t T g] r IH]; cbn [app c11g_ok]; intros H; [exact H| |].
  - apply IH. exact (proj2 H).
  - apply IH. exact (proj2 (proj2 (proj2 (proj2 (proj2 (proj2 H)))))).
Qed.

Lemma c11g_def_lookup : forall t T defs, gd_find t defs = Some (gdef_of_item (RgGrp t T)) ->
  rg_def_lookup t (map gdef_rg defs) = Some (rg_def_of_item (RgGrp t T)).
Proof. intros t T defs H. rewrite gd_find_rg, H. cbn [option_map]. rewrite gdef_rg_of_item. reflexivity. Qed.

Lemma c11g_plain : forall td l,
  (forall x, In x l -> is_header_field x td = false /\ is_trailer_field x td = false) ->
  forall x, In x l -> rg_plain (td_xh td) (td_xt td) x.
Proof. intros td l H x Hx. unfold rg_plain. rewrite is_header_field_rg, is_trailer_field_rg. exact (H x Hx). Qed.

(* the field-level scan of a well-formed item list ends at the CheckSum field with exactly the calls of c11g_adds *)
Lemma c11g_scan : forall td defs v10 its i adds,
  c11g_ok td defs (its ++ [CFld (10, v10)]) -> ~ In 10 (map fst (c11g_flat its)) ->
  rg_scan (td_xh td) (td_xt td) (Some (map gdef_rg defs)) RgTop i (c11g_flat (its ++ [CFld (10, v10)])) adds =
  Ok (adds ++ c11g_adds td i (its ++ [CFld (10, v10)])).
Proof.
  intros td defs v10. induction its as [|[[t v]|t T g] r IH]; intros i adds Hok Hno.
  - cbn [app c11g_flat flat_map c11g_item_wire c11g_adds fst]. rewrite rg_scan_top_cons. cbv zeta.
    rewrite is_header_field_rg, is_trailer_field_rg. change (10 =? RG_CHECKSUM) with true. cbv iota.
    replace (is_trailer_field 10 td) with true by reflexivity. rewrite orb_true_r. cbn [app]. rewrite app_nil_r.
    destruct (is_header_field 10 td); reflexivity.
  - cbn [app c11g_flat flat_map c11g_item_wire c11g_adds fst] in *. fold (c11g_flat (r ++ [CFld (10, v10)])). fold (c11g_flat r) in Hno.
    destruct Hok as [Hc Hok]. cbn [map fst] in Hno, Hc.
    assert (Ht10 : (t =? RG_CHECKSUM) = false) by (unfold RG_CHECKSUM; apply Z.eqb_neq; intros E; apply Hno; left; exact E).
    assert (Hno' : ~ In 10 (map fst (c11g_flat r))) by (intros Hc'; apply Hno; right; exact Hc').
    rewrite rg_scan_top_cons. cbv zeta. rewrite is_header_field_rg, is_trailer_field_rg, Ht10.
    destruct (is_header_field t td); cbn [orb app]; [apply IH; assumption|].
    destruct (is_trailer_field t td); cbn [orb app]; [apply IH; assumption|].
    cbn [orb] in Hc. apply negb_true_iff in Hc. rewrite Hc. rewrite IH by assumption. rewrite <- app_assoc. reflexivity.
  - cbn [app c11g_flat flat_map c11g_item_wire c11g_adds] in *. fold (c11g_flat (r ++ [CFld (10, v10)])). fold (c11g_flat r) in Hno.
    destruct Hok as (Hdef & Hwf & Hfit & Hpost & Hplain & Hnt & Hok).
    destruct (rg_wf_follow_design T _ Hwf Hpost) as [F [HwfF Hfol]].
    etransitivity; [exact (rg_scan_group _ _ _ T t g _ i adds F (c11g_def_lookup _ _ _ Hdef) HwfF Hfit Hfol (c11g_plain td _ Hplain))|].
    rewrite IH; [rewrite <- app_assoc; reflexivity|exact Hok|].
    intros Hc. apply Hno. rewrite map_app. apply in_or_app. right. exact Hc.
Qed.

(* lookups in a Body built from a list of add calls *)
Lemma body_of_lookup : forall fs adds t,
  Forall (fun a => field_tag (field_at fs a) = rg_badd_tag a) adds ->
  lk_get (fm_lookup (body_of fs adds)) t =
  match rg_body_lookup t adds with Some (off, l) => Some (field_at fs (t, off, l)) | None => None end.
Proof.
  intros fs adds t. induction adds as [|a adds' IH] using rev_ind; intros Hall; [reflexivity|].
  apply Forall_app in Hall. destruct Hall as [Hall Ha]. apply Forall_cons_iff in Ha as [Ha _].
  rewrite body_of_snoc, rg_body_lookup_app. unfold fm_add. cbn [fm_lookup]. rewrite Ha.
  destruct a as [[t' off] l]. unfold rg_badd_tag. cbn [fst rg_body_lookup].
  destruct (t' =? t) eqn:E.
  - assert (t' = t) by lia. subst t'. rewrite lk_get_put_same. reflexivity.
  - rewrite lk_get_put_other by lia. apply IH. exact Hall.
Qed.

Lemma c11g_adds_tags : forall td items i a, In a (c11g_adds td i items) -> In (rg_badd_tag a) (map fst (c11g_flat items)).
Proof.
  intros td. induction items as [|[[t v]|t T g] r IH]; intros i a Hin; [destruct Hin| |].
  - cbn [c11g_adds fst] in Hin. cbn [c11g_flat flat_map c11g_item_wire app map fst]. apply in_app_or in Hin. destruct Hin as [Hin|Hin].
    + destruct (is_header_field t td || is_trailer_field t td); [destruct Hin|]. destruct Hin as [Hin|[]]. subst a. left. reflexivity.
    + right. exact (IH _ _ Hin).
  - cbn [c11g_adds] in Hin. cbn [c11g_flat flat_map c11g_item_wire]. rewrite map_app. apply in_or_app. destruct Hin as [Hin|Hin].
    + subst a. left. unfold rg_write. rewrite rg_write_val_grp. left. reflexivity.
    + right. exact (IH _ _ Hin).
Qed.

Lemma c11g_adds_valid : forall td items prefix,
  Forall (fun a => field_tag (field_at (prefix ++ c11g_flat items) a) = rg_badd_tag a) (c11g_adds td (length prefix) items).
Proof.
  intros td. induction items as [|[[t v]|t T g] r IH]; intros prefix; [constructor| |].
  - cbn [c11g_adds fst c11g_flat flat_map c11g_item_wire app]. fold (c11g_flat r). apply Forall_app. split.
    + destruct (is_header_field t td || is_trailer_field t td); constructor; [|constructor].
      rewrite field_at_single. reflexivity.
    + specialize (IH (prefix ++ [(t, v)])). rewrite app_length, <- app_assoc in IH. cbn [length app] in IH.
      rewrite Nat.add_1_r in IH. exact IH.
  - cbn [c11g_adds c11g_flat flat_map c11g_item_wire]. fold (c11g_flat r). constructor.
    + unfold field_at. cbn [fst snd]. rewrite skipn_app_exact. unfold rg_write. rewrite rg_write_val_grp. reflexivity.
    + specialize (IH (prefix ++ rg_write T t g)). rewrite app_length, <- app_assoc in IH. exact IH.
Qed.

Lemma c11g_nig : forall t T defs, gd_find t defs = Some (gdef_of_item (RgGrp t T)) -> rg_wf_template T = true ->
  rg_is_num_in_group (map gdef_rg defs) [t] = true.
Proof.
  intros t T defs Hdef Hwf. unfold rg_is_num_in_group. cbn [rg_get_group_fields]. rewrite (c11g_def_lookup _ _ _ Hdef).
  destruct T; [discriminate|reflexivity].
Qed.

Lemma c11_last_value_in : forall l t, c11_last_value l t = None -> ~ In t (map fst l).
Proof.
  induction l as [|[k v] l IH]; intros t H; [intros []|]. cbn [c11_last_value] in H.
  destruct (c11_last_value l t) eqn:E; [discriminate|]. destruct (k =? t) eqn:Ek; [discriminate|].
  cbn [map fst]. intros [Hc|Hc]; [lia|]. exact (IH t E Hc).
Qed.

Lemma c11_last_value_app : forall a b t,
  c11_last_value (a ++ b) t = match c11_last_value b t with Some x => Some x | None => c11_last_value a t end.
Proof.
  induction a as [|[k v] a IH]; intros b t; cbn [app c11_last_value].
  - destruct (c11_last_value b t); reflexivity.
  - rewrite IH. destruct (c11_last_value b t); reflexivity.
Qed.

(* a body tag that starts no group and occurs in no later plain field is not added again *)
Lemma c11g_lookup_none : forall td defs t items i,
  rg_is_num_in_group (map gdef_rg defs) [t] = false -> c11g_ok td defs items ->
  c11_last_value (c11g_flds items) t = None -> rg_body_lookup t (c11g_adds td i items) = None.
Proof.
  intros td defs t. induction items as [|[[k v]|k T g] r IH]; intros i Hnig Hok Hnone; [reflexivity| |].
  - cbn [c11g_flds flat_map app c11_last_value] in Hnone. fold (c11g_flds r) in Hnone.
    destruct (c11_last_value (c11g_flds r) t) eqn:E; [discriminate|]. destruct (k =? t) eqn:Ek; [discriminate|].
    cbn [c11g_adds fst]. rewrite rg_body_lookup_app, (IH _ Hnig (proj2 Hok) eq_refl).
    destruct (is_header_field k td || is_trailer_field k td); [reflexivity|]. cbn [rg_body_lookup]. rewrite Ek. reflexivity.
  - cbn [c11g_flds flat_map app] in Hnone. fold (c11g_flds r) in Hnone.
    destruct Hok as (Hdef & Hwf & _ & _ & _ & _ & Hok).
    cbn [c11g_adds rg_body_lookup]. rewrite (IH _ Hnig Hok Hnone).
    destruct (k =? t) eqn:Ek; [|reflexivity]. assert (k = t) by lia. subst k.
    rewrite (c11g_nig _ _ _ Hdef Hwf) in Hnig. discriminate.
Qed.

(* the last plain body field with tag t is what the Body holds under t *)
Lemma c11g_lookup_field : forall td defs t v items prefix,
  is_header_field t td = false -> is_trailer_field t td = false ->
  c11g_ok td defs items -> c11_last_value (c11g_flds items) t = Some v ->
  exists off tl, rg_body_lookup t (c11g_adds td (length prefix) items) = Some (off, 1%nat) /\
                 skipn off (prefix ++ c11g_flat items) = (t, v) :: tl.
Proof.
  intros td defs t v. induction items as [|[[k w]|k T g] r IH]; intros prefix Eh Et Hok Hlast; [discriminate| |].
  - cbn [c11g_flds flat_map app c11_last_value] in Hlast. fold (c11g_flds r) in Hlast.
    cbn [c11g_adds fst c11g_flat flat_map c11g_item_wire app]. fold (c11g_flat r).
    destruct Hok as [Hc Hok]. cbn [fst] in Hc. rewrite rg_body_lookup_app.
    destruct (c11_last_value (c11g_flds r) t) as [x|] eqn:E.
    + inversion Hlast; subst x. destruct (IH (prefix ++ [(k, w)]) Eh Et Hok eq_refl) as (off & tl & Hl & Hs).
      rewrite app_length in Hl. cbn [length] in Hl. rewrite Nat.add_1_r in Hl. rewrite Hl.
      exists off, tl. split; [reflexivity|]. rewrite <- app_assoc in Hs. exact Hs.
    + destruct (k =? t) eqn:Ek; [|discriminate]. assert (k = t) by lia. subst k. inversion Hlast; subst w.
      rewrite Eh, Et in Hc |- *. cbn [orb] in Hc |- *. apply negb_true_iff in Hc.
      rewrite (c11g_lookup_none td defs t r _ Hc Hok E). cbn [rg_body_lookup]. rewrite Z.eqb_refl.
      exists (length prefix), (c11g_flat r). split; [reflexivity|]. apply skipn_app_exact.
  - cbn [c11g_flds flat_map app] in Hlast. fold (c11g_flds r) in Hlast.
    cbn [c11g_adds c11g_flat flat_map c11g_item_wire]. fold (c11g_flat r).
    destruct Hok as (_ & _ & _ & _ & _ & _ & Hok).
    destruct (IH (prefix ++ rg_write T k g) Eh Et Hok Hlast) as (off & tl & Hl & Hs).
    rewrite app_length in Hl. cbn [rg_body_lookup]. unfold rg_field in *. rewrite Hl.
    exists off, tl. split; [reflexivity|]. rewrite <- app_assoc in Hs. exact Hs.
Qed.

(* a group is what the Body holds under its tag: the window of its wire fields *)
Lemma c11g_lookup_group : forall td defs t T g after before prefix,
  c11g_ok td defs (before ++ CGrp t T g :: after) ->
  rg_body_lookup t (c11g_adds td (length prefix) (before ++ CGrp t T g :: after)) =
  Some (length (prefix ++ c11g_flat before), length (rg_write T t g)).
Proof.
  intros td defs t T g after. induction before as [|[[k w]|k T' g'] r IH]; intros prefix Hok.
  - cbn [app c11g_flat flat_map] in *. rewrite app_nil_r. cbn [c11g_adds rg_body_lookup].
    destruct Hok as (_ & _ & _ & _ & _ & Hnt & _).
    rewrite rg_body_lookup_none; [rewrite Z.eqb_refl; reflexivity|].
    intros Hc. apply in_map_iff in Hc. destruct Hc as [a [Ea Ha]]. apply Hnt. rewrite <- Ea. exact (c11g_adds_tags _ _ _ _ Ha).
  - cbn [app c11g_adds fst c11g_flat flat_map c11g_item_wire] in *. fold (c11g_flat r).
    rewrite rg_body_lookup_app. specialize (IH (prefix ++ [(k, w)]) (proj2 Hok)).
    rewrite app_length in IH. cbn [length] in IH. rewrite Nat.add_1_r in IH. rewrite IH.
    rewrite <- app_assoc. reflexivity.
  - cbn [app c11g_adds c11g_flat flat_map c11g_item_wire] in *. fold (c11g_flat r).
    destruct Hok as (_ & _ & _ & _ & _ & _ & Hok).
    specialize (IH (prefix ++ rg_write T' k g') Hok). rewrite app_length in IH.
    cbn [rg_body_lookup]. unfold rg_field in *. rewrite IH. rewrite <- app_assoc. reflexivity.
Qed.

(* header / trailer fields: the group regions hold body tags only *)
Lemma c11g_last_value_flat : forall td defs t items,
  is_header_field t td = true \/ is_trailer_field t td = true -> c11g_ok td defs items ->
  c11_last_value (c11g_flat items) t = c11_last_value (c11g_flds items) t.
Proof.
  intros td defs t. induction items as [|[[k w]|k T g] r IH]; intros Hht Hok; [reflexivity| |].
  - cbn [c11g_flat c11g_flds flat_map c11g_item_wire app c11_last_value]. fold (c11g_flat r). fold (c11g_flds r).
    rewrite (IH Hht (proj2 Hok)). reflexivity.
  - cbn [c11g_flat c11g_flds flat_map c11g_item_wire app]. fold (c11g_flat r). fold (c11g_flds r).
    destruct Hok as (_ & _ & Hfit & _ & Hplain & _ & Hok).
    rewrite c11_last_value_app, (IH Hht Hok). destruct (c11_last_value (c11g_flds r) t); [reflexivity|].
    apply c11_last_value_none. apply Forall_forall. intros f Hf E.
    destruct (Hplain _ (rg_write_tags T k g f Hfit Hf)) as [P1 P2]. rewrite E in P1, P2.
    destruct Hht as [Hh|Hh]; congruence.
Qed.

(* ------------------------------------------------------------------------------------------------ *)
(* C11 fidelity with repeating groups                                                                  *)

Lemma tv_pair_init_of : forall f, tv_pair (init_of f) = f.
Proof. intros [t v]. reflexivity. Qed.
Lemma map_tv_pair_init_of : forall l, map tv_pair (map init_of l) = l.
Proof. intros l. rewrite map_map. rewrite (map_ext _ (fun x => x)) by apply tv_pair_init_of. apply map_id. Qed.

Lemma hd_error_app_ne {A} : forall (a b : list A), a <> [] -> hd_error (a ++ b) = hd_error a.
Proof. intros [|x a] b H; [congruence|reflexivity]. Qed.

(* the stored window of a group and its read-back through the template *)
Lemma group_window : forall (pre : list (Z * bytes)) T t g (post : list (Z * bytes)) zs,
  rg_wf_template T = true -> rg_fits T g = true -> post <> [] ->
  (forall f, hd_error post = Some f -> ~ In (fst f) (rg_all_tags T)) ->
  let W : list (Z * bytes) := rg_write T t g in
  let fs := pre ++ W ++ post in
  let mf := map init_of fs ++ zs in
  let f := field_at fs (t, length pre, length W) in
  field_tvs f = firstn (length W) (skipn (length pre) mf) /\
  map tv_pair (field_tvs f) = W /\
  rmap fst (rg_read T (map tv_pair (skipn (length pre) mf))) = Ok (rg_canon T g).
Proof.
  intros pre T t g post zs Hwf Hfit Hne Hpost W fs mf f.
  assert (Esk : skipn (length pre) mf = map init_of W ++ (map init_of post ++ zs)).
  { unfold mf, fs. rewrite !map_app, <- !app_assoc. rewrite <- (map_length init_of pre). apply skipn_app_exact. }
  assert (Ef : field_tvs f = map init_of W).
  { unfold f, fs, field_at. cbn [fst snd]. rewrite skipn_app_exact.
    unfold W, rg_write. rewrite rg_write_val_grp. cbn [app length map field_tvs fst snd].
    rewrite Nat.sub_1_r. cbn [Nat.pred]. rewrite firstn_app_exact. reflexivity. }
  split; [|split].
  - rewrite Ef, Esk. rewrite <- (map_length init_of W). rewrite firstn_app_exact. reflexivity.
  - rewrite Ef. apply map_tv_pair_init_of.
  - rewrite Esk, map_app, map_tv_pair_init_of, map_app, map_tv_pair_init_of.
    unfold W.
    cut (rg_read T (rg_write T t g ++ post ++ map tv_pair zs) = Ok (rg_canon T g, post ++ map tv_pair zs)); [intros Hr; exact (f_equal (rmap fst) Hr)|].
    apply rg_roundtrip_design; [exact Hwf|exact Hfit|].
    intros x Hx. rewrite hd_error_app_ne in Hx by exact Hne. exact (Hpost x Hx).
Qed.

Lemma c11g_ok_group : forall td defs before t T g after, c11g_ok td defs (before ++ CGrp t T g :: after) ->
  rg_wf_template T = true /\ rg_fits T g = true /\
  (forall f, hd_error (c11g_flat after) = Some f -> ~ In (fst f) (rg_all_tags T)).
Proof.
  intros td defs before t T g after H. apply c11g_ok_app_r in H. destruct H as (_ & Hwf & Hfit & Hpost & _).
  split; [exact Hwf|]. split; [exact Hfit|exact Hpost].
Qed.

Theorem parse_fidelity_groups : forall td d mt defs v8 v9 v10 items fs,
  fs = (8, v8) :: (9, v9) :: (35, mt) :: c11g_flat (items ++ [CFld (10, v10)]) ->
  c11_wire_ok fs = true ->
  ~ In TAG_MSG_TYPE (map fst (c11g_flat items)) ->
  ad_find mt d = Some defs -> dict_body_only td defs ->
  c11g_ok td defs (items ++ [CFld (10, v10)]) ->
  exists m, do_parsing (ser fs) td (Some d) = Ok m /\
    m_raw m = Some (ser fs) /\
    m_fields m = map init_of fs /\
    (forall t v, c11_last_value ((8, v8) :: (9, v9) :: (35, mt) :: c11g_flds (items ++ [CFld (10, v10)])) t = Some v ->
       fm_get_bytes (parsed_section td t m) t = Ok v) /\
    (forall before t T g after, items = before ++ CGrp t T g :: after ->
       let off := (3 + length (c11g_flat before))%nat in
       exists f, lk_get (fm_lookup (m_body m)) t = Some f /\
         field_tvs f = firstn (length (rg_write T t g)) (skipn off (m_fields m)) /\
         map tv_pair (field_tvs f) = rg_write T t g /\
         rmap fst (rg_read T (map tv_pair (skipn off (m_fields m)))) = Ok (rg_canon T g)).
Proof.
  intros td d mt defs v8 v9 v10 items fs Efs0 H Hn35 Hfind Hdict Hok.
  unfold c11_wire_ok in H. apply andb_true_iff in H as [Hfr H9].
  destruct (c11_framed_shape fs Hfr) as (v8' & v9' & v35 & mid & v10' & Efs & _ & _ & Hmid).
  assert (Emid : mid = c11g_flat items /\ v10' = v10).
  { rewrite Efs0, c11g_flat_app in Efs. cbn [c11g_flat flat_map c11g_item_wire app] in Efs.
    inversion Efs as [[E1 E2 E3 E4]]. apply app_inj_tail in E4. destruct E4 as [E4 E5]. inversion E5. split; congruence. }
  destruct Emid as [Emid Ev10].
  assert (Hno10 : ~ In 10 (map fst (c11g_flat items))).
  { rewrite <- Emid. intros Hc. apply in_map_iff in Hc. destruct Hc as [f [E Hf]]. rewrite Forall_forall in Hmid.
    destruct (Hmid f Hf) as [Hx _]. apply Hx. exact E. }
  set (ITS := items ++ [CFld (10, v10)]) in *.
  assert (Hn35' : ~ In TAG_MSG_TYPE (map fst (c11g_flat ITS))).
  { unfold ITS. rewrite c11g_flat_app, map_app. intros Hc. apply in_app_or in Hc. destruct Hc as [Hc|Hc]; [exact (Hn35 Hc)|].
    cbn in Hc. destruct Hc as [Hc|[]]. discriminate. }
  pose proof (c11g_scan td defs v10 items 3%nat [] Hok Hno10) as Hscan. fold ITS in Hscan. cbn [app] in Hscan.
  destruct (do_parsing_framed_groups fs td d mt defs v8 v9 _ _ Hfr Efs0 Hn35' Hfind Hdict Hscan) as (m & Hfin & Hdo).
  destruct Hfin as (F1 & F2 & F3 & F4 & F5).
  set (h3 := [(8, v8); (9, v9); (35, mt)]).
  assert (Efs1 : fs = h3 ++ c11g_flat ITS) by exact Efs0.
  (* header and trailer lookups *)
  assert (Hhdr : forall t v, is_header_field t td = true -> c11_last_value (h3 ++ c11g_flds ITS) t = Some v ->
                   fm_get_bytes (m_header m) t = Ok v).
  { intros t v Eh Hl. unfold fm_get_bytes. rewrite F2, addH_cond, fold_cond_add_lookup, Eh.
    rewrite Efs1, c11_last_value_app, (c11g_last_value_flat td defs t ITS (or_introl Eh) Hok), <- c11_last_value_app, Hl. reflexivity. }
  assert (Htrl : forall t v, is_header_field t td = false -> is_trailer_field t td = true ->
                   c11_last_value (h3 ++ c11g_flds ITS) t = Some v -> fm_get_bytes (m_trailer m) t = Ok v).
  { intros t v Eh Et Hl. unfold fm_get_bytes. rewrite F4, (fold_left_ext _ _ (addT_cond td)), fold_cond_add_lookup, Eh, Et.
    cbn [negb andb].
    rewrite Efs1, c11_last_value_app, (c11g_last_value_flat td defs t ITS (or_intror Et) Hok), <- c11_last_value_app, Hl. reflexivity. }
  (* BodyLength *)
  assert (Ev9' : v9' = v9) by (rewrite Efs0 in Efs; inversion Efs; reflexivity). subst v9'.
  rewrite Efs in H9. apply andb_true_iff in H9 as [Hv9 Hbound]. rewrite <- Efs in Hv9, Hbound.
  assert (Ev9 : v9 = itoa (c11_body_length fs)).
  { clear -Hv9. revert Hv9. generalize (itoa (c11_body_length fs)). induction v9 as [|x v IH]; intros [|y w] Hq; cbn in Hq; try discriminate; [reflexivity|].
    apply andb_true_iff in Hq as [Hx Hw]. f_equal; [lia|apply IH; exact Hw]. }
  assert (Hl9 : c11_last_value fs TAG_BODY_LENGTH = Some v9).
  { rewrite Efs. apply framed_body_length_value. exact Hmid. }
  assert (Hget : fm_get_int (m_header m) TAG_BODY_LENGTH = Ok (c11_body_length fs)).
  { unfold fm_get_int, fm_get_bytes. rewrite F2, addH_cond, fold_cond_add_lookup.
    replace (is_header_field TAG_BODY_LENGTH td) with true by reflexivity. rewrite Hl9. cbn [bind fst tv_value tv_init].
    unfold fix_int_read. rewrite Ev9, atoi_itoa; [reflexivity|].
    pose proof (c11_body_length_nonneg fs). unfold in_int64, two63. lia. }
  rewrite Hget, Z.eqb_refl in Hdo. exists m. split; [exact Hdo|]. split; [exact F5|]. split; [exact F1|].
  pose proof (c11g_adds_valid td ITS h3) as Hvalid. rewrite <- Efs1 in Hvalid. change (length h3) with 3%nat in Hvalid.
  split.
  - intros t v Hl. change ((8, v8) :: (9, v9) :: (35, mt) :: c11g_flds ITS) with (h3 ++ c11g_flds ITS) in Hl.
    unfold parsed_section. destruct (is_header_field t td) eqn:Eh; [exact (Hhdr t v Eh Hl)|].
    destruct (is_trailer_field t td) eqn:Et; [exact (Htrl t v Eh Et Hl)|].
    assert (Hl' : c11_last_value (c11g_flds ITS) t = Some v).
    { rewrite c11_last_value_app in Hl. destruct (c11_last_value (c11g_flds ITS) t); [exact Hl|].
      exfalso. unfold h3 in Hl. cbn [c11_last_value] in Hl.
      destruct (35 =? t) eqn:E35; [assert (t = 35) by lia; subst t; discriminate Eh|].
      destruct (9 =? t) eqn:E9; [assert (t = 9) by lia; subst t; discriminate Eh|].
      destruct (8 =? t) eqn:E8; [assert (t = 8) by lia; subst t; discriminate Eh|]. discriminate. }
    destruct (c11g_lookup_field td defs t v ITS h3 Eh Et Hok Hl') as (off & tl & Hlk & Hsk).
    change (length h3) with 3%nat in Hlk. rewrite <- Efs1 in Hsk.
    unfold fm_get_bytes. rewrite F3, (body_of_lookup fs _ t Hvalid), Hlk.
    unfold field_at. cbn [fst snd]. rewrite Hsk. reflexivity.
  - intros before t T g after Eitems. set (off := (3 + length (c11g_flat before))%nat).
    assert (EITS : ITS = before ++ CGrp t T g :: (after ++ [CFld (10, v10)])).
    { unfold ITS. rewrite Eitems, <- app_assoc. reflexivity. }
    rewrite EITS in Hok. destruct (c11g_ok_group td defs before t T g _ Hok) as (Hwf & Hfit & Hpost).
    pose proof (c11g_lookup_group td defs t T g (after ++ [CFld (10, v10)]) before h3 Hok) as Hlk.
    rewrite <- EITS in Hlk. rewrite app_length in Hlk. change (length h3) with 3%nat in Hlk. fold off in Hlk.
    exists (field_at fs (t, off, length (rg_write T t g))). split.
    { rewrite F3, (body_of_lookup fs _ t Hvalid), Hlk. reflexivity. }
    assert (Efs2 : fs = (h3 ++ c11g_flat before) ++ rg_write T t g ++ c11g_flat (after ++ [CFld (10, v10)])).
    { rewrite Efs1, EITS, c11g_flat_app. cbn [c11g_flat flat_map c11g_item_wire]. rewrite <- app_assoc. reflexivity. }
    assert (Eoff : off = length (h3 ++ c11g_flat before)) by (unfold off; rewrite app_length; reflexivity).
    assert (Hne : c11g_flat (after ++ [CFld (10, v10)]) <> []).
    { rewrite c11g_flat_app. cbn [c11g_flat flat_map c11g_item_wire app]. intros E. apply app_eq_nil in E. destruct E as [_ E]. discriminate. }
    rewrite F1, Efs2, Eoff.
    pose proof (group_window (h3 ++ c11g_flat before) T t g _ [] Hwf Hfit Hne Hpost) as Hgw. cbv zeta in Hgw.
    rewrite app_nil_r in Hgw. exact Hgw.
Qed.

(* a checkable form of dict_body_only *)
Definition dict_body_onlyb (td : option transport_dict) (defs : list gdef) : bool :=
  forallb (fun x => negb (is_header_field x td) && negb (is_trailer_field x td)) (defs_member_tags defs).

Lemma dict_body_onlyb_sound : forall td defs, dict_body_onlyb td defs = true -> dict_body_only td defs.
Proof.
  intros td defs H x Hx. unfold dict_body_onlyb in H. rewrite forallb_forall in H. specialize (H x Hx).
  apply andb_true_iff in H. destruct H as [Ha Hb]. apply negb_true_iff in Ha. apply negb_true_iff in Hb. split; assumption.
Qed.

(* ------------------------------------------------------------------------------------------------ *)
(* Non-vacuity: SenderCompID, ClOrdID, NoAllocs (nested two levels) DIRECTLY followed by NoPartyIDs, Text  *)

Definition c11g_ex_defs : list gdef :=
  [GDef 11 []; GDef 58 []; gdef_of_item (RgGrp 78 rg_ex_tmpl); gdef_of_item (RgGrp 453 rg_ex2_tmpl)].
Definition c11g_ex_dict : app_dict := [([68], c11g_ex_defs)].
Definition c11g_ex_items : list c11g_item :=
  [CFld (49, [83]); CFld (11, [105]); CGrp 78 rg_ex_tmpl rg_ex_group; CGrp 453 rg_ex2_tmpl rg_ex2_group; CFld (58, [116])].
Definition c11g_ex_fs (v9 : bytes) : list (Z * bytes) :=
  (8, [70; 73; 88; 46; 52; 46; 52]) :: (9, v9) :: (35, [68]) :: c11g_flat (c11g_ex_items ++ [CFld (10, [48; 48; 48])]).
Definition c11g_ex_v9 : bytes := itoa (c11_body_length (c11g_ex_fs [])).

Lemma c11g_ex_hyps :
  c11_wire_ok (c11g_ex_fs c11g_ex_v9) = true /\
  ~ In TAG_MSG_TYPE (map fst (c11g_flat c11g_ex_items)) /\
  ad_find [68] c11g_ex_dict = Some c11g_ex_defs /\ dict_body_only None c11g_ex_defs /\
  c11g_ok None c11g_ex_defs (c11g_ex_items ++ [CFld (10, [48; 48; 48])]).
Proof.
  split; [vm_compute; reflexivity|].
  split; [apply rg_memb_false; vm_compute; reflexivity|].
  split; [reflexivity|].
  split; [apply dict_body_onlyb_sound; vm_compute; reflexivity|].
  assert (Hpl : forall l, forallb (fun x => negb (is_header_field x None) && negb (is_trailer_field x None)) l = true ->
                 forall x, In x l -> is_header_field x None = false /\ is_trailer_field x None = false).
  { intros l H x Hx. rewrite forallb_forall in H. specialize (H x Hx). apply andb_true_iff in H. destruct H as [Ha Hb].
    apply negb_true_iff in Ha. apply negb_true_iff in Hb. split; assumption. }
  cbn [c11g_ex_items app c11g_ok].
  split; [vm_compute; reflexivity|]. split; [vm_compute; reflexivity|].
  split; [vm_compute; reflexivity|]. split; [vm_compute; reflexivity|]. split; [vm_compute; reflexivity|].
  split; [intros f Hf; vm_compute in Hf; inversion Hf; subst f; apply rg_memb_false; vm_compute; reflexivity|].
  split; [apply Hpl; vm_compute; reflexivity|].
  split; [apply rg_memb_false; vm_compute; reflexivity|].
  split; [vm_compute; reflexivity|]. split; [vm_compute; reflexivity|]. split; [vm_compute; reflexivity|].
  split; [intros f Hf; vm_compute in Hf; inversion Hf; subst f; apply rg_memb_false; vm_compute; reflexivity|].
  split; [apply Hpl; vm_compute; reflexivity|].
  split; [apply rg_memb_false; vm_compute; reflexivity|].
  split; [vm_compute; reflexivity|]. split; [vm_compute; reflexivity|exact I].
Qed.

(* and what the theorem then says, computed: accepted; Text (58) behind the two groups and SenderCompID (49) are found;
   the second group, 8 fields from index 16 on, is stored under 453 *)
Lemma c11g_ex_parse :
  exists m, do_parsing (ser (c11g_ex_fs c11g_ex_v9)) None (Some c11g_ex_dict) = Ok m /\
    fm_get_bytes (m_body m) 58 = Ok [116] /\ fm_get_bytes (m_header m) 49 = Ok [83] /\
    (exists f, lk_get (fm_lookup (m_body m)) 453 = Some f /\ map tv_pair (field_tvs f) = rg_write rg_ex2_tmpl 453 rg_ex2_group) /\
    rmap fst (rg_read rg_ex2_tmpl (map tv_pair (skipn 16 (m_fields m)))) = Ok rg_ex2_group /\
    rmap fst (rg_read rg_ex_tmpl (map tv_pair (skipn 5 (m_fields m)))) = Ok rg_ex_group.
Proof.
  destruct c11g_ex_hyps as (H1 & H2 & H3 & H4 & H5).
  destruct (parse_fidelity_groups None c11g_ex_dict [68] c11g_ex_defs _ c11g_ex_v9 [48; 48; 48] c11g_ex_items _ eq_refl H1 H2 H3 H4 H5)
    as (m & Hm & _ & _ & Hget & Hgrp).
  exists m. split; [exact Hm|].
  split; [apply (Hget 58 [116]); vm_compute; reflexivity|].
  split; [apply (Hget 49 [83]); vm_compute; reflexivity|].
  set (b1 := [CFld (49, [83]); CFld (11, [105]); CGrp 78 rg_ex_tmpl rg_ex_group]).
  set (b2 := [CFld (49, [83]); CFld (11, [105])]).
  destruct (Hgrp b1 453 rg_ex2_tmpl rg_ex2_group [CFld (58, [116])] eq_refl) as (f & Hf1 & _ & Hf3 & Hf4).
  destruct (Hgrp b2 78 rg_ex_tmpl rg_ex_group [CGrp 453 rg_ex2_tmpl rg_ex2_group; CFld (58, [116])] eq_refl)
    as (f' & _ & _ & _ & Hf4').
  split; [exists f; split; assumption|].
  assert (E1 : (3 + length (c11g_flat b1))%nat = 16%nat) by (vm_compute; reflexivity).
  assert (E2 : (3 + length (c11g_flat b2))%nat = 5%nat) by (vm_compute; reflexivity).
  rewrite E1 in Hf4. rewrite E2 in Hf4'.
  split.
  - rewrite Hf4. vm_compute. reflexivity.
  - rewrite Hf4'. vm_compute. reflexivity.
Qed.

(* ------------------------------------------------------------------------------------------------ *)
(* The general tie between the two models (no assumption on the groups in the message): on every well-formed wire
   message the byte-level parser accepts, keeps the raw bytes and the field array, fills Header and Trailer with the
   header / trailer fields, and its Body is the Body.add calls of the field-level scan Group.rg_scan *)
Theorem parse_refines_scan : forall fs td d mt defs v8 v9 mid res,
  c11_wire_ok fs = true -> fs = (8, v8) :: (9, v9) :: (35, mt) :: mid -> ~ In TAG_MSG_TYPE (map fst mid) ->
  ad_find mt d = Some defs -> dict_body_only td defs ->
  rg_scan (td_xh td) (td_xt td) (Some (map gdef_rg defs)) RgTop 3%nat mid [] = Ok res ->
  exists m, do_parsing (ser fs) td (Some d) = Ok m /\
    m_raw m = Some (ser fs) /\
    m_fields m = map init_of fs /\
    m_header m = fold_left (addH td) fs hdr0 /\
    m_trailer m = fold_left (addT td) fs trl0 /\
    m_body m = body_of fs res.
Proof.
  intros fs td d mt defs v8 v9 mid0 res H Efs0 Hn35 Hfind Hdict Hscan.
  unfold c11_wire_ok in H. apply andb_true_iff in H as [Hfr H9].
  destruct (do_parsing_framed_groups fs td d mt defs v8 v9 _ _ Hfr Efs0 Hn35 Hfind Hdict Hscan) as (m & Hfin & Hdo).
  destruct Hfin as (F1 & F2 & F3 & F4 & F5).
  destruct (c11_framed_shape fs Hfr) as (v8' & v9' & v35 & mid & v10' & Efs & _ & _ & Hmid).
  assert (Ev9' : v9' = v9) by (rewrite Efs0 in Efs; inversion Efs; reflexivity). subst v9'.
  rewrite Efs in H9. apply andb_true_iff in H9 as [Hv9 Hbound]. rewrite <- Efs in Hv9, Hbound.
  assert (Ev9 : v9 = itoa (c11_body_length fs)).
  { clear -Hv9. revert Hv9. generalize (itoa (c11_body_length fs)). induction v9 as [|x v IH]; intros [|y w] Hq; cbn in Hq; try discriminate; [reflexivity|].
    apply andb_true_iff in Hq as [Hx Hw]. f_equal; [lia|apply IH; exact Hw]. }
  assert (Hl9 : c11_last_value fs TAG_BODY_LENGTH = Some v9).
  { rewrite Efs. apply framed_body_length_value. exact Hmid. }
  assert (Hget : fm_get_int (m_header m) TAG_BODY_LENGTH = Ok (c11_body_length fs)).
  { unfold fm_get_int, fm_get_bytes. rewrite F2, addH_cond, fold_cond_add_lookup.
    replace (is_header_field TAG_BODY_LENGTH td) with true by reflexivity. rewrite Hl9. cbn [bind fst tv_value tv_init].
    unfold fix_int_read. rewrite Ev9, atoi_itoa; [reflexivity|].
    pose proof (c11_body_length_nonneg fs). unfold in_int64, two63. lia. }
  rewrite Hget, Z.eqb_refl in Hdo. exists m. repeat split; assumption.
Qed.
