(* message.go: ParseMessageWithDataDictionary / doParsing, parseGroup, isNumInGroupField, getGroupFields,
   isGroupMember, isHeaderField, isTrailerField, extractField, extractSpecificField, extractXMLDataField.
   Function-by-function model of the CURRENT code (with the fieldCount < 3, fieldIndex >= len(fields), XMLDataLen
   bound and unconditional BodyLength checks).  Lemmas in ParseProofs.v.

   Dictionaries.  The parser looks at a DataDictionary only through
     appDataDictionary.Messages[msgType].Fields[tag] / FieldDef.Fields (repeating-group member lists, nested), and
     transportDataDictionary.Header.Fields / Trailer.Fields (extra header / trailer tags),
   so the application dictionary is `list (msgType * list gdef)` over the tree type gdef and the transport
   dictionary a pair of tag lists.

   The message being filled is a freshly made one (NewMessage): `fields` is make([]TagValue, fieldCount), all zero
   values.  (Re-parsing into a used Message re-slices its old array; stale entries beyond the parsed ones are not modelled.) *)
From Coq Require Import ZArith List Bool.
From QF Require Import Base.Res Base.Bytes Codec.FixInt Codec.TagValue Codec.FieldMap Codec.Build Spec.FixStd.
Import ListNotations.
Open Scope Z_scope.

(* ---------- dictionary view ---------- *)
Inductive gdef : Type := GDef (tag : Z) (members : list gdef).
Definition gdef_tag (g : gdef) : Z := match g with GDef t _ => t end.
Definition gdef_members (g : gdef) : list gdef := match g with GDef _ ms => ms end.

Definition app_dict : Type := list (bytes * list gdef).      (* Messages[msgType].Fields, as a list (last def of a tag wins) *)
Definition transport_dict : Type := (list Z * list Z)%type.  (* Header.Fields tags, Trailer.Fields tags *)

(* fields[int(tag)] on a map built by inserting the list in order: the LAST definition of a tag is the one found *)
Fixpoint gd_find (t : Z) (l : list gdef) : option gdef :=
  match l with
  | [] => None
  | g :: r => match gd_find t r with
              | Some x => Some x
              | None => if gdef_tag g =? t then Some g else None
              end
  end.

(* appDataDictionary.Messages[msgt] *)
Fixpoint ad_find (msgt : bytes) (d : app_dict) : option (list gdef) :=
  match d with
  | [] => None
  | (k, fs) :: r => if beq_bytes k msgt then Some fs else ad_find msgt r
  end.

(* the walk shared by isNumInGroupField and getGroupFields: a tag that is not found is skipped (the search goes on
   in the same map); for the last tag the member list is returned when non-empty *)
Fixpoint gd_walk (fields : list gdef) (tags : list Z) : list gdef :=
  match tags with
  | [] => []
  | t :: rest =>
      match rest with
      | [] => match gd_find t fields with Some fd => gdef_members fd | None => [] end
      | _ => match gd_find t fields with Some fd => gd_walk (gdef_members fd) rest | None => gd_walk fields rest end
      end
  end.

(* func getGroupFields(msg, tags, appDataDictionary) (fields []*FieldDef); msg is read only for its MsgType (header 35) *)
Definition get_group_fields (hdr : fmap) (tags : list Z) (ad : option app_dict) : list gdef :=
  match ad with
  | None => []
  | Some d =>
      match fm_get_bytes hdr TAG_MSG_TYPE with
      | Ok msgt => match ad_find msgt d with Some fields => gd_walk fields tags | None => [] end
      | _ => []
      end
  end.

(* func isNumInGroupField(msg, tags, appDataDictionary) bool: true exactly when getGroupFields finds a non-empty list *)
Definition is_num_in_group_field (hdr : fmap) (tags : list Z) (ad : option app_dict) : bool :=
  match get_group_fields hdr tags ad with [] => false | _ => true end.

(* func isGroupMember(tag, fields) bool *)
Definition is_group_member (t : Z) (fields : list gdef) : bool := existsb (fun g => gdef_tag g =? t) fields.

(* func isHeaderField(tag, dataDict) / isTrailerField(tag, dataDict) *)
Definition is_header_field (t : Z) (td : option transport_dict) : bool :=
  tag_is_header t || match td with None => false | Some d => fixstd_mem t (fst d) end.
Definition is_trailer_field (t : Z) (td : option transport_dict) : bool :=
  tag_is_trailer t || match td with None => false | Some d => fixstd_mem t (snd d) end.

(* ---------- field extraction ---------- *)
Definition E_NO_DELIM : Z := 31.        (* extractField: No Trailing Delim *)
Definition E_OUT_OF_ORDER : Z := 32.    (* extractSpecificField: Fields out of order *)
Definition E_XML_LEN : Z := 33.         (* extractXMLDataField: XMLDataLen exceeds message *)
Definition E_NO_FIELDS : Z := 34.       (* No Fields detected *)
Definition E_TOO_FEW : Z := 35.         (* Too few fields *)
Definition E_NO_CHECKSUM : Z := 36.     (* No CheckSum field found *)
Definition E_BODY_LENGTH_FIELD : Z := 37.   (* BodyLength missing / not an int *)
Definition E_BODY_LENGTH : Z := 38.     (* Incorrect Message Length *)

(* func extractField(parsedFieldBytes *TagValue, buffer) (remBytes, err): second component = what parse did
   (Ok tv: *parsedFieldBytes overwritten; Err: left as it was) *)
Definition extract_field (buffer : bytes) : bytes * res tv :=
  match index_byte SOH buffer with
  | None => (buffer, Err E_NO_DELIM)
  | Some e => (skipn (S e) buffer, tv_parse (firstn (S e) buffer))
  end.

(* func extractSpecificField(field, expectedTag, buffer) *)
Definition extract_specific_field (expected : Z) (buffer : bytes) : bytes * res tv :=
  let '(rem, r) := extract_field buffer in
  (rem, let* t := r in if tv_tag t =? expected then Ok t else Err E_OUT_OF_ORDER).

(* func extractXMLDataField(parsedFieldBytes, buffer, dataLen) *)
Definition extract_xml_data_field (buffer : bytes) (data_len : Z) : bytes * res tv :=
  match index_byte EQ buffer with
  | None => (buffer, Err E_NO_DELIM)
  | Some e =>
      if (data_len <? 0) || (data_len >? len buffer) || (Z.of_nat e + data_len + 2 >? len buffer)
      then (buffer, Err E_XML_LEN)
      else let end_index := (e + Z.to_nat data_len + 1)%nat in
           (skipn (S end_index) buffer, tv_parse (firstn (S end_index) buffer))
  end.

(* ---------- checked array access: msg.fields[i] ---------- *)
Definition arr_get (a : list tv) (i : nat) : res tv :=
  match nth_error a i with Some x => Ok x | None => Panic end.
Fixpoint arr_set (a : list tv) (i : nat) (x : tv) : res (list tv) :=
  match a, i with
  | [], _ => Panic
  | _ :: r, O => Ok (x :: r)
  | y :: r, S i' => match arr_set r i' x with Ok r' => Ok (y :: r') | Err e => Err e | Panic => Panic | OutOfFuel => OutOfFuel end
  end.

(* ---------- parser state: type msgParser struct ---------- *)
Record mparser : Type := mk_mp {
  mp_msg : message;
  mp_raw_bytes : bytes;           (* rawBytes: what is left to parse *)
  mp_field_index : nat;           (* fieldIndex *)
  mp_pfb : nat;                   (* parsedFieldBytes = &msg.fields[mp_pfb] *)
  mp_trailer_bytes : bytes;
  mp_found_body : bool;
  mp_found_trailer : bool
}.

Definition msg_set_header (m : message) (h : fmap) : message :=
  mk_msg h (m_body m) (m_trailer m) (m_raw m) (m_body_bytes m) (m_fields m).
Definition msg_set_body (m : message) (b : fmap) : message :=
  mk_msg (m_header m) b (m_trailer m) (m_raw m) (m_body_bytes m) (m_fields m).
Definition msg_set_trailer (m : message) (t : fmap) : message :=
  mk_msg (m_header m) (m_body m) t (m_raw m) (m_body_bytes m) (m_fields m).
Definition msg_set_fields (m : message) (fs : list tv) : message :=
  mk_msg (m_header m) (m_body m) (m_trailer m) (m_raw m) (m_body_bytes m) fs.
Definition msg_set_body_bytes (m : message) (bb : bytes) : message :=
  mk_msg (m_header m) (m_body m) (m_trailer m) (m_raw m) bb (m_fields m).

Definition mp_set_msg (st : mparser) (m : message) : mparser :=
  mk_mp m (mp_raw_bytes st) (mp_field_index st) (mp_pfb st) (mp_trailer_bytes st) (mp_found_body st) (mp_found_trailer st).
Definition mp_header_add (st : mparser) (f : field) : mparser :=
  mp_set_msg st (msg_set_header (mp_msg st) (fm_add (m_header (mp_msg st)) f)).
Definition mp_body_add (st : mparser) (f : field) : mparser :=
  mp_set_msg st (msg_set_body (mp_msg st) (fm_add (m_body (mp_msg st)) f)).
Definition mp_trailer_add (st : mparser) (f : field) : mparser :=
  mp_set_msg st (msg_set_trailer (mp_msg st) (fm_add (m_trailer (mp_msg st)) f)).
Definition mp_set_found_body (st : mparser) (b : bool) : mparser :=
  mk_mp (mp_msg st) (mp_raw_bytes st) (mp_field_index st) (mp_pfb st) (mp_trailer_bytes st) b (mp_found_trailer st).
Definition mp_set_found_trailer (st : mparser) (b : bool) : mparser :=
  mk_mp (mp_msg st) (mp_raw_bytes st) (mp_field_index st) (mp_pfb st) (mp_trailer_bytes st) (mp_found_body st) b.
Definition mp_set_trailer_bytes (st : mparser) (tb : bytes) : mparser :=
  mk_mp (mp_msg st) (mp_raw_bytes st) (mp_field_index st) (mp_pfb st) tb (mp_found_body st) (mp_found_trailer st).
Definition mp_set_field_index (st : mparser) (i : nat) : mparser :=
  mk_mp (mp_msg st) (mp_raw_bytes st) i (mp_pfb st) (mp_trailer_bytes st) (mp_found_body st) (mp_found_trailer st).
(* the effect of  pfb = &fields[i]; rawBytes, err = extract...(pfb, rawBytes)  on the state *)
Definition mp_parsed (st : mparser) (i : nat) (fields : list tv) (rem : bytes) : mparser :=
  mk_mp (msg_set_fields (mp_msg st) fields) rem (mp_field_index st) i (mp_trailer_bytes st) (mp_found_body st) (mp_found_trailer st).

(* for len(tags) > 1 { tags = tags[:len(tags)-1]; fields = getGroupFields(...); if isGroupMember(tag, fields) { inParent = true; break } } *)
Fixpoint pg_pop_loop (n : nat) (hdr : fmap) (ad : option app_dict) (t : Z) (tags : list Z) (gfields : list gdef)
  : list Z * list gdef * bool :=
  match n with
  | O => (tags, gfields, false)
  | S n' =>
      if Nat.ltb 1 (length tags) then
        let tags' := removelast tags in
        let gf := get_group_fields hdr tags' ad in
        if is_group_member t gf then (tags', gf, true) else pg_pop_loop n' hdr ad t tags' gf
      else (tags, gfields, false)
  end.

(* the loop of parseGroup.  dm (= msg.fields[start : fieldIndex+1], always a window of the field array: every
   append(dm, *parsedFieldBytes) writes the element onto itself) is carried as its contents. *)
Fixpoint pg_loop (fuel : nat) (td : option transport_dict) (ad : option app_dict)
                 (st : mparser) (dm : field) (tags : list Z) (gfields : list gdef) : res mparser :=
  match fuel with
  | O => OutOfFuel
  | S fuel' =>
      let fi := S (mp_field_index st) in
      let st := mp_set_field_index st fi in
      let fields := m_fields (mp_msg st) in
      if Nat.leb (length fields) fi then Ok (mp_body_add st dm)
      else
        let* old := arr_get fields fi in
        let '(rem, r) := extract_field (mp_raw_bytes st) in
        (* fix F24: the error of extractField is no longer ignored inside a group (it used to leave the slot as it was) *)
        let* t := r in
        let* fields' := arr_set fields fi t in
        let st1 := mp_set_trailer_bytes (mp_parsed st fi fields' rem) rem in
        let hdr := m_header (mp_msg st1) in
        let tag := tv_tag t in
        let dm' : field := (fst dm, snd dm ++ [t]) in
        if is_group_member tag gfields then
          if is_num_in_group_field hdr (tags ++ [tag]) ad
          then pg_loop fuel' td ad st1 dm' (tags ++ [tag]) (get_group_fields hdr (tags ++ [tag]) ad)
          else pg_loop fuel' td ad st1 dm' tags gfields
        else if is_header_field tag td then
          (* the body ends before a header / trailer field that ends the group: trailerBytes = bytesBeforeField *)
          let st1 := mp_set_trailer_bytes st1 (mp_raw_bytes st) in
          Ok (mp_header_add (mp_body_add st1 dm) (t, []))
        else if is_trailer_field tag td then
          let st1 := mp_set_trailer_bytes st1 (mp_raw_bytes st) in
          Ok (mp_set_found_trailer (mp_trailer_add (mp_body_add st1 dm) (t, [])) true)
        else
          let '(tags', gfields', in_parent) := pg_pop_loop (length tags) hdr ad tag tags gfields in
          if in_parent then
            if is_num_in_group_field hdr (tags' ++ [tag]) ad
            then pg_loop fuel' td ad st1 dm' (tags' ++ [tag]) (get_group_fields hdr (tags' ++ [tag]) ad)
            else pg_loop fuel' td ad st1 dm' tags' gfields'
          else if is_num_in_group_field hdr [tag] ad then
            pg_loop fuel' td ad (mp_body_add st1 dm) (t, []) [tag] (get_group_fields hdr [tag] ad)
          else
            Ok (mp_body_add (mp_body_add st1 dm) (t, []))
  end.

(* func parseGroup(mp *msgParser, tags []Tag) *)
Definition parse_group (td : option transport_dict) (ad : option app_dict) (st : mparser) (tags : list Z) : res mparser :=
  let st := mp_set_found_body st true in
  let fields := m_fields (mp_msg st) in
  let* d0 := arr_get fields (mp_field_index st) in
  pg_loop (S (length fields)) td ad st (d0, []) tags (get_group_fields (m_header (mp_msg st)) tags ad).

(* the `for { ... }` of doParsing *)
Fixpoint dp_loop (fuel : nat) (td : option transport_dict) (ad : option app_dict)
                 (st : mparser) (xml_data_len : Z) : res mparser :=
  match fuel with
  | O => OutOfFuel
  | S fuel' =>
      let fields := m_fields (mp_msg st) in
      let fi := mp_field_index st in
      if Nat.leb (length fields) fi then Err E_NO_CHECKSUM
      else
        let* _ := arr_get fields fi in
        let '(rem, r) := if xml_data_len >? 0 then extract_xml_data_field (mp_raw_bytes st) xml_data_len
                         else extract_field (mp_raw_bytes st) in
        let xml_data_len := if xml_data_len >? 0 then 0 else xml_data_len in
        let* t := r in
        let* fields' := arr_set fields fi t in
        let st1 := mp_parsed st fi fields' rem in
        let tag := tv_tag t in
        let* st2 :=
          if is_header_field tag td then Ok (mp_header_add st1 (t, []))
          else if is_trailer_field tag td then Ok (mp_set_found_trailer (mp_trailer_add st1 (t, [])) true)
          else if is_num_in_group_field (m_header (mp_msg st1)) [tag] ad then parse_group td ad st1 [tag]
          else Ok (mp_body_add (mp_set_trailer_bytes (mp_set_found_body st1 true) rem) (t, [])) in
        let* p := arr_get (m_fields (mp_msg st2)) (mp_pfb st2) in
        if tv_tag p =? TAG_CHECK_SUM then Ok st2
        else
          let st3 := if negb (mp_found_body st2)
                     then mp_set_msg st2 (msg_set_body_bytes (mp_msg st2) (mp_raw_bytes st2)) else st2 in
          let* xml_data_len := if tv_tag p =? TAG_XML_DATA_LEN
                               then fm_get_int_or_zero (m_header (mp_msg st3)) TAG_XML_DATA_LEN
                               else Ok xml_data_len in
          dp_loop fuel' td ad (mp_set_field_index st3 (S (mp_field_index st3))) xml_data_len
  end.

(* length of the fields that count for BodyLength: for _, field := range msg.fields *)
Definition dp_fields_length (fields : list tv) : Z :=
  fold_right (fun t acc => (if tv_counts_in_length t then tv_length t else 0) + acc) 0 fields.

(* one of the three leading extractSpecificField steps *)
Definition dp_leading (st : mparser) (expected : Z) : res mparser :=
  let fields := m_fields (mp_msg st) in
  let fi := mp_field_index st in
  let* _ := arr_get fields fi in
  let '(rem, r) := extract_specific_field expected (mp_raw_bytes st) in
  let* t := r in
  let* fields' := arr_set fields fi t in
  Ok (mp_header_add (mp_parsed st fi fields' rem) (t, [])).

(* func doParsing(mp *msgParser) (err error), on a fresh Message whose rawMessage is `raw` *)
Definition do_parsing (raw : bytes) (td : option transport_dict) (ad : option app_dict) : res message :=
  let field_count := count_byte SOH raw in
  if Nat.eqb field_count 0 then Err E_NO_FIELDS
  else if Nat.ltb field_count 3 then Err E_TOO_FEW
  else
    let m0 := mk_msg (fm_clear (m_header new_message)) (fm_clear (m_body new_message)) (fm_clear (m_trailer new_message))
                     (Some raw) [] (repeat tv_zero field_count) in
    let st := mk_mp m0 raw 0%nat 0%nat [] false false in
    let* st := dp_leading st TAG_BEGIN_STRING in
    let* st := dp_leading (mp_set_field_index st 1%nat) TAG_BODY_LENGTH in
    let* st := dp_leading (mp_set_field_index st 2%nat) TAG_MSG_TYPE in
    let st := mp_set_field_index st 3%nat in
    let* st := dp_loop (S field_count) td ad st 0 in
    (* mp.msg.fields = mp.msg.fields[:mp.fieldIndex+1]: the slots that were not used (one was allocated per SOH byte, data
       fields may contain SOH) are dropped *)
    let st := mp_set_msg st (msg_set_fields (mp_msg st) (firstn (S (mp_field_index st)) (m_fields (mp_msg st)))) in
    (* This will happen if there are no fields in the body *)
    let st := if mp_found_trailer st && negb (mp_found_body st)
              then mp_set_msg (mp_set_trailer_bytes st (mp_raw_bytes st)) (msg_set_body_bytes (mp_msg st) [])
              else st in
    let bb := m_body_bytes (mp_msg st) in
    let tb := mp_trailer_bytes st in
    let bb := if Nat.ltb (length tb) (length bb) then firstn (length bb - length tb) bb else bb in
    let m := msg_set_body_bytes (mp_msg st) bb in
    let length := dp_fields_length (m_fields m) in
    match fm_get_int (m_header m) TAG_BODY_LENGTH with
    | Ok body_length => if length =? body_length then Ok m else Err E_BODY_LENGTH
    | Err _ => Err E_BODY_LENGTH_FIELD
    | Panic => Panic
    | OutOfFuel => OutOfFuel
    end.

(* func ParseMessageWithDataDictionary / ParseMessage *)
Definition parse_message_with_data_dictionary := do_parsing.
Definition parse_message (raw : bytes) : res message := do_parsing raw None None.
