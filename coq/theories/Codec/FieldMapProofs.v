(* Lemmas about field_map.go's model: the map primitives, the representation invariant tying `tags` to `tagLookup`
   (preserved by every operation), insertion sort = the unique sorted permutation under a strict total order, and the
   three section orderings are strict total orders. *)
From Coq Require Import ZArith List Bool Lia ZifyBool Sorting.Permutation Sorting.Sorted.
From QF Require Import Base.Res Base.Bytes Codec.FixInt Codec.TagValue Codec.FieldMap Spec.FixStd.
Import ListNotations.
Open Scope Z_scope.

Lemma NoDup_snoc {A} (l : list A) (x : A) : NoDup l -> ~ In x l -> NoDup (l ++ [x]).
Proof.
  intros H Hx. apply (Permutation_NoDup (Permutation_cons_append l x)). constructor; assumption.
Qed.

(* ---------- the Go map primitives ---------- *)
Lemma lk_get_put_same : forall lk t f, lk_get (lk_put lk t f) t = Some f.
Proof.
  induction lk as [|[k g] r IH]; intros t f; cbn.
  - rewrite Z.eqb_refl. reflexivity.
  - destruct (k =? t) eqn:E; cbn; rewrite E; [reflexivity|apply IH].
Qed.

Lemma lk_get_put_other : forall lk t u f, u <> t -> lk_get (lk_put lk t f) u = lk_get lk u.
Proof.
  induction lk as [|[k g] r IH]; intros t u f H; cbn.
  - replace (t =? u) with false by lia. reflexivity.
  - destruct (k =? t) eqn:E; cbn.
    + replace (k =? u) with false by lia. reflexivity.
    + destruct (k =? u); [reflexivity|apply IH; exact H].
Qed.

Lemma lk_get_del_same : forall lk t, lk_get (lk_del lk t) t = None.
Proof.
  induction lk as [|[k g] r IH]; intros t; cbn; [reflexivity|].
  destruct (k =? t) eqn:E; cbn; [apply IH|]. rewrite E. apply IH.
Qed.

Lemma lk_get_del_other : forall lk t u, u <> t -> lk_get (lk_del lk t) u = lk_get lk u.
Proof.
  induction lk as [|[k g] r IH]; intros t u H; cbn; [reflexivity|].
  destruct (k =? t) eqn:E; cbn.
  - replace (k =? u) with false by lia. apply IH; exact H.
  - destruct (k =? u); [reflexivity|apply IH; exact H].
Qed.

Lemma lk_get_some_in : forall lk t f, lk_get lk t = Some f -> In (t, f) lk.
Proof.
  induction lk as [|[k g] r IH]; intros t f H; cbn in *; [discriminate|].
  destruct (k =? t) eqn:E.
  - inversion H; subst. left. f_equal. lia.
  - right. apply IH. exact H.
Qed.

Lemma lk_has_in_keys : forall lk t, lk_has lk t = true <-> In t (map fst lk).
Proof.
  unfold lk_has. induction lk as [|[k g] r IH]; intros t; cbn.
  - split; [discriminate|tauto].
  - destruct (k =? t) eqn:E.
    + split; [intros _; left; lia|reflexivity].
    + rewrite IH. split; [tauto|]. intros [H|H]; [lia|exact H].
Qed.

Lemma lk_has_false_notin : forall lk t, lk_has lk t = false <-> ~ In t (map fst lk).
Proof.
  intros lk t. rewrite <- lk_has_in_keys. destruct (lk_has lk t); split; congruence.
Qed.

Lemma lk_in_get : forall lk t f, NoDup (map fst lk) -> In (t, f) lk -> lk_get lk t = Some f.
Proof.
  induction lk as [|[k g] r IH]; intros t f Hnd Hin; cbn in *; [tauto|].
  inversion Hnd as [|? ? Hk Hr]; subst. destruct Hin as [Hin|Hin].
  - inversion Hin; subst. rewrite Z.eqb_refl. reflexivity.
  - destruct (k =? t) eqn:E.
    + exfalso. apply Hk. replace k with t by lia. apply (in_map fst _ _ Hin).
    + apply IH; assumption.
Qed.

Lemma lk_keys_put : forall lk t f,
  map fst (lk_put lk t f) = if lk_has lk t then map fst lk else map fst lk ++ [t].
Proof.
  unfold lk_has. induction lk as [|[k g] r IH]; intros t f; cbn; [reflexivity|].
  destruct (k =? t) eqn:E; cbn; [reflexivity|]. rewrite IH. destruct (lk_get r t); reflexivity.
Qed.

Lemma lk_keys_del_in : forall lk t u, In u (map fst (lk_del lk t)) <-> In u (map fst lk) /\ u <> t.
Proof.
  induction lk as [|[k g] r IH]; intros t u; cbn; [tauto|].
  destruct (k =? t) eqn:E; cbn; rewrite IH; split.
  - intros [H1 H2]. tauto.
  - intros [[H1|H1] H2]; [lia|tauto].
  - intros [H|[H1 H2]]; [split; [tauto|lia]|tauto].
  - intros [[H1|H1] H2]; tauto.
Qed.

Lemma lk_keys_del_nodup : forall lk t, NoDup (map fst lk) -> NoDup (map fst (lk_del lk t)).
Proof.
  induction lk as [|[k g] r IH]; intros t H; cbn; [constructor|].
  inversion H as [|? ? Hk Hr]; subst. destruct (k =? t); cbn; [apply IH; exact Hr|].
  constructor; [|apply IH; exact Hr]. rewrite lk_keys_del_in. tauto.
Qed.

Lemma lk_keys_put_nodup : forall lk t f, NoDup (map fst lk) -> NoDup (map fst (lk_put lk t f)).
Proof.
  intros lk t f H. rewrite lk_keys_put. destruct (lk_has lk t) eqn:E; [exact H|].
  apply NoDup_snoc; [exact H|]. apply lk_has_false_notin. exact E.
Qed.

(* ---------- representation invariant ---------- *)
Definition fm_rep (m : fmap) : Prop :=
  NoDup (fm_tags m) /\ NoDup (map fst (fm_lookup m)) /\ (forall t, In t (fm_tags m) <-> In t (map fst (fm_lookup m))).

Lemma fm_rep_perm : forall m, fm_rep m -> Permutation (fm_tags m) (map fst (fm_lookup m)).
Proof. intros m (H1 & H2 & H3). apply NoDup_Permutation; assumption. Qed.

Lemma fm_rep_init : forall o, fm_rep (fm_init_with_ordering o).
Proof. intros o. repeat split; cbn; try constructor; tauto. Qed.

Lemma fm_rep_clear : forall m, fm_rep (fm_clear m).
Proof. intros m. repeat split; cbn; try constructor; tauto. Qed.

(* the shared step of getOrCreate / add / SetGroup: append the tag if the map does not have it, then store *)
Lemma fm_rep_store : forall tags lk o t f, fm_rep (mk_fmap tags lk o) ->
  fm_rep (mk_fmap (if lk_has lk t then tags else tags ++ [t]) (lk_put lk t f) o).
Proof.
  intros tags lk o t f (H1 & H2 & H3). cbn in *. unfold fm_rep. cbn.
  rewrite lk_keys_put. destruct (lk_has lk t) eqn:E.
  - repeat split; try assumption; apply H3.
  - assert (Hn : ~ In t (map fst lk)) by (apply lk_has_false_notin; exact E).
    split; [apply NoDup_snoc; [exact H1|rewrite H3; exact Hn]|].
    split; [apply NoDup_snoc; assumption|].
    intros u. rewrite !in_app_iff, H3. tauto.
Qed.

Lemma fm_rep_set_bytes : forall m t v, fm_rep m -> fm_rep (fm_set_bytes m t v).
Proof.
  intros [tags lk o] t v H. unfold fm_set_bytes. cbn [fm_lookup fm_tags fm_ord].
  pose proof (fm_rep_store tags lk o t) as S. unfold lk_has in S.
  destruct (lk_get lk t) as [f|] eqn:E.
  - apply (S (tv_init t v, []) H).
  - apply (S (tv_init t v, []) H).
Qed.

Lemma fm_rep_add : forall m f, fm_rep m -> fm_rep (fm_add m f).
Proof. intros [tags lk o] f H. unfold fm_add. cbn [fm_lookup fm_tags fm_ord]. apply fm_rep_store. exact H. Qed.

Lemma fm_rep_set_group : forall m t f, fm_rep m -> fm_rep (fm_set_group m t f).
Proof. intros [tags lk o] t f H. unfold fm_set_group. cbn [fm_lookup fm_tags fm_ord]. apply fm_rep_store. exact H. Qed.

Lemma tags_remove_first_in : forall t l u, NoDup l -> (In u (tags_remove_first t l) <-> In u l /\ u <> t).
Proof.
  induction l as [|x l IH]; intros u H; cbn; [tauto|].
  inversion H as [|? ? Hx Hl]; subst. destruct (x =? t) eqn:E.
  - assert (x = t) by lia. subst. split.
    + intros Hu. split; [tauto|]. intros ->. tauto.
    + intros [[Hu|Hu] Hne]; [congruence|exact Hu].
  - cbn. rewrite (IH u Hl). split.
    + intros [Hu|[Hu Hne]]; [split; [tauto|lia]|tauto].
    + intros [[Hu|Hu] Hne]; tauto.
Qed.

Lemma tags_remove_first_nodup : forall t l, NoDup l -> NoDup (tags_remove_first t l).
Proof.
  induction l as [|x l IH]; intros H; cbn; [constructor|].
  inversion H as [|? ? Hx Hl]; subst. destruct (x =? t); [exact Hl|].
  constructor; [|apply IH; exact Hl]. rewrite (tags_remove_first_in t l x Hl). tauto.
Qed.

Lemma fm_rep_remove : forall m t, fm_rep m -> fm_rep (fm_remove m t).
Proof.
  intros [tags lk o] t (H1 & H2 & H3). unfold fm_remove. cbn [fm_lookup fm_tags fm_ord] in *.
  destruct (lk_has lk t); cbn [negb]; [|repeat split; assumption || apply H3].
  unfold fm_rep. cbn. split; [apply tags_remove_first_nodup; exact H1|].
  split; [apply lk_keys_del_nodup; exact H2|].
  intros u. rewrite (tags_remove_first_in t tags u H1), lk_keys_del_in, H3. tauto.
Qed.

Lemma fm_copy_into_eq : forall m to, fm_copy_into m to = m.
Proof.
  intros [tags lk o] to. unfold fm_copy_into. cbn. f_equal.
  induction lk as [|[k [h r]] l IH]; cbn; [reflexivity|]. rewrite IH. reflexivity.
Qed.

Lemma fm_rep_copy_into : forall m to, fm_rep m -> fm_rep (fm_copy_into m to).
Proof. intros m to H. rewrite fm_copy_into_eq. exact H. Qed.

(* ---------- sorting ---------- *)
Lemma tags_insert_perm : forall lt x l, Permutation (tags_insert lt x l) (x :: l).
Proof.
  induction l as [|y r IH]; cbn; [reflexivity|].
  destruct (lt y x); [|reflexivity].
  rewrite IH. apply perm_swap.
Qed.

Lemma tags_sort_perm : forall lt l, Permutation (tags_sort lt l) l.
Proof.
  induction l as [|x r IH]; cbn; [reflexivity|].
  rewrite tags_insert_perm. constructor. exact IH.
Qed.

(* a comparator that is a strict total order on the tags satisfying P *)
Record strict_total_on (P : Z -> Prop) (lt : Z -> Z -> bool) : Prop := {
  sto_irrefl : forall x, P x -> lt x x = false;
  sto_trans : forall x y z, P x -> P y -> P z -> lt x y = true -> lt y z = true -> lt x z = true;
  sto_total : forall x y, P x -> P y -> x <> y -> lt x y = true \/ lt y x = true
}.

Definition lt_rel (lt : Z -> Z -> bool) (x y : Z) : Prop := lt x y = true.

Lemma tags_insert_sorted : forall P lt x l, strict_total_on P lt -> P x -> Forall P l -> ~ In x l ->
  StronglySorted (lt_rel lt) l -> StronglySorted (lt_rel lt) (tags_insert lt x l).
Proof.
  intros P lt x l T Px. induction l as [|y r IH]; intros HP Hx Hs; cbn.
  - constructor; constructor.
  - inversion HP as [|? ? Py Pr]; subst. inversion Hs as [|? ? Hsr Hy]; subst.
    assert (Hxy : x <> y) by (intros ->; apply Hx; left; reflexivity).
    assert (Hxr : ~ In x r) by (intros H; apply Hx; right; exact H).
    destruct (lt y x) eqn:E.
    + constructor; [apply IH; assumption|].
      apply (Permutation_Forall (Permutation_sym (tags_insert_perm lt x r))). constructor; assumption.
    + assert (Hlt : lt x y = true) by (destruct (sto_total P lt T x y Px Py Hxy); congruence).
      constructor; [exact Hs|]. constructor; [exact Hlt|].
      rewrite Forall_forall in *. intros z Hz. apply (sto_trans P lt T x y z); auto. apply Hy. exact Hz.
Qed.

Lemma tags_sort_sorted : forall P lt l, strict_total_on P lt -> Forall P l -> NoDup l ->
  StronglySorted (lt_rel lt) (tags_sort lt l).
Proof.
  intros P lt l T. induction l as [|x r IH]; intros HP Hnd; cbn; [constructor|].
  inversion HP; subst. inversion Hnd; subst.
  apply (tags_insert_sorted P); auto.
  - apply (Permutation_Forall (Permutation_sym (tags_sort_perm lt r))). assumption.
  - intros H. apply (Permutation_in _ (tags_sort_perm lt r)) in H. tauto.
Qed.

(* DESIGN 3.5: two sorted permutations of the same tags under a strict total order are equal, so the model's insertion
   sort returns what ANY correct sort (Go's sort.Sort, unstable pdqsort included) returns *)
Theorem sorted_perm_unique : forall P lt l1 l2, strict_total_on P lt -> Forall P l1 ->
  StronglySorted (lt_rel lt) l1 -> StronglySorted (lt_rel lt) l2 -> Permutation l1 l2 -> l1 = l2.
Proof.
  intros P lt l1. induction l1 as [|a r1 IH]; intros l2 T HP S1 S2 Hp.
  - apply Permutation_nil in Hp. congruence.
  - destruct l2 as [|b r2]; [apply Permutation_sym, Permutation_nil in Hp; discriminate|].
    inversion HP as [|? ? Pa Pr]; subst. inversion S1 as [|? ? S1r Ha]; subst. inversion S2 as [|? ? S2r Hb]; subst.
    assert (Pb : P b).
    { assert (In b (a :: r1)) by (apply (Permutation_in _ (Permutation_sym Hp)); left; reflexivity).
      rewrite Forall_forall in HP. apply HP. assumption. }
    assert (Hab : a = b).
    { destruct (Z.eq_dec a b) as [|Hne]; [assumption|]. exfalso.
      assert (In a r2). { assert (In a (b :: r2)) by (apply (Permutation_in _ Hp); left; reflexivity). destruct H; congruence. }
      assert (In b r1). { assert (In b (a :: r1)) by (apply (Permutation_in _ (Permutation_sym Hp)); left; reflexivity). destruct H0; congruence. }
      rewrite Forall_forall in Ha, Hb.
      pose proof (sto_trans P lt T a b a Pa Pb Pa (Ha b H0) (Hb a H)) as C.
      rewrite (sto_irrefl P lt T a Pa) in C. discriminate. }
    subst b. f_equal. apply IH; auto. apply (Permutation_cons_inv Hp).
Qed.

Corollary tags_sort_unique : forall P lt l s, strict_total_on P lt -> Forall P l -> NoDup l ->
  Permutation s l -> StronglySorted (lt_rel lt) s -> s = tags_sort lt l.
Proof.
  intros P lt l s T HP Hnd Hp Hs. apply (sorted_perm_unique P lt); auto.
  - apply (Permutation_Forall (Permutation_sym Hp)). exact HP.
  - apply (tags_sort_sorted P); assumption.
  - rewrite Hp. symmetry. apply tags_sort_perm.
Qed.

(* the three section orderings are strict total orders on all tags *)
Definition any_tag (t : Z) : Prop := True.

Lemma normal_order_strict_total : strict_total_on any_tag normal_field_order.
Proof. constructor; unfold normal_field_order; intros; lia. Qed.

Lemma header_field_ordering_lex : forall i j,
  header_field_ordering i j =
  (header_ordering_rank i <? header_ordering_rank j) || ((header_ordering_rank i =? header_ordering_rank j) && (i <? j)).
Proof.
  intros i j. unfold header_field_ordering. cbv zeta.
  destruct (header_ordering_rank i <? header_ordering_rank j) eqn:E1; [reflexivity|].
  destruct (header_ordering_rank i >? header_ordering_rank j) eqn:E2; cbv iota.
  - replace (header_ordering_rank i =? header_ordering_rank j) with false by lia. reflexivity.
  - replace (header_ordering_rank i =? header_ordering_rank j) with true by lia. reflexivity.
Qed.

Lemma header_order_strict_total : strict_total_on any_tag header_field_ordering.
Proof.
  constructor.
  - intros x _. rewrite header_field_ordering_lex. lia.
  - intros x y z _ _ _. rewrite !header_field_ordering_lex. lia.
  - intros x y _ _. rewrite !header_field_ordering_lex. lia.
Qed.

Lemma trailer_field_ordering_spec : forall i j,
  trailer_field_ordering i j = negb (i =? TAG_CHECK_SUM) && ((j =? TAG_CHECK_SUM) || (i >? j)).
Proof.
  intros i j. unfold trailer_field_ordering.
  destruct (i =? TAG_CHECK_SUM); [reflexivity|]. destruct (j =? TAG_CHECK_SUM); reflexivity.
Qed.

Lemma trailer_order_strict_total : strict_total_on any_tag trailer_field_ordering.
Proof.
  constructor.
  - intros x _. rewrite trailer_field_ordering_spec. lia.
  - intros x y z _ _ _. rewrite !trailer_field_ordering_spec. lia.
  - intros x y _ _. rewrite !trailer_field_ordering_spec. lia.
Qed.

Lemma Forall_any_tag : forall l, Forall any_tag l.
Proof. intros l. apply Forall_forall. intros; exact I. Qed.

Lemma fm_rep_sort_in_place : forall m, fm_rep m -> fm_rep (fm_sort_in_place m).
Proof.
  intros m (H1 & H2 & H3). unfold fm_sort_in_place, fm_sorted_tags, fm_rep. cbn.
  pose proof (tags_sort_perm (fm_compare (fm_ord m)) (fm_tags m)) as Hp.
  split; [apply (Permutation_NoDup (Permutation_sym Hp)); exact H1|]. split; [exact H2|].
  intros t. rewrite <- H3. split; intros H; [apply (Permutation_in _ Hp)|apply (Permutation_in _ (Permutation_sym Hp))]; exact H.
Qed.
