(* Lemmas about the independent scanner: scanning a serialised field list gives the list back; BodyLength and
   CheckSum of a serialised list in terms of its fields. *)
From Coq Require Import ZArith List Bool Lia ZifyBool.
From QF Require Import Base.Res Base.Bytes Codec.FixInt Codec.FixIntProofs Codec.TagValue Codec.TagValueProofs Codec.Scan Spec.FixStd.
Import ListNotations.
Open Scope Z_scope.

Definition piece (f : Z * bytes) : bytes := itoa (fst f) ++ EQ :: snd f.

Lemma ser_field_piece : forall f, ser_field f = piece f ++ [SOH].
Proof. intros [t v]. unfold ser_field, piece. cbn [fst snd]. rewrite <- !app_assoc. reflexivity. Qed.

Lemma ser_cons : forall f fs, ser (f :: fs) = piece f ++ SOH :: ser fs.
Proof. intros f fs. unfold ser. cbn [map concat]. rewrite ser_field_piece, <- app_assoc. reflexivity. Qed.

Lemma ser_app : forall a b, ser (a ++ b) = ser a ++ ser b.
Proof. intros a b. unfold ser. rewrite map_app, concat_app. reflexivity. Qed.

Lemma scan_split_piece : forall p r, soh_free p = true ->
  scan_split (p ++ SOH :: r) = (p :: fst (scan_split r), snd (scan_split r)).
Proof.
  induction p as [|b p IH]; intros r H.
  - cbn [app scan_split]. destruct (scan_split r) as [ps rest]. rewrite Z.eqb_refl. reflexivity.
  - cbn [soh_free forallb] in H. apply andb_true_iff in H as [Hb Hp].
    cbn [app scan_split]. rewrite (IH r Hp). cbn [fst snd].
    destruct (b =? SOH) eqn:E; [cbn in Hb; discriminate|]. reflexivity.
Qed.

Definition field_scannable (f : Z * bytes) : Prop := 0 <= fst f /\ soh_free (snd f) = true.

Lemma digits_soh_free : forall d, all_digits d = true -> soh_free d = true.
Proof. intros d H. apply digits_no_byte; [exact H|reflexivity]. Qed.

Lemma piece_soh_free : forall f, field_scannable f -> soh_free (piece f) = true.
Proof.
  intros [t v] [Ht Hv]. cbn [fst snd] in *. unfold piece, soh_free. cbn [fst snd]. rewrite forallb_app. cbn [forallb].
  apply andb_true_iff. split; [apply digits_soh_free, itoa_all_digits_nonneg; exact Ht|]. exact Hv.
Qed.

Lemma scan_split_ser : forall fs, Forall field_scannable fs -> scan_split (ser fs) = (map piece fs, []).
Proof.
  induction fs as [|f fs IH]; intros H; [reflexivity|].
  inversion H; subst. rewrite ser_cons, scan_split_piece by (apply piece_soh_free; assumption).
  rewrite IH by assumption. reflexivity.
Qed.

Lemma scan_dec_dec_value : forall d n, scan_dec d n = dec_value d n.
Proof. induction d as [|c r IH]; intros n; cbn; [reflexivity|]. unfold CH0. apply IH. Qed.

Lemma scan_dec_itoa : forall t, 0 <= t -> scan_dec (itoa t) 0 = t.
Proof.
  intros t Ht. rewrite scan_dec_dec_value. pose proof (int_value_itoa t) as H.
  pose proof (itoa_all_digits_nonneg t Ht) as Hd. pose proof (itoa_nonempty t) as Hne.
  destruct (itoa t) as [|c r] eqn:E; [congruence|]. unfold int_value in H.
  rewrite (digits_head_not_minus c r Hd) in H. exact H.
Qed.

Lemma scan_field_piece : forall f, 0 <= fst f -> scan_field (piece f) = Some f.
Proof.
  intros [t v] Ht. cbn [fst] in Ht. unfold scan_field, piece. cbn [fst snd].
  pose proof (itoa_all_digits_nonneg t Ht) as Hd. pose proof (itoa_nonempty t) as Hne.
  rewrite (index_byte_app_notin EQ (itoa t) v) by (apply digits_no_byte; [exact Hd|reflexivity]).
  rewrite firstn_app_exact.
  assert (Hm : forall (X : option (Z * bytes)), match itoa t with [] => None | _ :: _ => X end = X)
    by (intros X; destruct (itoa t); [congruence|reflexivity]).
  rewrite Hm. unfold all_digits in Hd. rewrite Hd.
  rewrite scan_dec_itoa by exact Ht.
  replace (S (length (itoa t))) with (length (itoa t ++ [EQ])) by (rewrite app_length; cbn; lia).
  replace (itoa t ++ EQ :: v) with ((itoa t ++ [EQ]) ++ v) by (rewrite <- app_assoc; reflexivity).
  rewrite skipn_app_exact. reflexivity.
Qed.

Lemma scan_all_pieces : forall fs, Forall field_scannable fs -> scan_all (map piece fs) = Some fs.
Proof.
  induction fs as [|f fs IH]; intros H; [reflexivity|]. inversion H as [|? ? [Hf _] Hfs]; subst.
  cbn [map scan_all]. rewrite scan_field_piece by exact Hf. rewrite IH by exact Hfs. reflexivity.
Qed.

(* scanning the serialisation of a field list (non-negative tags, SOH-free values) gives the list back *)
Theorem scan_ser : forall fs, Forall field_scannable fs -> scan (ser fs) = Some fs.
Proof. intros fs H. unfold scan. rewrite scan_split_ser by exact H. apply scan_all_pieces. exact H. Qed.

(* ---- BodyLength and CheckSum of a serialised list ---- *)
Lemma len_app : forall a b, len (a ++ b) = len a + len b.
Proof. intros. unfold len. rewrite app_length. lia. Qed.
Lemma bytes_total_app : forall a b, bytes_total (a ++ b) = bytes_total a + bytes_total b.
Proof. unfold bytes_total. induction a as [|x a IH]; intros b; cbn [app fold_right]; [lia|]. rewrite IH. lia. Qed.

Lemma scan_pieces_len_map : forall fs, scan_pieces_len (map piece fs) = fold_right (fun f acc => len (ser_field f) + acc) 0 fs.
Proof.
  induction fs as [|f fs IH]; [reflexivity|]. unfold scan_pieces_len in *. cbn [map fold_right]. rewrite IH.
  rewrite ser_field_piece, len_app. change (len [SOH]) with 1. lia.
Qed.
Lemma scan_pieces_sum_map : forall fs, scan_pieces_sum (map piece fs) = fold_right (fun f acc => bytes_total (ser_field f) + acc) 0 fs.
Proof.
  induction fs as [|f fs IH]; [reflexivity|]. unfold scan_pieces_sum in *. cbn [map fold_right]. rewrite IH.
  rewrite ser_field_piece, bytes_total_app. change (bytes_total [SOH]) with SOH. lia.
Qed.

Lemma removelast_map {A C} (g : A -> C) : forall l, removelast (map g l) = map g (removelast l).
Proof. induction l as [|x [|y l] IH]; cbn in *; [reflexivity|reflexivity|]. f_equal. exact IH. Qed.

Lemma removelast_snoc {A} (l : list A) (x : A) : removelast (l ++ [x]) = l.
Proof. apply removelast_last. Qed.

(* the sum BodyLength must equal: every field except those tagged 8, 9, 10 *)
Lemma c11_body_length_framed : forall a b mid z,
  c11_counts (fst a) = false -> c11_counts (fst b) = false -> c11_counts (fst z) = false ->
  forallb (fun f => c11_counts (fst f)) mid = true ->
  c11_body_length (a :: b :: mid ++ [z]) = fold_right (fun f acc => len (ser_field f) + acc) 0 mid.
Proof.
  intros a b mid z Ha Hb Hz Hm. unfold c11_body_length. cbn [fold_right]. rewrite Ha, Hb.
  rewrite fold_right_app. cbn [fold_right]. rewrite Hz.
  induction mid as [|f mid IH]; cbn [fold_right app]; [lia|].
  cbn [forallb] in Hm. apply andb_true_iff in Hm as [Hf Hmid]. rewrite Hf. specialize (IH Hmid). lia.
Qed.

Theorem body_length_of_ser : forall a b mid z, Forall field_scannable (a :: b :: mid ++ [z]) ->
  body_length_of (ser (a :: b :: mid ++ [z])) = fold_right (fun f acc => len (ser_field f) + acc) 0 mid.
Proof.
  intros a b mid z H. unfold body_length_of. rewrite scan_split_ser by exact H. cbn [fst map].
  rewrite removelast_map, removelast_snoc. apply scan_pieces_len_map.
Qed.

Theorem checksum_of_ser : forall front z, Forall field_scannable (front ++ [z]) ->
  checksum_of (ser (front ++ [z])) = (fold_right (fun f acc => bytes_total (ser_field f) + acc) 0 front) mod 256.
Proof.
  intros front z H. unfold checksum_of. rewrite scan_split_ser by exact H. cbn [fst].
  rewrite removelast_map, removelast_snoc, scan_pieces_sum_map. reflexivity.
Qed.
