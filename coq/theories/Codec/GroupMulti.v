(* C13, several repeating groups in one body: a message body that is a list of segments, each segment = some plain
   body fields followed by the wire fields of one repeating group (the plain part may be empty: two groups directly
   back to back), then plain fields ps and the rest (trailer).  Parsed with a dictionary that declares every group
   like its template, each group is stored under its own tag as ONE body field, reads back through its template as
   the (canonical form of the) group written, and every plain field between / behind the groups is still found.
   Everything is derived from GroupProofs.rg_scan_group, whose continuation is the scan at top level on whatever
   follows the group - in particular the NumInGroup field of the next group. *)
From Coq Require Import ZArith List Bool Lia.
From QF Require Import Base.Res Base.Bytes Codec.FixInt Codec.Group Codec.GroupProofs.
Import ListNotations.
Open Scope Z_scope.

(* one segment of the body: plain fields `pre` (possibly none), then RepeatingGroup{t, T, g}.Write() *)
Inductive rg_seg : Type := RgSeg (pre : list rg_field) (t : Z) (T : list rg_item) (g : rg_group).
Definition rg_seg_wire (s : rg_seg) : list rg_field :=
  match s with RgSeg pre t T g => pre ++ rg_write T t g end.
Definition rg_segs_wire (segs : list rg_seg) : list rg_field := flat_map rg_seg_wire segs.

(* the hypotheses of rg_dict_message, for every segment, `tail` = what follows the last segment on the wire:
   the dictionary declares t like T; T well-formed, g fits; the first tag behind the group (the next plain field, the
   next group's NumInGroup tag, or the head of tail) is not a tag of the template tree; the group's tags are neither
   header nor trailer tags; the fields of pre are plain body fields that start no group; t does not occur again
   behind the group (FieldMap.add overwrites: the last field stored under a tag wins) *)
Fixpoint rg_segs_ok (xh xt : list Z) (msg : list rg_gdef) (segs : list rg_seg) (tail : list rg_field) : Prop :=
  match segs with
  | [] => True
  | RgSeg pre t T g :: r =>
      rg_def_lookup t msg = Some (rg_def_of_item (RgGrp t T)) /\
      rg_wf_template T = true /\ rg_fits T g = true /\
      (forall f, hd_error (rg_segs_wire r ++ tail) = Some f -> ~ In (fst f) (rg_all_tags T)) /\
      (forall x, In x (t :: rg_all_tags T) -> rg_plain xh xt x) /\
      (forall p, In p pre -> rg_plain_body_field xh xt (Some msg) p) /\
      ~ In t (map fst (rg_segs_wire r ++ tail)) /\
      rg_segs_ok xh xt msg r tail
  end.

Lemma rg_dict_segs : forall xh xt msg tail segs prefix body res,
  rg_segs_ok xh xt msg segs tail ->
  rg_scan xh xt (Some msg) RgTop (length prefix) (rg_segs_wire segs ++ tail) body = Ok res ->
  (exists body', rg_scan xh xt (Some msg) RgTop (length prefix + length (rg_segs_wire segs)) tail body' = Ok res) /\
  (forall before pre t T g after, segs = before ++ RgSeg pre t T g :: after ->
     rg_body_get_group (prefix ++ rg_segs_wire segs ++ tail) T t res = Ok (rg_canon T g)) /\
  (forall before pre t T g after p, segs = before ++ RgSeg pre t T g :: after -> In p pre ->
     rg_body_has (fst p) res = true).
Proof.
  intros xh xt msg tail segs. induction segs as [|[pre t T g] r IH]; intros prefix body res Hok H.
  - cbn [rg_segs_wire flat_map app length] in *. rewrite Nat.add_0_r. split; [exists body; exact H|].
    split; intros before; intros; destruct before; discriminate.
  - cbn [rg_segs_ok] in Hok. destruct Hok as (Hdef & Hwf & Hfit & Hpost & Hplain & Hpre & Hnt & Hok').
    cbn [rg_segs_wire flat_map rg_seg_wire] in *. fold (rg_segs_wire r) in *.
    set (post := rg_segs_wire r ++ tail) in *.
    assert (Ew : ((pre ++ rg_write T t g) ++ rg_segs_wire r) ++ tail = pre ++ rg_write T t g ++ post).
    { unfold post. rewrite <- !app_assoc. reflexivity. }
    rewrite Ew in H. pose proof H as H0.
    rewrite rg_scan_plains in H by exact Hpre.
    unfold rg_field in *. rewrite <- (app_length prefix pre) in H.
    destruct (rg_wf_follow_design T post Hwf Hpost) as [F [HwfF Hfol]].
    destruct (rg_dict_in_message xh xt msg T t g (prefix ++ pre) post _ res F Hdef HwfF Hfit Hfol Hplain Hnt H)
      as [Hcont [_ Hget]].
    match type of Hcont with rg_scan _ _ _ _ ?n _ _ = _ =>
      replace n with (length ((prefix ++ pre) ++ rg_write T t g)) in Hcont by (rewrite (app_length (prefix ++ pre)); reflexivity) end.
    destruct (IH ((prefix ++ pre) ++ rg_write T t g) _ res Hok' Hcont) as (Hc & Hg & Hp).
    unfold post in *. clear post.
    split; [|split].
    + destruct Hc as [body' Hc]. exists body'. rewrite <- Hc. f_equal. rewrite !app_length. lia.
    + intros before pre' t' T' g' after E. destruct before as [|s0 before'].
      * cbn [app] in E. inversion E; subst pre' t' T' g' after.
        repeat rewrite <- app_assoc in Hget. repeat rewrite <- app_assoc. exact Hget.
      * cbn [app] in E. injection E as E0 E1.
        specialize (Hg before' pre' t' T' g' after E1).
        repeat rewrite <- app_assoc in Hg. repeat rewrite <- app_assoc. exact Hg.
    + intros before pre' t' T' g' after p E Hin. destruct before as [|s0 before'].
      * cbn [app] in E. inversion E; subst pre' t' T' g' after.
        eapply (rg_plain_fields_found xh xt (Some msg) pre); [|exact H0 | exact Hin].
        intros q Hq. exact (Hpre q Hq).
      * cbn [app] in E. injection E as E0 E1. exact (Hp before' pre' t' T' g' after p E1 Hin).
Qed.

(* C13, parsed with the dictionary, ANY list of groups (separated by arbitrary plain fields, or by nothing):
   whole message h3 ++ seg_1 ++ ... ++ seg_n ++ ps ++ rest *)
Theorem rg_dict_message_groups : forall xh xt msg h3 segs ps rest res,
  length h3 = 3%nat ->
  rg_segs_ok xh xt msg segs (ps ++ rest) ->
  (forall p, In p ps -> rg_plain_body_field xh xt (Some msg) p) ->
  rg_scan_message xh xt (Some msg) (h3 ++ rg_segs_wire segs ++ ps ++ rest) = Ok res ->
  (forall before pre t T g after, segs = before ++ RgSeg pre t T g :: after ->
     rg_body_get_group (h3 ++ rg_segs_wire segs ++ ps ++ rest) T t res = Ok (rg_canon T g)) /\
  (forall before pre t T g after p, segs = before ++ RgSeg pre t T g :: after -> In p pre ->
     rg_body_has (fst p) res = true) /\
  (forall p, In p ps -> rg_body_has (fst p) res = true).
Proof.
  intros xh xt msg h3 segs ps rest res Hh3 Hok Hps H.
  unfold rg_scan_message in H. rewrite <- Hh3, rg_skipn_pre in H.
  destruct (rg_dict_segs xh xt msg (ps ++ rest) segs h3 [] res Hok H) as (Hc & Hg & Hp).
  split; [exact Hg|]. split; [exact Hp|].
  destruct Hc as [body' Hc]. intros p Hin.
  eapply (rg_plain_fields_found xh xt (Some msg) ps); [|exact Hc | exact Hin].
  intros q Hq. exact (Hps q Hq).
Qed.

(* the instance the differential test covered alone: two sibling groups directly back to back *)
Theorem rg_dict_message_two_groups : forall xh xt msg T1 t1 g1 T2 t2 g2 h3 pre ps rest res,
  length h3 = 3%nat ->
  rg_def_lookup t1 msg = Some (rg_def_of_item (RgGrp t1 T1)) ->
  rg_def_lookup t2 msg = Some (rg_def_of_item (RgGrp t2 T2)) ->
  rg_wf_template T1 = true -> rg_fits T1 g1 = true ->
  rg_wf_template T2 = true -> rg_fits T2 g2 = true ->
  ~ In t2 (rg_all_tags T1) ->
  (forall f, hd_error (ps ++ rest) = Some f -> ~ In (fst f) (rg_all_tags T2)) ->
  (forall x, In x (t1 :: rg_all_tags T1) -> rg_plain xh xt x) ->
  (forall x, In x (t2 :: rg_all_tags T2) -> rg_plain xh xt x) ->
  (forall p, In p (pre ++ ps) -> rg_plain_body_field xh xt (Some msg) p) ->
  ~ In t1 (map fst (rg_write T2 t2 g2 ++ ps ++ rest)) ->
  ~ In t2 (map fst (ps ++ rest)) ->
  let w := h3 ++ pre ++ rg_write T1 t1 g1 ++ rg_write T2 t2 g2 ++ ps ++ rest in
  rg_scan_message xh xt (Some msg) w = Ok res ->
  rg_body_get_group w T1 t1 res = Ok (rg_canon T1 g1) /\
  rg_body_get_group w T2 t2 res = Ok (rg_canon T2 g2) /\
  forall p, In p (pre ++ ps) -> rg_body_has (fst p) res = true.
Proof.
  intros xh xt msg T1 t1 g1 T2 t2 g2 h3 pre ps rest res Hh3 Hd1 Hd2 Hwf1 Hfit1 Hwf2 Hfit2 Hn21 Hpost2 Hpl1 Hpl2
         Hplain Hnt1 Hnt2 w H.
  set (segs := [RgSeg pre t1 T1 g1; RgSeg [] t2 T2 g2]).
  assert (Ew : w = h3 ++ rg_segs_wire segs ++ ps ++ rest).
  { unfold w, segs. cbn [rg_segs_wire flat_map rg_seg_wire app]. rewrite <- !app_assoc. reflexivity. }
  assert (Hok : rg_segs_ok xh xt msg segs (ps ++ rest)).
  { unfold segs. cbn [rg_segs_ok rg_segs_wire flat_map rg_seg_wire app]. rewrite !app_nil_r.
    split; [exact Hd1|]. split; [exact Hwf1|]. split; [exact Hfit1|].
    split.
    { intros f Hf. unfold rg_write in Hf. rewrite rg_write_val_grp in Hf. cbn [app hd_error] in Hf.
      inversion Hf; subst f. exact Hn21. }
    split; [exact Hpl1|].
    split; [intros p Hp; apply Hplain; apply in_or_app; left; exact Hp|].
    split; [exact Hnt1|].
    split; [exact Hd2|]. split; [exact Hwf2|]. split; [exact Hfit2|].
    split; [exact Hpost2|]. split; [exact Hpl2|]. split; [intros p []|]. split; [exact Hnt2|exact I]. }
  rewrite Ew in H |- *.
  destruct (rg_dict_message_groups xh xt msg h3 segs ps rest res Hh3 Hok
              (fun p Hp => Hplain p (in_or_app _ _ _ (or_intror Hp))) H) as (Hg & Hp & Hps).
  split; [exact (Hg [] pre t1 T1 g1 [RgSeg [] t2 T2 g2] eq_refl)|].
  split; [exact (Hg [RgSeg pre t1 T1 g1] [] t2 T2 g2 [] eq_refl)|].
  intros p Hin. apply in_app_or in Hin. destruct Hin as [Hin|Hin].
  - exact (Hp [] pre t1 T1 g1 [RgSeg [] t2 T2 g2] p eq_refl Hin).
  - exact (Hps p Hin).
Qed.

(* ------------------------------------------------------------------------------------------------ *)
(* Non-vacuity: NoAllocs(78) (nested, two levels) directly followed by NoPartyIDs(453), then a plain field    *)

Definition rg_ex2_tmpl : list rg_item := [RgElem 448; RgElem 447; RgGrp 802 [RgElem 523; RgElem 803]].
Definition rg_ex2_group : rg_group :=
  [ [(448, RgV [105; 49]); (447, RgV [68]); (802, RgG [ [(523, RgV [115])]; [(523, RgV [116]); (803, RgV [49])] ])];
    [(448, RgV [105; 50])] ].
Definition rg_ex2_msgdef : list rg_gdef :=
  [RgDef 11 []; RgDef 58 []; rg_def_of_item (RgGrp 78 rg_ex_tmpl); rg_def_of_item (RgGrp 453 rg_ex2_tmpl)].
Definition rg_ex2_wire : list rg_field :=
  rg_ex_h3 ++ [(11, [105])] ++ rg_write rg_ex_tmpl 78 rg_ex_group ++ rg_write rg_ex2_tmpl 453 rg_ex2_group ++
  [(58, [116])] ++ [(10, [48; 48; 48])].

Lemma rg_plain_forallb : forall xh xt l,
  forallb (fun x => negb (rg_is_header_field xh x) && negb (rg_is_trailer_field xt x)) l = true ->
  forall x, In x l -> rg_plain xh xt x.
Proof.
  intros xh xt l H x Hx. rewrite forallb_forall in H. specialize (H x Hx).
  apply andb_true_iff in H. destruct H as [Ha Hb]. apply negb_true_iff in Ha. apply negb_true_iff in Hb.
  split; assumption.
Qed.

Lemma rg_ex2_hyps :
  length rg_ex_h3 = 3%nat /\
  rg_segs_ok [] [] rg_ex2_msgdef [RgSeg [(11, [105])] 78 rg_ex_tmpl rg_ex_group; RgSeg [] 453 rg_ex2_tmpl rg_ex2_group]
             ([(58, [116])] ++ [(10, [48; 48; 48])]) /\
  (forall p, In p [(58, [116])] -> rg_plain_body_field [] [] (Some rg_ex2_msgdef) p) /\
  exists res, rg_scan_message [] [] (Some rg_ex2_msgdef) rg_ex2_wire = Ok res /\
              rg_body_get_group rg_ex2_wire rg_ex_tmpl 78 res = Ok rg_ex_group /\
              rg_body_get_group rg_ex2_wire rg_ex2_tmpl 453 res = Ok rg_ex2_group /\
              rg_body_has 58 res = true /\ rg_body_has 11 res = true /\
              rg_body_lookup 78 res = Some (4%nat, 11%nat) /\ rg_body_lookup 453 res = Some (15%nat, 8%nat).
Proof.
  split; [reflexivity|]. split.
  { cbn [rg_segs_ok].
    split; [vm_compute; reflexivity|]. split; [vm_compute; reflexivity|]. split; [vm_compute; reflexivity|].
    split; [intros f Hf; vm_compute in Hf; inversion Hf; subst f; apply rg_memb_false; vm_compute; reflexivity|].
    split; [apply (rg_plain_forallb [] [] (78 :: rg_all_tags rg_ex_tmpl)); vm_compute; reflexivity|].
    split; [intros p [Hp|[]]; subst p; split; try split; vm_compute; reflexivity|].
    split; [apply rg_memb_false; vm_compute; reflexivity|].
    split; [vm_compute; reflexivity|]. split; [vm_compute; reflexivity|]. split; [vm_compute; reflexivity|].
    split; [intros f Hf; vm_compute in Hf; inversion Hf; subst f; apply rg_memb_false; vm_compute; reflexivity|].
    split; [apply (rg_plain_forallb [] [] (453 :: rg_all_tags rg_ex2_tmpl)); vm_compute; reflexivity|].
    split; [intros p []|].
    split; [apply rg_memb_false; vm_compute; reflexivity|exact I]. }
  split.
  { intros p [Hp|[]]; subst p; split; try split; vm_compute; reflexivity. }
  eexists. split; [vm_compute; reflexivity|]. repeat split; vm_compute; reflexivity.
Qed.

(* ------------------------------------------------------------------------------------------------ *)
(* every wire field of a written group carries the group's tag or a tag of the template tree           *)

Lemma rg_tags_all_tags : forall T x, In x (rg_tags T) -> In x (rg_all_tags T).
Proof.
  intros T x H. unfold rg_tags in H. apply in_map_iff in H. destruct H as [it [E Hin]].
  unfold rg_all_tags. apply in_flat_map. exists it. split; [exact Hin|]. rewrite <- E. apply rg_item_tag_all.
Qed.

Lemma rg_write_val_tags : forall v T t f, rg_fits_val T v = true -> In f (rg_write_val T t v) ->
  fst f = t \/ In (fst f) (rg_all_tags T).
Proof.
  apply (rg_val_ind' (fun v => forall T t f, rg_fits_val T v = true -> In f (rg_write_val T t v) ->
                                  fst f = t \/ In (fst f) (rg_all_tags T))).
  - intros b T t f _ [Hf|[]]. subst f. left. reflexivity.
  - intros g IH T t f Hfit Hin. rewrite rg_write_val_grp in Hin. destruct Hin as [Hf|Hin]; [subst f; left; reflexivity|].
    right. rewrite rg_fits_val_grp in Hfit. apply andb_true_iff in Hfit. destruct Hfit as [_ Hents].
    unfold rg_write_entries in Hin. apply in_flat_map in Hin. destruct Hin as [e [He Hin]].
    unfold rg_write_entry, rg_wfields in Hin. apply in_flat_map in Hin. destruct Hin as [p [Hp Hin]].
    assert (Hpe : In p e) by (eapply Permutation.Permutation_in; [apply rg_sort_perm|exact Hp]).
    rewrite forallb_forall in Hents. specialize (Hents e He). unfold rg_entry_fit in Hents.
    apply andb_true_iff in Hents. destruct Hents as [_ Hitems]. rewrite forallb_forall in Hitems. specialize (Hitems p Hpe).
    pose proof (rg_tags_all_tags T _ (rg_item_fit_in T p Hitems)) as Hpt.
    rewrite Forall_forall in IH. specialize (IH e He). rewrite Forall_forall in IH. specialize (IH p Hpe).
    unfold rg_wfrag, rg_sub_template in Hin. unfold rg_item_fit in Hitems.
    destruct (rg_find_item T (fst p)) as [[te|tg sub]|] eqn:Ef; [| |discriminate].
    + destruct (snd p) as [b|g'] eqn:Ev; [|discriminate]. destruct Hin as [Hf|[]]. subst f. exact Hpt.
    + destruct (snd p) as [b|g'] eqn:Ev; [discriminate|].
      destruct (IH sub (fst p) f Hitems Hin) as [E|Hin']; [rewrite E; exact Hpt|].
      apply (rg_all_tags_find T (fst p) _ Ef). cbn [rg_item_all_tags]. right. exact Hin'.
Qed.

Lemma rg_write_tags : forall T t g f, rg_fits T g = true -> In f (rg_write T t g) -> In (fst f) (t :: rg_all_tags T).
Proof.
  intros T t g f Hfit Hin. destruct (rg_write_val_tags (RgG g) T t f Hfit Hin) as [E|H]; [left; symmetry; exact E|right; exact H].
Qed.
