(* The independent specification side of the codec properties (DESIGN 4.1, C10, C11):
     scan            an independent tag=value scanner (split at SOH, then at the first '=', tag must be [0-9]+)
     body_length_of  byte count between the BodyLength field and the CheckSum field
     checksum_of     byte sum modulo 256 of everything before the CheckSum field
     c10_*           operation programs on a message, their abstract meaning (three finite maps), and the boolean
                     well-formedness predicate c10_wf evaluated on the bytes an implementation built
     c11_*           serialisation of a field list, wire_ok, and the boolean fidelity predicate
   Nothing here mentions the model of the Go code (only Base.Bytes and the FIX tables of Spec/FixStd.v). *)
From Coq Require Import ZArith List Bool.
From QF Require Import Base.Bytes Spec.FixStd.
Import ListNotations.
Open Scope Z_scope.

(* ---------- scanner ---------- *)
(* complete SOH-terminated pieces (without their SOH) and the unterminated rest *)
Fixpoint scan_split (bs : bytes) : list bytes * bytes :=
  match bs with
  | [] => ([], [])
  | b :: r =>
      let '(ps, rest) := scan_split r in
      if b =? SOH then ([] :: ps, rest)
      else match ps with
           | [] => ([], b :: rest)
           | p :: ps' => ((b :: p) :: ps', rest)
           end
  end.

(* decimal value of a digit string, most significant digit first *)
Fixpoint scan_dec (d : bytes) (acc : Z) : Z :=
  match d with
  | [] => acc
  | c :: r => scan_dec r (acc * 10 + (c - 48))
  end.

Definition scan_field (p : bytes) : option (Z * bytes) :=
  match index_byte EQ p with
  | None => None
  | Some i =>
      let t := firstn i p in
      match t with
      | [] => None
      | _ => if forallb is_digit t then Some (scan_dec t 0, skipn (S i) p) else None
      end
  end.

Fixpoint scan_all (ps : list bytes) : option (list (Z * bytes)) :=
  match ps with
  | [] => Some []
  | p :: r => match scan_field p, scan_all r with
              | Some f, Some fs => Some (f :: fs)
              | _, _ => None
              end
  end.

Definition scan (bs : bytes) : option (list (Z * bytes)) :=
  match scan_split bs with
  | (ps, []) => scan_all ps
  | _ => None
  end.

(* bytes of the pieces strictly between the second piece (BodyLength) and the last piece (CheckSum), SOHs included *)
Definition scan_pieces_len (ps : list bytes) : Z := fold_right (fun p acc => len p + 1 + acc) 0 ps.
Definition scan_pieces_sum (ps : list bytes) : Z := fold_right (fun p acc => bytes_total p + SOH + acc) 0 ps.
Definition body_length_of (bs : bytes) : Z :=
  match fst (scan_split bs) with
  | _ :: _ :: rest => scan_pieces_len (removelast rest)
  | _ => 0
  end.
Definition checksum_of (bs : bytes) : Z := (scan_pieces_sum (removelast (fst (scan_split bs)))) mod 256.

(* ---------- serialisation of a field list (the wire format itself) ---------- *)
Definition ser_field (f : Z * bytes) : bytes := itoa (fst f) ++ [EQ] ++ snd f ++ [SOH].
Definition ser (fs : list (Z * bytes)) : bytes := concat (map ser_field fs).

Definition soh_free (v : bytes) : bool := forallb (fun b => negb (b =? SOH)) v.

(* ================= C10 ================= *)
Inductive c10_sec : Type := SecHeader | SecBody | SecTrailer.

Inductive c10_op : Type :=
| OpSet (s : c10_sec) (t : Z) (v : bytes)                      (* SetBytes / SetField / SetString / Set / SetInt / SetBool *)
| OpRemove (s : c10_sec) (t : Z)
| OpClear (s : c10_sec)
| OpSetGroup (s : c10_sec) (t : Z) (template : list Z) (entries : list (list (Z * bytes)))
                                                               (* SetGroup of a RepeatingGroup; each entry's fields listed in template order *)
| OpCopy (junk : list (c10_sec * Z * bytes))                   (* m.CopyInto(to) where `to` already holds the junk fields; go on with `to` *)
| OpBuild.                                                     (* an intermediate String() call *)

(* abstract meaning: per section a finite map  tag -> (value, group members) *)
Definition c10_entry : Type := (bytes * list (Z * bytes))%type.
Definition c10_map : Type := list (Z * c10_entry).
Record c10_abs : Type := mk_abs { abs_h : c10_map; abs_b : c10_map; abs_t : c10_map }.

Fixpoint c10_find (m : c10_map) (t : Z) : option c10_entry :=
  match m with
  | [] => None
  | (k, e) :: r => if k =? t then Some e else c10_find r t
  end.
Definition c10_del (m : c10_map) (t : Z) : c10_map := filter (fun ke => negb (fst ke =? t)) m.
Definition c10_put (m : c10_map) (t : Z) (e : c10_entry) : c10_map := (t, e) :: c10_del m t.

Definition abs_get (a : c10_abs) (s : c10_sec) : c10_map :=
  match s with SecHeader => abs_h a | SecBody => abs_b a | SecTrailer => abs_t a end.
Definition abs_upd (a : c10_abs) (s : c10_sec) (m : c10_map) : c10_abs :=
  match s with
  | SecHeader => mk_abs m (abs_b a) (abs_t a)
  | SecBody => mk_abs (abs_h a) m (abs_t a)
  | SecTrailer => mk_abs (abs_h a) (abs_b a) m
  end.
Definition abs_empty : c10_abs := mk_abs [] [] [].

(* the NumInGroup value of a group write: decimal count of entries *)
Definition c10_group_entry (entries : list (list (Z * bytes))) : c10_entry :=
  (itoa (Z.of_nat (length entries)), concat entries).

Definition c10_abs_op (a : c10_abs) (o : c10_op) : c10_abs :=
  match o with
  | OpSet s t v => abs_upd a s (c10_put (abs_get a s) t (v, []))     (* the latest value; a scalar has no members *)
  | OpRemove s t => abs_upd a s (c10_del (abs_get a s) t)
  | OpClear s => abs_upd a s []
  | OpSetGroup s t _ entries => abs_upd a s (c10_put (abs_get a s) t (c10_group_entry entries))
  | OpCopy _ => a                                                    (* the copy is the same message *)
  | OpBuild => a                                                     (* building does not change what is set (9, 10 are derived) *)
  end.
Definition c10_abs_run (ops : list c10_op) : c10_abs := fold_left c10_abs_op ops abs_empty.

(* the live top-level tags: what is set, plus the derived BodyLength and CheckSum *)
Definition c10_live (a : c10_abs) (t : Z) : option (Z * c10_entry) :=   (* section code 0/1/2 and entry *)
  match c10_find (abs_h a) t with
  | Some e => Some (0, e)
  | None => if t =? TAG_BODY_LENGTH then Some (0, ([], [])) else
      match c10_find (abs_b a) t with
      | Some e => Some (1, e)
      | None =>
          match c10_find (abs_t a) t with
          | Some e => Some (2, e)
          | None => if t =? TAG_CHECK_SUM then Some (2, ([], [])) else None
          end
      end
  end.

Definition c10_pair_eqb (x y : Z * bytes) : bool := (fst x =? fst y) && beq_bytes (snd x) (snd y).
Definition c10_derived (t : Z) : bool := (t =? TAG_BODY_LENGTH) || (t =? TAG_CHECK_SUM).

(* walk the scanned fields: at top level the tag must be live with its latest value (9 and 10 are checked
   separately), followed by exactly its group members.  Result: the top-level (section, tag) sequence, and a failure
   code (0 none, 4 field that is not set, 5 not the latest value, 6 group members differ). *)
Fixpoint c10_walk (a : c10_abs) (fs : list (Z * bytes)) (members : list (Z * bytes)) : list (Z * Z) * Z :=
  match fs with
  | [] => ([], match members with [] => 0 | _ => 6 end)
  | f :: r =>
      match members with
      | x :: members' => if c10_pair_eqb f x then c10_walk a r members' else ([], 6)
      | [] =>
          match c10_live a (fst f) with
          | None => ([], 4)
          | Some (sec, (v, ms)) =>
              if c10_derived (fst f) || beq_bytes (snd f) v
              then let '(tops, code) := c10_walk a r (if c10_derived (fst f) then [] else ms) in ((sec, fst f) :: tops, code)
              else ([], 5)
          end
      end
  end.

Fixpoint c10_nodup (l : list Z) : bool :=
  match l with
  | [] => true
  | x :: r => negb (existsb (Z.eqb x) r) && c10_nodup r
  end.
Fixpoint c10_nondecreasing (l : list Z) : bool :=
  match l with
  | x :: ((y :: _) as r) => (x <=? y) && c10_nondecreasing r
  | _ => true
  end.
Definition c10_keys (a : c10_abs) : list Z :=
  TAG_BODY_LENGTH :: TAG_CHECK_SUM :: map fst (abs_h a) ++ map fst (abs_b a) ++ map fst (abs_t a).
Definition c10_value_of (fs : list (Z * bytes)) (t : Z) : bytes :=
  match find (fun f => fst f =? t) fs with Some f => snd f | None => [] end.

(* The well-formedness predicate of C10 on built bytes `bs` for a message whose set fields are `a`.
   0 = well-formed; otherwise the first failing clause:
   1 scan, 2 leading 8,9,35 / trailing 10, 3 duplicate-field, 4 stale-field, 5 value, 6 group-members, 7 missing-field,
   8 section-order, 9 bodylength, 10 checksum *)
Definition c10_wf (bs : bytes) (a : c10_abs) : Z :=
  match scan bs with
  | None => 1
  | Some fs =>
      let '(tops, code) := c10_walk a fs [] in
      let tags := map snd tops in
      if negb (code =? 0) then code
      else if negb (c10_nodup tags) then 3
      else if negb (forallb (fun k => existsb (Z.eqb k) tags) (c10_keys a)) then 7
      else if negb (match tags with 8 :: 9 :: 35 :: _ => true | _ => false end && (last tags 0 =? TAG_CHECK_SUM)) then 2
      else if negb (c10_nondecreasing (map fst tops)) then 8
      else if negb (beq_bytes (c10_value_of fs TAG_BODY_LENGTH) (itoa (body_length_of bs))) then 9
      else if negb (beq_bytes (c10_value_of fs TAG_CHECK_SUM) (itoa_pad 3 (checksum_of bs))) then 10
      else 0
  end.

(* proper use of the API (the hypothesis of C10): every tag (a positive number) is used in the section it belongs to
   (9 and 10 may be set by hand: they are overwritten when the message is built); values are SOH-free bytes;
   a repeating group is not set on a framing tag (8, 9, 35, 10), each of its entries starts with the delimiter (first
   template tag) and holds body-section tags of the template *)
Definition c10_val_ok (v : bytes) : bool := forallb (fun b => (0 <=? b) && (b <? 256) && negb (b =? SOH)) v.
Definition c10_tag_in_sec (s : c10_sec) (t : Z) : bool :=
  (0 <? t) && (t <? 1000000000000000000) &&
  match s with
  | SecHeader => fixstd_is_header t
  | SecTrailer => fixstd_is_trailer t
  | SecBody => fixstd_is_body t
  end.
Definition c10_framing (t : Z) : bool :=
  (t =? TAG_BEGIN_STRING) || (t =? TAG_BODY_LENGTH) || (t =? TAG_MSG_TYPE) || (t =? TAG_CHECK_SUM).
Definition c10_member_ok (f : Z * bytes) : bool :=
  (0 <? fst f) && (fst f <? 1000000000000000000) && fixstd_is_body (fst f) && c10_val_ok (snd f).
Definition c10_entry_ok (template : list Z) (e : list (Z * bytes)) : bool :=
  match e, template with
  | f :: _, d :: _ => (fst f =? d) && forallb (fun f => c10_member_ok f && existsb (Z.eqb (fst f)) template) e
  | _, _ => false
  end.
(* `strict` additionally excludes a scalar set on a tag that currently holds repeating-group members.  It is NOT a
   hypothesis of any theorem any more (getOrCreate now truncates the stored slice); it only labels that class of
   programs for the correspondence driver, so that a regression (stale members left on the wire) is reported under
   its own signature stale-group-members-after-scalar-set. *)
Definition c10_op_ok (strict : bool) (a : c10_abs) (o : c10_op) : bool :=
  match o with
  | OpSet s t v => c10_tag_in_sec s t && c10_val_ok v &&
                   (negb strict || match c10_find (abs_get a s) t with Some (_, _ :: _) => false | _ => true end)
  | OpRemove s t => true
  | OpClear s => true
  | OpSetGroup s t template entries => c10_tag_in_sec s t && negb (c10_framing t) && forallb (c10_entry_ok template) entries
  | OpCopy _ => true
  | OpBuild => true
  end.
Fixpoint c10_ops_ok (strict : bool) (a : c10_abs) (ops : list c10_op) : bool :=
  match ops with
  | [] => true
  | o :: r => c10_op_ok strict a o && c10_ops_ok strict (c10_abs_op a o) r
  end.
Definition c10_has (a : c10_abs) (s : c10_sec) (t : Z) : bool :=
  match c10_find (abs_get a s) t with Some _ => true | None => false end.
Definition c10_proper_gen (strict : bool) (ops : list c10_op) : bool :=
  c10_ops_ok strict abs_empty ops &&
  c10_has (c10_abs_run ops) SecHeader TAG_BEGIN_STRING && c10_has (c10_abs_run ops) SecHeader TAG_MSG_TYPE.
(* the hypothesis of C10 as the property states it *)
Definition c10_proper (ops : list c10_op) : bool := c10_proper_gen false ops.
(* classifier only: programs without a scalar set over a live repeating group *)
Definition c10_proper_strict (ops : list c10_op) : bool := c10_proper_gen true ops.

(* ================= C11 ================= *)
Definition c11_tag_ok (t : Z) : bool := (0 <? t) && (t <? 1000000000000000000).

(* values SOH-free, except an XMLData (213) value directly after an XMLDataLen (212) field giving its exact length *)
Fixpoint c11_values_ok (prev_xml_len : option Z) (fs : list (Z * bytes)) : bool :=
  match fs with
  | [] => true
  | (t, v) :: r =>
      (match prev_xml_len with
       | Some n => (0 <? n) && (len v =? n)           (* the field after 212=n (n > 0) is taken as n raw bytes, whatever its tag *)
       | None => soh_free v
       end) &&
      (if t =? TAG_XML_DATA_LEN
       then match prev_xml_len with
            | Some _ => false                                 (* a 212 field cannot itself be the raw data *)
            | None => forallb is_digit v && Nat.leb 1 (length v) && Nat.leb (length v) 9 &&
                      c11_values_ok (if 0 <? scan_dec v 0 then Some (scan_dec v 0) else None) r
            end
       else c11_values_ok None r)
  end.

(* length that BodyLength must announce: every field except 8, 9, 10 *)
Definition c11_counts (t : Z) : bool := negb ((t =? TAG_BEGIN_STRING) || (t =? TAG_BODY_LENGTH) || (t =? TAG_CHECK_SUM)).
Definition c11_body_length (fs : list (Z * bytes)) : Z :=
  fold_right (fun f acc => (if c11_counts (fst f) then len (ser_field f) else 0) + acc) 0 fs.

(* framing without the BodyLength value: 8, 9, 35 first; tags positive decimals; values as above; 10 last and nowhere
   else; no second BodyLength field *)
Definition c11_framed (fs : list (Z * bytes)) : bool :=
  match fs with
  | f1 :: f2 :: f3 :: rest =>
      (fst f1 =? TAG_BEGIN_STRING) && (fst f2 =? TAG_BODY_LENGTH) && (fst f3 =? TAG_MSG_TYPE) &&
      forallb (fun f => c11_tag_ok (fst f)) fs &&
      c11_values_ok None fs &&
      (match rev rest with
       | z :: mid => (fst z =? TAG_CHECK_SUM) &&
                     forallb (fun f => negb (fst f =? TAG_CHECK_SUM) && negb (fst f =? TAG_BODY_LENGTH)) mid
       | [] => false
       end)
  | _ => false
  end.

Definition c11_wire_ok (fs : list (Z * bytes)) : bool :=
  c11_framed fs &&
  match fs with
  | _ :: (_, v9) :: _ =>
      beq_bytes v9 (itoa (c11_body_length fs)) && (c11_body_length fs <? 9223372036854775808)   (* shorter than 2^63 bytes *)
  | _ => false
  end.

(* last occurrence wins *)
Fixpoint c11_last_value (fs : list (Z * bytes)) (t : Z) : option bytes :=
  match fs with
  | [] => None
  | (k, v) :: r => match c11_last_value r t with
                   | Some x => Some x
                   | None => if k =? t then Some v else None
                   end
  end.

(* section a tag belongs to, given the extra header / trailer tags of a transport dictionary: 0 header, 1 body, 2 trailer *)
Definition c11_section_of (extra_h extra_t : list Z) (t : Z) : Z :=
  if fixstd_is_header t || fixstd_mem t extra_h then 0
  else if fixstd_is_trailer t || fixstd_mem t extra_t then 2 else 1.

(* ---------- predicates on what an implementation was observed to do (evaluated by the correspondence driver) ---------- *)
(* the contents of a section's map: (key, [(tag, value) of each stored TagValue]) *)
Definition obs_entries : Type := list (Z * list (Z * bytes)).
Fixpoint obs_find (es : obs_entries) (t : Z) : option (list (Z * bytes)) :=
  match es with
  | [] => None
  | (k, tvs) :: r => if k =? t then Some tvs else obs_find r t
  end.
Fixpoint c10_pairs_eqb (x y : list (Z * bytes)) : bool :=
  match x, y with
  | [], [] => true
  | a :: x', b :: y' => c10_pair_eqb a b && c10_pairs_eqb x' y'
  | _, _ => false
  end.

(* C10, "parsing those bytes yields the same fields and values": for a message without repeating groups every set
   field is found in its section with its value and nothing else is (9 and 10 aside, they are derived) *)
Definition c10_flat (a : c10_abs) : bool :=
  forallb (fun ke => match snd (snd ke) with [] => true | _ => false end) (abs_h a ++ abs_b a ++ abs_t a).
Definition c10_sec_matches (m : c10_map) (es : obs_entries) : bool :=
  forallb (fun ke => c10_derived (fst ke) ||
                     match obs_find es (fst ke) with Some tvs => c10_pairs_eqb tvs [(fst ke, fst (snd ke))] | None => false end) m &&
  forallb (fun e => c10_derived (fst e) || match c10_find m (fst e) with Some _ => true | None => false end) es.
Definition c10_parse_back_ok (a : c10_abs) (h b t : obs_entries) : bool :=
  negb (c10_flat a) || (c10_sec_matches (abs_h a) h && c10_sec_matches (abs_b a) b && c10_sec_matches (abs_t a) t).

(* C11 observation of a successful parse *)
Record c11_obs : Type := mk_c11_obs {
  o_h : obs_entries; o_b : obs_entries; o_t : obs_entries;
  o_fields : list (Z * bytes * bytes);        (* Message.fields: tag, value, raw bytes *)
  o_body_bytes : bytes;
  o_raw : bytes
}.
Definition c11_field_eqb (x : Z * bytes * bytes) (f : Z * bytes) : bool :=
  (fst (fst x) =? fst f) && beq_bytes (snd (fst x)) (snd f) && beq_bytes (snd x) (ser_field f).
Fixpoint c11_fields_match (xs : list (Z * bytes * bytes)) (fs : list (Z * bytes)) : bool :=
  match fs, xs with
  | [], _ => forallb (fun x => (fst (fst x) =? 0) && beq_bytes (snd (fst x)) [] && beq_bytes (snd x) []) xs
  | f :: fs', x :: xs' => c11_field_eqb x f && c11_fields_match xs' fs'
  | _ :: _, [] => false
  end.
Definition c11_retrievable (fs : list (Z * bytes)) (extra_h extra_t : list Z) (o : c11_obs) (ad_tags : option (list Z)) (t : Z) : bool :=
  let sec := c11_section_of extra_h extra_t t in
  if match ad_tags with Some ts => (sec =? 1) || fixstd_mem t ts | None => false end then true else
  match c11_last_value fs t with
  | None => true
  | Some v =>
      match obs_find (if sec =? 0 then o_h o else if sec =? 2 then o_t o else o_b o) t with
      | Some (x :: _) => c10_pair_eqb x (t, v)
      | _ => false
      end
  end.

(* C11 on a generated field list: 0 = as the property says (or the list is not wire_ok, nothing claimed);
   1 well-formed message rejected, 2 raw bytes changed, 3 field order / content differs, 4 a field is not retrievable
   from its section with its wire value, 8 a section exposes a tag that is not on the wire ("exposes exactly what is on the
   wire": nothing left over from an earlier use of the Message object).  With an application dictionary (ad_tags = every tag it mentions) body fields
   and the tags it mentions may be gathered into repeating groups, so only the other header / trailer fields are
   looked up then. *)
Definition c11_check_fields (fs : list (Z * bytes)) (extra_h extra_t : list Z) (ad_tags : option (list Z)) (obs : option c11_obs) : Z :=
  if negb (c11_wire_ok fs) then 0 else
  match obs with
  | None => 1
  | Some o =>
      if negb (beq_bytes (o_raw o) (ser fs)) then 2
      else if negb (c11_fields_match (o_fields o) fs) then 3
      else if negb (forallb (c11_retrievable fs extra_h extra_t o ad_tags) (map fst fs)) then 4
      else if negb (forallb (fun e => fixstd_mem (fst e) (map fst fs)) (o_h o ++ o_b o ++ o_t o)) then 8
      else 0
  end.

(* C11 on arbitrary bytes that the plain scanner can read (no XMLDataLen among the tags): 5 = accepted although the first
   three tags are not 8, 9, 35;  6 = accepted although BodyLength disagrees with the content *)
Definition c11_declared (v : bytes) : option Z :=
  match v with
  | [] => None
  | _ => if forallb is_digit v then Some (scan_dec v 0) else None
  end.
Definition c11_lead_ok (fs : list (Z * bytes)) : bool :=
  match fs with (8, _) :: (9, _) :: (35, _) :: _ => true | _ => false end.
Definition c11_check_raw (raw : bytes) (accepted : bool) : Z :=
  if negb accepted then 0 else
  match scan raw with
  | None => 0
  | Some fs =>
      if existsb (fun f => fst f =? TAG_XML_DATA_LEN) fs then 0
      else if negb (c11_lead_ok fs) then 5
      else match fs with
           | _ :: (_, v9) :: rest =>
               let mid := removelast rest in     (* the third field up to the one before the last *)
               if negb (fst (last rest (0, [])) =? TAG_CHECK_SUM) then 0
               else if existsb (fun f => (fst f =? TAG_CHECK_SUM) || (fst f =? TAG_BODY_LENGTH)) mid then 0
               else if negb (beq_bytes (ser fs) raw) then 0   (* a tag not in canonical decimal form ("0411"): lengths are the wire's, nothing claimed *)
               else match c11_declared v9 with
                    | Some n => if n =? c11_body_length fs then 0 else 6
                    | None => 6
                    end
           | _ => 0
           end
  end.
