(* C11, second half ("a message whose BodyLength disagrees with its content is rejected") for messages in which
   repeating groups of the application dictionary start - well-formed for the dictionary or not.

   1. rg_scan_framed_ok: on a field list that ends with CheckSum the field-level scan Group.rg_scan always ends with Ok
      (whatever the dictionary, the mode, the groups): so the simulation ParseGroupProofs.sim_all applies to EVERY framed
      message, not only to those whose groups are well-formed.
   2. parse_framed_any: every framed message (MsgType once) is parsed up to the final BodyLength comparison with the
      header holding the wire's header fields and the field array the wire's fields, for any transport dictionary, any
      application dictionary (none; MsgType unknown to it; MsgType known), provided the group member lists of the
      message definition hold no header / trailer tag (dict_body_only).
   3. parse_rejects_wrong_body_length_any: hence the rejection.  *)
From Coq Require Import ZArith List Bool Lia ZifyBool.
From QF Require Import Base.Res Base.Bytes Codec.FixInt Codec.FixIntProofs Codec.TagValue Codec.TagValueProofs
  Codec.FieldMap Codec.FieldMapProofs Codec.Build Codec.Parse Codec.Scan Codec.ScanProofs Spec.FixStd
  Codec.ParseProofs Codec.Group Codec.GroupProofs Codec.GroupMulti Codec.ParseGroupProofs.
Import ListNotations.
Open Scope Z_scope.

(* ------------------------------------------------------------------------------------------------ *)
(* The field-level scan of a list that ends with CheckSum never fails                                  *)

Lemma rg_scan_nil_in_10 : forall xh xt msg dt s l rpath i body,
  rg_scan xh xt msg (RgIn dt s l rpath RG_CHECKSUM) i [] body = Ok (body ++ [(dt, s, l)]).
Proof. reflexivity. Qed.

Lemma rg_scan_framed_ok : forall xh xt m rest, rest <> [] -> fst (last rest (0, [])) = RG_CHECKSUM ->
  forall mode i body, exists res, rg_scan xh xt (Some m) mode i rest body = Ok res.
Proof.
  intros xh xt m. induction rest as [|[t v] rest' IH]; intros Hne Hlast mode i body; [congruence|].
  destruct rest' as [|g r].
  - (* the CheckSum field itself *)
    cbn [last fst] in Hlast. subst t.
    destruct mode as [|dt s l rpath lt].
    + rewrite rg_scan_top_cons. cbv zeta. rewrite Z.eqb_refl.
      destruct (rg_is_header_field xh RG_CHECKSUM); [eexists; reflexivity|].
      destruct (rg_is_trailer_field xt RG_CHECKSUM); [eexists; reflexivity|].
      destruct (rg_is_num_in_group m [RG_CHECKSUM]); [|eexists; reflexivity].
      rewrite rg_scan_nil_in_10. eexists; reflexivity.
    + rewrite rg_scan_in_cons. cbv zeta. rewrite Z.eqb_refl.
      destruct (rg_is_group_member RG_CHECKSUM (rg_get_group_fields m (rev rpath))).
      { destruct (rg_is_num_in_group m (rev rpath ++ [RG_CHECKSUM])); rewrite rg_scan_nil_in_10; eexists; reflexivity. }
      destruct (rg_is_header_field xh RG_CHECKSUM); [eexists; reflexivity|].
      destruct (rg_is_trailer_field xt RG_CHECKSUM); [eexists; reflexivity|].
      destruct (rg_walk_up m RG_CHECKSUM rpath) as [inp rpath'].
      destruct inp.
      { destruct (rg_is_num_in_group m (rev rpath' ++ [RG_CHECKSUM])); rewrite rg_scan_nil_in_10; eexists; reflexivity. }
      destruct (rg_is_num_in_group m [RG_CHECKSUM]); [rewrite rg_scan_nil_in_10|]; eexists; reflexivity.
  - assert (Hne' : g :: r <> []) by discriminate.
    assert (Hlast' : fst (last (g :: r) (0, [])) = RG_CHECKSUM) by exact Hlast.
    pose proof (IH Hne' Hlast') as IH'.
    assert (Hafter : forall body', exists res,
              (if t =? RG_CHECKSUM then Ok body' else rg_scan xh xt (Some m) RgTop (S i) (g :: r) body') = Ok res).
    { intros body'. destruct (t =? RG_CHECKSUM); [eexists; reflexivity|apply IH']. }
    destruct mode as [|dt s l rpath lt].
    + rewrite rg_scan_top_cons. cbv zeta.
      destruct (rg_is_header_field xh t); [apply Hafter|].
      destruct (rg_is_trailer_field xt t); [apply Hafter|].
      destruct (rg_is_num_in_group m [t]); [apply IH'|apply Hafter].
    + rewrite rg_scan_in_cons. cbv zeta.
      destruct (rg_is_group_member t (rg_get_group_fields m (rev rpath))).
      { destruct (rg_is_num_in_group m (rev rpath ++ [t])); apply IH'. }
      destruct (rg_is_header_field xh t); [apply Hafter|].
      destruct (rg_is_trailer_field xt t); [apply Hafter|].
      destruct (rg_walk_up m t rpath) as [inp rpath'].
      destruct inp.
      { destruct (rg_is_num_in_group m (rev rpath' ++ [t])); apply IH'. }
      destruct (rg_is_num_in_group m [t]); [apply IH'|apply Hafter].
Qed.

(* ------------------------------------------------------------------------------------------------ *)
(* Every framed message is parsed up to the BodyLength comparison                                      *)

(* what the rejection needs of the message just before the comparison *)
Definition c11_before_check (td : option transport_dict) (fs : list (Z * bytes)) (m : message) : Prop :=
  m_fields m = map init_of fs /\
  m_header m = fold_left (addH td) fs hdr0 /\
  m_trailer m = fold_left (addT td) fs trl0 /\
  m_raw m = Some (ser fs).

(* the message definition the parser works with: the dictionary's entry for the MsgType, nothing otherwise *)
Definition ad_defs_of (ad : option app_dict) (mt : bytes) : list gdef :=
  match ad with
  | Some d => match ad_find mt d with Some defs => defs | None => [] end
  | None => []
  end.

Lemma ad_defs_of_as : forall d mt, ad_defs_as d mt (ad_defs_of (Some d) mt).
Proof.
  intros d mt. unfold ad_defs_of. destruct (ad_find mt d) as [defs|] eqn:E.
  - apply ad_defs_as_some. exact E.
  - apply ad_defs_as_none. exact E.
Qed.

Lemma parse_framed_any : forall fs td ad mt v8 v9 mid,
  c11_framed fs = true -> fs = (8, v8) :: (9, v9) :: (35, mt) :: mid -> ~ In TAG_MSG_TYPE (map fst mid) ->
  dict_body_only td (ad_defs_of ad mt) ->
  exists m, c11_before_check td fs m /\
    do_parsing (ser fs) td ad =
      match fm_get_int (m_header m) TAG_BODY_LENGTH with
      | Ok bl => if c11_body_length fs =? bl then Ok m else Err E_BODY_LENGTH
      | Err _ => Err E_BODY_LENGTH_FIELD
      | Panic => Panic
      | OutOfFuel => OutOfFuel
      end.
Proof.
  intros fs td ad mt v8 v9 mid Hfr Efs Hn35 Hdict.
  destruct ad as [d|].
  - (* an application dictionary *)
    destruct (c11_framed_shape fs Hfr) as (v8' & v9' & v35 & mid' & v10 & Efs' & _ & _ & _).
    assert (Emid : mid = mid' ++ [(10, v10)]) by (rewrite Efs in Efs'; inversion Efs'; reflexivity).
    destruct (rg_scan_framed_ok (td_xh td) (td_xt td) (map gdef_rg (ad_defs_of (Some d) mt)) mid) with (mode := RgTop) (i := 3%nat) (body := @nil rg_badd)
      as [res Hscan].
    { rewrite Emid. destruct mid'; discriminate. }
    { rewrite Emid, last_last. reflexivity. }
    destruct (do_parsing_framed_groups_gen fs td d mt _ v8 v9 mid res Hfr Efs Hn35 (ad_defs_of_as d mt) Hdict Hscan)
      as (m & Hfin & Hdo).
    exists m. split; [|exact Hdo].
    destruct Hfin as (F1 & F2 & F3 & F4 & F5). unfold c11_before_check. repeat split; assumption.
  - (* no application dictionary: no group ever starts *)
    destruct (do_parsing_framed fs td None Hfr (ad_no_group_start_none fs)) as (m & Hfin & Hdo).
    exists m. split; [|exact Hdo].
    destruct Hfin as (F1 & F2 & F3 & F4 & F5). unfold c11_before_check. repeat split; assumption.
Qed.

(* ------------------------------------------------------------------------------------------------ *)
(* Rejection of a wrong BodyLength                                                                     *)

Lemma header_body_length : forall td fs v8 v9 v35 mid v10,
  fs = (8, v8) :: (9, v9) :: (35, v35) :: mid ++ [(10, v10)] ->
  Forall (fun f => fst f <> TAG_CHECK_SUM /\ fst f <> TAG_BODY_LENGTH) mid ->
  fm_get_bytes (fold_left (addH td) fs hdr0) TAG_BODY_LENGTH = Ok v9.
Proof.
  intros td fs v8 v9 v35 mid v10 Efs Hmid.
  unfold fm_get_bytes. rewrite addH_cond, fold_cond_add_lookup.
  replace (is_header_field TAG_BODY_LENGTH td) with true by reflexivity.
  rewrite Efs, (framed_body_length_value v8 v9 v35 mid v10 Hmid). reflexivity.
Qed.

(* the BodyLength comparison fails unless the 9 field is the decimal byte count *)
Lemma body_length_check_rejects : forall (fs : list (Z * bytes)) (m : message) v8 v9 v35 mid v10,
  fs = (8, v8) :: (9, v9) :: (35, v35) :: mid ++ [(10, v10)] ->
  fm_get_bytes (m_header m) TAG_BODY_LENGTH = Ok v9 ->
  c11_declared v9 <> Some (c11_body_length fs) ->
  exists e, match fm_get_int (m_header m) TAG_BODY_LENGTH with
            | Ok bl => if c11_body_length fs =? bl then Ok m else Err E_BODY_LENGTH
            | Err _ => Err E_BODY_LENGTH_FIELD
            | Panic => Panic
            | OutOfFuel => OutOfFuel
            end = Err e.
Proof.
  intros fs m v8 v9 v35 mid v10 Efs Hr Hdecl.
  unfold fm_get_int. rewrite Hr. cbn [bind]. unfold fix_int_read.
  destruct (atoi_total v9) as [T1 T2]. destruct (atoi v9) as [bl|e| |] eqn:Ea; try congruence; [|eauto].
  destruct (c11_body_length fs =? bl) eqn:Eq; [|eauto]. exfalso. assert (bl = c11_body_length fs) by lia. subst bl.
  apply atoi_ok_iff in Ea. unfold int_read_spec in Ea.
  destruct (int_grammar v9) eqn:Eg; cbn [andb] in Ea; [|discriminate]. destruct (in_int64b (int_value v9)); [|discriminate].
  inversion Ea as [Ev]. clear Ea.
  (* the announced number is positive: the MsgType field alone counts *)
  assert (Hpos : 0 < c11_body_length fs).
  { rewrite Efs. unfold c11_body_length. cbn [fold_right fst]. change (c11_counts 8) with false. change (c11_counts 9) with false.
    change (c11_counts 35) with true. cbv iota.
    pose proof (c11_body_length_nonneg (mid ++ [(10, v10)])) as Hnn. unfold c11_body_length in Hnn.
    assert (1 <= len (ser_field (35, v35))).
    { unfold ser_field, len. rewrite !app_length. cbn [length]. lia. }
    lia. }
  destruct v9 as [|c r]; [discriminate|]. destruct (int_grammar_cases c r Eg) as [(Hc & Hne & Hd) | (Hc & Hd)].
  - subst c. unfold int_value in Ev. change (MINUS =? MINUS) with true in Ev. cbv iota in Ev. pose proof (dec_value_nonneg r Hd). lia.
  - apply Hdecl. unfold c11_declared. unfold all_digits in Hd. rewrite Hd.
    destruct (digits_int_grammar (c :: r) Hd ltac:(discriminate)) as [_ Hv]. rewrite <- Hv, Ev. reflexivity.
Qed.

(* C11: a framed message (MsgType once) whose BodyLength field does not announce the byte count of its fields is
   rejected - any transport dictionary; no application dictionary, or one that does not know the MsgType, or one whose
   definition of the MsgType lists no header / trailer tag among the members of its groups; whatever groups start in
   the message, well-formed for the dictionary or not *)
Theorem parse_rejects_wrong_body_length_any : forall fs td ad mt v8 v9 mid,
  c11_framed fs = true -> fs = (8, v8) :: (9, v9) :: (35, mt) :: mid -> ~ In TAG_MSG_TYPE (map fst mid) ->
  dict_body_only td (ad_defs_of ad mt) ->
  c11_declared v9 <> Some (c11_body_length fs) -> exists e, do_parsing (ser fs) td ad = Err e.
Proof.
  intros fs td ad mt v8 v9 mid Hfr Efs Hn35 Hdict Hdecl.
  destruct (parse_framed_any fs td ad mt v8 v9 mid Hfr Efs Hn35 Hdict) as (m & (F1 & F2 & F3 & F4) & Hdo).
  destruct (c11_framed_shape fs Hfr) as (v8' & v9' & v35 & mid' & v10 & Efs' & _ & _ & Hmid).
  assert (v9' = v9) by (rewrite Efs in Efs'; inversion Efs'; reflexivity). subst v9'.
  rewrite Hdo. apply (body_length_check_rejects fs m v8' v9 v35 mid' v10 Efs'); [|exact Hdecl].
  rewrite F2. exact (header_body_length td fs v8' v9 v35 mid' v10 Efs' Hmid).
Qed.

(* the dictionary knows the MsgType *)
Theorem parse_rejects_wrong_body_length_dict : forall fs td d mt defs v8 v9 mid,
  c11_framed fs = true -> fs = (8, v8) :: (9, v9) :: (35, mt) :: mid -> ~ In TAG_MSG_TYPE (map fst mid) ->
  ad_find mt d = Some defs -> dict_body_only td defs ->
  c11_declared v9 <> Some (c11_body_length fs) -> exists e, do_parsing (ser fs) td (Some d) = Err e.
Proof.
  intros fs td d mt defs v8 v9 mid Hfr Efs Hn35 Hfind Hdict Hdecl.
  apply (parse_rejects_wrong_body_length_any fs td (Some d) mt v8 v9 mid Hfr Efs Hn35); [|exact Hdecl].
  unfold ad_defs_of. rewrite Hfind. exact Hdict.
Qed.

(* the dictionary does not know the MsgType: nothing is asked of it *)
Theorem parse_rejects_wrong_body_length_unknown : forall fs td d mt v8 v9 mid,
  c11_framed fs = true -> fs = (8, v8) :: (9, v9) :: (35, mt) :: mid -> ~ In TAG_MSG_TYPE (map fst mid) ->
  ad_find mt d = None ->
  c11_declared v9 <> Some (c11_body_length fs) -> exists e, do_parsing (ser fs) td (Some d) = Err e.
Proof.
  intros fs td d mt v8 v9 mid Hfr Efs Hn35 Hfind Hdecl.
  apply (parse_rejects_wrong_body_length_any fs td (Some d) mt v8 v9 mid Hfr Efs Hn35); [|exact Hdecl].
  unfold ad_defs_of. rewrite Hfind. intros x [].
Qed.

(* the messages of c11_fidelity_groups (items: plain fields and groups well-formed for the dictionary), with any 9 field *)
Theorem parse_rejects_wrong_body_length_groups : forall td d mt defs v8 v9 v10 items fs,
  fs = (8, v8) :: (9, v9) :: (35, mt) :: c11g_flat (items ++ [CFld (10, v10)]) ->
  c11_framed fs = true ->
  ~ In TAG_MSG_TYPE (map fst (c11g_flat items)) ->
  ad_find mt d = Some defs -> dict_body_only td defs ->
  c11_declared v9 <> Some (c11_body_length fs) -> exists e, do_parsing (ser fs) td (Some d) = Err e.
Proof.
  intros td d mt defs v8 v9 v10 items fs Efs Hfr Hn35 Hfind Hdict Hdecl.
  apply (parse_rejects_wrong_body_length_dict fs td d mt defs v8 v9 _ Hfr Efs); try assumption.
  rewrite c11g_flat_app, map_app. intros Hc. apply in_app_or in Hc. destruct Hc as [Hc|Hc]; [exact (Hn35 Hc)|].
  cbn in Hc. destruct Hc as [Hc|[]]. discriminate.
Qed.

(* ------------------------------------------------------------------------------------------------ *)
(* Non-vacuity: the two-group message of c11_ex_groups_hyps with a BodyLength that is one too small; and a message in
   which NoPartyIDs (453) announces 2 entries but only one follows (ill-formed for the dictionary) *)

Definition c11g_ex_bad_v9 : bytes := itoa (c11_body_length (c11g_ex_fs []) - 1).

Lemma c11g_ex_bad_hyps :
  c11_framed (c11g_ex_fs c11g_ex_bad_v9) = true /\
  ~ In TAG_MSG_TYPE (map fst (c11g_flat c11g_ex_items)) /\
  ad_find [68] c11g_ex_dict = Some c11g_ex_defs /\ dict_body_only None c11g_ex_defs /\
  c11_declared c11g_ex_bad_v9 <> Some (c11_body_length (c11g_ex_fs c11g_ex_bad_v9)).
Proof.
  split; [vm_compute; reflexivity|].
  split; [apply rg_memb_false; vm_compute; reflexivity|].
  split; [reflexivity|].
  split; [apply dict_body_onlyb_sound; vm_compute; reflexivity|].
  vm_compute. discriminate.
Qed.

Definition c11g_ex_ill_mid : list (Z * bytes) :=
  [(49, [83]); (453, [50]); (448, [105; 49]); (447, [68]); (58, [116]); (10, [48; 48; 48])].
Definition c11g_ex_ill_fs (v9 : bytes) : list (Z * bytes) :=
  (8, [70; 73; 88; 46; 52; 46; 52]) :: (9, v9) :: (35, [68]) :: c11g_ex_ill_mid.
Definition c11g_ex_ill_v9 : bytes := itoa (c11_body_length (c11g_ex_ill_fs []) + 7).

Lemma c11g_ex_ill_hyps :
  c11_framed (c11g_ex_ill_fs c11g_ex_ill_v9) = true /\
  ~ In TAG_MSG_TYPE (map fst c11g_ex_ill_mid) /\
  dict_body_only None (ad_defs_of (Some c11g_ex_dict) [68]) /\
  c11_declared c11g_ex_ill_v9 <> Some (c11_body_length (c11g_ex_ill_fs c11g_ex_ill_v9)).
Proof.
  split; [vm_compute; reflexivity|].
  split; [apply rg_memb_false; vm_compute; reflexivity|].
  split; [apply dict_body_onlyb_sound; vm_compute; reflexivity|].
  vm_compute. discriminate.
Qed.

Lemma c11g_ex_ill_rejected :
  do_parsing (ser (c11g_ex_ill_fs c11g_ex_ill_v9)) None (Some c11g_ex_dict) = Err E_BODY_LENGTH.
Proof. vm_compute. reflexivity. Qed.
