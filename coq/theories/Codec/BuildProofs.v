(* C10: every operation program keeps tags and tagLookup in step; for proper programs the built bytes are well-formed
   (c10_wf = 0); a copied message builds the same bytes. *)
From Coq Require Import ZArith List Bool Lia ZifyBool Sorting.Permutation Sorting.Sorted.
From QF Require Import Base.Res Base.Bytes Codec.FixInt Codec.FixIntProofs Codec.TagValue Codec.TagValueProofs
  Codec.FieldMap Codec.FieldMapProofs Codec.Scan Codec.ScanProofs Codec.Build Spec.FixStd.
Import ListNotations.
Open Scope Z_scope.

(* ================= representation invariant for every program ================= *)
Definition msg_rep (m : message) : Prop := fm_rep (m_header m) /\ fm_rep (m_body m) /\ fm_rep (m_trailer m).

Lemma msg_rep_new : msg_rep new_message.
Proof. repeat split; cbn; try constructor; tauto. Qed.

Lemma msg_rep_upd_sec : forall m s f, msg_rep m -> fm_rep f -> msg_rep (msg_upd_sec m s f).
Proof. intros m s f (H1 & H2 & H3) Hf. unfold msg_rep. destruct s; cbn; tauto. Qed.

Lemma msg_rep_sec : forall m s, msg_rep m -> fm_rep (msg_sec m s).
Proof. intros m s (H1 & H2 & H3). destruct s; assumption. Qed.

Lemma msg_rep_cook : forall m bl bt, msg_rep m -> msg_rep (msg_cook m bl bt).
Proof.
  intros m bl bt (H1 & H2 & H3). unfold msg_cook, msg_rep. cbn [m_header m_body m_trailer].
  split; [apply fm_rep_set_bytes; exact H1|]. split; [exact H2|]. apply fm_rep_set_bytes; exact H3.
Qed.

Lemma msg_rep_build : forall m, msg_rep m -> msg_rep (fst (msg_build m)).
Proof.
  intros m H. unfold msg_build. cbn [fst].
  destruct (msg_rep_cook m (fm_length (m_body m)) (fm_total (m_body m)) H) as (H1 & H2 & H3).
  unfold msg_rep. cbn [m_header m_body m_trailer].
  split; [|split]; apply fm_rep_sort_in_place; assumption.
Qed.

Lemma msg_rep_copy_into : forall m to, msg_rep m -> msg_rep (msg_copy_into m to).
Proof. intros m to (H1 & H2 & H3). unfold msg_rep, msg_copy_into. cbn [m_header m_body m_trailer]. rewrite !fm_copy_into_eq. tauto. Qed.

Lemma msg_rep_run_op : forall m o, msg_rep m -> msg_rep (msg_run_op m o).
Proof.
  intros m o H. destruct o as [s t v|s t|s|s t tmpl es|junk|]; cbn [msg_run_op].
  - apply msg_rep_upd_sec; [exact H|]. apply fm_rep_set_bytes, msg_rep_sec, H.
  - apply msg_rep_upd_sec; [exact H|]. apply fm_rep_remove, msg_rep_sec, H.
  - apply msg_rep_upd_sec; [exact H|]. apply fm_rep_clear.
  - apply msg_rep_upd_sec; [exact H|]. apply fm_rep_set_group, msg_rep_sec, H.
  - apply msg_rep_copy_into. exact H.
  - apply msg_rep_build. exact H.
Qed.

Lemma fold_left_inv {A S} (P : S -> Prop) (f : S -> A -> S) : (forall s a, P s -> P (f s a)) ->
  forall l s, P s -> P (fold_left f l s).
Proof. intros Hf. induction l as [|a l IH]; intros s Hs; cbn; [exact Hs|]. apply IH, Hf, Hs. Qed.

(* `NoDup tags /\ (In t tags <-> t in dom tagLookup)` holds after EVERY sequence of operations, proper or not *)
Theorem msg_rep_run_ops : forall ops, msg_rep (msg_run_ops ops).
Proof. intros ops. unfold msg_run_ops. apply fold_left_inv; [apply msg_rep_run_op|apply msg_rep_new]. Qed.

(* a copied message is the same three field maps, so it builds the same bytes *)
Theorem copy_builds_same_bytes : forall m to, snd (msg_build (msg_copy_into m to)) = snd (msg_build m).
Proof.
  intros m to. unfold msg_build, msg_cook, msg_copy_into. cbn [snd m_header m_body m_trailer].
  rewrite !fm_copy_into_eq. reflexivity.
Qed.

(* ================= proper programs: the model state mirrors the abstract maps ================= *)
Lemma c10_find_del : forall m t u, c10_find (c10_del m t) u = if t =? u then None else c10_find m u.
Proof.
  unfold c10_del. induction m as [|[k e] r IH]; intros t u; cbn [filter fst c10_find].
  - destruct (t =? u); reflexivity.
  - destruct (k =? t) eqn:E; cbn [negb c10_find].
    + rewrite IH. destruct (t =? u) eqn:E2; [reflexivity|]. replace (k =? u) with false by lia. reflexivity.
    + rewrite IH. destruct (k =? u) eqn:E3; [|reflexivity]. replace (t =? u) with false by lia. reflexivity.
Qed.

Lemma c10_find_put : forall m t e u, c10_find (c10_put m t e) u = if t =? u then Some e else c10_find m u.
Proof.
  intros m t e u. unfold c10_put. cbn. destruct (t =? u) eqn:E; [reflexivity|]. rewrite c10_find_del, E. reflexivity.
Qed.

Lemma c10_find_in_keys : forall m k, In k (map fst m) -> c10_find m k <> None.
Proof.
  induction m as [|[k' e] r IH]; intros k H; cbn in *; [tauto|].
  destruct (k' =? k) eqn:E; [discriminate|]. apply IH. destruct H; [lia|assumption].
Qed.

Definition fld_of (t : Z) (e : c10_entry) : field :=
  (tv_init t (fst e), map (fun f => tv_init (fst f) (snd f)) (snd e)).
Definition entry_of (f : field) : c10_entry := (tv_value (fst f), map tv_pair (snd f)).

Lemma entry_of_fld_of : forall t e, entry_of (fld_of t e) = e.
Proof.
  intros t [v ms]. unfold entry_of, fld_of. cbn [fst snd tv_init tv_value]. f_equal.
  rewrite map_map. induction ms as [|[a b] ms IH]; cbn; [reflexivity|]. f_equal. exact IH.
Qed.

Definition is_derived (s : c10_sec) (t : Z) : bool :=
  match s with SecHeader => t =? TAG_BODY_LENGTH | SecBody => false | SecTrailer => t =? TAG_CHECK_SUM end.
Definition sec_ord (s : c10_sec) : fm_order :=
  match s with SecHeader => OrdHeader | SecBody => OrdNormal | SecTrailer => OrdTrailer end.

Definition entry_ok (s : c10_sec) (t : Z) (e : c10_entry) : Prop :=
  c10_tag_in_sec s t = true /\ c10_val_ok (fst e) = true /\ forallb c10_member_ok (snd e) = true /\
  (snd e <> [] -> c10_framing t = false).
Definition abs_ok (a : c10_abs) : Prop := forall s t e, c10_find (abs_get a s) t = Some e -> entry_ok s t e.

Definition sec_rel (s : c10_sec) (m : fmap) (am : c10_map) : Prop :=
  fm_rep m /\ fm_ord m = sec_ord s /\
  forall t, match lk_get (fm_lookup m) t with
            | Some f => f = fld_of t (entry_of f) /\
                        (c10_find am t = Some (entry_of f) \/ (is_derived s t = true /\ snd f = []))
            | None => c10_find am t = None \/ is_derived s t = true
            end.
Definition msg_rel (m : message) (a : c10_abs) : Prop := forall s, sec_rel s (msg_sec m s) (abs_get a s).

Lemma abs_get_upd : forall a s x s', abs_get (abs_upd a s x) s' =
  match s, s' with SecHeader, SecHeader | SecBody, SecBody | SecTrailer, SecTrailer => x | _, _ => abs_get a s' end.
Proof. intros a s x s'. destruct s, s'; reflexivity. Qed.
Lemma msg_sec_upd : forall m s f s', msg_sec (msg_upd_sec m s f) s' =
  match s, s' with SecHeader, SecHeader | SecBody, SecBody | SecTrailer, SecTrailer => f | _, _ => msg_sec m s' end.
Proof. intros m s f s'. destruct s, s'; reflexivity. Qed.

(* updating one section on both sides *)
Lemma msg_rel_upd : forall m a s f x, msg_rel m a -> sec_rel s f x -> msg_rel (msg_upd_sec m s f) (abs_upd a s x).
Proof.
  intros m a s f x H Hs s'. rewrite abs_get_upd, msg_sec_upd. specialize (H s'). destruct s, s'; assumption.
Qed.
Lemma abs_ok_upd : forall a s x, abs_ok a -> (forall t e, c10_find x t = Some e -> entry_ok s t e) -> abs_ok (abs_upd a s x).
Proof.
  intros a s x H Hx s' t e. rewrite abs_get_upd. specialize (H s' t e). destruct s, s'; auto.
Qed.

Lemma fld_of_scalar : forall t v, fld_of t (v, []) = (tv_init t v, []).
Proof. reflexivity. Qed.

(* storing the field of an abstract entry under a tag (getOrCreate+init on a scalar / add / SetGroup) *)
Lemma sec_rel_store : forall s tags lk o am t e,
  sec_rel s (mk_fmap tags lk o) am ->
  sec_rel s (mk_fmap (if lk_has lk t then tags else tags ++ [t]) (lk_put lk t (fld_of t e)) o) (c10_put am t e).
Proof.
  intros s tags lk o am t e (Hrep & Hord & Hlk). split; [apply fm_rep_store; exact Hrep|]. split; [exact Hord|].
  intros u. cbn [fm_lookup] in *. rewrite c10_find_put. destruct (t =? u) eqn:E.
  - assert (u = t) by lia. subst u. rewrite lk_get_put_same, entry_of_fld_of. split; [reflexivity|left; reflexivity].
  - rewrite lk_get_put_other by lia. apply Hlk.
Qed.

Lemma fm_set_bytes_eq : forall m t v,
  fm_set_bytes m t v = mk_fmap (if lk_has (fm_lookup m) t then fm_tags m else fm_tags m ++ [t])
                               (lk_put (fm_lookup m) t (tv_init t v, [])) (fm_ord m).
Proof. intros m t v. unfold fm_set_bytes, lk_has. destruct (lk_get (fm_lookup m) t); reflexivity. Qed.

Lemma fm_set_bytes_scalar : forall m t v, (forall f, lk_get (fm_lookup m) t = Some f -> snd f = []) ->
  fm_set_bytes m t v = mk_fmap (if lk_has (fm_lookup m) t then fm_tags m else fm_tags m ++ [t])
                               (lk_put (fm_lookup m) t (tv_init t v, [])) (fm_ord m).
Proof. intros m t v _. apply fm_set_bytes_eq. Qed.

Lemma map_tv_pair_nil : forall l, map tv_pair l = [] -> l = [].
Proof. intros [|x l]; [reflexivity|discriminate]. Qed.

Lemma sec_rel_set_scalar : forall s m am t v, sec_rel s m am ->
  sec_rel s (fm_set_bytes m t v) (c10_put am t (v, [])).
Proof.
  intros s [tags lk o] am t v H. rewrite fm_set_bytes_eq.
  cbn [fm_lookup fm_tags fm_ord]. rewrite <- fld_of_scalar. apply sec_rel_store. exact H.
Qed.

(* cook: setting the derived tag (9 in the header, 10 in the trailer) keeps the relation with the SAME abstract map *)
Lemma sec_rel_set_derived : forall s m am d v, sec_rel s m am -> is_derived s d = true ->
  (forall v0 ms, c10_find am d = Some (v0, ms) -> ms = []) ->
  sec_rel s (fm_set_bytes m d v) am.
Proof.
  intros s [tags lk o] am d v H Hd Hsc.
  assert (Hsnd : forall f, lk_get lk d = Some f -> snd f = []).
  { intros f Hf. destruct H as (_ & _ & Hlk). specialize (Hlk d). cbn [fm_lookup] in *. rewrite Hf in Hlk.
    destruct Hlk as (_ & [Hfind|[_ Hnil]]); [|exact Hnil].
    unfold entry_of in Hfind. apply Hsc in Hfind. apply map_tv_pair_nil. exact Hfind. }
  rewrite fm_set_bytes_scalar by exact Hsnd. cbn [fm_lookup fm_tags fm_ord].
  destruct H as (Hrep & Hord & Hlk). split; [apply fm_rep_store; exact Hrep|]. split; [exact Hord|].
  intros u. cbn [fm_lookup] in *. destruct (Z.eq_dec u d) as [->|Hne].
  - rewrite lk_get_put_same. split; [reflexivity|]. right. split; [exact Hd|reflexivity].
  - rewrite lk_get_put_other by exact Hne. apply Hlk.
Qed.

Lemma sec_rel_sort_in_place : forall s m am, sec_rel s m am -> sec_rel s (fm_sort_in_place m) am.
Proof.
  intros s m am (Hrep & Hord & Hlk). split; [apply fm_rep_sort_in_place; exact Hrep|]. split; [exact Hord|exact Hlk].
Qed.

Lemma sec_rel_remove : forall s m am t, sec_rel s m am -> sec_rel s (fm_remove m t) (c10_del am t).
Proof.
  intros s [tags lk o] am t H. pose proof H as (Hrep & Hord & Hlk).
  split; [apply fm_rep_remove; exact Hrep|]. unfold fm_remove. cbn [fm_lookup fm_tags fm_ord] in *.
  destruct (lk_has lk t) eqn:Hh; cbn [negb fm_ord fm_lookup].
  - split; [exact Hord|]. intros u. rewrite c10_find_del. destruct (t =? u) eqn:E.
    + assert (u = t) by lia. subst u. rewrite lk_get_del_same. left. reflexivity.
    + rewrite lk_get_del_other by lia. apply Hlk.
  - split; [exact Hord|]. intros u. rewrite c10_find_del. destruct (t =? u) eqn:E; [|apply Hlk].
    assert (u = t) by lia. subst u. unfold lk_has in Hh. destruct (lk_get lk t); [discriminate|]. left. reflexivity.
Qed.

Lemma sec_rel_clear : forall s m am, sec_rel s m am -> sec_rel s (fm_clear m) [].
Proof.
  intros s m am (Hrep & Hord & Hlk). split; [apply fm_rep_clear|]. split; [exact Hord|]. intros t. cbn. left. reflexivity.
Qed.

Lemma digits_val_ok : forall d, all_digits d = true -> c10_val_ok d = true.
Proof.
  unfold all_digits, c10_val_ok. induction d as [|c r IH]; intros H; cbn [forallb] in *; [reflexivity|].
  apply andb_true_iff in H as [Hc Hr].
  rewrite (IH Hr), andb_true_r. unfold is_digit, CH0, CH9, SOH in *. lia.
Qed.

Lemma entries_members_ok : forall tmpl es, forallb (c10_entry_ok tmpl) es = true -> forallb c10_member_ok (concat es) = true.
Proof.
  induction es as [|e es IH]; intros H; cbn in *; [reflexivity|]. apply andb_true_iff in H as [He Hes].
  rewrite forallb_app, (IH Hes), andb_true_r. unfold c10_entry_ok in He.
  destruct e as [|f e]; [discriminate|]. destruct tmpl as [|d tmpl]; [discriminate|].
  apply andb_true_iff in He as [_ He]. rewrite forallb_forall in *. intros x Hx. specialize (He x Hx).
  apply andb_true_iff in He as [He _]. exact He.
Qed.

Lemma sec_rel_msg_build : forall m a, abs_ok a -> msg_rel m a -> msg_rel (fst (msg_build m)) a.
Proof.
  intros m a Hok H. assert (Hsc : forall s d v0 ms, is_derived s d = true -> c10_find (abs_get a s) d = Some (v0, ms) -> ms = []).
  { intros s d v0 ms Hd Hf. destruct (Hok s d (v0, ms) Hf) as (_ & _ & _ & Hfr). cbn [snd] in Hfr.
    destruct ms as [|x ms]; [reflexivity|]. exfalso. assert (c10_framing d = false) by (apply Hfr; discriminate).
    unfold c10_framing, is_derived in *. destruct s; try discriminate; lia. }
  intros s. unfold msg_build, msg_cook. destruct s; cbn [fst msg_sec m_header m_body m_trailer].
  - apply sec_rel_sort_in_place. unfold fm_set_int. apply sec_rel_set_derived; [apply (H SecHeader)|reflexivity|intros v0 ms; apply (Hsc SecHeader TAG_BODY_LENGTH v0 ms eq_refl)].
  - apply sec_rel_sort_in_place. apply (H SecBody).
  - apply sec_rel_sort_in_place. unfold fm_set_string. apply sec_rel_set_derived; [apply (H SecTrailer)|reflexivity|intros v0 ms; apply (Hsc SecTrailer TAG_CHECK_SUM v0 ms eq_refl)].
Qed.

Lemma step_rel : forall strict m a o, abs_ok a -> msg_rel m a -> c10_op_ok strict a o = true ->
  abs_ok (c10_abs_op a o) /\ msg_rel (msg_run_op m o) (c10_abs_op a o).
Proof.
  intros strict m a o Hok H Hop. destruct o as [s t v|s t|s|s t tmpl es|junk|]; cbn [c10_op_ok c10_abs_op msg_run_op] in *.
  - apply andb_true_iff in Hop as [Hop Hstrict]. apply andb_true_iff in Hop as [Htag Hval].
    split.
    + apply abs_ok_upd; [exact Hok|]. intros u e. rewrite c10_find_put. destruct (t =? u) eqn:E; [|apply Hok].
      intros He. inversion He; subst. assert (u = t) by lia. subst u. repeat split; cbn; auto. congruence.
    + apply msg_rel_upd; [exact H|]. apply sec_rel_set_scalar. apply H.
  - split.
    + apply abs_ok_upd; [exact Hok|]. intros u e. rewrite c10_find_del. destruct (t =? u); [discriminate|apply Hok].
    + apply msg_rel_upd; [exact H|]. apply sec_rel_remove. apply H.
  - split.
    + apply abs_ok_upd; [exact Hok|]. intros u e. cbn. discriminate.
    + apply msg_rel_upd; [exact H|]. apply (sec_rel_clear s _ (abs_get a s)). apply H.
  - apply andb_true_iff in Hop as [Hop Hes]. apply andb_true_iff in Hop as [Htag Hfr].
    split.
    + apply abs_ok_upd; [exact Hok|]. intros u e. rewrite c10_find_put. destruct (t =? u) eqn:E; [|apply Hok].
      intros He. inversion He; subst. assert (u = t) by lia. subst u. unfold c10_group_entry. repeat split; cbn [fst snd].
      * exact Htag.
      * apply digits_val_ok, itoa_all_digits_nonneg. lia.
      * apply (entries_members_ok tmpl). exact Hes.
      * intros _. destruct (c10_framing t); [discriminate|reflexivity].
    + apply msg_rel_upd; [exact H|]. specialize (H s). destruct (msg_sec m s) as [tags lk o]. unfold fm_set_group.
      cbn [fm_lookup fm_tags fm_ord]. change (group_write_flat t es) with (fld_of t (c10_group_entry es)).
      apply sec_rel_store. exact H.
  - split; [exact Hok|]. intros s. specialize (H s). unfold msg_copy_into.
    destruct s; cbn [msg_sec m_header m_body m_trailer]; rewrite fm_copy_into_eq; exact H.
  - split; [exact Hok|]. apply sec_rel_msg_build; assumption.
Qed.

Lemma abs_ok_empty : abs_ok abs_empty.
Proof. intros s t e H. destruct s; discriminate. Qed.

Lemma msg_rel_new : msg_rel new_message abs_empty.
Proof.
  intros s. destruct s; (split; [apply fm_rep_init|split; [reflexivity|intros t; cbn; left; reflexivity]]).
Qed.

Lemma run_rel : forall strict ops m a, abs_ok a -> msg_rel m a -> c10_ops_ok strict a ops = true ->
  abs_ok (fold_left c10_abs_op ops a) /\ msg_rel (fold_left msg_run_op ops m) (fold_left c10_abs_op ops a).
Proof.
  intros strict. induction ops as [|o ops IH]; intros m a Hok H Hops; cbn [fold_left]; [split; assumption|].
  cbn [c10_ops_ok] in Hops. apply andb_true_iff in Hops as [Ho Hr].
  destruct (step_rel strict m a o Hok H Ho) as [Hok' H']. apply IH; assumption.
Qed.

(* ================= what a section writes ================= *)
Definition item : Type := (Z * c10_entry)%type.
Definition flat_item (it : item) : list (Z * bytes) := (fst it, fst (snd it)) :: snd (snd it).
Definition flat (its : list item) : list (Z * bytes) := concat (map flat_item its).
Definition getd (lk : list (Z * field)) (t : Z) : field :=
  match lk_get lk t with Some f => f | None => (tv_zero, []) end.
Definition items_of (lk : list (Z * field)) (tags : list Z) : list item := map (fun t => (t, entry_of (getd lk t))) tags.
Definition sec_items (m : fmap) : list item := items_of (fm_lookup m) (fm_sorted_tags m).

Lemma flat_cons : forall it its, flat (it :: its) = flat_item it ++ flat its.
Proof. reflexivity. Qed.
Lemma flat_app : forall a b, flat (a ++ b) = flat a ++ flat b.
Proof. intros a b. unfold flat. rewrite map_app, concat_app. reflexivity. Qed.

Lemma write_field_fld_of : forall t e, write_field (fld_of t e) = ser (flat_item (t, e)).
Proof.
  intros t [v ms]. unfold write_field, field_tvs, fld_of, flat_item, ser. cbn [fst snd map concat]. f_equal.
  induction ms as [|[a b] ms IH]; cbn [map concat]; [reflexivity|]. rewrite IH. reflexivity.
Qed.

Definition lk_good (lk : list (Z * field)) (t : Z) : Prop := exists f, lk_get lk t = Some f /\ f = fld_of t (entry_of f).

Lemma fm_write_tags_items : forall lk tags, Forall (lk_good lk) tags ->
  fm_write_tags lk tags = ser (flat (items_of lk tags)).
Proof.
  induction tags as [|t tags IH]; intros H; [reflexivity|]. inversion H as [|? ? (f & Hf & Hshape) Hr]; subst.
  cbn [fm_write_tags items_of map]. rewrite Hf. rewrite flat_cons, ser_app. rewrite (IH Hr). unfold items_of. f_equal.
  unfold getd. rewrite Hf. rewrite Hshape at 1. apply write_field_fld_of.
Qed.

Lemma sec_rel_good : forall s m am t, sec_rel s m am -> In t (fm_tags m) -> lk_good (fm_lookup m) t.
Proof.
  intros s m am t (Hrep & _ & Hlk) Hin. destruct Hrep as (_ & _ & Hiff). apply Hiff, lk_has_in_keys in Hin.
  unfold lk_has in Hin. specialize (Hlk t). unfold lk_good. destruct (lk_get (fm_lookup m) t) as [f|]; [|discriminate].
  exists f. split; [reflexivity|apply Hlk].
Qed.

Lemma sorted_tags_in : forall m t, In t (fm_sorted_tags m) <-> In t (fm_tags m).
Proof.
  intros m t. unfold fm_sorted_tags. pose proof (tags_sort_perm (fm_compare (fm_ord m)) (fm_tags m)) as Hp.
  split; intros H; [apply (Permutation_in _ Hp)|apply (Permutation_in _ (Permutation_sym Hp))]; exact H.
Qed.

Lemma fm_write_items : forall s m am, sec_rel s m am -> fm_write m = ser (flat (sec_items m)).
Proof.
  intros s m am H. unfold fm_write, sec_items. apply fm_write_tags_items. apply Forall_forall. intros t Ht.
  apply (sec_rel_good s m am); [exact H|]. apply sorted_tags_in. exact Ht.
Qed.

(* ---- sums over the map = sums over the written fields ---- *)
Definition fm_fold (g : field -> Z) (lk : list (Z * field)) : Z := fold_right (fun kf acc => g (snd kf) + acc) 0 lk.
Definition zsum_on {A} (h : A -> Z) (l : list A) : Z := fold_right (fun x acc => h x + acc) 0 l.

Lemma zsum_on_perm {A} (h : A -> Z) : forall l1 l2, Permutation l1 l2 -> zsum_on h l1 = zsum_on h l2.
Proof. intros l1 l2 Hp. unfold zsum_on. induction Hp; cbn [fold_right]; lia. Qed.
Lemma zsum_on_ext {A} (h1 h2 : A -> Z) : forall l, (forall x, In x l -> h1 x = h2 x) -> zsum_on h1 l = zsum_on h2 l.
Proof.
  unfold zsum_on. induction l as [|x l IH]; intros H; cbn [fold_right]; [reflexivity|].
  rewrite (H x (or_introl eq_refl)), IH; [reflexivity|]. intros y Hy. apply H. right. exact Hy.
Qed.
Lemma zsum_on_app {A} (h : A -> Z) : forall a b, zsum_on h (a ++ b) = zsum_on h a + zsum_on h b.
Proof. unfold zsum_on. induction a as [|x a IH]; intros b; cbn [app fold_right]; [lia|]. rewrite IH. lia. Qed.

Lemma fm_fold_keys : forall g lk, NoDup (map fst lk) -> fm_fold g lk = zsum_on (fun t => g (getd lk t)) (map fst lk).
Proof.
  intros g. induction lk as [|[k f] r IH]; intros Hnd; [reflexivity|]. inversion Hnd as [|? ? Hk Hr]; subst.
  unfold fm_fold, zsum_on in *. cbn [fold_right map fst snd]. rewrite (IH Hr). f_equal.
  - unfold getd. cbn [lk_get]. rewrite Z.eqb_refl. reflexivity.
  - apply (zsum_on_ext (fun t => g (getd r t)) (fun t => g (getd ((k, f) :: r) t))). intros x Hx.
    unfold getd. cbn [lk_get]. destruct (k =? x) eqn:E; [|reflexivity]. exfalso. apply Hk. replace k with x by lia. exact Hx.
Qed.

Lemma fm_fold_sorted : forall g m, fm_rep m ->
  fm_fold g (fm_lookup m) = zsum_on (fun t => g (getd (fm_lookup m) t)) (fm_sorted_tags m).
Proof.
  intros g m Hrep. rewrite fm_fold_keys by apply Hrep. apply zsum_on_perm.
  rewrite <- (fm_rep_perm m Hrep). symmetry. apply tags_sort_perm.
Qed.

Lemma fm_fold_put : forall g lk t f,
  fm_fold g (lk_put lk t f) = fm_fold g lk - (match lk_get lk t with Some o => g o | None => 0 end) + g f.
Proof.
  intros g. unfold fm_fold. induction lk as [|[k o] r IH]; intros t f; cbn [lk_put lk_get fold_right snd]; [lia|].
  destruct (k =? t); cbn [fold_right snd]; [lia|]. rewrite IH. lia.
Qed.

(* the two accounting sums over a wire field list *)
Definition wire_total (fs : list (Z * bytes)) : Z :=
  zsum_on (fun f => if fst f =? TAG_CHECK_SUM then 0 else bytes_total (ser_field f)) fs.
Lemma c11_body_length_zsum : forall fs, c11_body_length fs = zsum_on (fun f => if c11_counts (fst f) then len (ser_field f) else 0) fs.
Proof. reflexivity. Qed.

Lemma c11_body_length_app : forall x y, c11_body_length (x ++ y) = c11_body_length x + c11_body_length y.
Proof. intros x y. rewrite !c11_body_length_zsum. apply zsum_on_app. Qed.

Lemma field_length_fld_of : forall t e, field_length (fld_of t e) = c11_body_length (flat_item (t, e)).
Proof.
  intros t [v ms]. unfold field_length, field_tvs, fld_of, flat_item, c11_body_length. cbn [fst snd fold_right]. f_equal.
  induction ms as [|[a b] ms IH]; cbn [map fold_right]; [reflexivity|]. rewrite IH. reflexivity.
Qed.
Lemma field_total_fld_of : forall t e, field_total (fld_of t e) = wire_total (flat_item (t, e)).
Proof.
  intros t [v ms]. unfold field_total, field_tvs, fld_of, flat_item, wire_total, zsum_on. cbn [fst snd fold_right]. f_equal.
  induction ms as [|[a b] ms IH]; cbn [map fold_right]; [reflexivity|]. rewrite IH. reflexivity.
Qed.

Lemma zsum_items : forall (h : list (Z * bytes) -> Z) (hf : (Z * bytes) -> Z) lk tags,
  (forall l, h l = zsum_on hf l) ->
  zsum_on (fun t => h (flat_item (t, entry_of (getd lk t)))) tags = zsum_on hf (flat (items_of lk tags)).
Proof.
  intros h hf lk tags Hh. induction tags as [|t tags IH]; [reflexivity|].
  cbn [items_of map]. rewrite flat_cons, zsum_on_app. unfold zsum_on at 1. cbn [fold_right]. fold (zsum_on (fun t0 => h (flat_item (t0, entry_of (getd lk t0)))) tags).
  rewrite IH, Hh. reflexivity.
Qed.

Lemma fm_length_items : forall s m am, sec_rel s m am -> fm_length m = c11_body_length (flat (sec_items m)).
Proof.
  intros s m am H. change (fm_length m) with (fm_fold field_length (fm_lookup m)). rewrite fm_fold_sorted by apply H.
  rewrite c11_body_length_zsum. unfold sec_items.
  rewrite <- (zsum_items c11_body_length _ (fm_lookup m) (fm_sorted_tags m) c11_body_length_zsum).
  apply zsum_on_ext. intros t Ht. apply sorted_tags_in in Ht. destruct (sec_rel_good s m am t H Ht) as (f & Hf & Hshape).
  unfold getd. rewrite Hf. rewrite Hshape at 1. apply field_length_fld_of.
Qed.
Lemma fm_total_items : forall s m am, sec_rel s m am -> fm_total m = wire_total (flat (sec_items m)).
Proof.
  intros s m am H. change (fm_total m) with (fm_fold field_total (fm_lookup m)). rewrite fm_fold_sorted by apply H.
  unfold sec_items, wire_total.
  rewrite <- (zsum_items wire_total _ (fm_lookup m) (fm_sorted_tags m) (fun l => eq_refl)).
  apply zsum_on_ext. intros t Ht. apply sorted_tags_in in Ht. destruct (sec_rel_good s m am t H Ht) as (f & Hf & Hshape).
  unfold getd. rewrite Hf. rewrite Hshape at 1. apply field_total_fld_of.
Qed.

(* ================= shape of the sorted header / trailer tag lists ================= *)
Lemma header_rank_cases : forall t,
  (t = 8 /\ header_ordering_rank t = 1) \/ (t = 9 /\ header_ordering_rank t = 2) \/ (t = 35 /\ header_ordering_rank t = 3) \/
  (t <> 8 /\ t <> 9 /\ t <> 35 /\ header_ordering_rank t = MAX_UINT32).
Proof.
  intros t. unfold header_ordering_rank, TAG_BEGIN_STRING, TAG_BODY_LENGTH, TAG_MSG_TYPE.
  destruct (t =? 8) eqn:E1; [left; lia|]. destruct (t =? 9) eqn:E2; [right; left; lia|].
  destruct (t =? 35) eqn:E3; [right; right; left; lia|]. right; right; right. lia.
Qed.

Lemma sorted_head_lt : forall lt x l y, StronglySorted (lt_rel lt) (x :: l) -> In y l -> lt x y = true.
Proof. intros lt x l y H Hy. inversion H as [|? ? _ Hf]; subst. rewrite Forall_forall in Hf. apply Hf. exact Hy. Qed.

Lemma header_sorted_lead : forall l, StronglySorted (lt_rel header_field_ordering) l -> NoDup l ->
  In 8 l -> In 9 l -> In 35 l -> exists r, l = 8 :: 9 :: 35 :: r.
Proof.
  intros l Hs Hnd H8 H9 H35.
  destruct l as [|x l]; [destruct H8|].
  assert (x = 8).
  { destruct (Z.eq_dec x 8) as [|Hne]; [assumption|]. destruct H8 as [|H8]; [congruence|].
    pose proof (sorted_head_lt _ _ _ _ Hs H8) as C. rewrite header_field_ordering_lex in C.
    pose proof (header_rank_cases x). pose proof (header_rank_cases 8). unfold MAX_UINT32 in *. lia. }
  subst x. inversion Hs as [|? ? Hs1 _]; subst. inversion Hnd as [|? ? Hn8 Hnd1]; subst.
  destruct H9 as [|H9]; [discriminate|]. destruct H35 as [|H35]; [discriminate|].
  destruct l as [|y l]; [destruct H9|].
  assert (y = 9).
  { destruct (Z.eq_dec y 9) as [|Hne]; [assumption|]. destruct H9 as [|H9]; [congruence|].
    pose proof (sorted_head_lt _ _ _ _ Hs1 H9) as C. rewrite header_field_ordering_lex in C.
    assert (y <> 8) by (intros ->; apply Hn8; left; reflexivity).
    pose proof (header_rank_cases y). pose proof (header_rank_cases 9). unfold MAX_UINT32 in *. lia. }
  subst y. inversion Hs1 as [|? ? Hs2 _]; subst. inversion Hnd1 as [|? ? Hn9 Hnd2]; subst.
  destruct H35 as [|H35]; [discriminate|].
  destruct l as [|z l]; [destruct H35|].
  assert (z = 35).
  { destruct (Z.eq_dec z 35) as [|Hne]; [assumption|]. destruct H35 as [|H35]; [congruence|].
    pose proof (sorted_head_lt _ _ _ _ Hs2 H35) as C. rewrite header_field_ordering_lex in C.
    assert (z <> 8) by (intros ->; apply Hn8; right; left; reflexivity).
    assert (z <> 9) by (intros ->; apply Hn9; left; reflexivity).
    pose proof (header_rank_cases z). pose proof (header_rank_cases 35). unfold MAX_UINT32 in *. lia. }
  subst z. exists l. reflexivity.
Qed.

Lemma trailer_sorted_last : forall l, StronglySorted (lt_rel trailer_field_ordering) l -> In 10 l -> exists r, l = r ++ [10].
Proof.
  induction l as [|x l IH]; intros Hs H10; [destruct H10|].
  destruct l as [|y l].
  - destruct H10 as [->|[]]. exists []. reflexivity.
  - destruct (Z.eq_dec x 10) as [->|Hne].
    + pose proof (sorted_head_lt _ _ _ y Hs (or_introl eq_refl)) as C. rewrite trailer_field_ordering_spec in C.
      unfold TAG_CHECK_SUM in C. lia.
    + destruct H10 as [|H10]; [congruence|]. inversion Hs as [|? ? Hs1 _]; subst.
      destruct (IH Hs1 H10) as [r Hr]. exists (x :: r). rewrite Hr. reflexivity.
Qed.

(* ================= the walk of c10_wf over the written items ================= *)
Lemma c10_pair_eqb_refl : forall x, c10_pair_eqb x x = true.
Proof.
  intros [t v]. unfold c10_pair_eqb. cbn [fst snd]. rewrite Z.eqb_refl. cbn [andb].
  induction v as [|b v IH]; cbn; [reflexivity|]. rewrite Z.eqb_refl. exact IH.
Qed.
Lemma beq_bytes_refl : forall v, beq_bytes v v = true.
Proof. induction v as [|b v IH]; cbn; [reflexivity|]. rewrite Z.eqb_refl. exact IH. Qed.

Lemma c10_walk_members : forall a ms rest, c10_walk a (ms ++ rest) ms = c10_walk a rest [].
Proof.
  induction ms as [|x ms IH]; intros rest; [reflexivity|]. cbn [app c10_walk]. rewrite c10_pair_eqb_refl. apply IH.
Qed.

Definition walk_ok (a : c10_abs) (sec : Z) (it : item) : Prop :=
  exists v' ms', c10_live a (fst it) = Some (sec, (v', ms')) /\
    ((c10_derived (fst it) = true /\ snd (snd it) = []) \/
     (c10_derived (fst it) = false /\ v' = fst (snd it) /\ ms' = snd (snd it))).

Lemma c10_walk_items : forall a sec its rest, Forall (walk_ok a sec) its ->
  c10_walk a (flat its ++ rest) [] =
  (map (fun it => (sec, fst it)) its ++ fst (c10_walk a rest []), snd (c10_walk a rest [])).
Proof.
  intros a sec. induction its as [|[t [v ms]] its IH]; intros rest H.
  - cbn [flat map concat app]. destruct (c10_walk a rest []); reflexivity.
  - inversion H as [|? ? (v' & ms' & Hlive & Hcase) Hr]; subst. cbn [fst snd] in *.
    rewrite flat_cons. unfold flat_item. cbn [fst snd]. rewrite <- app_assoc. cbn [app c10_walk fst snd]. rewrite Hlive.
    destruct Hcase as [[Hd Hms]|(Hd & Hv & Hms)]; subst; rewrite Hd; cbn [orb app].
    + rewrite (IH rest Hr). reflexivity.
    + rewrite beq_bytes_refl. rewrite c10_walk_members. rewrite (IH rest Hr). reflexivity.
Qed.

Lemma c10_nodup_iff : forall l, c10_nodup l = true <-> NoDup l.
Proof.
  induction l as [|x l IH]; cbn; [split; [constructor|reflexivity]|].
  rewrite andb_true_iff, IH, negb_true_iff. split.
  - intros [Hx Hl]. constructor; [|exact Hl]. intros Hin.
    assert (existsb (Z.eqb x) l = true) by (apply existsb_exists; exists x; split; [exact Hin|apply Z.eqb_refl]). congruence.
  - intros H. inversion H as [|? ? Hx Hl]; subst. split; [|exact Hl].
    destruct (existsb (Z.eqb x) l) eqn:E; [|reflexivity]. apply existsb_exists in E as (y & Hy & Hxy).
    exfalso. apply Hx. replace x with y by lia. exact Hy.
Qed.

Lemma existsb_eqb_in : forall k l, existsb (Z.eqb k) l = true <-> In k l.
Proof.
  intros k l. rewrite existsb_exists. split.
  - intros (y & Hy & E). replace k with y by lia. exact Hy.
  - intros H. exists k. split; [exact H|apply Z.eqb_refl].
Qed.

Lemma c10_nondecreasing_const : forall c l, c10_nondecreasing (map (fun _ : item => c) l) = true.
Proof. intros c. induction l as [|x [|y l] IH]; cbn in *; [reflexivity|reflexivity|]. rewrite Z.leb_refl. exact IH. Qed.

Lemma c10_nondecreasing_app : forall l1 l2 c1 c2, c1 <= c2 ->
  Forall (fun x => x = c1) l1 -> Forall (fun x => c2 <= x) l2 -> c10_nondecreasing l2 = true ->
  c10_nondecreasing (l1 ++ l2) = true.
Proof.
  induction l1 as [|x l1 IH]; intros l2 c1 c2 Hc H1 H2 Hn; [exact Hn|].
  inversion H1 as [|? ? Hx Hr]; subst. cbn [app].
  destruct l1 as [|y l1].
  - cbn [app]. destruct l2 as [|z l2]; [reflexivity|]. cbn [c10_nondecreasing]. inversion H2; subst.
    apply andb_true_iff. split; [lia|exact Hn].
  - pose proof Hr as Hr'. inversion Hr'; subst. cbn [app c10_nondecreasing]. apply andb_true_iff. split; [lia|].
    apply (IH l2 c1 c2); auto.
Qed.

(* ================= the final maps after cook ================= *)
Definition item_abs (a : c10_abs) (s : c10_sec) (it : item) : Prop := c10_find (abs_get a s) (fst it) = Some (snd it).

(* a map related to an abstract map, after its derived tag d was set to v: every written item is the derived one or
   an abstract entry *)
Lemma items_after_set_derived : forall a s m d v, sec_rel s m (abs_get a s) -> is_derived s d = true ->
  (forall v0 ms, c10_find (abs_get a s) d = Some (v0, ms) -> ms = []) ->
  forall it, In it (sec_items (fm_set_bytes m d v)) ->
    it = (d, (v, [])) \/ (fst it <> d /\ item_abs a s it).
Proof.
  intros a s m d v H Hd Hsc it Hin.
  pose proof (sec_rel_set_derived s m (abs_get a s) d v H Hd Hsc) as H'.
  unfold sec_items, items_of in Hin. apply in_map_iff in Hin as [t [Eit Ht]]; subst it. apply sorted_tags_in in Ht.
  destruct (sec_rel_good _ _ _ t H' Ht) as (f & Hf & Hshape). unfold getd. rewrite Hf.
  destruct (Z.eq_dec t d) as [->|Hne].
  - left. destruct H' as (_ & _ & Hlk). specialize (Hlk d). rewrite Hf in Hlk.
    assert (Hsnd : forall f0, lk_get (fm_lookup m) d = Some f0 -> snd f0 = []).
    { intros f0 Hf0. destruct H as (_ & _ & Hlk0). specialize (Hlk0 d). rewrite Hf0 in Hlk0.
      destruct Hlk0 as (_ & [Hfind|[_ Hnil]]); [|exact Hnil].
      unfold entry_of in Hfind. apply Hsc in Hfind. apply map_tv_pair_nil. exact Hfind. }
    rewrite (fm_set_bytes_scalar m d v Hsnd) in Hf. cbn [fm_lookup] in Hf. rewrite lk_get_put_same in Hf.
    inversion Hf; subst. reflexivity.
  - right. split; [exact Hne|]. unfold item_abs. cbn [fst snd].
    destruct H' as (_ & _ & Hlk). specialize (Hlk t). rewrite Hf in Hlk. destruct Hlk as (_ & [Hfind|[Hder _]]); [exact Hfind|].
    exfalso. unfold is_derived in *. destruct s; try discriminate; lia.
Qed.

Lemma items_plain : forall a s m, sec_rel s m (abs_get a s) -> (forall t, is_derived s t = false) ->
  forall it, In it (sec_items m) -> item_abs a s it.
Proof.
  intros a s m H Hnd it Hin. unfold sec_items, items_of in Hin. apply in_map_iff in Hin as [t [Eit Ht]]; subst it.
  apply sorted_tags_in in Ht. destruct (sec_rel_good _ _ _ t H Ht) as (f & Hf & Hshape). unfold getd, item_abs. rewrite Hf.
  cbn [fst snd]. destruct H as (_ & _ & Hlk). specialize (Hlk t). rewrite Hf in Hlk.
  destruct Hlk as (_ & [Hfind|[Hder _]]); [exact Hfind|]. rewrite Hnd in Hder. discriminate.
Qed.

Lemma fixstd_trailer_cases : forall t, fixstd_is_trailer t = true -> t = 93 \/ t = 89 \/ t = 10.
Proof. intros t H. unfold fixstd_is_trailer, fixstd_mem, fixstd_trailer_tags in H. cbn [existsb] in H. lia. Qed.
Lemma fixstd_trailer_not_header : forall t, fixstd_is_trailer t = true -> fixstd_is_header t = false.
Proof. intros t H. destruct (fixstd_trailer_cases t H) as [-> | [-> | ->]]; reflexivity. Qed.
Lemma fixstd_body_counts : forall t, fixstd_is_body t = true -> c11_counts t = true.
Proof.
  intros t H. unfold c11_counts, TAG_BEGIN_STRING, TAG_BODY_LENGTH, TAG_CHECK_SUM.
  destruct (t =? 8) eqn:E8; [assert (t = 8) by lia; subst; discriminate|].
  destruct (t =? 9) eqn:E9; [assert (t = 9) by lia; subst; discriminate|].
  destruct (t =? 10) eqn:E10; [assert (t = 10) by lia; subst; discriminate|]. reflexivity.
Qed.

Lemma val_ok_soh_free : forall v, c10_val_ok v = true -> soh_free v = true.
Proof.
  unfold c10_val_ok, soh_free. induction v as [|b v IH]; intros H; cbn [forallb] in *; [reflexivity|].
  apply andb_true_iff in H as [Hb Hv]. rewrite (IH Hv), andb_true_r. lia.
Qed.
Lemma val_ok_nonneg : forall v, c10_val_ok v = true -> Forall (fun b => 0 <= b) v.
Proof.
  unfold c10_val_ok. induction v as [|b v IH]; intros H; cbn [forallb] in *; [constructor|].
  apply andb_true_iff in H as [Hb Hv]. constructor; [lia|apply IH; exact Hv].
Qed.
Lemma itoa_soh_free : forall z, soh_free (itoa z) = true.
Proof.
  intros z. unfold soh_free. apply forallb_forall. intros c Hc. destruct (itoa_bytes z c Hc) as [->|Hd]; [reflexivity|].
  unfold is_digit, CH0, CH9, SOH in *. lia.
Qed.
Lemma itoa_nonneg_bytes : forall z, Forall (fun b => 0 <= b) (itoa z).
Proof.
  intros z. apply Forall_forall. intros c Hc. destruct (itoa_bytes z c Hc) as [->|Hd]; [unfold MINUS; lia|].
  unfold is_digit, CH0, CH9 in *. lia.
Qed.
Lemma repeat_soh_free : forall n, soh_free (repeat CH0 n) = true.
Proof. intros n. apply forallb_forall. intros c Hc. apply repeat_spec in Hc. subst. reflexivity. Qed.
Lemma soh_free_app : forall a b, soh_free (a ++ b) = soh_free a && soh_free b.
Proof. intros. apply forallb_app. Qed.
Lemma itoa_pad_soh_free : forall w z, soh_free (itoa_pad w z) = true.
Proof.
  intros w z. unfold itoa_pad, pad_zeros. destruct (z <? 0).
  - change (soh_free (MINUS :: ?l)) with (soh_free l).
    change (soh_free (MINUS :: repeat CH0 (w - 1 - length (itoa (- z))) ++ itoa (- z)))
      with (soh_free (repeat CH0 (w - 1 - length (itoa (- z))) ++ itoa (- z))).
    rewrite soh_free_app, repeat_soh_free, itoa_soh_free. reflexivity.
  - rewrite soh_free_app, repeat_soh_free, itoa_soh_free. reflexivity.
Qed.

Lemma bytes_total_nonneg : forall l, Forall (fun b => 0 <= b) l -> 0 <= bytes_total l.
Proof. unfold bytes_total. induction l as [|b l IH]; intros H; cbn [fold_right]; [lia|]. inversion H; subst. specialize (IH H3). lia. Qed.

Lemma ser_field_total_nonneg : forall t v, Forall (fun b => 0 <= b) v -> 0 <= bytes_total (ser_field (t, v)).
Proof.
  intros t v Hv. apply bytes_total_nonneg. unfold ser_field. cbn [fst snd]. rewrite !Forall_app.
  repeat split; try (repeat constructor; unfold EQ, SOH; lia); [apply itoa_nonneg_bytes|exact Hv].
Qed.

(* ================= the built bytes are well-formed ================= *)
Lemma c10_wf_intro : forall bs a fs tops,
  scan bs = Some fs -> c10_walk a fs [] = (tops, 0) ->
  NoDup (map snd tops) ->
  (forall k, In k (c10_keys a) -> In k (map snd tops)) ->
  (exists r, map snd tops = 8 :: 9 :: 35 :: r) -> last (map snd tops) 0 = TAG_CHECK_SUM ->
  c10_nondecreasing (map fst tops) = true ->
  c10_value_of fs TAG_BODY_LENGTH = itoa (body_length_of bs) ->
  c10_value_of fs TAG_CHECK_SUM = itoa_pad 3 (checksum_of bs) ->
  c10_wf bs a = 0.
Proof.
  intros bs a fs tops Hscan Hwalk Hnd Hkeys (r & Hlead) Hlast Hmono Hbl Hcs.
  unfold c10_wf. rewrite Hscan, Hwalk. cbn [negb Z.eqb].
  replace (c10_nodup (map snd tops)) with true by (symmetry; apply c10_nodup_iff; exact Hnd). cbn [negb].
  replace (forallb (fun k => existsb (Z.eqb k) (map snd tops)) (c10_keys a)) with true.
  2:{ symmetry. apply forallb_forall. intros k Hk. apply existsb_eqb_in, Hkeys, Hk. }
  cbn [negb]. rewrite Hlast. rewrite Hlead at 1. rewrite Z.eqb_refl. cbn [andb negb]. rewrite Hmono. cbn [negb].
  rewrite Hbl, Hcs, !beq_bytes_refl. reflexivity.
Qed.

Lemma find_skip_app : forall (p : Z * bytes -> bool) front z, forallb (fun f => negb (p f)) front = true -> p z = true ->
  find p (front ++ [z]) = Some z.
Proof.
  induction front as [|x front IH]; intros z Hf Hz; cbn [app find]; [rewrite Hz; reflexivity|].
  cbn [forallb] in Hf. apply andb_true_iff in Hf as [Hx Hr]. destruct (p x); [discriminate|]. apply IH; assumption.
Qed.

Lemma last_app_single {A} (l : list A) (x d : A) : last (l ++ [x]) d = x.
Proof. apply last_last. Qed.

Lemma go_rem_mod : forall x, 0 <= x -> go_rem x 256 = x mod 256.
Proof. intros x Hx. unfold go_rem. apply Z.rem_mod_nonneg; lia. Qed.

Lemma NoDup_app_intro {A} (l1 l2 : list A) : NoDup l1 -> NoDup l2 -> (forall x, In x l1 -> ~ In x l2) -> NoDup (l1 ++ l2).
Proof.
  induction l1 as [|x l1 IH]; intros H1 H2 Hd; [exact H2|]. inversion H1 as [|? ? Hx Hr]; subst. cbn [app]. constructor.
  - rewrite in_app_iff. intros [H|H]; [tauto|]. apply (Hd x); [left; reflexivity|exact H].
  - apply IH; auto. intros y Hy. apply Hd. right. exact Hy.
Qed.

Lemma items_of_tags : forall lk tags, map fst (items_of lk tags) = tags.
Proof. intros lk tags. unfold items_of. rewrite map_map. cbn [fst]. apply map_id. Qed.
Lemma items_of_app : forall lk t1 t2, items_of lk (t1 ++ t2) = items_of lk t1 ++ items_of lk t2.
Proof. intros. unfold items_of. apply map_app. Qed.

Lemma in_flat : forall its f, In f (flat its) -> exists it, In it its /\ (f = (fst it, fst (snd it)) \/ In f (snd (snd it))).
Proof.
  induction its as [|it its IH]; intros f H; [destruct H|]. rewrite flat_cons in H. apply in_app_iff in H as [H|H].
  - exists it. split; [left; reflexivity|]. destruct H as [H|H]; [left; symmetry; exact H|right; exact H].
  - destruct (IH f H) as (it' & Hin & Hc). exists it'. split; [right; exact Hin|exact Hc].
Qed.

Lemma set_bytes_has : forall m t v, lk_has (fm_lookup (fm_set_bytes m t v)) t = true.
Proof.
  intros m t v. unfold fm_set_bytes, lk_has. destruct (lk_get (fm_lookup m) t); cbn [fm_lookup]; rewrite lk_get_put_same; reflexivity.
Qed.

Lemma sorted_tags_has : forall m t, fm_rep m -> (In t (fm_sorted_tags m) <-> lk_has (fm_lookup m) t = true).
Proof. intros m t (_ & _ & Hiff). rewrite sorted_tags_in, Hiff. symmetry. apply lk_has_in_keys. Qed.

Definition fine_field (f : Z * bytes) : Prop := 0 < fst f < 1000000000000000000 /\ soh_free (snd f) = true /\ Forall (fun b => 0 <= b) (snd f).

Lemma member_fine : forall f, c10_member_ok f = true -> fine_field f /\ fixstd_is_body (fst f) = true.
Proof.
  intros f H. unfold c10_member_ok in H. repeat (apply andb_true_iff in H as [H ?]).
  split; [|assumption]. split; [lia|]. split; [apply val_ok_soh_free; assumption|apply val_ok_nonneg; assumption].
Qed.

Lemma itoa_pad_nonneg_bytes : forall w z, Forall (fun b => 0 <= b) (itoa_pad w z).
Proof.
  intros w z. unfold itoa_pad, pad_zeros. destruct (z <? 0).
  - constructor; [unfold MINUS; lia|]. apply Forall_app. split; [|apply itoa_nonneg_bytes].
    apply Forall_forall. intros c Hc. apply repeat_spec in Hc. subst. unfold CH0. lia.
  - apply Forall_app. split; [|apply itoa_nonneg_bytes].
    apply Forall_forall. intros c Hc. apply repeat_spec in Hc. subst. unfold CH0. lia.
Qed.

Section WfCore.
Variable a : c10_abs.
Hypothesis Hok : abs_ok a.

Lemma abs_entry_fine : forall s it, item_abs a s it ->
  c10_tag_in_sec s (fst it) = true /\ fine_field (fst it, fst (snd it)) /\
  Forall (fun f => fine_field f /\ fixstd_is_body (fst f) = true) (snd (snd it)) /\
  (snd (snd it) <> [] -> c10_framing (fst it) = false).
Proof.
  intros s [t e] H. unfold item_abs in H. cbn [fst snd] in *. destruct (Hok s t e H) as (Htag & Hval & Hms & Hfr).
  split; [exact Htag|]. split.
  - split; cbn [fst snd]; [unfold c10_tag_in_sec in Htag; lia|]. split; [apply val_ok_soh_free; exact Hval|apply val_ok_nonneg; exact Hval].
  - split; [|exact Hfr]. apply Forall_forall. intros f Hf. apply member_fine. rewrite forallb_forall in Hms. apply Hms. exact Hf.
Qed.

Lemma sec_class : forall s t, c10_tag_in_sec s t = true ->
  match s with SecHeader => fixstd_is_header t | SecBody => fixstd_is_body t | SecTrailer => fixstd_is_trailer t end = true.
Proof. intros s t H. unfold c10_tag_in_sec in H. apply andb_true_iff in H as [_ H]. exact H. Qed.

Lemma abs_other_section : forall s s' t e, c10_find (abs_get a s) t = Some e -> s <> s' -> c10_find (abs_get a s') t = None.
Proof.
  intros s s' t e H Hne. destruct (c10_find (abs_get a s') t) as [e'|] eqn:E; [|reflexivity]. exfalso.
  pose proof (sec_class s t (proj1 (Hok s t e H))) as C1. pose proof (sec_class s' t (proj1 (Hok s' t e' E))) as C2.
  unfold fixstd_is_body in *.
  destruct s, s'; try congruence; try (rewrite C1 in C2; cbn in C2; discriminate);
    try (rewrite C2 in C1; cbn in C1; try discriminate; rewrite ?andb_false_r in C1; discriminate);
    try (rewrite (fixstd_trailer_not_header t C1) in C2; discriminate);
    try (rewrite (fixstd_trailer_not_header t C2) in C1; discriminate).
  - rewrite C1 in C2. rewrite andb_false_r in C2. discriminate.
Qed.
End WfCore.

Lemma wf_core : forall a Fh Fb Ft L C, abs_ok a ->
  sec_rel SecHeader Fh (abs_h a) -> sec_rel SecBody Fb (abs_b a) -> sec_rel SecTrailer Ft (abs_t a) ->
  (forall it, In it (sec_items Fh) -> it = (9, (itoa L, [])) \/ (fst it <> 9 /\ item_abs a SecHeader it)) ->
  (forall it, In it (sec_items Fb) -> item_abs a SecBody it) ->
  (forall it, In it (sec_items Ft) -> it = (10, (itoa_pad 3 C, [])) \/ (fst it <> 10 /\ item_abs a SecTrailer it)) ->
  lk_has (fm_lookup Fh) 9 = true -> lk_has (fm_lookup Ft) 10 = true ->
  c10_has a SecHeader TAG_BEGIN_STRING = true -> c10_has a SecHeader TAG_MSG_TYPE = true ->
  L = fm_length Fh + fm_length Fb + fm_length Ft ->
  C = go_rem (fm_total Fh + fm_total Fb + fm_total Ft) 256 ->
  c10_wf (fm_write Fh ++ fm_write Fb ++ fm_write Ft) a = 0.
Proof.
  intros a Fh Fb Ft L C Hok Rh Rb Rt Ch Cb Ct G9 G10 H8 H35 HL HC.
  set (Ih := sec_items Fh) in *. set (Ib := sec_items Fb) in *. set (It := sec_items Ft) in *.
  set (fs := flat Ih ++ flat Ib ++ flat It).
  assert (Ebs : fm_write Fh ++ fm_write Fb ++ fm_write Ft = ser fs).
  { unfold fs. rewrite !ser_app. rewrite (fm_write_items _ _ _ Rh), (fm_write_items _ _ _ Rb), (fm_write_items _ _ _ Rt). reflexivity. }
  (* classes of the top-level tags *)
  assert (Kh : forall it, In it Ih -> fixstd_is_header (fst it) = true).
  { intros it Hin. destruct (Ch it Hin) as [->|[_ Habs]]; [reflexivity|].
    apply (sec_class SecHeader). apply (abs_entry_fine a Hok SecHeader it Habs). }
  assert (Kb : forall it, In it Ib -> fixstd_is_body (fst it) = true).
  { intros it Hin. apply (sec_class SecBody). apply (abs_entry_fine a Hok SecBody it (Cb it Hin)). }
  assert (Kt : forall it, In it It -> fixstd_is_trailer (fst it) = true).
  { intros it Hin. destruct (Ct it Hin) as [->|[_ Habs]]; [reflexivity|].
    apply (sec_class SecTrailer). apply (abs_entry_fine a Hok SecTrailer it Habs). }
  (* every written field is fine; members are body fields *)
  assert (Fine : forall f, In f fs -> fine_field f).
  { intros f Hf. unfold fs in Hf. rewrite !in_app_iff in Hf.
    assert (Hcase : exists s it, (In it Ih /\ s = SecHeader \/ In it Ib /\ s = SecBody \/ In it It /\ s = SecTrailer) /\
                      (f = (fst it, fst (snd it)) \/ In f (snd (snd it)))).
    { destruct Hf as [Hf|[Hf|Hf]]; apply in_flat in Hf as (it & Hin & Hc).
      - exists SecHeader, it. tauto. - exists SecBody, it. tauto. - exists SecTrailer, it. tauto. }
    destruct Hcase as (s & it & Hwhere & Hc).
    assert (Hit : it = (9, (itoa L, [])) \/ it = (10, (itoa_pad 3 C, [])) \/ item_abs a s it).
    { destruct Hwhere as [[Hin ->]|[[Hin ->]|[Hin ->]]].
      - destruct (Ch it Hin) as [->|[_ Ha]]; tauto.
      - right; right. apply Cb. exact Hin.
      - destruct (Ct it Hin) as [->|[_ Ha]]; tauto. }
    destruct Hit as [->|[->|Habs]].
    - cbn [fst snd] in Hc. destruct Hc as [->|[]]. split; [cbn; lia|]. split; [apply itoa_soh_free|apply itoa_nonneg_bytes].
    - cbn [fst snd] in Hc. destruct Hc as [->|[]]. split; [cbn; lia|]. split; [apply itoa_pad_soh_free|apply itoa_pad_nonneg_bytes].
    - destruct (abs_entry_fine a Hok s it Habs) as (_ & Htop & Hms & _). destruct Hc as [->|Hm]; [exact Htop|].
      rewrite Forall_forall in Hms. apply Hms. exact Hm. }
  assert (Hscan : scan (ser fs) = Some fs).
  { apply scan_ser. apply Forall_forall. intros f Hf. destruct (Fine f Hf) as (H1 & H2 & _). split; [lia|exact H2]. }
  (* the walk *)
  assert (Wh : Forall (walk_ok a 0) Ih).
  { apply Forall_forall. intros it Hin. unfold walk_ok. destruct (Ch it Hin) as [->|[Hne Habs]].
    - cbn [fst snd]. unfold c10_live. destruct (c10_find (abs_h a) 9) as [[v' ms']|].
      + exists v', ms'. split; [reflexivity|left; split; reflexivity].
      + exists [], []. split; [reflexivity|left; split; reflexivity].
    - destruct it as [t [v ms]]. unfold item_abs in Habs. cbn [fst snd abs_get] in *. exists v, ms. unfold c10_live. rewrite Habs.
      split; [reflexivity|]. right. split; [|split; reflexivity].
      pose proof (Kh _ Hin) as Kc. cbn [fst] in Kc. unfold c10_derived, TAG_BODY_LENGTH, TAG_CHECK_SUM.
      destruct (t =? 10) eqn:E; [assert (t = 10) by lia; subst; discriminate|]. lia. }
  assert (Wb : Forall (walk_ok a 1) Ib).
  { apply Forall_forall. intros it Hin. unfold walk_ok. pose proof (Cb it Hin) as Habs. pose proof (Kb it Hin) as Kc.
    destruct it as [t [v ms]]. unfold item_abs in Habs. cbn [fst snd abs_get] in *. exists v, ms. unfold c10_live.
    pose proof (abs_other_section a Hok SecBody SecHeader t _ Habs ltac:(discriminate)) as N1. cbn [abs_get] in N1. rewrite N1.
    assert (t <> 9 /\ t <> 10) by (split; intros ->; discriminate).
    replace (t =? TAG_BODY_LENGTH) with false by (unfold TAG_BODY_LENGTH; lia). rewrite Habs.
    split; [reflexivity|]. right. split; [|split; reflexivity]. unfold c10_derived, TAG_BODY_LENGTH, TAG_CHECK_SUM. lia. }
  assert (Wt : Forall (walk_ok a 2) It).
  { apply Forall_forall. intros it Hin. unfold walk_ok. destruct (Ct it Hin) as [->|[Hne Habs]].
    - cbn [fst snd]. unfold c10_live.
      assert (N1 : c10_find (abs_h a) 10 = None).
      { destruct (c10_find (abs_h a) 10) as [e|] eqn:E; [|reflexivity]. pose proof (sec_class SecHeader 10 (proj1 (Hok SecHeader 10 e E))). discriminate. }
      assert (N2 : c10_find (abs_b a) 10 = None).
      { destruct (c10_find (abs_b a) 10) as [e|] eqn:E; [|reflexivity]. pose proof (sec_class SecBody 10 (proj1 (Hok SecBody 10 e E))). discriminate. }
      rewrite N1, N2. cbn [Z.eqb TAG_BODY_LENGTH]. change (10 =? TAG_BODY_LENGTH) with false. cbv iota.
      destruct (c10_find (abs_t a) 10) as [[v' ms']|].
      + exists v', ms'. split; [reflexivity|left; split; reflexivity].
      + exists [], []. split; [reflexivity|left; split; reflexivity].
    - pose proof (Kt it Hin) as Kc. destruct it as [t [v ms]]. unfold item_abs in Habs. cbn [fst snd abs_get] in *. exists v, ms. unfold c10_live.
      pose proof (abs_other_section a Hok SecTrailer SecHeader t _ Habs ltac:(discriminate)) as N1. cbn [abs_get] in N1. rewrite N1.
      pose proof (abs_other_section a Hok SecTrailer SecBody t _ Habs ltac:(discriminate)) as N2. cbn [abs_get] in N2. rewrite N2.
      assert (t <> 9) by (destruct (fixstd_trailer_cases t Kc) as [-> | [-> | ->]]; discriminate).
      replace (t =? TAG_BODY_LENGTH) with false by (unfold TAG_BODY_LENGTH; lia). rewrite Habs.
      split; [reflexivity|]. right. split; [|split; reflexivity]. unfold c10_derived, TAG_BODY_LENGTH, TAG_CHECK_SUM. lia. }
  set (tops := map (fun it : item => (0, fst it)) Ih ++ map (fun it : item => (1, fst it)) Ib ++ map (fun it : item => (2, fst it)) It).
  assert (Hwalk : c10_walk a fs [] = (tops, 0)).
  { unfold fs, tops. rewrite (c10_walk_items a 0 Ih _ Wh). rewrite (c10_walk_items a 1 Ib _ Wb).
    rewrite <- (app_nil_r (flat It)). rewrite (c10_walk_items a 2 It [] Wt). cbn [c10_walk fst snd]. rewrite app_nil_r. reflexivity. }
  (* the tag lists *)
  set (Th := fm_sorted_tags Fh) in *. set (Tb := fm_sorted_tags Fb) in *. set (Tt := fm_sorted_tags Ft) in *.
  assert (Etags : map snd tops = Th ++ Tb ++ Tt).
  { unfold tops. rewrite !map_app, !map_map. cbn [snd]. unfold Ih, Ib, It, sec_items.
    change (fun x : item => fst x) with (@fst Z c10_entry). rewrite !items_of_tags. reflexivity. }
  assert (EIh : Ih = items_of (fm_lookup Fh) Th) by reflexivity.
  assert (EIt : It = items_of (fm_lookup Ft) Tt) by reflexivity.
  assert (NDh : NoDup Th).
  { unfold Th, fm_sorted_tags. apply (Permutation_NoDup (Permutation_sym (tags_sort_perm _ _))). apply Rh. }
  assert (NDb : NoDup Tb).
  { unfold Tb, fm_sorted_tags. apply (Permutation_NoDup (Permutation_sym (tags_sort_perm _ _))). apply Rb. }
  assert (NDt : NoDup Tt).
  { unfold Tt, fm_sorted_tags. apply (Permutation_NoDup (Permutation_sym (tags_sort_perm _ _))). apply Rt. }
  assert (InItems : forall lk tags t, In t tags -> exists it, In it (items_of lk tags) /\ fst it = t).
  { intros lk tags t Ht. exists (t, entry_of (getd lk t)). split; [|reflexivity]. unfold items_of. apply in_map_iff. exists t. tauto. }
  assert (Khs : forall t, In t Th -> fixstd_is_header t = true).
  { intros t Ht. destruct (InItems (fm_lookup Fh) Th t Ht) as (it & Hin & <-). apply Kh. exact Hin. }
  assert (Kbs : forall t, In t Tb -> fixstd_is_body t = true).
  { intros t Ht. destruct (InItems (fm_lookup Fb) Tb t Ht) as (it & Hin & <-). apply Kb. exact Hin. }
  assert (Kts : forall t, In t Tt -> fixstd_is_trailer t = true).
  { intros t Ht. destruct (InItems (fm_lookup Ft) Tt t Ht) as (it & Hin & <-). apply Kt. exact Hin. }
  assert (Hnd : NoDup (map snd tops)).
  { rewrite Etags. apply NoDup_app_intro; [exact NDh| |].
    - apply NoDup_app_intro; [exact NDb|exact NDt|]. intros x Hx Hx'. pose proof (Kbs x Hx) as K1. pose proof (Kts x Hx') as K2.
      unfold fixstd_is_body in K1. rewrite K2 in K1. rewrite andb_false_r in K1. discriminate.
    - intros x Hx Hx'. pose proof (Khs x Hx) as K1. apply in_app_iff in Hx' as [Hx'|Hx'].
      + pose proof (Kbs x Hx') as K2. unfold fixstd_is_body in K2. rewrite K1 in K2. discriminate.
      + pose proof (Kts x Hx') as K2. rewrite (fixstd_trailer_not_header x K2) in K1. discriminate. }
  (* keys *)
  assert (HasIn : forall s F am k, sec_rel s F am -> c10_find am k <> None -> is_derived s k = false -> In k (fm_sorted_tags F)).
  { intros s F am k R Hk Hd. apply (sorted_tags_has F k (proj1 R)). unfold lk_has. destruct R as (_ & _ & Hlk). specialize (Hlk k).
    destruct (lk_get (fm_lookup F) k); [reflexivity|]. destruct Hlk as [Hn|Hd']; congruence. }
  assert (In9 : In 9 Th) by (apply (sorted_tags_has Fh 9 (proj1 Rh)); exact G9).
  assert (In10 : In 10 Tt) by (apply (sorted_tags_has Ft 10 (proj1 Rt)); exact G10).
  assert (Hkeys : forall k, In k (c10_keys a) -> In k (map snd tops)).
  { intros k Hk. rewrite Etags. unfold c10_keys in Hk. rewrite !in_app_iff.
    destruct Hk as [<-|[<-|Hk]]; [left; exact In9|right; right; exact In10|].
    rewrite !in_app_iff in Hk. destruct Hk as [Hk|[Hk|Hk]]; apply c10_find_in_keys in Hk.
    - left. destruct (Z.eq_dec k 9) as [->|Hne]; [exact In9|]. apply (HasIn SecHeader Fh (abs_h a)); auto. cbn. unfold TAG_BODY_LENGTH. lia.
    - right; left. apply (HasIn SecBody Fb (abs_b a)); auto.
    - right; right. destruct (Z.eq_dec k 10) as [->|Hne]; [exact In10|]. apply (HasIn SecTrailer Ft (abs_t a)); auto. cbn. unfold TAG_CHECK_SUM. lia. }
  (* shape of header and trailer tags *)
  assert (In8 : In 8 Th).
  { apply (HasIn SecHeader Fh (abs_h a)); [exact Rh| |reflexivity]. unfold c10_has in H8. cbn [abs_get] in H8. unfold TAG_BEGIN_STRING in H8.
    destruct (c10_find (abs_h a) 8); [discriminate|discriminate]. }
  assert (In35 : In 35 Th).
  { apply (HasIn SecHeader Fh (abs_h a)); [exact Rh| |reflexivity]. unfold c10_has in H35. cbn [abs_get] in H35. unfold TAG_MSG_TYPE in H35.
    destruct (c10_find (abs_h a) 35); [discriminate|discriminate]. }
  assert (Sh : exists rh, Th = 8 :: 9 :: 35 :: rh).
  { apply header_sorted_lead; auto. unfold Th, fm_sorted_tags. destruct Rh as (Hrep & Hord & _). rewrite Hord. cbn [sec_ord fm_compare].
    apply (tags_sort_sorted any_tag); [apply header_order_strict_total|apply Forall_any_tag|apply Hrep]. }
  assert (St : exists rt, Tt = rt ++ [10]).
  { apply trailer_sorted_last; auto. unfold Tt, fm_sorted_tags. destruct Rt as (Hrep & Hord & _). rewrite Hord. cbn [sec_ord fm_compare].
    apply (tags_sort_sorted any_tag); [apply trailer_order_strict_total|apply Forall_any_tag|apply Hrep]. }
  destruct Sh as [rh ETh]. destruct St as [rt ETt].
  (* the wire list: 8, 9, then counting fields, then 10 *)
  assert (Hshape : exists v8 mid, fs = (8, v8) :: (9, itoa L) :: mid ++ [(10, itoa_pad 3 C)] /\
                                  forallb (fun f => c11_counts (fst f)) mid = true).
  { set (lkh := fm_lookup Fh) in *. set (lkt := fm_lookup Ft) in *.
    assert (E9 : (9, entry_of (getd lkh 9)) = (9, (itoa L, []))).
    { destruct (Ch (9, entry_of (getd lkh 9))) as [E|[Hne _]]; [|exact E|cbn in Hne; congruence].
      rewrite EIh, ETh. cbn [items_of map]. right; left. reflexivity. }
    assert (E10 : (10, entry_of (getd lkt 10)) = (10, (itoa_pad 3 C, []))).
    { destruct (Ct (10, entry_of (getd lkt 10))) as [E|[Hne _]]; [|exact E|cbn in Hne; congruence].
      rewrite EIt, ETt, items_of_app. apply in_app_iff. right. left. reflexivity. }
    assert (E8 : exists v8, flat_item (8, entry_of (getd lkh 8)) = [(8, v8)]).
    { destruct (Ch (8, entry_of (getd lkh 8))) as [E|[_ Habs]]; [|discriminate E|].
      - rewrite EIh, ETh. left. reflexivity.
      - destruct (abs_entry_fine a Hok SecHeader _ Habs) as (_ & _ & _ & Hfr). cbn [fst snd] in Hfr.
        destruct (entry_of (getd lkh 8)) as [v ms]. cbn [snd] in Hfr. destruct ms as [|x ms].
        + exists v. reflexivity.
        + assert (c10_framing 8 = false) by (apply Hfr; discriminate). discriminate. }
    destruct E8 as [v8 E8].
    exists v8, (flat (items_of lkh (35 :: rh)) ++ flat Ib ++ flat (items_of lkt rt)). split.
    - unfold fs. rewrite EIh, EIt, ETh, ETt, items_of_app.
      change (items_of lkh (8 :: 9 :: 35 :: rh)) with ((8, entry_of (getd lkh 8)) :: (9, entry_of (getd lkh 9)) :: items_of lkh (35 :: rh)).
      rewrite !flat_cons, E8, E9. change (items_of lkt [10]) with [(10, entry_of (getd lkt 10))]. rewrite E10.
      rewrite flat_app. cbn [flat flat_item map concat fst snd app]. rewrite <- !app_assoc. reflexivity.
    - apply forallb_forall. intros f Hf. rewrite !in_app_iff in Hf.
      assert (Hcase : exists it, (In it (items_of lkh (35 :: rh)) \/ In it Ib \/ In it (items_of lkt rt)) /\
                        (f = (fst it, fst (snd it)) \/ In f (snd (snd it)))).
      { destruct Hf as [Hf|[Hf|Hf]]; apply in_flat in Hf as (it & Hin & Hc); exists it; tauto. }
      destruct Hcase as (it & Hwhere & Hc).
      assert (Hit : (exists s, item_abs a s it) /\ c11_counts (fst it) = true).
      { destruct Hwhere as [Hin|[Hin|Hin]].
        - assert (Hin' : In it Ih) by (rewrite EIh, ETh; right; right; exact Hin).
          assert (Ht : In (fst it) (35 :: rh)) by (rewrite <- (items_of_tags lkh (35 :: rh)); apply in_map; exact Hin).
          rewrite ETh in NDh. inversion NDh as [|? ? N8 ND1]; subst. inversion ND1 as [|? ? N9 ND2]; subst.
          assert (fst it <> 8) by (intros E; apply N8; right; rewrite <- E; exact Ht).
          assert (fst it <> 9) by (intros E; apply N9; rewrite <- E; exact Ht).
          split.
          + destruct (Ch it Hin') as [->|[_ Ha]]; [cbn in *; congruence|]. exists SecHeader. exact Ha.
          + pose proof (Kh it Hin') as Kc. unfold c11_counts, TAG_BEGIN_STRING, TAG_BODY_LENGTH, TAG_CHECK_SUM.
            destruct (fst it =? 10) eqn:E; [assert (fst it = 10) by lia; rewrite H1 in Kc; discriminate|]. lia.
        - split; [exists SecBody; apply Cb; exact Hin|]. apply fixstd_body_counts, Kb, Hin.
        - assert (Hin' : In it It) by (rewrite EIt, ETt, items_of_app; apply in_app_iff; left; exact Hin).
          assert (Ht : In (fst it) rt) by (rewrite <- (items_of_tags lkt rt); apply in_map; exact Hin).
          assert (fst it <> 10).
          { intros E. rewrite ETt in NDt. apply NoDup_remove_2 in NDt. apply NDt. rewrite app_nil_r. rewrite <- E. exact Ht. }
          split.
          + destruct (Ct it Hin') as [->|[_ Ha]]; [cbn in *; congruence|]. exists SecTrailer. exact Ha.
          + pose proof (Kt it Hin') as Kc. destruct (fixstd_trailer_cases _ Kc) as [E | [E | E]]; rewrite E; try reflexivity. congruence. }
      destruct Hit as [[s Habs] Hcnt]. destruct Hc as [->|Hm]; [exact Hcnt|].
      destruct (abs_entry_fine a Hok s it Habs) as (_ & _ & Hms & _). rewrite Forall_forall in Hms.
      apply fixstd_body_counts. apply (Hms f Hm). }
  destruct Hshape as (v8 & mid & Efs & Hmid).
  assert (Hscannable : Forall field_scannable fs).
  { apply Forall_forall. intros f Hf. destruct (Fine f Hf) as (H1 & H2 & _). split; [lia|exact H2]. }
  assert (Hlen : L = c11_body_length fs).
  { rewrite HL. rewrite (fm_length_items _ _ _ Rh), (fm_length_items _ _ _ Rb), (fm_length_items _ _ _ Rt).
    unfold fs. rewrite !c11_body_length_app. fold Ih Ib It. lia. }
  assert (Htot : fm_total Fh + fm_total Fb + fm_total Ft = wire_total fs).
  { rewrite (fm_total_items _ _ _ Rh), (fm_total_items _ _ _ Rb), (fm_total_items _ _ _ Rt).
    unfold fs, wire_total. rewrite !zsum_on_app. fold Ih Ib It. lia. }
  apply (c10_wf_intro _ a fs tops); rewrite ?Ebs; auto.
  - exists (rh ++ Tb ++ Tt). rewrite Etags, ETh. reflexivity.
  - rewrite Etags, ETt, !app_assoc. apply last_app_single.
  - unfold tops. rewrite !map_app, !map_map. cbn [fst].
    apply (c10_nondecreasing_app _ _ 0 1); [lia| | |].
    + apply Forall_forall. intros x Hx. apply in_map_iff in Hx as (? & <- & _). reflexivity.
    + apply Forall_app. split; apply Forall_forall; intros x Hx; apply in_map_iff in Hx as (? & <- & _); lia.
    + apply (c10_nondecreasing_app _ _ 1 2); [lia| | |apply c10_nondecreasing_const].
      * apply Forall_forall. intros x Hx. apply in_map_iff in Hx as (? & <- & _). reflexivity.
      * apply Forall_forall. intros x Hx. apply in_map_iff in Hx as (? & <- & _). lia.
  - (* BodyLength *)
    assert (Ev : c10_value_of fs TAG_BODY_LENGTH = itoa L) by (rewrite Efs; reflexivity).
    rewrite Ev. f_equal. rewrite Hlen. rewrite Efs in Hscannable |- *. rewrite (body_length_of_ser _ _ _ _ Hscannable).
    apply c11_body_length_framed; try reflexivity. exact Hmid.
  - (* CheckSum *)
    rewrite Efs in Hscannable |- *.
    change ((8, v8) :: (9, itoa L) :: mid ++ [(10, itoa_pad 3 C)]) with (((8, v8) :: (9, itoa L) :: mid) ++ [(10, itoa_pad 3 C)]) in Hscannable |- *.
    rewrite (checksum_of_ser _ _ Hscannable).
    assert (Hfront : forallb (fun f : Z * bytes => negb (fst f =? TAG_CHECK_SUM)) ((8, v8) :: (9, itoa L) :: mid) = true).
    { cbn [forallb fst]. apply forallb_forall. intros f Hf. rewrite forallb_forall in Hmid. specialize (Hmid f Hf).
      unfold c11_counts in Hmid. lia. }
    unfold c10_value_of. rewrite (find_skip_app (fun f => fst f =? TAG_CHECK_SUM) _ (10, itoa_pad 3 C) Hfront eq_refl). cbn [snd].
    f_equal. rewrite HC, Htot, Efs.
    change ((8, v8) :: (9, itoa L) :: mid ++ [(10, itoa_pad 3 C)]) with (((8, v8) :: (9, itoa L) :: mid) ++ [(10, itoa_pad 3 C)]).
    unfold wire_total. rewrite zsum_on_app. unfold zsum_on at 2. cbn [fold_right fst]. change (10 =? TAG_CHECK_SUM) with true. cbv iota.
    assert (Esum : zsum_on (fun f : Z * bytes => if fst f =? TAG_CHECK_SUM then 0 else bytes_total (ser_field f)) ((8, v8) :: (9, itoa L) :: mid)
                 = fold_right (fun f acc => bytes_total (ser_field f) + acc) 0 ((8, v8) :: (9, itoa L) :: mid)).
    { change (fold_right (fun f acc => bytes_total (ser_field f) + acc) 0 ((8, v8) :: (9, itoa L) :: mid)) with (zsum_on (fun f => bytes_total (ser_field f)) ((8, v8) :: (9, itoa L) :: mid)).
      apply zsum_on_ext. intros f Hf. rewrite forallb_forall in Hfront. specialize (Hfront f Hf). destruct (fst f =? TAG_CHECK_SUM); [discriminate|reflexivity]. }
    rewrite Esum. rewrite go_rem_mod; [f_equal; cbn [fold_right]; lia|].
    assert (Hnn : forall l, (forall f, In f l -> fine_field f) -> 0 <= fold_right (fun f acc => bytes_total (ser_field f) + acc) 0 l).
    { induction l as [|f l IHl]; intros Hl; cbn [fold_right]; [lia|].
      assert (0 <= bytes_total (ser_field f)).
      { destruct f as [tf vf]. apply ser_field_total_nonneg. apply (Hl (tf, vf) (or_introl eq_refl)). }
      assert (0 <= fold_right (fun f0 acc => bytes_total (ser_field f0) + acc) 0 l) by (apply IHl; intros g Hg; apply Hl; right; exact Hg).
      lia. }
    assert (0 <= fold_right (fun f acc => bytes_total (ser_field f) + acc) 0 ((8, v8) :: (9, itoa L) :: mid)).
    { apply Hnn. intros f Hf. apply Fine. rewrite Efs. change ((8, v8) :: (9, itoa L) :: mid ++ [(10, itoa_pad 3 C)]) with (((8, v8) :: (9, itoa L) :: mid) ++ [(10, itoa_pad 3 C)]).
      apply in_app_iff. left. exact Hf. }
    lia.
Qed.

Lemma fm_fold_set_derived : forall g s m am d v, sec_rel s m am -> 
  (forall v0 ms, c10_find am d = Some (v0, ms) -> ms = []) ->
  (forall x, g (tv_init d x, []) = 0) ->
  fm_fold g (fm_lookup (fm_set_bytes m d v)) = fm_fold g (fm_lookup m).
Proof.
  intros g s m am d v H Hsc Hg.
  assert (Hsnd : forall f, lk_get (fm_lookup m) d = Some f -> f = (tv_init d (tv_value (fst f)), [])).
  { intros f Hf. destruct H as (_ & _ & Hlk). specialize (Hlk d). rewrite Hf in Hlk. destruct Hlk as (Hshape & Hcase).
    assert (snd f = []).
    { destruct Hcase as [Hfind|[_ Hnil]]; [|exact Hnil]. unfold entry_of in Hfind. apply Hsc in Hfind. apply map_tv_pair_nil. exact Hfind. }
    rewrite Hshape at 1. unfold fld_of, entry_of. cbn [fst snd]. rewrite H. reflexivity. }
  rewrite fm_set_bytes_scalar.
  - cbn [fm_lookup]. rewrite fm_fold_put, Hg. destruct (lk_get (fm_lookup m) d) as [f|] eqn:E; [|lia].
    rewrite (Hsnd f eq_refl), Hg. lia.
  - intros f Hf. rewrite (Hsnd f Hf). reflexivity.
Qed.

Theorem build_wellformed : forall m a, abs_ok a -> msg_rel m a ->
  c10_has a SecHeader TAG_BEGIN_STRING = true -> c10_has a SecHeader TAG_MSG_TYPE = true ->
  c10_wf (snd (msg_build m)) a = 0.
Proof.
  intros m a Hok Hrel H8 H35.
  assert (Hsc : forall s d v0 ms, is_derived s d = true -> c10_find (abs_get a s) d = Some (v0, ms) -> ms = []).
  { intros s d v0 ms Hd Hf. destruct (Hok s d (v0, ms) Hf) as (_ & _ & _ & Hfr). cbn [snd] in Hfr.
    destruct ms as [|x ms]; [reflexivity|]. exfalso. assert (c10_framing d = false) by (apply Hfr; discriminate).
    unfold c10_framing, is_derived in *. destruct s; try discriminate; lia. }
  pose proof (Hrel SecHeader) as Rh0. pose proof (Hrel SecBody) as Rb. pose proof (Hrel SecTrailer) as Rt0.
  cbn [msg_sec abs_get] in Rh0, Rb, Rt0.
  assert (S9 : forall v0 ms, c10_find (abs_h a) 9 = Some (v0, ms) -> ms = []) by (intros v0 ms; apply (Hsc SecHeader TAG_BODY_LENGTH v0 ms eq_refl)).
  assert (S10 : forall v0 ms, c10_find (abs_t a) 10 = Some (v0, ms) -> ms = []) by (intros v0 ms; apply (Hsc SecTrailer TAG_CHECK_SUM v0 ms eq_refl)).
  unfold msg_build, msg_cook. cbn [snd m_header m_body m_trailer]. unfold fm_set_int, fm_set_string, fix_int_write, format_check_sum.
  eapply wf_core; try eassumption.
  - apply sec_rel_set_derived; [exact Rh0|reflexivity|exact S9].
  - apply sec_rel_set_derived; [exact Rt0|reflexivity|exact S10].
  - apply (items_after_set_derived a SecHeader (m_header m)); [exact Rh0|reflexivity|exact S9].
  - apply (items_plain a SecBody (m_body m)); [exact Rb|reflexivity].
  - apply (items_after_set_derived a SecTrailer (m_trailer m)); [exact Rt0|reflexivity|exact S10].
  - apply set_bytes_has.
  - apply set_bytes_has.
  - change (fm_length ?x) with (fm_fold field_length (fm_lookup x)).
    rewrite (fm_fold_set_derived field_length SecHeader (m_header m) (abs_h a) TAG_BODY_LENGTH _ Rh0 S9) by reflexivity.
    rewrite (fm_fold_set_derived field_length SecTrailer (m_trailer m) (abs_t a) TAG_CHECK_SUM _ Rt0 S10) by reflexivity.
    reflexivity.
  - change (fm_total (fm_set_bytes (m_trailer m) TAG_CHECK_SUM ?v)) with (fm_fold field_total (fm_lookup (fm_set_bytes (m_trailer m) TAG_CHECK_SUM v))).
    rewrite (fm_fold_set_derived field_total SecTrailer (m_trailer m) (abs_t a) TAG_CHECK_SUM _ Rt0 S10) by reflexivity.
    reflexivity.
Qed.

(* C10 for every proper operation program *)
Theorem run_ops_wellformed : forall ops, c10_proper ops = true ->
  c10_wf (snd (msg_build (msg_run_ops ops))) (c10_abs_run ops) = 0.
Proof.
  intros ops H. unfold c10_proper, c10_proper_gen in H. apply andb_true_iff in H as [H H35]. apply andb_true_iff in H as [Hops H8].
  destruct (run_rel false ops new_message abs_empty abs_ok_empty msg_rel_new Hops) as [Hok Hrel].
  apply build_wellformed; assumption.
Qed.

(* ================= regression witness: a scalar set over a live repeating group ================= *)
(* Before the repair of getOrCreate (which returned the alias f[:1] and left the stored slice long) this program built
   453=0 followed by the stale members 448=A 447=B; it is proper, hence well-formed now. *)
Definition c10_set_over_group_program : list c10_op :=
  [ OpSet SecHeader 8 [70; 73; 88; 46; 52; 46; 50];      (* 8=FIX.4.2 *)
    OpSet SecHeader 35 [68];                               (* 35=D *)
    OpSetGroup SecBody 453 [448; 447] [[(448, [65]); (447, [66])]];   (* NoPartyIDs=1: 448=A 447=B *)
    OpSet SecBody 453 [48] ].                              (* SetInt(453, 0) *)

Lemma c10_set_over_group_wellformed : c10_proper c10_set_over_group_program = true /\
  c10_proper_strict c10_set_over_group_program = false /\
  c10_wf (snd (msg_build (msg_run_ops c10_set_over_group_program))) (c10_abs_run c10_set_over_group_program) = 0 /\
  snd (msg_build (msg_run_ops c10_set_over_group_program)) =
    ser [(8, [70; 73; 88; 46; 52; 46; 50]); (9, [49; 49]); (35, [68]); (453, [48]); (10, [50; 51; 54])].
Proof. vm_compute. repeat split; reflexivity. Qed.

(* non-vacuity: a proper program with overwrite, remove->set, clear->set, a group, a copy and an intermediate build *)
Definition c10_example_program : list c10_op :=
  [ OpSet SecHeader 8 [70; 73; 88; 46; 52; 46; 50]; OpSet SecHeader 35 [68];
    OpSet SecBody 55 [65]; OpRemove SecBody 55; OpSet SecBody 55 [66];
    OpSetGroup SecBody 453 [448; 447] [[(448, [65]); (447, [66])]; [(448, [67])]];
    OpBuild; OpCopy [(SecBody, 58, [120])];
    OpClear SecTrailer; OpSet SecTrailer 93 [51]; OpSet SecTrailer 89 [97; 98; 99]; OpSet SecHeader 49 [83] ].
Lemma c10_example_proper : c10_proper c10_example_program = true.
Proof. vm_compute. reflexivity. Qed.

(* ================= parsing the built bytes gives the fields back ================= *)
From QF Require Import Codec.Parse Codec.ParseProofs.

Lemma built_shape : forall a Fh Fb Ft L C, abs_ok a ->
  sec_rel SecHeader Fh (abs_h a) -> sec_rel SecBody Fb (abs_b a) -> sec_rel SecTrailer Ft (abs_t a) ->
  (forall it, In it (sec_items Fh) -> it = (9, (itoa L, [])) \/ (fst it <> 9 /\ item_abs a SecHeader it)) ->
  (forall it, In it (sec_items Fb) -> item_abs a SecBody it) ->
  (forall it, In it (sec_items Ft) -> it = (10, (itoa_pad 3 C, [])) \/ (fst it <> 10 /\ item_abs a SecTrailer it)) ->
  lk_has (fm_lookup Fh) 9 = true -> lk_has (fm_lookup Ft) 10 = true ->
  c10_has a SecHeader TAG_BEGIN_STRING = true -> c10_has a SecHeader TAG_MSG_TYPE = true ->
  L = fm_length Fh + fm_length Fb + fm_length Ft ->
  c10_has a SecHeader TAG_XML_DATA_LEN = false ->
  exists v8 v35 mid,
    fm_write Fh ++ fm_write Fb ++ fm_write Ft = ser ((8, v8) :: (9, itoa L) :: (35, v35) :: mid ++ [(10, itoa_pad 3 C)]) /\
    forallb (fun f => c11_counts (fst f)) mid = true /\
    (forall f, In f ((8, v8) :: (9, itoa L) :: (35, v35) :: mid ++ [(10, itoa_pad 3 C)]) -> fine_field f /\ fst f <> TAG_XML_DATA_LEN) /\
    L = c11_body_length ((8, v8) :: (9, itoa L) :: (35, v35) :: mid ++ [(10, itoa_pad 3 C)]).
Proof.
  intros a Fh Fb Ft L C Hok Rh Rb Rt Ch Cb Ct G9 G10 H8 H35 HL H212.
  set (Ih := sec_items Fh) in *. set (Ib := sec_items Fb) in *. set (It := sec_items Ft) in *.
  set (fs := flat Ih ++ flat Ib ++ flat It).
  assert (Ebs : fm_write Fh ++ fm_write Fb ++ fm_write Ft = ser fs).
  { unfold fs. rewrite !ser_app. rewrite (fm_write_items _ _ _ Rh), (fm_write_items _ _ _ Rb), (fm_write_items _ _ _ Rt). reflexivity. }
  assert (Kh : forall it, In it Ih -> fixstd_is_header (fst it) = true).
  { intros it Hin. destruct (Ch it Hin) as [->|[_ Habs]]; [reflexivity|].
    apply (sec_class SecHeader). apply (abs_entry_fine a Hok SecHeader it Habs). }
  assert (Kb : forall it, In it Ib -> fixstd_is_body (fst it) = true).
  { intros it Hin. apply (sec_class SecBody). apply (abs_entry_fine a Hok SecBody it (Cb it Hin)). }
  assert (Kt : forall it, In it It -> fixstd_is_trailer (fst it) = true).
  { intros it Hin. destruct (Ct it Hin) as [->|[_ Habs]]; [reflexivity|].
    apply (sec_class SecTrailer). apply (abs_entry_fine a Hok SecTrailer it Habs). }
  assert (Fine : forall f, In f fs -> fine_field f /\ fst f <> TAG_XML_DATA_LEN).
  { intros f Hf. unfold fs in Hf. rewrite !in_app_iff in Hf.
    assert (Hcase : exists s it, (In it Ih /\ s = SecHeader \/ In it Ib /\ s = SecBody \/ In it It /\ s = SecTrailer) /\
                      (f = (fst it, fst (snd it)) \/ In f (snd (snd it)))).
    { destruct Hf as [Hf|[Hf|Hf]]; apply in_flat in Hf as (it & Hin & Hc).
      - exists SecHeader, it. tauto. - exists SecBody, it. tauto. - exists SecTrailer, it. tauto. }
    destruct Hcase as (s & it & Hwhere & Hc).
    assert (Hit : it = (9, (itoa L, [])) \/ it = (10, (itoa_pad 3 C, [])) \/ (item_abs a s it /\ fst it <> TAG_XML_DATA_LEN)).
    { destruct Hwhere as [[Hin ->]|[[Hin ->]|[Hin ->]]].
      - destruct (Ch it Hin) as [->|[_ Ha]]; [tauto|]. right; right. split; [exact Ha|]. intros E. unfold item_abs in Ha. rewrite E in Ha.
        unfold c10_has in H212. rewrite Ha in H212. discriminate.
      - right; right. split; [apply Cb; exact Hin|]. intros E. pose proof (Kb it Hin) as K. rewrite E in K. discriminate.
      - destruct (Ct it Hin) as [->|[_ Ha]]; [tauto|]. right; right. split; [exact Ha|]. intros E. pose proof (Kt it Hin) as K. rewrite E in K. discriminate. }
    destruct Hit as [->|[->|[Habs Hn212]]].
    - cbn [fst snd] in Hc. destruct Hc as [->|[]]. split; [|cbn; discriminate]. split; [cbn; lia|]. split; [apply itoa_soh_free|apply itoa_nonneg_bytes].
    - cbn [fst snd] in Hc. destruct Hc as [->|[]]. split; [|cbn; discriminate]. split; [cbn; lia|]. split; [apply itoa_pad_soh_free|apply itoa_pad_nonneg_bytes].
    - destruct (abs_entry_fine a Hok s it Habs) as (_ & Htop & Hms & _). destruct Hc as [->|Hm]; [split; [exact Htop|exact Hn212]|].
      rewrite Forall_forall in Hms. destruct (Hms f Hm) as [Hff Hbody]. split; [exact Hff|]. intros E. rewrite E in Hbody. discriminate. }
  set (Th := fm_sorted_tags Fh) in *. set (Tt := fm_sorted_tags Ft) in *.
  assert (EIh : Ih = items_of (fm_lookup Fh) Th) by reflexivity.
  assert (EIt : It = items_of (fm_lookup Ft) Tt) by reflexivity.
  assert (NDh : NoDup Th).
  { unfold Th, fm_sorted_tags. apply (Permutation_NoDup (Permutation_sym (tags_sort_perm _ _))). apply Rh. }
  assert (NDt : NoDup Tt).
  { unfold Tt, fm_sorted_tags. apply (Permutation_NoDup (Permutation_sym (tags_sort_perm _ _))). apply Rt. }
  assert (HasIn : forall s F am k, sec_rel s F am -> c10_find am k <> None -> is_derived s k = false -> In k (fm_sorted_tags F)).
  { intros s F am k R Hk Hd. apply (sorted_tags_has F k (proj1 R)). unfold lk_has. destruct R as (_ & _ & Hlk). specialize (Hlk k).
    destruct (lk_get (fm_lookup F) k); [reflexivity|]. destruct Hlk as [Hn|Hd']; congruence. }
  assert (In9 : In 9 Th) by (apply (sorted_tags_has Fh 9 (proj1 Rh)); exact G9).
  assert (In10 : In 10 Tt) by (apply (sorted_tags_has Ft 10 (proj1 Rt)); exact G10).
  assert (In8 : In 8 Th).
  { apply (HasIn SecHeader Fh (abs_h a)); [exact Rh| |reflexivity]. unfold c10_has in H8. cbn [abs_get] in H8. unfold TAG_BEGIN_STRING in H8.
    destruct (c10_find (abs_h a) 8); [discriminate|discriminate]. }
  assert (In35 : In 35 Th).
  { apply (HasIn SecHeader Fh (abs_h a)); [exact Rh| |reflexivity]. unfold c10_has in H35. cbn [abs_get] in H35. unfold TAG_MSG_TYPE in H35.
    destruct (c10_find (abs_h a) 35); [discriminate|discriminate]. }
  assert (Sh : exists rh, Th = 8 :: 9 :: 35 :: rh).
  { apply header_sorted_lead; auto. unfold Th, fm_sorted_tags. destruct Rh as (Hrep & Hord & _). rewrite Hord. cbn [sec_ord fm_compare].
    apply (tags_sort_sorted any_tag); [apply header_order_strict_total|apply Forall_any_tag|apply Hrep]. }
  assert (St : exists rt, Tt = rt ++ [10]).
  { apply trailer_sorted_last; auto. unfold Tt, fm_sorted_tags. destruct Rt as (Hrep & Hord & _). rewrite Hord. cbn [sec_ord fm_compare].
    apply (tags_sort_sorted any_tag); [apply trailer_order_strict_total|apply Forall_any_tag|apply Hrep]. }
  destruct Sh as [rh ETh]. destruct St as [rt ETt].
  set (lkh := fm_lookup Fh) in *. set (lkt := fm_lookup Ft) in *.
  assert (E9 : (9, entry_of (getd lkh 9)) = (9, (itoa L, []))).
  { destruct (Ch (9, entry_of (getd lkh 9))) as [E|[Hne _]]; [|exact E|cbn in Hne; congruence].
    rewrite EIh, ETh. cbn [items_of map]. right; left. reflexivity. }
  assert (E10 : (10, entry_of (getd lkt 10)) = (10, (itoa_pad 3 C, []))).
  { destruct (Ct (10, entry_of (getd lkt 10))) as [E|[Hne _]]; [|exact E|cbn in Hne; congruence].
    rewrite EIt, ETt, items_of_app. apply in_app_iff. right. left. reflexivity. }
  assert (Escalar : forall k, (k = 8 \/ k = 35) -> exists v, flat_item (k, entry_of (getd lkh k)) = [(k, v)]).
  { intros k Hk. destruct (Ch (k, entry_of (getd lkh k))) as [E|[_ Habs]].
    - rewrite EIh, ETh. destruct Hk as [->| ->]; [left; reflexivity|right; right; left; reflexivity].
    - destruct Hk as [->| ->]; discriminate E.
    - destruct (abs_entry_fine a Hok SecHeader _ Habs) as (_ & _ & _ & Hfr). cbn [fst snd] in Hfr.
      destruct (entry_of (getd lkh k)) as [v ms]. cbn [snd] in Hfr. destruct ms as [|x ms].
      + exists v. reflexivity.
      + assert (c10_framing k = false) by (apply Hfr; discriminate). destruct Hk as [->| ->]; discriminate. }
  destruct (Escalar 8 (or_introl eq_refl)) as [v8 E8]. destruct (Escalar 35 (or_intror eq_refl)) as [v35 E35].
  set (mid := flat (items_of lkh rh) ++ flat Ib ++ flat (items_of lkt rt)).
  assert (Efs : fs = (8, v8) :: (9, itoa L) :: (35, v35) :: mid ++ [(10, itoa_pad 3 C)]).
  { unfold fs, mid. rewrite EIh, EIt, ETh, ETt, items_of_app.
    change (items_of lkh (8 :: 9 :: 35 :: rh)) with ((8, entry_of (getd lkh 8)) :: (9, entry_of (getd lkh 9)) :: (35, entry_of (getd lkh 35)) :: items_of lkh rh).
    rewrite !flat_cons, E8, E9, E35. change (items_of lkt [10]) with [(10, entry_of (getd lkt 10))]. rewrite E10.
    rewrite flat_app. cbn [flat flat_item map concat fst snd app]. rewrite <- !app_assoc. reflexivity. }
  exists v8, v35, mid. rewrite <- Efs. split; [exact Ebs|]. split; [|split; [exact Fine|]].
  - apply forallb_forall. intros f Hf. unfold mid in Hf. rewrite !in_app_iff in Hf.
    assert (Hcase : exists it, (In it (items_of lkh rh) \/ In it Ib \/ In it (items_of lkt rt)) /\
                      (f = (fst it, fst (snd it)) \/ In f (snd (snd it)))).
    { destruct Hf as [Hf|[Hf|Hf]]; apply in_flat in Hf as (it & Hin & Hc); exists it; tauto. }
    destruct Hcase as (it & Hwhere & Hc).
    assert (Hit : (exists s, item_abs a s it) /\ c11_counts (fst it) = true).
    { destruct Hwhere as [Hin|[Hin|Hin]].
      - assert (Hin' : In it Ih) by (rewrite EIh, ETh; right; right; right; exact Hin).
        assert (Ht : In (fst it) rh) by (rewrite <- (items_of_tags lkh rh); apply in_map; exact Hin).
        rewrite ETh in NDh. inversion NDh as [|? ? N8 ND1]; subst. inversion ND1 as [|? ? N9 ND2]; subst.
        assert (fst it <> 8) by (intros E; apply N8; right; right; rewrite <- E; exact Ht).
        assert (fst it <> 9) by (intros E; apply N9; right; rewrite <- E; exact Ht).
        split.
        + destruct (Ch it Hin') as [->|[_ Ha]]; [cbn in *; congruence|]. exists SecHeader. exact Ha.
        + pose proof (Kh it Hin') as Kc. unfold c11_counts, TAG_BEGIN_STRING, TAG_BODY_LENGTH, TAG_CHECK_SUM.
          destruct (fst it =? 10) eqn:E; [assert (fst it = 10) by lia; rewrite H1 in Kc; discriminate|]. lia.
      - split; [exists SecBody; apply Cb; exact Hin|]. apply fixstd_body_counts, Kb, Hin.
      - assert (Hin' : In it It) by (rewrite EIt, ETt, items_of_app; apply in_app_iff; left; exact Hin).
        assert (Ht : In (fst it) rt) by (rewrite <- (items_of_tags lkt rt); apply in_map; exact Hin).
        assert (fst it <> 10).
        { intros E. rewrite ETt in NDt. apply NoDup_remove_2 in NDt. apply NDt. rewrite app_nil_r. rewrite <- E. exact Ht. }
        split.
        + destruct (Ct it Hin') as [->|[_ Ha]]; [cbn in *; congruence|]. exists SecTrailer. exact Ha.
        + pose proof (Kt it Hin') as Kc. destruct (fixstd_trailer_cases _ Kc) as [E | [E | E]]; rewrite E; try reflexivity. congruence. }
    destruct Hit as [[s Habs] Hcnt]. destruct Hc as [->|Hm]; [exact Hcnt|].
    destruct (abs_entry_fine a Hok s it Habs) as (_ & _ & Hms & _). rewrite Forall_forall in Hms.
    apply fixstd_body_counts. apply (Hms f Hm).
  - rewrite HL. rewrite (fm_length_items _ _ _ Rh), (fm_length_items _ _ _ Rb), (fm_length_items _ _ _ Rt).
    unfold fs. rewrite !c11_body_length_app. fold Ih Ib It. lia.
Qed.

Lemma values_ok_plain : forall l, Forall (fun f => soh_free (snd f) = true /\ fst f <> TAG_XML_DATA_LEN) l -> c11_values_ok None l = true.
Proof.
  induction l as [|[t v] l IH]; intros H; [reflexivity|]. apply Forall_cons_iff in H as [[Hv Ht] Hl]. cbn [fst snd] in *.
  cbn [c11_values_ok]. rewrite Hv. replace (t =? TAG_XML_DATA_LEN) with false by lia. cbn [andb]. apply IH. exact Hl.
Qed.

Lemma c11_body_length_le_len : forall fs, c11_body_length fs <= len (ser fs).
Proof.
  induction fs as [|f fs IH]; [unfold c11_body_length, ser, len; cbn; lia|].
  unfold c11_body_length in *. cbn [fold_right]. unfold ser in *. cbn [map concat]. rewrite len_app.
  pose proof (len_nonneg (ser_field f)). destruct (c11_counts (fst f)); lia.
Qed.

Theorem build_parses_back : forall m a, abs_ok a -> msg_rel m a ->
  c10_has a SecHeader TAG_BEGIN_STRING = true -> c10_has a SecHeader TAG_MSG_TYPE = true ->
  c10_has a SecHeader TAG_XML_DATA_LEN = false -> len (snd (msg_build m)) < two63 ->
  exists fs p, snd (msg_build m) = ser fs /\ scan (ser fs) = Some fs /\
    do_parsing (ser fs) None None = Ok p /\ m_raw p = Some (ser fs) /\ m_fields p = map init_of fs /\
    forall t v, c11_last_value fs t = Some v -> fm_get_bytes (parsed_section None t p) t = Ok v.
Proof.
  intros m a Hok Hrel H8 H35 H212 Hlen.
  assert (Hsc : forall s d v0 ms, is_derived s d = true -> c10_find (abs_get a s) d = Some (v0, ms) -> ms = []).
  { intros s d v0 ms Hd Hf. destruct (Hok s d (v0, ms) Hf) as (_ & _ & _ & Hfr). cbn [snd] in Hfr.
    destruct ms as [|x ms]; [reflexivity|]. exfalso. assert (c10_framing d = false) by (apply Hfr; discriminate).
    unfold c10_framing, is_derived in *. destruct s; try discriminate; lia. }
  pose proof (Hrel SecHeader) as Rh0. pose proof (Hrel SecBody) as Rb. pose proof (Hrel SecTrailer) as Rt0.
  cbn [msg_sec abs_get] in Rh0, Rb, Rt0.
  assert (S9 : forall v0 ms, c10_find (abs_h a) 9 = Some (v0, ms) -> ms = []) by (intros v0 ms; apply (Hsc SecHeader TAG_BODY_LENGTH v0 ms eq_refl)).
  assert (S10 : forall v0 ms, c10_find (abs_t a) 10 = Some (v0, ms) -> ms = []) by (intros v0 ms; apply (Hsc SecTrailer TAG_CHECK_SUM v0 ms eq_refl)).
  revert Hlen. unfold msg_build, msg_cook. cbn [snd m_header m_body m_trailer]. unfold fm_set_int, fm_set_string, fix_int_write, format_check_sum.
  intros Hlen.
  set (L := fm_length (m_header m) + fm_length (m_body m) + fm_length (m_trailer m)) in *.
  set (Fh := fm_set_bytes (m_header m) TAG_BODY_LENGTH (itoa L)) in *.
  set (C := go_rem (fm_total Fh + fm_total (m_body m) + fm_total (m_trailer m)) 256) in *.
  set (Ft := fm_set_bytes (m_trailer m) TAG_CHECK_SUM (itoa_pad 3 C)) in *.
  destruct (built_shape a Fh (m_body m) Ft L C) as (v8 & v35 & mid & Ebs & Hmid & Hfine & HL); try assumption.
  - apply sec_rel_set_derived; [exact Rh0|reflexivity|exact S9].
  - apply sec_rel_set_derived; [exact Rt0|reflexivity|exact S10].
  - apply (items_after_set_derived a SecHeader (m_header m)); [exact Rh0|reflexivity|exact S9].
  - apply (items_plain a SecBody (m_body m)); [exact Rb|reflexivity].
  - apply (items_after_set_derived a SecTrailer (m_trailer m)); [exact Rt0|reflexivity|exact S10].
  - apply set_bytes_has.
  - apply set_bytes_has.
  - unfold L at 1. unfold Fh, Ft. change (fm_length ?x) with (fm_fold field_length (fm_lookup x)).
    rewrite (fm_fold_set_derived field_length SecHeader (m_header m) (abs_h a) TAG_BODY_LENGTH _ Rh0 S9) by reflexivity.
    rewrite (fm_fold_set_derived field_length SecTrailer (m_trailer m) (abs_t a) TAG_CHECK_SUM _ Rt0 S10) by reflexivity.
    reflexivity.
  - match type of Ebs with _ = ser ?l => set (fs := l) in * end.
    assert (Hplain : Forall plain_field fs).
    { apply Forall_forall. intros f Hf. destruct (Hfine f Hf) as [(Ht & Hs & _) _]. split; [unfold c11_tag_ok; lia|exact Hs]. }
    assert (Hwire : c11_wire_ok fs = true).
    { unfold c11_wire_ok. apply andb_true_iff. split.
      - unfold c11_framed, fs. cbn [fst]. change (8 =? TAG_BEGIN_STRING) with true. change (9 =? TAG_BODY_LENGTH) with true.
        change (35 =? TAG_MSG_TYPE) with true. cbn [andb]. fold fs.
        apply andb_true_iff. split; [apply andb_true_iff; split|].
        + apply forallb_forall. intros f Hf. rewrite Forall_forall in Hplain. apply (Hplain f Hf).
        + apply values_ok_plain. apply Forall_forall. intros f Hf. destruct (Hfine f Hf) as [(_ & Hs & _) Hn]. split; assumption.
        + rewrite rev_unit. cbn [fst]. change (10 =? TAG_CHECK_SUM) with true. cbn [andb].
          apply forallb_forall. intros f Hf. apply in_rev in Hf. rewrite forallb_forall in Hmid. specialize (Hmid f Hf).
          unfold c11_counts in Hmid. lia.
      - unfold fs at 1. rewrite <- HL. rewrite beq_bytes_refl. cbn [andb].
        pose proof (c11_body_length_le_len fs). rewrite Ebs in Hlen. unfold two63 in Hlen. lia. }
    destruct (parse_fidelity fs None None Hwire (ad_no_group_start_none fs)) as (p & Hp & Hraw & Hfields & Hret).
    exists fs, p. split; [exact Ebs|]. split.
    + apply scan_ser. apply Forall_forall. intros f Hf. destruct (Hfine f Hf) as [(Ht & Hs & _) _]. split; [lia|exact Hs].
    + split; [exact Hp|]. split; [exact Hraw|]. split; [exact Hfields|exact Hret].
Qed.

Definition c10_uses_xml_data_len (ops : list c10_op) : bool := c10_has (c10_abs_run ops) SecHeader TAG_XML_DATA_LEN.

(* C10, "parsing those bytes yields the same fields and values" *)
Theorem run_ops_parse_back : forall ops, c10_proper ops = true -> c10_uses_xml_data_len ops = false ->
  len (snd (msg_build (msg_run_ops ops))) < two63 ->
  exists fs p, snd (msg_build (msg_run_ops ops)) = ser fs /\ scan (ser fs) = Some fs /\
    do_parsing (ser fs) None None = Ok p /\ m_raw p = Some (ser fs) /\ m_fields p = map init_of fs /\
    forall t v, c11_last_value fs t = Some v -> fm_get_bytes (parsed_section None t p) t = Ok v.
Proof.
  intros ops H Hx Hlen. unfold c10_proper, c10_proper_gen in H. apply andb_true_iff in H as [H H35]. apply andb_true_iff in H as [Hops H8].
  destruct (run_rel false ops new_message abs_empty abs_ok_empty msg_rel_new Hops) as [Hok Hrel].
  apply (build_parses_back _ (c10_abs_run ops)); assumption.
Qed.
