(* fix_int.go: atoi, parseUInt, FIXInt.Read / Write.  Function-by-function model. *)
From Coq Require Import ZArith List Bool.
From QF Require Import Base.Res Base.Bytes.
Import ListNotations.
Open Scope Z_scope.

Definition E_EMPTY : Z := 1.      (* errors.New("empty bytes") *)
Definition E_FORMAT : Z := 2.     (* errors.New("invalid format") *)

(* for _, dec := range d { if dec < '0' || dec > '9' { err }; n = n*10 + (int(dec) - '0') } *)
Fixpoint parse_uint_loop (d : bytes) (n : Z) : res Z :=
  match d with
  | [] => Ok n
  | dec :: r =>
      if (dec <? CH0) || (dec >? CH9) then Err E_FORMAT
      else parse_uint_loop r (wrap64 (n * 10 + (dec - CH0)))
  end.

Definition parse_uint (d : bytes) : res Z :=
  match d with
  | [] => Err E_EMPTY
  | _ => parse_uint_loop d 0
  end.

Definition E_RANGE : Z := 3.      (* errors.New("value out of range") *)
Definition MAX_FAST_DIGITS : nat := 18.

(* unbounded decimal value of a digit string (strconv.ParseInt's accumulation before its range check) *)
Fixpoint dec_value (d : bytes) (n : Z) : Z :=
  match d with
  | [] => n
  | c :: r => dec_value r (n * 10 + (c - CH0))
  end.

(* atoiLong: texts longer than 18 bytes: same grammar, range checked through strconv.ParseInt(s, 10, 64) *)
Definition atoi_long_charset_ok (d : bytes) : bool :=
  match d with
  | [] => true
  | c :: r => (is_digit c || (c =? MINUS)) && forallb is_digit r
  end.
Definition atoi_long (d : bytes) : res Z :=
  if negb (atoi_long_charset_ok d) then Err E_FORMAT else
  match d with
  | [] => Err E_RANGE                       (* ParseInt("") is a syntax error; unreachable: len d > 18 *)
  | c :: r =>
      if c =? MINUS then
        match r with
        | [] => Err E_RANGE                 (* ParseInt("-") syntax error *)
        | _ => let v := - dec_value r 0 in if in_int64b v then Ok v else Err E_RANGE
        end
      else let v := dec_value d 0 in if in_int64b v then Ok v else Err E_RANGE
  end.

(* atoi, as repaired by the two "fix:" commits (F1 empty slice, F8 overflow) *)
Definition atoi (d : bytes) : res Z :=
  match d with
  | [] => Err E_EMPTY
  | c :: r =>
      if Nat.ltb MAX_FAST_DIGITS (length d) then atoi_long d else
      if c =? MINUS then
        match parse_uint r with
        | Ok n => Ok (wrap64 (-1 * n))
        | Err e => Err e          (* Go returns (-1)*n, err: callers look at err only *)
        | Panic => Panic
        | OutOfFuel => OutOfFuel
        end
      else parse_uint d
  end.

(* FIXInt.Read / FIXInt.Write *)
Definition fix_int_read (d : bytes) : res Z := atoi d.
Definition fix_int_write (z : Z) : bytes := itoa z.
