(* fix_int.go: atoi, parseUInt, FIXInt.Read / Write.  Function-by-function model. *)
From Coq Require Import ZArith List Bool.
From QF Require Import Base.Res Base.Bytes.
Import ListNotations.
Open Scope Z_scope.

Definition E_EMPTY : Z := 1.      (* errors.New("empty bytes") *)
Definition E_FORMAT : Z := 2.     (* errors.New("invalid format") *)

(* for _, dec := range d { if dec < '0' || dec > '9' { err }; n = n*10 + (int(dec) - '0') } *)
Fixpoint parse_uint_loop (d : bytes) (n : Z) : res Z :=
  match d with
  | [] => Ok n
  | dec :: r =>
      if (dec <? CH0) || (dec >? CH9) then Err E_FORMAT
      else parse_uint_loop r (wrap64 (n * 10 + (dec - CH0)))
  end.

Definition parse_uint (d : bytes) : res Z :=
  match d with
  | [] => Err E_EMPTY
  | _ => parse_uint_loop d 0
  end.

(* atoi, as repaired by "fix: atoi of an empty slice" (finding F1): a length check precedes d[0]. *)
Definition atoi (d : bytes) : res Z :=
  match d with
  | [] => Err E_EMPTY
  | c :: r =>
      if c =? MINUS then
        match parse_uint r with
        | Ok n => Ok (wrap64 (-1 * n))
        | Err e => Err e          (* Go returns (-1)*n, err: callers look at err only *)
        | Panic => Panic
        | OutOfFuel => OutOfFuel
        end
      else parse_uint d
  end.

(* FIXInt.Read / FIXInt.Write *)
Definition fix_int_read (d : bytes) : res Z := atoi d.
Definition fix_int_write (z : Z) : bytes := itoa z.
