(* Specification side of FIX int (C14): the grammar -?[0-9]+, the mathematical value of a text, canonical texts.
   Boolean, executable (extracted as the oracle of the correspondence check); no proofs here. *)
From Coq Require Import ZArith List Bool.
From QF Require Import Base.Res Base.Bytes Codec.FixInt.
Import ListNotations.
Open Scope Z_scope.

Definition all_digits (s : bytes) : bool := forallb is_digit s.

(* FIX int grammar: -?[0-9]+ *)
Definition int_grammar (s : bytes) : bool :=
  match s with
  | [] => false
  | c :: r => if c =? MINUS then negb (Nat.eqb (length r) 0) && all_digits r
              else all_digits s
  end.

(* the integer a grammatical text denotes (unbounded) *)
Definition int_value (s : bytes) : Z :=
  match s with
  | [] => 0
  | c :: r => if c =? MINUS then - dec_value r 0 else dec_value s 0
  end.

(* canonical text: no leading zeros, no "-0" *)
Definition canonical_int (s : bytes) : bool :=
  match s with
  | [] => false
  | c :: r =>
      if c =? MINUS then
        match r with
        | c2 :: _ => negb (c2 =? CH0) && all_digits r
        | [] => false
        end
      else all_digits s && (negb (c =? CH0) || Nat.eqb (length r) 0)
  end.

(* what FIXInt.Read must do with a text (the C14 claim for int) *)
Definition int_read_spec (s : bytes) : option Z :=
  if int_grammar s && in_int64b (int_value s) then Some (int_value s) else None.
