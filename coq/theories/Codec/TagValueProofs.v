(* Lemmas about tag_value.go's model: the separator search, parse of an init-ed field, absence of panics. *)
From Coq Require Import ZArith List Bool Lia ZifyBool.
From QF Require Import Base.Res Base.Bytes Codec.FixInt Codec.FixIntProofs Codec.TagValue Spec.FixStd.
Import ListNotations.
Open Scope Z_scope.

(* ---- index_byte ---- *)
Lemma index_byte_app_notin : forall c a b, forallb (fun x => negb (x =? c)) a = true ->
  index_byte c (a ++ c :: b) = Some (length a).
Proof.
  induction a as [|x a IH]; intros b H; cbn in *.
  - rewrite Z.eqb_refl. reflexivity.
  - apply andb_true_iff in H as [Hx Ha]. destruct (x =? c); [discriminate|].
    rewrite (IH b Ha). reflexivity.
Qed.

Lemma index_byte_some : forall c l k, index_byte c l = Some k ->
  nth_error l k = Some c /\ (k < length l)%nat /\ forallb (fun x => negb (x =? c)) (firstn k l) = true.
Proof.
  induction l as [|x l IH]; intros k H; cbn in H; [discriminate|].
  destruct (x =? c) eqn:E.
  - inversion H; subst. cbn. split; [f_equal; lia|]. split; [lia|reflexivity].
  - destruct (index_byte c l) as [j|] eqn:Ej; cbn in H; [|discriminate]. inversion H; subst.
    destruct (IH j eq_refl) as (HA & HB & HC). cbn. rewrite E. cbn. split; [exact HA|]. split; [lia|exact HC].
Qed.

Lemma index_byte_none : forall c l, index_byte c l = None -> forallb (fun x => negb (x =? c)) l = true.
Proof.
  induction l as [|x l IH]; intros H; cbn in *; [reflexivity|].
  destruct (x =? c); [discriminate|]. destruct (index_byte c l); [discriminate|]. cbn. apply IH. reflexivity.
Qed.

Lemma index_byte_firstn : forall c l k n, index_byte c l = Some k -> (k < n)%nat -> index_byte c (firstn n l) = Some k.
Proof.
  induction l as [|x l IH]; intros k n H Hn; cbn in H; [discriminate|].
  destruct n as [|n]; [lia|]. cbn. destruct (x =? c) eqn:E.
  - exact H.
  - destruct (index_byte c l) as [j|] eqn:Ej; cbn in H; [|discriminate]. inversion H; subst.
    rewrite (IH j n eq_refl); [reflexivity|lia].
Qed.

(* ---- the separator search: the fast path agrees with IndexByte whenever the first '=' is not at index 0 ---- *)
Lemma tv_sep_index_first : forall raw k, index_byte EQ raw = Some (S k) -> tv_sep_index raw = Ok (S k).
Proof.
  intros raw k H. unfold tv_sep_index, tv_is_eq_at.
  destruct raw as [|a [|b [|c [|d [|e r]]]]]; cbn in H |- *;
    repeat match goal with
    | H : context [if ?x =? EQ then _ else _] |- _ => destruct (x =? EQ) eqn:?; cbn in H
    | H : Some _ = Some _ |- _ => inversion H; clear H; subst
    | H : None = Some _ |- _ => discriminate H
    | H : Some O = Some (S _) |- _ => discriminate H
    end; try reflexivity; try discriminate.
  all: rewrite H; reflexivity.
Qed.

(* whatever path is taken, the result indexes an '=' at position >= 1 *)
Lemma tv_sep_index_ok : forall raw s, tv_sep_index raw = Ok s ->
  nth_error raw s = Some EQ /\ (1 <= s)%nat /\ (s < length raw)%nat.
Proof.
  intros raw s H. unfold tv_sep_index in H.
  assert (P : forall i, tv_is_eq_at raw i = true -> nth_error raw i = Some EQ /\ (i < length raw)%nat).
  { intros i Hi. unfold tv_is_eq_at in Hi. destruct (nth_error raw i) as [b|] eqn:E; [|discriminate].
    split; [f_equal; lia|]. apply nth_error_Some. congruence. }
  destruct (Nat.leb 5 (length raw)); cbn [andb] in H.
  - destruct (tv_is_eq_at raw 1) eqn:E1; [inversion H; subst; destruct (P _ E1); repeat split; auto; lia|].
    destruct (tv_is_eq_at raw 2) eqn:E2; [inversion H; subst; destruct (P _ E2); repeat split; auto; lia|].
    destruct (tv_is_eq_at raw 3) eqn:E3; [inversion H; subst; destruct (P _ E3); repeat split; auto; lia|].
    destruct (tv_is_eq_at raw 4) eqn:E4; [inversion H; subst; destruct (P _ E4); repeat split; auto; lia|].
    destruct (index_byte EQ raw) as [[|i]|] eqn:Ei; try discriminate. inversion H; subst.
    destruct (index_byte_some _ _ _ Ei) as (HA & HB & _). repeat split; auto; lia.
  - destruct (index_byte EQ raw) as [[|i]|] eqn:Ei; try discriminate. inversion H; subst.
    destruct (index_byte_some _ _ _ Ei) as (HA & HB & _). repeat split; auto; lia.
Qed.

(* a tag text starting with '=' is never accepted *)
Lemma atoi_eq_head : forall r, exists e, atoi (EQ :: r) = Err e.
Proof. intros r. apply atoi_rejects_nongrammar. reflexivity. Qed.

(* when the first byte is '=' parse fails (No tag / not a number), it does not panic *)
Lemma tv_sep_index_total : forall raw, tv_sep_index raw <> Panic /\ tv_sep_index raw <> OutOfFuel.
Proof.
  intros raw. unfold tv_sep_index.
  repeat match goal with |- context [if ?c then _ else _] => destruct c end; try (split; discriminate).
  destruct (index_byte EQ raw) as [[|]|]; split; discriminate.
Qed.

Lemma tv_parse_eq_head : forall r, exists e, tv_parse (EQ :: r) = Err e.
Proof.
  intros r. unfold tv_parse. destruct (tv_sep_index (EQ :: r)) as [s|e| |] eqn:Hs; cbn [bind].
  - destruct (tv_sep_index_ok _ _ Hs) as (_ & H1 & _).
    destruct s as [|s]; [lia|]. cbn [firstn]. destruct (atoi_eq_head (firstn s r)) as [e He]. rewrite He. eauto.
  - eauto.
  - destruct (tv_sep_index_total (EQ :: r)); congruence.
  - destruct (tv_sep_index_total (EQ :: r)); congruence.
Qed.

(* parse panics only when the separator is the last byte of the raw field *)
Lemma tv_parse_total_when : forall raw,
  (forall s, tv_sep_index raw = Ok s -> (S s <= Nat.pred (length raw))%nat) -> total_res (tv_parse raw).
Proof.
  intros raw H. unfold tv_parse.
  destruct (tv_sep_index_total raw) as [T1 T2].
  destruct (tv_sep_index raw) as [s|e| |] eqn:Hs; cbn [bind]; try congruence; [|apply total_err].
  destruct (atoi_total (firstn s raw)) as [A1 A2].
  destruct (atoi (firstn s raw)); try congruence; [|apply total_err].
  specialize (H s eq_refl). destruct (tv_sep_index_ok _ _ Hs) as (_ & _ & Hl).
  replace (Nat.leb (S s) (Nat.pred (length raw))) with true by (symmetry; apply Nat.leb_le; exact H).
  replace (Nat.leb 1 (length raw)) with true by (symmetry; apply Nat.leb_le; lia).
  apply total_ok.
Qed.

(* a raw field whose last byte is not '=' (extractField: it is SOH) never makes parse panic *)
Lemma tv_parse_total_last : forall raw c, nth_error raw (Nat.pred (length raw)) = Some c -> c <> EQ -> total_res (tv_parse raw).
Proof.
  intros raw c Hl Hc. apply tv_parse_total_when. intros s Hs.
  destruct (tv_sep_index_ok _ _ Hs) as (HA & HB & HC).
  assert (s <> Nat.pred (length raw)) by (intros ->; congruence). lia.
Qed.

(* ---- parse of an init-ed field ---- *)
Lemma digits_no_byte : forall d c, all_digits d = true -> is_digit c = false -> forallb (fun x => negb (x =? c)) d = true.
Proof.
  induction d as [|x d IH]; intros c H Hc; cbn in *; [reflexivity|].
  apply andb_true_iff in H as [Hx Hd]. rewrite (IH c Hd Hc), andb_true_r.
  destruct (x =? c) eqn:E; [|reflexivity]. apply Z.eqb_eq in E. subst. congruence.
Qed.

Lemma firstn_app_exact {A} (a b : list A) : firstn (length a) (a ++ b) = a.
Proof. rewrite firstn_app, Nat.sub_diag, firstn_all. cbn. apply app_nil_r. Qed.
Lemma skipn_app_exact {A} (a b : list A) : skipn (length a) (a ++ b) = b.
Proof. rewrite skipn_app, Nat.sub_diag, skipn_all. reflexivity. Qed.

Lemma tv_parse_init : forall t v, 0 <= t < two63 -> tv_parse (tv_bytes (tv_init t v)) = Ok (tv_init t v).
Proof.
  intros t v Ht. cbn [tv_init tv_bytes]. set (d := itoa t).
  assert (Hd : all_digits d = true) by (apply itoa_all_digits_nonneg; lia).
  assert (Hne : d <> []) by apply itoa_nonempty.
  assert (Hi : index_byte EQ (d ++ [EQ] ++ v ++ [SOH]) = Some (length d)).
  { cbn [app]. apply index_byte_app_notin. apply digits_no_byte; [exact Hd|reflexivity]. }
  destruct (length d) as [|k] eqn:Hk; [destruct d; [congruence|discriminate]|].
  unfold tv_parse. rewrite (tv_sep_index_first _ _ Hi). cbn [bind].
  rewrite <- Hk. rewrite firstn_app_exact. unfold d at 1. rewrite atoi_itoa by (unfold in_int64, two63 in *; lia).
  rewrite !app_length. cbn [length].
  replace (Nat.leb (S (length d)) (Nat.pred (length d + (1 + (length v + 1))))) with true by (symmetry; apply Nat.leb_le; lia).
  replace (Nat.leb 1 (length d + (1 + (length v + 1)))) with true by (symmetry; apply Nat.leb_le; lia).
  cbn [andb]. f_equal. unfold tv_init. f_equal.
  replace (S (length d)) with (length (d ++ [EQ])) by (rewrite app_length; cbn; lia).
  replace (d ++ [EQ] ++ v ++ [SOH]) with ((d ++ [EQ]) ++ v ++ [SOH]) by (rewrite <- app_assoc; reflexivity).
  rewrite skipn_app_exact. rewrite app_length. cbn [length].
  replace (Nat.pred (length d + (1 + (length v + 1))) - (length d + 1))%nat with (length v) by lia.
  apply firstn_app_exact.
Qed.
