(* field_map.go: FieldMap with its two views (ordered tag list `tags`, map `tagLookup`), function by function.
   Lemmas in FieldMapProofs.v.

   Representation.  `field` (= []TagValue of length >= 1) is a head TagValue and the list of the following ones
   (repeating-group members).  Every writer in the repository stores a non-empty slice (getOrCreate: make(field,1);
   add: fieldTag(f) = f[0] already indexes it; RepeatingGroup.Write starts with the NumInGroup field), so the empty
   slice - on which f[0] / f[:1] would panic - is outside the modelled domain of SetGroup (a user-written
   FieldGroupWriter returning an empty slice).
   `tagLookup` is a Go map: modelled as an association list with unique keys; nothing observable depends on its
   iteration order (total/length are sums). *)
From Coq Require Import ZArith List Bool.
From QF Require Import Base.Res Base.Bytes Codec.FixInt Codec.TagValue Spec.FixStd.
Import ListNotations.
Open Scope Z_scope.

Definition field : Type := (tv * list tv)%type.
Definition field_tvs (f : field) : list tv := fst f :: snd f.
(* func fieldTag(f field) Tag { return f[0].tag } *)
Definition field_tag (f : field) : Z := tv_tag (fst f).
(* func writeField(f field, buffer) *)
Definition write_field (f : field) : bytes := concat (map tv_bytes (field_tvs f)).

(* type tagOrder func(i, j Tag) bool  - the four comparators that exist in the repository *)
Inductive fm_order : Type :=
| OrdNormal                       (* normalFieldOrder: ascending tags (Body, and FieldMap.init) *)
| OrdHeader                       (* headerFieldOrdering *)
| OrdTrailer                      (* trailerFieldOrdering *)
| OrdGroup (template : list Z).   (* RepeatingGroup.groupTagOrder: position in the template, unknown tags last *)

Definition MAX_UINT32 : Z := 4294967295.
Definition MAX_INT32 : Z := 2147483647.

(* func normalFieldOrder(i, j Tag) bool { return i < j } *)
Definition normal_field_order (i j : Z) : bool := i <? j.

(* message.go headerFieldOrdering *)
Definition header_ordering_rank (t : Z) : Z :=
  if t =? TAG_BEGIN_STRING then 1 else if t =? TAG_BODY_LENGTH then 2 else if t =? TAG_MSG_TYPE then 3 else MAX_UINT32.
Definition header_field_ordering (i j : Z) : bool :=
  let oi := header_ordering_rank i in let oj := header_ordering_rank j in
  if oi <? oj then true else if oi >? oj then false else i <? j.

(* message.go trailerFieldOrdering *)
Definition trailer_field_ordering (i j : Z) : bool :=
  if i =? TAG_CHECK_SUM then false else if j =? TAG_CHECK_SUM then true else i >? j.

(* repeating_group.go groupTagOrder: tagMap[f.Tag()] = i for i, f := range template (a later duplicate wins) *)
Fixpoint group_tag_index (template : list Z) (t : Z) (i : Z) (found : Z) : Z :=
  match template with
  | [] => found
  | x :: r => group_tag_index r t (i + 1) (if x =? t then i else found)
  end.
Definition group_tag_order (template : list Z) (i j : Z) : bool :=
  group_tag_index template i 0 MAX_INT32 <? group_tag_index template j 0 MAX_INT32.

Definition fm_compare (o : fm_order) : Z -> Z -> bool :=
  match o with
  | OrdNormal => normal_field_order
  | OrdHeader => header_field_ordering
  | OrdTrailer => trailer_field_ordering
  | OrdGroup tmpl => group_tag_order tmpl
  end.

(* type FieldMap struct { tagLookup map[Tag]field; tagSort{tags []Tag; compare tagOrder}; rwLock } *)
Record fmap : Type := mk_fmap { fm_tags : list Z; fm_lookup : list (Z * field); fm_ord : fm_order }.

(* func (m *FieldMap) initWithOrdering(ordering) *)
Definition fm_init_with_ordering (o : fm_order) : fmap := mk_fmap [] [] o.
Definition fm_init : fmap := fm_init_with_ordering OrdNormal.

(* --- the Go map primitives --- *)
Fixpoint lk_get (lk : list (Z * field)) (t : Z) : option field :=
  match lk with
  | [] => None
  | (k, f) :: r => if k =? t then Some f else lk_get r t
  end.
Definition lk_has (lk : list (Z * field)) (t : Z) : bool :=
  match lk_get lk t with Some _ => true | None => false end.
(* m[t] = f *)
Fixpoint lk_put (lk : list (Z * field)) (t : Z) (f : field) : list (Z * field) :=
  match lk with
  | [] => [(t, f)]
  | (k, g) :: r => if k =? t then (k, f) :: r else (k, g) :: lk_put r t f
  end.
(* delete(m, t) *)
Fixpoint lk_del (lk : list (Z * field)) (t : Z) : list (Z * field) :=
  match lk with
  | [] => []
  | (k, g) :: r => if k =? t then lk_del r t else (k, g) :: lk_del r t
  end.

(* func (m FieldMap) Has(tag) bool *)
Definition fm_has (m : fmap) (t : Z) : bool := lk_has (fm_lookup m) t.

(* func (m FieldMap) GetBytes(tag) ([]byte, MessageRejectError): f[0].value; Err = ConditionallyRequiredFieldMissing *)
Definition E_FIELD_MISSING : Z := 21.
Definition E_FIELD_FORMAT : Z := 22.
Definition fm_get_bytes (m : fmap) (t : Z) : res bytes :=
  match lk_get (fm_lookup m) t with
  | Some f => Ok (tv_value (fst f))
  | None => Err E_FIELD_MISSING
  end.

(* func (m FieldMap) GetInt / getIntNoLock (tag) (int, MessageRejectError) *)
Definition fm_get_int (m : fmap) (t : Z) : res Z :=
  let* b := fm_get_bytes m t in
  match fix_int_read b with
  | Ok v => Ok v
  | Err _ => Err E_FIELD_FORMAT
  | Panic => Panic
  | OutOfFuel => OutOfFuel
  end.
(* `xmlDataLen, _ = getIntNoLock(tag)`: the int result when the error is dropped (0 on any error) *)
Definition fm_get_int_or_zero (m : fmap) (t : Z) : res Z :=
  match fm_get_int m t with
  | Ok v => Ok v
  | Err _ => Ok 0
  | Panic => Panic
  | OutOfFuel => OutOfFuel
  end.

(* func (m *FieldMap) getOrCreate(tag) field followed by initField(f, tag, value) = SetBytes.
   When the tag exists getOrCreate truncates the stored slice to its first element (f = f[:1]; m.tagLookup[tag] = f)
   and initField overwrites that element: a repeating group stored under the tag loses its members.
   When it does not exist a one-element field is stored and the tag appended to `tags`. *)
Definition fm_set_bytes (m : fmap) (t : Z) (value : bytes) : fmap :=
  match lk_get (fm_lookup m) t with
  | Some f => mk_fmap (fm_tags m) (lk_put (fm_lookup m) t (tv_init t value, [])) (fm_ord m)
  | None => mk_fmap (fm_tags m ++ [t]) (lk_put (fm_lookup m) t (tv_init t value, [])) (fm_ord m)
  end.
(* SetField / Set / SetString go through SetBytes with the writer's bytes; SetInt: FIXInt.Write; SetBool: Y/N *)
Definition fm_set_int (m : fmap) (t : Z) (v : Z) : fmap := fm_set_bytes m t (fix_int_write v).
Definition fm_set_string (m : fmap) (t : Z) (v : bytes) : fmap := fm_set_bytes m t v.

(* tags = append(tags[:i], tags[i+1:]...) for the first i with tags[i] == tag *)
Fixpoint tags_remove_first (t : Z) (l : list Z) : list Z :=
  match l with
  | [] => []
  | x :: r => if x =? t then r else x :: tags_remove_first t r
  end.

(* func (m *FieldMap) Remove(tag) *)
Definition fm_remove (m : fmap) (t : Z) : fmap :=
  if negb (lk_has (fm_lookup m) t) then m
  else mk_fmap (tags_remove_first t (fm_tags m)) (lk_del (fm_lookup m) t) (fm_ord m).

(* func (m *FieldMap) Clear() / clearNoLock() *)
Definition fm_clear (m : fmap) : fmap := mk_fmap [] [] (fm_ord m).

(* func (m *FieldMap) CopyInto(to *FieldMap): every field cloned whole, tags copied, comparator copied *)
Definition fm_copy_into (m : fmap) (to : fmap) : fmap :=
  mk_fmap (fm_tags m) (map (fun kf => (fst kf, (fst (snd kf), snd (snd kf)))) (fm_lookup m)) (fm_ord m).

(* func (m *FieldMap) add(f field) *)
Definition fm_add (m : fmap) (f : field) : fmap :=
  let t := field_tag f in
  mk_fmap (if lk_has (fm_lookup m) t then fm_tags m else fm_tags m ++ [t]) (lk_put (fm_lookup m) t f) (fm_ord m).

(* func (m *FieldMap) SetGroup(field FieldGroupWriter): key field.Tag(), value field.Write() *)
Definition fm_set_group (m : fmap) (t : Z) (f : field) : fmap :=
  mk_fmap (if lk_has (fm_lookup m) t then fm_tags m else fm_tags m ++ [t]) (lk_put (fm_lookup m) t f) (fm_ord m).

(* sort.Sort(m): modelled by insertion sort (DESIGN 3.5); FieldMapProofs.sorted_perm_unique shows that every correct
   sort gives this result when the comparator is a strict total order on the (distinct) tags. *)
Fixpoint tags_insert (lt : Z -> Z -> bool) (x : Z) (l : list Z) : list Z :=
  match l with
  | [] => [x]
  | y :: r => if lt y x then y :: tags_insert lt x r else x :: l
  end.
Fixpoint tags_sort (lt : Z -> Z -> bool) (l : list Z) : list Z :=
  match l with
  | [] => []
  | x :: r => tags_insert lt x (tags_sort lt r)
  end.
(* func (m *FieldMap) sortedTags() []Tag: sorts m.tags IN PLACE and returns it *)
Definition fm_sorted_tags (m : fmap) : list Z := tags_sort (fm_compare (fm_ord m)) (fm_tags m).
Definition fm_sort_in_place (m : fmap) : fmap := mk_fmap (fm_sorted_tags m) (fm_lookup m) (fm_ord m).

(* func (m FieldMap) write(buffer): walk the sorted tags, emit the field if the map has it *)
Fixpoint fm_write_tags (lk : list (Z * field)) (tags : list Z) : bytes :=
  match tags with
  | [] => []
  | t :: r => match lk_get lk t with
              | Some f => write_field f ++ fm_write_tags lk r
              | None => fm_write_tags lk r
              end
  end.
Definition fm_write (m : fmap) : bytes := fm_write_tags (fm_lookup m) (fm_sorted_tags m).

(* func (m FieldMap) total() int: over the MAP; every TagValue whose tag is not CheckSum *)
Definition field_total (f : field) : Z :=
  fold_right (fun t acc => (if tv_tag t =? TAG_CHECK_SUM then 0 else tv_total t) + acc) 0 (field_tvs f).
Definition fm_total (m : fmap) : Z := fold_right (fun kf acc => field_total (snd kf) + acc) 0 (fm_lookup m).

(* func (m FieldMap) length() int: over the MAP; every TagValue whose tag is not 8, 9, 10 *)
Definition tv_counts_in_length (t : tv) : bool :=
  negb ((tv_tag t =? TAG_BEGIN_STRING) || (tv_tag t =? TAG_BODY_LENGTH) || (tv_tag t =? TAG_CHECK_SUM)).
Definition field_length (f : field) : Z :=
  fold_right (fun t acc => (if tv_counts_in_length t then tv_length t else 0) + acc) 0 (field_tvs f).
Definition fm_length (m : fmap) : Z := fold_right (fun kf acc => field_length (snd kf) + acc) 0 (fm_lookup m).

(* observation helper for the correspondence: (tag, [(tag,value) of each TagValue]) of every stored field, by ascending key *)
Definition fm_entries (m : fmap) : list (Z * list (Z * bytes)) :=
  map (fun t => (t, match lk_get (fm_lookup m) t with Some f => map tv_pair (field_tvs f) | None => [] end))
      (tags_sort Z.ltb (map fst (fm_lookup m))).
