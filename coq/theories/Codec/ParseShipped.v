(* C11 over the shipped dictionaries: the hypothesis dict_body_only (no header / trailer tag among the members of a
   repeating group of the message definition) of c11_parse_refines_scan, c11_fidelity_groups and c11_length_* holds for
   EVERY message definition of EVERY specification under /repo/spec, with the built-in header / trailer tag lists alone
   (no transport dictionary) and with the Header / Trailer of any shipped specification as transport dictionary (in
   particular: FIX40..FIX44 with themselves, FIX50 / FIX50SP1 / FIX50SP2 with FIXT11).

   1. The translation from the built dictionary (Dict/Build.v over the generated terms Gen/Dicts/<NAME>.v) to the views
      the parser model works with (Parse.app_dict, Parse.transport_dict), and the lemmas that say the views answer the
      parser's questions as the Go maps do: Messages[msgType] (pd_ad_find), MessageDef.Fields[tag] (pd_gd_find),
      FieldDef.Fields as a slice (pd_members, pd_is_group_member), Header.Fields[tag] / Trailer.Fields[tag]
      (pd_is_header_field, pd_is_trailer_field).
   2. The closed computation (vm_compute) of ParseGroupProofs.dict_body_onlyb over all of them, and what follows:
      pd_shipped_all, and the rejection of a wrong BodyLength with no hypothesis on the dictionary left. *)
From Coq Require Import String ZArith List Bool Lia.
From QF Require Import Base.Res Base.Bytes Spec.FixStd Codec.TagValue Codec.FieldMap Codec.Build Codec.Parse Codec.Scan
  Codec.ParseProofs Codec.ParseGroupProofs Codec.ParseLengthGroups.
From QF Require Import Dict.Xml Dict.Build Gen.Dicts.Index.
Import ListNotations.
Open Scope Z_scope.

(* ------------------------------------------------------------------------------------------------ *)
(* The translation                                                                                     *)

(* *FieldDef as the parser reads it: Tag(), Fields (a slice, in order) *)
Fixpoint gdef_of_dfd (f : dict_field_def) : gdef :=
  match f with DFD ft _ fs => GDef (dft_tag ft) (map gdef_of_dfd fs) end.

(* one entry of the map MessageDef.Fields: the key, and the Fields of the value *)
Definition gdef_of_entry (tf : Z * dict_field_def) : gdef := GDef (fst tf) (map gdef_of_dfd (dfd_fields (snd tf))).

(* MessageDef.Fields.  Dict/Build keeps a Go map as an association list, newest entry first, lookup = first match;
   Parse.gd_find returns the LAST definition of a tag: the list is reversed *)
Definition pd_defs_of_dmd (m : dict_message_def) : list gdef := rev (map gdef_of_entry (dmd_fields m)).

(* DataDictionary.Messages, as the application dictionary view *)
Definition pd_app_dict (d : dict) : app_dict := map (fun nm => (fst nm, pd_defs_of_dmd (snd nm))) (dd_messages d).

(* DataDictionary.Header.Fields / Trailer.Fields, as the transport dictionary view (the keys) *)
Definition pd_tags (o : option dict_message_def) : list Z :=
  match o with Some m => map fst (dmd_fields m) | None => [] end.
Definition pd_transport (d : dict) : transport_dict := (pd_tags (dd_header d), pd_tags (dd_trailer d)).

(* ---- the views answer as the maps do ---- *)

Lemma pd_gdef_tag : forall f, gdef_tag (gdef_of_dfd f) = dfd_tag f.
Proof. intros [ft r fs]. reflexivity. Qed.

(* FieldDef.Fields *)
Lemma pd_members : forall f, gdef_members (gdef_of_dfd f) = map gdef_of_dfd (dfd_fields f).
Proof. intros [ft r fs]. reflexivity. Qed.

(* isGroupMember(tag, fd.Fields) *)
Lemma pd_is_group_member : forall t fs, is_group_member t (map gdef_of_dfd fs) = existsb (fun f => dfd_tag f =? t) fs.
Proof.
  intros t fs. unfold is_group_member. induction fs as [|f r IH]; cbn [map existsb]; [reflexivity|].
  rewrite IH, pd_gdef_tag. reflexivity.
Qed.

Lemma gd_find_snoc : forall t l g, gd_find t (l ++ [g]) = if gdef_tag g =? t then Some g else gd_find t l.
Proof.
  intros t l g. induction l as [|x r IH]; cbn [app gd_find].
  - destruct (gdef_tag g =? t); reflexivity.
  - rewrite IH. destruct (gdef_tag g =? t); [reflexivity|]. reflexivity.
Qed.

(* mm.Fields[int(tag)] *)
Lemma pd_gd_find : forall t m,
  gd_find t (pd_defs_of_dmd m) =
  option_map (fun f => GDef t (map gdef_of_dfd (dfd_fields f))) (dict_zget t (dmd_fields m)).
Proof.
  intros t m. unfold pd_defs_of_dmd. induction (dmd_fields m) as [|[k f] r IH]; [reflexivity|].
  cbn [map rev dict_zget]. rewrite gd_find_snoc. unfold gdef_of_entry at 1. cbn [gdef_tag fst snd].
  destruct (k =? t) eqn:E; [|exact IH].
  assert (k = t) by lia. subst k. reflexivity.
Qed.

Lemma pd_beq : forall a b, beq_bytes a b = dict_beq a b.
Proof.
  induction a as [|x a IH]; intros [|y b]; cbn [beq_bytes dict_beq]; [reflexivity|reflexivity|reflexivity|].
  destruct (x =? y); [exact (IH b)|reflexivity].
Qed.

(* appDataDictionary.Messages[msgt] *)
Lemma pd_ad_find : forall mt d, ad_find mt (pd_app_dict d) = option_map pd_defs_of_dmd (dict_bget mt (dd_messages d)).
Proof.
  intros mt d. unfold pd_app_dict. induction (dd_messages d) as [|[k m] r IH]; [reflexivity|].
  cbn [map ad_find dict_bget fst snd]. rewrite pd_beq. destruct (dict_beq k mt); [reflexivity|exact IH].
Qed.

Lemma pd_mem_zget {A} : forall t (l : list (Z * A)),
  fixstd_mem t (map fst l) = match dict_zget t l with Some _ => true | None => false end.
Proof.
  intros t l. unfold fixstd_mem. induction l as [|[k a] r IH]; [reflexivity|].
  cbn [map existsb dict_zget fst]. rewrite IH, (Z.eqb_sym t k). destruct (k =? t); reflexivity.
Qed.

Definition pd_has_key (t : Z) (o : option dict_message_def) : bool :=
  match o with
  | Some m => match dict_zget t (dmd_fields m) with Some _ => true | None => false end
  | None => false
  end.

(* _, ok := dataDict.Header.Fields[int(tag)] / dataDict.Trailer.Fields[int(tag)] *)
Lemma pd_is_header_field : forall t d,
  is_header_field t (Some (pd_transport d)) = tag_is_header t || pd_has_key t (dd_header d).
Proof.
  intros t d. unfold is_header_field, pd_transport, pd_tags, pd_has_key. cbn [fst].
  destruct (dd_header d) as [m|]; [rewrite pd_mem_zget|]; reflexivity.
Qed.
Lemma pd_is_trailer_field : forall t d,
  is_trailer_field t (Some (pd_transport d)) = tag_is_trailer t || pd_has_key t (dd_trailer d).
Proof.
  intros t d. unfold is_trailer_field, pd_transport, pd_tags, pd_has_key. cbn [snd].
  destruct (dd_trailer d) as [m|]; [rewrite pd_mem_zget|]; reflexivity.
Qed.

(* every message definition the view can return is the view of a message definition of the dictionary *)
Lemma pd_ad_find_in : forall mt d defs, ad_find mt (pd_app_dict d) = Some defs -> In defs (map snd (pd_app_dict d)).
Proof.
  intros mt d defs H. destruct (ad_find_in _ _ _ H) as [k Hk]. apply in_map_iff. exists (k, defs). split; [reflexivity|exact Hk].
Qed.

(* ------------------------------------------------------------------------------------------------ *)
(* The check                                                                                           *)

(* the transport dictionaries considered: none, or the Header / Trailer of a shipped specification *)
Definition pd_shipped_tds : list (option transport_dict) :=
  None :: flat_map (fun nd : bytes * xdoc => match dict_build (snd nd) with Ok d => [Some (pd_transport d)] | _ => [] end)
                   gen_dicts_shipped.

Definition pd_shipped_td (td : option transport_dict) : Prop :=
  td = None \/
  exists name doc d, In (name, doc) gen_dicts_shipped /\ dict_build doc = Ok d /\ td = Some (pd_transport d).

Lemma pd_shipped_td_in : forall td, pd_shipped_td td -> In td pd_shipped_tds.
Proof.
  intros td [E|(name & doc & d & Hin & Hb & E)]; subst td; unfold pd_shipped_tds; [apply in_eq|].
  apply in_cons. apply (proj2 (in_flat_map _ _ _)). exists (name, doc). split; [exact Hin|].
  cbn [snd]. rewrite Hb. apply in_eq.
Qed.

Definition pd_dict_okb (tds : list (option transport_dict)) (doc : xdoc) : bool :=
  match dict_build doc with
  | Ok d => forallb (fun td => forallb (fun md : bytes * list gdef => dict_body_onlyb td (snd md)) (pd_app_dict d)) tds
  | _ => false
  end.

(* for one specification used as application dictionary *)
Definition pd_shipped_statement (doc : xdoc) : Prop :=
  exists d, dict_build doc = Ok d /\
    forall td, pd_shipped_td td ->
    forall mt defs, ad_find mt (pd_app_dict d) = Some defs -> dict_body_only td defs.

Lemma pd_dict_okb_sound : forall doc, pd_dict_okb pd_shipped_tds doc = true -> pd_shipped_statement doc.
Proof.
  intros doc H. unfold pd_dict_okb in H. destruct (dict_build doc) as [d| | |] eqn:E; try discriminate.
  exists d. split; [exact E|]. intros td Htd mt defs Hfind.
  rewrite forallb_forall in H. specialize (H td (pd_shipped_td_in td Htd)). rewrite forallb_forall in H.
  destruct (ad_find_in _ _ _ Hfind) as [k Hk]. specialize (H (k, defs) Hk). cbn [snd] in H.
  apply dict_body_onlyb_sound. exact H.
Qed.

Lemma pd_shipped_compute : forallb (fun nd : bytes * xdoc => pd_dict_okb pd_shipped_tds (snd nd)) gen_dicts_shipped = true.
Proof. vm_compute. reflexivity. Qed.

Theorem pd_shipped_all : forall name doc, In (name, doc) gen_dicts_shipped -> pd_shipped_statement doc.
Proof.
  intros name doc Hin. apply pd_dict_okb_sound.
  pose proof pd_shipped_compute as H. rewrite forallb_forall in H. exact (H _ Hin).
Qed.

(* what was checked: non-vacuity.  Message definitions, repeating-group definitions at top level of a message
   definition, member tags (all depths) that were tested against the header / trailer lists *)
Definition pd_count (f : list gdef -> nat) : nat :=
  fold_right (fun (nd : bytes * xdoc) acc =>
                match dict_build (snd nd) with
                | Ok d => fold_right (fun (md : bytes * list gdef) a => f (snd md) + a) acc (pd_app_dict d)
                | _ => acc
                end)%nat O gen_dicts_shipped.
Definition pd_shipped_message_count : nat := pd_count (fun _ => 1%nat).
Definition pd_shipped_group_count : nat :=
  pd_count (fun defs => length (filter (fun g => match gdef_members g with [] => false | _ => true end) defs)).
Definition pd_shipped_member_count : nat := pd_count (fun defs => length (defs_member_tags defs)).

Lemma pd_shipped_counts :
  Z.of_nat pd_shipped_message_count = 575 /\ Z.of_nat pd_shipped_group_count = 2129 /\
  Z.of_nat (length pd_shipped_tds) = 10 /\ 0 < Z.of_nat pd_shipped_member_count.
Proof. vm_compute. repeat split; reflexivity. Qed.

(* ------------------------------------------------------------------------------------------------ *)
(* C11 with the shipped dictionaries: nothing is asked of the dictionary any more                      *)

Lemma pd_shipped_body_only : forall name doc d td mt,
  In (name, doc) gen_dicts_shipped -> dict_build doc = Ok d -> pd_shipped_td td ->
  dict_body_only td (ad_defs_of (Some (pd_app_dict d)) mt).
Proof.
  intros name doc d td mt Hin Hb Htd. destruct (pd_shipped_all name doc Hin) as (d' & Hb' & Hall).
  assert (d' = d) by congruence. subst d'.
  unfold ad_defs_of. destruct (ad_find mt (pd_app_dict d)) as [defs|] eqn:E; [exact (Hall td Htd mt defs E)|].
  intros x [].
Qed.

(* a framed message (MsgType once) whose BodyLength disagrees with its content is rejected, parsed with any shipped
   specification as application dictionary and none / any shipped specification as transport dictionary, whatever its
   MsgType (known to the dictionary or not) and whatever groups start in it *)
Theorem parse_rejects_wrong_body_length_shipped : forall name doc d td fs mt v8 v9 mid,
  In (name, doc) gen_dicts_shipped -> dict_build doc = Ok d -> pd_shipped_td td ->
  c11_framed fs = true -> fs = (8, v8) :: (9, v9) :: (35, mt) :: mid -> ~ In TAG_MSG_TYPE (map fst mid) ->
  c11_declared v9 <> Some (c11_body_length fs) -> exists e, do_parsing (ser fs) td (Some (pd_app_dict d)) = Err e.
Proof.
  intros name doc d td fs mt v8 v9 mid Hin Hb Htd Hfr Efs Hn35 Hdecl.
  apply (parse_rejects_wrong_body_length_any fs td (Some (pd_app_dict d)) mt v8 v9 mid Hfr Efs Hn35); [|exact Hdecl].
  exact (pd_shipped_body_only name doc d td mt Hin Hb Htd).
Qed.

(* and every well-formed wire message of a MsgType the shipped dictionary knows is parsed as the field-level scan says
   (c11_parse_refines_scan without its dictionary hypothesis) *)
Theorem parse_refines_scan_shipped : forall name doc d td fs mt defs v8 v9 mid res,
  In (name, doc) gen_dicts_shipped -> dict_build doc = Ok d -> pd_shipped_td td ->
  c11_wire_ok fs = true -> fs = (8, v8) :: (9, v9) :: (35, mt) :: mid -> ~ In TAG_MSG_TYPE (map fst mid) ->
  ad_find mt (pd_app_dict d) = Some defs ->
  Group.rg_scan (td_xh td) (td_xt td) (Some (map gdef_rg defs)) Group.RgTop 3%nat mid [] = Ok res ->
  exists m, do_parsing (ser fs) td (Some (pd_app_dict d)) = Ok m /\
    m_raw m = Some (ser fs) /\
    m_fields m = map init_of fs /\
    m_header m = fold_left (addH td) fs hdr0 /\
    m_trailer m = fold_left (addT td) fs trl0 /\
    m_body m = body_of fs res.
Proof.
  intros name doc d td fs mt defs v8 v9 mid res Hin Hb Htd Hok Efs Hn35 Hfind Hscan.
  apply (parse_refines_scan fs td (pd_app_dict d) mt defs v8 v9 mid res Hok Efs Hn35 Hfind); [|exact Hscan].
  destruct (pd_shipped_all name doc Hin) as (d' & Hb' & Hall).
  assert (d' = d) by congruence. subst d'. exact (Hall td Htd mt defs Hfind).
Qed.

(* non-vacuity of the hypotheses: FIX44 as application and transport dictionary knows NewOrderSingle (35=D), whose
   definition declares NoPartyIDs (453) a group with members 448, 447, 452, 802; its Header lists 27 tags, its Trailer 3 *)
Lemma pd_ex_fix44 :
  exists d defs g, In (B "FIX44"%string, FIX44.gen_dict_FIX44) gen_dicts_shipped /\ dict_build FIX44.gen_dict_FIX44 = Ok d /\
    pd_shipped_td (Some (pd_transport d)) /\
    ad_find [68] (pd_app_dict d) = Some defs /\ gd_find 453 defs = Some g /\
    map gdef_tag (gdef_members g) = [448; 447; 452; 802] /\
    length (fst (pd_transport d)) = 27%nat /\ length (snd (pd_transport d)) = 3%nat.
Proof.
  assert (Hin : In (B "FIX44"%string, FIX44.gen_dict_FIX44) gen_dicts_shipped).
  { unfold gen_dicts_shipped. do 4 apply in_cons. apply in_eq. }
  destruct (pd_shipped_all _ _ Hin) as (d & Hb & _).
  exists d.
  assert (Hc : match dict_build FIX44.gen_dict_FIX44 with
               | Ok d0 => (match ad_find [68] (pd_app_dict d0) with
                           | Some defs => match gd_find 453 defs with
                                          | Some g => map gdef_tag (gdef_members g)
                                          | None => [] end
                           | None => [] end, length (fst (pd_transport d0)), length (snd (pd_transport d0)))
               | _ => ([], O, O) end = ([448; 447; 452; 802], 27%nat, 3%nat)) by (vm_compute; reflexivity).
  rewrite Hb in Hc. injection Hc as Hc1 Hc2 Hc3.
  destruct (ad_find [68] (pd_app_dict d)) as [defs|] eqn:Ef; [|discriminate].
  destruct (gd_find 453 defs) as [g|] eqn:Eg; [|discriminate].
  exists defs, g. split; [exact Hin|]. split; [exact Hb|].
  split; [right; exists (B "FIX44"%string), FIX44.gen_dict_FIX44, d; split; [exact Hin|]; split; [exact Hb|reflexivity]|].
  split; [reflexivity|]. split; [exact Eg|]. split; [exact Hc1|]. split; [exact Hc2|exact Hc3].
Qed.
