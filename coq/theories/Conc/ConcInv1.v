(* C02 proofs, layer 1: the shape interpreter is sound for the concrete step relation:
   every thread's remaining program stays safe from its ghost abstract state, and the ghost lock bits agree
   with the real locks. Holds for EVERY shape satisfying [check_shape]. *)
From Coq Require Import ZArith List Bool Lia Arith.
From QF Require Import Conc.ShapeLang Conc.SendConc.
Import ListNotations.

(* ---------- equality tests ---------- *)
Lemma cphase_eqb_eq x y : cphase_eqb x y = true <-> x = y.
Proof. destruct x, y; cbn; split; congruence. Qed.
Lemma cqst_eqb_eq x y : cqst_eqb x y = true <-> x = y.
Proof. destruct x, y; cbn; split; congruence. Qed.
Lemma okp_eqb_eq x y : okp_eqb x y = true <-> x = y.
Proof. destruct x as [[]|], y as [[]|]; cbn; split; congruence. Qed.
Lemma cabs_eqb_eq x y : cabs_eqb x y = true -> x = y.
Proof.
  destruct x, y; unfold cabs_eqb; cbn. rewrite !andb_true_iff.
  intros [[[[[[[H1 H2] H3] H4] H5] H6] H7] H8].
  apply eqb_prop in H1, H2, H3, H7, H8. apply cphase_eqb_eq in H4. apply cqst_eqb_eq in H5. apply okp_eqb_eq in H6.
  congruence.
Qed.

(* ---------- the interpreter on lists ---------- *)
Lemma carun_s_if c t e a :
  carun_s (SIf c t e) a =
  match cbranches a c with
  | (true, true) => match carun_l t (clearn a c true), carun_l e (clearn a c false) with
                    | Some a1, Some a2 => if cabs_eqb a1 a2 then Some a1 else None | _, _ => None end
  | (true, false) => carun_l t (clearn a c true)
  | (false, true) => carun_l e (clearn a c false)
  | (false, false) => None
  end.
Proof. reflexivity. Qed.

Lemma carun_s_iter body a :
  carun_s (SIter body) a =
  match a_kp a with
  | Some _ => None
  | None => match carun_l body a with Some a' => if cabs_eqb a' a then Some a else None | None => None end
  end.
Proof. reflexivity. Qed.

Lemma carun_l_app p q a :
  carun_l (p ++ q) a = match carun_l p a with Some a' => carun_l q a' | None => None end.
Proof.
  revert a. induction p as [|x p IH]; intros a; cbn [app carun_l]; [reflexivity|].
  destruct (carun_s x a); [apply IH|reflexivity].
Qed.

Definition cfin (a : cabs) : cabs := cabs_idle (a_mayreset a) (a_needr a).

Definition catom (st : cstmt) : bool := match st with SIf _ _ _ | SIter _ => false | _ => true end.

Lemma carun_s_atom st a : catom st = true -> carun_s st a = caprim a st.
Proof. destruct st; cbn; intros; try reflexivity; discriminate. Qed.

Lemma caprim_static a st a' : caprim a st = Some a' -> a_mayreset a' = a_mayreset a /\ a_needr a' = a_needr a.
Proof.
  destruct st; cbn; try discriminate;
  repeat match goal with
         | |- context [match ?m with MSend => _ | MResR => _ | MResW => _ end] => destruct m
         | |- context [if ?b then _ else _] => destruct b
         | |- context [match a_ph a with PhIdle => _ | _ => _ end] => destruct (a_ph a)
         end; intros H; inversion H; subst; cbn; auto.
Qed.

Lemma cfin_caprim a st a' : caprim a st = Some a' -> cfin a' = cfin a.
Proof. intros H. apply caprim_static in H. destruct H as [H1 H2]. unfold cfin. now rewrite H1, H2. Qed.

Lemma clearn_static a c b : a_mayreset (clearn a c b) = a_mayreset a /\ a_needr (clearn a c b) = a_needr a.
Proof. cbn; auto. Qed.

(* ---------- well-formedness of abstract states (consequences of how caprim moves) ---------- *)
Definition cph_crit (p : cphase) : bool := match p with PhRead | PhStale | PhBuilt | PhSaved => true | _ => false end.
Definition cabs_wfb (a : cabs) : bool :=
  implb (cph_crit (a_ph a)) (a_hs a) &&
  implb (negb (cqst_eqb (a_q a) QUnknown)) (a_hs a) &&
  implb (a_needr a && a_hs a) (a_hr a) &&
  implb (a_needr a) (negb (a_hw a)) &&
  implb (a_hw a) (negb (cphase_eqb (a_ph a) PhBuilt) && negb (cphase_eqb (a_ph a) PhSaved)) &&
  implb (a_hw a) (negb (a_hr a)).

Lemma caprim_wf a st a' : caprim a st = Some a' -> cabs_wfb a = true -> cabs_wfb a' = true.
Proof.
  destruct a as [hs hr hw ph q kp mr nr].
  destruct st; try discriminate;
    try (destruct m); unfold caprim, cabs_wfb; cbn;
    destruct hs, hr, hw, nr, ph, q; cbn; try discriminate;
    try (intros H; inversion H; subst; cbn; intros; try discriminate; reflexivity).
  all: try (destruct blocking; cbn; try discriminate; intros H; inversion H; subst; cbn; intros; try discriminate; reflexivity).
Qed.

Lemma clearn_wf a c b : cabs_wfb (clearn a c b) = cabs_wfb a.
Proof. reflexivity. Qed.

Lemma cabs_idle_wf mr nr : cabs_wfb (cabs_idle mr nr) = true.
Proof. destruct nr; reflexivity. Qed.

