(* C02 — small-step concurrent model of the outbound path of quickfix's session
   (queueForSend / sendInReplyTo / dropAndSendInReplyTo / dropAndReset / SendAppMessages / resendMessages).
   The programs the threads execute are NOT written here: they are the terms generated from the Go source
   by tools/gen_shape (Gen/SendShape.v), passed in as a `cshape`.  This file gives
     - the abstract ("shape") interpreter [carun_l] whose success on a program is the shape condition,
     - the concrete shared state, thread state and the step function [cstep] (one statement of one thread),
     - [creach]: the states reachable under a schedule,
     - the specification predicates on the event trace (boolean, extracted for the differential check).
   No proofs here (ConcInv*.v). *)
From Coq Require Import ZArith List Bool Lia.
From QF Require Import Conc.ShapeLang.
Import ListNotations.
Open Scope Z_scope.

(* ---------- things on the queue / wire, events ---------- *)
Inductive citem :=
| IFirst (n : Z) (id : nat)        (* a first-time message numbered n; id identifies the built bytes *)
| IReplay (n : Z) (id : nat)       (* PossDup replay of stored message n *)
| IGap (b e : Z).                  (* SequenceReset-GapFill b -> e *)

Inductive cev :=
| EvAssign (n : Z)                 (* number n consumed (store counter incremented for a message carrying n) *)
| EvSaved (n : Z) (id : nat)       (* store.SaveMessage...(n, bytes id) *)
| EvWire (i : citem)               (* item handed to the connection (messageOut <- bytes) *)
| EvReset                          (* store.Reset(): a new epoch *)
| EvDrop                           (* dropQueued() discarded a non-empty queue *)
| EvResendBegin | EvResendEnd.     (* resendMutex.Lock() acquired / released by resendMessages *)

(* the trace is kept NEWEST FIRST *)

(* ---------- operations of threads ---------- *)
Inductive cmsg := MApp (rej : bool)  (* application message; rej: ToApp returns an error (DoNotSend) *)
                | MAdmin             (* heartbeat, test request, reject, logout, ... *)
                | MLogon (reset : bool).  (* Logon, with ResetSeqNumFlag=Y or not *)

Inductive cop :=
| OQueue (m : cmsg)                (* session.queueForSend — what SendToTarget calls from any goroutine *)
| OSend (m : cmsg)                 (* session.sendInReplyTo *)
| ODropSend (m : cmsg)             (* session.dropAndSendInReplyTo (logon, logout during logon) *)
| ODropReset                       (* session.dropAndReset *)
| OFlush                           (* stateMachine.SendAppMessages *)
| OResend (b e : Z) (rejs : list Z)(* inSession.resendMessages b e; ToApp rejects the replay of the numbers in rejs *)
| OLogonResetUnlocked              (* session.handleLogon as generated, whatever its shape (store.Reset() without sendMutex) *)
| OLogon                           (* session.handleLogon IF its generated program passes the shape check, else nothing *)
| OSetLogged (b : bool)
| OSetOut (b : bool) (room : nat). (* connect (room = free slots of messageOut) / disconnect *)

(* ---------- abstract state of the shape interpreter ---------- *)
Inductive cphase := PhIdle | PhRead | PhStale | PhBuilt | PhSaved | PhRBuilt.
Inductive cqst := QUnknown | QEmpty | QStale | QReplay.   (* what the sendMutex holder knows about toSend *)

Record cabs := {
  a_hs : bool; a_hr : bool; a_hw : bool;      (* holds sendMutex / resendMutex.R / resendMutex.W *)
  a_ph : cphase; a_q : cqst;
  a_kp : option bool;                          (* known value of "persistence enabled" on this path *)
  a_mayreset : bool;                           (* static: the message may be a Logon with ResetSeqNumFlag *)
  a_needr : bool                               (* static: the entry may run on an application goroutine *)
}.

Definition cphase_eqb (x y : cphase) : bool :=
  match x, y with PhIdle, PhIdle | PhRead, PhRead | PhStale, PhStale | PhBuilt, PhBuilt | PhSaved, PhSaved | PhRBuilt, PhRBuilt => true | _, _ => false end.
Definition cqst_eqb (x y : cqst) : bool :=
  match x, y with QUnknown, QUnknown | QEmpty, QEmpty | QStale, QStale | QReplay, QReplay => true | _, _ => false end.
Definition okp_eqb (x y : option bool) : bool :=
  match x, y with None, None => true | Some a, Some b => Bool.eqb a b | _, _ => false end.
Definition cabs_eqb (x y : cabs) : bool :=
  Bool.eqb (a_hs x) (a_hs y) && Bool.eqb (a_hr x) (a_hr y) && Bool.eqb (a_hw x) (a_hw y) &&
  cphase_eqb (a_ph x) (a_ph y) && cqst_eqb (a_q x) (a_q y) && okp_eqb (a_kp x) (a_kp y) &&
  Bool.eqb (a_mayreset x) (a_mayreset y) && Bool.eqb (a_needr x) (a_needr y).

Definition cabs_idle (mayreset needr : bool) : cabs :=
  {| a_hs := false; a_hr := false; a_hw := false; a_ph := PhIdle; a_q := QUnknown; a_kp := None;
     a_mayreset := mayreset; a_needr := needr |}.

Definition cabs_set (a : cabs) (hs hr hw : bool) (ph : cphase) (q : cqst) (kp : option bool) : cabs :=
  {| a_hs := hs; a_hr := hr; a_hw := hw; a_ph := ph; a_q := q; a_kp := kp; a_mayreset := a_mayreset a; a_needr := a_needr a |}.

(* The shape conditions, statement by statement: [caprim a st = None] means "this statement must not occur here". *)
Definition caprim (a : cabs) (st : cstmt) : option cabs :=
  let hs := a_hs a in let hr := a_hr a in let hw := a_hw a in let ph := a_ph a in let q := a_q a in let kp := a_kp a in
  match st with
  | SAcq MSend =>      (* no re-entry; an application-side sender already holds the resend read lock (lock order) *)
      if hs || (a_needr a && negb hr) then None else Some (cabs_set a true hr hw ph QUnknown None)
  | SAcq MResR => if hs || hr || hw then None else Some (cabs_set a hs true hw ph q None)
  | SAcq MResW =>      (* only the session goroutine answers ResendRequests *)
      if hs || hr || hw || negb (cphase_eqb ph PhIdle) || a_needr a then None else Some (cabs_set a hs hr true ph q None)
  | SRel MSend =>      (* nothing half done is left behind: a consumed number has been appended, a stale queue dropped *)
      if hs && (cphase_eqb ph PhIdle || cphase_eqb ph PhRead) && negb (cqst_eqb q QStale) && negb (cqst_eqb q QReplay)
      then Some (cabs_set a false hr hw PhIdle QUnknown None) else None
  | SRel MResR => if hr && negb hs then Some (cabs_set a hs false hw ph q None) else None
  | SRel MResW => if hw && negb hs && cphase_eqb ph PhIdle then Some (cabs_set a hs hr false ph q None) else None
  | SReadSnd =>        (* the number is read under sendMutex *)
      if hs && (cphase_eqb ph PhIdle || cphase_eqb ph PhRead || cphase_eqb ph PhStale) then Some (cabs_set a hs hr hw PhRead q kp) else None
  | SCallApp _ => Some a
  | SStoreReset =>     (* reset only under sendMutex; the number must be re-read; a non-empty queue becomes stale *)
      if hs then
        match ph with
        | PhIdle => Some (cabs_set a hs hr hw PhIdle (if cqst_eqb q QEmpty then QEmpty else QStale) kp)
        | PhRead => Some (cabs_set a hs hr hw PhStale (if cqst_eqb q QEmpty then QEmpty else QStale) kp)
        | _ => None
        end
      else None
  | SBuild =>          (* built from the number just read, not while answering a ResendRequest *)
      if hs && cphase_eqb ph PhRead && negb hw then Some (cabs_set a hs hr hw PhBuilt q kp) else None
  | SSaveIncr => if hs && cphase_eqb ph PhBuilt then Some (cabs_set a hs hr hw PhSaved q kp) else None
  | SIncrOnly => if hs && cphase_eqb ph PhBuilt then Some (cabs_set a hs hr hw PhSaved q kp) else None
  | SReplayBuild =>    (* a stored message is replayed only while the resend write lock is held *)
      if cphase_eqb ph PhIdle && hw then Some (cabs_set a hs hr hw PhRBuilt q kp) else None
  | SGapBuild _ _ => if cphase_eqb ph PhIdle then Some (cabs_set a hs hr hw PhRBuilt q kp) else None
  | SAppend =>         (* append under sendMutex, after the number was consumed (first-time) or of a replay item *)
      if hs && (cphase_eqb ph PhSaved || cphase_eqb ph PhRBuilt) && negb (cqst_eqb q QStale) && negb (cqst_eqb q QReplay)
      then Some (cabs_set a hs hr hw PhIdle (if cphase_eqb ph PhRBuilt then QReplay else QUnknown) kp) else None
  | SFlush b =>        (* flush under sendMutex, nothing pending; blocking while the resend write lock is held and for a replay item *)
      if hs && cphase_eqb ph PhIdle && negb (cqst_eqb q QStale) && (negb hw || b) && (negb (cqst_eqb q QReplay) || b) then Some (cabs_set a hs hr hw ph QUnknown kp) else None
  | SDropQ => if hs then Some (cabs_set a hs hr hw ph QEmpty kp) else None
  | SNotify => Some a
  | SAssign _ _ => Some a
  | SSetLogged _ | SSetOut _ => if hs || hr || hw then None else Some a
  | SIf _ _ _ | SIter _ => None
  end.

(* which branches of a condition are possible, statically *)
Definition cbranches (a : cabs) (c : ccond) : bool * bool :=   (* (then possible, else possible) *)
  match c with
  | CResetFlag => (a_mayreset a, true)
  | CNot CResetFlag => (true, a_mayreset a)
  | _ => (true, true)
  end.
(* (no path knowledge is kept in the abstract state; the persistence test is handled by [cpok_l] below) *)
Definition clearn (a : cabs) (c : ccond) (taken : bool) : cabs := a.

Fixpoint carun_s (st : cstmt) (a : cabs) {struct st} : option cabs :=
  match st with
  | SIf c t e =>
      let rt := (fix go (l : list cstmt) (a : cabs) {struct l} : option cabs :=
                   match l with [] => Some a | x :: r => match carun_s x a with Some a' => go r a' | None => None end end) t (clearn a c true) in
      let re := (fix go (l : list cstmt) (a : cabs) {struct l} : option cabs :=
                   match l with [] => Some a | x :: r => match carun_s x a with Some a' => go r a' | None => None end end) e (clearn a c false) in
      match cbranches a c with
      | (true, true) => match rt, re with Some a1, Some a2 => if cabs_eqb a1 a2 then Some a1 else None | _, _ => None end
      | (true, false) => rt
      | (false, true) => re
      | (false, false) => None
      end
  | SIter body =>      (* the body is checked from the loop head state, with no path knowledge, and must return to it *)
      match a_kp a with
      | Some _ => None
      | None =>
        match (fix go (l : list cstmt) (a : cabs) {struct l} : option cabs :=
                 match l with [] => Some a | x :: r => match carun_s x a with Some a' => go r a' | None => None end end) body a with
        | Some a' => if cabs_eqb a' a then Some a else None
        | None => None
        end
      end
  | _ => caprim a st
  end.

Fixpoint carun_l (l : list cstmt) (a : cabs) {struct l} : option cabs :=
  match l with [] => Some a | x :: r => match carun_s x a with Some a' => carun_l r a' | None => None end end.

(* an entry program is well shaped: run from the idle state it is safe on every path and ends idle *)
Definition centry_ok (mayreset needr : bool) (p : list cstmt) : bool :=
  match carun_l p (cabs_idle mayreset needr) with
  | Some a => cabs_eqb a (cabs_idle mayreset needr)
  | None => false
  end.

(* pinned text of the leaf functions whose behaviour is modelled by the SFlush / SDropQ / SNotify statements *)
Require String.
Notation string := String.string.
Delimit Scope string_scope with string.
Bind Scope string_scope with String.string.
Local Open Scope string_scope.
Import String.StringSyntax.
Definition cleaf_expected : list (string * list string) :=
  [("sendQueued", ["{"; "for i, msgBytes := range s.toSend {"; "if !s.sendBytes(msgBytes, blockUntilSent) {"; "s.toSend = s.toSend[i:]"; "s.notifyMessageOut()"; "return"; "}"; "}"; "s.dropQueued()"; "}"]);
   ("sendBytes", ["{"; "if s.messageOut == nil {"; "s.log.OnEventf(""Failed to send: disconnected"")"; "return false"; "}"; "if blockUntilSent {"; "s.messageOut <- msg"; "s.log.OnOutgoing(msg)"; "s.stateTimer.Reset(s.HeartBtInt)"; "return true"; "}"; "select {"; "case s.messageOut <- msg:"; "s.log.OnOutgoing(msg)"; "s.stateTimer.Reset(s.HeartBtInt)"; "return true"; "default:"; "return false"; "}"; "}"]);
   ("dropQueued", ["{"; "s.toSend = s.toSend[:0]"; "}"]);
   ("notifyMessageOut", ["{"; "select {"; "case s.messageEvent <- true:"; "default:"; "}"; "}"])].
Fixpoint cstrs_eqb (a b : list string) : bool :=
  match a, b with [], [] => true | x :: a', y :: b' => String.eqb x y && cstrs_eqb a' b' | _, _ => false end.
Fixpoint cleaf_eqb (a b : list (string * list string)) : bool :=
  match a, b with
  | [], [] => true
  | (n, x) :: a', (m, y) :: b' => String.eqb n m && cstrs_eqb x y && cleaf_eqb a' b'
  | _, _ => false
  end.
Local Close Scope string_scope.

(* the generated programs do not contain the model-only statement that opens/closes the connection *)
Fixpoint cnosetout_s (st : cstmt) : bool :=
  match st with
  | SSetOut _ => false
  | SIf _ t e =>
      (fix go (l : list cstmt) : bool := match l with [] => true | x :: r => cnosetout_s x && go r end) t &&
      (fix go (l : list cstmt) : bool := match l with [] => true | x :: r => cnosetout_s x && go r end) e
  | SIter b => (fix go (l : list cstmt) : bool := match l with [] => true | x :: r => cnosetout_s x && go r end) b
  | _ => true
  end.
Fixpoint cnosetout_l (l : list cstmt) : bool := match l with [] => true | x :: r => cnosetout_s x && cnosetout_l r end.

(* IncrNextSenderMsgSeqNum() without saving occurs only on the DisableMessagePersist side of a test of that setting *)
Fixpoint cpok_s (st : cstmt) : bool :=
  match st with
  | SIncrOnly => false
  | SIf c t e =>
      let ft := (fix go (l : list cstmt) : bool := match l with [] => true | x :: r => cpok_s x && go r end) t in
      let fe := (fix go (l : list cstmt) : bool := match l with [] => true | x :: r => cpok_s x && go r end) e in
      match c with
      | CNoPersist => fe
      | CNot CNoPersist => ft
      | _ => ft && fe
      end
  | SIter b => (fix go (l : list cstmt) : bool := match l with [] => true | x :: r => cpok_s x && go r end) b
  | _ => true
  end.
Fixpoint cpok_l (l : list cstmt) : bool := match l with [] => true | x :: r => cpok_s x && cpok_l r end.

(* THE shape condition on the generated programs *)
Definition check_shape (sh : cshape) : bool :=
  centry_ok false true (sh_queue sh) && centry_ok false true (sh_send sh) &&
  centry_ok true false (sh_dropsend sh) && centry_ok false false (sh_dropreset sh) &&
  centry_ok false false (sh_flush sh) && centry_ok false false (sh_resend sh) &&
  cleaf_eqb (sh_leaf sh) cleaf_expected &&
  (cnosetout_l (sh_queue sh) && cnosetout_l (sh_send sh) && cnosetout_l (sh_dropsend sh) &&
   cnosetout_l (sh_dropreset sh) && cnosetout_l (sh_flush sh) && cnosetout_l (sh_resend sh)) &&
  (cpok_l (sh_queue sh) && cpok_l (sh_send sh) && cpok_l (sh_dropsend sh) &&
   cpok_l (sh_dropreset sh) && cpok_l (sh_flush sh) && cpok_l (sh_resend sh)).

(* ---------- concrete state ---------- *)
Inductive cwr := WNone | WPend (t : nat) | WHeld (t : nat).   (* sync.RWMutex: a pending writer blocks new readers *)

Record cshared := {
  c_snd : Z;                               (* store.NextSenderMsgSeqNum() *)
  c_saved : list (Z * (nat * bool));       (* stored messages, newest binding first: n -> (bytes id, admin?) *)
  c_q : list citem;                        (* session.toSend *)
  c_logged : bool;                         (* IsLoggedOn() *)
  c_open : bool; c_room : nat;             (* messageOut != nil; free slots of the channel (non-blocking sends) *)
  c_persist : bool;                        (* !DisableMessagePersist *)
  c_owner : option nat;                    (* sendMutex *)
  c_readers : list nat; c_wr : cwr;        (* resendMutex *)
  c_nextid : nat;
  c_trace : list cev                       (* newest first *)
}.

Record cth := {
  th_pc : list cstmt; th_ops : list cop;
  th_msg : cmsg;                           (* message of the current operation / stored message being replayed *)
  th_seq : Z;                              (* local seqNum of prepMessageForSend *)
  th_pend : option citem;                  (* bytes built last *)
  th_rej : bool;                           (* last ToApp returned an error *)
  th_b : Z; th_e : Z; th_rejs : list Z;    (* resendMessages arguments *)
  th_vseq : Z; th_vnext : Z; th_sent : Z; th_sentid : nat;
  th_iter : option (list (Z * (nat * bool)));  (* IterateMessages in progress: remaining stored messages *)
  th_a : cabs                              (* GHOST: shape-interpreter state; never read by the step function *)
}.

Record cstate := { c_sh : cshared; c_ths : list cth }.

Definition cset_sh (g : cshared) snd saved q owner readers wr nextid trace : cshared :=
  {| c_snd := snd; c_saved := saved; c_q := q; c_logged := c_logged g; c_open := c_open g; c_room := c_room g;
     c_persist := c_persist g; c_owner := owner; c_readers := readers; c_wr := wr; c_nextid := nextid; c_trace := trace |}.
Definition cset_locks (g : cshared) owner readers wr trace : cshared :=
  cset_sh g (c_snd g) (c_saved g) (c_q g) owner readers wr (c_nextid g) trace.
Definition cset_store (g : cshared) snd saved trace : cshared :=
  cset_sh g snd saved (c_q g) (c_owner g) (c_readers g) (c_wr g) (c_nextid g) trace.
Definition cset_q (g : cshared) q trace : cshared :=
  cset_sh g (c_snd g) (c_saved g) q (c_owner g) (c_readers g) (c_wr g) (c_nextid g) trace.
Definition cset_env (g : cshared) logged open room : cshared :=
  {| c_snd := c_snd g; c_saved := c_saved g; c_q := c_q g; c_logged := logged; c_open := open; c_room := room;
     c_persist := c_persist g; c_owner := c_owner g; c_readers := c_readers g; c_wr := c_wr g; c_nextid := c_nextid g; c_trace := c_trace g |}.

Definition cset_th (l : cth) pc seq pend rej vseq vnext a : cth :=
  {| th_pc := pc; th_ops := th_ops l; th_msg := th_msg l; th_seq := seq; th_pend := pend; th_rej := rej;
     th_b := th_b l; th_e := th_e l; th_rejs := th_rejs l; th_vseq := vseq; th_vnext := vnext; th_sent := th_sent l;
     th_sentid := th_sentid l; th_iter := th_iter l; th_a := a |}.
Definition cth_pc (l : cth) pc a : cth := cset_th l pc (th_seq l) (th_pend l) (th_rej l) (th_vseq l) (th_vnext l) a.

Definition cghost (a : cabs) (st : cstmt) : cabs := match caprim a st with Some a' => a' | None => a end.

Fixpoint cremove (t : nat) (l : list nat) : list nat :=
  match l with [] => [] | x :: r => if Nat.eqb x t then r else x :: cremove t r end.
Fixpoint cmem (t : nat) (l : list nat) : bool :=
  match l with [] => false | x :: r => Nat.eqb x t || cmem t r end.
Fixpoint czmem (n : Z) (l : list Z) : bool :=
  match l with [] => false | x :: r => Z.eqb x n || czmem n r end.

Definition cmsg_admin (m : cmsg) : bool := match m with MApp _ => false | _ => true end.
Definition cmsg_logon (m : cmsg) : bool := match m with MLogon _ => true | _ => false end.
Definition cmsg_reset (m : cmsg) : bool := match m with MLogon r => r | _ => false end.
Definition cmsg_rej (m : cmsg) : bool := match m with MApp r => r | _ => false end.

Definition ceval_e (l : cth) (e : cexpr) : Z :=
  match e with
  | EBegin => th_b l | EEnd => th_e l | EEnd1 => th_e l + 1 | ESent => th_sent l | ESent1 => th_sent l + 1
  | EVSeq => th_vseq l | EVNext => th_vnext l
  end.

Fixpoint ceval_c (g : cshared) (l : cth) (ch : bool) (c : ccond) : bool :=
  match c with
  | CLoggedOn => c_logged g
  | CRej => th_rej l
  | CAdmin => cmsg_admin (th_msg l)
  | CLogon => cmsg_logon (th_msg l)
  | CResetFlag => cmsg_reset (th_msg l)
  | CNoPersist => negb (c_persist g)
  | CNeq a b => negb (Z.eqb (ceval_e l a) (ceval_e l b))
  | CGt a b => Z.ltb (ceval_e l b) (ceval_e l a)
  | COther => ch
  | CNot c' => negb (ceval_c g l ch c')
  end.

(* sendQueued: blocking sends everything (or nothing when disconnected); non-blocking sends while the channel has room *)
Fixpoint cwire_evs (q : list citem) (tr : list cev) : list cev :=
  match q with [] => tr | i :: r => cwire_evs r (EvWire i :: tr) end.

Definition cflush (g : cshared) (blocking : bool) : cshared :=
  if negb (c_open g) then g
  else if blocking then
    {| c_snd := c_snd g; c_saved := c_saved g; c_q := []; c_logged := c_logged g; c_open := true;
       c_room := c_room g - length (c_q g); c_persist := c_persist g; c_owner := c_owner g; c_readers := c_readers g;
       c_wr := c_wr g; c_nextid := c_nextid g; c_trace := cwire_evs (c_q g) (c_trace g) |}
  else
    let k := Nat.min (c_room g) (length (c_q g)) in
    {| c_snd := c_snd g; c_saved := c_saved g; c_q := skipn k (c_q g); c_logged := c_logged g; c_open := true;
       c_room := c_room g - k; c_persist := c_persist g; c_owner := c_owner g; c_readers := c_readers g;
       c_wr := c_wr g; c_nextid := c_nextid g; c_trace := cwire_evs (firstn k (c_q g)) (c_trace g) |}.

(* store.IterateMessages(b, e): the stored messages in [b, e] in increasing number order (fuel = e - b + 1 as nat) *)
Fixpoint csaved_get (n : Z) (sv : list (Z * (nat * bool))) : option (nat * bool) :=
  match sv with [] => None | (k, v) :: r => if Z.eqb k n then Some v else csaved_get n r end.
Fixpoint citerate (fuel : nat) (n : Z) (sv : list (Z * (nat * bool))) : list (Z * (nat * bool)) :=
  match fuel with
  | O => []
  | S f => match csaved_get n sv with
           | Some v => (n, v) :: citerate f (n + 1) sv
           | None => citerate f (n + 1) sv
           end
  end.

(* handleLogon's generated program is usable by the positive theorems only if it is well shaped *)
Definition clogon_ok (sh : cshape) : bool :=
  centry_ok false false (sh_logon sh) && cnosetout_l (sh_logon sh) && cpok_l (sh_logon sh).

(* ---------- starting an operation ---------- *)
Definition cprog_of (sh : cshape) (o : cop) : list cstmt * cmsg * (bool * bool) :=
  match o with
  | OQueue m => (sh_queue sh, m, (false, true))
  | OSend m => (sh_send sh, m, (false, true))
  | ODropSend m => (sh_dropsend sh, m, (true, false))
  | ODropReset => (sh_dropreset sh, MAdmin, (false, false))
  | OFlush => (sh_flush sh, MAdmin, (false, false))
  | OResend _ _ _ => (sh_resend sh, MAdmin, (false, false))
  | OLogonResetUnlocked => (sh_logon sh, MAdmin, (false, false))
  | OLogon => (if clogon_ok sh then sh_logon sh else [], MAdmin, (false, false))
  | OSetLogged b => ([SSetLogged b], MAdmin, (false, false))
  | OSetOut b _ => ([SSetOut b], MAdmin, (false, false))
  end.

Definition cload (sh : cshape) (o : cop) (os : list cop) (l : cth) : cth :=
  let '(pc, m, (mr, nr)) := cprog_of sh o in
  let '(b, e, rejs) := match o with
                       | OResend b e rejs => (b, e, rejs)
                       | OSetOut _ room => (Z.of_nat room, 0, [])
                       | _ => (0, 0, [])
                       end in
  {| th_pc := pc; th_ops := os; th_msg := m; th_seq := th_seq l; th_pend := None; th_rej := false;
     th_b := b; th_e := e; th_rejs := rejs; th_vseq := 0; th_vnext := 0; th_sent := 0; th_sentid := O;
     th_iter := None; th_a := cabs_idle mr nr |}.

(* ---------- one statement of thread t ---------- *)
Definition cexec (t : nat) (ch : bool) (g : cshared) (l : cth) (st : cstmt) (rest : list cstmt) : option (cshared * cth) :=
  let a' := cghost (th_a l) st in
  let next := cth_pc l rest a' in
  match st with
  | SAcq MSend =>
      match c_owner g with
      | None => Some (cset_locks g (Some t) (c_readers g) (c_wr g) (c_trace g), next)
      | Some _ => None
      end
  | SRel MSend => Some (cset_locks g None (c_readers g) (c_wr g) (c_trace g), next)
  | SAcq MResR =>
      match c_wr g with
      | WNone => Some (cset_locks g (c_owner g) (t :: c_readers g) (c_wr g) (c_trace g), next)
      | _ => None
      end
  | SRel MResR => Some (cset_locks g (c_owner g) (cremove t (c_readers g)) (c_wr g) (c_trace g), next)
  | SAcq MResW =>
      match c_wr g with
      | WNone => Some (cset_locks g (c_owner g) (c_readers g) (WPend t) (c_trace g), l)   (* announce; pc unchanged *)
      | WPend t' =>
          if Nat.eqb t' t then
            match c_readers g with
            | [] => Some (cset_locks g (c_owner g) [] (WHeld t) (EvResendBegin :: c_trace g), next)
            | _ => None
            end
          else None
      | WHeld _ => None
      end
  | SRel MResW => Some (cset_locks g (c_owner g) (c_readers g) WNone (EvResendEnd :: c_trace g), next)
  | SReadSnd => Some (g, cset_th l rest (c_snd g) (th_pend l) (th_rej l) (th_vseq l) (th_vnext l) a')
  | SCallApp AToApp => Some (g, cset_th l rest (th_seq l) (th_pend l) (cmsg_rej (th_msg l)) (th_vseq l) (th_vnext l) a')
  | SCallApp AToAdmin => Some (g, next)
  | SStoreReset => Some (cset_store g 1 [] (EvReset :: c_trace g), next)
  | SBuild =>
      Some (cset_sh g (c_snd g) (c_saved g) (c_q g) (c_owner g) (c_readers g) (c_wr g) (S (c_nextid g)) (c_trace g),
            cset_th l rest (th_seq l) (Some (IFirst (th_seq l) (c_nextid g))) (th_rej l) (th_vseq l) (th_vnext l) a')
  | SReplayBuild => Some (g, cset_th l rest (th_seq l) (Some (IReplay (th_sent l) (th_sentid l))) (th_rej l) (th_vseq l) (th_vnext l) a')
  | SGapBuild b e => Some (g, cset_th l rest (th_seq l) (Some (IGap (ceval_e l b) (ceval_e l e))) (th_rej l) (th_vseq l) (th_vnext l) a')
  | SSaveIncr =>
      let id := match th_pend l with Some (IFirst _ id) => id | _ => O end in
      Some (cset_store g (c_snd g + 1) ((th_seq l, (id, cmsg_admin (th_msg l))) :: c_saved g)
                       (EvSaved (th_seq l) id :: EvAssign (th_seq l) :: c_trace g),
            cset_th l rest (th_seq l) (th_pend l) false (th_vseq l) (th_vnext l) a')
  | SIncrOnly =>
      Some (cset_store g (c_snd g + 1) (c_saved g) (EvAssign (th_seq l) :: c_trace g),
            cset_th l rest (th_seq l) (th_pend l) false (th_vseq l) (th_vnext l) a')
  | SAppend =>
      match th_pend l with
      | Some i => Some (cset_q g (c_q g ++ [i]) (c_trace g), cset_th l rest (th_seq l) None (th_rej l) (th_vseq l) (th_vnext l) a')
      | None => Some (g, next)
      end
  | SFlush b => Some (cflush g b, next)
  | SDropQ => Some (cset_q g [] (match c_q g with [] => c_trace g | _ => EvDrop :: c_trace g end), next)
  | SNotify => Some (g, next)
  | SAssign VSeq e => Some (g, cset_th l rest (th_seq l) (th_pend l) (th_rej l) (ceval_e l e) (th_vnext l) a')
  | SAssign VNext e => Some (g, cset_th l rest (th_seq l) (th_pend l) (th_rej l) (th_vseq l) (ceval_e l e) a')
  | SIf c tb eb =>
      let taken := ceval_c g l ch c in
      Some (g, cth_pc l ((if taken then tb else eb) ++ rest) (clearn (th_a l) c taken))
  | SIter body =>
      match th_iter l with
      | None =>
          Some (g, {| th_pc := st :: rest; th_ops := th_ops l; th_msg := th_msg l; th_seq := th_seq l; th_pend := th_pend l;
                      th_rej := th_rej l; th_b := th_b l; th_e := th_e l; th_rejs := th_rejs l; th_vseq := th_vseq l;
                      th_vnext := th_vnext l; th_sent := th_sent l; th_sentid := th_sentid l;
                      th_iter := Some (citerate (Z.to_nat (th_e l - th_b l + 1)) (th_b l) (c_saved g)); th_a := th_a l |})
      | Some [] =>
          Some (g, {| th_pc := rest; th_ops := th_ops l; th_msg := th_msg l; th_seq := th_seq l; th_pend := th_pend l;
                      th_rej := th_rej l; th_b := th_b l; th_e := th_e l; th_rejs := th_rejs l; th_vseq := th_vseq l;
                      th_vnext := th_vnext l; th_sent := th_sent l; th_sentid := th_sentid l; th_iter := None; th_a := th_a l |})
      | Some ((n, (id, adm)) :: its) =>
          Some (g, {| th_pc := body ++ st :: rest; th_ops := th_ops l;
                      th_msg := if adm then MAdmin else MApp (czmem n (th_rejs l));
                      th_seq := th_seq l; th_pend := th_pend l;
                      th_rej := th_rej l; th_b := th_b l; th_e := th_e l; th_rejs := th_rejs l; th_vseq := th_vseq l;
                      th_vnext := th_vnext l; th_sent := n; th_sentid := id; th_iter := Some its; th_a := th_a l |})
      end
  | SSetLogged b => Some (cset_env g b (c_open g) (c_room g), next)
  | SSetOut b => Some (cset_env g (c_logged g) b (Z.to_nat (th_b l)), next)
  end.

Fixpoint cupd {A} (l : list A) (i : nat) (x : A) : list A :=
  match l, i with
  | [], _ => []
  | _ :: r, O => x :: r
  | y :: r, S j => y :: cupd r j x
  end.

(* one step of thread t (None: t does not exist, has finished, or is blocked on a lock) *)
Definition cstep (sh : cshape) (s : cstate) (t : nat) (ch : bool) : option cstate :=
  match nth_error (c_ths s) t with
  | None => None
  | Some l =>
      match th_pc l with
      | [] => match th_ops l with
              | [] => None
              | o :: os => Some {| c_sh := c_sh s; c_ths := cupd (c_ths s) t (cload sh o os l) |}
              end
      | st :: rest =>
          match cexec t ch (c_sh s) l st rest with
          | Some (g', l') => Some {| c_sh := g'; c_ths := cupd (c_ths s) t l' |}
          | None => None
          end
      end
  end.

(* a schedule: which thread moves next (and the value of uninterpreted conditions). Steps of disabled threads are not allowed. *)
Fixpoint crun (sh : cshape) (s : cstate) (sched : list (nat * bool)) : option cstate :=
  match sched with
  | [] => Some s
  | (t, ch) :: r => match cstep sh s t ch with Some s' => crun sh s' r | None => None end
  end.
Definition creach (sh : cshape) (s0 : cstate) (sched : list (nat * bool)) (s : cstate) : Prop := crun sh s0 sched = Some s.

(* ---------- initial states: thread 0 is the session goroutine, threads 1.. are application goroutines ---------- *)
Definition cth_init (needr : bool) (ops : list cop) : cth :=
  {| th_pc := []; th_ops := ops; th_msg := MAdmin; th_seq := 0; th_pend := None; th_rej := false; th_b := 0; th_e := 0;
     th_rejs := []; th_vseq := 0; th_vnext := 0; th_sent := 0; th_sentid := O; th_iter := None; th_a := cabs_idle false needr |}.

Definition cinit (persist logged open : bool) (room : nat) (sess : list cop) (apps : list (list cmsg)) : cstate :=
  {| c_sh := {| c_snd := 1; c_saved := []; c_q := []; c_logged := logged; c_open := open; c_room := room; c_persist := persist;
                c_owner := None; c_readers := []; c_wr := WNone; c_nextid := O; c_trace := [] |};
     c_ths := cth_init false sess :: map (fun ms => cth_init true (map OQueue ms)) apps |}.

(* what the session thread may be asked to do in the positive theorems: everything except the unlocked reset of
   handleLogon, and a Logon carrying ResetSeqNumFlag only through dropAndSend (as sendLogonInReplyTo does) *)
Definition cop_ok (o : cop) : bool :=
  match o with
  | OQueue m | OSend m => negb (cmsg_reset m)
  | OLogonResetUnlocked => false
  | _ => true
  end.
