(* C02 proofs, layer 3 (definitions and list/trace lemmas): the send queue is sorted, above everything first-time on
   the wire in this epoch, below the store counter, and every queued first-time message is saved (persistence on). *)
From Coq Require Import ZArith List Bool Lia Arith.
From QF Require Import Conc.ShapeLang Conc.SendConc Conc.ConcSpec Conc.ConcInv1 Conc.ConcStep1 Conc.ConcStep2.
Import ListNotations.
Open Scope Z_scope.

Fixpoint cq_sorted (q : list citem) : Prop :=
  match q with
  | [] => True
  | IFirst n _ :: r => (forall m id, In (IFirst m id) r -> n < m) /\ cq_sorted r
  | _ :: r => cq_sorted r
  end.

Definition cq_bounds (g : cshared) (n : Z) (id : nat) : Prop :=
  (forall m, In m (c02_epoch_firsts (c_trace g)) -> m < n) /\
  (c_persist g = true -> c02_saved_live n id (c_trace g)).

Definition cq_good (g : cshared) : Prop :=
  cq_sorted (c_q g) /\ forall n id, In (IFirst n id) (c_q g) -> n < c_snd g /\ cq_bounds g n id.

Record cloc3 (g : cshared) (l : cth) : Prop := {
  l3_empty : a_q (th_a l) = QEmpty -> c_q g = [];
  l3_built : a_ph (th_a l) = PhBuilt -> exists id, th_pend l = Some (IFirst (th_seq l) id);
  l3_saved : a_ph (th_a l) = PhSaved ->
             exists id, th_pend l = Some (IFirst (th_seq l) id) /\ th_seq l = c_snd g - 1 /\ cq_bounds g (th_seq l) id /\
                        (a_q (th_a l) <> QStale -> forall n i, In (IFirst n i) (c_q g) -> n < th_seq l);
  l3_rbuilt : a_ph (th_a l) = PhRBuilt -> exists i, th_pend l = Some i /\ citem_first i = false
}.
Record cglob3 (g : cshared) : Prop := {
  g3_inc : c02_wire_inc (c_trace g);
  g3_pers : c_persist g = true -> c02_persisted (c_trace g);
  g3_ef : forall m, In m (c02_epoch_firsts (c_trace g)) -> m < c_snd g
}.
Definition cinv3 (s : cstate) : Prop :=
  cglob3 (c_sh s) /\ (forall t l, cthr s t l -> cloc3 (c_sh s) l) /\
  ((forall t l, cthr s t l -> a_q (th_a l) <> QStale) -> cq_good (c_sh s)).

(* ---------- quiet trace extensions: no wire event, no reset ---------- *)
Definition cev_quiet (e : cev) : bool := match e with EvWire _ | EvReset => false | _ => true end.
Definition cquiet (tr tr' : list cev) : Prop := exists evs, tr' = evs ++ tr /\ Forall (fun e => cev_quiet e = true) evs.

Lemma cquiet_refl tr : cquiet tr tr.
Proof. exists []. split; auto. Qed.
Lemma cquiet_cons e tr : cev_quiet e = true -> cquiet tr (e :: tr).
Proof. intros H. exists [e]. split; auto. Qed.
Lemma cquiet_cons2 e1 e2 tr : cev_quiet e1 = true -> cev_quiet e2 = true -> cquiet tr (e1 :: e2 :: tr).
Proof. intros H1 H2. exists [e1; e2]. split; auto. Qed.

Lemma cquiet_ef tr tr' : cquiet tr tr' -> c02_epoch_firsts tr' = c02_epoch_firsts tr.
Proof.
  intros [evs [-> Hall]]. induction Hall as [|e evs He Hall IH]; cbn; [reflexivity|].
  destruct e; try discriminate He; exact IH.
Qed.
Lemma cquiet_inc tr tr' : cquiet tr tr' -> (c02_wire_inc tr' <-> c02_wire_inc tr).
Proof.
  intros [evs [-> Hall]]. induction Hall as [|e evs He Hall IH]; cbn; [tauto|].
  destruct e; try discriminate He; exact IH.
Qed.
Lemma cquiet_pers tr tr' : cquiet tr tr' -> (c02_persisted tr' <-> c02_persisted tr).
Proof.
  intros [evs [-> Hall]]. induction Hall as [|e evs He Hall IH]; cbn; [tauto|].
  destruct e; try discriminate He; exact IH.
Qed.

(* saved_live survives everything but a reset *)
Lemma csaved_live_cons n id e tr : e <> EvReset -> c02_saved_live n id tr -> c02_saved_live n id (e :: tr).
Proof. intros Hne H. destruct e; cbn; auto; congruence. Qed.
Lemma cquiet_live n id tr tr' : cquiet tr tr' -> c02_saved_live n id tr -> c02_saved_live n id tr'.
Proof.
  intros [evs [-> Hall]] H. induction Hall as [|e evs He Hall IH]; cbn [app]; [exact H|].
  apply csaved_live_cons; [|exact IH]. destruct e; try discriminate He; try discriminate.
Qed.
Lemma cwire_live n id q tr : c02_saved_live n id tr -> c02_saved_live n id (cwire_evs q tr).
Proof.
  revert tr. induction q as [|i q IH]; intros tr H; cbn; [exact H|].
  apply IH. apply csaved_live_cons; [discriminate|exact H].
Qed.

(* ---------- sorted queues ---------- *)
Lemma cq_sorted_app_nonfirst q i : citem_first i = false -> (cq_sorted (q ++ [i]) <-> cq_sorted q).
Proof.
  intros Hi. induction q as [|x q IH]; cbn.
  - destruct i; cbn in *; try discriminate; tauto.
  - destruct x; cbn; try exact IH. rewrite IH.
    split; intros [H1 H2]; split; auto; intros m id' Hin.
    + eapply H1. apply in_or_app. left. exact Hin.
    + apply in_app_or in Hin. destruct Hin as [Hin|[E|[]]]; [eauto|]. subst i. discriminate Hi.
Qed.
Lemma cq_sorted_app_first q n id :
  cq_sorted q -> (forall m i, In (IFirst m i) q -> m < n) -> cq_sorted (q ++ [IFirst n id]).
Proof.
  induction q as [|x q IH]; cbn [app]; intros Hs Hb.
  - cbn. split; auto. intros m i [].
  - assert (Hb' : forall m i, In (IFirst m i) q -> m < n) by (intros m i Hin; eapply Hb; right; exact Hin).
    destruct x; cbn in *; try (apply IH; tauto).
    destruct Hs as [H1 H2]. split; [|apply IH; auto].
    intros m i Hin. apply in_app_or in Hin. destruct Hin as [Hin|[E|[]]]; [eauto|].
    inversion E; subst. eapply Hb. left. reflexivity.
Qed.
Lemma cq_sorted_skipn k q : cq_sorted q -> cq_sorted (skipn k q).
Proof.
  revert q. induction k as [|k IH]; intros q H; cbn; [exact H|].
  destruct q as [|x q]; [exact I|]. apply IH. destruct x; cbn in H; tauto.
Qed.
Lemma cin_skipn {A} (x : A) k q : In x (skipn k q) -> In x q.
Proof. revert q. induction k as [|k IH]; intros q H; cbn in H; [exact H|]. destruct q; [destruct H|]. right. auto. Qed.
Lemma cin_firstn {A} (x : A) k q : In x (firstn k q) -> In x q.
Proof. revert q. induction k as [|k IH]; intros q H; cbn in H; [destruct H|]. destruct q; [destruct H|]. destruct H; [left|right]; auto. Qed.

Lemma cq_sorted_split k q n i m j :
  cq_sorted q -> In (IFirst n i) (firstn k q) -> In (IFirst m j) (skipn k q) -> n < m.
Proof.
  revert q. induction k as [|k IH]; intros q Hs H1 H2; cbn in *; [tauto|].
  destruct q as [|x q]; [destruct H1|]. cbn in H1. destruct H1 as [->|H1].
  - cbn in Hs. destruct Hs as [Hs _]. eapply Hs. eapply cin_skipn. exact H2.
  - apply (IH q); auto. destruct x; cbn in Hs; tauto.
Qed.

(* ---------- flushing a prefix of a good queue ---------- *)
Lemma cwire_ef pre tr m :
  In m (c02_epoch_firsts (cwire_evs pre tr)) <-> In m (c02_epoch_firsts tr) \/ exists id, In (IFirst m id) pre.
Proof.
  revert tr. induction pre as [|x pre IH]; intros tr; cbn [cwire_evs].
  - split; [auto|]. intros [H|[i []]]. exact H.
  - rewrite IH. destruct x as [n0 i0|n0 i0|b0 e0]; cbn.
    + split.
      * intros [[->|H]|[i H]]; eauto.
      * intros [H|[i [E|H]]]; eauto. inversion E; subst. auto.
    + split; [intros [H|[i H]]; eauto|]. intros [H|[i [E|H]]]; eauto. discriminate.
    + split; [intros [H|[i H]]; eauto|]. intros [H|[i [E|H]]]; eauto. discriminate.
Qed.

Lemma cwire_inc pre tr :
  cq_sorted pre -> (forall n id, In (IFirst n id) pre -> forall m, In m (c02_epoch_firsts tr) -> m < n) ->
  c02_wire_inc tr -> c02_wire_inc (cwire_evs pre tr).
Proof.
  revert tr. induction pre as [|x pre IH]; intros tr Hs Hb Hi; cbn [cwire_evs]; [exact Hi|].
  apply IH.
  - destruct x; cbn in Hs; tauto.
  - intros n id Hin m Hm. destruct x; cbn in Hm; try (eapply Hb; [right; exact Hin|exact Hm]).
    destruct Hm as [<-|Hm]; [|eapply Hb; [right; exact Hin|exact Hm]].
    cbn in Hs. destruct Hs as [Hs _]. eapply Hs. exact Hin.
  - destruct x; cbn; auto. split; auto. intros m Hm. eapply Hb; [left; reflexivity|exact Hm].
Qed.

Lemma cwire_pers pre tr :
  (forall n id, In (IFirst n id) pre -> c02_saved_live n id tr) -> c02_persisted tr -> c02_persisted (cwire_evs pre tr).
Proof.
  revert tr. induction pre as [|x pre IH]; intros tr Hb Hp; cbn [cwire_evs]; [exact Hp|].
  apply IH.
  - intros n id Hin. apply csaved_live_cons; [discriminate|]. apply Hb. right. exact Hin.
  - destruct x; cbn; auto. split; auto. apply Hb. left. reflexivity.
Qed.
