(* C02 proofs, layer 1 (continued): one concrete step preserves the layer-1 invariant. *)
From Coq Require Import ZArith List Bool Lia Arith.
From QF Require Import Conc.ShapeLang Conc.SendConc Conc.ConcInv1.
Import ListNotations.

(* ---------- thread list updates ---------- *)
Lemma cupd_nth_eq {A} (l : list A) i x y : nth_error l i = Some y -> nth_error (cupd l i x) i = Some x.
Proof. revert i. induction l as [|z l IH]; intros [|i]; cbn; intros H; try discriminate; auto. Qed.
Lemma cupd_nth_ne {A} (l : list A) i j x : i <> j -> nth_error (cupd l i x) j = nth_error l j.
Proof.
  revert i j. induction l as [|z l IH]; intros [|i] [|j] H; cbn; auto; try congruence.
Qed.

Lemma cremove_in_ne t u l : u <> t -> (In u (cremove t l) <-> In u l).
Proof.
  intros Hne. induction l as [|x l IH]; cbn; [tauto|].
  destruct (Nat.eqb x t) eqn:E.
  - apply Nat.eqb_eq in E. subst. split; [auto|]. intros [H|H]; [congruence|auto].
  - cbn. rewrite IH. tauto.
Qed.
Lemma cremove_notin t l : NoDup l -> ~ In t (cremove t l).
Proof.
  induction 1 as [|x l Hx Hnd IH]; cbn; [tauto|].
  destruct (Nat.eqb x t) eqn:E.
  - apply Nat.eqb_eq in E. subst. auto.
  - apply Nat.eqb_neq in E. cbn. intros [H|H]; auto.
Qed.
Lemma cremove_nodup t l : NoDup l -> NoDup (cremove t l).
Proof.
  induction 1 as [|x l Hx Hnd IH]; cbn; [constructor|].
  destruct (Nat.eqb x t) eqn:E; auto.
  constructor; auto. apply Nat.eqb_neq in E. intros H. apply Hx.
  destruct (Nat.eq_dec x t); [congruence|]. apply (cremove_in_ne t x l); auto.
Qed.

(* ---------- general facts about one concrete statement ---------- *)
Lemma cflush_fields g b :
  c_persist (cflush g b) = c_persist g /\ c_owner (cflush g b) = c_owner g /\ c_readers (cflush g b) = c_readers g /\
  c_wr (cflush g b) = c_wr g /\ c_snd (cflush g b) = c_snd g /\ c_saved (cflush g b) = c_saved g /\
  c_logged (cflush g b) = c_logged g /\ c_open (cflush g b) = c_open g /\ c_nextid (cflush g b) = c_nextid g.
Proof. unfold cflush. destruct (c_open g) eqn:E; cbn; [destruct b; cbn|]; repeat split; auto. Qed.

Lemma cexec_persist t ch g l st rest g' l' : cexec t ch g l st rest = Some (g', l') -> c_persist g' = c_persist g.
Proof.
  destruct st; cbn; try (intros H; inversion H; subst; reflexivity).
  - destruct m; [destruct (c_owner g)|destruct (c_wr g)|destruct (c_wr g) as [|u|u]; [| destruct (Nat.eqb u t); [destruct (c_readers g)|]|]];
      intros H; inversion H; subst; reflexivity.
  - destruct m; intros H; inversion H; subst; reflexivity.
  - destruct a; intros H; inversion H; subst; reflexivity.
  - destruct (th_pend l); intros H; inversion H; subst; reflexivity.
  - intros H; inversion H; subst. apply cflush_fields.
  - destruct v; intros H; inversion H; subst; reflexivity.
  - destruct (th_iter l) as [[|[n [id adm]] its]|]; intros H; inversion H; subst; reflexivity.
Qed.

Lemma cexec_ops t ch g l st rest g' l' : cexec t ch g l st rest = Some (g', l') -> th_ops l' = th_ops l.
Proof.
  destruct st; cbn; try (intros H; inversion H; subst; reflexivity).
  - destruct m; [destruct (c_owner g)|destruct (c_wr g)|destruct (c_wr g) as [|u|u]; [| destruct (Nat.eqb u t); [destruct (c_readers g)|]|]];
      intros H; inversion H; subst; reflexivity.
  - destruct m; intros H; inversion H; subst; reflexivity.
  - destruct a; intros H; inversion H; subst; reflexivity.
  - destruct (th_pend l); intros H; inversion H; subst; reflexivity.
  - destruct v; intros H; inversion H; subst; reflexivity.
  - destruct (th_iter l) as [[|[n [id adm]] its]|]; intros H; inversion H; subst; reflexivity.
Qed.

Lemma cexec_msg t ch g l st rest g' l' : cexec t ch g l st rest = Some (g', l') -> th_msg l' = th_msg l \/ cmsg_reset (th_msg l') = false.
Proof.
  destruct st; cbn; try (intros H; inversion H; subst; left; reflexivity).
  - destruct m; [destruct (c_owner g)|destruct (c_wr g)|destruct (c_wr g) as [|u|u]; [| destruct (Nat.eqb u t); [destruct (c_readers g)|]|]];
      intros H; inversion H; subst; left; reflexivity.
  - destruct m; intros H; inversion H; subst; left; reflexivity.
  - destruct a; intros H; inversion H; subst; left; reflexivity.
  - destruct (th_pend l); intros H; inversion H; subst; left; reflexivity.
  - destruct v; intros H; inversion H; subst; left; reflexivity.
  - destruct (th_iter l) as [[|[n [id adm]] its]|]; intros H; inversion H; subst; cbn; auto. destruct adm; auto.
Qed.

(* ---------- the layer-1 invariant ---------- *)
Record cloc1 (g : cshared) (t : nat) (l : cth) : Prop := {
  l1_safe : carun_l (th_pc l) (th_a l) = Some (cfin (th_a l));
  l1_wf : cabs_wfb (th_a l) = true;
  l1_hs : a_hs (th_a l) = true <-> c_owner g = Some t;
  l1_hr : a_hr (th_a l) = true <-> In t (c_readers g);
  l1_hw : a_hw (th_a l) = true <-> c_wr g = WHeld t;
  l1_msg : cmsg_reset (th_msg l) = true -> a_mayreset (th_a l) = true;
  l1_kp : forall b, a_kp (th_a l) = Some b -> c_persist g = b;
  l1_np : c_persist g = false \/ cpok_l (th_pc l) = true;
  l1_ops : forallb cop_ok (th_ops l) = true;
  l1_app : (1 <= t)%nat -> a_needr (th_a l) = true /\ forall o, In o (th_ops l) -> exists m, o = OQueue m
}.
Record cglob1 (g : cshared) : Prop := {
  g1_nodup : NoDup (c_readers g);
  g1_wex : forall t, c_wr g = WHeld t -> c_readers g = []
}.
Definition cthr (s : cstate) (t : nat) (l : cth) : Prop := nth_error (c_ths s) t = Some l.
Definition cinv1 (s : cstate) : Prop :=
  cglob1 (c_sh s) /\ (forall t l, cthr s t l -> cloc1 (c_sh s) t l) /\
  (forall t, (c_owner (c_sh s) = Some t \/ c_wr (c_sh s) = WHeld t) -> exists l, cthr s t l).

(* what a step of thread t leaves untouched for the other threads *)
Record cframe1 (t : nat) (g g' : cshared) : Prop := {
  f1_owner : forall u, u <> t -> (c_owner g' = Some u <-> c_owner g = Some u);
  f1_readers : forall u, u <> t -> (In u (c_readers g') <-> In u (c_readers g));
  f1_wr : forall u, u <> t -> (c_wr g' = WHeld u <-> c_wr g = WHeld u);
  f1_persist : c_persist g' = c_persist g;
  f1_own_ex : forall u, c_owner g' = Some u -> u = t \/ c_owner g = Some u;
  f1_wr_ex : forall u, c_wr g' = WHeld u -> u = t \/ c_wr g = WHeld u
}.

Lemma cframe1_loc t g g' u l : cframe1 t g g' -> u <> t -> cloc1 g u l -> cloc1 g' u l.
Proof.
  intros F Hne L. destruct L. constructor; auto.
  - rewrite (f1_owner _ _ _ F u Hne). auto.
  - rewrite (f1_readers _ _ _ F u Hne). auto.
  - rewrite (f1_wr _ _ _ F u Hne). auto.
  - intros b Hb. rewrite (f1_persist _ _ _ F). auto.
  - rewrite (f1_persist _ _ _ F). auto.
Qed.

Lemma cframe1_refl t g : cframe1 t g g.
Proof. constructor; intros; tauto. Qed.

Lemma csafe_atom st rest a f :
  catom st = true -> carun_l (st :: rest) a = Some f ->
  exists a', caprim a st = Some a' /\ carun_l rest a' = Some f /\ cghost a st = a'.
Proof.
  intros Hat H. cbn [carun_l] in H. rewrite (carun_s_atom _ _ Hat) in H.
  unfold cghost. destruct (caprim a st) as [a'|]; [|discriminate]. eauto.
Qed.

Definition clockop (st : cstmt) : bool := match st with SAcq _ | SRel _ => true | _ => false end.

Ltac cexec_cases t g l :=
  repeat match goal with
         | m : cmut |- _ => destruct m
         | a : capp |- _ => destruct a
         | v : cvar |- _ => destruct v
         end;
  cbn;
  try match goal with |- context [match c_owner g with _ => _ end] => destruct (c_owner g) eqn:?Eown end;
  try match goal with |- context [match c_wr g with _ => _ end] =>
        let u := fresh "u" in destruct (c_wr g) as [|u|u] eqn:?Ewr;
        try (destruct (Nat.eqb u t) eqn:?Eut; [try (destruct (c_readers g) eqn:?Erd)|]) end;
  try match goal with |- context [match th_pend l with _ => _ end] => destruct (th_pend l) eqn:?Epend end;
  try match goal with |- context [match th_iter l with _ => _ end] =>
        let n := fresh "n" in let id := fresh "id" in let adm := fresh "adm" in let its := fresh "its" in
        destruct (th_iter l) as [[|[n [id adm]] its]|] eqn:?Eiter end.

Lemma cexec_atom_shape t ch g l st rest g' l' :
  catom st = true -> cexec t ch g l st rest = Some (g', l') ->
  (th_pc l' = rest /\ th_a l' = cghost (th_a l) st) \/
  (st = SAcq MResW /\ l' = l /\ c_wr g = WNone /\ g' = cset_locks g (c_owner g) (c_readers g) (WPend t) (c_trace g)).
Proof.
  intros Hat. destruct st; try discriminate Hat; cexec_cases t g l;
    intros H; inversion H; subst; cbn; auto.
Qed.

Lemma cexec_nolock_fields t ch g l st rest g' l' :
  catom st = true -> clockop st = false -> cexec t ch g l st rest = Some (g', l') ->
  c_owner g' = c_owner g /\ c_readers g' = c_readers g /\ c_wr g' = c_wr g.
Proof.
  intros Hat Hl. destruct st; try discriminate Hat; try discriminate Hl; cexec_cases t g l;
    intros H; inversion H; subst; cbn; auto.
  destruct (cflush_fields g blocking) as (_ & ? & ? & ? & _). auto.
Qed.

Lemma caprim_nolock_bits a st a' :
  clockop st = false -> caprim a st = Some a' -> a_hs a' = a_hs a /\ a_hr a' = a_hr a /\ a_hw a' = a_hw a.
Proof.
  intros Hl. destruct st; try discriminate Hl; cbn; try discriminate;
  repeat match goal with
         | |- context [if ?b then _ else _] => destruct b
         | |- context [match a_ph a with PhIdle => _ | _ => _ end] => destruct (a_ph a)
         end; intros H; inversion H; subst; cbn; auto.
Qed.

Lemma caprim_kp a st a' : caprim a st = Some a' -> a_kp a' = None \/ a_kp a' = a_kp a.
Proof.
  destruct st; cbn; try discriminate;
  repeat match goal with
         | |- context [match ?m with MSend => _ | MResR => _ | MResW => _ end] => destruct m
         | |- context [if ?b then _ else _] => destruct b
         | |- context [match a_ph a with PhIdle => _ | _ => _ end] => destruct (a_ph a)
         end; intros H; inversion H; subst; cbn; auto.
Qed.

Lemma cloc1_atom g g' t l l' st a' :
  cloc1 g t l -> th_pc l = st :: th_pc l' -> caprim (th_a l) st = Some a' -> carun_l (th_pc l') a' = Some (cfin (th_a l)) ->
  th_a l' = a' -> th_ops l' = th_ops l -> (th_msg l' = th_msg l \/ cmsg_reset (th_msg l') = false) ->
  c_persist g' = c_persist g ->
  (a_hs a' = true <-> c_owner g' = Some t) -> (a_hr a' = true <-> In t (c_readers g')) ->
  (a_hw a' = true <-> c_wr g' = WHeld t) ->
  cloc1 g' t l'.
Proof.
  intros L Hpcs Hap Hrun Ha Hops Hmsg Hper Hhs Hhr Hhw. destruct L.
  destruct (caprim_static _ _ _ Hap) as [Hs1 Hs2].
  constructor; rewrite ?Ha; auto.
  - rewrite (cfin_caprim _ _ _ Hap). exact Hrun.
  - eapply caprim_wf; eauto.
  - rewrite Hs1. destruct Hmsg as [-> | ->]; [auto|discriminate].
  - intros b Hb. rewrite Hper. destruct (caprim_kp _ _ _ Hap) as [E|E]; rewrite E in Hb; [discriminate|auto].
  - rewrite Hper. destruct l1_np0 as [E|E]; [left; exact E|right]. rewrite Hpcs in E. cbn [cpok_l] in E.
    apply andb_true_iff in E. apply E.
  - rewrite Hops. auto.
  - rewrite Hops, Hs2. auto.
Qed.

Lemma caprim_lock_bits (a : cabs) (m : cmut) (acq : bool) (a' : cabs) :
  caprim a (if acq then SAcq m else SRel m) = Some a' ->
  match m, acq with
  | MSend, true => a_hs a = false /\ a_hs a' = true /\ a_hr a' = a_hr a /\ a_hw a' = a_hw a
  | MSend, false => a_hs a = true /\ a_hs a' = false /\ a_hr a' = a_hr a /\ a_hw a' = a_hw a
  | MResR, true => a_hr a = false /\ a_hr a' = true /\ a_hs a' = a_hs a /\ a_hw a' = a_hw a /\ a_hw a = false
  | MResR, false => a_hr a = true /\ a_hr a' = false /\ a_hs a' = a_hs a /\ a_hw a' = a_hw a
  | MResW, true => a_hw a = false /\ a_hw a' = true /\ a_hs a' = a_hs a /\ a_hr a' = a_hr a /\ a_hr a = false
  | MResW, false => a_hw a = true /\ a_hw a' = false /\ a_hs a' = a_hs a /\ a_hr a' = a_hr a
  end.
Proof.
  destruct a as [hs hr hw ph q kp mr nr].
  destruct m, acq; cbn; destruct hs, hr, hw; cbn; try discriminate;
    repeat match goal with |- context [if ?b then _ else _] => destruct b end;
    intros H; inversion H; subst; cbn; auto.
Qed.

Lemma clearn_bits a c b :
  a_hs (clearn a c b) = a_hs a /\ a_hr (clearn a c b) = a_hr a /\ a_hw (clearn a c b) = a_hw a /\
  a_ph (clearn a c b) = a_ph a /\ a_q (clearn a c b) = a_q a.
Proof. cbn. auto. Qed.

Lemma clearn_kp g l ch a c b0 :
  (forall b, a_kp a = Some b -> c_persist g = b) ->
  a_kp (clearn a c (ceval_c g l ch c)) = Some b0 -> c_persist g = b0.
Proof. intros H. exact (H b0). Qed.

(* ---------- the persistence test ---------- *)
Lemma cpok_if c t e :
  cpok_s (SIf c t e) = match c with CNoPersist => cpok_l e | CNot CNoPersist => cpok_l t | _ => cpok_l t && cpok_l e end.
Proof. reflexivity. Qed.
Lemma cpok_iter b : cpok_s (SIter b) = cpok_l b.
Proof. reflexivity. Qed.
Lemma cpok_app p q : cpok_l (p ++ q) = cpok_l p && cpok_l q.
Proof. induction p as [|x p IH]; cbn [app cpok_l]; [reflexivity|]. rewrite IH, andb_assoc. reflexivity. Qed.

Lemma cpok_if_step g l ch c t e rest :
  c_persist g = false \/ cpok_l (SIf c t e :: rest) = true ->
  c_persist g = false \/ cpok_l ((if ceval_c g l ch c then t else e) ++ rest) = true.
Proof.
  intros [H|H]; [left; exact H|]. cbn [cpok_l] in H. apply andb_true_iff in H. destruct H as [H1 H2].
  rewrite cpok_if in H1. rewrite cpok_app, H2, andb_true_r.
  destruct c; try (apply andb_true_iff in H1; destruct H1 as [Ht He]; right; destruct (ceval_c g l ch _); assumption).
  - cbn. destruct (c_persist g); cbn; auto.
  - destruct c; try (apply andb_true_iff in H1; destruct H1 as [Ht He]; right; destruct (ceval_c g l ch _); assumption).
    cbn. destruct (c_persist g); cbn; auto.
Qed.

Lemma csafe_if g l ch c tb eb rest a f :
  (cmsg_reset (th_msg l) = true -> a_mayreset a = true) ->
  carun_l (SIf c tb eb :: rest) a = Some f ->
  carun_l ((if ceval_c g l ch c then tb else eb) ++ rest) (clearn a c (ceval_c g l ch c)) = Some f.
Proof.
  intros Hm H. cbn [carun_l] in H. rewrite carun_s_if in H. rewrite carun_l_app.
  assert (Hbr : cbranches a c = (true, true) \/
                (cbranches a c = (false, true) /\ ceval_c g l ch c = false) \/
                (cbranches a c = (true, false) /\ ceval_c g l ch c = true)).
  { destruct c; cbn; auto.
    - destruct (a_mayreset a) eqn:E; auto. right; left. split; auto.
      destruct (cmsg_reset (th_msg l)) eqn:E2; auto. specialize (Hm eq_refl). congruence.
    - destruct c; cbn; auto. destruct (a_mayreset a) eqn:E; auto. right; right. split; auto.
      destruct (cmsg_reset (th_msg l)) eqn:E2; auto; try (specialize (Hm eq_refl); congruence). }
  destruct Hbr as [Hb|[[Hb Hv]|[Hb Hv]]]; rewrite Hb in H.
  - destruct (carun_l tb (clearn a c true)) as [a1|] eqn:E1; [|discriminate].
    destruct (carun_l eb (clearn a c false)) as [a2|] eqn:E2; [|discriminate].
    destruct (cabs_eqb a1 a2) eqn:E3; [|discriminate]. apply cabs_eqb_eq in E3. subst a2.
    destruct (ceval_c g l ch c); [rewrite E1|rewrite E2]; exact H.
  - rewrite Hv. destruct (carun_l eb (clearn a c false)); [exact H|discriminate].
  - rewrite Hv. destruct (carun_l tb (clearn a c true)); [exact H|discriminate].
Qed.

Lemma csafe_iter body rest a f :
  carun_l (SIter body :: rest) a = Some f ->
  carun_l rest a = Some f /\ carun_l (body ++ SIter body :: rest) a = Some f.
Proof.
  intros H. pose proof H as H0. cbn [carun_l] in H. rewrite carun_s_iter in H.
  destruct (a_kp a); [discriminate|].
  destruct (carun_l body a) as [a1|] eqn:E1; [|discriminate].
  destruct (cabs_eqb a1 a) eqn:E2; [|discriminate]. apply cabs_eqb_eq in E2. subst a1.
  split; [exact H|]. rewrite carun_l_app, E1. exact H0.
Qed.

Lemma cexec_inv1 t ch g l st rest g' l' :
  cglob1 g -> cloc1 g t l -> th_pc l = st :: rest ->
  cexec t ch g l st rest = Some (g', l') ->
  cglob1 g' /\ cloc1 g' t l' /\ cframe1 t g g'.
Proof.
  intros G L Hpc Hex.
  pose proof (l1_safe _ _ _ L) as Hsafe. rewrite Hpc in Hsafe.
  pose proof (cexec_persist _ _ _ _ _ _ _ _ Hex) as Hper.
  pose proof (cexec_ops _ _ _ _ _ _ _ _ Hex) as Hops.
  pose proof (cexec_msg _ _ _ _ _ _ _ _ Hex) as Hmsg.
  destruct (catom st) eqn:Hat.
  - destruct (csafe_atom _ _ _ _ Hat Hsafe) as (a' & Hap & Hrun & Hgh).
    destruct (clockop st) eqn:Hlk.
    + (* lock operations *)
      unfold cexec in Hex. cbv zeta in Hex. rewrite Hgh in Hex.
      destruct st; try discriminate Hlk; destruct m.
      * (* Acq Send *)
        destruct (caprim_lock_bits _ MSend true _ Hap) as (B0 & B1 & B2 & B3).
        destruct (c_owner g) eqn:Eown; [discriminate|]. inversion Hex; subst g' l'; clear Hex.
        split; [|split].
        -- destruct G; constructor; cbn; auto.
        -- eapply cloc1_atom; eauto; cbn; try tauto.
           ++ rewrite B2. apply (l1_hr _ _ _ L).
           ++ rewrite B3. apply (l1_hw _ _ _ L).
        -- constructor; cbn; intros; try (match goal with H : _ = WHeld ?u |- ?u = _ \/ _ => first [discriminate H | tauto | (left; congruence) | (rewrite ?Ewr in H; discriminate H)] end); try tauto.
           ++ rewrite Eown. split; intros H1; inversion H1. congruence.
           ++ inversion H; auto.
      * (* Acq R *)
        destruct (caprim_lock_bits _ MResR true _ Hap) as (B0 & B1 & B2 & B3 & B4).
        destruct (c_wr g) eqn:Ewr; try discriminate. inversion Hex; subst g' l'; clear Hex.
        split; [|split].
        -- destruct G; constructor; cbn.
           ++ constructor; auto. intros Hin. apply (l1_hr _ _ _ L) in Hin. congruence.
           ++ intros u Hu. congruence.
        -- eapply cloc1_atom; eauto; cbn; try tauto.
           ++ rewrite B2. apply (l1_hs _ _ _ L).
           ++ rewrite B3, B4. split; [congruence|discriminate].
        -- constructor; cbn; intros; try (match goal with H : _ = WHeld ?u |- ?u = _ \/ _ => first [discriminate H | tauto | (left; congruence) | (rewrite ?Ewr in H; discriminate H)] end); rewrite ?Ewr; try tauto. split; [intros [H1|H1]; [congruence|auto]|auto].
      * (* Acq W *)
        destruct (caprim_lock_bits _ MResW true _ Hap) as (B0 & B1 & B2 & B3 & B4).
        destruct (c_wr g) as [|u|u] eqn:Ewr.
        -- (* announce *)
           inversion Hex; subst g' l'; clear Hex.
           split; [|split].
           ++ destruct G; constructor; cbn; auto. intros; discriminate.
           ++ destruct L; constructor; cbn; auto. rewrite l1_hw0. rewrite Ewr. split; discriminate.
           ++ constructor; cbn; intros; try (match goal with H : _ = WHeld ?u |- ?u = _ \/ _ => first [discriminate H | tauto | (left; congruence) | (rewrite ?Ewr in H; discriminate H)] end); try tauto. rewrite Ewr. split; discriminate.
        -- destruct (Nat.eqb u t) eqn:Eut; [|discriminate]. apply Nat.eqb_eq in Eut. subst u.
           destruct (c_readers g) eqn:Erd; [|discriminate]. inversion Hex; subst g' l'; clear Hex.
           split; [|split].
           ++ constructor; cbn; auto. constructor.
           ++ eapply cloc1_atom; eauto; cbn; try tauto.
              ** rewrite B2. apply (l1_hs _ _ _ L).
              ** rewrite B3, B4. split; [discriminate|tauto].
           ++ constructor; cbn; intros; try (match goal with H : _ = WHeld ?u |- ?u = _ \/ _ => first [discriminate H | tauto | (left; congruence) | (rewrite ?Ewr in H; discriminate H)] end); try tauto.
              ** rewrite Erd. tauto.
              ** rewrite Ewr. split; [intros H1; inversion H1; congruence|discriminate].
        -- discriminate.
      * (* Rel Send *)
        destruct (caprim_lock_bits _ MSend false _ Hap) as (B0 & B1 & B2 & B3).
        inversion Hex; subst g' l'; clear Hex.
        pose proof (proj1 (l1_hs _ _ _ L) B0) as Hown.
        split; [|split].
        -- destruct G; constructor; cbn; auto.
        -- eapply cloc1_atom; eauto; cbn.
           ++ rewrite B1. split; discriminate.
           ++ rewrite B2. apply (l1_hr _ _ _ L).
           ++ rewrite B3. apply (l1_hw _ _ _ L).
        -- constructor; cbn; intros; try (match goal with H : _ = WHeld ?u |- ?u = _ \/ _ => first [discriminate H | tauto | (left; congruence) | (rewrite ?Ewr in H; discriminate H)] end); try tauto.
           ++ rewrite Hown. split; [discriminate|intros H1; inversion H1; congruence].
           ++ discriminate.
      * (* Rel R *)
        destruct (caprim_lock_bits _ MResR false _ Hap) as (B0 & B1 & B2 & B3).
        inversion Hex; subst g' l'; clear Hex.
        split; [|split].
        -- destruct G; constructor; cbn.
           ++ apply cremove_nodup; auto.
           ++ intros u Hu. rewrite (g1_wex0 u Hu). reflexivity.
        -- eapply cloc1_atom; eauto; cbn.
           ++ rewrite B2. apply (l1_hs _ _ _ L).
           ++ rewrite B1. split; [discriminate|]. intros Hin. exfalso. eapply cremove_notin; [|exact Hin]. apply G.
           ++ rewrite B3. apply (l1_hw _ _ _ L).
        -- constructor; cbn; intros; try (match goal with H : _ = WHeld ?u |- ?u = _ \/ _ => first [discriminate H | tauto | (left; congruence) | (rewrite ?Ewr in H; discriminate H)] end); try tauto. apply cremove_in_ne; auto.
      * (* Rel W *)
        destruct (caprim_lock_bits _ MResW false _ Hap) as (B0 & B1 & B2 & B3).
        inversion Hex; subst g' l'; clear Hex.
        pose proof (proj1 (l1_hw _ _ _ L) B0) as Hw.
        split; [|split].
        -- destruct G; constructor; cbn; auto. intros; discriminate.
        -- eapply cloc1_atom; eauto; cbn.
           ++ rewrite B2. apply (l1_hs _ _ _ L).
           ++ rewrite B3. apply (l1_hr _ _ _ L).
           ++ rewrite B1. split; discriminate.
        -- constructor; cbn; intros; try (match goal with H : _ = WHeld ?u |- ?u = _ \/ _ => first [discriminate H | tauto | (left; congruence) | (rewrite ?Ewr in H; discriminate H)] end); try tauto. rewrite Hw. split; [discriminate|intros H1; inversion H1; congruence].
    + (* other atoms: locks untouched *)
      destruct (cexec_nolock_fields _ _ _ _ _ _ _ _ Hat Hlk Hex) as (Ho & Hr & Hw).
      destruct (caprim_nolock_bits _ _ _ Hlk Hap) as (B1 & B2 & B3).
      destruct (cexec_atom_shape _ _ _ _ _ _ _ _ Hat Hex) as [[Hpc' Ha']|[Hst _]]; [|subst st; discriminate Hlk].
      split; [|split].
      * destruct G; constructor; rewrite ?Hr, ?Hw; auto.
      * eapply cloc1_atom; eauto.
        -- rewrite Hpc'. exact Hpc.
        -- rewrite Hpc'. exact Hrun.
        -- congruence.
        -- rewrite B1, Ho. apply (l1_hs _ _ _ L).
        -- rewrite B2, Hr. apply (l1_hr _ _ _ L).
        -- rewrite B3, Hw. apply (l1_hw _ _ _ L).
      * constructor; intros; rewrite ?Ho, ?Hr, ?Hw; try tauto; right; congruence.
  - (* SIf / SIter *)
    destruct st; try discriminate Hat; cbn in Hex.
    + inversion Hex; subst g' l'; clear Hex.
      split; [exact G|split; [|apply cframe1_refl]].
      constructor; cbn; try apply L.
      * apply (csafe_if g l ch c t0 e rest (th_a l) _ (l1_msg _ _ _ L) Hsafe).
      * apply cpok_if_step. rewrite <- Hpc. apply L.
    + destruct (csafe_iter _ _ _ _ Hsafe) as [Hs1 Hs2].
      destruct (th_iter l) as [[|[n [id adm]] its]|] eqn:Eit; inversion Hex; subst g' l'; clear Hex;
        (split; [exact G|split; [|apply cframe1_refl]]); constructor; cbn; try apply L; auto.
      all: try (destruct adm; discriminate).
      all: try (rewrite <- Hpc; apply L).
      all: destruct (l1_np _ _ _ L) as [E|E]; [left; exact E|right]; rewrite Hpc in E; cbn [cpok_l] in E;
        apply andb_true_iff in E; destruct E as [E1 E2]; rewrite ?cpok_app; cbn [cpok_l]; rewrite ?E1, ?E2; auto.
      all: try (rewrite andb_true_r; exact E1).
Qed.

(* ---------- starting an operation, whole steps, reachability ---------- *)
Lemma centry_ok_run mr nr p : centry_ok mr nr p = true -> carun_l p (cabs_idle mr nr) = Some (cabs_idle mr nr).
Proof.
  unfold centry_ok. destruct (carun_l p (cabs_idle mr nr)) as [a|]; [|discriminate].
  intros H. apply cabs_eqb_eq in H. now subst.
Qed.

Lemma check_shape_prog sh o :
  check_shape sh = true -> cop_ok o = true ->
  let '(pc, m, (mr, nr)) := cprog_of sh o in
  carun_l pc (cabs_idle mr nr) = Some (cabs_idle mr nr) /\ (cmsg_reset m = true -> mr = true) /\ cpok_l pc = true.
Proof.
  unfold check_shape. rewrite !andb_true_iff.
  intros [[[[[[[[H1 H2] H3] H4] H5] H6] _] _] [[[[[P1 P2] P3] P4] P5] P6]] Hok.
  destruct o; cbn in *; try discriminate Hok;
    try (split; [auto using centry_ok_run|split; [|auto]]; try discriminate; auto; apply negb_true_iff in Hok; congruence).
  (* OLogon *)
  unfold clogon_ok. destruct (centry_ok false false (sh_logon sh) && cnosetout_l (sh_logon sh) && cpok_l (sh_logon sh)) eqn:E.
  - rewrite !andb_true_iff in E. destruct E as [[E1 E2] E3]. split; [apply centry_ok_run; exact E1|split; [discriminate|exact E3]].
  - split; [reflexivity|split; [discriminate|reflexivity]].
Qed.

Lemma cload_loc1 sh g t l o os :
  check_shape sh = true -> cloc1 g t l -> th_pc l = [] -> th_ops l = o :: os -> cloc1 g t (cload sh o os l).
Proof.
  intros Hsh L Hpc Hops.
  pose proof (l1_safe _ _ _ L) as Hs. rewrite Hpc in Hs. cbn in Hs. inversion Hs as [Hfin]; clear Hs.
  pose proof (l1_ops _ _ _ L) as Hok. rewrite Hops in Hok. cbn in Hok. apply andb_true_iff in Hok. destruct Hok as [Hok Hoks].
  pose proof (check_shape_prog sh o Hsh Hok) as Hp.
  unfold cload. destruct (cprog_of sh o) as [[pc m] [mr nr]] eqn:Epr. destruct Hp as (Hrun & Hreset & Hpok).
  assert (Hb : a_hs (th_a l) = false /\ a_hr (th_a l) = false /\ a_hw (th_a l) = false) by (rewrite Hfin; cbn; auto).
  destruct Hb as (B1 & B2 & B3).
  destruct (match o with OResend b e rejs => (b, e, rejs) | OSetOut _ room => (Z.of_nat room, 0%Z, []) | _ => (0%Z, 0%Z, []) end) as [[b e] rejs].
  constructor; cbn; auto.
  - apply cabs_idle_wf.
  - rewrite <- (l1_hs _ _ _ L), B1. tauto.
  - rewrite <- (l1_hr _ _ _ L), B2. tauto.
  - rewrite <- (l1_hw _ _ _ L), B3. tauto.
  - discriminate.
  - intros Ht. destruct (l1_app _ _ _ L Ht) as [_ Hq]. split.
    + destruct (Hq o) as [m0 ->]; [rewrite Hops; left; reflexivity|]. cbn in Epr. inversion Epr. reflexivity.
    + intros o' Ho'. apply Hq. rewrite Hops. right. exact Ho'.
Qed.

Lemma cstep_inv1 sh s t ch s' :
  check_shape sh = true -> cinv1 s -> cstep sh s t ch = Some s' -> cinv1 s'.
Proof.
  intros Hsh (G & Ls & Own) Hst. unfold cstep in Hst.
  destruct (nth_error (c_ths s) t) as [l|] eqn:Hl; [|discriminate].
  pose proof (Ls t l Hl) as L.
  destruct (th_pc l) as [|st rest] eqn:Hpc.
  - destruct (th_ops l) as [|o os] eqn:Hops; [discriminate|]. inversion Hst; subst s'; clear Hst. cbn.
    split; [exact G|split].
    + intros u lu Hu. unfold cthr in Hu. cbn in Hu. destruct (Nat.eq_dec t u) as [->|Hne].
      * rewrite (cupd_nth_eq _ _ _ _ Hl) in Hu. inversion Hu; subst lu. apply cload_loc1; auto.
      * rewrite (cupd_nth_ne _ _ _ _ Hne) in Hu. apply Ls. exact Hu.
    + intros u Hu. destruct (Own u Hu) as [lu Hlu]. unfold cthr in *. cbn.
      destruct (Nat.eq_dec t u) as [->|Hne].
      * eexists. apply (cupd_nth_eq _ _ _ _ Hl).
      * exists lu. rewrite (cupd_nth_ne _ _ _ _ Hne). exact Hlu.
  - destruct (cexec t ch (c_sh s) l st rest) as [[g' l']|] eqn:Hex; [|discriminate]. inversion Hst; subst s'; clear Hst. cbn.
    destruct (cexec_inv1 _ _ _ _ _ _ _ _ G L Hpc Hex) as (G' & L' & F).
    split; [exact G'|split].
    + intros u lu Hu. unfold cthr in Hu. cbn in Hu. destruct (Nat.eq_dec t u) as [->|Hne].
      * rewrite (cupd_nth_eq _ _ _ _ Hl) in Hu. inversion Hu; subst lu. exact L'.
      * rewrite (cupd_nth_ne _ _ _ _ Hne) in Hu. eapply cframe1_loc; eauto.
    + intros u Hu. unfold cthr in *. cbn. destruct (Nat.eq_dec t u) as [->|Hne].
      * eexists. apply (cupd_nth_eq _ _ _ _ Hl).
      * assert (Hou : c_owner (c_sh s) = Some u \/ c_wr (c_sh s) = WHeld u).
        { destruct Hu as [Hu|Hu]; [destruct (f1_own_ex _ _ _ F u Hu) as [->|Hou]|destruct (f1_wr_ex _ _ _ F u Hu) as [->|Hou]]; auto; congruence. }
        destruct (Own u Hou) as [lu Hlu]. exists lu. rewrite (cupd_nth_ne _ _ _ _ Hne). exact Hlu.
Qed.

Lemma crun_inv (P : cstate -> Prop) sh :
  (forall s t ch s', P s -> cstep sh s t ch = Some s' -> P s') ->
  forall sched s s', P s -> crun sh s sched = Some s' -> P s'.
Proof.
  intros Hstep. induction sched as [|[t ch] r IH]; intros s s' Hp Hr; cbn in Hr.
  - inversion Hr. subst. exact Hp.
  - destruct (cstep sh s t ch) as [s1|] eqn:E; [|discriminate]. eapply IH; [|exact Hr]. eapply Hstep; eauto.
Qed.

(* initial states *)
Definition cmsgs_ok (apps : list (list cmsg)) : bool := forallb (forallb (fun m => negb (cmsg_reset m))) apps.

Lemma cinit_inv1 persist logged open room sess apps :
  forallb cop_ok sess = true -> cmsgs_ok apps = true -> cinv1 (cinit persist logged open room sess apps).
Proof.
  intros Hs Ha. split; [|split].
  - constructor; cbn; [constructor|discriminate].
  - intros t l Hl. unfold cthr in Hl. cbn in Hl. destruct t as [|t]; cbn in Hl.
    + inversion Hl; subst l. constructor; cbn; auto; try tauto; try (split; discriminate); try discriminate.
      * split; [discriminate|tauto].
      * intros Hle; inversion Hle.
    + rewrite nth_error_map in Hl. destruct (nth_error apps t) as [ms|] eqn:E; [|discriminate]. cbn in Hl.
      inversion Hl; subst l. constructor; cbn; auto; try tauto; try (split; discriminate); try discriminate.
      * split; [discriminate|tauto].
      * apply nth_error_In in E. unfold cmsgs_ok in Ha. rewrite forallb_forall in Ha. specialize (Ha ms E).
        rewrite forallb_forall. intros o Ho. apply in_map_iff in Ho. destruct Ho as [m [<- Hm]].
        rewrite forallb_forall in Ha. cbn. auto.
      * intros _. split; auto. intros o Ho. apply in_map_iff in Ho. destruct Ho as [m [<- Hm]]. eauto.
  - cbn. intros t [H|H]; discriminate.
Qed.
