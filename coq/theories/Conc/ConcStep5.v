(* C02 proofs, layer 5: flush completeness in safety form — clause (6).
   Every number consumed since the last reset is on the wire, in the queue, or held by the thread that is between
   SaveAndIncr and Append — unless a non-empty queue was dropped since the last reset. *)
From Coq Require Import ZArith List Bool Lia Arith.
From QF Require Import Conc.ShapeLang Conc.SendConc Conc.ConcSpec Conc.ConcInv1 Conc.ConcStep1 Conc.ConcStep2 Conc.ConcInv3 Conc.ConcStep3.
Import ListNotations.
Open Scope Z_scope.

Definition caccounted (s : cstate) (n : Z) : Prop :=
  In n (c02_epoch_firsts (c_trace (c_sh s))) \/ (exists id, In (IFirst n id) (c_q (c_sh s))) \/
  (exists t l, cthr s t l /\ a_ph (th_a l) = PhSaved /\ th_seq l = n).

Definition cinv5 (s : cstate) : Prop :=
  c02_no_drop (c_trace (c_sh s)) -> forall n, In n (c02_epoch_assigned (c_trace (c_sh s))) -> caccounted s n.

(* exact trace effect of one statement *)
Lemma cexec_eff5 t ch g l st rest g' l' :
  cexec t ch g l st rest = Some (g', l') ->
  match st with
  | SStoreReset => c_trace g' = EvReset :: c_trace g
  | SSaveIncr => exists id, c_trace g' = EvSaved (th_seq l) id :: EvAssign (th_seq l) :: c_trace g
  | SIncrOnly => c_trace g' = EvAssign (th_seq l) :: c_trace g
  | SFlush _ => True
  | SDropQ => (c_q g = [] /\ c_trace g' = c_trace g) \/ c_trace g' = EvDrop :: c_trace g
  | SAcq MResW => c_trace g' = c_trace g \/ c_trace g' = EvResendBegin :: c_trace g
  | SRel MResW => c_trace g' = EvResendEnd :: c_trace g
  | _ => c_trace g' = c_trace g
  end.
Proof.
  destruct st; cexec_cases t g l; intros H; inversion H; subst; cbn; eauto.
  destruct (c_q g); auto.
Qed.

Lemma cwire_assigned q tr : c02_epoch_assigned (cwire_evs q tr) = c02_epoch_assigned tr.
Proof. revert tr. induction q as [|x q IH]; intros tr; cbn [cwire_evs]; [reflexivity|]. rewrite IH. destruct x; reflexivity. Qed.
Lemma cwire_no_drop q tr : c02_no_drop (cwire_evs q tr) <-> c02_no_drop tr.
Proof. revert tr. induction q as [|x q IH]; intros tr; cbn [cwire_evs]; [tauto|]. rewrite IH. destruct x; cbn; tauto. Qed.

Lemma caprim_saved_stays : forall a a' st, caprim a st = Some a' -> a_ph a = PhSaved -> st <> SAppend -> a_ph a' = PhSaved.
Proof.
  intros a a' st. destruct a as [hs hr hw ph q kp mr nr]. cbn. intros H -> Hne.
  destruct st; try congruence; try (destruct m); cbn in H; destruct hs; cbn in H; try discriminate H;
    repeat match type of H with context [if ?b then _ else _] => destruct b; cbn in H; try discriminate H end;
    inversion H; subst; reflexivity.
Qed.

Lemma cacc_transfer s s' n :
  (forall m, In m (c02_epoch_firsts (c_trace (c_sh s))) -> In m (c02_epoch_firsts (c_trace (c_sh s')))) ->
  (forall id, In (IFirst n id) (c_q (c_sh s)) ->
              In n (c02_epoch_firsts (c_trace (c_sh s'))) \/ In (IFirst n id) (c_q (c_sh s'))) ->
  (forall u lu, cthr s u lu -> a_ph (th_a lu) = PhSaved -> th_seq lu = n ->
                (exists lu', cthr s' u lu' /\ a_ph (th_a lu') = PhSaved /\ th_seq lu' = n) \/
                (exists id, In (IFirst n id) (c_q (c_sh s')))) ->
  caccounted s n -> caccounted s' n.
Proof.
  intros HF Hq Hw [H|[[id H]|(u & lu & H1 & H2 & H3)]].
  - left. auto.
  - destruct (Hq id H) as [H'|H']; [left; exact H'|right; left; eauto].
  - destruct (Hw u lu H1 H2 H3) as [(lu' & A1 & A2 & A3)|H']; [right; right; eauto|right; left; exact H'].
Qed.

Lemma cstep_inv5 sh s t ch s' :
  check_shape sh = true -> cinv1 s -> cinv3 s -> cinv5 s -> cstep sh s t ch = Some s' -> cinv5 s'.
Proof.
  intros Hsh I1 (_ & Ls3 & _) I5 Hst.
  pose proof I1 as (G & Ls & Own). unfold cstep in Hst.
  destruct (nth_error (c_ths s) t) as [l|] eqn:Hl; [|discriminate].
  pose proof (Ls t l Hl) as L. pose proof (Ls3 t l Hl) as L3.
  destruct (th_pc l) as [|st rest] eqn:Hpc.
  - destruct (th_ops l) as [|o os] eqn:Hops; [discriminate|]. inversion Hst; subst s'; clear Hst.
    pose proof (l1_safe _ _ _ L) as Hs. rewrite Hpc in Hs. cbn in Hs. inversion Hs as [Hfin]; clear Hs.
    intros Hnd n Hn. cbn in Hnd, Hn. apply (cacc_transfer s); cbn; auto.
    intros u lu Hu Hph Hsq. left. destruct (Nat.eq_dec u t) as [->|Hne].
    + unfold cthr in Hu. rewrite Hl in Hu. inversion Hu; subst lu. rewrite Hfin in Hph. discriminate Hph.
    + exists lu. split; auto. unfold cthr in *. cbn. rewrite (cupd_nth_ne _ _ _ _ (not_eq_sym Hne)). exact Hu.
  - destruct (cexec t ch (c_sh s) l st rest) as [[g' l']|] eqn:Hex; [|discriminate]. inversion Hst; subst s'; clear Hst.
    pose proof (cexec_eff5 _ _ _ _ _ _ _ _ Hex) as H5.
    pose proof (cexec_eff3 _ _ _ _ _ _ _ _ Hex) as H3.
    pose proof (cexec_store _ _ _ _ _ _ _ _ Hex) as Hsto.
    pose proof (cexec_ghost _ _ _ _ _ _ _ _ L Hpc Hex) as Hgh.
    assert (Hothers : forall u lu, u <> t -> cthr s u lu -> cthr {| c_sh := g'; c_ths := cupd (c_ths s) t l' |} u lu).
    { intros u lu Hne Hu. unfold cthr in *. cbn. rewrite (cupd_nth_ne _ _ _ _ (not_eq_sym Hne)). exact Hu. }
    assert (Hself : cthr {| c_sh := g'; c_ths := cupd (c_ths s) t l' |} t l').
    { unfold cthr. cbn. apply (cupd_nth_eq _ _ _ _ Hl). }
    (* the mover stays a witness unless it appends *)
    assert (Hstay : st <> SAppend -> st <> SReadSnd -> a_ph (th_a l) = PhSaved -> a_ph (th_a l') = PhSaved).
    { intros N1 N2 Hph. destruct Hgh as [(Hat & a' & Hap & [Ha|[_ Hll]])|(Hat & Hp & _)].
      - rewrite Ha. eapply caprim_saved_stays; eauto.
      - subst l'. exact Hph.
      - congruence. }
    (* generic case: trace unchanged up to markers, queue grows at most *)
    assert (Hgen : forall (Htr : c02_epoch_firsts (c_trace g') = c02_epoch_firsts (c_trace (c_sh s)) /\
                                 c02_epoch_assigned (c_trace g') = c02_epoch_assigned (c_trace (c_sh s)) /\
                                 (c02_no_drop (c_trace g') -> c02_no_drop (c_trace (c_sh s))))
                          (Hq : forall i, In i (c_q (c_sh s)) -> In i (c_q g'))
                          (Hnot : st <> SAppend) (Hnr : st <> SReadSnd) (Hseq : th_seq l' = th_seq l),
               cinv5 {| c_sh := g'; c_ths := cupd (c_ths s) t l' |}).
    { intros (HF & HA & HND) Hq Hnot Hnr Hseq Hnd n Hn. cbn in Hnd, Hn. rewrite HA in Hn.
      apply (cacc_transfer s); cbn; [rewrite HF; auto|intros; right; auto| |apply I5; auto].
      intros u lu Hu Hph Hsq. left. destruct (Nat.eq_dec u t) as [->|Hne].
      - unfold cthr in Hu. rewrite Hl in Hu. inversion Hu; subst lu. exists l'. split; [exact Hself|]. split; [auto|congruence].
      - exists lu. split; auto. }
    destruct st.
    all: try (destruct H3 as (_ & Eq & _ & _); apply Hgen;
              [rewrite H5; auto | rewrite Eq; auto | discriminate | discriminate | apply Hsto]; fail).
    + (* SAcq *)
      destruct H3 as (_ & Eq & _ & _). apply Hgen; [|rewrite Eq; auto|discriminate|discriminate|apply Hsto].
      destruct m; try (rewrite H5; auto). destruct H5 as [E|E]; rewrite E; cbn; auto.
    + (* SRel *)
      destruct H3 as (_ & Eq & _ & _). apply Hgen; [|rewrite Eq; auto|discriminate|discriminate|apply Hsto].
      destruct m; rewrite H5; cbn; auto.
    + (* SReadSnd: not while Saved; otherwise nothing changes *)
      destruct Hsto as [-> _]. intros Hnd n Hn. cbn in Hnd, Hn.
      apply (cacc_transfer s); cbn; [auto|auto| |apply I5; auto].
      intros u lu Hu Hph Hsq. left. destruct (Nat.eq_dec u t) as [->|Hne]; [|exists lu; split; auto].
      exfalso. unfold cthr in Hu. rewrite Hl in Hu. inversion Hu; subst lu.
      destruct Hgh as [(_ & a' & Hap & _)|(Hx & _)]; [|discriminate Hx].
      cbn in Hap. rewrite Hph in Hap. destruct (a_hs (th_a l)); discriminate Hap.
    + (* SStoreReset *)
      rewrite H5 in *. intros _ n Hn. cbn in Hn. rewrite H5 in Hn. cbn in Hn. destruct Hn.
    + (* SSaveIncr *)
      destruct H5 as [id H5]. destruct H3 as (_ & Eq & _ & _). destruct Hsto as (_ & Hsq' & _).
      destruct Hgh as [(_ & a' & Hap & [Ha|[Hx _]])|(Hx & _)]; try discriminate Hx.
      destruct (caprim_save_ph _ _ _ Hap (or_introl eq_refl)) as [Hp1 Hp2].
      intros Hnd n Hn. cbn in Hnd, Hn. rewrite H5 in Hnd, Hn. cbn in Hnd, Hn. destruct Hn as [<-|Hn].
      * right. right. exists t, l'. split; [exact Hself|]. split; [congruence|exact Hsq'].
      * apply (cacc_transfer s); cbn; [rewrite H5; cbn; auto|rewrite Eq; auto| |apply I5; auto].
        intros u lu Hu Hph Hsq. left. destruct (Nat.eq_dec u t) as [->|Hne]; [|exists lu; split; auto].
        exfalso. unfold cthr in Hu. rewrite Hl in Hu. inversion Hu; subst lu. congruence.
    + (* SIncrOnly *)
      destruct H3 as (_ & Eq & _ & _). destruct Hsto as (_ & Hsq' & _).
      destruct Hgh as [(_ & a' & Hap & [Ha|[Hx _]])|(Hx & _)]; try discriminate Hx.
      destruct (caprim_save_ph _ _ _ Hap (or_intror eq_refl)) as [Hp1 Hp2].
      intros Hnd n Hn. cbn in Hnd, Hn. rewrite H5 in Hnd, Hn. cbn in Hnd, Hn. destruct Hn as [<-|Hn].
      * right. right. exists t, l'. split; [exact Hself|]. split; [congruence|exact Hsq'].
      * apply (cacc_transfer s); cbn; [rewrite H5; cbn; auto|rewrite Eq; auto| |apply I5; auto].
        intros u lu Hu Hph Hsq. left. destruct (Nat.eq_dec u t) as [->|Hne]; [|exists lu; split; auto].
        exfalso. unfold cthr in Hu. rewrite Hl in Hu. inversion Hu; subst lu. congruence.
    + (* SAppend *)
      destruct H3 as (_ & Etr & _ & Eq).
      intros Hnd n Hn. cbn in Hnd, Hn. rewrite H5 in Hnd, Hn.
      apply (cacc_transfer s); cbn; [rewrite H5; auto| | |apply I5; auto].
      * intros id Hin. right. rewrite Eq. destruct (th_pend l); [apply in_or_app; left|]; exact Hin.
      * intros u lu Hu Hph Hsq. destruct (Nat.eq_dec u t) as [->|Hne]; [|left; exists lu; split; auto].
        right. unfold cthr in Hu. rewrite Hl in Hu. inversion Hu; subst lu.
        destruct (l3_saved _ _ L3 Hph) as (id & Hpend & _). exists id. rewrite Eq, Hpend, <- Hsq.
        apply in_or_app. right. left. reflexivity.
    + (* SFlush *)
      destruct H3 as (_ & _ & k & Eq & Etr). destruct Hsto as (_ & _ & Hsq').
      intros Hnd n Hn. cbn in Hnd, Hn. rewrite Etr in Hnd, Hn. rewrite cwire_assigned in Hn. apply cwire_no_drop in Hnd.
      apply (cacc_transfer s); cbn; [| | |apply I5; auto].
      * intros m Hm. rewrite Etr. apply cwire_ef. left. exact Hm.
      * intros id Hin. rewrite <- (firstn_skipn k (c_q (c_sh s))) in Hin. apply in_app_or in Hin. destruct Hin as [Hin|Hin].
        -- left. rewrite Etr. apply cwire_ef. right. eauto.
        -- right. rewrite Eq. exact Hin.
      * intros u lu Hu Hph Hsq. left. destruct (Nat.eq_dec u t) as [->|Hne]; [|exists lu; split; auto].
        unfold cthr in Hu. rewrite Hl in Hu. inversion Hu; subst lu. exists l'. split; [exact Hself|]. split; [|congruence].
        apply Hstay; auto; discriminate.
    + (* SDropQ *)
      destruct H3 as (_ & Eq & _ & _). destruct Hsto as (_ & _ & Hsq').
      destruct H5 as [[Eq0 Etr]|Etr].
      * apply Hgen; [rewrite Etr; auto|rewrite Eq0; intros i []|discriminate|discriminate|exact Hsq'].
      * intros Hnd. cbn in Hnd. rewrite Etr in Hnd. destruct Hnd.
Qed.

Lemma cinit_inv5 persist logged open room sess apps : cinv5 (cinit persist logged open room sess apps).
Proof. intros _ n []. Qed.
