(* C02 — closed world for the store's outbound numbering (compared with the list the translator reads off the sources). *)
From Coq Require Import List String.
From QF Require Import Gen.SendShape.
Import ListNotations.
Open Scope string_scope.

(* closed world: besides the translated entry points (which inline persist, prepMessageForSend and dropAndReset) the only
   function of the package that writes the store's outbound numbering directly is the registry call
   SetNextSenderMsgSeqNum — an operator API outside C02's quantifier.  The translator lists every such (function, store
   method) pair of the current sources; a new direct writer (a Reset, Save or counter write outside the send lock's
   functions) changes the list and this lemma no longer checks. *)
Definition expected_store_writers : list (string * string) :=
  [("SetNextSenderMsgSeqNum", "SetNextSenderMsgSeqNum");
   ("session.dropAndReset", "Reset");
   ("session.persist", "IncrNextSenderMsgSeqNum");
   ("session.persist", "SaveMessageAndIncrNextSenderMsgSeqNum");
   ("session.prepMessageForSend", "Reset")].
Lemma writers_ok : gen_store_writers = expected_store_writers.
Proof. vm_compute. reflexivity. Qed.

