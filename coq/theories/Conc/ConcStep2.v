(* C02 proofs, layer 2: numbering. Consumed numbers are consecutive per epoch and the store's next number is
   one past the last one consumed — clauses (1) and (2). *)
From Coq Require Import ZArith List Bool Lia Arith.
From QF Require Import Conc.ShapeLang Conc.SendConc Conc.ConcSpec Conc.ConcInv1 Conc.ConcStep1.
Import ListNotations.
Open Scope Z_scope.

(* events that neither consume a number, nor save, nor reset *)
Definition cev_benign (e : cev) : bool := match e with EvAssign _ | EvReset | EvSaved _ _ => false | _ => true end.
Definition cbenign (tr tr' : list cev) : Prop := exists evs, tr' = evs ++ tr /\ Forall (fun e => cev_benign e = true) evs.

Lemma cbenign_refl tr : cbenign tr tr.
Proof. exists []. split; auto. Qed.
Lemma cbenign_cons e tr : cev_benign e = true -> cbenign tr (e :: tr).
Proof. intros H. exists [e]. split; auto. Qed.

Lemma cwire_evs_app q tr : cwire_evs q tr = rev (map EvWire q) ++ tr.
Proof.
  revert tr. induction q as [|i q IH]; intros tr; cbn; [reflexivity|].
  rewrite IH, <- app_assoc. reflexivity.
Qed.
Lemma cbenign_wire q tr : cbenign tr (cwire_evs q tr).
Proof.
  exists (rev (map EvWire q)). split; [apply cwire_evs_app|].
  apply Forall_rev. apply Forall_forall. intros e He. apply in_map_iff in He. destruct He as [i [<- _]]. reflexivity.
Qed.

Lemma cbenign_expected init tr tr' : cbenign tr tr' -> c02_expected init tr' = c02_expected init tr.
Proof.
  intros [evs [-> Hall]]. induction Hall as [|e evs He Hall IH]; cbn; [reflexivity|].
  destruct e; try discriminate He; exact IH.
Qed.
Lemma cbenign_consec init tr tr' : cbenign tr tr' -> (c02_consec init tr' <-> c02_consec init tr).
Proof.
  intros [evs [-> Hall]]. induction Hall as [|e evs He Hall IH]; cbn; [tauto|].
  destruct e; try discriminate He; exact IH.
Qed.

Lemma cflush_trace g b : cbenign (c_trace g) (c_trace (cflush g b)).
Proof.
  unfold cflush. destruct (c_open g); cbn; [|apply cbenign_refl].
  destruct b; cbn; apply cbenign_wire.
Qed.

(* what one statement does to the store counter, the trace and the thread's seqNum *)
Lemma cexec_store t ch g l st rest g' l' :
  cexec t ch g l st rest = Some (g', l') ->
  match st with
  | SStoreReset => c_snd g' = 1 /\ c_trace g' = EvReset :: c_trace g /\ th_seq l' = th_seq l
  | SSaveIncr => c_snd g' = c_snd g + 1 /\ th_seq l' = th_seq l /\
                 exists id, c_trace g' = EvSaved (th_seq l) id :: EvAssign (th_seq l) :: c_trace g
  | SIncrOnly => c_snd g' = c_snd g + 1 /\ th_seq l' = th_seq l /\ c_trace g' = EvAssign (th_seq l) :: c_trace g
  | SReadSnd => g' = g /\ th_seq l' = c_snd g
  | _ => c_snd g' = c_snd g /\ cbenign (c_trace g) (c_trace g') /\ th_seq l' = th_seq l
  end.
Proof.
  destruct st; cexec_cases t g l; intros H; inversion H; subst; cbn;
    repeat split; eauto using cbenign_refl, cbenign_cons, cflush_trace.
  - apply cflush_fields.
  - destruct (c_q g); [apply cbenign_refl|apply cbenign_cons; reflexivity].
Qed.

Lemma caprim_ph_rb a st a' :
  caprim a st = Some a' -> st <> SReadSnd -> (a_ph a' = PhRead \/ a_ph a' = PhBuilt) -> (a_ph a = PhRead \/ a_ph a = PhBuilt).
Proof.
  destruct a as [hs hr hw ph q kp mr nr].
  destruct st; try discriminate; try congruence; try (destruct m); cbn;
    destruct hs, hr, hw, nr, ph; cbn; try discriminate;
    repeat match goal with |- context [if ?b then _ else _] => destruct b end; try discriminate;
    intros H; inversion H; subst; cbn; intros _ [E|E]; try discriminate E; auto.
Qed.

Lemma caprim_needs_hs a st a' :
  caprim a st = Some a' -> (st = SStoreReset \/ st = SSaveIncr \/ st = SIncrOnly) -> a_hs a = true.
Proof.
  intros H [->|[->| ->]]; cbn in H; destruct (a_hs a); auto; discriminate.
Qed.

Lemma caprim_save_ph a st a' :
  caprim a st = Some a' -> (st = SSaveIncr \/ st = SIncrOnly) -> a_ph a = PhBuilt /\ a_ph a' = PhSaved.
Proof.
  intros H [->| ->]; cbn in H; destruct (a_hs a); cbn in H; try discriminate;
    destruct (a_ph a); cbn in H; try discriminate.
  - inversion H. cbn. auto.
  - inversion H. cbn. auto.
Qed.

Lemma caprim_reset_ph a a' : caprim a SStoreReset = Some a' -> a_ph a' = PhIdle \/ a_ph a' = PhStale.
Proof.
  cbn. destruct (a_hs a); [|discriminate]. destruct (a_ph a); try discriminate; intros H; inversion H; cbn; auto.
Qed.

Definition cinv2 (s : cstate) : Prop :=
  c02_consec 1 (c_trace (c_sh s)) /\ c_snd (c_sh s) = c02_expected 1 (c_trace (c_sh s)) /\
  forall t l, cthr s t l -> (a_ph (th_a l) = PhRead \/ a_ph (th_a l) = PhBuilt) -> th_seq l = c_snd (c_sh s).

(* a thread in a critical phase is THE owner of sendMutex *)
Lemma ccrit_owner s t l : cinv1 s -> cthr s t l -> cph_crit (a_ph (th_a l)) = true -> c_owner (c_sh s) = Some t.
Proof.
  intros (_ & Ls & _) Hl Hc. pose proof (Ls t l Hl) as L. apply (l1_hs _ _ _ L).
  pose proof (l1_wf _ _ _ L) as W. unfold cabs_wfb in W. rewrite !andb_true_iff in W.
  destruct W as [[[[[W _] _] _] _] _]. rewrite Hc in W. exact W.
Qed.

(* the ghost state after a statement is the shape interpreter's *)
Lemma cexec_ghost t ch g l st rest g' l' :
  cloc1 g t l -> th_pc l = st :: rest -> cexec t ch g l st rest = Some (g', l') ->
  (catom st = true /\ exists a', caprim (th_a l) st = Some a' /\ (th_a l' = a' \/ (st = SAcq MResW /\ l' = l)))
  \/ (catom st = false /\ a_ph (th_a l') = a_ph (th_a l) /\ a_q (th_a l') = a_q (th_a l) /\ a_hs (th_a l') = a_hs (th_a l)
      /\ a_hw (th_a l') = a_hw (th_a l) /\ th_pend l' = th_pend l /\ g' = g).
Proof.
  intros L Hpc Hex. pose proof (l1_safe _ _ _ L) as Hsafe. rewrite Hpc in Hsafe.
  destruct (catom st) eqn:Hat.
  - left. split; auto. destruct (csafe_atom _ _ _ _ Hat Hsafe) as (a' & Hap & _ & Hgh).
    exists a'. split; auto.
    destruct (cexec_atom_shape _ _ _ _ _ _ _ _ Hat Hex) as [[_ Ha]|(Hst & Hl & _)]; [left; congruence|right; auto].
  - right. split; auto. destruct st; try discriminate Hat; cbn in Hex.
    + destruct (clearn_bits (th_a l) c (ceval_c g l ch c)) as (B1 & B2 & B3 & B4 & B5). inversion Hex; subst; cbn. auto 10.
    + destruct (th_iter l) as [[|[n [id adm]] its]|]; inversion Hex; subst; cbn; auto 10.
Qed.

Lemma cexec_ph_rb t ch g l st rest g' l' :
  cloc1 g t l -> th_pc l = st :: rest -> cexec t ch g l st rest = Some (g', l') -> st <> SReadSnd ->
  (a_ph (th_a l') = PhRead \/ a_ph (th_a l') = PhBuilt) -> (a_ph (th_a l) = PhRead \/ a_ph (th_a l) = PhBuilt).
Proof.
  intros L Hpc Hex Hne Hph.
  destruct (cexec_ghost _ _ _ _ _ _ _ _ L Hpc Hex) as [(Hat & a' & Hap & [Ha|[_ Hl]])|(Hat & Hp & _)].
  - eapply caprim_ph_rb; eauto. congruence.
  - congruence.
  - congruence.
Qed.

Lemma cstep_inv2 sh s t ch s' :
  check_shape sh = true -> cinv1 s -> cinv2 s -> cstep sh s t ch = Some s' -> cinv2 s'.
Proof.
  intros Hsh I1 (Hcons & Hnext & Hseq) Hst.
  pose proof I1 as (G & Ls & Own). unfold cstep in Hst.
  destruct (nth_error (c_ths s) t) as [l|] eqn:Hl; [|discriminate].
  pose proof (Ls t l Hl) as L.
  destruct (th_pc l) as [|st rest] eqn:Hpc.
  - destruct (th_ops l) as [|o os] eqn:Hops; [discriminate|]. inversion Hst; subst s'; clear Hst. cbn.
    split; [exact Hcons|split; [exact Hnext|]].
    intros u lu Hu. unfold cthr in Hu. cbn in Hu. destruct (Nat.eq_dec t u) as [->|Hne].
    + rewrite (cupd_nth_eq _ _ _ _ Hl) in Hu. inversion Hu; subst lu.
      unfold cload. destruct (cprog_of sh o) as [[pc m] [mr nr]].
      destruct (match o with OResend b e rejs => (b, e, rejs) | OSetOut _ room => (Z.of_nat room, 0, []) | _ => (0, 0, []) end) as [[b e] rejs].
      cbn. intros [E|E]; discriminate E.
    + rewrite (cupd_nth_ne _ _ _ _ Hne) in Hu. apply (Hseq u lu Hu).
  - destruct (cexec t ch (c_sh s) l st rest) as [[g' l']|] eqn:Hex; [|discriminate]. inversion Hst; subst s'; clear Hst. cbn.
    pose proof (cexec_store _ _ _ _ _ _ _ _ Hex) as Hstore.
    pose proof (cexec_ghost _ _ _ _ _ _ _ _ L Hpc Hex) as Hgh.
    (* other threads in a critical phase would own sendMutex *)
    assert (Hother : forall u lu, u <> t -> cthr s u lu -> (a_ph (th_a lu) = PhRead \/ a_ph (th_a lu) = PhBuilt) ->
                                  a_hs (th_a l) = true -> False).
    { intros u lu Hne Hu Hph Hhs. apply (l1_hs _ _ _ L) in Hhs.
      assert (Hc : cph_crit (a_ph (th_a lu)) = true) by (destruct Hph as [-> | ->]; reflexivity).
      pose proof (ccrit_owner s u lu I1 Hu Hc). congruence. }
    assert (Hthreads : forall X : Z,
               ((a_ph (th_a l') = PhRead \/ a_ph (th_a l') = PhBuilt) -> th_seq l' = X) ->
               (forall u lu, u <> t -> cthr s u lu -> (a_ph (th_a lu) = PhRead \/ a_ph (th_a lu) = PhBuilt) -> th_seq lu = X) ->
               forall u lu, nth_error (cupd (c_ths s) t l') u = Some lu ->
                            (a_ph (th_a lu) = PhRead \/ a_ph (th_a lu) = PhBuilt) -> th_seq lu = X).
    { intros X Pt Po u lu Hu. destruct (Nat.eq_dec t u) as [->|Hne].
      - rewrite (cupd_nth_eq _ _ _ _ Hl) in Hu. inversion Hu; subst. exact Pt.
      - rewrite (cupd_nth_ne _ _ _ _ Hne) in Hu. apply (Po u lu); auto. }
    unfold cinv2; cbn [c_sh c_ths].
    destruct st;
      try (destruct Hstore as (Hs1 & Hb & Hs2);
           split; [apply (proj2 (cbenign_consec 1 _ _ Hb)); exact Hcons|
                   split; [rewrite Hs1, (cbenign_expected 1 _ _ Hb); exact Hnext|]];
           unfold cthr; cbn; apply Hthreads;
           [intros Hph; rewrite Hs2, Hs1; apply (Hseq t l Hl); eapply cexec_ph_rb; eauto; discriminate
           |intros u lu Hne Hu Hph; rewrite Hs1; apply (Hseq u lu Hu Hph)]).
    + (* SReadSnd *)
      destruct Hstore as [-> Hs2]. split; [exact Hcons|split; [exact Hnext|]].
      unfold cthr; cbn. apply Hthreads; [auto|]. intros u lu Hne Hu Hph. apply (Hseq u lu Hu Hph).
    + (* SStoreReset *)
      destruct Hstore as (Hs1 & Htr & Hs2). rewrite Htr, Hs1. cbn.
      destruct Hgh as [(_ & a' & Hap & [Ha|[Hx _]])|(Hx & _)]; try discriminate Hx.
      pose proof (caprim_needs_hs _ _ _ Hap (or_introl eq_refl)) as Hhs.
      split; [exact Hcons|split; [reflexivity|]].
      unfold cthr; cbn. apply Hthreads.
      * rewrite Ha. intros Hph. destruct (caprim_reset_ph _ _ Hap) as [E|E]; rewrite E in Hph; destruct Hph; discriminate.
      * intros u lu Hne Hu Hph. exfalso. eapply Hother; eauto.
    + (* SSaveIncr *)
      destruct Hstore as (Hs1 & Hs2 & id & Htr). rewrite Htr, Hs1. cbn.
      destruct Hgh as [(_ & a' & Hap & [Ha|[Hx _]])|(Hx & _)]; try discriminate Hx.
      pose proof (caprim_needs_hs _ _ _ Hap (or_intror (or_introl eq_refl))) as Hhs.
      destruct (caprim_save_ph _ _ _ Hap (or_introl eq_refl)) as [Hp1 Hp2].
      assert (Hsq : th_seq l = c_snd (c_sh s)) by (apply (Hseq t l Hl); auto).
      split; [split; [rewrite Hsq; exact Hnext|exact Hcons]|split; [rewrite Hsq; reflexivity|]].
      unfold cthr; cbn. apply Hthreads.
      * rewrite Ha, Hp2. intros [E|E]; discriminate E.
      * intros u lu Hne Hu Hph. exfalso. eapply Hother; eauto.
    + (* SIncrOnly *)
      destruct Hstore as (Hs1 & Hs2 & Htr). rewrite Htr, Hs1. cbn.
      destruct Hgh as [(_ & a' & Hap & [Ha|[Hx _]])|(Hx & _)]; try discriminate Hx.
      pose proof (caprim_needs_hs _ _ _ Hap (or_intror (or_intror eq_refl))) as Hhs.
      destruct (caprim_save_ph _ _ _ Hap (or_intror eq_refl)) as [Hp1 Hp2].
      assert (Hsq : th_seq l = c_snd (c_sh s)) by (apply (Hseq t l Hl); auto).
      split; [split; [rewrite Hsq; exact Hnext|exact Hcons]|split; [rewrite Hsq; reflexivity|]].
      unfold cthr; cbn. apply Hthreads.
      * rewrite Ha, Hp2. intros [E|E]; discriminate E.
      * intros u lu Hne Hu Hph. exfalso. eapply Hother; eauto.
Qed.

Lemma cinit_inv2 persist logged open room sess apps : cinv2 (cinit persist logged open room sess apps).
Proof.
  split; [exact I|split; [reflexivity|]].
  intros t l Hl. unfold cthr in Hl. cbn in Hl. destruct t as [|t]; cbn in Hl.
  - inversion Hl; subst. cbn. intros [E|E]; discriminate E.
  - rewrite nth_error_map in Hl. destruct (nth_error apps t); [|discriminate]. inversion Hl; subst. cbn. intros [E|E]; discriminate E.
Qed.
