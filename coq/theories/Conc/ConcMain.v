(* C02 — main theorems, for every shape passing [check_shape], then for the generated shape. *)
From Coq Require Import ZArith List Bool Lia Arith.
From QF Require Import Conc.ShapeLang Conc.SendConc Conc.ConcSpec Conc.ConcInv1 Conc.ConcStep1 Conc.ConcStep2
  Conc.ConcInv3 Conc.ConcStep3 Conc.ConcStep4 Gen.SendShape.
Import ListNotations.
Open Scope Z_scope.

Definition cinv_all (s : cstate) : Prop := cinv1 s /\ cinv2 s /\ cinv3 s.

Lemma cstep_inv_all sh s t ch s' : check_shape sh = true -> cinv_all s -> cstep sh s t ch = Some s' -> cinv_all s'.
Proof.
  intros Hsh (I1 & I2 & I3) Hst. split; [|split].
  - eapply cstep_inv1; eauto.
  - eapply cstep_inv2; eauto.
  - eapply cstep_inv3; eauto.
Qed.

Lemma cstep_persist sh s t ch s' : cstep sh s t ch = Some s' -> c_persist (c_sh s') = c_persist (c_sh s).
Proof.
  unfold cstep. destruct (nth_error (c_ths s) t) as [l|]; [|discriminate].
  destruct (th_pc l) as [|st rest].
  - destruct (th_ops l); [discriminate|]. intros H; inversion H; reflexivity.
  - destruct (cexec t ch (c_sh s) l st rest) as [[g' l']|] eqn:E; [|discriminate]. intros H; inversion H; subst. cbn.
    eapply cexec_persist; eauto.
Qed.

Lemma crun_persist sh sched : forall s s', crun sh s sched = Some s' -> c_persist (c_sh s') = c_persist (c_sh s).
Proof.
  induction sched as [|[t ch] r IH]; intros s s' H; cbn in H.
  - inversion H; reflexivity.
  - destruct (cstep sh s t ch) as [s1|] eqn:E; [|discriminate]. rewrite (IH _ _ H). eapply cstep_persist; eauto.
Qed.

(* Clauses (1)-(4) for every well-shaped program family, any number of application threads, any programs, any schedule *)
Theorem c02_safety_of_shape sh persist logged open room sess apps sched s :
  check_shape sh = true -> forallb cop_ok sess = true -> cmsgs_ok apps = true ->
  creach sh (cinit persist logged open room sess apps) sched s ->
  c02_consec 1 (c_trace (c_sh s)) /\
  c_snd (c_sh s) = c02_expected 1 (c_trace (c_sh s)) /\
  (persist = true -> c02_persisted (c_trace (c_sh s))) /\
  c02_wire_inc (c_trace (c_sh s)).
Proof.
  intros Hsh Hs Ha Hr.
  assert (I : cinv_all s).
  { eapply (crun_inv cinv_all sh); [intros; eapply cstep_inv_all; eauto| |exact Hr].
    split; [apply cinit_inv1; auto|split; [apply cinit_inv2|apply cinit_inv3]]. }
  destruct I as (I1 & (C1 & C2 & _) & (G3 & _ & _)).
  repeat split; auto.
  - intros Hp. apply (g3_pers _ G3). rewrite (crun_persist _ _ _ _ Hr). exact Hp.
  - apply (g3_inc _ G3).
Qed.

(* Clause (5), while the connection stays open *)
Theorem c02_replay_of_shape sh persist logged room sess apps sched s :
  check_shape sh = true -> forallb cop_ok sess = true -> cmsgs_ok apps = true -> forallb cop_conn sess = true ->
  creach sh (cinit persist logged true room sess apps) sched s ->
  c02_replay_excl (c_trace (c_sh s)).
Proof.
  intros Hsh Hs Ha Hc Hr.
  assert (I : cinv_all s /\ cinv4 s).
  { eapply (crun_inv (fun s => cinv_all s /\ cinv4 s) sh); [| |exact Hr].
    - intros s0 t ch s1 [J1 J4] Hst. split; [eapply cstep_inv_all; eauto|].
      destruct J1 as (K1 & K2 & K3). eapply cstep_inv4; eauto.
    - split; [split; [apply cinit_inv1; auto|split; [apply cinit_inv2|apply cinit_inv3]]|apply cinit_inv4; auto]. }
  destruct I as (_ & _ & _ & _ & inres & seen & Hrs & _). unfold c02_replay_excl. rewrite Hrs. discriminate.
Qed.

(* ---------- the generated shape ---------- *)
Lemma shape_ok : check_shape gen_send_shape = true.
Proof. vm_compute. reflexivity. Qed.

(* the unlocked store.Reset() of handleLogon is NOT well shaped *)
Lemma shape_logon_not_ok : centry_ok false false (sh_logon gen_send_shape) = false.
Proof. vm_compute. reflexivity. Qed.

Theorem c02_numbering_gen persist logged open room sess apps sched s :
  forallb cop_ok sess = true -> cmsgs_ok apps = true ->
  creach gen_send_shape (cinit persist logged open room sess apps) sched s ->
  c02_consec 1 (c_trace (c_sh s)) /\
  c_snd (c_sh s) = c02_expected 1 (c_trace (c_sh s)) /\
  (persist = true -> c02_persisted (c_trace (c_sh s))) /\
  c02_wire_inc (c_trace (c_sh s)).
Proof. intros. eapply c02_safety_of_shape; eauto. apply shape_ok. Qed.

Theorem c02_replay_gen persist logged room sess apps sched s :
  forallb cop_ok sess = true -> cmsgs_ok apps = true -> forallb cop_conn sess = true ->
  creach gen_send_shape (cinit persist logged true room sess apps) sched s ->
  c02_replay_excl (c_trace (c_sh s)).
Proof. intros. eapply c02_replay_of_shape; eauto. apply shape_ok. Qed.

(* ---------- refutation of the unrestricted statement: handleLogon resets the store without sendMutex ---------- *)
Definition c02_refute_sess : list cop := [OLogonResetUnlocked].
Definition c02_refute_apps : list (list cmsg) := [[MApp false; MApp false]].
Definition c02_refute_sched : list (nat * bool) :=
  map (fun t => (t, true))
      (repeat 1%nat 14 ++ repeat 1%nat 4 ++ repeat 0%nat 3 ++ repeat 1%nat 6).

Lemma c02_numbering_refuted :
  exists sess apps sched s,
    cmsgs_ok apps = true /\
    creach gen_send_shape (cinit true true true 8 sess apps) sched s /\
    c02_consec_b 1 (c_trace (c_sh s)) = false /\
    Z.eqb (c_snd (c_sh s)) (c02_expected 1 (c_trace (c_sh s))) = false.
Proof.
  exists c02_refute_sess, c02_refute_apps, c02_refute_sched.
  eexists. split; [reflexivity|]. split; [vm_compute; reflexivity|]. split; vm_compute; reflexivity.
Qed.

(* non-vacuity: a run with two application threads, a heartbeat, a flush and a replay *)
Definition c02_ex_sess : list cop := [OFlush; OSend MAdmin; OResend 1 3 []; OFlush].
Definition c02_ex_apps : list (list cmsg) := [[MApp false; MApp false]; [MApp true; MApp false]].
Definition c02_ex_sched : list (nat * bool) :=
  map (fun t => (t, false)) [1; 2; 0; 1; 2; 0; 0; 0; 0; 1; 0; 1; 0; 1; 0; 1; 1; 1; 1; 1; 1; 1; 1; 2; 1; 2; 1; 2; 1; 2; 2; 2; 1; 2; 1; 2; 1; 2; 1; 1; 1; 1; 1; 1; 1; 1; 2; 1; 2; 2; 2; 2; 2; 2; 2; 2; 2; 2; 2; 0; 0; 0; 0; 0; 0; 0; 0; 0; 0; 0; 0; 0; 0; 0; 0; 0; 0; 0; 0; 0; 0; 0; 0; 0; 0; 0; 0; 0; 0; 0; 0; 0; 0; 0; 0; 0; 0; 0; 0; 0; 0; 0; 0; 0; 0; 0; 0; 0; 0; 0; 0; 0; 0; 0; 0; 0; 0; 0; 0; 0; 0; 0]%nat.

Lemma c02_example_run :
  exists s, forallb cop_ok c02_ex_sess = true /\ cmsgs_ok c02_ex_apps = true /\ forallb cop_conn c02_ex_sess = true /\
    creach gen_send_shape (cinit true true true 100 c02_ex_sess c02_ex_apps) c02_ex_sched s /\
    rev (c_trace (c_sh s)) =
      [EvAssign 1; EvSaved 1 0; EvAssign 2; EvSaved 2 1; EvAssign 3; EvSaved 3 2; EvAssign 4; EvSaved 4 3;
       EvWire (IFirst 1 0); EvWire (IFirst 2 1); EvWire (IFirst 3 2); EvWire (IFirst 4 3);
       EvResendBegin; EvWire (IReplay 1 0); EvWire (IReplay 2 1); EvWire (IReplay 3 2); EvResendEnd].
Proof. eexists. repeat split; try reflexivity. vm_compute. reflexivity. Qed.
