(* C02 — main theorems, for every shape passing [check_shape], then for the generated shape. *)
From Coq Require Import ZArith List Bool Lia Arith.
From QF Require Import Conc.ShapeLang Conc.SendConc Conc.ConcSpec Conc.ConcInv1 Conc.ConcStep1 Conc.ConcStep2
  Conc.ConcInv3 Conc.ConcStep3 Conc.ConcStep4 Conc.ConcStep5 Gen.SendShape.
Import ListNotations.
Open Scope Z_scope.

Definition cinv_all (s : cstate) : Prop := cinv1 s /\ cinv2 s /\ cinv3 s.

Lemma cstep_inv_all sh s t ch s' : check_shape sh = true -> cinv_all s -> cstep sh s t ch = Some s' -> cinv_all s'.
Proof.
  intros Hsh (I1 & I2 & I3) Hst. split; [|split].
  - eapply cstep_inv1; eauto.
  - eapply cstep_inv2; eauto.
  - eapply cstep_inv3; eauto.
Qed.

Lemma cstep_persist sh s t ch s' : cstep sh s t ch = Some s' -> c_persist (c_sh s') = c_persist (c_sh s).
Proof.
  unfold cstep. destruct (nth_error (c_ths s) t) as [l|]; [|discriminate].
  destruct (th_pc l) as [|st rest].
  - destruct (th_ops l); [discriminate|]. intros H; inversion H; reflexivity.
  - destruct (cexec t ch (c_sh s) l st rest) as [[g' l']|] eqn:E; [|discriminate]. intros H; inversion H; subst. cbn.
    eapply cexec_persist; eauto.
Qed.

Lemma crun_persist sh sched : forall s s', crun sh s sched = Some s' -> c_persist (c_sh s') = c_persist (c_sh s).
Proof.
  induction sched as [|[t ch] r IH]; intros s s' H; cbn in H.
  - inversion H; reflexivity.
  - destruct (cstep sh s t ch) as [s1|] eqn:E; [|discriminate]. rewrite (IH _ _ H). eapply cstep_persist; eauto.
Qed.

(* Clauses (1)-(4) for every well-shaped program family, any number of application threads, any programs, any schedule *)
Theorem c02_safety_of_shape sh persist logged open room sess apps sched s :
  check_shape sh = true -> forallb cop_ok sess = true -> cmsgs_ok apps = true ->
  creach sh (cinit persist logged open room sess apps) sched s ->
  c02_consec 1 (c_trace (c_sh s)) /\
  c_snd (c_sh s) = c02_expected 1 (c_trace (c_sh s)) /\
  (persist = true -> c02_persisted (c_trace (c_sh s))) /\
  c02_wire_inc (c_trace (c_sh s)).
Proof.
  intros Hsh Hs Ha Hr.
  assert (I : cinv_all s).
  { eapply (crun_inv cinv_all sh); [intros; eapply cstep_inv_all; eauto| |exact Hr].
    split; [apply cinit_inv1; auto|split; [apply cinit_inv2|apply cinit_inv3]]. }
  destruct I as (I1 & (C1 & C2 & _) & (G3 & _ & _)).
  repeat split; auto.
  - intros Hp. apply (g3_pers _ G3). rewrite (crun_persist _ _ _ _ Hr). exact Hp.
  - apply (g3_inc _ G3).
Qed.

(* Clause (5), while the connection stays open *)
Theorem c02_replay_of_shape sh persist logged room sess apps sched s :
  check_shape sh = true -> forallb cop_ok sess = true -> cmsgs_ok apps = true -> forallb cop_conn sess = true ->
  creach sh (cinit persist logged true room sess apps) sched s ->
  c02_replay_excl (c_trace (c_sh s)).
Proof.
  intros Hsh Hs Ha Hc Hr.
  assert (I : cinv_all s /\ cinv4 s /\ cinv4b s).
  { eapply (crun_inv (fun s => cinv_all s /\ cinv4 s /\ cinv4b s) sh); [| |exact Hr].
    - intros s0 t ch s1 (J1 & J4 & J4b) Hst. split; [eapply cstep_inv_all; eauto|].
      destruct J1 as (K1 & K2 & K3). split; [eapply cstep_inv4; eauto|eapply cstep_inv4b; eauto].
    - split; [split; [apply cinit_inv1; auto|split; [apply cinit_inv2|apply cinit_inv3]]|split; [apply cinit_inv4; auto|apply cinit_inv4b]]. }
  destruct I as (_ & (_ & _ & _ & inres & seen & Hrs & _) & _). unfold c02_replay_excl. rewrite Hrs. discriminate.
Qed.

(* Clause (6), safety form: right after a sendQueued that could send everything (connected; blocking, or the channel
   has room for the whole queue), every number consumed since the last reset is on the wire — provided no non-empty
   queue was dropped since that reset. *)
Theorem c02_flush_complete_of_shape sh persist logged open room sess apps sched s t ch s' l b rest :
  check_shape sh = true -> forallb cop_ok sess = true -> cmsgs_ok apps = true ->
  creach sh (cinit persist logged open room sess apps) sched s ->
  cthr s t l -> th_pc l = SFlush b :: rest -> cstep sh s t ch = Some s' ->
  c_open (c_sh s) = true -> (b = true \/ (length (c_q (c_sh s)) <= c_room (c_sh s))%nat) ->
  c02_no_drop (c_trace (c_sh s')) ->
  forall n, In n (c02_epoch_assigned (c_trace (c_sh s'))) -> In n (c02_epoch_firsts (c_trace (c_sh s'))).
Proof.
  intros Hsh Hs Ha Hr Hl Hpc Hst Hopen Hroom Hnd n Hn.
  assert (I : cinv_all s /\ cinv5 s).
  { eapply (crun_inv (fun s => cinv_all s /\ cinv5 s) sh); [| |exact Hr].
    - intros s0 t0 ch0 s1 [J1 J5] Hst0. split; [eapply cstep_inv_all; eauto|].
      destruct J1 as (K1 & K2 & K3). eapply cstep_inv5; eauto.
    - split; [split; [apply cinit_inv1; auto|split; [apply cinit_inv2|apply cinit_inv3]]|apply cinit_inv5]. }
  destruct I as ((I1 & I2 & I3) & I5).
  assert (I5' : cinv5 s') by (eapply cstep_inv5; eauto).
  pose proof I1 as (G & Ls & Own). pose proof (Ls t l Hl) as L.
  (* the step *)
  unfold cstep in Hst. unfold cthr in Hl. rewrite Hl, Hpc in Hst. cbn in Hst. inversion Hst; subst s'; clear Hst.
  pose proof (l1_safe _ _ _ L) as Hsafe. rewrite Hpc in Hsafe.
  destruct (csafe_atom (SFlush b) rest _ _ eq_refl Hsafe) as (a' & Hap & _ & Hgh).
  destruct (caprim_flush_inv _ _ _ Hap) as (P1 & P2 & P3 & P4).
  assert (Hhs : a_hs (th_a l) = true).
  { cbn in Hap. destruct (a_hs (th_a l)); [reflexivity|discriminate Hap]. }
  assert (Hq : c_q (cflush (c_sh s) b) = []).
  { unfold cflush. rewrite Hopen. cbn. destruct b; cbn; [reflexivity|].
    destruct Hroom as [Hb|Hb]; [discriminate|]. rewrite Nat.min_r by exact Hb. apply skipn_all. }
  destruct (I5' Hnd n Hn) as [H|[[id H]|(u & lu & H1 & H2 & H3)]].
  - exact H.
  - cbn in H. rewrite Hq in H. destruct H.
  - exfalso. unfold cthr in H1. cbn in H1. destruct (Nat.eq_dec t u) as [->|Hne].
    + rewrite (cupd_nth_eq _ _ _ _ Hl) in H1. inversion H1; subst lu. cbn in H2. rewrite Hgh in H2. congruence.
    + rewrite (cupd_nth_ne _ _ _ _ Hne) in H1.
      assert (Hc : cph_crit (a_ph (th_a lu)) = true) by (rewrite H2; reflexivity).
      pose proof (ccrit_owner s u lu I1 H1 Hc) as Ho. apply (l1_hs _ _ _ L) in Hhs. congruence.
Qed.

(* ---------- the generated shape ---------- *)
Lemma shape_ok : check_shape gen_send_shape = true.
Proof. vm_compute. reflexivity. Qed.

(* handleLogon's generated program passes the shape check: the operation OLogon is the real handleLogon *)
Lemma shape_logon_ok : clogon_ok gen_send_shape = true.
Proof. vm_compute. reflexivity. Qed.

(* handleLogon as it stood before the repair (6f0521d): `if resetStore { s.store.Reset() }` with no lock held.
   The regression example below is about this program, whatever the translator produces for handleLogon. *)
Definition c02_unlocked_logon : list cstmt := [SIf COther [SStoreReset] []].
Definition cshape_unlocked (sh : cshape) : cshape :=
  {| sh_queue := sh_queue sh; sh_send := sh_send sh; sh_dropsend := sh_dropsend sh; sh_dropreset := sh_dropreset sh;
     sh_flush := sh_flush sh; sh_resend := sh_resend sh; sh_enqueue := sh_enqueue sh; sh_logon := c02_unlocked_logon;
     sh_leaf := sh_leaf sh |}.
Lemma c02_unlocked_logon_rejected : centry_ok false false c02_unlocked_logon = false.
Proof. vm_compute. reflexivity. Qed.

Theorem c02_numbering_gen persist logged open room sess apps sched s :
  forallb cop_ok sess = true -> cmsgs_ok apps = true ->
  creach gen_send_shape (cinit persist logged open room sess apps) sched s ->
  c02_consec 1 (c_trace (c_sh s)) /\
  c_snd (c_sh s) = c02_expected 1 (c_trace (c_sh s)) /\
  (persist = true -> c02_persisted (c_trace (c_sh s))) /\
  c02_wire_inc (c_trace (c_sh s)).
Proof. intros. eapply c02_safety_of_shape; eauto. apply shape_ok. Qed.

Theorem c02_replay_gen persist logged room sess apps sched s :
  forallb cop_ok sess = true -> cmsgs_ok apps = true -> forallb cop_conn sess = true ->
  creach gen_send_shape (cinit persist logged true room sess apps) sched s ->
  c02_replay_excl (c_trace (c_sh s)).
Proof. intros. eapply c02_replay_of_shape; eauto. apply shape_ok. Qed.

Theorem c02_flush_complete_gen persist logged open room sess apps sched s t ch s' l b rest :
  forallb cop_ok sess = true -> cmsgs_ok apps = true ->
  creach gen_send_shape (cinit persist logged open room sess apps) sched s ->
  cthr s t l -> th_pc l = SFlush b :: rest -> cstep gen_send_shape s t ch = Some s' ->
  c_open (c_sh s) = true -> (b = true \/ (length (c_q (c_sh s)) <= c_room (c_sh s))%nat) ->
  c02_no_drop (c_trace (c_sh s')) ->
  forall n, In n (c02_epoch_assigned (c_trace (c_sh s'))) -> In n (c02_epoch_firsts (c_trace (c_sh s'))).
Proof. intros. eapply c02_flush_complete_of_shape; eauto. apply shape_ok. Qed.

(* ---------- regression: with the unlocked reset of the old handleLogon the statement fails ---------- *)
Definition c02_refute_sess : list cop := [OLogonResetUnlocked].
Definition c02_refute_apps : list (list cmsg) := [[MApp false; MApp false]].
Definition c02_refute_sched : list (nat * bool) :=
  map (fun t => (t, true))
      (repeat 1%nat 14 ++ repeat 1%nat 4 ++ repeat 0%nat 3 ++ repeat 1%nat 6).

Lemma c02_unlocked_reset_breaks_numbering :
  exists sess apps sched s,
    cmsgs_ok apps = true /\
    creach (cshape_unlocked gen_send_shape) (cinit true true true 8 sess apps) sched s /\
    c02_consec_b 1 (c_trace (c_sh s)) = false /\
    Z.eqb (c_snd (c_sh s)) (c02_expected 1 (c_trace (c_sh s))) = false.
Proof.
  exists c02_refute_sess, c02_refute_apps, c02_refute_sched.
  eexists. split; [reflexivity|]. split; [vm_compute; reflexivity|]. split; vm_compute; reflexivity.
Qed.

(* non-vacuity: a run with two application threads, a heartbeat, a flush and a replay *)
Definition c02_ex_sess : list cop := [OFlush; OSend MAdmin; OResend 1 3 []; OFlush].
Definition c02_ex_apps : list (list cmsg) := [[MApp false; MApp false]; [MApp true; MApp false]].
Definition c02_ex_sched : list (nat * bool) :=
  map (fun t => (t, false)) [1; 2; 0; 1; 2; 0; 0; 0; 0; 1; 0; 1; 0; 1; 0; 1; 1; 1; 1; 1; 1; 1; 1; 2; 1; 2; 1; 2; 1; 2; 2; 2; 1; 2; 1; 2; 1; 2; 1; 1; 1; 1; 1; 1; 1; 1; 2; 1; 2; 2; 2; 2; 2; 2; 2; 2; 2; 2; 2; 0; 0; 0; 0; 0; 0; 0; 0; 0; 0; 0; 0; 0; 0; 0; 0; 0; 0; 0; 0; 0; 0; 0; 0; 0; 0; 0; 0; 0; 0; 0; 0; 0; 0; 0; 0; 0; 0; 0; 0; 0; 0; 0; 0; 0; 0; 0; 0; 0; 0; 0; 0; 0; 0; 0; 0; 0; 0; 0; 0; 0; 0; 0]%nat.

(* the schedule is executable to the end (the match is on Some) and produces this trace *)
Lemma c02_example_run :
  forallb cop_ok c02_ex_sess = true /\ cmsgs_ok c02_ex_apps = true /\ forallb cop_conn c02_ex_sess = true /\
  match crun gen_send_shape (cinit true true true 100 c02_ex_sess c02_ex_apps) c02_ex_sched with
  | Some s => rev (c_trace (c_sh s))
  | None => []
  end =
      [EvAssign 1; EvSaved 1 0; EvAssign 2; EvSaved 2 1; EvAssign 3; EvSaved 3 2; EvAssign 4; EvSaved 4 3;
       EvWire (IFirst 1 0); EvWire (IFirst 2 1); EvWire (IFirst 3 2); EvWire (IFirst 4 3);
       EvResendBegin; EvWire (IReplay 1 0); EvWire (IReplay 2 1); EvWire (IReplay 3 2); EvResendEnd].
Proof. split; [reflexivity|]. split; [reflexivity|]. split; [reflexivity|]. vm_compute. reflexivity. Qed.
