(* C02 proofs, layer 4: replay exclusion — clause (5). While the connection is open, no first-time message reaches
   the wire after a replayed one inside one resendMessages execution. *)
From Coq Require Import ZArith List Bool Lia Arith.
From QF Require Import Conc.ShapeLang Conc.SendConc Conc.ConcSpec Conc.ConcInv1 Conc.ConcStep1 Conc.ConcStep2 Conc.ConcInv3 Conc.ConcStep3.
Import ListNotations.
Open Scope Z_scope.

Definition cop_conn (o : cop) : bool := match o with OSetOut _ _ => false | _ => true end.
Definition call_first (q : list citem) : Prop := forall i, In i q -> citem_first i = true.
Definition call_nonfirst (q : list citem) : Prop := forall i, In i q -> citem_first i = false.
Definition call_noreplay (q : list citem) : Prop := forall i, In i q -> citem_replay i = false.

(* ---------- the no-SSetOut check on lists ---------- *)
Lemma cnosetout_if c t e : cnosetout_s (SIf c t e) = cnosetout_l t && cnosetout_l e.
Proof. reflexivity. Qed.
Lemma cnosetout_iter b : cnosetout_s (SIter b) = cnosetout_l b.
Proof. reflexivity. Qed.
Lemma cnosetout_app p q : cnosetout_l (p ++ q) = cnosetout_l p && cnosetout_l q.
Proof. induction p as [|x p IH]; cbn [app cnosetout_l]; [reflexivity|]. rewrite IH, andb_assoc. reflexivity. Qed.

Lemma cexec_nosetout t ch g l st rest g' l' :
  th_pc l = st :: rest -> cnosetout_l (st :: rest) = true -> cexec t ch g l st rest = Some (g', l') ->
  cnosetout_l (th_pc l') = true /\ c_open g' = c_open g.
Proof.
  intros Hpc H0. pose proof H0 as H. cbn [cnosetout_l] in H. apply andb_true_iff in H. destruct H as [H1 H2].
  destruct st; try discriminate H1.
  all: try (cexec_cases t g l; intros H; inversion H; subst; cbn; rewrite ?Hpc; (split; [assumption|reflexivity])).
  - cbn. intros H; inversion H; subst. split; [cbn; assumption|apply cflush_fields].
  - rewrite cnosetout_if in H1. apply andb_true_iff in H1. destruct H1 as [Ht He].
    cbn. intros H; inversion H; subst. cbn. split; [|reflexivity]. rewrite cnosetout_app.
    destruct (ceval_c g' l ch c); rewrite ?Ht, ?He, H2; reflexivity.
  - rewrite cnosetout_iter in H1. cbn. destruct (th_iter l) as [[|[n [id adm]] its]|]; intros H; inversion H; subst; cbn [th_pc];
      (split; [|reflexivity]); rewrite ?cnosetout_app; cbn [cnosetout_l]; rewrite ?cnosetout_iter, ?H1, ?H2; reflexivity.
Qed.

(* ---------- the replay-exclusion automaton along wire events ---------- *)
Lemma crstate_other e tr :
  (match e with EvAssign _ | EvSaved _ _ | EvReset | EvDrop => true | _ => false end) = true ->
  c02_rstate (e :: tr) = c02_rstate tr.
Proof. intros H. cbn. destruct (c02_rstate tr) as [[a b]|]; destruct e; try discriminate H; reflexivity. Qed.

Lemma cwire_evs_snoc q i tr : cwire_evs (q ++ [i]) tr = EvWire i :: cwire_evs q tr.
Proof. revert tr. induction q as [|x q IH]; intros tr; cbn; [reflexivity|]. apply IH. Qed.

Lemma crstate_wires_out pre tr sn :
  call_noreplay pre -> c02_rstate tr = Some (false, sn) -> exists sn', c02_rstate (cwire_evs pre tr) = Some (false, sn').
Proof.
  revert tr sn. induction pre as [|x pre IH]; intros tr sn Hnr H; cbn [cwire_evs]; [eauto|].
  assert (exists sn1, c02_rstate (EvWire x :: tr) = Some (false, sn1)) as [sn1 H1].
  { cbn. rewrite H. rewrite (Hnr x (or_introl eq_refl)). destruct (citem_first x); cbn; eauto. }
  eapply IH; [|exact H1]. intros i Hi. apply Hnr. right. exact Hi.
Qed.
Lemma crstate_wires_nonfirst q tr sn :
  call_nonfirst q -> c02_rstate tr = Some (true, sn) -> exists sn', c02_rstate (cwire_evs q tr) = Some (true, sn').
Proof.
  revert tr sn. induction q as [|x q IH]; intros tr sn Hq H; cbn [cwire_evs]; [eauto|].
  assert (c02_rstate (EvWire x :: tr) = Some (true, true)) as H1.
  { cbn. rewrite H. rewrite (Hq x (or_introl eq_refl)). rewrite andb_false_r. reflexivity. }
  eapply IH; [|exact H1]. intros i Hi. apply Hq. right. exact Hi.
Qed.
Lemma crstate_wires_first q tr :
  call_first q -> c02_rstate tr = Some (true, false) -> c02_rstate (cwire_evs q tr) = Some (true, false).
Proof.
  revert tr. induction q as [|x q IH]; intros tr Hq H; cbn [cwire_evs]; [exact H|].
  apply IH; [intros i Hi; apply Hq; right; exact Hi|].
  cbn. rewrite H. rewrite (Hq x (or_introl eq_refl)). reflexivity.
Qed.

Lemma cfirst_nonfirst_nil q : call_first q -> call_nonfirst q -> q = [].
Proof. destruct q as [|x q]; auto. intros H1 H2. specialize (H1 x (or_introl eq_refl)). specialize (H2 x (or_introl eq_refl)). congruence. Qed.

Lemma crstate_wires_in q tr sn :
  c02_rstate tr = Some (true, sn) -> (sn = true -> call_nonfirst q) ->
  (call_first q \/ exists q0 i, q = q0 ++ [i] /\ citem_first i = false /\ call_first q0) ->
  exists sn', c02_rstate (cwire_evs q tr) = Some (true, sn').
Proof.
  intros H Hsn Hq. destruct sn.
  - eapply crstate_wires_nonfirst; eauto.
  - destruct Hq as [Hq|(q0 & i & -> & Hi & Hq0)].
    + exists false. apply crstate_wires_first; auto.
    + exists true. rewrite cwire_evs_snoc. cbn. rewrite (crstate_wires_first q0 tr Hq0 H). rewrite Hi, andb_false_r. reflexivity.
Qed.

(* ---------- the invariant ---------- *)
Record cloc4 (g : cshared) (l : cth) : Prop := {
  l4_pc : cnosetout_l (th_pc l) = true;
  l4_ops : forallb cop_conn (th_ops l) = true;
  l4_replay : a_q (th_a l) = QReplay -> exists q0 i, c_q g = q0 ++ [i] /\ citem_first i = false /\ call_first q0
}.
Definition cinv4 (s : cstate) : Prop :=
  c_open (c_sh s) = true /\ (forall t l, cthr s t l -> cloc4 (c_sh s) l) /\
  ((forall t l, cthr s t l -> a_q (th_a l) <> QReplay /\ a_q (th_a l) <> QStale) -> call_first (c_q (c_sh s))) /\
  exists inres seen, c02_rstate (c_trace (c_sh s)) = Some (inres, seen) /\
     (inres = true <-> exists t, c_wr (c_sh s) = WHeld t) /\
     (inres = true -> seen = true -> call_nonfirst (c_q (c_sh s))).

(* replayed stored messages exist only while the resend write lock is held *)
Definition cinv4b (s : cstate) : Prop :=
  (forall t l n id, cthr s t l -> th_pend l = Some (IReplay n id) -> a_hw (th_a l) = true /\ a_ph (th_a l) = PhRBuilt) /\
  ((forall r, c_wr (c_sh s) <> WHeld r) -> call_noreplay (c_q (c_sh s))).

Lemma caprim_append_inv4 : forall a a', caprim a SAppend = Some a' ->
  a_q a <> QStale /\ a_q a <> QReplay /\
  ((a_ph a = PhSaved /\ a_q a' = QUnknown) \/ (a_ph a = PhRBuilt /\ a_q a' = QReplay)).
Proof. cap_brute. Qed.
Lemma caprim_flush_inv4 : forall b a a', caprim a (SFlush b) = Some a' ->
  a_q a <> QStale /\ a_q a' = QUnknown /\ (a_q a = QReplay -> b = true) /\ (a_hw a = true -> b = true).
Proof. intros b. cap_brute; destruct b; auto; discriminate. Qed.
Lemma caprim_q_same : forall a a' st,
  (match st with SReadSnd | SCallApp _ | SBuild | SReplayBuild | SGapBuild _ _ | SSaveIncr | SIncrOnly | SNotify | SAssign _ _ => true | _ => false end) = true ->
  caprim a st = Some a' -> a_q a' = a_q a.
Proof.
  intros a a' st. destruct a as [hs hr hw ph q kp mr nr]. destruct st; try discriminate; cbn; intros _;
  repeat match goal with |- context [if ?b then _ else _] => destruct b end; try discriminate;
  intros H; inversion H; subst; reflexivity.
Qed.

(* the thread holding sendMutex while the resend write lock is held is the write-lock holder itself *)
Lemma cowner_is_writer s t l r :
  cinv1 s -> cthr s t l -> a_hs (th_a l) = true -> c_wr (c_sh s) = WHeld r -> t = r /\ a_hw (th_a l) = true.
Proof.
  intros (G & Ls & Own) Hl Hhs Hw.
  assert (Hz : forall u lu, cthr s u lu -> (a_hs (th_a lu) = true \/ a_hw (th_a lu) = true) -> u = O).
  { intros u lu Hu Hor. destruct u as [|u]; auto. exfalso.
    pose proof (Ls _ _ Hu) as Lu. destruct (l1_app _ _ _ Lu) as [Hn _]; [lia|].
    pose proof (l1_wf _ _ _ Lu) as W. unfold cabs_wfb in W. rewrite Hn in W.
    destruct Hor as [E|E]; rewrite E in W; cbn in W.
    - destruct (a_hr (th_a lu)) eqn:Er.
      + apply (l1_hr _ _ _ Lu) in Er. rewrite (g1_wex _ G r Hw) in Er. destruct Er.
      + rewrite !andb_false_r in W. cbn in W. rewrite ?andb_false_r in W. discriminate W.
    - rewrite !andb_false_r in W. cbn in W. rewrite ?andb_false_r in W.
      destruct (implb (cph_crit (a_ph (th_a lu))) (a_hs (th_a lu)) && implb (negb (cqst_eqb (a_q (th_a lu)) QUnknown)) (a_hs (th_a lu)) &&
                implb (a_hs (th_a lu)) (a_hr (th_a lu))); discriminate W. }
  assert (Ht : t = O) by (eapply Hz; eauto).
  assert (Hr : exists lr, cthr s r lr /\ a_hw (th_a lr) = true).
  { destruct (Own r (or_intror Hw)) as [lr E]. exists lr. split; auto. apply (l1_hw _ _ _ (Ls r lr E)). exact Hw. }
  destruct Hr as (lr & Hlr & Hhw). assert (r = O) by (eapply Hz; eauto). subst.
  split; auto. unfold cthr in *. rewrite Hl in Hlr. inversion Hlr; subst. exact Hhw.
Qed.

(* ---------- effects relevant to layer 4 ---------- *)
Definition cclassA (st : cstmt) : bool :=
  match st with
  | SRel MSend | SReadSnd | SCallApp _ | SStoreReset | SBuild | SReplayBuild | SGapBuild _ _ | SSaveIncr | SIncrOnly
  | SNotify | SAssign _ _ | SIf _ _ _ | SIter _ => true
  | _ => false
  end.

Lemma cexec_eff4A t ch g l st rest g' l' :
  cclassA st = true -> cexec t ch g l st rest = Some (g', l') ->
  c_q g' = c_q g /\ c_wr g' = c_wr g /\ c02_rstate (c_trace g') = c02_rstate (c_trace g).
Proof.
  intros Hc. destruct st; try discriminate Hc; try (destruct m; try discriminate Hc); cexec_cases t g l;
    intros H; inversion H; subst; cbn [c_q c_wr c_trace cset_locks cset_store cset_sh cset_q]; repeat split; auto.
  all: try (rewrite !crstate_other; reflexivity).
Qed.

Lemma caprim_q_mono : forall a a' st, cclassA st = true -> caprim a st = Some a' ->
  (a_q a' = QReplay -> a_q a = QReplay) /\
  ((a_q a' <> QReplay /\ a_q a' <> QStale) -> (a_q a <> QReplay /\ a_q a <> QStale)).
Proof.
  intros a a' st Hc. destruct a as [hs hr hw ph q kp mr nr].
  destruct st; try discriminate Hc; try (destruct m; try discriminate Hc); cbn;
    destruct hs, ph, q; cbn; try discriminate;
    repeat match goal with |- context [if ?b then _ else _] => destruct b end; try discriminate;
    intros H; inversion H; subst; cbn; split; try discriminate; try tauto; intros [? ?]; try tauto; split; discriminate.
Qed.

Lemma cexec_nonowner4 t ch g l st rest g' l' :
  cloc1 g t l -> th_pc l = st :: rest -> a_hs (th_a l) = false -> cexec t ch g l st rest = Some (g', l') ->
  c_q g' = c_q g /\ a_q (th_a l') = QUnknown /\
  ((c_trace g' = c_trace g /\ (forall u, c_wr g' = WHeld u <-> c_wr g = WHeld u))
   \/ (c_trace g' = EvResendBegin :: c_trace g /\ c_wr g' = WHeld t /\ forall u, c_wr g <> WHeld u)
   \/ (c_trace g' = EvResendEnd :: c_trace g /\ c_wr g' = WNone)).
Proof.
  intros L Hpc Hhs Hex.
  pose proof (l1_wf _ _ _ L) as W. destruct (cnohs_abs _ W Hhs) as [Hph Hq].
  destruct (cexec_ghost _ _ _ _ _ _ _ _ L Hpc Hex) as [(Hat & a' & Hap & Ha)|(Hat & Hp & Hqq & _ & _ & Hpe & ->)].
  - destruct (caprim_nohs _ _ _ Hap Hhs W) as (Hn & Hq' & _).
    assert (Haq : a_q (th_a l') = QUnknown) by (destruct Ha as [Ha|[_ ->]]; congruence).
    split; [|split; [exact Haq|]].
    + destruct st; try discriminate Hn; try (destruct m; try discriminate Hn); revert Hex; cexec_cases t g l;
        intros H; inversion H; subst; reflexivity.
    + destruct st; try discriminate Hn; try (destruct m; try discriminate Hn); revert Hex; cexec_cases t g l;
        intros H; inversion H; subst; cbn;
        try (left; split; [reflexivity|intros; tauto]).
      all: try (left; split; [reflexivity|intros; split; discriminate]).
      all: try (right; left; repeat split; auto; intros; discriminate).
      all: try (right; right; split; reflexivity).
  - split; auto. split; [congruence|]. left. split; auto. intros; tauto.
Qed.

Lemma check_shape_nosetout sh o :
  check_shape sh = true -> cop_ok o = true -> cop_conn o = true -> cnosetout_l (fst (fst (cprog_of sh o))) = true.
Proof.
  unfold check_shape. rewrite !andb_true_iff. intros [[_ [[[[[H1 H2] H3] H4] H5] H6]] _] Hok Hc.
  destruct o; cbn in *; auto; try discriminate.
  unfold clogon_ok. destruct (centry_ok false false (sh_logon sh) && cnosetout_l (sh_logon sh) && cpok_l (sh_logon sh)) eqn:E; [|reflexivity].
  rewrite !andb_true_iff in E. apply E.
Qed.

Lemma cflush_open_blocking g :
  c_open g = true -> c_q (cflush g true) = [] /\ c_trace (cflush g true) = cwire_evs (c_q g) (c_trace g).
Proof. unfold cflush. intros ->. cbn. auto. Qed.

Lemma call_first_skipn k q : call_first q -> call_first (skipn k q).
Proof. intros H i Hi. apply H. eapply cin_skipn. exact Hi. Qed.
Lemma call_first_firstn k q : call_first q -> call_first (firstn k q).
Proof. intros H i Hi. apply H. eapply cin_firstn. exact Hi. Qed.

(* ---------- a step of the sendMutex holder ---------- *)
Lemma cexec_owner4 t ch g l st rest g' l' inres seen :
  cloc1 g t l -> th_pc l = st :: rest -> a_hs (th_a l) = true -> cloc3 g l -> c_open g = true ->
  (inres = true -> a_hw (th_a l) = true) ->
  (a_q (th_a l) = QReplay -> exists q0 i, c_q g = q0 ++ [i] /\ citem_first i = false /\ call_first q0) ->
  ((a_q (th_a l) <> QReplay /\ a_q (th_a l) <> QStale) -> call_first (c_q g)) ->
  c02_rstate (c_trace g) = Some (inres, seen) -> (inres = true -> seen = true -> call_nonfirst (c_q g)) ->
  (inres = false -> call_noreplay (c_q g)) ->
  cexec t ch g l st rest = Some (g', l') ->
  c_wr g' = c_wr g /\
  (a_q (th_a l') = QReplay -> exists q0 i, c_q g' = q0 ++ [i] /\ citem_first i = false /\ call_first q0) /\
  ((a_q (th_a l') <> QReplay /\ a_q (th_a l') <> QStale) -> call_first (c_q g')) /\
  exists seen', c02_rstate (c_trace g') = Some (inres, seen') /\ (inres = true -> seen' = true -> call_nonfirst (c_q g')).
Proof.
  intros L Hpc Hhs L3 Hopen Hhw Hrep Hfirst Hrs Hnf Hnrp Hex.
  destruct (cclassA st) eqn:HA.
  - (* queue and automaton untouched *)
    destruct (cexec_eff4A _ _ _ _ _ _ _ _ HA Hex) as (E1 & E2 & E3).
    assert (Hq : (a_q (th_a l') = QReplay -> a_q (th_a l) = QReplay) /\
                 ((a_q (th_a l') <> QReplay /\ a_q (th_a l') <> QStale) -> (a_q (th_a l) <> QReplay /\ a_q (th_a l) <> QStale))).
    { destruct (cexec_ghost _ _ _ _ _ _ _ _ L Hpc Hex) as [(Hat & a' & Hap & [Ha|[Hst _]])|(Hat & _ & Hqq & _)].
      - rewrite Ha. eapply caprim_q_mono; eauto.
      - subst st. discriminate HA.
      - rewrite Hqq. tauto. }
    destruct Hq as [Q1 Q2]. rewrite E1, E2, E3. split; auto. split; [auto|]. split; [auto|]. exists seen. auto.
  - destruct (cexec_ghost _ _ _ _ _ _ _ _ L Hpc Hex) as [(Hat & a' & Hap & [Ha|[Hst _]])|(Hat & _)];
      [| subst st; exfalso; eapply caprim_hs_impossible; [| |exact Hap]; [exact Hhs|reflexivity]
       | destruct st; discriminate].
    pose proof (cexec_eff3 _ _ _ _ _ _ _ _ Hex) as Heff.
    destruct st; try discriminate HA; try discriminate Hat;
      try (exfalso; eapply caprim_hs_impossible; [| |exact Hap]; [exact Hhs|reflexivity]).
    + (* SRel R / W *) destruct m; try discriminate HA; (exfalso; eapply caprim_hs_impossible; [| |exact Hap]; [exact Hhs|reflexivity]).
    + (* SAppend *)
      destruct (caprim_append_inv4 _ _ Hap) as (P1 & P2 & P3).
      destruct Heff as (_ & E2 & _ & E4).
      assert (Ewr : c_wr g' = c_wr g) by (revert Hex; cbn; destruct (th_pend l); intros H; inversion H; reflexivity).
      pose proof (Hfirst (conj P2 P1)) as Hqf.
      split; [exact Ewr|]. rewrite Ha, E2, Hrs.
      destruct P3 as [[Pp Pq]|[Pp Pq]]; rewrite Pq.
      * destruct (l3_saved _ _ L3 Pp) as (id & Hpend & _). rewrite Hpend in E4.
        split; [discriminate|]. split.
        -- intros _ i Hi. rewrite E4 in Hi. apply in_app_or in Hi. destruct Hi as [Hi|[<-|[]]]; auto.
        -- exists seen. split; auto. intros Hi Hs. exfalso.
           pose proof (Hhw Hi) as Hw. pose proof (l1_wf _ _ _ L) as W. unfold cabs_wfb in W.
           rewrite Hw, Pp in W. cbn in W. rewrite ?andb_false_r in W. cbn in W.
           destruct (implb (cph_crit PhSaved) (a_hs (th_a l)) && implb (negb (cqst_eqb (a_q (th_a l)) QUnknown)) (a_hs (th_a l)) &&
                     implb (a_needr (th_a l) && a_hs (th_a l)) (a_hr (th_a l)) && implb (a_needr (th_a l)) false); discriminate W.
      * destruct (l3_rbuilt _ _ L3 Pp) as (i0 & Hpend & Hi0). rewrite Hpend in E4.
        split; [intros _; exists (c_q g), i0; auto|]. split; [intros [Hc _]; congruence|].
        exists seen. split; auto. intros Hi Hs i Hin. rewrite E4 in Hin. apply in_app_or in Hin.
        destruct Hin as [Hin|[<-|[]]]; auto. apply (Hnf Hi Hs). exact Hin.
    + (* SFlush *)
      destruct (caprim_flush_inv4 _ _ _ Hap) as (P1 & P2 & P3 & P4).
      assert (Ewr : c_wr g' = c_wr g) by (revert Hex; cbn; intros H; inversion H; apply cflush_fields).
      split; [exact Ewr|]. rewrite Ha, P2. split; [discriminate|].
      assert (Hstruct : call_first (c_q g) \/ exists q0 i, c_q g = q0 ++ [i] /\ citem_first i = false /\ call_first q0).
      { destruct (cqst_eqb (a_q (th_a l)) QReplay) eqn:E.
        - apply cqst_eqb_eq in E. right. auto.
        - left. apply Hfirst. split; auto. intros E2. rewrite E2 in E. discriminate E. }
      destruct blocking.
      * revert Hex. cbn. intros H. inversion H; subst g' l'. destruct (cflush_open_blocking g Hopen) as [Eq Et].
        rewrite Eq, Et. split; [intros _ i []|].
        destruct inres.
        -- destruct (crstate_wires_in (c_q g) (c_trace g) seen Hrs (Hnf eq_refl) Hstruct) as [sn' Hsn].
           exists sn'. split; auto. intros _ _ i [].
        -- destruct (crstate_wires_out (c_q g) (c_trace g) seen (Hnrp eq_refl) Hrs) as [sn' Hsn].
           exists sn'. split; auto. intros _ _ i [].
      * (* non-blocking: not while the write lock is held, not with a replay item at the end *)
        assert (Hin : inres = false).
        { destruct inres; auto. specialize (P4 (Hhw eq_refl)). discriminate. }
        subst inres.
        assert (Hqf : call_first (c_q g)).
        { destruct Hstruct as [Hf|(q0 & i & Eq & Hi & Hq0)]; auto.
          apply Hfirst. split; auto. intros E. specialize (P3 E). discriminate. }
        destruct Heff as (_ & _ & k & Eq & Et). rewrite Eq, Et. split; [intros _; apply call_first_skipn; auto|].
        assert (Hnr2 : call_noreplay (firstn k (c_q g))) by (intros i Hi; apply (Hnrp eq_refl); eapply cin_firstn; exact Hi).
        destruct (crstate_wires_out (firstn k (c_q g)) (c_trace g) seen Hnr2 Hrs) as [sn' Hsn].
        exists sn'. split; auto. intros Hc. discriminate Hc.
    + (* SDropQ *)
      destruct (caprim_dropq_inv _ _ Hap) as (P1 & P2).
      destruct Heff as (_ & E2 & _ & _).
      assert (Ewr : c_wr g' = c_wr g /\ c02_rstate (c_trace g') = c02_rstate (c_trace g)).
      { revert Hex. cbn. intros H. inversion H; subst. cbn. split; auto. destruct (c_q g); auto. apply crstate_other. reflexivity. }
      destruct Ewr as [Ewr Ers]. split; [exact Ewr|]. rewrite Ha, P2, E2, Ers. split; [discriminate|].
      split; [intros _ i []|]. exists seen. split; auto. intros _ _ i [].
Qed.

(* ---------- whole steps ---------- *)
Lemma cstep_inv4 sh s t ch s' :
  check_shape sh = true -> cinv1 s -> cinv3 s -> cinv4b s -> cinv4 s -> cstep sh s t ch = Some s' -> cinv4 s'.
Proof.
  intros Hsh I1 (_ & Ls3 & _) (_ & Hnrq) (Hopen & Ls4 & Hfirst & inres & seen & Hrs & Hin & Hnf) Hst.
  assert (Hnrp : inres = false -> call_noreplay (c_q (c_sh s))).
  { intros Hi. apply Hnrq. intros r Hr. assert (inres = true) by (apply Hin; eauto). congruence. }
  pose proof I1 as (G & Ls & Own). unfold cstep in Hst.
  destruct (nth_error (c_ths s) t) as [l|] eqn:Hl; [|discriminate].
  pose proof (Ls t l Hl) as L. pose proof (Ls3 t l Hl) as L3. pose proof (Ls4 t l Hl) as L4.
  destruct (th_pc l) as [|st rest] eqn:Hpc.
  - destruct (th_ops l) as [|o os] eqn:Hops; [discriminate|]. inversion Hst; subst s'; clear Hst. cbn.
    pose proof (l1_safe _ _ _ L) as Hs. rewrite Hpc in Hs. cbn in Hs. inversion Hs as [Hfin]; clear Hs.
    pose proof (l1_ops _ _ _ L) as Hok. rewrite Hops in Hok. cbn in Hok. apply andb_true_iff in Hok. destruct Hok as [Hok _].
    pose proof (l4_ops _ _ L4) as Hcn. rewrite Hops in Hcn. cbn in Hcn. apply andb_true_iff in Hcn. destruct Hcn as [Hcn Hcns].
    pose proof (check_shape_nosetout sh o Hsh Hok Hcn) as Hns.
    split; [exact Hopen|split; [|split]].
    + intros u lu Hu. unfold cthr in Hu. cbn in Hu. destruct (Nat.eq_dec t u) as [->|Hne].
      * rewrite (cupd_nth_eq _ _ _ _ Hl) in Hu. inversion Hu; subst lu.
        unfold cload. destruct (cprog_of sh o) as [[pc m] [mr nr]]. cbn in Hns.
        destruct (match o with OResend b e rejs => (b, e, rejs) | OSetOut _ room => (Z.of_nat room, 0, []) | _ => (0, 0, []) end) as [[b e] rejs].
        constructor; cbn; auto. discriminate.
      * rewrite (cupd_nth_ne _ _ _ _ Hne) in Hu. apply (Ls4 u lu Hu).
    + intros Hp. apply Hfirst. intros u lu Hu. destruct (Nat.eq_dec t u) as [->|Hne].
      * unfold cthr in Hu. rewrite Hl in Hu. inversion Hu; subst lu. rewrite Hfin. cbn. split; discriminate.
      * apply (Hp u lu). unfold cthr. cbn. rewrite (cupd_nth_ne _ _ _ _ Hne). exact Hu.
    + exists inres, seen. auto.
  - destruct (cexec t ch (c_sh s) l st rest) as [[g' l']|] eqn:Hex; [|discriminate]. inversion Hst; subst s'; clear Hst. cbn.
    pose proof (l4_pc _ _ L4) as Hns. rewrite Hpc in Hns.
    destruct (cexec_nosetout _ _ _ _ _ _ _ _ Hpc Hns Hex) as [Hns' Hop'].
    pose proof (cexec_ops _ _ _ _ _ _ _ _ Hex) as Hops'.
    destruct (a_hs (th_a l)) eqn:Hhs.
    + (* the sendMutex holder moves *)
      assert (Hoth : forall u lu, u <> t -> cthr s u lu -> a_q (th_a lu) = QUnknown).
      { intros u lu Hne Hu. destruct (a_hs (th_a lu)) eqn:E.
        - apply (l1_hs _ _ _ (Ls u lu Hu)) in E. apply (l1_hs _ _ _ L) in Hhs. congruence.
        - apply (cnohs_abs _ (l1_wf _ _ _ (Ls u lu Hu)) E). }
      assert (Hw : inres = true -> a_hw (th_a l) = true).
      { intros Hi. apply Hin in Hi. destruct Hi as [r Hr]. eapply cowner_is_writer; eauto. }
      assert (Hf : (a_q (th_a l) <> QReplay /\ a_q (th_a l) <> QStale) -> call_first (c_q (c_sh s))).
      { intros Hp. apply Hfirst. intros u lu Hu. destruct (Nat.eq_dec t u) as [->|Hne].
        - unfold cthr in Hu. rewrite Hl in Hu. inversion Hu; subst. exact Hp.
        - rewrite (Hoth u lu (not_eq_sym Hne) Hu). split; discriminate. }
      destruct (cexec_owner4 _ _ _ _ _ _ _ _ inres seen L Hpc Hhs L3 Hopen Hw (l4_replay _ _ L4) Hf Hrs Hnf Hnrp Hex)
        as (Ewr & Hrep' & Hf' & seen' & Hrs' & Hnf').
      split; [cbn; rewrite Hop'; exact Hopen|split; [|split]]; cbn [c_sh c_ths].
      * intros u lu Hu. unfold cthr in Hu. cbn in Hu. destruct (Nat.eq_dec t u) as [->|Hne].
        -- rewrite (cupd_nth_eq _ _ _ _ Hl) in Hu. inversion Hu; subst lu. constructor; auto. rewrite Hops'. apply L4.
        -- rewrite (cupd_nth_ne _ _ _ _ Hne) in Hu. destruct (Ls4 u lu Hu) as [A1 A2 A3]. constructor; auto.
           rewrite (Hoth u lu (not_eq_sym Hne) Hu). discriminate.
      * intros Hp. apply Hf'. apply (Hp t l'). unfold cthr. cbn. apply (cupd_nth_eq _ _ _ _ Hl).
      * exists inres, seen'. rewrite Ewr. auto.
    + (* another thread moves *)
      destruct (cexec_nonowner4 _ _ _ _ _ _ _ _ L Hpc Hhs Hex) as (Eq & Eaq & Htr).
      split; [cbn; rewrite Hop'; exact Hopen|split; [|split]]; cbn [c_sh c_ths].
      * intros u lu Hu. unfold cthr in Hu. cbn in Hu. destruct (Nat.eq_dec t u) as [->|Hne].
        -- rewrite (cupd_nth_eq _ _ _ _ Hl) in Hu. inversion Hu; subst lu. constructor; auto.
           ++ rewrite Hops'. apply L4.
           ++ rewrite Eaq. discriminate.
        -- rewrite (cupd_nth_ne _ _ _ _ Hne) in Hu. destruct (Ls4 u lu Hu) as [A1 A2 A3]. constructor; auto. rewrite Eq. exact A3.
      * intros Hp. rewrite Eq. apply Hfirst. intros u lu Hu. destruct (Nat.eq_dec t u) as [->|Hne].
        -- unfold cthr in Hu. rewrite Hl in Hu. inversion Hu; subst.
           destruct (cnohs_abs _ (l1_wf _ _ _ L) Hhs) as [_ ->]. split; discriminate.
        -- apply (Hp u lu). unfold cthr. cbn. rewrite (cupd_nth_ne _ _ _ _ Hne). exact Hu.
      * rewrite Eq. destruct Htr as [[Et Ew]|[[Et [Ew Hno]]|[Et Ew]]]; rewrite Et.
        -- exists inres, seen. split; auto. split; auto. rewrite Hin. split; intros [r Hr]; exists r; apply Ew; auto.
        -- exists true, false. cbn. rewrite Hrs. split; auto. split; [|discriminate]. split; eauto.
        -- exists false, false. cbn. rewrite Hrs. split; auto. split; [|discriminate]. split; [discriminate|].
           intros [r Hr]. rewrite Ew in Hr. discriminate.
Qed.

Lemma cinit_inv4 persist logged room sess apps :
  forallb cop_conn sess = true -> cinv4 (cinit persist logged true room sess apps).
Proof.
  intros Hc. split; [reflexivity|split; [|split]].
  - intros t l Hl. unfold cthr in Hl. cbn in Hl. destruct t as [|t]; cbn in Hl.
    + inversion Hl; subst. constructor; cbn; auto. discriminate.
    + rewrite nth_error_map in Hl. destruct (nth_error apps t); [|discriminate]. inversion Hl; subst. constructor; cbn; auto.
      * rewrite forallb_forall. intros o Ho. apply in_map_iff in Ho. destruct Ho as [m [<- _]]. reflexivity.
      * discriminate.
  - intros _ i [].
  - exists false, false. cbn. split; auto. split; [|discriminate]. split; [discriminate|intros [r Hr]; discriminate].
Qed.

(* ---------- layer 4b: replayed stored messages only under the resend write lock ---------- *)
Lemma caprim_rbuilt_stays : forall a a' st, caprim a st = Some a' -> a_ph a = PhRBuilt -> st <> SAppend ->
  a_ph a' = PhRBuilt /\ a_hw a' = a_hw a.
Proof.
  intros a a' st. destruct a as [hs hr hw ph q kp mr nr]. cbn. intros H -> Hne.
  destruct st; try congruence; try (destruct m); cbn in H; destruct hs, hr, hw; cbn in H; try discriminate H;
    repeat match type of H with context [if ?b then _ else _] => destruct b; cbn in H; try discriminate H end;
    inversion H; subst; auto.
Qed.
Lemma caprim_replaybuild_hw : forall a a', caprim a SReplayBuild = Some a' -> a_hw a' = true /\ a_ph a' = PhRBuilt.
Proof. cap_brute. Qed.

Lemma cexec_pend4 t ch g l st rest g' l' :
  cexec t ch g l st rest = Some (g', l') ->
  match st with
  | SReplayBuild => th_pend l' = Some (IReplay (th_sent l) (th_sentid l))
  | SGapBuild b e => th_pend l' = Some (IGap (ceval_e l b) (ceval_e l e))
  | SBuild => th_pend l' = Some (IFirst (th_seq l) (c_nextid g))
  | SAppend => th_pend l' = None
  | _ => th_pend l' = th_pend l
  end.
Proof. destruct st; cexec_cases t g l; intros H; inversion H; subst; cbn; auto. Qed.

Lemma cexec_wr4 t ch g l st rest g' l' :
  cexec t ch g l st rest = Some (g', l') ->
  c_wr g' = c_wr g \/ st = SAcq MResW \/ (st = SRel MResW /\ c_wr g' = WNone).
Proof.
  destruct st; cexec_cases t g l; intros H; inversion H; subst; cbn; auto.
  left. apply cflush_fields.
Qed.

Lemma cexec_q4 t ch g l st rest g' l' :
  cexec t ch g l st rest = Some (g', l') ->
  forall i, In i (c_q g') -> In i (c_q g) \/ (st = SAppend /\ th_pend l = Some i).
Proof.
  intros Hex. pose proof (cexec_eff3 _ _ _ _ _ _ _ _ Hex) as H3.
  destruct st; try (destruct H3 as (_ & Eq & _); rewrite Eq; auto; fail).
  - destruct H3 as (_ & _ & _ & Eq). rewrite Eq. destruct (th_pend l) as [i0|]; auto.
    intros i Hi. apply in_app_or in Hi. destruct Hi as [Hi|[<-|[]]]; auto.
  - destruct H3 as (_ & _ & k & Eq & _). rewrite Eq. intros i Hi. left. eapply cin_skipn; eauto.
  - destruct H3 as (_ & Eq & _). rewrite Eq. intros i [].
Qed.

Lemma cstep_inv4b sh s t ch s' :
  check_shape sh = true -> cinv1 s -> cinv4 s -> cinv4b s -> cstep sh s t ch = Some s' -> cinv4b s'.
Proof.
  intros Hsh I1 I4 (Hp & Hq) Hst.
  pose proof I1 as (G & Ls & Own). unfold cstep in Hst.
  destruct (nth_error (c_ths s) t) as [l|] eqn:Hl; [|discriminate].
  pose proof (Ls t l Hl) as L.
  destruct (th_pc l) as [|st rest] eqn:Hpc.
  - destruct (th_ops l) as [|o os] eqn:Hops; [discriminate|]. inversion Hst; subst s'; clear Hst. split; cbn; [|exact Hq].
    intros u lu n id Hu Hpe. unfold cthr in Hu. cbn in Hu. destruct (Nat.eq_dec t u) as [->|Hne].
    + rewrite (cupd_nth_eq _ _ _ _ Hl) in Hu. inversion Hu; subst lu. exfalso. revert Hpe. unfold cload.
      destruct (cprog_of sh o) as [[pc m] [mr nr]].
      destruct (match o with OResend b e rejs => (b, e, rejs) | OSetOut _ room => (Z.of_nat room, 0, []) | _ => (0, 0, []) end) as [[b e] rejs].
      cbn. discriminate.
    + rewrite (cupd_nth_ne _ _ _ _ Hne) in Hu. eapply Hp; eauto.
  - destruct (cexec t ch (c_sh s) l st rest) as [[g' l']|] eqn:Hex; [|discriminate]. inversion Hst; subst s'; clear Hst.
    pose proof (cexec_pend4 _ _ _ _ _ _ _ _ Hex) as Hpend.
    pose proof (cexec_ghost _ _ _ _ _ _ _ _ L Hpc Hex) as Hgh.
    split; cbn.
    + intros u lu n id Hu Hpe. unfold cthr in Hu. cbn in Hu. destruct (Nat.eq_dec t u) as [->|Hne];
        [|rewrite (cupd_nth_ne _ _ _ _ Hne) in Hu; eapply Hp; eauto].
      rewrite (cupd_nth_eq _ _ _ _ Hl) in Hu. inversion Hu; subst lu.
      destruct Hgh as [(Hat & a' & Hap & [Ha|[Hst Hll]])|(Hat & Hph & _ & _ & Hhw & Hpe' & _)].
      * destruct st; rewrite Hpend in Hpe; try discriminate Hpe.
        all: try (rewrite Ha; apply (caprim_replaybuild_hw _ _ Hap)).
        all: destruct (Hp u l n id Hl Hpe) as [P1 P2];
          match type of Hap with caprim _ ?st0 = _ =>
            assert (Hne' : st0 <> SAppend) by discriminate;
            destruct (caprim_rbuilt_stays _ _ _ Hap P2 Hne') as [Q1 Q2] end;
          rewrite Ha, Q1, Q2; auto.
      * subst l'. eapply Hp; eauto.
      * rewrite Hpe' in Hpe. destruct (Hp u l n id Hl Hpe) as [P1 P2]. rewrite Hph, Hhw. auto.
    + intros Hnow i Hi. destruct (cexec_q4 _ _ _ _ _ _ _ _ Hex i Hi) as [Hin|[Hst Hpe]].
      * destruct (c_wr (c_sh s)) as [|w|r] eqn:Ewr; [apply Hq; [intros r; discriminate|exact Hin]|apply Hq; [intros r; discriminate|exact Hin]|].
        (* the write lock was held and is not any more: this step released it; the queue has only first-time items *)
        destruct (cexec_wr4 _ _ _ _ _ _ _ _ Hex) as [E|[E|[E Ew]]].
        -- exfalso. apply (Hnow r). congruence.
        -- exfalso. subst st. revert Hex. cbn. rewrite Ewr. discriminate.
        -- subst st. destruct I4 as (_ & _ & Hfirst & _).
           destruct Hgh as [(_ & a' & Hap & _)|(Hx & _)]; [|discriminate Hx].
           destruct (caprim_lock_bits _ MResW false _ Hap) as (B0 & _ & B2 & _).
           assert (Hths : a_hs (th_a l) = false).
           { cbn in Hap. destruct (a_hs (th_a l)); [|reflexivity]. rewrite B0 in Hap. cbn in Hap. discriminate Hap. }
           assert (Hall : call_first (c_q (c_sh s))).
           { apply Hfirst. intros u lu Hu. destruct (a_hs (th_a lu)) eqn:E.
             - destruct (cowner_is_writer s u lu r I1 Hu E Ewr) as [-> _].
               pose proof (proj1 (l1_hw _ _ _ L) B0) as Hw. rewrite Ewr in Hw. inversion Hw; subst.
               unfold cthr in Hu. rewrite Hl in Hu. inversion Hu; subst. congruence.
             - destruct (cnohs_abs _ (l1_wf _ _ _ (Ls u lu Hu)) E) as [_ ->]. split; discriminate. }
           specialize (Hall i Hin). destruct i; cbn in *; auto; discriminate.
      * subst st. destruct i as [n id|n id|b e]; auto. exfalso.
        destruct (Hp t l n id Hl Hpe) as [P1 _]. apply (l1_hw _ _ _ L) in P1.
        destruct (cexec_wr4 _ _ _ _ _ _ _ _ Hex) as [E|[E|[E _]]]; try discriminate E.
        apply (Hnow t). congruence.
Qed.

Lemma cinit_inv4b persist logged open room sess apps : cinv4b (cinit persist logged open room sess apps).
Proof.
  split; cbn; [|intros _ i []].
  intros t l n id Hl. unfold cthr in Hl. cbn in Hl. destruct t as [|t]; cbn in Hl.
  - inversion Hl; subst. cbn. discriminate.
  - rewrite nth_error_map in Hl. destruct (nth_error apps t); [|discriminate]. inversion Hl; subst. cbn. discriminate.
Qed.
