(* C02 — specification predicates on the event trace (NEWEST EVENT FIRST), independent of the programs.
   Prop form for the theorems, boolean form (extracted) for evaluating the implementation's trace. *)
From Coq Require Import ZArith List Bool Lia.
From QF Require Import Conc.ShapeLang Conc.SendConc.
Import ListNotations.
Open Scope Z_scope.

(* (1),(2): the number the next message must carry: one past the last number consumed in this epoch, 1 after a reset *)
Fixpoint c02_expected (init : Z) (tr : list cev) : Z :=
  match tr with
  | [] => init
  | EvReset :: _ => 1
  | EvAssign n :: _ => n + 1
  | _ :: r => c02_expected init r
  end.

(* (1) every consumed number is the expected one: n, n+1, ... per epoch, no gap, no repeat *)
Fixpoint c02_consec (init : Z) (tr : list cev) : Prop :=
  match tr with
  | [] => True
  | EvAssign n :: r => n = c02_expected init r /\ c02_consec init r
  | _ :: r => c02_consec init r
  end.
Fixpoint c02_consec_b (init : Z) (tr : list cev) : bool :=
  match tr with
  | [] => true
  | EvAssign n :: r => Z.eqb n (c02_expected init r) && c02_consec_b init r
  | _ :: r => c02_consec_b init r
  end.

(* (3) [n, id] was saved earlier and the store has not been reset since *)
Fixpoint c02_saved_live (n : Z) (id : nat) (tr : list cev) : Prop :=
  match tr with
  | [] => False
  | EvSaved m i :: r => (m = n /\ i = id) \/ c02_saved_live n id r
  | EvReset :: _ => False
  | _ :: r => c02_saved_live n id r
  end.
Fixpoint c02_saved_live_b (n : Z) (id : nat) (tr : list cev) : bool :=
  match tr with
  | [] => false
  | EvSaved m i :: r => (Z.eqb m n && Nat.eqb i id) || c02_saved_live_b n id r
  | EvReset :: _ => false
  | _ :: r => c02_saved_live_b n id r
  end.
Fixpoint c02_persisted (tr : list cev) : Prop :=
  match tr with
  | [] => True
  | EvWire (IFirst n id) :: r => c02_saved_live n id r /\ c02_persisted r
  | _ :: r => c02_persisted r
  end.
Fixpoint c02_persisted_b (tr : list cev) : bool :=
  match tr with
  | [] => true
  | EvWire (IFirst n id) :: r => c02_saved_live_b n id r && c02_persisted_b r
  | _ :: r => c02_persisted_b r
  end.

(* (4) first-time numbers put on the wire since the last reset (newest first) are increasing in time *)
Fixpoint c02_epoch_firsts (tr : list cev) : list Z :=
  match tr with
  | [] => []
  | EvReset :: _ => []
  | EvWire (IFirst n _) :: r => n :: c02_epoch_firsts r
  | _ :: r => c02_epoch_firsts r
  end.
Fixpoint c02_wire_inc (tr : list cev) : Prop :=
  match tr with
  | [] => True
  | EvWire (IFirst n _) :: r => (forall m, In m (c02_epoch_firsts r) -> m < n) /\ c02_wire_inc r
  | _ :: r => c02_wire_inc r
  end.
Fixpoint c02_wire_inc_b (tr : list cev) : bool :=
  match tr with
  | [] => true
  | EvWire (IFirst n _) :: r => forallb (fun m => Z.ltb m n) (c02_epoch_firsts r) && c02_wire_inc_b r
  | _ :: r => c02_wire_inc_b r
  end.

(* (5) replay exclusion: processing the events in time order, remember (inside a resendMessages execution?,
   has it transmitted a replayed item?); a first-time item after a replayed one inside the same execution fails,
   and so does a replayed stored message (PossDup) transmitted outside any execution *)
Definition citem_first (i : citem) : bool := match i with IFirst _ _ => true | _ => false end.
Definition citem_replay (i : citem) : bool := match i with IReplay _ _ => true | _ => false end.
Fixpoint c02_rstate (tr : list cev) : option (bool * bool) :=
  match tr with
  | [] => Some (false, false)
  | e :: r =>
      match c02_rstate r with
      | None => None
      | Some (inres, seen) =>
          match e with
          | EvResendBegin => Some (true, false)
          | EvResendEnd => Some (false, false)
          | EvWire i => if citem_first i then (if inres && seen then None else Some (inres, seen))
                        else if citem_replay i && negb inres then None else Some (inres, inres)
          | _ => Some (inres, seen)
          end
      end
  end.
Definition c02_replay_excl (tr : list cev) : Prop := c02_rstate tr <> None.
Definition c02_replay_excl_b (tr : list cev) : bool := match c02_rstate tr with Some _ => true | None => false end.

(* (6) numbers consumed since the last reset; no queue was dropped since the last reset *)
Fixpoint c02_epoch_assigned (tr : list cev) : list Z :=
  match tr with
  | [] => []
  | EvReset :: _ => []
  | EvAssign n :: r => n :: c02_epoch_assigned r
  | _ :: r => c02_epoch_assigned r
  end.
Fixpoint c02_no_drop (tr : list cev) : Prop :=
  match tr with
  | [] => True
  | EvReset :: _ => True
  | EvDrop :: _ => False
  | _ :: r => c02_no_drop r
  end.

(* all five safety clauses as one boolean, with the signature of the first failing clause (for the differential check) *)
Definition c02_check (init : Z) (persist : bool) (final_snd : Z) (tr : list cev) : nat :=
  if negb (c02_consec_b init tr) then 1%nat            (* sig=gap-or-repeat *)
  else if negb (Z.eqb final_snd (c02_expected init tr)) then 2%nat   (* sig=store-next *)
  else if persist && negb (c02_persisted_b tr) then 3%nat            (* sig=wire-before-save *)
  else if negb (c02_wire_inc_b tr) then 4%nat                        (* sig=wire-order *)
  else if negb (c02_replay_excl_b tr) then 5%nat                     (* sig=live-inside-replay *)
  else 0%nat.

(* ---- boolean forms decide the Prop forms ---- *)
Lemma c02_consec_b_iff init tr : c02_consec_b init tr = true <-> c02_consec init tr.
Proof.
  induction tr as [|e r IH]; cbn; [tauto|].
  destruct e; cbn; try exact IH.
  rewrite andb_true_iff, Z.eqb_eq, IH. tauto.
Qed.
Lemma c02_saved_live_b_iff n id tr : c02_saved_live_b n id tr = true <-> c02_saved_live n id tr.
Proof.
  induction tr as [|e r IH]; cbn; [split; [discriminate|tauto]|].
  destruct e; cbn; try exact IH.
  - rewrite orb_true_iff, andb_true_iff, Z.eqb_eq, Nat.eqb_eq, IH. tauto.
  - split; [discriminate|tauto].
Qed.
Lemma c02_persisted_b_iff tr : c02_persisted_b tr = true <-> c02_persisted tr.
Proof.
  induction tr as [|e r IH]; cbn; [tauto|].
  destruct e; cbn; try exact IH.
  destruct i; cbn; try exact IH.
  rewrite andb_true_iff, c02_saved_live_b_iff, IH. tauto.
Qed.
Lemma c02_wire_inc_b_iff tr : c02_wire_inc_b tr = true <-> c02_wire_inc tr.
Proof.
  induction tr as [|e r IH]; cbn; [tauto|].
  destruct e; cbn; try exact IH.
  destruct i; cbn; try exact IH.
  rewrite andb_true_iff, forallb_forall, IH.
  split; intros [H1 H2]; split; auto; intros m Hm; specialize (H1 m Hm); lia.
Qed.
Lemma c02_replay_excl_b_iff tr : c02_replay_excl_b tr = true <-> c02_replay_excl tr.
Proof.
  unfold c02_replay_excl_b, c02_replay_excl. destruct (c02_rstate tr); split; congruence.
Qed.
