(* C02 proofs, layer 3: one step preserves the queue/persistence/wire-order invariant — clauses (3) and (4). *)
From Coq Require Import ZArith List Bool Lia Arith.
From QF Require Import Conc.ShapeLang Conc.SendConc Conc.ConcSpec Conc.ConcInv1 Conc.ConcStep1 Conc.ConcStep2 Conc.ConcInv3.
Import ListNotations.
Open Scope Z_scope.

Lemma cflush_eff g b :
  exists k, c_q (cflush g b) = skipn k (c_q g) /\ c_trace (cflush g b) = cwire_evs (firstn k (c_q g)) (c_trace g).
Proof.
  unfold cflush. destruct (c_open g); cbn.
  - destruct b; cbn.
    + exists (length (c_q g)). rewrite skipn_all, firstn_all. auto.
    + eexists. split; reflexivity.
  - exists O. auto.
Qed.

Lemma cexec_eff3 t ch g l st rest g' l' :
  cexec t ch g l st rest = Some (g', l') ->
  match st with
  | SStoreReset => c_snd g' = 1 /\ c_q g' = c_q g /\ c_trace g' = EvReset :: c_trace g /\ th_pend l' = th_pend l
  | SSaveIncr => c_snd g' = c_snd g + 1 /\ c_q g' = c_q g /\ th_pend l' = th_pend l /\
                 exists id, (forall n i, th_pend l = Some (IFirst n i) -> id = i) /\
                            c_trace g' = EvSaved (th_seq l) id :: EvAssign (th_seq l) :: c_trace g
  | SIncrOnly => c_snd g' = c_snd g + 1 /\ c_q g' = c_q g /\ th_pend l' = th_pend l /\
                 c_trace g' = EvAssign (th_seq l) :: c_trace g
  | SBuild => c_snd g' = c_snd g /\ c_q g' = c_q g /\ c_trace g' = c_trace g /\
              th_pend l' = Some (IFirst (th_seq l) (c_nextid g))
  | SReplayBuild | SGapBuild _ _ => c_snd g' = c_snd g /\ c_q g' = c_q g /\ c_trace g' = c_trace g /\
              exists i, th_pend l' = Some i /\ citem_first i = false
  | SAppend => c_snd g' = c_snd g /\ c_trace g' = c_trace g /\ th_pend l' = None /\
               c_q g' = match th_pend l with Some i => c_q g ++ [i] | None => c_q g end
  | SFlush b => c_snd g' = c_snd g /\ th_pend l' = th_pend l /\
                exists k, c_q g' = skipn k (c_q g) /\ c_trace g' = cwire_evs (firstn k (c_q g)) (c_trace g)
  | SDropQ => c_snd g' = c_snd g /\ c_q g' = [] /\ cquiet (c_trace g) (c_trace g') /\ th_pend l' = th_pend l
  | _ => c_snd g' = c_snd g /\ c_q g' = c_q g /\ cquiet (c_trace g) (c_trace g') /\ th_pend l' = th_pend l
  end.
Proof.
  destruct st; cexec_cases t g l; intros H; inversion H; subst; cbn;
    repeat split; eauto using cquiet_refl, cquiet_cons.
  all: try (eexists; split; [|reflexivity]; intros n i E; first [inversion E; reflexivity | discriminate]).
  all: try apply cflush_fields.
  all: try apply cflush_eff.
  all: try (destruct (c_q g); [apply cquiet_refl|apply cquiet_cons; reflexivity]).
Qed.

(* ---------- stability under quiet steps that leave counter and queue alone ---------- *)
Lemma cglob3_quiet g g' :
  c_snd g <= c_snd g' -> c_persist g' = c_persist g -> cquiet (c_trace g) (c_trace g') -> cglob3 g -> cglob3 g'.
Proof.
  intros Hs Hp Hq [H1 H2 H3]. constructor.
  - apply (cquiet_inc _ _ Hq). exact H1.
  - rewrite Hp. intros E. apply (cquiet_pers _ _ Hq). auto.
  - rewrite (cquiet_ef _ _ Hq). intros m Hm. specialize (H3 m Hm). lia.
Qed.

Lemma cq_bounds_quiet g g' n id :
  c_persist g' = c_persist g -> cquiet (c_trace g) (c_trace g') -> cq_bounds g n id -> cq_bounds g' n id.
Proof.
  intros Hp Hq [H1 H2]. split.
  - rewrite (cquiet_ef _ _ Hq). exact H1.
  - rewrite Hp. intros E. apply (cquiet_live _ _ _ _ Hq). auto.
Qed.

Lemma cq_good_quiet g g' :
  c_snd g <= c_snd g' -> c_q g' = c_q g -> c_persist g' = c_persist g -> cquiet (c_trace g) (c_trace g') ->
  cq_good g -> cq_good g'.
Proof.
  intros Hs Hqq Hp Hq [H1 H2]. split; rewrite Hqq; auto.
  intros n id Hin. destruct (H2 n id Hin) as [Ha Hb]. split; [lia|]. eapply cq_bounds_quiet; eauto.
Qed.

Lemma cloc3_quiet g g' l :
  c_snd g' = c_snd g -> c_q g' = c_q g -> c_persist g' = c_persist g -> cquiet (c_trace g) (c_trace g') ->
  cloc3 g l -> cloc3 g' l.
Proof.
  intros Hs Hqq Hp Hq [H1 H2 H3 H4]. constructor; auto.
  - rewrite Hqq. auto.
  - intros E. destruct (H3 E) as (id & Ha & Hb & Hc & Hd). exists id. rewrite Hs, Hqq.
    repeat split; auto; eapply cq_bounds_quiet; eauto.
Qed.

(* a thread that does not hold sendMutex has nothing at stake *)
Lemma cnohs_abs a : cabs_wfb a = true -> a_hs a = false -> (a_ph a = PhIdle \/ a_ph a = PhRBuilt) /\ a_q a = QUnknown.
Proof.
  destruct a as [hs hr hw ph q kp mr nr]. unfold cabs_wfb. cbn. intros W ->.
  destruct ph, q; cbn in W; try discriminate W; auto.
Qed.

Lemma cloc3_nonowner g g' l : cabs_wfb (th_a l) = true -> a_hs (th_a l) = false -> cloc3 g l -> cloc3 g' l.
Proof.
  intros W Hs [H1 H2 H3 H4]. destruct (cnohs_abs _ W Hs) as [Hph Hq].
  constructor; auto.
  - rewrite Hq. discriminate.
  - intros E. destruct Hph as [Hph|Hph]; rewrite Hph in E; discriminate.
Qed.

(* ---------- a step of a thread that does not hold sendMutex ---------- *)
Definition cnohs (st : cstmt) : bool :=
  match st with
  | SAcq _ | SRel MResR | SRel MResW | SCallApp _ | SReplayBuild | SGapBuild _ _ | SNotify | SAssign _ _
  | SSetLogged _ | SSetOut _ => true
  | _ => false
  end.
Definition cisbuild (st : cstmt) : bool := match st with SReplayBuild | SGapBuild _ _ => true | _ => false end.

Lemma caprim_nohs a st a' :
  caprim a st = Some a' -> a_hs a = false -> cabs_wfb a = true ->
  cnohs st = true /\ a_q a' = QUnknown /\
  (if cisbuild st then a_ph a' = PhRBuilt else a_ph a' = a_ph a).
Proof.
  destruct a as [hs hr hw ph q kp mr nr]. unfold cabs_wfb. cbn. intros H -> W.
  destruct st; try discriminate; try (destruct m); cbn in *;
    destruct hr, hw, nr, ph, q; cbn in *; try discriminate;
    inversion H; subst; cbn; auto.
Qed.

Lemma cexec_nonowner3 t ch g l st rest g' l' :
  cloc1 g t l -> th_pc l = st :: rest -> a_hs (th_a l) = false -> cloc3 g l ->
  cexec t ch g l st rest = Some (g', l') ->
  c_snd g' = c_snd g /\ c_q g' = c_q g /\ cquiet (c_trace g) (c_trace g') /\ cloc3 g' l' /\ a_q (th_a l') <> QStale.
Proof.
  intros L Hpc Hhs L3 Hex.
  pose proof (l1_wf _ _ _ L) as W. destruct (cnohs_abs _ W Hhs) as [Hph Hq].
  pose proof (cexec_eff3 _ _ _ _ _ _ _ _ Hex) as Heff.
  pose proof (cexec_persist _ _ _ _ _ _ _ _ Hex) as Hper.
  destruct (cexec_ghost _ _ _ _ _ _ _ _ L Hpc Hex) as [(Hat & a' & Hap & Ha)|(Hat & Hp & Hqq & _ & _ & Hpe & ->)].
  - destruct (caprim_nohs _ _ _ Hap Hhs W) as (Hn & Hq' & Hph').
    assert (Hgen : c_snd g' = c_snd g /\ c_q g' = c_q g /\ cquiet (c_trace g) (c_trace g') /\
                   (if cisbuild st then exists i, th_pend l' = Some i /\ citem_first i = false else th_pend l' = th_pend l)).
    { destruct st; try discriminate Hn; cbn; try (destruct Heff as (E1 & E2 & E3 & E4); rewrite ?E3; auto using cquiet_refl).
      all: try (destruct m; try discriminate Hn; destruct Heff as (E1 & E2 & E3 & E4); auto). }
    destruct Hgen as (G1 & G2 & G3 & G4). repeat split; auto.
    + destruct Ha as [Ha|[Hst Hl]]; [|subst l'; eapply cloc3_quiet; eauto].
      rewrite Ha, Hq'. discriminate.
    + destruct Ha as [Ha|[Hst Hl]]; [|subst l'; apply L3]. rewrite Ha. destruct (cisbuild st).
      * rewrite Hph'. discriminate.
      * rewrite Hph'. intros E. destruct Hph as [Hph|Hph]; rewrite Hph in E; discriminate.
    + destruct Ha as [Ha|[Hst Hl]]; [|subst l'; eapply cloc3_quiet; eauto].
      rewrite Ha. destruct (cisbuild st).
      * rewrite Hph'. discriminate.
      * rewrite Hph'. intros E. destruct Hph as [Hph|Hph]; rewrite Hph in E; discriminate.
    + destruct Ha as [Ha|[Hst Hl]]; [|subst l'; apply L3]. rewrite Ha. destruct (cisbuild st); [auto|].
      rewrite Hph', G4. apply L3.
    + destruct Ha as [Ha|[Hst Hl]]; [|subst l'; congruence]. rewrite Ha, Hq'. discriminate.
  - repeat split; auto using cquiet_refl; try apply L3; try congruence.
    + rewrite Hp. intros E. destruct Hph as [Hph|Hph]; rewrite Hph in E; discriminate.
    + rewrite Hp. intros E. destruct Hph as [Hph|Hph]; rewrite Hph in E; discriminate.
    + rewrite Hp, Hpe. apply L3.
Qed.

(* ---------- what the shape interpreter says about each statement executed under sendMutex ---------- *)
Ltac cap_brute :=
  let H := fresh "H" in
  match goal with |- forall a : cabs, _ => intros a end;
  match goal with a : cabs |- _ => destruct a as [[|] ? [|] [| | | | |] [| | |] ? ? ?] end;
  cbn; intros a' H; cbn in H; try discriminate H;
  repeat match type of H with context [if ?b then _ else _] => destruct b eqn:?; cbn in H; try discriminate H end;
  inversion H; subst; cbn; repeat split; auto; try discriminate; try (left; split; [reflexivity|discriminate]); try tauto.

Lemma caprim_relsend_inv : forall a a', caprim a (SRel MSend) = Some a' ->
  (a_ph a = PhIdle \/ a_ph a = PhRead) /\ a_q a <> QStale /\ a_q a <> QReplay /\ a_ph a' = PhIdle /\ a_q a' = QUnknown.
Proof. cap_brute. Qed.
Lemma caprim_readsnd_inv : forall a a', caprim a SReadSnd = Some a' -> a_ph a' = PhRead /\ a_q a' = a_q a.
Proof. cap_brute. Qed.
Lemma caprim_reset_inv : forall a a', caprim a SStoreReset = Some a' ->
  (a_ph a' = PhIdle \/ a_ph a' = PhStale) /\ ((a_q a = QEmpty /\ a_q a' = QEmpty) \/ a_q a' = QStale).
Proof. cap_brute. Qed.
Lemma caprim_build_inv : forall a a', caprim a SBuild = Some a' -> a_ph a = PhRead /\ a_ph a' = PhBuilt /\ a_q a' = a_q a.
Proof. cap_brute. Qed.
Lemma caprim_saveincr_inv : forall a a', caprim a SSaveIncr = Some a' -> a_ph a = PhBuilt /\ a_ph a' = PhSaved /\ a_q a' = a_q a.
Proof. cap_brute. Qed.
Lemma caprim_incronly_inv : forall a a', caprim a SIncrOnly = Some a' ->
  a_ph a = PhBuilt /\ a_ph a' = PhSaved /\ a_q a' = a_q a.
Proof. cap_brute. Qed.
Lemma caprim_rbuild_inv : forall a a' st, cisbuild st = true -> caprim a st = Some a' -> a_ph a' = PhRBuilt /\ a_q a' = a_q a.
Proof.
  intros a a' st Hb. destruct a as [hs hr hw ph q kp mr nr]. destruct st; try discriminate Hb; cbn;
    destruct ph, hw; cbn; try discriminate; intros H; inversion H; subst; cbn; auto.
Qed.
Lemma caprim_append_inv : forall a a', caprim a SAppend = Some a' ->
  a_q a <> QStale /\ a_ph a' = PhIdle /\ a_q a' <> QStale /\ a_q a' <> QEmpty /\ (a_ph a = PhSaved \/ a_ph a = PhRBuilt).
Proof. cap_brute. Qed.
Lemma caprim_flush_inv : forall b a a', caprim a (SFlush b) = Some a' ->
  a_ph a = PhIdle /\ a_q a <> QStale /\ a_ph a' = PhIdle /\ a_q a' = QUnknown.
Proof. intros b. cap_brute. Qed.
Lemma caprim_dropq_inv : forall a a', caprim a SDropQ = Some a' -> a_ph a' = a_ph a /\ a_q a' = QEmpty.
Proof. cap_brute. Qed.
Lemma caprim_same_inv : forall a a' st, (match st with SCallApp _ | SNotify | SAssign _ _ => true | _ => false end) = true ->
  caprim a st = Some a' -> a' = a.
Proof. intros a a' st. destruct st; try discriminate; cbn; intros _ H; inversion H; reflexivity. Qed.
Lemma caprim_hs_impossible : forall a a' st, a_hs a = true ->
  (match st with SAcq _ | SRel MResR | SRel MResW | SSetLogged _ | SSetOut _ => true | _ => false end) = true ->
  caprim a st = Some a' -> False.
Proof.
  intros a a' st Hs. destruct a as [hs hr hw ph q kp mr nr]. cbn in Hs. subst hs.
  destruct st; try discriminate; try destruct m; try discriminate; cbn; intros _; try discriminate;
    destruct hr, hw; cbn; try discriminate; destruct (cphase_eqb ph PhIdle); cbn; discriminate.
Qed.

Lemma cloc3_ext g l l' :
  th_a l' = th_a l -> th_pend l' = th_pend l -> th_seq l' = th_seq l -> cloc3 g l -> cloc3 g l'.
Proof. intros E1 E2 E3 [H1 H2 H3 H4]. constructor; rewrite ?E1, ?E2, ?E3; auto. Qed.

(* ---------- a step of the thread that holds sendMutex ---------- *)
Lemma cexec_owner3 t ch g l st rest g' l' :
  cloc1 g t l -> th_pc l = st :: rest -> a_hs (th_a l) = true ->
  ((a_ph (th_a l) = PhRead \/ a_ph (th_a l) = PhBuilt) -> th_seq l = c_snd g) ->
  cglob3 g -> cloc3 g l -> (a_q (th_a l) <> QStale -> cq_good g) ->
  cexec t ch g l st rest = Some (g', l') ->
  cglob3 g' /\ cloc3 g' l' /\ (a_q (th_a l') <> QStale -> cq_good g').
Proof.
  intros L Hpc Hhs Hseq G3 L3 Hgood Hex.
  pose proof (cexec_eff3 _ _ _ _ _ _ _ _ Hex) as Heff.
  pose proof (cexec_store _ _ _ _ _ _ _ _ Hex) as Hsto.
  pose proof (cexec_persist _ _ _ _ _ _ _ _ Hex) as Hper.
  destruct (cexec_ghost _ _ _ _ _ _ _ _ L Hpc Hex) as [(Hat & a' & Hap & Ha)|(Hat & Hp & Hqq & _ & _ & Hpe & ->)].
  2:{ (* SIf / SIter *)
    assert (Hsq : th_seq l' = th_seq l) by (destruct st; try discriminate Hat; apply Hsto).
    split; [exact G3|split].
    - destruct L3 as [H1 H2 H3 H4]. constructor; rewrite ?Hp, ?Hqq, ?Hpe, ?Hsq; auto.
    - rewrite Hqq. exact Hgood. }
  destruct Ha as [Ha|[Hst _]]; [|subst st; exfalso; eapply caprim_hs_impossible; [| |exact Hap]; [exact Hhs|reflexivity]].
  destruct st; try discriminate Hat;
    try (exfalso; eapply caprim_hs_impossible; [| |exact Hap]; [exact Hhs|reflexivity]).
  - (* SRel m *)
    destruct m; try (exfalso; eapply caprim_hs_impossible; [| |exact Hap]; [exact Hhs|reflexivity]).
    destruct (caprim_relsend_inv _ _ Hap) as (P1 & P2 & P3 & P4 & P5).
    destruct Heff as (E1 & E2 & E3 & E4). destruct Hsto as (_ & _ & E5).
    split; [eapply cglob3_quiet; eauto; lia|split].
    + constructor; rewrite Ha, ?P4, ?P5; discriminate.
    + intros _. eapply cq_good_quiet; eauto. lia.
  - (* SReadSnd *)
    destruct (caprim_readsnd_inv _ _ Hap) as (P1 & P2). destruct Hsto as [-> E5].
    split; [exact G3|split].
    + destruct Heff as (_ & _ & _ & E4). constructor; rewrite Ha, ?P1, ?P2; try discriminate. apply L3.
    + rewrite Ha, P2. exact Hgood.
  - (* SCallApp *)
    pose proof (caprim_same_inv _ _ (SCallApp a) eq_refl Hap) as ->.
    destruct Heff as (E1 & E2 & E3 & E4). destruct Hsto as (_ & _ & E5).
    split; [eapply cglob3_quiet; eauto; lia|split].
    + eapply cloc3_quiet; eauto. eapply cloc3_ext; eauto.
    + rewrite Ha. intros Hn. eapply cq_good_quiet; eauto. lia.
  - (* SStoreReset *)
    destruct (caprim_reset_inv _ _ Hap) as (P1 & P2).
    destruct Heff as (E1 & E2 & E3 & E4).
    split; [|split].
    + destruct G3 as [I1 I2 I3]. constructor; rewrite E3; cbn; auto. rewrite Hper. exact I2. intros m [].
    + constructor; rewrite Ha.
      * intros E. destruct P2 as [[Q1 Q2]|Q2]; [|congruence]. rewrite E2. apply L3. exact Q1.
      * intros E. destruct P1 as [P1|P1]; rewrite P1 in E; discriminate.
      * intros E. destruct P1 as [P1|P1]; rewrite P1 in E; discriminate.
      * intros E. destruct P1 as [P1|P1]; rewrite P1 in E; discriminate.
    + rewrite Ha. intros Hn. destruct P2 as [[Q1 Q2]|Q2]; [|congruence].
      pose proof (l3_empty _ _ L3 Q1) as Hq. split; rewrite E2, Hq; cbn; auto. intros n id [].
  - (* SBuild *)
    destruct (caprim_build_inv _ _ Hap) as (P1 & P2 & P3).
    destruct Heff as (E1 & E2 & E3 & E4). destruct Hsto as (_ & _ & E5).
    assert (Hq : cquiet (c_trace g) (c_trace g')) by (rewrite E3; apply cquiet_refl).
    split; [eapply cglob3_quiet; eauto; lia|split].
    + constructor; rewrite Ha, ?P2, ?P3; try discriminate.
      * rewrite E2. apply L3.
      * intros _. rewrite E5, E4. eauto.
    + rewrite Ha, P3. intros Hn. eapply cq_good_quiet; eauto. lia.
  - (* SReplayBuild *)
    destruct (caprim_rbuild_inv _ _ SReplayBuild eq_refl Hap) as (P1 & P2).
    destruct Heff as (E1 & E2 & E3 & E4). destruct Hsto as (_ & _ & E5).
    assert (Hq : cquiet (c_trace g) (c_trace g')) by (rewrite E3; apply cquiet_refl).
    split; [eapply cglob3_quiet; eauto; lia|split].
    + constructor; rewrite Ha, ?P1, ?P2; try discriminate; auto. rewrite E2. apply L3.
    + rewrite Ha, P2. intros Hn. eapply cq_good_quiet; eauto. lia.
  - (* SGapBuild *)
    destruct (caprim_rbuild_inv _ _ (SGapBuild b e) eq_refl Hap) as (P1 & P2).
    destruct Heff as (E1 & E2 & E3 & E4). destruct Hsto as (_ & _ & E5).
    assert (Hq : cquiet (c_trace g) (c_trace g')) by (rewrite E3; apply cquiet_refl).
    split; [eapply cglob3_quiet; eauto; lia|split].
    + constructor; rewrite Ha, ?P1, ?P2; try discriminate; auto. rewrite E2. apply L3.
    + rewrite Ha, P2. intros Hn. eapply cq_good_quiet; eauto. lia.
  - (* SSaveIncr *)
    destruct (caprim_saveincr_inv _ _ Hap) as (P1 & P2 & P3).
    destruct Heff as (E1 & E2 & E3 & id & Eid & E4). destruct Hsto as (_ & E5 & _).
    destruct (l3_built _ _ L3 P1) as (id0 & Hpend). pose proof (Eid _ _ Hpend) as ->.
    assert (Hsq : th_seq l = c_snd g) by auto.
    assert (Hq : cquiet (c_trace g) (c_trace g')) by (rewrite E4; apply cquiet_cons2; reflexivity).
    split; [eapply cglob3_quiet; eauto; lia|split].
    + constructor; rewrite Ha, ?P2, ?P3; try discriminate.
      * rewrite E2. apply L3.
      * intros _. exists id0. rewrite E3, E5, E1, E2. repeat split; auto; try lia.
        -- rewrite (cquiet_ef _ _ Hq). intros m Hm. rewrite Hsq. apply G3. exact Hm.
        -- intros _. rewrite E4. cbn. auto.
        -- intros Hn n i Hin. destruct (Hgood Hn) as [_ Hb]. destruct (Hb n i Hin). lia.
    + rewrite Ha, P3. intros Hn. eapply cq_good_quiet; eauto. lia.
  - (* SIncrOnly *)
    destruct (caprim_incronly_inv _ _ Hap) as (P1 & P2 & P3).
    destruct Heff as (E1 & E2 & E3 & E4). destruct Hsto as (_ & E5 & _).
    destruct (l3_built _ _ L3 P1) as (id0 & Hpend).
    assert (Hsq : th_seq l = c_snd g) by auto.
    assert (Hnp : c_persist g = false).
    { destruct (l1_np _ _ _ L) as [E|E]; [exact E|]. rewrite Hpc in E. cbn in E. discriminate E. }
    assert (Hq : cquiet (c_trace g) (c_trace g')) by (rewrite E4; apply cquiet_cons; reflexivity).
    split; [eapply cglob3_quiet; eauto; lia|split].
    + constructor; rewrite Ha, ?P2, ?P3; try discriminate.
      * rewrite E2. apply L3.
      * intros _. exists id0. rewrite E3, E5, E1, E2. repeat split; auto; try lia.
        -- rewrite (cquiet_ef _ _ Hq). intros m Hm. rewrite Hsq. apply G3. exact Hm.
        -- rewrite Hper, Hnp. discriminate.
        -- intros Hn n i Hin. destruct (Hgood Hn) as [_ Hb]. destruct (Hb n i Hin). lia.
    + rewrite Ha, P3. intros Hn. eapply cq_good_quiet; eauto. lia.
  - (* SAppend *)
    destruct (caprim_append_inv _ _ Hap) as (P1 & P2 & P3 & P4 & P5).
    destruct Heff as (E1 & E2 & E3 & E4). destruct Hsto as (_ & _ & E5).
    assert (Hq : cquiet (c_trace g) (c_trace g')) by (rewrite E2; apply cquiet_refl).
    split; [eapply cglob3_quiet; eauto; lia|split].
    + constructor; rewrite Ha, ?P2; try discriminate. intros E. contradiction.
    + intros _. destruct (Hgood P1) as [Hs Hb].
      destruct P5 as [P5|P5].
      * destruct (l3_saved _ _ L3 P5) as (id & Hpend & Hsq & Hbd & Hlt). rewrite Hpend in E4.
        split; rewrite E4.
        -- apply cq_sorted_app_first; auto. apply Hlt. exact P1.
        -- intros n i Hin. apply in_app_or in Hin. destruct Hin as [Hin|[E|[]]].
           ++ destruct (Hb n i Hin) as [B1 B2]. split; [lia|]. eapply cq_bounds_quiet; eauto.
           ++ inversion E; subst n i. split; [lia|]. eapply cq_bounds_quiet; eauto.
      * destruct (l3_rbuilt _ _ L3 P5) as (i0 & Hpend & Hnf). rewrite Hpend in E4.
        split; rewrite E4.
        -- apply cq_sorted_app_nonfirst; auto.
        -- intros n i Hin. apply in_app_or in Hin. destruct Hin as [Hin|[E|[]]].
           ++ destruct (Hb n i Hin) as [B1 B2]. split; [lia|]. eapply cq_bounds_quiet; eauto.
           ++ subst i0. discriminate Hnf.
  - (* SFlush *)
    destruct (caprim_flush_inv _ _ _ Hap) as (P1 & P2 & P3 & P4).
    destruct Heff as (E1 & E3 & k & E2 & E4). destruct Hsto as (_ & _ & E5).
    destruct (Hgood P2) as [Hs Hb]. destruct G3 as [I1 I2 I3].
    assert (Hpre : forall n i, In (IFirst n i) (firstn k (c_q g)) -> n < c_snd g /\ cq_bounds g n i)
      by (intros n i Hin; apply Hb; eapply cin_firstn; eauto).
    split; [|split].
    + constructor; rewrite E4, ?E1.
      * apply cwire_inc; auto.
        -- clear - Hs. revert k. induction (c_q g) as [|x q IH]; intros [|k]; cbn; auto.
           destruct x; cbn in *; try (apply IH; tauto). destruct Hs as [H1 H2]. split; auto.
           intros m id1 Hin. eapply H1. eapply cin_firstn. exact Hin.
        -- intros n i Hin. apply (Hpre n i Hin).
      * rewrite Hper. intros Ep. apply cwire_pers; auto. intros n i Hin. apply (Hpre n i Hin). exact Ep.
      * intros m Hm. apply cwire_ef in Hm. destruct Hm as [Hm|[i Hin]]; [auto|]. apply (Hpre m i Hin).
    + constructor; rewrite Ha, ?P3, ?P4; discriminate.
    + intros _. split; rewrite E2.
      * apply cq_sorted_skipn. exact Hs.
      * intros n i Hin. destruct (Hb n i (cin_skipn _ _ _ Hin)) as [B1 [B2 B3]]. split; [lia|]. split.
        -- rewrite E4. intros m Hm. apply cwire_ef in Hm. destruct Hm as [Hm|[j Hj]]; [auto|].
           eapply cq_sorted_split; eauto.
        -- rewrite Hper, E4. intros Ep. apply cwire_live. auto.
  - (* SDropQ *)
    destruct (caprim_dropq_inv _ _ Hap) as (P1 & P2).
    destruct Heff as (E1 & E2 & E3 & E4). destruct Hsto as (_ & _ & E5).
    split; [eapply cglob3_quiet; eauto; lia|split].
    + constructor; rewrite Ha, ?P1, ?P2; try discriminate; auto.
      * rewrite E5, E4. apply L3.
      * intros E. destruct (l3_saved _ _ L3 E) as (id & Q1 & Q2 & Q3 & Q4). exists id. rewrite E5, E4, E1, E2.
        repeat split; auto; try (eapply cq_bounds_quiet; eauto). intros _ n i [].
      * rewrite E4. apply L3.
    + intros _. split; rewrite E2; cbn; auto. intros n i [].
  - (* SNotify *)
    pose proof (caprim_same_inv _ _ SNotify eq_refl Hap) as ->.
    destruct Heff as (E1 & E2 & E3 & E4). destruct Hsto as (_ & _ & E5).
    split; [eapply cglob3_quiet; eauto; lia|split].
    + eapply cloc3_quiet; eauto. eapply cloc3_ext; eauto.
    + rewrite Ha. intros Hn. eapply cq_good_quiet; eauto. lia.
  - (* SAssign *)
    pose proof (caprim_same_inv _ _ (SAssign v e) eq_refl Hap) as ->.
    destruct Heff as (E1 & E2 & E3 & E4). destruct Hsto as (_ & _ & E5).
    split; [eapply cglob3_quiet; eauto; lia|split].
    + eapply cloc3_quiet; eauto. eapply cloc3_ext; eauto.
    + rewrite Ha. intros Hn. eapply cq_good_quiet; eauto. lia.
Qed.

(* ---------- whole steps ---------- *)
Lemma cstep_inv3 sh s t ch s' :
  check_shape sh = true -> cinv1 s -> cinv2 s -> cinv3 s -> cstep sh s t ch = Some s' -> cinv3 s'.
Proof.
  intros Hsh I1 (_ & _ & Hseq) (G3 & Ls3 & Hgood) Hst.
  pose proof I1 as (G & Ls & Own). unfold cstep in Hst.
  destruct (nth_error (c_ths s) t) as [l|] eqn:Hl; [|discriminate].
  pose proof (Ls t l Hl) as L. pose proof (Ls3 t l Hl) as L3.
  destruct (th_pc l) as [|st rest] eqn:Hpc.
  - destruct (th_ops l) as [|o os] eqn:Hops; [discriminate|]. inversion Hst; subst s'; clear Hst. cbn.
    pose proof (l1_safe _ _ _ L) as Hs. rewrite Hpc in Hs. cbn in Hs. inversion Hs as [Hfin]; clear Hs.
    split; [exact G3|split].
    + intros u lu Hu. unfold cthr in Hu. cbn in Hu. destruct (Nat.eq_dec t u) as [->|Hne].
      * rewrite (cupd_nth_eq _ _ _ _ Hl) in Hu. inversion Hu; subst lu.
        unfold cload. destruct (cprog_of sh o) as [[pc m] [mr nr]].
        destruct (match o with OResend b e rejs => (b, e, rejs) | OSetOut _ room => (Z.of_nat room, 0, []) | _ => (0, 0, []) end) as [[b e] rejs].
        constructor; cbn; discriminate.
      * rewrite (cupd_nth_ne _ _ _ _ Hne) in Hu. apply (Ls3 u lu Hu).
    + intros Hns. apply Hgood. intros u lu Hu. destruct (Nat.eq_dec t u) as [->|Hne].
      * unfold cthr in Hu. rewrite Hl in Hu. inversion Hu; subst lu. rewrite Hfin. cbn. discriminate.
      * apply (Hns u lu). unfold cthr. cbn. rewrite (cupd_nth_ne _ _ _ _ Hne). exact Hu.
  - destruct (cexec t ch (c_sh s) l st rest) as [[g' l']|] eqn:Hex; [|discriminate]. inversion Hst; subst s'; clear Hst. cbn.
    pose proof (cexec_persist _ _ _ _ _ _ _ _ Hex) as Hper.
    destruct (a_hs (th_a l)) eqn:Hhs.
    + (* the owner of sendMutex moves *)
      assert (Hoth : forall u lu, u <> t -> cthr s u lu -> a_hs (th_a lu) = false).
      { intros u lu Hne Hu. destruct (a_hs (th_a lu)) eqn:E; auto.
        apply (l1_hs _ _ _ (Ls u lu Hu)) in E. apply (l1_hs _ _ _ L) in Hhs. congruence. }
      assert (Hg : a_q (th_a l) <> QStale -> cq_good (c_sh s)).
      { intros Hn. apply Hgood. intros u lu Hu. destruct (Nat.eq_dec t u) as [->|Hne].
        - unfold cthr in Hu. rewrite Hl in Hu. inversion Hu; subst. exact Hn.
        - destruct (cnohs_abs _ (l1_wf _ _ _ (Ls u lu Hu)) (Hoth u lu (not_eq_sym Hne) Hu)) as [_ ->]. discriminate. }
      destruct (cexec_owner3 _ _ _ _ _ _ _ _ L Hpc Hhs (Hseq t l Hl) G3 L3 Hg Hex) as (G3' & L3' & Hg').
      split; [exact G3'|split].
      * intros u lu Hu. unfold cthr in Hu. cbn in Hu. destruct (Nat.eq_dec t u) as [->|Hne].
        -- rewrite (cupd_nth_eq _ _ _ _ Hl) in Hu. inversion Hu; subst lu. exact L3'.
        -- rewrite (cupd_nth_ne _ _ _ _ Hne) in Hu.
           eapply cloc3_nonowner; [apply (l1_wf _ _ _ (Ls u lu Hu))|apply (Hoth u lu (not_eq_sym Hne) Hu)|apply (Ls3 u lu Hu)].
      * intros Hns. apply Hg'. apply (Hns t l'). unfold cthr. cbn. apply (cupd_nth_eq _ _ _ _ Hl).
    + (* a thread outside the critical section moves *)
      destruct (cexec_nonowner3 _ _ _ _ _ _ _ _ L Hpc Hhs L3 Hex) as (E1 & E2 & E3 & L3' & Hn').
      split; [apply (cglob3_quiet (c_sh s) g'); auto; lia|split].
      * intros u lu Hu. unfold cthr in Hu. cbn in Hu. destruct (Nat.eq_dec t u) as [->|Hne].
        -- rewrite (cupd_nth_eq _ _ _ _ Hl) in Hu. inversion Hu; subst lu. exact L3'.
        -- rewrite (cupd_nth_ne _ _ _ _ Hne) in Hu. apply (cloc3_quiet (c_sh s) g'); auto. apply (Ls3 u lu Hu).
      * intros Hns. apply (cq_good_quiet (c_sh s) g'); auto; [lia|]. apply Hgood.
        intros u lu Hu. destruct (Nat.eq_dec t u) as [->|Hne].
        -- unfold cthr in Hu. rewrite Hl in Hu. inversion Hu; subst.
           destruct (cnohs_abs _ (l1_wf _ _ _ L) Hhs) as [_ ->]. discriminate.
        -- apply (Hns u lu). unfold cthr. cbn. rewrite (cupd_nth_ne _ _ _ _ Hne). exact Hu.
Qed.

Lemma cinit_inv3 persist logged open room sess apps : cinv3 (cinit persist logged open room sess apps).
Proof.
  split; [|split].
  - constructor; cbn; auto. intros m [].
  - intros t l Hl. unfold cthr in Hl. cbn in Hl. destruct t as [|t]; cbn in Hl.
    + inversion Hl; subst. constructor; cbn; discriminate.
    + rewrite nth_error_map in Hl. destruct (nth_error apps t); [|discriminate]. inversion Hl; subst. constructor; cbn; discriminate.
  - intros _. split; cbn; auto. intros n id [].
Qed.
