(* C02 proofs, clause (6) on the instrumented semantics: while the session stays logged on nothing is dropped —
   every number consumed in the logged-on window is on the wire, in toSend, or in the hands of the sendMutex holder.
   For every program family passing [check_shape] and [check_shape_logged], every session program, every schedule. *)
From Coq Require Import ZArith List Bool Lia Arith.
From QF Require Import Conc.ShapeLang Conc.SendConc Conc.ConcSpec Conc.ConcInv1 Conc.ConcStep1 Conc.ConcStep2
  Conc.ConcInv3 Conc.ConcStep3 Conc.ConcStep4 Conc.ConcStep5 Conc.SendConcG Conc.ConcSpecG Conc.ConcStepG.
Import ListNotations.
Open Scope Z_scope.

(* ---------- the three syntactic checks on lists ---------- *)
Lemma cnds_if c t e : cnds_s (SIf c t e) = cnds_l t && cnds_l e.
Proof. reflexivity. Qed.
Lemma cnds_iter b : cnds_s (SIter b) = cnds_l b.
Proof. reflexivity. Qed.
Lemma cnds_app p q : cnds_l (p ++ q) = cnds_l p && cnds_l q.
Proof. induction p as [|x p IH]; cbn [app cnds_l]; [reflexivity|]. rewrite IH, andb_assoc. reflexivity. Qed.

Lemma cnosl_if c t e : cnosl_s (SIf c t e) = cnosl_l t && cnosl_l e.
Proof. reflexivity. Qed.
Lemma cnosl_iter b : cnosl_s (SIter b) = cnosl_l b.
Proof. reflexivity. Qed.
Lemma cnosl_app p q : cnosl_l (p ++ q) = cnosl_l p && cnosl_l q.
Proof. induction p as [|x p IH]; cbn [app cnosl_l]; [reflexivity|]. rewrite IH, andb_assoc. reflexivity. Qed.

Lemma cnd_if c t e :
  cnd_s (SIf c t e) = match c with CLoggedOn => cnd_l t | CNot CLoggedOn => cnd_l e | _ => cnd_l t && cnd_l e end.
Proof. reflexivity. Qed.
Lemma cnd_iter b : cnd_s (SIter b) = cnd_l b.
Proof. reflexivity. Qed.
Lemma cnd_app p q : cnd_l (p ++ q) = cnd_l p && cnd_l q.
Proof. induction p as [|x p IH]; cbn [app cnd_l]; [reflexivity|]. rewrite IH, andb_assoc. reflexivity. Qed.

(* ---------- the program counter after one statement ---------- *)
Lemma cexec_pc t ch g l st rest g' l' :
  th_pc l = st :: rest -> cexec t ch g l st rest = Some (g', l') ->
  match st with
  | SIf c tb eb => th_pc l' = (if ceval_c g l ch c then tb else eb) ++ rest
  | SIter body => th_pc l' = st :: rest \/ th_pc l' = rest \/ th_pc l' = body ++ st :: rest
  | SAcq MResW => th_pc l' = rest \/ th_pc l' = st :: rest
  | _ => th_pc l' = rest
  end.
Proof.
  intros Hpc. destruct st; cexec_cases t g l; intros H; inversion H; subst; cbn; auto.
Qed.

Lemma cexec_cnds t ch g l st rest g' l' :
  th_pc l = st :: rest -> cnds_l (st :: rest) = true -> cexec t ch g l st rest = Some (g', l') -> cnds_l (th_pc l') = true.
Proof.
  intros Hpc H Hex. pose proof (cexec_pc _ _ _ _ _ _ _ _ Hpc Hex) as P.
  pose proof H as H0. cbn [cnds_l] in H. apply andb_true_iff in H. destruct H as [H1 H2].
  destruct st; try (rewrite P; exact H2).
  - destruct m; try (rewrite P; exact H2). destruct P as [-> | ->]; auto.
  - rewrite cnds_if in H1. apply andb_true_iff in H1. destruct H1 as [Ht He]. rewrite P, cnds_app.
    destruct (ceval_c g l ch c); rewrite ?Ht, ?He, H2; reflexivity.
  - rewrite cnds_iter in H1. destruct P as [-> |[-> | ->]]; auto. rewrite cnds_app, H1. exact H0.
Qed.

Lemma cexec_cnosl t ch g l st rest g' l' :
  th_pc l = st :: rest -> cnosl_l (st :: rest) = true -> cexec t ch g l st rest = Some (g', l') -> cnosl_l (th_pc l') = true.
Proof.
  intros Hpc H Hex. pose proof (cexec_pc _ _ _ _ _ _ _ _ Hpc Hex) as P.
  pose proof H as H0. cbn [cnosl_l] in H. apply andb_true_iff in H. destruct H as [H1 H2].
  destruct st; try (rewrite P; exact H2).
  - destruct m; try (rewrite P; exact H2). destruct P as [-> | ->]; auto.
  - rewrite cnosl_if in H1. apply andb_true_iff in H1. destruct H1 as [Ht He]. rewrite P, cnosl_app.
    destruct (ceval_c g l ch c); rewrite ?Ht, ?He, H2; reflexivity.
  - rewrite cnosl_iter in H1. destruct P as [-> |[-> | ->]]; auto. rewrite cnosl_app, H1. exact H0.
Qed.

Lemma cexec_cnd t ch g l st rest g' l' :
  c_logged g = true ->
  th_pc l = st :: rest -> cnd_l (st :: rest) = true -> cexec t ch g l st rest = Some (g', l') -> cnd_l (th_pc l') = true.
Proof.
  intros Hlog Hpc H Hex. pose proof (cexec_pc _ _ _ _ _ _ _ _ Hpc Hex) as P.
  pose proof H as H0. cbn [cnd_l] in H. apply andb_true_iff in H. destruct H as [H1 H2].
  destruct st; try (rewrite P; exact H2).
  - destruct m; try (rewrite P; exact H2). destruct P as [-> | ->]; auto.
  - rewrite cnd_if in H1. rewrite P, cnd_app, H2, andb_true_r.
    destruct c; try (apply andb_true_iff in H1; destruct H1 as [Ht He]; destruct (ceval_c g l ch _); assumption).
    + cbn. rewrite Hlog. exact H1.
    + destruct c; try (apply andb_true_iff in H1; destruct H1 as [Ht He]; destruct (ceval_c g l ch _); assumption).
      cbn. rewrite Hlog. exact H1.
  - rewrite cnd_iter in H1. destruct P as [-> |[-> | ->]]; auto. rewrite cnd_app, H1. exact H0.
Qed.

(* ---------- invariant of the original system: who may drop, who may change IsLoggedOn() ---------- *)
Definition cinv6a (s : cstate) : Prop :=
  (forall t l, cthr s t l -> (1 <= t)%nat -> cnds_l (th_pc l) = true) /\
  (forall t l, cthr s t l -> cnosl_l (th_pc l) = true \/ exists b, th_pc l = [SSetLogged b]).

Lemma check_shape_logged_prog sh o :
  check_shape_logged sh = true -> cop_ok o = true ->
  let pc := fst (fst (cprog_of sh o)) in
  (cnosl_l pc = true \/ exists b, pc = [SSetLogged b]) /\
  (cop_dropkind o = false -> cnd_l pc = true) /\
  (forall m, o = OQueue m -> cnds_l pc = true).
Proof.
  unfold check_shape_logged. rewrite !andb_true_iff.
  intros [[[[[Q0 Q1] Q2] Q3] Q4] [[[[[[N1 N2] N3] N4] N5] N6] N7]] Hok.
  destruct o; cbn in *; try discriminate Hok.
  - split; [auto|split; [auto|intros; auto]].
  - split; [auto|split; [auto|intros m0 E; discriminate E]].
  - split; [auto|split; [discriminate|intros m0 E; discriminate E]].
  - split; [auto|split; [discriminate|intros m0 E; discriminate E]].
  - split; [auto|split; [auto|intros m0 E; discriminate E]].
  - split; [auto|split; [auto|intros m0 E; discriminate E]].
  - split; [destruct (clogon_ok sh); auto|split; [discriminate|intros m0 E; discriminate E]].
  - split; [right; eauto|split; [auto|intros m0 E; discriminate E]].
  - split; [auto|split; [auto|intros m0 E; discriminate E]].
Qed.

Lemma cstep_inv6a sh s t ch s' :
  check_shape sh = true -> check_shape_logged sh = true -> cinv1 s -> cinv6a s -> cstep sh s t ch = Some s' -> cinv6a s'.
Proof.
  intros Hsh Hshl I1 (Ha & Hb) Hst.
  pose proof I1 as (G & Ls & Own). unfold cstep in Hst.
  destruct (nth_error (c_ths s) t) as [l|] eqn:Hl; [|discriminate].
  pose proof (Ls t l Hl) as L.
  destruct (th_pc l) as [|st rest] eqn:Hpc.
  - destruct (th_ops l) as [|o os] eqn:Hops; [discriminate|]. inversion Hst; subst s'; clear Hst.
    pose proof (l1_ops _ _ _ L) as Hok. rewrite Hops in Hok. cbn in Hok. apply andb_true_iff in Hok. destruct Hok as [Hok _].
    destruct (check_shape_logged_prog sh o Hshl Hok) as (P1 & _ & P3).
    assert (Epc : th_pc (cload sh o os l) = fst (fst (cprog_of sh o))).
    { unfold cload. destruct (cprog_of sh o) as [[pc m] [mr nr]].
      destruct (match o with OResend b e rejs => (b, e, rejs) | OSetOut _ room => (Z.of_nat room, 0, []) | _ => (0, 0, []) end) as [[b e] rejs].
      reflexivity. }
    split.
    + intros u lu Hu Hge. unfold cthr in Hu. cbn in Hu. destruct (Nat.eq_dec t u) as [->|Hne].
      * rewrite (cupd_nth_eq _ _ _ _ Hl) in Hu. inversion Hu; subst lu. rewrite Epc.
        destruct (l1_app _ _ _ L Hge) as [_ Hq]. destruct (Hq o) as [m ->]; [rewrite Hops; left; reflexivity|].
        apply (P3 m). reflexivity.
      * rewrite (cupd_nth_ne _ _ _ _ Hne) in Hu. apply (Ha u lu Hu Hge).
    + intros u lu Hu. unfold cthr in Hu. cbn in Hu. destruct (Nat.eq_dec t u) as [->|Hne].
      * rewrite (cupd_nth_eq _ _ _ _ Hl) in Hu. inversion Hu; subst lu. rewrite Epc. exact P1.
      * rewrite (cupd_nth_ne _ _ _ _ Hne) in Hu. apply (Hb u lu Hu).
  - destruct (cexec t ch (c_sh s) l st rest) as [[g' l']|] eqn:Hex; [|discriminate]. inversion Hst; subst s'; clear Hst.
    split.
    + intros u lu Hu Hge. unfold cthr in Hu. cbn in Hu. destruct (Nat.eq_dec t u) as [->|Hne].
      * rewrite (cupd_nth_eq _ _ _ _ Hl) in Hu. inversion Hu; subst lu.
        eapply cexec_cnds; eauto. rewrite <- Hpc. apply (Ha u l Hl Hge).
      * rewrite (cupd_nth_ne _ _ _ _ Hne) in Hu. apply (Ha u lu Hu Hge).
    + intros u lu Hu. unfold cthr in Hu. cbn in Hu. destruct (Nat.eq_dec t u) as [->|Hne].
      * rewrite (cupd_nth_eq _ _ _ _ Hl) in Hu. inversion Hu; subst lu. left.
        destruct (Hb u l Hl) as [E|[b E]].
        -- eapply cexec_cnosl; eauto. rewrite <- Hpc. exact E.
        -- rewrite Hpc in E. inversion E; subst st rest.
           pose proof (cexec_pc _ _ _ _ _ _ _ _ Hpc Hex) as P. cbn in P. rewrite P. reflexivity.
      * rewrite (cupd_nth_ne _ _ _ _ Hne) in Hu. apply (Hb u lu Hu).
Qed.

Lemma cinit_inv6a persist logged open room sess apps : cinv6a (cinit persist logged open room sess apps).
Proof.
  split.
  - intros t l Hl _. unfold cthr in Hl. cbn in Hl. destruct t as [|t]; cbn in Hl.
    + inversion Hl; subst. reflexivity.
    + rewrite nth_error_map in Hl. destruct (nth_error apps t); [|discriminate]. inversion Hl; subst. reflexivity.
  - intros t l Hl. left. unfold cthr in Hl. cbn in Hl. destruct t as [|t]; cbn in Hl.
    + inversion Hl; subst. reflexivity.
    + rewrite nth_error_map in Hl. destruct (nth_error apps t); [|discriminate]. inversion Hl; subst. reflexivity.
Qed.

(* ---------- the events one statement adds ---------- *)
Lemma cexec_evs_class t ch g l st rest g' l' evs :
  cexec t ch g l st rest = Some (g', l') -> c_trace g' = evs ++ c_trace g ->
  match st with
  | SStoreReset => evs = [EvReset]
  | SSaveIncr => exists id, evs = [EvSaved (th_seq l) id; EvAssign (th_seq l)]
  | SIncrOnly => evs = [EvAssign (th_seq l)]
  | SFlush _ => exists k, evs = rev (map EvWire (firstn k (c_q g))) /\ c_q g' = skipn k (c_q g)
  | SDropQ => (c_q g = [] /\ evs = []) \/ evs = [EvDrop]
  | SAcq MResW => evs = [] \/ evs = [EvResendBegin]
  | SRel MResW => evs = [EvResendEnd]
  | _ => evs = []
  end.
Proof.
  intros Hex Hev. pose proof (cexec_eff5 _ _ _ _ _ _ _ _ Hex) as H5. pose proof (cexec_eff3 _ _ _ _ _ _ _ _ Hex) as H3.
  destruct st; try (rewrite H5 in Hev; symmetry in Hev; apply cext_nil in Hev; exact Hev).
  - destruct m; try (rewrite H5 in Hev; symmetry in Hev; apply cext_nil in Hev; exact Hev).
    destruct H5 as [E|E]; rewrite E in Hev; symmetry in Hev; [left; apply cext_nil in Hev; exact Hev|right].
    apply (cext_eq evs [_]) in Hev. exact Hev.
  - destruct m; try (rewrite H5 in Hev; symmetry in Hev; apply cext_nil in Hev; exact Hev).
    rewrite H5 in Hev; symmetry in Hev. apply (cext_eq evs [_]) in Hev. exact Hev.
  - rewrite H5 in Hev; symmetry in Hev. apply (cext_eq evs [_]) in Hev. exact Hev.
  - destruct H5 as [id E]. exists id. rewrite E in Hev; symmetry in Hev. apply (cext_eq evs [_; _]) in Hev. exact Hev.
  - rewrite H5 in Hev; symmetry in Hev. apply (cext_eq evs [_]) in Hev. exact Hev.
  - destruct H3 as (_ & _ & k & Eq & Et). exists k. split; [|exact Eq].
    rewrite Et, cwire_evs_app in Hev. symmetry in Hev. apply cext_eq in Hev. exact Hev.
  - destruct H5 as [[Eq E]|E]; rewrite E in Hev; symmetry in Hev.
    + left. split; [exact Eq|]. apply cext_nil in Hev. exact Hev.
    + right. apply (cext_eq evs [_]) in Hev. exact Hev.
Qed.

(* ---------- the logged-on window over blocks of events and markers ---------- *)
Lemma cwindow_GE logged0 evs r :
  c02_logged_window logged0 (map GE evs ++ r) =
  match c02_logged_window logged0 r with Some w => Some (evs ++ w) | None => None end.
Proof.
  induction evs as [|e evs IH]; cbn [map app c02_logged_window].
  - destruct (c02_logged_window logged0 r); reflexivity.
  - rewrite IH. destruct (c02_logged_window logged0 r); reflexivity.
Qed.

Lemma cwindow_mark logged0 st r :
  c02_logged_window logged0 (gmark st ++ r) =
  match st with
  | SSetLogged true => match c02_logged_window logged0 r with Some w => Some w | None => Some [] end
  | SSetLogged false => None
  | _ => c02_logged_window logged0 r
  end.
Proof. destruct st; reflexivity. Qed.

(* ---------- conservation ---------- *)
Definition cacc6 (s : cstate) (w : list cev) (n : Z) : Prop :=
  In n (c02_epoch_firsts w) \/ (exists id, In (IFirst n id) (c_q (c_sh s))) \/
  (exists t l, cthr s t l /\ a_ph (th_a l) = PhSaved /\ th_seq l = n).

Lemma cacc6_transfer s s' w w' n :
  (forall m, In m (c02_epoch_firsts w) -> In m (c02_epoch_firsts w')) ->
  (forall id, In (IFirst n id) (c_q (c_sh s)) -> In n (c02_epoch_firsts w') \/ In (IFirst n id) (c_q (c_sh s'))) ->
  (forall u lu, cthr s u lu -> a_ph (th_a lu) = PhSaved -> th_seq lu = n ->
                (exists lu', cthr s' u lu' /\ a_ph (th_a lu') = PhSaved /\ th_seq lu' = n) \/
                (exists id, In (IFirst n id) (c_q (c_sh s')))) ->
  cacc6 s w n -> cacc6 s' w' n.
Proof.
  intros HF Hq Hw [H|[[id H]|(u & lu & H1 & H2 & H3)]].
  - left. auto.
  - destruct (Hq id H) as [H'|H']; [left; exact H'|right; left; eauto].
  - destruct (Hw u lu H1 H2 H3) as [(lu' & A1 & A2 & A3)|H']; [right; right; eauto|right; left; exact H'].
Qed.

Lemma cwire_ef_app pre w m :
  In m (c02_epoch_firsts (rev (map EvWire pre) ++ w)) <-> In m (c02_epoch_firsts w) \/ exists id, In (IFirst m id) pre.
Proof. rewrite <- cwire_evs_app. apply cwire_ef. Qed.
Lemma cwire_assigned_app pre w : c02_epoch_assigned (rev (map EvWire pre) ++ w) = c02_epoch_assigned w.
Proof. rewrite <- cwire_evs_app. apply cwire_assigned. Qed.

(* one statement other than dropQueued(): every number of the window stays accounted for *)
Lemma cexec_acc6 s t ch l st rest g' l' evs w :
  cinv1 s -> (forall u lu, cthr s u lu -> cloc3 (c_sh s) lu) -> cthr s t l -> th_pc l = st :: rest ->
  cexec t ch (c_sh s) l st rest = Some (g', l') -> c_trace g' = evs ++ c_trace (c_sh s) -> st <> SDropQ ->
  (forall n, In n (c02_epoch_assigned w) -> cacc6 s w n) ->
  forall n, In n (c02_epoch_assigned (evs ++ w)) -> cacc6 {| c_sh := g'; c_ths := cupd (c_ths s) t l' |} (evs ++ w) n.
Proof.
  intros I1 Ls3 Hl Hpc Hex Hev Hnd I5.
  pose proof I1 as (G & Ls & Own). pose proof (Ls t l Hl) as L. pose proof (Ls3 t l Hl) as L3.
  pose proof (cexec_evs_class _ _ _ _ _ _ _ _ _ Hex Hev) as Hc.
  pose proof (cexec_eff3 _ _ _ _ _ _ _ _ Hex) as H3.
  pose proof (cexec_store _ _ _ _ _ _ _ _ Hex) as Hsto.
  pose proof (cexec_ghost _ _ _ _ _ _ _ _ L Hpc Hex) as Hgh.
  set (s1 := {| c_sh := g'; c_ths := cupd (c_ths s) t l' |}).
  assert (Hothers : forall u lu, u <> t -> cthr s u lu -> cthr s1 u lu).
  { intros u lu Hne Hu. unfold cthr in *. cbn. rewrite (cupd_nth_ne _ _ _ _ (not_eq_sym Hne)). exact Hu. }
  assert (Hself : cthr s1 t l').
  { unfold cthr. cbn. apply (cupd_nth_eq _ _ _ _ Hl). }
  assert (Hstay : st <> SAppend -> st <> SReadSnd -> a_ph (th_a l) = PhSaved -> a_ph (th_a l') = PhSaved).
  { intros N1 N2 Hph. destruct Hgh as [(Hat & a' & Hap & [Ha|[_ Hll]])|(Hat & Hp & _)].
    - rewrite Ha. eapply caprim_saved_stays; eauto.
    - subst l'. exact Hph.
    - congruence. }
  (* generic case: no wire / assign / reset event, the queue does not shrink *)
  assert (Hgen : forall (Htr : c02_epoch_firsts (evs ++ w) = c02_epoch_firsts w /\
                               c02_epoch_assigned (evs ++ w) = c02_epoch_assigned w)
                        (Hq : forall i, In i (c_q (c_sh s)) -> In i (c_q g'))
                        (Hnot : st <> SAppend) (Hnr : st <> SReadSnd) (Hseq : th_seq l' = th_seq l),
             forall n, In n (c02_epoch_assigned (evs ++ w)) -> cacc6 s1 (evs ++ w) n).
  { intros (HF & HA) Hq Hnot Hnr Hseq n Hn. rewrite HA in Hn.
    apply (cacc6_transfer s s1 w); cbn [c_sh s1]; [rewrite HF; auto|intros; right; auto| |apply I5; auto].
    intros u lu Hu Hph Hsq. left. destruct (Nat.eq_dec u t) as [->|Hne].
    - unfold cthr in Hu, Hl. rewrite Hl in Hu. inversion Hu; subst lu. exists l'. split; [exact Hself|]. split; [auto|congruence].
    - exists lu. split; auto. }
  destruct st; try (exfalso; apply Hnd; reflexivity).
  all: try (subst evs; destruct H3 as (_ & Eq & _ & _); apply Hgen;
            [split; reflexivity | rewrite Eq; auto | discriminate | discriminate | apply Hsto]; fail).
  - (* SAcq *)
    destruct H3 as (_ & Eq & _ & _). apply Hgen; [|rewrite Eq; auto|discriminate|discriminate|apply Hsto].
    destruct m; try (subst evs; split; reflexivity). destruct Hc as [-> | ->]; split; reflexivity.
  - (* SRel *)
    destruct H3 as (_ & Eq & _ & _). apply Hgen; [|rewrite Eq; auto|discriminate|discriminate|apply Hsto].
    destruct m; subst evs; split; reflexivity.
  - (* SReadSnd: not while Saved; otherwise nothing changes *)
    subst evs. destruct Hsto as [-> _]. cbn [app]. intros n Hn.
    apply (cacc6_transfer s s1 w); cbn [c_sh s1]; [auto|auto| |apply I5; auto].
    intros u lu Hu Hph Hsq. left. destruct (Nat.eq_dec u t) as [->|Hne]; [|exists lu; split; auto].
    exfalso. unfold cthr in Hu, Hl. rewrite Hl in Hu. inversion Hu; subst lu.
    destruct Hgh as [(_ & a' & Hap & _)|(Hx & _)]; [|discriminate Hx].
    cbn in Hap. rewrite Hph in Hap. destruct (a_hs (th_a l)); discriminate Hap.
  - (* SStoreReset *)
    subst evs. intros n Hn. cbn in Hn. destruct Hn.
  - (* SSaveIncr *)
    destruct Hc as [id ->]. destruct H3 as (_ & Eq & _ & _). destruct Hsto as (_ & Hsq' & _).
    destruct Hgh as [(_ & a' & Hap & [Ha|[Hx _]])|(Hx & _)]; try discriminate Hx.
    destruct (caprim_save_ph _ _ _ Hap (or_introl eq_refl)) as [Hp1 Hp2].
    intros n Hn. cbn in Hn. destruct Hn as [<-|Hn].
    + right. right. exists t, l'. split; [exact Hself|]. split; [congruence|exact Hsq'].
    + apply (cacc6_transfer s s1 w); cbn [c_sh s1]; [cbn; auto|rewrite Eq; auto| |apply I5; auto].
      intros u lu Hu Hph Hsq. left. destruct (Nat.eq_dec u t) as [->|Hne]; [|exists lu; split; auto].
      exfalso. unfold cthr in Hu, Hl. rewrite Hl in Hu. inversion Hu; subst lu. congruence.
  - (* SIncrOnly *)
    subst evs. destruct H3 as (_ & Eq & _ & _). destruct Hsto as (_ & Hsq' & _).
    destruct Hgh as [(_ & a' & Hap & [Ha|[Hx _]])|(Hx & _)]; try discriminate Hx.
    destruct (caprim_save_ph _ _ _ Hap (or_intror eq_refl)) as [Hp1 Hp2].
    intros n Hn. cbn in Hn. destruct Hn as [<-|Hn].
    + right. right. exists t, l'. split; [exact Hself|]. split; [congruence|exact Hsq'].
    + apply (cacc6_transfer s s1 w); cbn [c_sh s1]; [cbn; auto|rewrite Eq; auto| |apply I5; auto].
      intros u lu Hu Hph Hsq. left. destruct (Nat.eq_dec u t) as [->|Hne]; [|exists lu; split; auto].
      exfalso. unfold cthr in Hu, Hl. rewrite Hl in Hu. inversion Hu; subst lu. congruence.
  - (* SAppend *)
    subst evs. destruct H3 as (_ & _ & _ & Eq). cbn [app]. intros n Hn.
    apply (cacc6_transfer s s1 w); cbn [c_sh s1]; [auto| | |apply I5; auto].
    + intros id Hin. right. rewrite Eq. destruct (th_pend l); [apply in_or_app; left|]; exact Hin.
    + intros u lu Hu Hph Hsq. destruct (Nat.eq_dec u t) as [->|Hne]; [|left; exists lu; split; auto].
      right. unfold cthr in Hu, Hl. rewrite Hl in Hu. inversion Hu; subst lu.
      destruct (l3_saved _ _ L3 Hph) as (id & Hpend & _). exists id. rewrite Eq, Hpend, <- Hsq.
      apply in_or_app. right. left. reflexivity.
  - (* SFlush *)
    destruct Hc as (k & -> & Eq). destruct Hsto as (_ & _ & Hsq').
    intros n Hn. rewrite cwire_assigned_app in Hn.
    apply (cacc6_transfer s s1 w); cbn [c_sh s1]; [| | |apply I5; auto].
    + intros m Hm. apply cwire_ef_app. left. exact Hm.
    + intros id Hin. rewrite <- (firstn_skipn k (c_q (c_sh s))) in Hin. apply in_app_or in Hin. destruct Hin as [Hin|Hin].
      * left. apply cwire_ef_app. right. eauto.
      * right. rewrite Eq. exact Hin.
    + intros u lu Hu Hph Hsq. left. destruct (Nat.eq_dec u t) as [->|Hne]; [|exists lu; split; auto].
      unfold cthr in Hu, Hl. rewrite Hl in Hu. inversion Hu; subst lu. exists l'. split; [exact Hself|]. split; [|congruence].
      apply Hstay; auto; discriminate.
Qed.

Lemma cexec_nodrop t ch g l st rest g' l' evs :
  cexec t ch g l st rest = Some (g', l') -> c_trace g' = evs ++ c_trace g -> st <> SDropQ -> ~ In EvDrop evs.
Proof.
  intros Hex Hev Hnd Hin. pose proof (cexec_evs_class _ _ _ _ _ _ _ _ _ Hex Hev) as Hc.
  destruct st; try (subst evs; destruct Hin; fail); try (exfalso; apply Hnd; reflexivity).
  - destruct m; try (subst evs; destruct Hin; fail). destruct Hc as [-> | ->]; [destruct Hin|destruct Hin as [E|[]]; discriminate E].
  - destruct m; try (subst evs; destruct Hin; fail). subst evs. destruct Hin as [E|[]]; discriminate E.
  - subst evs. destruct Hin as [E|[]]; discriminate E.
  - destruct Hc as [id ->]. destruct Hin as [E|[E|[]]]; discriminate E.
  - subst evs. destruct Hin as [E|[]]; discriminate E.
  - destruct Hc as (k & -> & _). apply in_rev in Hin. apply in_map_iff in Hin. destruct Hin as [i [E _]]. discriminate E.
Qed.

(* ---------- the window invariant of the instrumented system ---------- *)
Definition ginv6 (logged0 : bool) (gs : gstate) : Prop :=
  forall w, c02_logged_window logged0 (g_tr gs) = Some w ->
    c_logged (c_sh (g_s gs)) = true /\
    (forall l, cthr (g_s gs) 0%nat l -> cnd_l (th_pc l) = true) /\
    ~ In EvDrop w /\
    (forall n, In n (c02_epoch_assigned w) -> cacc6 (g_s gs) w n).

Lemma gstep0_inv6 sh logged0 gs t ch gs' :
  check_shape sh = true -> check_shape_logged sh = true ->
  cinv1 (g_s gs) -> cinv3 (g_s gs) -> cinv6a (g_s gs) -> ginv6 logged0 gs ->
  gstep0 sh gs t ch = Some gs' -> ginv6 logged0 gs'.
Proof.
  intros Hsh Hshl I1 (_ & Ls3 & _) (Ka & Kb) I6 Hgst.
  destruct (gstep0_inv _ _ _ _ _ Hgst) as (evs & Hst & Hev & Htr). clear Hgst.
  destruct gs as [s gtr]. destruct gs' as [s' gtr']. unfold ginv6 in *. cbn [g_s g_tr] in *.
  pose proof I1 as (G & Ls & Own). unfold cstep in Hst.
  destruct (nth_error (c_ths s) t) as [l|] eqn:Hl; [|discriminate].
  pose proof (Ls t l Hl) as L.
  destruct (th_pc l) as [|st rest] eqn:Hpc.
  - (* starting an operation *)
    destruct (th_ops l) as [|o os] eqn:Hops; [discriminate|]. inversion Hst; subst s'; clear Hst.
    cbn [c_sh] in Hev. symmetry in Hev. apply cext_nil in Hev. subst evs.
    rewrite (gghost_load s t l o os Hl Hpc Hops) in Htr. cbn [map app] in Htr. subst gtr'.
    intros w Hw. cbn [c02_logged_window] in Hw. destruct (cop_dropkind o) eqn:Hdk; [discriminate|].
    destruct (I6 w Hw) as (J1 & J2 & J3 & J4).
    pose proof (l1_ops _ _ _ L) as Hok. rewrite Hops in Hok. cbn in Hok. apply andb_true_iff in Hok. destruct Hok as [Hok _].
    destruct (check_shape_logged_prog sh o Hshl Hok) as (_ & P2 & _).
    assert (Epc : th_pc (cload sh o os l) = fst (fst (cprog_of sh o))).
    { unfold cload. destruct (cprog_of sh o) as [[pc m] [mr nr]].
      destruct (match o with OResend b e rejs => (b, e, rejs) | OSetOut _ room => (Z.of_nat room, 0, []) | _ => (0, 0, []) end) as [[b e] rejs].
      reflexivity. }
    pose proof (l1_safe _ _ _ L) as Hs. rewrite Hpc in Hs. cbn in Hs. inversion Hs as [Hfin]; clear Hs.
    cbn [c_sh]. split; [exact J1|split; [|split; [exact J3|]]].
    + intros l0 Hu. unfold cthr in Hu. cbn [c_ths] in Hu. destruct (Nat.eq_dec t 0) as [->|Hne].
      * rewrite (cupd_nth_eq _ _ _ _ Hl) in Hu. inversion Hu; subst l0. rewrite Epc. apply P2. exact Hdk.
      * rewrite (cupd_nth_ne _ _ _ _ Hne) in Hu. apply J2. exact Hu.
    + intros n Hn. apply (cacc6_transfer s _ w w); cbn [c_sh]; [auto|auto| |apply J4; exact Hn].
      intros u lu Hu Hph Hsq. left. destruct (Nat.eq_dec u t) as [->|Hne].
      * unfold cthr in Hu. rewrite Hl in Hu. inversion Hu; subst lu. rewrite Hfin in Hph. discriminate Hph.
      * exists lu. split; auto. unfold cthr in *. cbn. rewrite (cupd_nth_ne _ _ _ _ (not_eq_sym Hne)). exact Hu.
  - (* one statement *)
    destruct (cexec t ch (c_sh s) l st rest) as [[g' l']|] eqn:Hex; [|discriminate]. inversion Hst; subst s'; clear Hst.
    cbn [c_sh] in Hev.
    rewrite (gghost_exec' s t l st rest Hl Hpc) in Htr. subst gtr'.
    pose proof (cexec_env _ _ _ _ _ _ _ _ Hex) as [_ Henv].
    assert (Hself : nth_error (cupd (c_ths s) t l') t = Some l') by (apply (cupd_nth_eq _ _ _ _ Hl)).
    intros w' Hw'. rewrite cwindow_mark, cwindow_GE in Hw'. cbn [c_sh c_ths].
    destruct (match st with SSetLogged _ => true | _ => false end) eqn:Hsl.
    + (* IsLoggedOn() is set *)
      destruct st; try discriminate Hsl. destruct b; [|discriminate Hw'].
      destruct (Kb t l Hl) as [E|[b E]]; [rewrite Hpc in E; discriminate E|]. rewrite Hpc in E. inversion E; subst rest. clear E.
      assert (Ht : t = 0%nat).
      { destruct t as [|t]; [reflexivity|]. exfalso. assert (Hge : (1 <= S t)%nat) by lia.
        pose proof (Ka (S t) l Hl Hge) as Hc. rewrite Hpc in Hc. discriminate Hc. }
      subst t.
      pose proof (cexec_evs_class _ _ _ _ _ _ _ _ _ Hex Hev) as Hc. cbn in Hc. subst evs.
      pose proof (cexec_pc _ _ _ _ _ _ _ _ Hpc Hex) as P. cbn in P.
      assert (Hpc0 : forall l0, cthr {| c_sh := g'; c_ths := cupd (c_ths s) 0 l' |} 0%nat l0 -> cnd_l (th_pc l0) = true).
      { intros l0 Hu. unfold cthr in Hu. cbn [c_ths] in Hu. rewrite Hself in Hu. inversion Hu; subst l0. rewrite P. reflexivity. }
      destruct (c02_logged_window logged0 gtr) as [w|] eqn:Hwin; inversion Hw'; subst w'; clear Hw'.
      * destruct (I6 w eq_refl) as (J1 & J2 & J3 & J4).
        split; [exact Henv|split; [exact Hpc0|split; [exact J3|]]].
        assert (Hnd : SSetLogged true <> SDropQ) by discriminate.
        apply (cexec_acc6 s 0%nat ch l (SSetLogged true) [] g' l' [] w I1 Ls3 Hl Hpc Hex Hev Hnd J4).
      * split; [exact Henv|split; [exact Hpc0|split; [intros []|intros n []]]].
    + (* any other statement: the window, if there is one, goes on *)
      assert (Hw2 : match c02_logged_window logged0 gtr with Some w => Some (evs ++ w) | None => None end = Some w')
        by (destruct st; try discriminate Hsl; exact Hw').
      clear Hw'. destruct (c02_logged_window logged0 gtr) as [w|] eqn:Hwin; [|discriminate Hw2]. inversion Hw2; subst w'; clear Hw2.
      destruct (I6 w eq_refl) as (J1 & J2 & J3 & J4).
      assert (Elog : c_logged g' = c_logged (c_sh s)) by (destruct st; try discriminate Hsl; exact Henv).
      assert (Hnd : st <> SDropQ).
      { intros ->. destruct t as [|t].
        - pose proof (J2 l Hl) as Hc. rewrite Hpc in Hc. discriminate Hc.
        - assert (Hge : (1 <= S t)%nat) by lia. pose proof (Ka (S t) l Hl Hge) as Hc. rewrite Hpc in Hc. discriminate Hc. }
      split; [congruence|split; [|split]].
      * intros l0 Hu. unfold cthr in Hu. cbn [c_ths] in Hu. destruct (Nat.eq_dec t 0) as [->|Hne].
        -- rewrite Hself in Hu. inversion Hu; subst l0. eapply cexec_cnd; eauto. rewrite <- Hpc. apply J2. exact Hl.
        -- rewrite (cupd_nth_ne _ _ _ _ Hne) in Hu. apply J2. exact Hu.
      * intros Hin. apply in_app_or in Hin. destruct Hin as [Hin|Hin]; [|exact (J3 Hin)].
        eapply cexec_nodrop; eauto.
      * apply (cexec_acc6 s t ch l st rest g' l' evs w I1 Ls3 Hl Hpc Hex Hev Hnd J4).
Qed.

(* the marker "toSend is empty now" does not concern the logged-on window *)
Lemma gstep_inv6 sh logged0 gs t ch gs' :
  check_shape sh = true -> check_shape_logged sh = true ->
  cinv1 (g_s gs) -> cinv3 (g_s gs) -> cinv6a (g_s gs) -> ginv6 logged0 gs ->
  gstep sh gs t ch = Some gs' -> ginv6 logged0 gs'.
Proof.
  intros Hsh Hshl I1 I3 Ia I6 Hgst.
  destruct (gstep_split _ _ _ _ _ Hgst) as (gs0 & H0 & Es & Et).
  pose proof (gstep0_inv6 _ _ _ _ _ _ Hsh Hshl I1 I3 Ia I6 H0) as I6'.
  unfold ginv6 in *. rewrite Es, Et.
  destruct (gpost_cases (g_s gs) t (g_s gs0)) as [-> |[-> _]]; exact I6'.
Qed.

Lemma ginit_inv6 persist logged open room sess apps :
  ginv6 logged (ginit (cinit persist logged open room sess apps)).
Proof.
  intros w Hw. cbn in Hw. destruct logged; [|discriminate Hw]. inversion Hw; subst w.
  split; [reflexivity|split; [|split; [intros []|intros n []]]].
  intros l Hl. unfold cthr in Hl. cbn in Hl. inversion Hl; subst. reflexivity.
Qed.
