(* C02 proofs, clause (5) on the instrumented semantics: replay exclusion in every window in which the connection
   has stayed open since toSend was last seen empty — for every program family passing [check_shape],
   every session program (connects and disconnects included), every schedule. *)
From Coq Require Import ZArith List Bool Lia Arith.
From QF Require Import Conc.ShapeLang Conc.SendConc Conc.ConcSpec Conc.ConcInv1 Conc.ConcStep1 Conc.ConcStep2
  Conc.ConcInv3 Conc.ConcStep3 Conc.ConcStep4 Conc.ConcStep5 Conc.SendConcG Conc.ConcSpecG Conc.ConcStepG.
Import ListNotations.
Open Scope Z_scope.

(* ---------- the automaton of c02_rstate, run from an arbitrary state over a block of events ---------- *)
Fixpoint crs_run (st : bool * bool) (evs : list cev) : option (bool * bool) :=
  match evs with
  | [] => Some st
  | e :: r => match crs_run st r with
              | None => None
              | Some st' => if crs_bad st' e then None else Some (crs_upd st' e)
              end
  end.
Fixpoint crs_upds (st : bool * bool) (evs : list cev) : bool * bool :=
  match evs with [] => st | e :: r => crs_upd (crs_upds st r) e end.

Lemma c02_rstate_crs tr : c02_rstate tr = crs_run (false, false) tr.
Proof.
  induction tr as [|e r IH]; [reflexivity|]. cbn [c02_rstate crs_run]. rewrite IH.
  destruct (crs_run (false, false) r) as [[inres seen]|]; [|reflexivity].
  destruct e; try reflexivity. cbn. destruct (citem_first i); reflexivity.
Qed.

Lemma crs_run_app st a b :
  crs_run st (a ++ b) = match crs_run st b with Some st' => crs_run st' a | None => None end.
Proof.
  induction a as [|e a IH]; cbn [app crs_run].
  - destruct (crs_run st b); reflexivity.
  - rewrite IH. destruct (crs_run st b); reflexivity.
Qed.

Lemma crs_run_upds st evs st' : crs_run st evs = Some st' -> st' = crs_upds st evs.
Proof.
  revert st'. induction evs as [|e r IH]; intros st' H; cbn in *.
  - inversion H. reflexivity.
  - destruct (crs_run st r) as [st1|]; [|discriminate]. rewrite <- (IH st1 eq_refl).
    destruct (crs_bad st1 e); [discriminate|]. inversion H. reflexivity.
Qed.

(* outside a resendMessages execution nothing replayed has been seen *)
Definition crs_wf (st : bool * bool) : Prop := fst st = false -> snd st = false.
Lemma crs_upd_wf st e : crs_wf st -> crs_wf (crs_upd st e).
Proof.
  destruct st as [a b]. unfold crs_wf. destruct e; cbn; auto; try discriminate.
  destruct (citem_first i); cbn; auto.
Qed.
Lemma crs_upds_wf st evs : crs_wf st -> crs_wf (crs_upds st evs).
Proof. intros H. induction evs as [|e r IH]; cbn; [exact H|]. apply crs_upd_wf. exact IH. Qed.

Lemma crs_upds_fst st evs : Forall (fun e => cev_nomark e = true) evs -> fst (crs_upds st evs) = fst st.
Proof.
  induction 1 as [|e r He Hall IH]; cbn; [reflexivity|]. rewrite <- IH.
  destruct e; try discriminate He; try reflexivity. cbn. destruct (citem_first i); reflexivity.
Qed.

(* a block of original events in the instrumented automaton *)
Lemma crconn_GE open0 evs r op win st :
  c02_rstate_conn open0 r = Some ((op, win), st) ->
  c02_rstate_conn open0 (map GE evs ++ r) =
    if win then match crs_run st evs with Some st' => Some ((op, true), st') | None => None end
    else Some ((op, false), crs_upds st evs).
Proof.
  intros Hr. induction evs as [|e evs IH]; cbn [map app c02_rstate_conn crs_run crs_upds].
  - rewrite Hr. destruct win; reflexivity.
  - rewrite IH. destruct win.
    + destruct (crs_run st evs) as [st1|]; [|reflexivity]. cbn. destruct (crs_bad st1 e); reflexivity.
    + reflexivity.
Qed.

(* every automaton state has a canonical history; with the saved event the mover's own message needs *)
Definition crs_canon (st : bool * bool) : list cev :=
  match st with
  | (false, _) => []
  | (true, false) => [EvResendBegin]
  | (true, true) => [EvWire (IGap 0 0); EvResendBegin]
  end.
Definition csavedpart (l : cth) : list cev :=
  match th_pend l with Some (IFirst n id) => [EvSaved n id] | _ => [] end.
Lemma crs_canon_ok st l : crs_wf st -> c02_rstate (crs_canon st ++ csavedpart l) = Some st.
Proof.
  unfold crs_wf, csavedpart. destruct st as [[|] [|]]; cbn; intros H;
    destruct (th_pend l) as [[n id|n id|b e]|]; cbn; try reflexivity; specialize (H eq_refl); discriminate H.
Qed.

(* ---------- the step function does not read the trace ---------- *)
Definition cwt (g : cshared) (tr : list cev) : cshared :=
  cset_sh g (c_snd g) (c_saved g) (c_q g) (c_owner g) (c_readers g) (c_wr g) (c_nextid g) tr.

Lemma cflush_cwt g b tr2 :
  exists evs, c_trace (cflush g b) = evs ++ c_trace g /\ cflush (cwt g tr2) b = cwt (cflush g b) (evs ++ tr2).
Proof.
  unfold cflush. cbn. destruct (c_open g); cbn.
  - destruct b; cbn.
    + exists (rev (map EvWire (c_q g))). split; [apply cwire_evs_app|]. unfold cwt, cset_sh. cbn. rewrite cwire_evs_app. reflexivity.
    + exists (rev (map EvWire (firstn (Nat.min (c_room g) (length (c_q g))) (c_q g)))). split; [apply cwire_evs_app|].
      unfold cwt, cset_sh. cbn. rewrite cwire_evs_app. reflexivity.
  - exists []. split; reflexivity.
Qed.

Lemma ceval_cwt g tr l ch c : ceval_c (cwt g tr) l ch c = ceval_c g l ch c.
Proof. induction c; cbn; try reflexivity. rewrite IHc. reflexivity. Qed.

Lemma cexec_cwt t ch g l st rest g' l' tr2 :
  cexec t ch g l st rest = Some (g', l') ->
  exists evs, c_trace g' = evs ++ c_trace g /\ cexec t ch (cwt g tr2) l st rest = Some (cwt g' (evs ++ tr2), l').
Proof.
  destruct st; try (cexec_cases t g l; intros H; inversion H; subst; clear H;
    first [ exists []; split; reflexivity
          | eexists (_ :: nil); split; reflexivity
          | eexists (_ :: _ :: nil); split; reflexivity ]).
  - (* SFlush *)
    cbn. intros H; inversion H; subst; clear H. destruct (cflush_cwt g blocking tr2) as (evs & E1 & E2).
    exists evs. split; [exact E1|]. rewrite E2. reflexivity.
  - (* SDropQ *)
    cbn. intros H; inversion H; subst; clear H. destruct (c_q g).
    + exists []. split; reflexivity.
    + exists [EvDrop]. split; reflexivity.
  - (* SIf *)
    cbn. rewrite ceval_cwt. intros H; inversion H; subst; clear H. exists []. split; reflexivity.
Qed.

Lemma cloc1_cwt g t l tr : cloc1 g t l -> cloc1 (cwt g tr) t l.
Proof. intros L. destruct L. constructor; auto. Qed.

Lemma cloc3_cwt g l st : cloc3 g l -> cloc3 (cwt g (crs_canon st ++ csavedpart l)) l.
Proof.
  intros [H1 H2 H3 H4]. constructor; auto.
  intros E. destruct (H3 E) as (id & Hpend & Hsq & _ & Hlt). exists id. split; [exact Hpend|]. split; [exact Hsq|]. split; [|exact Hlt].
  unfold cq_bounds, csavedpart. rewrite Hpend. cbn [c_trace cwt cset_sh c_persist]. split.
  - intros m Hm. exfalso. destruct st as [[|] [|]]; cbn in Hm; exact Hm.
  - intros _. destruct st as [[|] [|]]; cbn; auto.
Qed.

(* ---------- a step of the sendMutex holder inside the window, from an arbitrary automaton state ---------- *)
Lemma cexec_owner4g t ch g l st rest g' l' inres seen :
  cloc1 g t l -> th_pc l = st :: rest -> a_hs (th_a l) = true -> cloc3 g l -> c_open g = true ->
  crs_wf (inres, seen) ->
  (inres = true -> a_hw (th_a l) = true) ->
  (a_q (th_a l) = QReplay -> exists q0 i, c_q g = q0 ++ [i] /\ citem_first i = false /\ call_first q0) ->
  ((a_q (th_a l) <> QReplay /\ a_q (th_a l) <> QStale) -> call_first (c_q g)) ->
  (inres = true -> seen = true -> call_nonfirst (c_q g)) ->
  (inres = false -> call_noreplay (c_q g)) ->
  cexec t ch g l st rest = Some (g', l') ->
  exists evs, c_trace g' = evs ++ c_trace g /\
  c_wr g' = c_wr g /\
  (a_q (th_a l') = QReplay -> exists q0 i, c_q g' = q0 ++ [i] /\ citem_first i = false /\ call_first q0) /\
  ((a_q (th_a l') <> QReplay /\ a_q (th_a l') <> QStale) -> call_first (c_q g')) /\
  exists seen', crs_run (inres, seen) evs = Some (inres, seen') /\ (inres = true -> seen' = true -> call_nonfirst (c_q g')).
Proof.
  intros L Hpc Hhs L3 Hopen Hwf Hhw Hrep Hfirst Hnf Hnrp Hex.
  set (vtr := crs_canon (inres, seen) ++ csavedpart l).
  destruct (cexec_cwt _ _ _ _ _ _ _ _ vtr Hex) as (evs & Hev & Hex0).
  pose proof (crs_canon_ok (inres, seen) l Hwf) as Hcan. fold vtr in Hcan.
  destruct (cexec_owner4 t ch (cwt g vtr) l st rest (cwt g' (evs ++ vtr)) l' inres seen
              (cloc1_cwt _ _ _ _ L) Hpc Hhs (cloc3_cwt g l (inres, seen) L3) Hopen Hhw Hrep Hfirst Hcan Hnf Hnrp Hex0)
    as (Ewr & Hrep' & Hf' & seen' & Hrs' & Hnf').
  exists evs. split; [exact Hev|]. split; [exact Ewr|]. split; [exact Hrep'|]. split; [exact Hf'|].
  exists seen'. split; [|exact Hnf'].
  cbn [c_trace cwt cset_sh] in Hrs'. rewrite c02_rstate_crs, crs_run_app in Hrs'.
  rewrite <- c02_rstate_crs, Hcan in Hrs'. exact Hrs'.
Qed.

(* ---------- replayed stored messages exist only in the hands of the resend write-lock holder ---------- *)
Definition cpend4 (s : cstate) : Prop :=
  forall t l n id, cthr s t l -> th_pend l = Some (IReplay n id) -> a_hw (th_a l) = true /\ a_ph (th_a l) = PhRBuilt.

Lemma cstep_pend4 sh s t ch s' : check_shape sh = true -> cinv1 s -> cpend4 s -> cstep sh s t ch = Some s' -> cpend4 s'.
Proof.
  intros Hsh I1 Hp Hst.
  pose proof I1 as (G & Ls & Own). unfold cstep in Hst.
  destruct (nth_error (c_ths s) t) as [l|] eqn:Hl; [|discriminate].
  pose proof (Ls t l Hl) as L.
  destruct (th_pc l) as [|st rest] eqn:Hpc.
  - destruct (th_ops l) as [|o os] eqn:Hops; [discriminate|]. inversion Hst; subst s'; clear Hst.
    intros u lu n id Hu Hpe. unfold cthr in Hu. cbn in Hu. destruct (Nat.eq_dec t u) as [->|Hne].
    + rewrite (cupd_nth_eq _ _ _ _ Hl) in Hu. inversion Hu; subst lu. exfalso. revert Hpe. unfold cload.
      destruct (cprog_of sh o) as [[pc m] [mr nr]].
      destruct (match o with OResend b e rejs => (b, e, rejs) | OSetOut _ room => (Z.of_nat room, 0, []) | _ => (0, 0, []) end) as [[b e] rejs].
      cbn. discriminate.
    + rewrite (cupd_nth_ne _ _ _ _ Hne) in Hu. eapply Hp; eauto.
  - destruct (cexec t ch (c_sh s) l st rest) as [[g' l']|] eqn:Hex; [|discriminate]. inversion Hst; subst s'; clear Hst.
    pose proof (cexec_pend4 _ _ _ _ _ _ _ _ Hex) as Hpend.
    pose proof (cexec_ghost _ _ _ _ _ _ _ _ L Hpc Hex) as Hgh.
    intros u lu n id Hu Hpe. unfold cthr in Hu. cbn in Hu. destruct (Nat.eq_dec t u) as [->|Hne];
      [|rewrite (cupd_nth_ne _ _ _ _ Hne) in Hu; eapply Hp; eauto].
    rewrite (cupd_nth_eq _ _ _ _ Hl) in Hu. inversion Hu; subst lu.
    destruct Hgh as [(Hat & a' & Hap & [Ha|[Hst Hll]])|(Hat & Hph & _ & _ & Hhw & Hpe' & _)].
    + destruct st; rewrite Hpend in Hpe; try discriminate Hpe.
      all: try (rewrite Ha; apply (caprim_replaybuild_hw _ _ Hap)).
      all: destruct (Hp u l n id Hl Hpe) as [P1 P2];
        match type of Hap with caprim _ ?st0 = _ =>
          assert (Hne' : st0 <> SAppend) by discriminate;
          destruct (caprim_rbuilt_stays _ _ _ Hap P2 Hne') as [Q1 Q2] end;
        rewrite Ha, Q1, Q2; auto.
    + subst l'. eapply Hp; eauto.
    + rewrite Hpe' in Hpe. destruct (Hp u l n id Hl Hpe) as [P1 P2]. rewrite Hph, Hhw. auto.
Qed.

Lemma cinit_pend4 persist logged open room sess apps : cpend4 (cinit persist logged open room sess apps).
Proof. exact (proj1 (cinit_inv4b persist logged open room sess apps)). Qed.

(* the queue holds no replayed stored message when the write lock is free: one statement *)
Lemma cexec_noreplay4 t ch g l st rest g' l' :
  cloc1 g t l -> cexec t ch g l st rest = Some (g', l') ->
  (forall n id, th_pend l = Some (IReplay n id) -> a_hw (th_a l) = true) ->
  ((forall r, c_wr g <> WHeld r) -> call_noreplay (c_q g)) ->
  (forall r, c_wr g = WHeld r -> c_wr g' = WHeld r) ->
  (forall r, c_wr g' <> WHeld r) -> call_noreplay (c_q g').
Proof.
  intros L Hex Hpe Hq Hkeep Hnow i Hi.
  destruct (cexec_q4 _ _ _ _ _ _ _ _ Hex i Hi) as [Hin|[Hst Hp]].
  - apply Hq; [|exact Hin]. intros r Hr. apply (Hnow r). apply Hkeep. exact Hr.
  - destruct i as [n id|n id|b e]; auto. exfalso.
    pose proof (Hpe n id Hp) as Hw. apply (l1_hw _ _ _ L) in Hw. apply (Hnow t). apply Hkeep. exact Hw.
Qed.

(* what the sendMutex holder can be executing *)
Definition cstmt_owner_ok (st : cstmt) : bool :=
  match st with SAcq _ | SRel MResR | SRel MResW | SSetLogged _ | SSetOut _ => false | _ => true end.
Lemma cowner_stmt t ch g l st rest g' l' :
  cloc1 g t l -> th_pc l = st :: rest -> a_hs (th_a l) = true -> cexec t ch g l st rest = Some (g', l') ->
  cstmt_owner_ok st = true.
Proof.
  intros L Hpc Hhs Hex.
  destruct (cexec_ghost _ _ _ _ _ _ _ _ L Hpc Hex) as [(Hat & a' & Hap & _)|(Hat & _)].
  - destruct (cstmt_owner_ok st) eqn:E; [reflexivity|]. exfalso.
    eapply caprim_hs_impossible; [exact Hhs| |exact Hap]. destruct st; try discriminate E; try reflexivity.
    destruct m; try discriminate E; reflexivity.
  - destruct st; try discriminate Hat; reflexivity.
Qed.

Lemma cowner_wr t ch g l st rest g' l' :
  cstmt_owner_ok st = true -> cexec t ch g l st rest = Some (g', l') -> c_wr g' = c_wr g.
Proof.
  intros Hok Hex. destruct (cexec_wr4 _ _ _ _ _ _ _ _ Hex) as [E|[E|[E _]]]; [exact E| |]; subst st; discriminate Hok.
Qed.

(* markers in the instrumented automaton *)
Lemma crconn_mark open0 st r op win rs :
  c02_rstate_conn open0 r = Some ((op, win), rs) ->
  c02_rstate_conn open0 (gmark st ++ r) =
    Some (match st with SSetOut b => (b, b && op && win) | _ => (op, win) end, rs).
Proof. intros H. destruct st; cbn; rewrite H; reflexivity. Qed.

(* ---------- the invariant ---------- *)
Definition cwin4 (s : cstate) (inres seen : bool) : Prop :=
  c_open (c_sh s) = true /\
  (forall t l, cthr s t l -> a_q (th_a l) = QReplay ->
               exists q0 i, c_q (c_sh s) = q0 ++ [i] /\ citem_first i = false /\ call_first q0) /\
  ((forall t l, cthr s t l -> a_q (th_a l) <> QReplay /\ a_q (th_a l) <> QStale) -> call_first (c_q (c_sh s))) /\
  (inres = true -> seen = true -> call_nonfirst (c_q (c_sh s))) /\
  ((forall r, c_wr (c_sh s) <> WHeld r) -> call_noreplay (c_q (c_sh s))).

Definition ginv4 (open0 : bool) (gs : gstate) : Prop :=
  exists op win inres seen,
    c02_rstate_conn open0 (g_tr gs) = Some ((op, win), (inres, seen)) /\
    op = c_open (c_sh (g_s gs)) /\
    (inres = true <-> exists t, c_wr (c_sh (g_s gs)) = WHeld t) /\
    crs_wf (inres, seen) /\
    (win = true -> cwin4 (g_s gs) inres seen).

(* ---------- one instrumented step ---------- *)
Lemma gstep0_inv4 sh open0 gs t ch gs' :
  check_shape sh = true -> cinv1 (g_s gs) -> cinv3 (g_s gs) -> cpend4 (g_s gs) -> ginv4 open0 gs ->
  gstep0 sh gs t ch = Some gs' -> ginv4 open0 gs'.
Proof.
  intros Hsh I1 (_ & Ls3 & _) Hp4 (op & win & inres & seen & Hrs & Hop & Hin & Hwf & Hwin) Hgst.
  destruct (gstep0_inv _ _ _ _ _ Hgst) as (evs & Hst & Hev & Htr). clear Hgst.
  destruct gs as [s gtr]. destruct gs' as [s' gtr']. unfold ginv4. cbn [g_s g_tr] in *.
  pose proof I1 as (G & Ls & Own). unfold cstep in Hst.
  destruct (nth_error (c_ths s) t) as [l|] eqn:Hl; [|discriminate].
  pose proof (Ls t l Hl) as L. pose proof (Ls3 t l Hl) as L3.
  destruct (th_pc l) as [|st rest] eqn:Hpc.
  - (* starting an operation *)
    destruct (th_ops l) as [|o os] eqn:Hops; [discriminate|]. inversion Hst; subst s'; clear Hst.
    cbn [c_sh] in Hev. symmetry in Hev. apply cext_nil in Hev. subst evs.
    rewrite (gghost_load s t l o os Hl Hpc Hops) in Htr. cbn [map app] in Htr. subst gtr'.
    pose proof (l1_safe _ _ _ L) as Hs. rewrite Hpc in Hs. cbn in Hs. inversion Hs as [Hfin]; clear Hs.
    exists op, win, inres, seen. split; [cbn [c02_rstate_conn]; rewrite Hrs; reflexivity|].
    cbn [c_sh]. split; [exact Hop|split; [exact Hin|split; [exact Hwf|]]].
    intros Hw. destruct (Hwin Hw) as (W0 & W1 & W2 & W3 & W4).
    split; [exact W0|split; [|split; [|split; [exact W3|exact W4]]]]; cbn [c_sh c_ths].
    + intros u lu Hu Hq. unfold cthr in Hu. cbn in Hu. destruct (Nat.eq_dec t u) as [->|Hne].
      * rewrite (cupd_nth_eq _ _ _ _ Hl) in Hu. inversion Hu; subst lu. exfalso. revert Hq. unfold cload.
        destruct (cprog_of sh o) as [[pc m] [mr nr]].
        destruct (match o with OResend b e rejs => (b, e, rejs) | OSetOut _ room => (Z.of_nat room, 0, []) | _ => (0, 0, []) end) as [[b e] rejs].
        cbn. discriminate.
      * rewrite (cupd_nth_ne _ _ _ _ Hne) in Hu. apply (W1 u lu Hu Hq).
    + intros Hp. apply W2. intros u lu Hu. destruct (Nat.eq_dec t u) as [->|Hne].
      * unfold cthr in Hu. rewrite Hl in Hu. inversion Hu; subst lu. rewrite Hfin. cbn. split; discriminate.
      * apply (Hp u lu). unfold cthr. cbn. rewrite (cupd_nth_ne _ _ _ _ Hne). exact Hu.
  - (* one statement *)
    destruct (cexec t ch (c_sh s) l st rest) as [[g' l']|] eqn:Hex; [|discriminate]. inversion Hst; subst s'; clear Hst.
    cbn [c_sh] in Hev.
    rewrite (gghost_exec' s t l st rest Hl Hpc) in Htr. subst gtr'.
    pose proof (cexec_env _ _ _ _ _ _ _ _ Hex) as [Henv _].
    pose (s1 := {| c_sh := g'; c_ths := cupd (c_ths s) t l' |}).
    assert (Hself : nth_error (cupd (c_ths s) t l') t = Some l') by (apply (cupd_nth_eq _ _ _ _ Hl)).
    assert (Hothers : forall u lu, u <> t -> (nth_error (cupd (c_ths s) t l') u = Some lu <-> nth_error (c_ths s) u = Some lu)).
    { intros u lu Hne. rewrite (cupd_nth_ne _ _ _ _ (not_eq_sym Hne)). tauto. }
    assert (Hnrp0 : win = true -> inres = false -> call_noreplay (c_q (c_sh s))).
    { intros Hw Hi. destruct (Hwin Hw) as (_ & _ & _ & _ & W4). apply W4. intros r Hr.
      assert (inres = true) by (apply Hin; eauto). congruence. }
    destruct (a_hs (th_a l)) eqn:Hhs.
    + (* the sendMutex holder moves *)
      pose proof (cowner_stmt _ _ _ _ _ _ _ _ L Hpc Hhs Hex) as Hok.
      pose proof (cowner_wr _ _ _ _ _ _ _ _ Hok Hex) as Ewr.
      assert (Eopen : c_open g' = c_open (c_sh s)) by (destruct st; try discriminate Hok; exact Henv).
      assert (Hnm : Forall (fun e => cev_nomark e = true) evs).
      { eapply cexec_nomark; eauto. destruct st; try reflexivity; destruct m; try reflexivity; discriminate Hok. }
      assert (Hoth : forall u lu, u <> t -> cthr s u lu -> a_q (th_a lu) = QUnknown).
      { intros u lu Hne Hu. destruct (a_hs (th_a lu)) eqn:E.
        - apply (l1_hs _ _ _ (Ls u lu Hu)) in E. apply (l1_hs _ _ _ L) in Hhs. congruence.
        - apply (cnohs_abs _ (l1_wf _ _ _ (Ls u lu Hu)) E). }
      assert (Hin' : forall i : bool, i = inres -> (i = true <-> exists r, c_wr g' = WHeld r)).
      { intros i ->. rewrite Ewr. exact Hin. }
      (* any statement under sendMutex *)
      assert (Hgm : gmark st = []) by (destruct st; try discriminate Hok; reflexivity).
        rewrite Hgm. cbn [app].
        rewrite (crconn_GE open0 evs gtr op win (inres, seen) Hrs).
        destruct win.
        -- (* inside the window *)
           destruct (Hwin eq_refl) as (W0 & W1 & W2 & W3 & W4).
           assert (Hw : inres = true -> a_hw (th_a l) = true).
           { intros Hi. apply Hin in Hi. destruct Hi as [r Hr]. eapply cowner_is_writer; eauto. }
           assert (Hf : (a_q (th_a l) <> QReplay /\ a_q (th_a l) <> QStale) -> call_first (c_q (c_sh s))).
           { intros Hp. apply W2. intros u lu Hu. destruct (Nat.eq_dec u t) as [->|Hne].
             - unfold cthr in Hu. rewrite Hl in Hu. inversion Hu; subst. exact Hp.
             - rewrite (Hoth u lu Hne Hu). split; discriminate. }
           destruct (cexec_owner4g _ _ _ _ _ _ _ _ inres seen L Hpc Hhs L3 W0 Hwf Hw (W1 t l Hl) Hf W3 (Hnrp0 eq_refl) Hex)
             as (evs' & Hev' & _ & Hrep' & Hf' & seen' & Hrun & Hnf').
           rewrite Hev in Hev'. apply cext_eq in Hev'. subst evs'. rewrite Hrun.
           exists op, true, inres, seen'. split; [reflexivity|]. cbn [g_s c_sh].
           split; [congruence|split; [apply Hin'; reflexivity|split]].
           ++ pose proof (crs_run_upds _ _ _ Hrun) as E. rewrite E. apply crs_upds_wf. exact Hwf.
           ++ intros _. unfold cwin4. cbn [c_sh]. split; [congruence|split; [|split; [|split; [exact Hnf'|]]]].
              ** intros u lu Hu Hq. unfold cthr in Hu; cbn [c_ths] in Hu. destruct (Nat.eq_dec u t) as [->|Hne].
                 --- rewrite Hself in Hu. inversion Hu; subst lu. auto.
                 --- apply (Hothers u lu Hne) in Hu. rewrite (Hoth u lu Hne Hu) in Hq. discriminate Hq.
              ** intros Hp. apply Hf'. apply (Hp t l' Hself).
              ** apply (cexec_noreplay4 _ _ _ _ _ _ _ _ L Hex); auto.
                 --- intros n id Hpe. apply (Hp4 t l n id Hl Hpe).
                 --- intros r Hr. congruence.
        -- (* outside the window: only the bookkeeping *)
           pose proof (crs_upds_fst (inres, seen) evs Hnm) as Ef. pose proof (crs_upds_wf (inres, seen) evs Hwf) as Ewf.
           destruct (crs_upds (inres, seen) evs) as [i2 sn2]. cbn [fst] in Ef. subst i2.
           exists op, false, inres, sn2. split; [reflexivity|]. cbn [g_s c_sh].
           split; [congruence|split; [apply Hin'; reflexivity|split; [exact Ewf|discriminate]]].
    + (* a thread outside the critical section moves *)
      destruct (cexec_nonowner4 _ _ _ _ _ _ _ _ L Hpc Hhs Hex) as (Eq & Eaq & Htrc).
      assert (Hndq : st <> SDropQ).
      { intros ->. destruct (cexec_ghost _ _ _ _ _ _ _ _ L Hpc Hex) as [(_ & a' & Hap & _)|(Hx & _)]; [|discriminate Hx].
        cbn in Hap. rewrite Hhs in Hap. discriminate Hap. }
      assert (Hlq : a_q (th_a l) = QUnknown) by (apply (cnohs_abs _ (l1_wf _ _ _ L) Hhs)).
      (* the queue part of the window facts is untouched *)
      assert (Hkeep : forall i sn, cwin4 s i sn -> c_open g' = true ->
                 (forall i' sn', (i' = true -> sn' = true -> call_nonfirst (c_q g')) ->
                                 ((forall r, c_wr g' <> WHeld r) -> call_noreplay (c_q g')) -> cwin4 s1 i' sn')).
      { intros i sn (W0 & W1 & W2 & W3 & W4) Ho i' sn' H3 H4.
        unfold cwin4, s1. cbn [c_sh]. split; [exact Ho|split; [|split; [|split; [exact H3|exact H4]]]]; rewrite Eq.
        - intros u lu Hu Hq. unfold cthr in Hu; cbn [c_ths] in Hu. destruct (Nat.eq_dec u t) as [->|Hne].
          + rewrite Hself in Hu. inversion Hu; subst lu. rewrite Eaq in Hq. discriminate Hq.
          + apply (Hothers u lu Hne) in Hu. apply (W1 u lu Hu Hq).
        - intros Hp. apply W2. intros u lu Hu. destruct (Nat.eq_dec u t) as [->|Hne].
          + unfold cthr in Hu. rewrite Hl in Hu. inversion Hu; subst lu. rewrite Hlq. split; discriminate.
          + apply (Hp u lu). apply (proj2 (Hothers u lu Hne)). exact Hu. }
      destruct Htrc as [[Et Ew]|[[Et [Ew Hno]]|[Et Ew]]]; rewrite Et in Hev; symmetry in Hev.
      * (* no event *)
        apply cext_nil in Hev. subst evs. cbn [map app].
        rewrite (crconn_mark open0 st gtr op win (inres, seen) Hrs).
        assert (Hin' : inres = true <-> exists r, c_wr g' = WHeld r).
        { rewrite Hin. split; intros [r Hr]; exists r; apply Ew; exact Hr. }
        exists (fst (match st with SSetOut b => (b, b && op && win) | _ => (op, win) end)),
               (snd (match st with SSetOut b => (b, b && op && win) | _ => (op, win) end)), inres, seen.
        rewrite <- surjective_pairing. split; [reflexivity|]. cbn [g_s c_sh].
        split; [destruct st; cbn; congruence|split; [exact Hin'|split; [exact Hwf|]]].
        intros Hw'.
        assert (Hw : win = true /\ c_open g' = true).
        { destruct st as [| | | | | | | | | | | | | | | | | |b0]; cbn in Hw', Henv;
            try (split; [exact Hw'|]; destruct (Hwin Hw') as [W0 _]; congruence).
          destruct b0; [|discriminate Hw']. destruct op; [|discriminate Hw']. cbn in Hw'. split; congruence. }
        destruct Hw as [Hw Ho]. pose proof (Hwin Hw) as Wn.
        apply (Hkeep inres seen Wn Ho); rewrite Eq.
        -- apply Wn.
        -- intros Hnow. apply Wn. intros r Hr. apply (Hnow r). apply Ew. exact Hr.
      * (* resendMessages takes the write lock *)
        apply (cext_eq evs [_]) in Hev. subst evs.
        assert (Hst : st = SAcq MResW).
        { destruct (cstmt_resw st) eqn:E.
          - destruct st; try discriminate E; destruct m; try discriminate E.
            + reflexivity.
            + exfalso. revert Hex. cbn. intros H; inversion H; subst. cbn in Ew. discriminate Ew.
          - exfalso. pose proof (cexec_nomark _ _ _ _ _ _ _ _ [EvResendBegin] Hex Et E) as Hall. inversion Hall. discriminate. }
        subst st. cbn [gmark map app c02_rstate_conn]. rewrite Hrs. cbn [crs_bad]. rewrite andb_false_r. cbn [crs_upd].
        exists op, win, true, false. split; [reflexivity|]. cbn [g_s c_sh].
        split; [congruence|split; [split; eauto|split; [intros E; discriminate E|]]].
        intros Hw. pose proof (Hwin Hw) as Wn.
        apply (Hkeep inres seen Wn); [destruct Wn; congruence| |].
        -- intros _ E; discriminate E.
        -- intros Hnow. exfalso. apply (Hnow t). exact Ew.
      * (* resendMessages releases the write lock *)
        apply (cext_eq evs [_]) in Hev. subst evs.
        assert (Hst : st = SRel MResW).
        { destruct (cstmt_resw st) eqn:E.
          - destruct st; try discriminate E; destruct m; try discriminate E.
            + exfalso. revert Hex. cexec_cases t (c_sh s) l; intros H; inversion H; subst; cbn in Et;
                try (apply (f_equal (@length cev)) in Et; cbn in Et; lia); try discriminate Et.
            + reflexivity.
          - exfalso. pose proof (cexec_nomark _ _ _ _ _ _ _ _ [EvResendEnd] Hex Et E) as Hall. inversion Hall. discriminate. }
        subst st. cbn [gmark map app c02_rstate_conn]. rewrite Hrs. cbn [crs_bad]. rewrite andb_false_r. cbn [crs_upd].
        exists op, win, false, false. split; [reflexivity|]. cbn [g_s c_sh].
        split; [congruence|split; [split; [discriminate|intros [r Hr]; congruence]|split; [intros _; reflexivity|]]].
        intros Hw. pose proof (Hwin Hw) as Wn.
        apply (Hkeep inres seen Wn); [destruct Wn; congruence| |].
        -- intros E; discriminate E.
        -- intros _. rewrite Eq.
           (* the releasing thread is the writer; nobody holds sendMutex with a replay pending: the queue is all first-time *)
           destruct Wn as (_ & _ & W2 & _ & _).
           destruct (cexec_ghost _ _ _ _ _ _ _ _ L Hpc Hex) as [(_ & a' & Hap & _)|(Hx & _)]; [|discriminate Hx].
           destruct (caprim_lock_bits _ MResW false _ Hap) as (B0 & _ & _ & _).
           pose proof (proj1 (l1_hw _ _ _ L) B0) as Hwr.
           assert (Hall : call_first (c_q (c_sh s))).
           { apply W2. intros u lu Hu. destruct (a_hs (th_a lu)) eqn:E.
             - destruct (cowner_is_writer s u lu t I1 Hu E Hwr) as [-> _].
               unfold cthr in Hu. rewrite Hl in Hu. inversion Hu; subst. congruence.
             - destruct (cnohs_abs _ (l1_wf _ _ _ (Ls u lu Hu)) E) as [_ ->]. split; discriminate. }
           intros i Hi. specialize (Hall i Hi). destruct i; cbn in *; auto; discriminate.
Qed.

(* ---------- a thread that has just appended a replay item sees a non-empty toSend ---------- *)
Definition cinvR (s : cstate) : Prop :=
  forall t l, cthr s t l -> a_q (th_a l) = QReplay -> c_q (c_sh s) <> [].

Lemma cstep_invR sh s t ch s' :
  check_shape sh = true -> cinv1 s -> cinv3 s -> cinvR s -> cstep sh s t ch = Some s' -> cinvR s'.
Proof.
  intros Hsh I1 (_ & Ls3 & _) IR Hst.
  pose proof I1 as (G & Ls & Own). unfold cstep in Hst.
  destruct (nth_error (c_ths s) t) as [l|] eqn:Hl; [|discriminate].
  pose proof (Ls t l Hl) as L. pose proof (Ls3 t l Hl) as L3.
  destruct (th_pc l) as [|st rest] eqn:Hpc.
  - destruct (th_ops l) as [|o os] eqn:Hops; [discriminate|]. inversion Hst; subst s'; clear Hst.
    intros u lu Hu Hq. unfold cthr in Hu. cbn in Hu. cbn [c_sh]. destruct (Nat.eq_dec t u) as [->|Hne].
    + rewrite (cupd_nth_eq _ _ _ _ Hl) in Hu. inversion Hu; subst lu. exfalso. revert Hq. unfold cload.
      destruct (cprog_of sh o) as [[pc m] [mr nr]].
      destruct (match o with OResend b e rejs => (b, e, rejs) | OSetOut _ room => (Z.of_nat room, 0, []) | _ => (0, 0, []) end) as [[b e] rejs].
      cbn. discriminate.
    + rewrite (cupd_nth_ne _ _ _ _ Hne) in Hu. apply (IR u lu Hu Hq).
  - destruct (cexec t ch (c_sh s) l st rest) as [[g' l']|] eqn:Hex; [|discriminate]. inversion Hst; subst s'; clear Hst.
    intros u lu Hu Hq. unfold cthr in Hu. cbn [c_ths] in Hu. cbn [c_sh].
    destruct (a_hs (th_a l)) eqn:Hhs.
    + (* the sendMutex holder moves: nobody else has a view of the queue *)
      assert (Hoth : forall v lv, v <> t -> cthr s v lv -> a_q (th_a lv) = QUnknown).
      { intros v lv Hne Hv. destruct (a_hs (th_a lv)) eqn:E.
        - apply (l1_hs _ _ _ (Ls v lv Hv)) in E. apply (l1_hs _ _ _ L) in Hhs. congruence.
        - apply (cnohs_abs _ (l1_wf _ _ _ (Ls v lv Hv)) E). }
      destruct (Nat.eq_dec t u) as [->|Hne];
        [|rewrite (cupd_nth_ne _ _ _ _ Hne) in Hu; rewrite (Hoth u lu (not_eq_sym Hne) Hu) in Hq; discriminate Hq].
      rewrite (cupd_nth_eq _ _ _ _ Hl) in Hu. inversion Hu; subst lu.
      destruct (cclassA st) eqn:HA.
      * destruct (cexec_eff4A _ _ _ _ _ _ _ _ HA Hex) as (E1 & _ & _). rewrite E1. apply (IR u l Hl).
        destruct (cexec_ghost _ _ _ _ _ _ _ _ L Hpc Hex) as [(Hat & a' & Hap & [Ha|[Hx _]])|(Hat & _ & Hqq & _)].
        -- rewrite Ha in Hq. eapply caprim_q_mono; eauto.
        -- subst st. discriminate HA.
        -- congruence.
      * destruct (cexec_ghost _ _ _ _ _ _ _ _ L Hpc Hex) as [(Hat & a' & Hap & [Ha|[Hx _]])|(Hat & _)];
          [| subst st; exfalso; eapply caprim_hs_impossible; [| |exact Hap]; [exact Hhs|reflexivity]
           | destruct st; discriminate].
        pose proof (cexec_eff3 _ _ _ _ _ _ _ _ Hex) as Heff.
        destruct st; try discriminate HA; try discriminate Hat;
          try (exfalso; eapply caprim_hs_impossible; [| |exact Hap]; [exact Hhs|reflexivity]).
        -- destruct m; try discriminate HA; (exfalso; eapply caprim_hs_impossible; [| |exact Hap]; [exact Hhs|reflexivity]).
        -- (* SAppend *)
           destruct (caprim_append_inv4 _ _ Hap) as (_ & _ & [[_ Pq]|[Pp _]]); [rewrite Ha, Pq in Hq; discriminate Hq|].
           destruct Heff as (_ & _ & _ & E4). destruct (l3_rbuilt _ _ L3 Pp) as (i0 & Hpend & _). rewrite Hpend in E4.
           rewrite E4. intros E. symmetry in E. apply app_cons_not_nil in E. exact E.
        -- (* SFlush *)
           destruct (caprim_flush_inv4 _ _ _ Hap) as (_ & P2 & _). rewrite Ha, P2 in Hq. discriminate Hq.
        -- (* SDropQ *)
           destruct (caprim_dropq_inv _ _ Hap) as (_ & P2). rewrite Ha, P2 in Hq. discriminate Hq.
    + destruct (cexec_nonowner4 _ _ _ _ _ _ _ _ L Hpc Hhs Hex) as (Eq & Eaq & _). rewrite Eq.
      destruct (Nat.eq_dec t u) as [->|Hne].
      * rewrite (cupd_nth_eq _ _ _ _ Hl) in Hu. inversion Hu; subst lu. rewrite Eaq in Hq. discriminate Hq.
      * rewrite (cupd_nth_ne _ _ _ _ Hne) in Hu. apply (IR u lu Hu Hq).
Qed.

Lemma cinit_invR persist logged open room sess apps : cinvR (cinit persist logged open room sess apps).
Proof.
  intros t l Hl Hq. exfalso. unfold cthr in Hl. cbn in Hl. destruct t as [|t]; cbn in Hl.
  - inversion Hl; subst. discriminate Hq.
  - rewrite nth_error_map in Hl. destruct (nth_error apps t); [|discriminate]. inversion Hl; subst. discriminate Hq.
Qed.

(* ---------- the marker "toSend is empty now" (re)starts the window if connected ---------- *)
Lemma ginv4_qempty open0 s tr :
  cinvR s -> c_q (c_sh s) = [] -> ginv4 open0 {| g_s := s; g_tr := tr |} -> ginv4 open0 {| g_s := s; g_tr := GQEmpty :: tr |}.
Proof.
  intros IR Hq (op & win & inres & seen & Hrs & Hop & Hin & Hwf & _). cbn [g_s g_tr] in *.
  exists op, op, inres, seen. cbn [g_s g_tr c02_rstate_conn]. rewrite Hrs.
  split; [reflexivity|split; [exact Hop|split; [exact Hin|split; [exact Hwf|]]]].
  intros Ho. unfold cwin4. rewrite Hq.
  split; [congruence|split; [|split; [intros _ i []|split; [intros _ _ i []|intros _ i []]]]].
  intros t l Hl Hr. exfalso. apply (IR t l Hl Hr). exact Hq.
Qed.

Lemma gstep_inv4 sh open0 gs t ch gs' :
  check_shape sh = true -> cinv1 (g_s gs) -> cinv3 (g_s gs) -> cpend4 (g_s gs) -> cinvR (g_s gs) -> ginv4 open0 gs ->
  gstep sh gs t ch = Some gs' -> ginv4 open0 gs'.
Proof.
  intros Hsh I1 I3 Hp4 IR I4 Hgst.
  destruct (gstep_split _ _ _ _ _ Hgst) as (gs0 & H0 & Es & Et).
  pose proof (gstep0_inv4 _ _ _ _ _ _ Hsh I1 I3 Hp4 I4 H0) as I4'.
  destruct (gstep0_inv _ _ _ _ _ H0) as (evs & Hst & _ & _).
  pose proof (cstep_invR _ _ _ _ _ Hsh I1 I3 IR Hst) as IR'.
  destruct gs' as [s' gtr']. destruct gs0 as [s0 gtr0]. cbn [g_s g_tr] in *. subst s' gtr'.
  destruct (gpost_cases (g_s gs) t s0) as [-> |[-> Hq]]; [exact I4'|].
  apply ginv4_qempty; auto.
Qed.
