(* C02 — clauses (5) and (6) over the instrumented semantics: main theorems, for every shape passing the checks,
   then for the generated shape; the instrumentation is faithful (simulation in both directions); the unrestricted
   form of clause (5) is false of the model (regression example), which is why the window is part of the statement. *)
From Coq Require Import ZArith List Bool Lia Arith.
From QF Require Import Conc.ShapeLang Conc.SendConc Conc.ConcSpec Conc.ConcInv1 Conc.ConcStep1 Conc.ConcStep2
  Conc.ConcInv3 Conc.ConcStep3 Conc.ConcStep4 Conc.ConcStep5 Conc.ConcMain
  Conc.SendConcG Conc.ConcSpecG Conc.ConcStepG Conc.ConcStep4G Conc.ConcStep5G Gen.SendShape.
Import ListNotations.
Open Scope Z_scope.

Lemma gstep_cstep sh gs t ch gs' : gstep sh gs t ch = Some gs' -> cstep sh (g_s gs) t ch = Some (g_s gs').
Proof. intros H. destruct (gstep_inv _ _ _ _ _ H) as (evs & Hst & _). exact Hst. Qed.

(* ---------- clause (5) ---------- *)
(* For every instrumented run — any initial connection state, any connects and disconnects in the session program —
   the automaton of clause (5) never fails inside a window in which the connection has stayed open since toSend was
   last seen empty. *)
Theorem c02g_replay_of_shape sh persist logged open room sess apps sched gs :
  check_shape sh = true -> forallb cop_ok sess = true -> cmsgs_ok apps = true ->
  greach sh (ginit (cinit persist logged open room sess apps)) sched gs ->
  c02_replay_excl_conn open (g_tr gs).
Proof.
  intros Hsh Hs Ha Hr.
  assert (I : cinv_all (g_s gs) /\ cpend4 (g_s gs) /\ cinvR (g_s gs) /\ ginv4 open gs).
  { eapply (grun_inv (fun gs => cinv_all (g_s gs) /\ cpend4 (g_s gs) /\ cinvR (g_s gs) /\ ginv4 open gs) sh); [| |exact Hr].
    - intros gs0 t ch gs1 (J1 & Jp & JR & J4) Hst. pose proof (gstep_cstep _ _ _ _ _ Hst) as Hc.
      split; [eapply cstep_inv_all; eauto|]. destruct J1 as (K1 & K2 & K3).
      split; [eapply cstep_pend4; eauto|split; [eapply cstep_invR; eauto|eapply gstep_inv4; eauto]].
    - split; [split; [apply cinit_inv1; auto|split; [apply cinit_inv2|apply cinit_inv3]]|].
      split; [apply cinit_pend4|]. split; [apply cinit_invR|].
      exists open, open, false, false. cbn. split; [reflexivity|split; [reflexivity|split; [|split; [intros _; reflexivity|]]]].
      + split; [discriminate|intros [r Hr0]; discriminate].
      + intros Ho. split; [exact Ho|split; [|split; [intros _ i []|split; [intros _ _ i []|intros _ i []]]]].
        intros t l Hl Hq. exfalso. unfold cthr in Hl. cbn in Hl. destruct t as [|t]; cbn in Hl.
        * inversion Hl; subst. discriminate Hq.
        * rewrite nth_error_map in Hl. destruct (nth_error apps t); [|discriminate]. inversion Hl; subst. discriminate Hq. }
  destruct I as (_ & _ & _ & (op & win & inres & seen & Hrs & _)). unfold c02_replay_excl_conn. rewrite Hrs. discriminate.
Qed.

(* ---------- clause (6) ---------- *)
Lemma cacc6_conserved s w :
  cinv1 s -> cinv3 s -> (forall n, In n (c02_epoch_assigned w) -> cacc6 s w n) -> c02_conserved s w.
Proof.
  intros I1 (_ & Ls3 & _) H n Hn. destruct (H n Hn) as [H1|[H2|(t & l & Hl & Hph & Hsq)]]; [left; exact H1|right; left; exact H2|].
  right. right. destruct (l3_saved _ _ (Ls3 t l Hl) Hph) as (id & Hpend & _).
  exists t, l, id. split; [exact Hl|]. split; [|rewrite <- Hsq; exact Hpend].
  apply (ccrit_owner s t l I1 Hl). rewrite Hph. reflexivity.
Qed.

(* In every logged-on window of every instrumented run no non-empty queue is dropped, and every number consumed in
   the window is on the wire, in toSend, or in the hands of the sendMutex holder. *)
Lemma greach_invs6 sh persist logged open room sess apps sched gs :
  check_shape sh = true -> check_shape_logged sh = true -> forallb cop_ok sess = true -> cmsgs_ok apps = true ->
  greach sh (ginit (cinit persist logged open room sess apps)) sched gs ->
  cinv_all (g_s gs) /\ cinv6a (g_s gs) /\ ginv6 logged gs.
Proof.
  intros Hsh Hshl Hs Ha Hr.
  eapply (grun_inv (fun gs => cinv_all (g_s gs) /\ cinv6a (g_s gs) /\ ginv6 logged gs) sh); [| |exact Hr].
  - intros gs0 t ch gs1 (J1 & Ja & J6) Hst. pose proof (gstep_cstep _ _ _ _ _ Hst) as Hc.
    split; [eapply cstep_inv_all; eauto|]. destruct J1 as (K1 & K2 & K3).
    split; [eapply cstep_inv6a; eauto|eapply gstep_inv6; eauto].
  - split; [split; [apply cinit_inv1; auto|split; [apply cinit_inv2|apply cinit_inv3]]|].
    split; [apply cinit_inv6a|apply ginit_inv6].
Qed.

Theorem c02g_conserved_of_shape sh persist logged open room sess apps sched gs w :
  check_shape sh = true -> check_shape_logged sh = true -> forallb cop_ok sess = true -> cmsgs_ok apps = true ->
  greach sh (ginit (cinit persist logged open room sess apps)) sched gs ->
  c02_logged_window logged (g_tr gs) = Some w ->
  ~ In EvDrop w /\ c02_conserved (g_s gs) w.
Proof.
  intros Hsh Hshl Hs Ha Hr Hw.
  destruct (greach_invs6 _ _ _ _ _ _ _ _ _ Hsh Hshl Hs Ha Hr) as ((I1 & _ & I3) & _ & I6).
  destruct (I6 w Hw) as (_ & _ & Hnd & Hacc).
  split; [exact Hnd|]. apply cacc6_conserved; auto.
Qed.

(* the step form of flush completeness (c02_flush_complete_partial) with its no-drop hypothesis replaced by "the step
   ends inside a logged-on window": right after a sendQueued that could send everything, every number consumed in the
   window is on the wire *)
Theorem c02g_flush_step_of_shape sh persist logged open room sess apps sched gs t ch gs' l b rest w :
  check_shape sh = true -> check_shape_logged sh = true -> forallb cop_ok sess = true -> cmsgs_ok apps = true ->
  greach sh (ginit (cinit persist logged open room sess apps)) sched gs ->
  cthr (g_s gs) t l -> th_pc l = SFlush b :: rest -> gstep sh gs t ch = Some gs' ->
  c_open (c_sh (g_s gs)) = true -> (b = true \/ (length (c_q (c_sh (g_s gs))) <= c_room (c_sh (g_s gs)))%nat) ->
  c02_logged_window logged (g_tr gs') = Some w ->
  forall n, In n (c02_epoch_assigned w) -> In n (c02_epoch_firsts w).
Proof.
  intros Hsh Hshl Hs Ha Hr Hl Hpc Hgst Hopen Hroom Hw n Hn.
  destruct (greach_invs6 _ _ _ _ _ _ _ _ _ Hsh Hshl Hs Ha Hr) as (IA & Ia & I6).
  pose proof IA as (I1 & I2 & I3).
  assert (I6' : ginv6 logged gs') by (eapply gstep_inv6; eauto).
  pose proof (gstep_cstep _ _ _ _ _ Hgst) as Hst.
  destruct (I6' w Hw) as (_ & _ & _ & Hacc).
  pose proof I1 as (G & Ls & Own). pose proof (Ls t l Hl) as L.
  unfold cstep in Hst. unfold cthr in Hl. rewrite Hl, Hpc in Hst. cbn in Hst.
  pose proof (l1_safe _ _ _ L) as Hsafe. rewrite Hpc in Hsafe.
  destruct (csafe_atom (SFlush b) rest _ _ eq_refl Hsafe) as (a' & Hap & _ & Hgh).
  destruct (caprim_flush_inv _ _ _ Hap) as (P1 & P2 & P3 & P4).
  assert (Hhs : a_hs (th_a l) = true).
  { cbn in Hap. destruct (a_hs (th_a l)); [reflexivity|discriminate Hap]. }
  assert (Hq : c_q (cflush (c_sh (g_s gs)) b) = []).
  { unfold cflush. rewrite Hopen. cbn. destruct b; cbn; [reflexivity|].
    destruct Hroom as [Hb|Hb]; [discriminate|]. rewrite Nat.min_r by exact Hb. apply skipn_all. }
  inversion Hst as [Hs']; clear Hst.
  destruct (Hacc n Hn) as [H|[[id H]|(u & lu & H1 & H2 & H3)]].
  - exact H.
  - rewrite <- Hs' in H. cbn in H. rewrite Hq in H. destruct H.
  - exfalso. rewrite <- Hs' in H1. unfold cthr in H1. cbn in H1. destruct (Nat.eq_dec t u) as [->|Hne].
    + rewrite (cupd_nth_eq _ _ _ _ Hl) in H1. inversion H1; subst lu. cbn in H2. rewrite Hgh in H2. congruence.
    + rewrite (cupd_nth_ne _ _ _ _ Hne) in H1.
      assert (Hc : cph_crit (a_ph (th_a lu)) = true) by (rewrite H2; reflexivity).
      pose proof (ccrit_owner (g_s gs) u lu I1 H1 Hc) as Ho. apply (l1_hs _ _ _ L) in Hhs. congruence.
Qed.

(* flush completeness inside the window: when toSend is empty and nobody is inside the sendMutex critical section,
   every number consumed in the window has been transmitted *)
Theorem c02g_quiescent_of_shape sh persist logged open room sess apps sched gs w :
  check_shape sh = true -> check_shape_logged sh = true -> forallb cop_ok sess = true -> cmsgs_ok apps = true ->
  greach sh (ginit (cinit persist logged open room sess apps)) sched gs ->
  c02_logged_window logged (g_tr gs) = Some w ->
  c_q (c_sh (g_s gs)) = [] -> c_owner (c_sh (g_s gs)) = None ->
  forall n, In n (c02_epoch_assigned w) -> In n (c02_epoch_firsts w).
Proof.
  intros Hsh Hshl Hs Ha Hr Hw Hq Ho n Hn.
  destruct (c02g_conserved_of_shape _ _ _ _ _ _ _ _ _ _ Hsh Hshl Hs Ha Hr Hw) as [_ Hc].
  destruct (Hc n Hn) as [H|[[id H]|(t & l & id & _ & H & _)]]; [exact H| |].
  - rewrite Hq in H. destruct H.
  - rewrite Ho in H. discriminate H.
Qed.

(* ---------- the generated shape ---------- *)
Lemma shape_logged_ok : check_shape_logged gen_send_shape = true.
Proof. vm_compute. reflexivity. Qed.

Theorem c02g_replay_gen persist logged open room sess apps sched gs :
  forallb cop_ok sess = true -> cmsgs_ok apps = true ->
  greach gen_send_shape (ginit (cinit persist logged open room sess apps)) sched gs ->
  c02_replay_excl_conn open (g_tr gs).
Proof. intros. eapply c02g_replay_of_shape; eauto. apply shape_ok. Qed.

Theorem c02g_conserved_gen persist logged open room sess apps sched gs w :
  forallb cop_ok sess = true -> cmsgs_ok apps = true ->
  greach gen_send_shape (ginit (cinit persist logged open room sess apps)) sched gs ->
  c02_logged_window logged (g_tr gs) = Some w ->
  ~ In EvDrop w /\ c02_conserved (g_s gs) w.
Proof. intros. eapply c02g_conserved_of_shape; eauto. apply shape_ok. apply shape_logged_ok. Qed.

Theorem c02g_flush_step_gen persist logged open room sess apps sched gs t ch gs' l b rest w :
  forallb cop_ok sess = true -> cmsgs_ok apps = true ->
  greach gen_send_shape (ginit (cinit persist logged open room sess apps)) sched gs ->
  cthr (g_s gs) t l -> th_pc l = SFlush b :: rest -> gstep gen_send_shape gs t ch = Some gs' ->
  c_open (c_sh (g_s gs)) = true -> (b = true \/ (length (c_q (c_sh (g_s gs))) <= c_room (c_sh (g_s gs)))%nat) ->
  c02_logged_window logged (g_tr gs') = Some w ->
  forall n, In n (c02_epoch_assigned w) -> In n (c02_epoch_firsts w).
Proof. intros. eapply c02g_flush_step_of_shape; eauto. apply shape_ok. apply shape_logged_ok. Qed.

Theorem c02g_quiescent_gen persist logged open room sess apps sched gs w :
  forallb cop_ok sess = true -> cmsgs_ok apps = true ->
  greach gen_send_shape (ginit (cinit persist logged open room sess apps)) sched gs ->
  c02_logged_window logged (g_tr gs) = Some w ->
  c_q (c_sh (g_s gs)) = [] -> c_owner (c_sh (g_s gs)) = None ->
  forall n, In n (c02_epoch_assigned w) -> In n (c02_epoch_firsts w).
Proof. intros. eapply c02g_quiescent_of_shape; eauto. apply shape_ok. apply shape_logged_ok. Qed.

(* ---------- the windowed automaton agrees with c02_rstate on runs that never touch the connection ---------- *)
Lemma crconn_always_open gtr :
  (forall b, ~ In (GOut b) gtr) ->
  c02_rstate_conn true gtr =
  match c02_rstate (gerase gtr) with Some st => Some ((true, true), st) | None => None end.
Proof.
  induction gtr as [|e r IH]; intros Hno; [reflexivity|].
  assert (Hno' : forall b, ~ In (GOut b) r) by (intros b Hb; apply (Hno b); right; exact Hb).
  specialize (IH Hno'). cbn [c02_rstate_conn]. rewrite IH.
  destruct e as [ev|t o|b|b|].
  - cbn [gerase]. rewrite !c02_rstate_crs. cbn [crs_run]. rewrite <- c02_rstate_crs.
    destruct (c02_rstate (gerase r)) as [st|]; [|reflexivity]. cbn. destruct (crs_bad st ev); reflexivity.
  - cbn [gerase]. destruct (c02_rstate (gerase r)); reflexivity.
  - cbn [gerase]. destruct (c02_rstate (gerase r)); reflexivity.
  - exfalso. apply (Hno b). left. reflexivity.
  - cbn [gerase]. destruct (c02_rstate (gerase r)); reflexivity.
Qed.

(* ---------- the unrestricted form of clause (5) is false of the model ---------- *)
(* Message 1 is queued; the connection drops; a ResendRequest for 1 is answered while disconnected: its replay stays
   in toSend behind message 1; message 2 is queued behind it; the connection comes back; a second ResendRequest is
   answered, now with the connection open during the whole execution: its blocking sendQueued transmits
   1, replay of 1, 2, replay of 1 — a first-time message between two replayed ones inside one resendMessages
   execution.  (The engine itself sends a Logon through dropAndSend after every connect, which empties toSend first;
   the arbitrary session programs of the model do not: hence the window in c02_rstate_conn.)  78 steps. *)
Definition c02g_refute_sess : list cop := [OSetOut false 0; OResend 1 1 []; OSetOut true 100; OResend 1 1 []].
Definition c02g_refute_apps : list (list cmsg) := [[MApp false; MApp false]].
Definition c02g_refute_sched : list (nat * bool) :=
  map (fun t => (t, false)) (repeat 1%nat 14 ++ repeat 0%nat 27 ++ repeat 1%nat 14 ++ repeat 0%nat 23).

Lemma c02g_replay_needs_window :
  exists sess apps sched s,
    forallb cop_ok sess = true /\ cmsgs_ok apps = true /\
    creach gen_send_shape (cinit true true true 100 sess apps) sched s /\
    rev (c_trace (c_sh s)) =
      [EvAssign 1; EvSaved 1 0; EvResendBegin; EvResendEnd; EvAssign 2; EvSaved 2 1;
       EvResendBegin; EvWire (IFirst 1 0); EvWire (IReplay 1 0); EvWire (IFirst 2 1); EvWire (IReplay 1 0); EvResendEnd] /\
    c02_replay_excl_b (c_trace (c_sh s)) = false.
Proof.
  exists c02g_refute_sess, c02g_refute_apps, c02g_refute_sched. eexists.
  split; [reflexivity|]. split; [reflexivity|]. split; [vm_compute; reflexivity|]. split; vm_compute; reflexivity.
Qed.

(* ---------- why starting dropAndSend ends the logged-on window of clause (6) ---------- *)
(* IsLoggedOn() is true throughout; message 1 is queued by an application goroutine; the session goroutine runs
   dropAndSend (what handleLogon does on an acceptor that receives a Logon while in session): the queued message is
   dropped and never transmitted first-time.  28 steps. *)
Definition c02g_drop_sess : list cop := [ODropSend (MLogon false)].
Definition c02g_drop_apps : list (list cmsg) := [[MApp false]].
Definition c02g_drop_sched : list (nat * bool) := map (fun t => (t, false)) (repeat 1%nat 14 ++ repeat 0%nat 14).

Lemma c02g_dropsend_drops_while_logged_on :
  exists sess apps sched s,
    forallb cop_ok sess = true /\ cmsgs_ok apps = true /\
    creach gen_send_shape (cinit true true true 100 sess apps) sched s /\
    c_logged (c_sh s) = true /\ c_q (c_sh s) = [] /\ c_owner (c_sh s) = None /\
    rev (c_trace (c_sh s)) = [EvAssign 1; EvSaved 1 0; EvAssign 2; EvSaved 2 1; EvDrop; EvWire (IFirst 2 1)].
Proof.
  exists c02g_drop_sess, c02g_drop_apps, c02g_drop_sched. eexists.
  split; [reflexivity|]. split; [reflexivity|]. split; [vm_compute; reflexivity|]. repeat split; vm_compute; reflexivity.
Qed.

(* ---------- non-vacuity: a run with a disconnect, a logout, a reconnect, a Logon through dropAndSend that drops a
   queued message, a new logon, a heartbeat, a replay of 1..4 and a message left in toSend ---------- *)
Definition c02g_ex_sess : list cop :=
  [OFlush; OSetOut false 0; OSetLogged false; OSetOut true 100; ODropSend (MLogon false); OSetLogged true;
   OSend MAdmin; OResend 1 4 []; OFlush].
Definition c02g_ex_apps : list (list cmsg) := [[MApp false]; [MApp false; MApp false]].
Definition c02g_ex_sched : list (nat * bool) :=
  map (fun t => (t, false)) (repeat 1%nat 14 ++ repeat 0%nat 9 ++ repeat 2%nat 14 ++ repeat 0%nat 87 ++ repeat 2%nat 14).

Lemma c02g_example_run :
  forallb cop_ok c02g_ex_sess = true /\ cmsgs_ok c02g_ex_apps = true /\
  match grun gen_send_shape (ginit (cinit true true true 100 c02g_ex_sess c02g_ex_apps)) c02g_ex_sched with
  | Some gs =>
      rev (g_tr gs) =
        [GOp 1 (OQueue (MApp false)); GE (EvAssign 1); GE (EvSaved 1 0); GOp 0 OFlush; GE (EvWire (IFirst 1 0)); GQEmpty;
         GOp 0 (OSetOut false 0); GOut false; GQEmpty; GOp 0 (OSetLogged false); GLogged false;
         GOp 2 (OQueue (MApp false)); GE (EvAssign 2); GE (EvSaved 2 1); GOp 0 (OSetOut true 100); GOut true;
         GOp 0 (ODropSend (MLogon false)); GE (EvAssign 3); GE (EvSaved 3 2); GE EvDrop; GQEmpty; GE (EvWire (IFirst 3 2)); GQEmpty;
         GOp 0 (OSetLogged true); GLogged true; GOp 0 (OSend MAdmin); GE (EvAssign 4); GE (EvSaved 4 3);
         GE (EvWire (IFirst 4 3)); GQEmpty; GOp 0 (OResend 1 4 []); GE EvResendBegin; GE (EvWire (IReplay 1 0)); GQEmpty;
         GE (EvWire (IReplay 2 1)); GQEmpty; GE (EvWire (IGap 3 5)); GQEmpty; GE EvResendEnd; GOp 0 OFlush; GQEmpty;
         GOp 2 (OQueue (MApp false)); GE (EvAssign 5); GE (EvSaved 5 4)] /\
      c02_rstate_conn true (g_tr gs) = Some ((true, true), (false, false)) /\
      c02_logged_window true (g_tr gs) =
        Some [EvSaved 5 4; EvAssign 5; EvResendEnd; EvWire (IGap 3 5); EvWire (IReplay 2 1); EvWire (IReplay 1 0);
              EvResendBegin; EvWire (IFirst 4 3); EvSaved 4 3; EvAssign 4] /\
      c_q (c_sh (g_s gs)) = [IFirst 5 4]
  | None => False
  end.
Proof. split; [reflexivity|]. split; [reflexivity|]. vm_compute. repeat split. Qed.
