(* C02 proofs for the instrumented semantics (Conc/SendConcG.v): it simulates and is simulated by the original
   system, step by step; general facts about the events one step adds. *)
From Coq Require Import ZArith List Bool Lia Arith.
From QF Require Import Conc.ShapeLang Conc.SendConc Conc.ConcSpec Conc.ConcInv1 Conc.ConcStep1 Conc.ConcStep2
  Conc.ConcInv3 Conc.ConcStep3 Conc.SendConcG Conc.ConcSpecG.
Import ListNotations.
Open Scope Z_scope.

(* ---------- one original step only adds events ---------- *)
Lemma cbenign_ext tr tr' : cbenign tr tr' -> exists evs, tr' = evs ++ tr.
Proof. intros [evs [E _]]. eauto. Qed.

Lemma cexec_ext t ch g l st rest g' l' :
  cexec t ch g l st rest = Some (g', l') -> exists evs, c_trace g' = evs ++ c_trace g.
Proof.
  intros Hex. pose proof (cexec_store _ _ _ _ _ _ _ _ Hex) as H.
  destruct st; try (destruct H as (_ & Hb & _); apply cbenign_ext; exact Hb).
  - destruct H as [-> _]. exists []. reflexivity.
  - destruct H as (_ & E & _). exists [EvReset]. exact E.
  - destruct H as (_ & _ & id & E). exists [EvSaved (th_seq l) id; EvAssign (th_seq l)]. exact E.
  - destruct H as (_ & _ & E). exists [EvAssign (th_seq l)]. exact E.
Qed.

Lemma cstep_ext sh s t ch s' :
  cstep sh s t ch = Some s' -> exists evs, c_trace (c_sh s') = evs ++ c_trace (c_sh s).
Proof.
  unfold cstep. destruct (nth_error (c_ths s) t) as [l|]; [|discriminate].
  destruct (th_pc l) as [|st rest].
  - destruct (th_ops l); [discriminate|]. intros H; inversion H; subst. exists []. reflexivity.
  - destruct (cexec t ch (c_sh s) l st rest) as [[g' l']|] eqn:E; [|discriminate]. intros H; inversion H; subst. cbn.
    eapply cexec_ext; eauto.
Qed.

Lemma gnew_app (evs old : list cev) : gnew old (evs ++ old) = evs.
Proof.
  unfold gnew. rewrite app_length. replace (length evs + length old - length old)%nat with (length evs + 0)%nat by lia.
  rewrite firstn_app_2. cbn. apply app_nil_r.
Qed.

(* ---------- what an instrumented step is ---------- *)
Lemma gstep0_inv sh gs t ch gs' :
  gstep0 sh gs t ch = Some gs' ->
  exists evs, cstep sh (g_s gs) t ch = Some (g_s gs') /\
              c_trace (c_sh (g_s gs')) = evs ++ c_trace (c_sh (g_s gs)) /\
              g_tr gs' = gghost (g_s gs) t ++ map GE evs ++ g_tr gs.
Proof.
  unfold gstep0. destruct (cstep sh (g_s gs) t ch) as [s'|] eqn:E; [|discriminate].
  intros H; inversion H; subst; clear H. cbn.
  destruct (cstep_ext _ _ _ _ _ E) as [evs Hevs]. exists evs. split; [reflexivity|split; [exact Hevs|]].
  rewrite Hevs, gnew_app. reflexivity.
Qed.

(* an instrumented step = its core + possibly the marker "toSend is empty now" *)
Lemma gstep_split sh gs t ch gs' :
  gstep sh gs t ch = Some gs' ->
  exists gs0, gstep0 sh gs t ch = Some gs0 /\ g_s gs' = g_s gs0 /\ g_tr gs' = gpost (g_s gs) t (g_s gs0) ++ g_tr gs0.
Proof.
  unfold gstep. destruct (gstep0 sh gs t ch) as [gs0|]; [|discriminate].
  intros H; inversion H; subst; clear H. exists gs0. cbn. auto.
Qed.

Lemma gstep_inv sh gs t ch gs' :
  gstep sh gs t ch = Some gs' ->
  exists evs, cstep sh (g_s gs) t ch = Some (g_s gs') /\
              c_trace (c_sh (g_s gs')) = evs ++ c_trace (c_sh (g_s gs)) /\
              g_tr gs' = gpost (g_s gs) t (g_s gs') ++ gghost (g_s gs) t ++ map GE evs ++ g_tr gs.
Proof.
  intros H. destruct (gstep_split _ _ _ _ _ H) as (gs0 & H0 & Es & Et).
  destruct (gstep0_inv _ _ _ _ _ H0) as (evs & Hst & Hev & Htr). exists evs. rewrite Es, Et, Htr. auto.
Qed.

Lemma gpost_cases s t s' : gpost s t s' = [] \/ (gpost s t s' = [GQEmpty] /\ c_q (c_sh s') = []).
Proof.
  unfold gpost. destruct (nth_error (c_ths s) t) as [l|]; [|auto].
  destruct (th_pc l) as [|st rest]; [auto|]. destruct st; auto; destruct (c_q (c_sh s')); auto.
Qed.

(* ---------- erasing the markers ---------- *)
Lemma gerase_app a b : gerase (a ++ b) = gerase a ++ gerase b.
Proof. induction a as [|x a IH]; cbn; [reflexivity|]. destruct x; cbn; rewrite IH; reflexivity. Qed.
Lemma gerase_GE evs : gerase (map GE evs) = evs.
Proof. induction evs as [|e evs IH]; cbn; [reflexivity|]. rewrite IH. reflexivity. Qed.
Lemma gerase_post s t s' : gerase (gpost s t s') = [].
Proof. destruct (gpost_cases s t s') as [-> |[-> _]]; reflexivity. Qed.
Lemma gerase_ghost s t : gerase (gghost s t) = [].
Proof.
  unfold gghost. destruct (nth_error (c_ths s) t) as [l|]; [|reflexivity].
  destruct (th_pc l) as [|st rest]; [destruct (th_ops l); reflexivity|]. destruct st; reflexivity.
Qed.

(* ---------- simulation in both directions ---------- *)
Lemma gstep_sound sh gs t ch gs' :
  gstep sh gs t ch = Some gs' -> gerase (g_tr gs) = c_trace (c_sh (g_s gs)) ->
  cstep sh (g_s gs) t ch = Some (g_s gs') /\ gerase (g_tr gs') = c_trace (c_sh (g_s gs')).
Proof.
  intros H He. destruct (gstep_inv _ _ _ _ _ H) as (evs & Hst & Hev & Htr). split; [exact Hst|].
  rewrite Htr, Hev, !gerase_app, gerase_post, gerase_ghost, gerase_GE, He. reflexivity.
Qed.

Lemma grun_sound sh sched : forall gs gs',
  grun sh gs sched = Some gs' -> gerase (g_tr gs) = c_trace (c_sh (g_s gs)) ->
  crun sh (g_s gs) sched = Some (g_s gs') /\ gerase (g_tr gs') = c_trace (c_sh (g_s gs')).
Proof.
  induction sched as [|[t ch] r IH]; intros gs gs' H He; cbn in H.
  - inversion H; subst. split; [reflexivity|exact He].
  - destruct (gstep sh gs t ch) as [gs1|] eqn:E; [|discriminate].
    destruct (gstep_sound _ _ _ _ _ E He) as [Hst He1]. cbn. rewrite Hst. apply IH; auto.
Qed.

Lemma grun_complete sh sched : forall gs s',
  crun sh (g_s gs) sched = Some s' -> exists gs', grun sh gs sched = Some gs' /\ g_s gs' = s'.
Proof.
  induction sched as [|[t ch] r IH]; intros gs s' H; cbn in H.
  - inversion H; subst. exists gs. split; reflexivity.
  - destruct (cstep sh (g_s gs) t ch) as [s1|] eqn:E; [|discriminate].
    cbn. unfold gstep, gstep0. rewrite E. cbn [g_s g_tr].
    apply (IH {| g_s := s1; g_tr := gpost (g_s gs) t s1 ++ gghost (g_s gs) t ++ map GE (gnew (c_trace (c_sh (g_s gs))) (c_trace (c_sh s1))) ++ g_tr gs |}).
    exact H.
Qed.

Lemma ginit_erase s0 : gerase (g_tr (ginit s0)) = c_trace (c_sh (g_s (ginit s0))).
Proof. cbn. apply gerase_GE. Qed.

(* the instrumented system reaches exactly the states of the original one, under the same schedules, and its
   trace without the markers is the original trace *)
Theorem ginstr_sound sh s0 sched gs :
  greach sh (ginit s0) sched gs -> creach sh s0 sched (g_s gs) /\ gerase (g_tr gs) = c_trace (c_sh (g_s gs)).
Proof. intros H. apply (grun_sound sh sched (ginit s0) gs H (ginit_erase s0)). Qed.

Theorem ginstr_complete sh s0 sched s :
  creach sh s0 sched s -> exists gs, greach sh (ginit s0) sched gs /\ g_s gs = s.
Proof. intros H. apply (grun_complete sh sched (ginit s0) s H). Qed.

(* ---------- invariants along instrumented runs ---------- *)
Lemma grun_inv (P : gstate -> Prop) sh :
  (forall gs t ch gs', P gs -> gstep sh gs t ch = Some gs' -> P gs') ->
  forall sched gs gs', P gs -> grun sh gs sched = Some gs' -> P gs'.
Proof.
  intros Hstep. induction sched as [|[t ch] r IH]; intros gs gs' Hp Hr; cbn in Hr.
  - inversion Hr. subst. exact Hp.
  - destruct (gstep sh gs t ch) as [gs1|] eqn:E; [|discriminate]. eapply IH; [|exact Hr]. eapply Hstep; eauto.
Qed.

(* ---------- the marker of a step, by cases ---------- *)
Lemma gghost_load s t l o os : nth_error (c_ths s) t = Some l -> th_pc l = [] -> th_ops l = o :: os -> gghost s t = [GOp t o].
Proof. intros H1 H2 H3. unfold gghost. rewrite H1, H2, H3. reflexivity. Qed.
Lemma gghost_exec s t l st rest :
  nth_error (c_ths s) t = Some l -> th_pc l = st :: rest ->
  gghost s t = match st with SSetLogged b => [GLogged b] | SSetOut b => [GOut b] | _ => [] end.
Proof. intros H1 H2. unfold gghost. rewrite H1, H2. destruct st; reflexivity. Qed.

(* connection and logged-on flags change only by their own statements *)
Lemma cexec_env t ch g l st rest g' l' :
  cexec t ch g l st rest = Some (g', l') ->
  (match st with SSetOut b => c_open g' = b | _ => c_open g' = c_open g end) /\
  (match st with SSetLogged b => c_logged g' = b | _ => c_logged g' = c_logged g end).
Proof.
  destruct st; cexec_cases t g l; intros H; inversion H; subst; cbn; auto.
  destruct (cflush_fields g blocking) as (_ & _ & _ & _ & _ & _ & H1 & H2 & _). auto.
Qed.

(* the events a step adds, given what the original trace became *)
Lemma cext_eq (evs evs' tr : list cev) : evs ++ tr = evs' ++ tr -> evs = evs'.
Proof. apply app_inv_tail. Qed.
Lemma cext_nil (evs tr : list cev) : evs ++ tr = tr -> evs = [].
Proof. intros H. apply (app_inv_tail tr evs []). exact H. Qed.

(* the marker of a statement *)
Definition gmark (st : cstmt) : list gev :=
  match st with SSetLogged b => [GLogged b] | SSetOut b => [GOut b] | _ => [] end.
Lemma gghost_exec' s t l st rest :
  nth_error (c_ths s) t = Some l -> th_pc l = st :: rest -> gghost s t = gmark st.
Proof. intros H1 H2. rewrite (gghost_exec s t l st rest H1 H2). reflexivity. Qed.

(* only the resend write lock produces the begin / end markers of the original trace *)
Definition cev_nomark (e : cev) : bool := match e with EvResendBegin | EvResendEnd => false | _ => true end.
Definition cstmt_resw (st : cstmt) : bool := match st with SAcq MResW | SRel MResW => true | _ => false end.

Lemma cexec_nomark t ch g l st rest g' l' evs :
  cexec t ch g l st rest = Some (g', l') -> c_trace g' = evs ++ c_trace g -> cstmt_resw st = false ->
  Forall (fun e => cev_nomark e = true) evs.
Proof.
  intros Hex Hev Hst.
  destruct st; try discriminate Hst; try (destruct m; try discriminate Hst);
    revert Hex; cexec_cases t g l; intros Hex; inversion Hex; subst; clear Hex;
    cbn [c_trace cset_locks cset_sh cset_store cset_q cset_env] in Hev; symmetry in Hev.
  all: try (apply cext_nil in Hev; subst evs; constructor).
  all: try (apply (cext_eq evs [_]) in Hev; subst evs; repeat constructor).
  all: try (apply (cext_eq evs [_; _]) in Hev; subst evs; repeat constructor).
  (* SFlush *)
  1: destruct (cflush_eff g blocking) as (k & _ & E). rewrite E, cwire_evs_app in Hev. apply cext_eq in Hev. subst evs.
  1: apply Forall_rev; apply Forall_forall; intros e He; apply in_map_iff in He; destruct He as [i [<- _]]; reflexivity.
  (* SDropQ *)
  destruct (c_q g).
  - apply cext_nil in Hev; subst evs; constructor.
  - apply (cext_eq evs [_]) in Hev; subst evs; repeat constructor.
Qed.
