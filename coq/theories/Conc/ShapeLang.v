(* C02 — the small program language into which tools/gen_shape translates the send-path functions
   of /repo (session.go, in_session.go, session_state.go).  Gen/SendShape.v is a term of these types.
   One statement = one shared-memory relevant action of the Go code, in source order, with calls to
   tracked functions inlined, `defer` resolved to every function exit and `if` kept as a tree whose
   branches each run to the end of the entry function (continuation-passing translation). *)
From Coq Require Import ZArith List String.
Import ListNotations.

Inductive cmut := MSend      (* session.sendMutex *)
                | MResR      (* session.resendMutex, read side  (RLock/RUnlock) *)
                | MResW.     (* session.resendMutex, write side (Lock/Unlock)   *)

Inductive capp := AToAdmin | AToApp.

(* integer expressions of resendMessages *)
Inductive cexpr := EBegin | EEnd (* endSeqNo *) | EEnd1 (* endSeqNo+1 *) | ESent (* sentMessageSeqNum *) | ESent1 (* sentMessageSeqNum+1 *)
                 | EVSeq (* seqNum *) | EVNext (* nextSeqNum *).
Inductive cvar := VSeq | VNext.

Inductive ccond :=
| CLoggedOn                  (* s.IsLoggedOn() *)
| CRej                       (* the last ToApp callback returned an error (err != nil / !session.resend(msg)) *)
| CAdmin                     (* isAdminMessageType(msgType) *)
| CLogon                     (* bytes.Equal(msgType, msgTypeLogon) *)
| CResetFlag                 (* resetSeqNumFlag.Bool() *)
| CNoPersist                 (* s.DisableMessagePersist *)
| CNeq (a b : cexpr)         (* a != b *)
| CGt (a b : cexpr)          (* a > b *)
| COther                     (* a condition the translator does not interpret: either branch may be taken *)
| CNot (c : ccond).

Inductive cstmt :=
| SAcq (m : cmut) | SRel (m : cmut)
| SReadSnd                   (* seqNum = s.store.NextSenderMsgSeqNum() *)
| SCallApp (a : capp)        (* s.application.ToAdmin / ToApp *)
| SStoreReset                (* s.store.Reset() *)
| SBuild                     (* msgBytes = msg.build() : a first-time message carrying seqNum *)
| SReplayBuild               (* msg.buildWithBodyBytes(..) : a PossDup replay of the stored message *)
| SGapBuild (b e : cexpr)    (* generateSequenceReset(b, e): sequenceReset.build() *)
| SSaveIncr                  (* s.store.SaveMessageAndIncrNextSenderMsgSeqNum(seqNum, msgBytes) *)
| SIncrOnly                  (* s.store.IncrNextSenderMsgSeqNum() *)
| SAppend                    (* s.toSend = append(s.toSend, <the bytes built last>) *)
| SFlush (blocking : bool)   (* s.sendQueued(blocking) *)
| SDropQ                     (* s.dropQueued() *)
| SNotify                    (* s.notifyMessageOut() *)
| SAssign (v : cvar) (e : cexpr)
| SIf (c : ccond) (t e : list cstmt)
| SIter (body : list cstmt)  (* s.store.IterateMessages(beginSeqNo, endSeqNo, func(msgBytes) {body}) *)
| SSetLogged (b : bool)      (* model only: the session goroutine changes state (logon / logout) *)
| SSetOut (b : bool).        (* model only: connect / onDisconnect set or clear s.messageOut *)

(* the programs of the entry points, and the pinned text of the leaf functions *)
Record cshape := {
  sh_queue     : list cstmt;   (* session.queueForSend *)
  sh_send      : list cstmt;   (* session.sendInReplyTo *)
  sh_dropsend  : list cstmt;   (* session.dropAndSendInReplyTo *)
  sh_dropreset : list cstmt;   (* session.dropAndReset *)
  sh_flush     : list cstmt;   (* stateMachine.SendAppMessages *)
  sh_resend    : list cstmt;   (* inSession.resendMessages *)
  sh_enqueue   : list cstmt;   (* session.EnqueueBytesAndSend (already inlined in sh_resend; kept for reference) *)
  sh_logon     : list cstmt;   (* session.handleLogon, send-path relevant part *)
  sh_leaf      : list (string * list string)  (* sendQueued, sendBytes, dropQueued, notifyMessageOut, persist: normalised statement texts *)
}.
