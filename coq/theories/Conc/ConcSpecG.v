(* C02 — specification predicates for clauses (5) and (6) on the INSTRUMENTED trace (Conc/SendConcG.v),
   NEWEST EVENT FIRST.  They refine c02_rstate / c02_no_drop of ConcSpec.v by the two notions the original trace
   cannot express: "the connection stays open" and "the session stays logged on". *)
From Coq Require Import ZArith List Bool Lia.
From QF Require Import Conc.ShapeLang Conc.SendConc Conc.ConcSpec Conc.SendConcG.
Import ListNotations.
Open Scope Z_scope.

(* ---------- clause (5): replay exclusion while the connection stays open ---------- *)
(* one transition of the automaton of c02_rstate on state (inside a resendMessages execution?, has it transmitted
   a replayed item?): the violation test and the update *)
Definition crs_bad (st : bool * bool) (e : cev) : bool :=
  match e with
  | EvWire i => if citem_first i then fst st && snd st else citem_replay i && negb (fst st)
  | _ => false
  end.
Definition crs_upd (st : bool * bool) (e : cev) : bool * bool :=
  match e with
  | EvResendBegin => (true, false)
  | EvResendEnd => (false, false)
  | EvWire i => if citem_first i then st else (fst st, fst st)
  | _ => st
  end.

(* Processing the instrumented trace in time order, remember
     (connection open?, WINDOW: the connection has been open ever since toSend was last seen empty,
      (inside a resendMessages execution?, has it transmitted a replayed item?)).
   The window starts at the initial state when it is connected (toSend is empty) and whenever a dropQueued(), a
   sendQueued() or a connect leaves toSend empty while connected (after a connect the engine sends its Logon through
   dropAndSend, whose dropQueued() does this); it ends at a disconnect; a connect with a non-empty toSend does not
   start it: what was queued while disconnected is still there.
   Inside the window the two failures of c02_rstate are failures; outside it nothing is claimed. *)
Fixpoint c02_rstate_conn (open0 : bool) (gtr : list gev) : option ((bool * bool) * (bool * bool)) :=
  match gtr with
  | [] => Some ((open0, open0), (false, false))
  | e :: r =>
      match c02_rstate_conn open0 r with
      | None => None
      | Some ((op, win), st) =>
          match e with
          | GOut b => Some ((b, b && op && win), st)
          | GQEmpty => Some ((op, op), st)
          | GE ev => if win && crs_bad st ev then None else Some ((op, win), crs_upd st ev)
          | _ => Some ((op, win), st)
          end
      end
  end.
Definition c02_replay_excl_conn (open0 : bool) (gtr : list gev) : Prop := c02_rstate_conn open0 gtr <> None.
Definition c02_replay_excl_conn_b (open0 : bool) (gtr : list gev) : bool :=
  match c02_rstate_conn open0 gtr with Some _ => true | None => false end.

(* ---------- clause (6): nothing is dropped while the session stays logged on ---------- *)
(* the operations of the logon / logout / reset phases: dropAndSend (Logon, Logout while logging on), dropAndReset,
   handleLogon.  Starting one of them ends the logged-on window. *)
Definition cop_dropkind (o : cop) : bool :=
  match o with ODropSend _ | ODropReset | OLogon | OLogonResetUnlocked => true | _ => false end.

(* the original events (newest first) of the current LOGGED-ON WINDOW, if the session is in one: the window starts
   when IsLoggedOn() becomes true (or at the initial state when it is logged on) and ends when IsLoggedOn()
   becomes false or one of the operations above is started *)
Fixpoint c02_logged_window (logged0 : bool) (gtr : list gev) : option (list cev) :=
  match gtr with
  | [] => if logged0 then Some [] else None
  | GLogged true :: r => match c02_logged_window logged0 r with Some w => Some w | None => Some [] end
  | GLogged false :: _ => None
  | GOp _ o :: r => if cop_dropkind o then None else c02_logged_window logged0 r
  | GE e :: r => match c02_logged_window logged0 r with Some w => Some (e :: w) | None => None end
  | _ :: r => c02_logged_window logged0 r
  end.

(* number n is in the hands of the sendMutex holder: built, saved, about to be appended to toSend *)
Definition c02_inhand (s : cstate) (n : Z) : Prop :=
  exists t l id, nth_error (c_ths s) t = Some l /\ c_owner (c_sh s) = Some t /\ th_pend l = Some (IFirst n id).

(* every number consumed in the window (since the last reset, if there was one) is on the wire, in toSend or in hand *)
Definition c02_conserved (s : cstate) (w : list cev) : Prop :=
  forall n, In n (c02_epoch_assigned w) ->
    In n (c02_epoch_firsts w) \/ (exists id, In (IFirst n id) (c_q (c_sh s))) \/ c02_inhand s n.

(* ---------- additional shape conditions used by clause (6) (checked on the generated programs by vm_compute) ---------- *)
(* no dropQueued() on any path (application goroutines: queueForSend) *)
Fixpoint cnds_s (st : cstmt) : bool :=
  match st with
  | SDropQ | SSetLogged _ => false
  | SIf _ t e =>
      (fix go (l : list cstmt) : bool := match l with [] => true | x :: r => cnds_s x && go r end) t &&
      (fix go (l : list cstmt) : bool := match l with [] => true | x :: r => cnds_s x && go r end) e
  | SIter b => (fix go (l : list cstmt) : bool := match l with [] => true | x :: r => cnds_s x && go r end) b
  | _ => true
  end.
Fixpoint cnds_l (l : list cstmt) : bool := match l with [] => true | x :: r => cnds_s x && cnds_l r end.

(* no dropQueued() on the paths taken when IsLoggedOn() is true (session goroutine: sendInReplyTo, SendAppMessages,
   resendMessages) *)
Fixpoint cnd_s (st : cstmt) : bool :=
  match st with
  | SDropQ => false
  | SIf c t e =>
      let ft := (fix go (l : list cstmt) : bool := match l with [] => true | x :: r => cnd_s x && go r end) t in
      let fe := (fix go (l : list cstmt) : bool := match l with [] => true | x :: r => cnd_s x && go r end) e in
      match c with
      | CLoggedOn => ft
      | CNot CLoggedOn => fe
      | _ => ft && fe
      end
  | SIter b => (fix go (l : list cstmt) : bool := match l with [] => true | x :: r => cnd_s x && go r end) b
  | _ => true
  end.
Fixpoint cnd_l (l : list cstmt) : bool := match l with [] => true | x :: r => cnd_s x && cnd_l r end.

(* the generated programs do not change IsLoggedOn() themselves (that is the separate model operation OSetLogged) *)
Fixpoint cnosl_s (st : cstmt) : bool :=
  match st with
  | SSetLogged _ => false
  | SIf _ t e =>
      (fix go (l : list cstmt) : bool := match l with [] => true | x :: r => cnosl_s x && go r end) t &&
      (fix go (l : list cstmt) : bool := match l with [] => true | x :: r => cnosl_s x && go r end) e
  | SIter b => (fix go (l : list cstmt) : bool := match l with [] => true | x :: r => cnosl_s x && go r end) b
  | _ => true
  end.
Fixpoint cnosl_l (l : list cstmt) : bool := match l with [] => true | x :: r => cnosl_s x && cnosl_l r end.

Definition check_shape_logged (sh : cshape) : bool :=
  cnds_l (sh_queue sh) && cnd_l (sh_queue sh) && cnd_l (sh_send sh) && cnd_l (sh_flush sh) && cnd_l (sh_resend sh) &&
  (cnosl_l (sh_queue sh) && cnosl_l (sh_send sh) && cnosl_l (sh_dropsend sh) && cnosl_l (sh_dropreset sh) &&
   cnosl_l (sh_flush sh) && cnosl_l (sh_resend sh) && cnosl_l (sh_logon sh)).

(* ---- boolean form decides the Prop form ---- *)
Lemma c02_replay_excl_conn_b_iff open0 gtr : c02_replay_excl_conn_b open0 gtr = true <-> c02_replay_excl_conn open0 gtr.
Proof.
  unfold c02_replay_excl_conn_b, c02_replay_excl_conn. destruct (c02_rstate_conn open0 gtr); split; congruence.
Qed.
