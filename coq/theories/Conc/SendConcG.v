(* C02 — INSTRUMENTED semantics of the concurrent send-path model (Conc/SendConc.v), added for clauses (5) and (6).
   Nothing of SendConc.v is changed: an instrumented state is a state of the original system together with a
   GHOST trace that interleaves the original events (GE e) with markers the original trace does not contain:
     GOp t o     thread t starts operation o (queueForSend, sendInReplyTo, dropAndSend, resendMessages, ...)
     GLogged b   the session goroutine changes IsLoggedOn() to b        (statement SSetLogged b)
     GOut b      connect (b = true) / disconnect (b = false)           (statement SSetOut b)
     GQEmpty     toSend is empty after this step of dropQueued() / sendQueued() / connect
                 (statements SDropQ, SFlush, SSetOut; the original trace has EvDrop only when a NON-empty queue
                 was dropped and nothing at all when sendQueued sent everything)
   One instrumented step = one step [cstep] of the original system; the ghost trace is computed from the
   statement about to be executed and from the events the original step added.  The ghost trace is never read by
   the step function.  Conc/ConcStepG.v proves that the two systems simulate each other step by step
   (same schedules, same states, erasing the markers gives the original trace).
   No proofs here. *)
From Coq Require Import ZArith List Bool Lia.
From QF Require Import Conc.ShapeLang Conc.SendConc.
Import ListNotations.

Inductive gev :=
| GE (e : cev)
| GOp (t : nat) (o : cop)
| GLogged (b : bool)
| GOut (b : bool)
| GQEmpty.

(* the ghost trace is kept NEWEST FIRST, like the original one *)
Record gstate := { g_s : cstate; g_tr : list gev }.

(* the marker of the step thread t is about to take in s *)
Definition gghost (s : cstate) (t : nat) : list gev :=
  match nth_error (c_ths s) t with
  | None => []
  | Some l =>
      match th_pc l with
      | [] => match th_ops l with [] => [] | o :: _ => [GOp t o] end
      | SSetLogged b :: _ => [GLogged b]
      | SSetOut b :: _ => [GOut b]
      | _ => []
      end
  end.

(* the events a step added to the original trace: new = added ++ old *)
Definition gnew (old new : list cev) : list cev := firstn (length new - length old) new.

(* the core of an instrumented step: the original step, its events, the marker of the statement *)
Definition gstep0 (sh : cshape) (gs : gstate) (t : nat) (ch : bool) : option gstate :=
  match cstep sh (g_s gs) t ch with
  | None => None
  | Some s' =>
      Some {| g_s := s';
              g_tr := gghost (g_s gs) t ++ map GE (gnew (c_trace (c_sh (g_s gs))) (c_trace (c_sh s'))) ++ g_tr gs |}
  end.

(* the marker "toSend is empty now", after the statements that can empty toSend or open the connection *)
Definition gpost (s : cstate) (t : nat) (s' : cstate) : list gev :=
  match nth_error (c_ths s) t with
  | None => []
  | Some l =>
      match th_pc l with
      | SDropQ :: _ | SFlush _ :: _ | SSetOut _ :: _ => match c_q (c_sh s') with [] => [GQEmpty] | _ :: _ => [] end
      | _ => []
      end
  end.

Definition gstep (sh : cshape) (gs : gstate) (t : nat) (ch : bool) : option gstate :=
  match gstep0 sh gs t ch with
  | None => None
  | Some gs' => Some {| g_s := g_s gs'; g_tr := gpost (g_s gs) t (g_s gs') ++ g_tr gs' |}
  end.

Fixpoint grun (sh : cshape) (gs : gstate) (sched : list (nat * bool)) : option gstate :=
  match sched with
  | [] => Some gs
  | (t, ch) :: r => match gstep sh gs t ch with Some gs' => grun sh gs' r | None => None end
  end.
Definition greach (sh : cshape) (gs0 : gstate) (sched : list (nat * bool)) (gs : gstate) : Prop := grun sh gs0 sched = Some gs.

Definition ginit (s0 : cstate) : gstate := {| g_s := s0; g_tr := map GE (c_trace (c_sh s0)) |}.

(* forgetting the markers *)
Fixpoint gerase (gtr : list gev) : list cev :=
  match gtr with
  | [] => []
  | GE e :: r => e :: gerase r
  | _ :: r => gerase r
  end.
