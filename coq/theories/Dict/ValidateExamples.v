(* C15: a small dictionary and messages -- non-vacuity of the theorems, and the group instance on which the code
   used to accept a message with a required member missing from an entry that is not the last one (fixed in /repo;
   the model follows the repaired code). *)
From Coq Require Import ZArith List Bool String.
From QF Require Import Base.Res Base.Bytes Dict.Xml Dict.Build Dict.Validate Dict.ValidateSpec Dict.ValidateInst Dict.ValidateProofs Dict.ValidateGroups.
Import ListNotations.
Open Scope Z_scope.
Open Scope string_scope.

(* message X = required group NoG(100) with members A(101, required, delimiter) B(102, optional) C(103, required),
   then optional plain fields D(104, INT) E(105, CHAR with enumeration {a,b}) *)
Definition v_ex_doc : xdoc :=
  XD (B "FIX") (B "4") (B "2") 0
     (Some (XC [] [] [xF (B "BeginString") xY; xF (B "BodyLength") xY; xF (B "MsgType") xY]))
     (Some (XC [] [] [xF (B "CheckSum") xY]))
     [XC (B "X") (B "X") [xG (B "NoG") xY [xF (B "A") xY; xF (B "B") xN; xF (B "C") xY]; xF (B "D") xN; xF (B "E") xN];
      XC (B "P") (B "P") [xF (B "D") xY; xF (B "E") xN]]
     []
     [XF 8 (B "BeginString") (B "STRING") []; XF 9 (B "BodyLength") (B "LENGTH") []; XF 35 (B "MsgType") (B "STRING") [];
      XF 10 (B "CheckSum") (B "STRING") []; XF 100 (B "NoG") (B "NUMINGROUP") []; XF 101 (B "A") (B "STRING") [];
      XF 102 (B "B") (B "STRING") []; XF 103 (B "C") (B "STRING") []; XF 104 (B "D") (B "INT") [];
      XF 105 (B "E") (B "CHAR") [B "a"; B "b"]].

Definition v_ex_dict : dict :=
  match dict_build v_ex_doc with Ok d => d | _ => DD [] 0 0 0 [] [] [] [] None None end.

Definition v_ex_settings : v_settings := VS true true false true true.   (* the defaults *)

Definition v_ex_msg (body_tags : list Z) (mt : string) (body : list v_tv) : v_msg :=
  VM [8; 9; 35] body_tags [10] (Some (B mt))
     (([(8, B "FIX.4.2"); (9, B "5"); (35, B mt)] ++ body) ++ [(10, B "000")])%list.

(* a conforming message without groups: type P, D required *)
Definition v_ex_plain : v_msg := v_ex_msg [104; 105] "P" [(104, B "12"); (105, B "a")].
Lemma v_ex_plain_hyp :
  c15_config (Some v_ex_dict) None (B "P") v_ex_dict v_ex_dict /\
  c15_conforms v_ex_settings v_ex_dict v_ex_dict v_ex_plain = true /\
  c15_no_groups v_ex_dict v_ex_dict v_ex_plain /\
  validate v_ex_settings (Some v_ex_dict) None v_ex_plain = Ok None.
Proof. split; [constructor|]. split; [vm_compute; reflexivity|]. split; vm_compute; reflexivity. Qed.

(* mutants of it *)
Lemma v_ex_mutants :
  validate v_ex_settings (Some v_ex_dict) None (v_ex_msg [104; 105] "Q" [(104, B "12"); (105, B "a")])
    = Ok (Some (RR_INVALID_MSG_TYPE, None)) /\
  validate v_ex_settings (Some v_ex_dict) None (v_ex_msg [105] "P" [(105, B "a")])
    = Ok (Some (RR_REQUIRED_TAG_MISSING, Some 104)) /\
  validate v_ex_settings (Some v_ex_dict) None (v_ex_msg [104; 105] "P" [(104, []); (105, B "a")])
    = Ok (Some (RR_TAG_SPECIFIED_WITHOUT_A_VALUE, Some 104)) /\
  validate v_ex_settings (Some v_ex_dict) None (v_ex_msg [104; 105] "P" [(104, B "12"); (105, B "z")])
    = Ok (Some (RR_VALUE_IS_INCORRECT, Some 105)) /\
  validate v_ex_settings (Some v_ex_dict) None (v_ex_msg [104; 105] "P" [(104, B "1x"); (105, B "a")])
    = Ok (Some (RR_INCORRECT_DATA_FORMAT_FOR_VALUE, Some 104)) /\
  validate v_ex_settings (Some v_ex_dict) None (v_ex_msg [104; 105] "P" [(104, B "12"); (105, B "a"); (104, B "13")])
    = Ok (Some (RR_TAG_APPEARS_MORE_THAN_ONCE, Some 104)) /\
  validate v_ex_settings (Some v_ex_dict) None (v_ex_msg [104; 103] "P" [(104, B "12"); (103, B "c")])
    = Ok (Some (RR_TAG_NOT_DEFINED_FOR_THIS_MESSAGE_TYPE, Some 103)) /\
  validate v_ex_settings (Some v_ex_dict) None (v_ex_msg [104; 4999] "P" [(104, B "12"); (4999, B "c")])
    = Ok (Some (RR_INVALID_TAG_NUMBER, Some 4999)) /\
  validate v_ex_settings (Some v_ex_dict) None (v_ex_msg [104] "P" [(104, B "12"); (35, B "P")])
    = Ok (Some (RR_TAG_SPECIFIED_OUT_OF_REQUIRED_ORDER, Some 35)).
Proof. vm_compute. repeat split; reflexivity. Qed.

(* groups: a conforming message with two entries, and the same message with the required member C removed
   from the first / from the last entry: neither conforms, both are reported as (1, 103) *)
Definition v_ex_group_ok : v_msg :=
  v_ex_msg [100] "X" [(100, B "2"); (101, B "a"); (103, B "c"); (101, B "b"); (103, B "d")].
Definition v_ex_group_missing_first : v_msg :=
  v_ex_msg [100] "X" [(100, B "2"); (101, B "a"); (101, B "b"); (103, B "d")].
Definition v_ex_group_missing_last : v_msg :=
  v_ex_msg [100] "X" [(100, B "2"); (101, B "a"); (103, B "c"); (101, B "b")].

Lemma v_ex_group_witness :
  c15_conforms v_ex_settings v_ex_dict v_ex_dict v_ex_group_ok = true /\
  validate v_ex_settings (Some v_ex_dict) None v_ex_group_ok = Ok None /\
  c15_conforms v_ex_settings v_ex_dict v_ex_dict v_ex_group_missing_first = false /\
  validate v_ex_settings (Some v_ex_dict) None v_ex_group_missing_first = Ok (Some (RR_REQUIRED_TAG_MISSING, Some 103)) /\
  c15_conforms v_ex_settings v_ex_dict v_ex_dict v_ex_group_missing_last = false /\
  validate v_ex_settings (Some v_ex_dict) None v_ex_group_missing_last = Ok (Some (RR_REQUIRED_TAG_MISSING, Some 103)).
Proof. vm_compute. repeat split; reflexivity. Qed.

Lemma v_ex_group_hyp :
  c15_config (Some v_ex_dict) None (B "X") v_ex_dict v_ex_dict /\
  (exists md, dict_bget (B "X") (dd_messages v_ex_dict) = Some md /\ c15_wf_defsb v_ex_dict md = true) /\
  c15_conforms v_ex_settings v_ex_dict v_ex_dict v_ex_group_ok = true.
Proof.
  split; [constructor|]. split; [|vm_compute; reflexivity].
  destruct (dict_bget (B "X") (dd_messages v_ex_dict)) as [md|] eqn:E; [|vm_compute in E; discriminate].
  exists md. split; [reflexivity|]. vm_compute in E. injection E as <-. vm_compute. reflexivity.
Qed.
